import OptunaVerif.Lemmas.InMemorySteps2
/-! In-memory refinement, continued: `_update_cache`, `create_new_trial`, `set_trial_state_values`,
`get_best_trial`. -/
namespace OptunaVerif.InMemory
open OptunaVerif OptunaVerif.Storage

/-! ## small facts -/

theorem getTrial_of (m : State) (hS : InvS m) (sid num tid : Nat) (si : StudyInfo) (t : TrialS)
    (hsi : m.studies.get? sid = some si) (ht : si.trials[num]? = some (tid, t)) :
    getTrial m tid = .ok { sid := sid, num := num, id := tid, t := t } := by
  have hm := (hS.tmap tid sid num).2 ⟨si, t, hsi, ht⟩
  unfold getTrial
  rw [hm]; dsimp only; rw [hsi]; dsimp only; rw [ht]

theorem betterEq_refl' (d : Nat) (v : XVal) (h : v ≠ .nan) : betterEq d v v = true := by
  unfold betterEq; split <;> exact xle_refl v h

theorem goodVals_elim (vs : Option (List XVal)) (h : goodVals vs = true) : ∃ v, vs = some [v] ∧ v ≠ .nan := by
  unfold goodVals at h
  split at h
  · rename_i v; exact ⟨v, rfl, by simpa using h⟩
  · cases h

theorem value?_one (t : TrialS) (v : XVal) (h : t.values = some [v]) :
    value? t = .ok (some v) ∧ t.value0? = some v := by
  unfold value? TrialS.value0?; rw [h]; exact ⟨rfl, rfl⟩

theorem some_ne_some {j num : Nat} (h : j ≠ num) : some j ≠ some num := fun e => h (Option.some.inj e)

theorem dirs_single (d : Nat) (h : dirsOk [d] = true) : d = 1 ∨ d = 2 := by
  simp [dirsOk] at h; exact h

/-- a position that holds no COMPLETE trial need not be left out -/
theorem bestOk_drop_ex (x : StudyInfo) (num : Nat) (h : BestOk x (some num))
    (hnc : ∀ p, x.trials[num]? = some p → p.2.state ≠ .complete) : BestOk x none := by
  constructor
  · intro hn j p _ hp
    by_cases hj : j = num
    · subst hj; exact hnc p hp
    · exact h.none_ hn j p (some_ne_some hj) hp
  · intro b hb
    obtain ⟨j, t, _, hjt, hc, hdom⟩ := h.some_ b hb
    refine ⟨j, t, by simp, hjt, hc, ?_⟩
    intro d hd
    obtain ⟨v, hv, hall⟩ := hdom d hd
    refine ⟨v, hv, ?_⟩
    intro k q w _ hq hqc hqw
    by_cases hk : k = num
    · subst hk; exact absurd hqc (hnc q hq)
    · exact hall k q w (some_ne_some hk) hq hqc hqw

/-! ## `_update_cache` -/

theorem inv_setBest (m1 : State) (hS : InvS m1) (hpw : PWOk m1) (hgood : GoodOk m1) (sid tid : Nat)
    (si1 : StudyInfo) (hsi : m1.studies.get? sid = some si1)
    (hother : ∀ k x, m1.studies.get? k = some x → k ≠ sid → BestOk x none)
    (hnew : BestOk { si1 with bestTrialId := some tid } none) :
    InvS (setBest m1 sid tid) ∧ InvC (setBest m1 sid tid) ∧ (∀ s, Rel m1 s → Rel (setBest m1 sid tid) s) := by
  have back : ∀ k x, NMap.get? (NMap.upd m1.studies sid (fun si => { si with bestTrialId := some tid })) k = some x →
      ∃ y, m1.studies.get? k = some y ∧ x.trials = y.trials ∧ x.directions = y.directions ∧
        ((k = sid ∧ x = { si1 with bestTrialId := some tid }) ∨ (k ≠ sid ∧ x = y)) := by
    intro k x hx
    obtain ⟨y, hy, e⟩ := get?_upd_some _ _ _ _ _ hx
    refine ⟨y, hy, ?_⟩
    by_cases hk : k = sid
    · simp only [hk, if_true] at e
      rw [hk, hsi] at hy; cases hy
      subst e; exact ⟨rfl, rfl, .inl ⟨hk, rfl⟩⟩
    · simp only [hk, if_false] at e
      subst e; exact ⟨rfl, rfl, .inr ⟨hk, rfl⟩⟩
  refine ⟨?_, ⟨?_, ?_, ?_⟩, ?_⟩
  · exact invS_upd m1 sid (fun si => { si with bestTrialId := some tid }) hS (fun _ => rfl) (fun _ => rfl)
      (fun _ _ _ => rfl)
  · intro k x hx
    obtain ⟨y, hy, et, _, _⟩ := back k x hx
    rw [et]; exact hpw k y hy
  · intro k x d hx hd
    obtain ⟨y, hy, et, ed, _⟩ := back k x hx
    rw [et]; exact hgood k y d hy (by rw [← ed]; exact hd)
  · intro k x hx
    obtain ⟨y, hy, _, _, h | h⟩ := back k x hx
    · rw [h.2]; exact hnew
    · rw [h.2]; exact hother k y hy h.1
  · intro s hR
    exact rel_upd_same m1 s sid (fun si => { si with bestTrialId := some tid }) hR (fun _ => rfl) (fun _ => rfl)

/-- `_update_cache(trial_id, study_id)` after the trial at position `num` of the study was written:
it never faults, and it re-establishes the best-trial cache. -/
theorem updateCache_ok (m1 : State) (hS : InvS m1) (hpw : PWOk m1) (hgood : GoodOk m1) (sid num tid : Nat)
    (si1 : StudyInfo) (t : TrialS) (hsi : m1.studies.get? sid = some si1)
    (ht : si1.trials[num]? = some (tid, t))
    (hother : ∀ k x, m1.studies.get? k = some x → k ≠ sid → BestOk x none)
    (hhere : BestOk si1 (some num)) :
    ∃ m2, updateCache m1 tid sid = .ok m2 ∧ InvS m2 ∧ InvC m2 ∧ (∀ s, Rel m1 s → Rel m2 s) := by
  have hgt := getTrial_of m1 hS sid num tid si1 t hsi ht
  -- nothing changes
  have same : BestOk si1 none → ∃ m2, (Except.ok m1 : Except Err State) = .ok m2 ∧ InvS m2 ∧ InvC m2 ∧
      (∀ s, Rel m1 s → Rel m2 s) := by
    intro hb
    refine ⟨m1, rfl, hS, ⟨hpw, hgood, ?_⟩, fun _ h => h⟩
    intro k x hx
    by_cases hk : k = sid
    · rw [hk, hsi] at hx; cases hx; exact hb
    · exact hother k x hx hk
  -- the new trial becomes the best
  have change : BestOk { si1 with bestTrialId := some tid } none →
      ∃ m2, (Except.ok (setBest m1 sid tid) : Except Err State) = .ok m2 ∧ InvS m2 ∧ InvC m2 ∧
      (∀ s, Rel m1 s → Rel m2 s) := by
    intro hb
    obtain ⟨h1, h2, h3⟩ := inv_setBest m1 hS hpw hgood sid tid si1 hsi hother hb
    exact ⟨_, rfl, h1, h2, h3⟩
  unfold updateCache
  rw [hgt]; dsimp only
  by_cases hc : t.state = .complete
  · have hne : (t.state != .complete) = false := by rw [hc]; decide
    rw [hne]; simp only [Bool.false_eq_true, if_false]
    rw [hsi]; dsimp only
    cases hb : si1.bestTrialId with
    | none =>
      dsimp only
      apply change
      constructor
      · intro h; cases h
      · intro b hb'
        simp only [Option.some.injEq] at hb'
        subst hb'
        refine ⟨num, t, by simp, ht, hc, ?_⟩
        intro d hd
        obtain ⟨v, hv, hnan⟩ := goodVals_elim _ (hgood sid si1 d hsi hd num (tid, t) ht hc)
        refine ⟨v, (value?_one t v hv).2, ?_⟩
        intro k q w _ hq hqc hqw
        by_cases hk : k = num
        · subst hk
          rw [ht] at hq; cases hq
          rw [(value?_one t v hv).2] at hqw; cases hqw
          exact betterEq_refl' d v hnan
        · exact absurd hqc (hhere.none_ hb k q (some_ne_some hk) hq)
    | some b =>
      dsimp only
      obtain ⟨j, tb, hj, hjt, hbc, hdom⟩ := hhere.some_ b hb
      have hjn : j ≠ num := fun e => hj (by rw [e])
      have keep : BestOk si1 none → BestOk si1 none := id
      cases hd : si1.directions with
      | nil =>
        have := hS.dirs sid si1 hsi
        rw [hd] at this; simp [dirsOk] at this
      | cons d rest =>
        cases rest with
        | cons d2 rest2 =>
          dsimp only
          apply same
          constructor
          · intro h; rw [hb] at h; cases h
          · intro b' hb'
            rw [hb] at hb'; cases hb'
            refine ⟨j, tb, by simp, hjt, hbc, ?_⟩
            intro d' hd'
            rw [hd] at hd'; cases hd'
        | nil =>
          dsimp only
          rw [getTrial_of m1 hS sid j b si1 tb hsi hjt]; dsimp only
          obtain ⟨bv, hbv, hbnan⟩ := goodVals_elim _ (hgood sid si1 d hsi hd j (b, tb) hjt hbc)
          obtain ⟨nv, hnv, hnnan⟩ := goodVals_elim _ (hgood sid si1 d hsi hd num (tid, t) ht hc)
          rw [(value?_one tb bv hbv).1]; dsimp only
          rw [(value?_one t nv hnv).1]; dsimp only
          obtain ⟨v, hv, hall⟩ := hdom d hd
          rw [(value?_one tb bv hbv).2] at hv; cases hv
          have hd12 : d = 1 ∨ d = 2 := by
            have := hS.dirs sid si1 hsi
            rw [hd] at this; exact dirs_single d this
          -- the two outcomes, for either direction
          have stays : betterEq d bv nv = true → BestOk si1 none := by
            intro hbn
            constructor
            · intro h; rw [hb] at h; cases h
            · intro b' hb'
              rw [hb] at hb'; cases hb'
              refine ⟨j, tb, by simp, hjt, hbc, ?_⟩
              intro d' hd'
              rw [hd] at hd'; cases hd'
              refine ⟨bv, (value?_one tb bv hbv).2, ?_⟩
              intro k q w _ hq hqc hqw
              by_cases hk : k = num
              · subst hk
                rw [ht] at hq; cases hq
                rw [(value?_one t nv hnv).2] at hqw; cases hqw
                exact hbn
              · exact hall k q w (some_ne_some hk) hq hqc hqw
          have moves : betterEq d nv bv = true → BestOk { si1 with bestTrialId := some tid } none := by
            intro hnb
            constructor
            · intro h; cases h
            · intro b' hb'
              simp only [Option.some.injEq] at hb'
              subst hb'
              refine ⟨num, t, by simp, ht, hc, ?_⟩
              intro d' hd'
              have hd'' : si1.directions = [d'] := hd'
              rw [hd] at hd''; cases hd''
              refine ⟨nv, (value?_one t nv hnv).2, ?_⟩
              intro k q w _ hq hqc hqw
              by_cases hk : k = num
              · subst hk
                rw [ht] at hq; cases hq
                rw [(value?_one t nv hnv).2] at hqw; cases hqw
                exact betterEq_refl' d nv hnnan
              · have h1 := hall k q w (some_ne_some hk) hq hqc hqw
                unfold betterEq at h1 hnb ⊢
                split
                · rename_i hd1; simp only [hd1, if_true] at h1 hnb; exact xle_trans _ _ _ hnb h1
                · rename_i hd1; simp only [hd1] at h1 hnb; exact xle_trans _ _ _ h1 hnb
          rcases hd12 with hd1 | hd2
          · subst hd1
            have : ((1 : Nat) == 2) = false := by decide
            simp only [this, Bool.false_eq_true, if_false]
            cases hf : flt nv bv with
            | true =>
              simp only [if_true]
              apply change; apply moves
              simp only [betterEq, beq_self_eq_true, if_true]; exact flt_true _ _ hf
            | false =>
              simp only [Bool.false_eq_true, if_false]
              apply same; apply stays
              simp only [betterEq, beq_self_eq_true, if_true]; exact flt_false _ _ hnnan hbnan hf
          · subst hd2
            have h21 : ((2 : Nat) == 1) = false := by decide
            simp only [beq_self_eq_true, if_true]
            cases hf : flt bv nv with
            | true =>
              simp only [if_true]
              apply change; apply moves
              simp only [betterEq, h21, Bool.false_eq_true, if_false]; exact flt_true _ _ hf
            | false =>
              simp only [Bool.false_eq_true, if_false]
              apply same; apply stays
              simp only [betterEq, h21, Bool.false_eq_true, if_false]; exact flt_false _ _ hbnan hnnan hf
  · have hne : (t.state != .complete) = true := by simpa using hc
    rw [hne]; simp only [if_true]
    apply same
    exact bestOk_drop_ex si1 num hhere (by intro p hp; rw [ht] at hp; cases hp; exact hc)

/-! ## create_new_trial -/

theorem getElem?_append_ne {α : Type} (l : List α) (p : α) (j : Nat) (h : j ≠ l.length) :
    (l ++ [p])[j]? = l[j]? := by
  rcases Nat.lt_or_ge j l.length with hlt | hge
  · exact List.getElem?_append_left hlt
  · rw [List.getElem?_eq_none hge, List.getElem?_eq_none]
    simp; omega

theorem getElem?_append_len {α : Type} (l : List α) (p : α) : (l ++ [p])[l.length]? = some p := by
  rw [List.getElem?_append_right (Nat.le_refl _), Nat.sub_self]; rfl

theorem lt_of_getElem?_some {α : Type} (l : List α) (j : Nat) (a : α) (h : l[j]? = some a) : j < l.length := by
  rcases Nat.lt_or_ge j l.length with h' | h'
  · exact h'
  · rw [List.getElem?_eq_none h'] at h; cases h

theorem bestOk_append (si : StudyInfo) (p : Nat × TrialS) (h : BestOk si none) :
    BestOk { si with trials := si.trials ++ [p] } (some si.trials.length) := by
  have ne_of : ∀ j : Nat, some j ≠ some si.trials.length → j ≠ si.trials.length := fun j hj e => hj (by rw [e])
  constructor
  · intro hn j q hj hq
    have hq' : (si.trials ++ [p])[j]? = some q := hq
    rw [getElem?_append_ne _ _ _ (ne_of j hj)] at hq'
    exact h.none_ hn j q (by simp) hq'
  · intro b hb
    obtain ⟨j, t, _, hjt, hc, hdom⟩ := h.some_ b hb
    have hlt := lt_of_getElem?_some _ _ _ hjt
    have hjn : j ≠ si.trials.length := by omega
    refine ⟨j, t, some_ne_some hjn, ?_, hc, ?_⟩
    · show (si.trials ++ [p])[j]? = some (b, t)
      rw [getElem?_append_ne _ _ _ hjn]; exact hjt
    · intro d hd
      obtain ⟨v, hv, hall⟩ := hdom d hd
      refine ⟨v, hv, ?_⟩
      intro k q w hk hq hqc hqw
      have hq' : (si.trials ++ [p])[k]? = some q := hq
      rw [getElem?_append_ne _ _ _ (ne_of k hk)] at hq'
      exact hall k q w (by simp) hq' hqc hqw

theorem mkTrial_fields (sid num : Nat) (tmpl : Option Template) :
    (mkTrial sid num tmpl).number = num ∧ (mkTrial sid num tmpl).study = sid := by
  cases tmpl <;> exact ⟨rfl, rfl⟩

theorem createTrial_ok (m : State) (s : Spec) (hI : Inv m) (hR : Rel m s) (sid : Nat) (si : StudyInfo)
    (hsi : m.studies.get? sid = some si) (tmpl : Option Template)
    (hgoodNew : ∀ d, si.directions = [d] → (mkTrial sid si.trials.length tmpl).state = .complete →
      goodVals (mkTrial sid si.trials.length tmpl).values = true) :
    ∃ m2, updateCache { m with
        nextTrialId := m.nextTrialId + 1,
        tidMap := m.tidMap.set m.nextTrialId (sid, si.trials.length),
        studies := m.studies.upd sid (fun x => { x with trials := x.trials ++ [(m.nextTrialId, mkTrial sid si.trials.length tmpl)] }) }
        m.nextTrialId sid = .ok m2 ∧ Inv m2 ∧
      Rel m2 { s with trials := s.trials ++ [mkTrial sid (s.trialsOf sid).length tmpl] } := by
  obtain ⟨hnumber, hstudy⟩ := mkTrial_fields sid si.trials.length tmpl
  generalize ht : mkTrial sid si.trials.length tmpl = t at hgoodNew hnumber hstudy
  have hR_t : mkTrial sid (s.trialsOf sid).length tmpl = t := by rw [hR.trialsOf sid si hsi]; exact ht
  rw [hR_t]
  generalize hm1 : ({ m with
        nextTrialId := m.nextTrialId + 1,
        tidMap := m.tidMap.set m.nextTrialId (sid, si.trials.length),
        studies := m.studies.upd sid (fun x => { x with trials := x.trials ++ [(m.nextTrialId, t)] }) } : State) = m1
  have e_st : m1.studies = m.studies.upd sid (fun x => { x with trials := x.trials ++ [(m.nextTrialId, t)] }) := by
    rw [← hm1]
  have e_tm : m1.tidMap = m.tidMap.set m.nextTrialId (sid, si.trials.length) := by rw [← hm1]
  have e_nt : m1.nextTrialId = m.nextTrialId + 1 := by rw [← hm1]
  have e_ns : m1.nextStudyId = m.nextStudyId := by rw [← hm1]
  have e_nm : m1.nameToId = m.nameToId := by rw [← hm1]
  have e_pw : m1.prevWaiting = m.prevWaiting := by rw [← hm1]
  have back : ∀ k x, m1.studies.get? k = some x →
      (k = sid ∧ x = { si with trials := si.trials ++ [(m.nextTrialId, t)] }) ∨ (k ≠ sid ∧ m.studies.get? k = some x) := by
    intro k x hx
    rw [e_st] at hx
    obtain ⟨y, hy, e⟩ := get?_upd_some _ _ _ _ _ hx
    by_cases hk : k = sid
    · simp only [hk, if_true] at e
      rw [hk, hsi] at hy; cases hy
      exact .inl ⟨hk, e⟩
    · simp only [hk, if_false] at e
      subst e; exact .inr ⟨hk, hy⟩
  have here : m1.studies.get? sid = some { si with trials := si.trials ++ [(m.nextTrialId, t)] } := by
    rw [e_st]
    have := get?_upd_of_some m.studies sid sid (fun x => { x with trials := x.trials ++ [(m.nextTrialId, t)] }) si hsi
    simpa using this
  have other : ∀ k x, k ≠ sid → m.studies.get? k = some x → m1.studies.get? k = some x := by
    intro k x hk hx
    rw [e_st]
    have := get?_upd_of_some m.studies sid k (fun x => { x with trials := x.trials ++ [(m.nextTrialId, t)] }) x hx
    simpa [hk] using this
  have hS1 : InvS m1 := by
    constructor
    · rw [e_st, NMap.keys_upd]; exact hI.1.sKeys
    · intro k x hx
      rw [e_ns]
      rcases back k x hx with ⟨hk, _⟩ | ⟨_, hx'⟩
      · rw [hk]; exact hI.1.sBound sid si hsi
      · exact hI.1.sBound k x hx'
    · intro nm k
      rw [e_nm, hI.1.names]
      constructor
      · rintro ⟨y, hy, hname⟩
        by_cases hk : k = sid
        · rw [hk, hsi] at hy; cases hy
          exact ⟨{ si with trials := si.trials ++ [(m.nextTrialId, t)] }, by rw [hk]; exact here, hname⟩
        · exact ⟨y, other k y hk hy, hname⟩
      · rintro ⟨x, hx, hname⟩
        rcases back k x hx with ⟨hk, hx'⟩ | ⟨_, hx'⟩
        · subst hx'; exact ⟨si, by rw [hk]; exact hsi, hname⟩
        · exact ⟨x, hx', hname⟩
    · intro tid' k num'
      rw [e_tm, NMap.get?_set]
      constructor
      · intro h
        by_cases htid : tid' = m.nextTrialId
        · simp only [htid, if_true, Option.some.injEq, Prod.mk.injEq] at h
          obtain ⟨h1, h2⟩ := h
          subst h1; subst h2
          refine ⟨_, t, here, ?_⟩
          rw [htid]; exact getElem?_append_len si.trials _
        · simp only [htid, if_false] at h
          obtain ⟨y, t0, hy, ht0⟩ := (hI.1.tmap tid' k num').1 h
          by_cases hk : k = sid
          · rw [hk, hsi] at hy; cases hy
            refine ⟨_, t0, by rw [hk]; exact here, ?_⟩
            show (si.trials ++ [(m.nextTrialId, t)])[num']? = _
            rw [List.getElem?_append_left (lt_of_getElem?_some _ _ _ ht0)]; exact ht0
          · exact ⟨y, t0, other k y hk hy, ht0⟩
      · rintro ⟨x, t', hx, ht'⟩
        rcases back k x hx with ⟨hk, hx'⟩ | ⟨hk, hx'⟩
        · subst hx'
          have ht'' : (si.trials ++ [(m.nextTrialId, t)])[num']? = some (tid', t') := ht'
          by_cases hn : num' = si.trials.length
          · rw [hn, getElem?_append_len] at ht''
            simp only [Option.some.injEq, Prod.mk.injEq] at ht''
            simp [ht''.1.symm, hk, hn]
          · rw [getElem?_append_ne _ _ _ hn] at ht''
            have hlt := (hI.1.tfields sid si num' tid' t' hsi ht'').2.2
            have hne : tid' ≠ m.nextTrialId := by omega
            simp only [hne, if_false]
            rw [hk]; exact (hI.1.tmap tid' sid num').2 ⟨si, t', hsi, ht''⟩
        · have hlt := (hI.1.tfields k x num' tid' t' hx' ht').2.2
          have hne : tid' ≠ m.nextTrialId := by omega
          simp only [hne, if_false]
          exact (hI.1.tmap tid' k num').2 ⟨x, t', hx', ht'⟩
    · intro k x num' tid' t' hx ht'
      rw [e_nt]
      rcases back k x hx with ⟨hk, hx'⟩ | ⟨hk, hx'⟩
      · subst hx'
        have ht'' : (si.trials ++ [(m.nextTrialId, t)])[num']? = some (tid', t') := ht'
        by_cases hn : num' = si.trials.length
        · rw [hn, getElem?_append_len] at ht''
          simp only [Option.some.injEq, Prod.mk.injEq] at ht''
          obtain ⟨h1, h2⟩ := ht''
          subst h1; subst h2
          exact ⟨by rw [hn]; exact hnumber, by rw [hk]; exact hstudy, Nat.lt_succ_self _⟩
        · rw [getElem?_append_ne _ _ _ hn] at ht''
          have := hI.1.tfields sid si num' tid' t' hsi ht''
          exact ⟨this.1, by rw [hk]; exact this.2.1, Nat.lt_succ_of_lt this.2.2⟩
      · have := hI.1.tfields k x num' tid' t' hx' ht'
        exact ⟨this.1, this.2.1, Nat.lt_succ_of_lt this.2.2⟩
    · intro k x hx
      rcases back k x hx with ⟨_, hx'⟩ | ⟨_, hx'⟩
      · subst hx'; exact hI.1.dirs sid si hsi
      · exact hI.1.dirs k x hx'
  have hpw1 : PWOk m1 := by
    intro k x hx
    rw [e_pw]
    rcases back k x hx with ⟨hk, hx'⟩ | ⟨_, hx'⟩
    · subst hx'
      obtain ⟨c, hc, hle, hall⟩ := hI.2.pw sid si hsi
      refine ⟨c, by rw [hk]; exact hc, ?_, ?_⟩
      · show c ≤ (si.trials ++ [(m.nextTrialId, t)]).length
        simp; omega
      · intro j p hj hp
        have hp' : (si.trials ++ [(m.nextTrialId, t)])[j]? = some p := hp
        rw [getElem?_append_ne _ _ _ (by omega)] at hp'
        exact hall j p hj hp'
    · exact hI.2.pw k x hx'
  have hgood1 : GoodOk m1 := by
    intro k x d hx hd j p hp hpc
    rcases back k x hx with ⟨hk, hx'⟩ | ⟨_, hx'⟩
    · subst hx'
      have hp' : (si.trials ++ [(m.nextTrialId, t)])[j]? = some p := hp
      by_cases hn : j = si.trials.length
      · rw [hn, getElem?_append_len] at hp'
        simp only [Option.some.injEq] at hp'
        subst hp'
        exact hgoodNew d hd hpc
      · rw [getElem?_append_ne _ _ _ hn] at hp'
        exact hI.2.good sid si d hsi hd j p hp' hpc
    · exact hI.2.good k x d hx' hd j p hp hpc
  obtain ⟨m2, hm2, hS2, hC2, hrel⟩ := updateCache_ok m1 hS1 hpw1 hgood1 sid si.trials.length m.nextTrialId
    { si with trials := si.trials ++ [(m.nextTrialId, t)] } t here (getElem?_append_len si.trials _)
    (by
      intro k x hx hk
      rcases back k x hx with ⟨hk', _⟩ | ⟨_, hx'⟩
      · exact absurd hk' hk
      · exact hI.2.best k x hx')
    (bestOk_append si _ (hI.2.best sid si hsi))
  refine ⟨m2, hm2, ⟨hS2, hC2⟩, hrel _ ?_⟩
  constructor
  · show s.studies = absStudies m1
    rw [hR.studies]
    unfold absStudies
    rw [e_ns]
    apply List.map_congr_left
    intro i _
    rw [e_st, NMap.get?_upd]
    split
    · cases m.studies.get? i <;> rfl
    · rfl
  · show (s.trials ++ [t]).length = m1.nextTrialId
    rw [e_nt, List.length_append, hR.ntrials]; rfl
  · intro k x hx
    show trialsFrom k (s.trials ++ [t]) 0 = x.trials
    rw [Journal.trialsFrom_append]
    rcases back k x hx with ⟨hk, hx'⟩ | ⟨hk, hx'⟩
    · subst hx'
      have : (t.study == k) = true := by rw [hstudy, hk]; simp
      simp only [this, if_true, Nat.zero_add, hR.ntrials]
      rw [hk]
      show s.trialsOf sid ++ _ = _
      rw [hR.trialsOf sid si hsi]
    · have : (t.study == k) = false := by rw [hstudy]; simpa using fun e => hk e.symm
      simp only [this, Bool.false_eq_true, if_false, List.append_nil]
      exact hR.trialsOf k x hx'
  · intro t' ht'
    show t'.study < s.studies.length
    simp only [List.mem_append, List.mem_singleton] at ht'
    rcases ht' with h | h
    · exact hR.bound t' h
    · rw [h, hstudy, hR.studies, absStudies_length]; exact hI.1.sBound sid si hsi

theorem sim_createTrial (m : State) (s : Spec) (hI : Inv m) (hR : Rel m s) (sid : Nat) (tmpl : Option Template)
    (ir : Bool) (hL : Legal s (.createTrial sid tmpl ir) = true) : Sim m s (.createTrial sid tmpl ir) := by
  unfold Sim
  cases h : m.studies.get? sid with
  | none =>
    simp only [step, h, opFor, specStep, Storage.step, study?_none m s hI.1 hR sid h]
    exact ⟨hI, hR, accepts_refl _ _⟩
  | some si =>
    have hst := study?_some m s hI.1 hR sid si h
    have hgoodNew : ∀ d, si.directions = [d] → (mkTrial sid si.trials.length tmpl).state = .complete →
        goodVals (mkTrial sid si.trials.length tmpl).values = true := by
      intro d hd hc
      cases tmpl with
      | none => simp [mkTrial] at hc
      | some tm =>
        simp only [Legal, hst] at hL
        have hlen : si.pub.directions.length = 1 := by simp [StudyInfo.pub, hd]
        have hc' : tm.state = .complete := hc
        simp [hc', hlen] at hL
        exact hL
    obtain ⟨m2, hm2, hI2, hR2⟩ := createTrial_ok m s hI hR sid si h tmpl hgoodNew
    have hstep : step m (.createTrial sid tmpl ir) = (m2, .newId m.nextTrialId) := by
      simp only [step, h]; rw [hm2]
    rw [hstep]
    have hb : (Out.newId m.nextTrialId == Out.err Err.valueError) = false := by simp
    simp only [opFor, hb, specStep, Storage.step, hst, Bool.false_and, Bool.false_eq_true, if_false]
    refine ⟨hI2, hR2, ?_⟩
    rw [hR.ntrials]; exact accepts_refl _ _

/-! ## set_trial_state_values -/

/-- the new record written by `set_trial_state_values` -/
def stsvUpd (st : TState) (values : Option (List XVal)) (t : TrialS) : TrialS :=
  { t with state := st, values := values.or t.values, hasStart := t.hasStart || st == .running,
           hasComplete := t.hasComplete || st.isFinished }

theorem bestOk_set (si : StudyInfo) (num : Nat) (p0 p : Nat × TrialS) (h : BestOk si none)
    (h0 : si.trials[num]? = some p0) (hnc : p0.2.state ≠ .complete) :
    BestOk { si with trials := si.trials.set num p } (some num) := by
  have ne_of : ∀ j : Nat, some j ≠ some num → num ≠ j := fun j hj e => hj (by rw [e])
  have get_ne : ∀ j : Nat, num ≠ j → (si.trials.set num p)[j]? = si.trials[j]? := by
    intro j hj; rw [List.getElem?_set]; simp [hj]
  constructor
  · intro hn j q hj hq
    have hq' : (si.trials.set num p)[j]? = some q := hq
    rw [get_ne j (ne_of j hj)] at hq'
    exact h.none_ hn j q (by simp) hq'
  · intro b hb
    obtain ⟨j, t, _, hjt, hc, hdom⟩ := h.some_ b hb
    have hjn : num ≠ j := by
      intro e; rw [← e, h0] at hjt; cases hjt; exact hnc hc
    refine ⟨j, t, some_ne_some (fun e => hjn e.symm), ?_, hc, ?_⟩
    · show (si.trials.set num p)[j]? = some (b, t)
      rw [get_ne j hjn]; exact hjt
    · intro d hd
      obtain ⟨v, hv, hall⟩ := hdom d hd
      refine ⟨v, hv, ?_⟩
      intro k q w hk hq hqc hqw
      have hq' : (si.trials.set num p)[k]? = some q := hq
      rw [get_ne k (ne_of k hk)] at hq'
      exact hall k q w (by simp) hq' hqc hqw

/-- `_set_trial` of the record with the new state: everything is in place for `_update_cache` / the
cursor repair. -/
theorem stsv_write (m : State) (s : Spec) (hI : Inv m) (hR : Rel m s) (tid : Nat) (f : Found)
    (hu : getUpdatable m tid = .ok f) (st : TState) (values : Option (List XVal))
    (hgoodNew : ∀ si d, m.studies.get? f.sid = some si → si.directions = [d] → st = .complete →
      goodVals (values.or f.t.values) = true) :
    InvS (setTrial m f.sid f.num (f.id, stsvUpd st values f.t)) ∧
    GoodOk (setTrial m f.sid f.num (f.id, stsvUpd st values f.t)) ∧
    Rel (setTrial m f.sid f.num (f.id, stsvUpd st values f.t)) (s.updTrial tid (stsvUpd st values)) ∧
    (∃ si1, (setTrial m f.sid f.num (f.id, stsvUpd st values f.t)).studies.get? f.sid = some si1 ∧
      si1.trials[f.num]? = some (tid, stsvUpd st values f.t) ∧ BestOk si1 (some f.num) ∧
      ∃ c, m.prevWaiting.get? f.sid = some c ∧ c ≤ si1.trials.length ∧
        ∀ (j : Nat) p, j < c → j ≠ f.num → si1.trials[j]? = some p → p.2.state ≠ .waiting) ∧
    (∀ k x, (setTrial m f.sid f.num (f.id, stsvUpd st values f.t)).studies.get? k = some x → k ≠ f.sid →
      m.studies.get? k = some x) := by
  obtain ⟨hget, _, hnf⟩ := getUpdatable_ok m s hI.1 hR tid f hu
  obtain ⟨hid, ⟨si, hsi, ht⟩, _⟩ := getTrial_ok m s hI.1 hR tid f hget
  have hlt := lt_of_getElem?_some _ _ _ ht
  have hrel := rel_setTrial m s hI.1 hR tid f hget (stsvUpd st values) (fun _ => rfl)
  rw [hid] at hrel ⊢
  have here : (setTrial m f.sid f.num (tid, stsvUpd st values f.t)).studies.get? f.sid =
      some { si with trials := si.trials.set f.num (tid, stsvUpd st values f.t) } := by
    have := get?_upd_of_some m.studies f.sid f.sid
      (fun x => { x with trials := x.trials.set f.num (tid, stsvUpd st values f.t) }) si hsi
    simp only [if_true] at this
    exact this
  have other : ∀ k x, (setTrial m f.sid f.num (tid, stsvUpd st values f.t)).studies.get? k = some x → k ≠ f.sid →
      m.studies.get? k = some x := by
    intro k x hx hk
    obtain ⟨y, hy, e⟩ := get?_upd_some _ _ _ _ _ hx
    simp only [hk, if_false] at e
    rw [e]; exact hy
  have get_ne : ∀ j : Nat, f.num ≠ j → (si.trials.set f.num (tid, stsvUpd st values f.t))[j]? = si.trials[j]? := by
    intro j hj; rw [List.getElem?_set]; simp [hj]
  have get_eq : (si.trials.set f.num (tid, stsvUpd st values f.t))[f.num]? = some (tid, stsvUpd st values f.t) := by
    rw [List.getElem?_set]; simp [hlt]
  have hnc : f.t.state ≠ .complete := by
    intro e; rw [e] at hnf; cases hnf
  refine ⟨invS_setTrial m hI.1 f.sid f.num tid si f.t _ hsi ht rfl rfl, ?_, hrel, ?_, other⟩
  · intro k x d hx hd j p hp hpc
    by_cases hk : k = f.sid
    · rw [hk, here] at hx; cases hx
      have hp' : (si.trials.set f.num (tid, stsvUpd st values f.t))[j]? = some p := hp
      by_cases hj : f.num = j
      · rw [← hj, get_eq] at hp'
        simp only [Option.some.injEq] at hp'
        subst hp'
        exact hgoodNew si d hsi hd hpc
      · rw [get_ne j hj] at hp'
        exact hI.2.good f.sid si d hsi hd j p hp' hpc
    · exact hI.2.good k x d (other k x hx hk) hd j p hp hpc
  · refine ⟨_, here, get_eq, bestOk_set si f.num (tid, f.t) _ (hI.2.best f.sid si hsi) ht hnc, ?_⟩
    obtain ⟨c, hc, hle, hall⟩ := hI.2.pw f.sid si hsi
    refine ⟨c, hc, by simpa using hle, ?_⟩
    intro j p hj hjn hp
    have hp' : (si.trials.set f.num (tid, stsvUpd st values f.t))[j]? = some p := hp
    rw [get_ne j (fun e => hjn e.symm)] at hp'
    exact hall j p hj hp'

end OptunaVerif.InMemory
