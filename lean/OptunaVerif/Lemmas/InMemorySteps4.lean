import OptunaVerif.Lemmas.InMemorySteps3
/-! In-memory refinement, end: `set_trial_state_values`, `get_best_trial`, and every call together. -/
namespace OptunaVerif.InMemory
open OptunaVerif OptunaVerif.Storage

/-! ## set_trial_state_values -/

/-- the model's branch, with the written record named -/
theorem step_stsv (m : State) (tid : Nat) (st : TState) (values : Option (List XVal)) :
    step m (.setTrialStateValues tid st values) =
      match getUpdatable m tid with
      | .error e => (m, .err e)
      | .ok f =>
        if st == .running && f.t.state != .waiting then (m, .bool false)
        else
          if st.isFinished then
            match updateCache (setTrial m f.sid f.num (f.id, stsvUpd st values f.t)) tid f.sid with
            | .ok m2 => (m2, .bool true)
            | .error e => (setTrial m f.sid f.num (f.id, stsvUpd st values f.t), .err e)
          else if st == .waiting then
            ({ setTrial m f.sid f.num (f.id, stsvUpd st values f.t) with
                prevWaiting := (setTrial m f.sid f.num (f.id, stsvUpd st values f.t)).prevWaiting.upd f.sid
                  (fun c => min c (stsvUpd st values f.t).number) }, .bool true)
          else (setTrial m f.sid f.num (f.id, stsvUpd st values f.t), .bool true) := by
  rfl

theorem sim_setTrialStateValues (m : State) (s : Spec) (hI : Inv m) (hR : Rel m s) (tid : Nat) (st : TState)
    (values : Option (List XVal)) (hL : Legal s (.setTrialStateValues tid st values) = true) :
    Sim m s (.setTrialStateValues tid st values) := by
  unfold Sim
  rw [step_stsv]
  cases hu : getUpdatable m tid with
  | error e =>
    simp only [opFor, specStep, Storage.step, getUpdatable_error m s hI.1 hR tid e hu]
    exact ⟨hI, hR, accepts_refl _ _⟩
  | ok f =>
    obtain ⟨hget, hw, hnf⟩ := getUpdatable_ok m s hI.1 hR tid f hu
    obtain ⟨hid, ⟨si, hsi, ht⟩, _, hstudy, hnum, _⟩ := getTrial_ok m s hI.1 hR tid f hget
    have hst : s.study? f.t.study = some si.pub := by rw [hstudy]; exact study?_some m s hI.1 hR f.sid si hsi
    by_cases hguard : (st == .running && f.t.state != .waiting) = true
    · simp only [hguard, if_true, opFor, specStep, Storage.step, hw]
      exact ⟨hI, hR, accepts_refl _ _⟩
    · have hguard' : (st == .running && f.t.state != .waiting) = false := by simpa using hguard
      have hgoodNew : ∀ si' d, m.studies.get? f.sid = some si' → si'.directions = [d] → st = .complete →
          goodVals (values.or f.t.values) = true := by
        intro si' d hsi' hd hc
        rw [hsi] at hsi'; cases hsi'
        simp only [Legal, hw, hst] at hL
        have hlen : si.pub.directions.length = 1 := by simp [StudyInfo.pub, hd]
        simp [hc, hlen] at hL
        exact hL
      obtain ⟨hS1, hG1, hR1, ⟨si1, hsi1, ht1, hB1, c, hc, hcle, hcall⟩, hoth⟩ :=
        stsv_write m s hI hR tid f hu st values hgoodNew
      have hspec : ∀ o, specStep s (opFor (.setTrialStateValues tid st values) o) =
          (s.updTrial tid (stsvUpd st values), .bool true) := by
        intro o
        simp only [opFor, specStep, Storage.step, hw, hguard', Bool.false_eq_true, if_false]
        rfl
      simp only [hguard', Bool.false_eq_true, if_false, hspec]
      generalize hm1 : setTrial m f.sid f.num (f.id, stsvUpd st values f.t) = m1 at hS1 hG1 hR1 hsi1 hoth
      have e_pw : m1.prevWaiting = m.prevWaiting := by rw [← hm1]; rfl
      by_cases hfin : st.isFinished = true
      · -- a finished state: `_update_cache`
        have hpw1 : PWOk m1 := by
          intro k x hx
          by_cases hk : k = f.sid
          · rw [hk, hsi1] at hx; cases hx
            refine ⟨c, by rw [e_pw, hk]; exact hc, hcle, ?_⟩
            intro j p hj hp
            by_cases hjn : j = f.num
            · rw [hjn, ht1] at hp; cases hp
              show st ≠ .waiting
              intro e; rw [e] at hfin; cases hfin
            · exact hcall j p hj hjn hp
          · rw [e_pw]; exact hI.2.pw k x (hoth k x hx hk)
        obtain ⟨m2, hm2, hS2, hC2, hrel⟩ := updateCache_ok m1 hS1 hpw1 hG1 f.sid f.num tid si1 _ hsi1 ht1
          (fun k x hx hk => hI.2.best k x (hoth k x hx hk)) hB1
        simp only [hfin, if_true, hm2]
        exact ⟨⟨hS2, hC2⟩, hrel _ hR1, accepts_refl _ _⟩
      · have hfin' : st.isFinished = false := by simpa using hfin
        have hncomp : st ≠ .complete := by intro e; rw [e] at hfin'; cases hfin'
        have hbest1 : ∀ k x, m1.studies.get? k = some x → BestOk x none := by
          intro k x hx
          by_cases hk : k = f.sid
          · rw [hk, hsi1] at hx; cases hx
            exact bestOk_drop_ex si1 f.num hB1 (by intro p hp; rw [ht1] at hp; cases hp; exact hncomp)
          · exact hI.2.best k x (hoth k x hx hk)
        simp only [hfin', Bool.false_eq_true, if_false]
        by_cases hwt : (st == .waiting) = true
        · -- back to WAITING: the cursor is lowered
          have hwt' : st = .waiting := by simpa using hwt
          simp only [hwt, if_true]
          refine ⟨⟨invS_prevWaiting m1 _ hS1, ⟨?_, hG1, hbest1⟩⟩, rel_prevWaiting m1 _ _ hR1, accepts_refl _ _⟩
          intro k x hx
          show ∃ c', NMap.get? (NMap.upd m1.prevWaiting f.sid _) k = some c' ∧ _
          rw [NMap.get?_upd, e_pw]
          by_cases hk : k = f.sid
          · have hx' : m1.studies.get? k = some x := hx
            rw [hk, hsi1] at hx'; cases hx'
            simp only [hk, if_true, hc, Option.map_some]
            refine ⟨_, rfl, Nat.le_trans (Nat.min_le_left _ _) hcle, ?_⟩
            intro j p hj hp
            have hnum' : (stsvUpd st values f.t).number = f.num := hnum
            rw [hnum'] at hj
            exact hcall j p (by omega) (by omega) hp
          · simp only [hk, if_false]
            exact hI.2.pw k x (hoth k x hx hk)
        · have hwt' : st ≠ .waiting := by simpa using hwt
          have hwt'' : (st == .waiting) = false := by simpa using hwt
          simp only [hwt'', Bool.false_eq_true, if_false]
          refine ⟨⟨hS1, ⟨?_, hG1, hbest1⟩⟩, hR1, accepts_refl _ _⟩
          intro k x hx
          by_cases hk : k = f.sid
          · rw [hk, hsi1] at hx; cases hx
            refine ⟨c, by rw [e_pw, hk]; exact hc, hcle, ?_⟩
            intro j p hj hp
            by_cases hjn : j = f.num
            · rw [hjn, ht1] at hp; cases hp
              exact hwt'
            · exact hcall j p hj hjn hp
          · rw [e_pw]; exact hI.2.pw k x (hoth k x hx hk)

/-! ## get_best_trial -/

theorem mem_bestSet (d : Nat) (l : List (Nat × TrialS)) (j b : Nat) (t : TrialS) (hj : l[j]? = some (b, t))
    (hc : t.state = .complete) (hdom : Dominates d l none t) : (b, t) ∈ bestSet d l := by
  obtain ⟨v, hv, hall⟩ := hdom
  unfold bestSet
  simp only
  rw [List.mem_map]
  refine ⟨(b, t, v), ?_, rfl⟩
  rw [List.mem_filter]
  constructor
  · unfold completeWithValue
    rw [List.mem_filterMap]
    exact ⟨(b, t), List.mem_of_getElem? hj, by simp [hc, hv]⟩
  · rw [List.all_eq_true]
    intro q hq
    unfold completeWithValue at hq
    rw [List.mem_filterMap] at hq
    obtain ⟨a, ha, hF⟩ := hq
    obtain ⟨k, hk⟩ := getElem?_of_mem _ _ ha
    by_cases hac : a.2.state = .complete
    · simp only [hac, beq_self_eq_true, if_true] at hF
      cases hw : a.2.value0? with
      | none => simp [hw] at hF
      | some w =>
        simp only [hw, Option.map_some, Option.some.injEq] at hF
        subst hF
        exact hall k a w (by simp) hk hac hw
    · have : (a.2.state == TState.complete) = false := by simpa using hac
      simp [this] at hF

theorem bestSet_nil (d : Nat) (l : List (Nat × TrialS))
    (h : ∀ (j : Nat) p, l[j]? = some p → p.2.state ≠ .complete) : bestSet d l = [] := by
  have : completeWithValue l = [] := by
    unfold completeWithValue
    rw [List.filterMap_eq_nil_iff]
    intro a ha
    obtain ⟨k, hk⟩ := getElem?_of_mem _ _ ha
    have : (a.2.state == TState.complete) = false := by simpa using h k a hk
    simp [this]
  unfold bestSet
  simp [this]

theorem sim_getBestTrial (m : State) (s : Spec) (hI : Inv m) (hR : Rel m s) (sid : Nat) :
    Sim m s (.getBestTrial sid) := by
  unfold Sim
  cases h : m.studies.get? sid with
  | none =>
    simp only [step, h, opFor, specStep, Storage.step, study?_none m s hI.1 hR sid h]
    exact ⟨hI, hR, accepts_refl _ _⟩
  | some si =>
    have hst := study?_some m s hI.1 hR sid si h
    have hbest := hI.2.best sid si h
    have hdirs := hI.1.dirs sid si h
    have htr := hR.trialsOf sid si h
    cases hd : si.directions with
    | nil => rw [hd] at hdirs; simp [dirsOk] at hdirs
    | cons d rest =>
      cases rest with
      | nil =>
        have hpd : si.pub.directions = [d] := hd
        cases hb : si.bestTrialId with
        | none =>
          have hnil := bestSet_nil d si.trials (fun j p hp => hbest.none_ hb j p (by simp) hp)
          simp only [step, h, hb, opFor, specStep, Storage.step, hst, hpd, htr, hnil]
          exact ⟨hI, hR, accepts_refl _ _⟩
        | some b =>
          obtain ⟨j, t, _, hjt, hc, hdom⟩ := hbest.some_ b hb
          have hmem := mem_bestSet d si.trials j b t hjt hc (hdom d hd)
          have hgt := getTrial_of m hI.1 sid j b si t h hjt
          have hlen : ¬ (si.directions.length > 1) := by rw [hd]; simp
          simp only [step, h, hb, hlen, if_false, hgt, opFor, specStep, Storage.step, hst, hpd, htr]
          cases hbs : bestSet d si.trials with
          | nil => rw [hbs] at hmem; cases hmem
          | cons x xs =>
            rw [hbs] at hmem
            refine ⟨hI, hR, ?_⟩
            simp [accepts, hmem]
      | cons d2 rest2 =>
        have hpd : si.pub.directions = d :: d2 :: rest2 := hd
        cases hb : si.bestTrialId with
        | none =>
          simp only [step, h, hb, opFor, specStep, Storage.step, hst, hpd]
          exact ⟨hI, hR, by simp [accepts]⟩
        | some b =>
          have hlen : si.directions.length > 1 := by rw [hd]; simp
          simp only [step, h, hb, hlen, if_true, opFor, specStep, Storage.step, hst, hpd]
          exact ⟨hI, hR, accepts_refl _ _⟩

/-! ## every call -/

/-- **One call of the in-memory storage is one call of the contract** (on a legal call): the
invariant is kept, the abstraction commutes with the step, the answer is one the contract allows. -/
theorem sim_all (m : State) (s : Spec) (hI : Inv m) (hR : Rel m s) (op : Op) (hL : Legal s op = true) :
    Sim m s op := by
  cases op with
  | createStudy name dirs => exact sim_createStudy m s hI hR name dirs hL
  | deleteStudy sid => exact sim_deleteStudy m s hI hR sid
  | setStudyUserAttr sid k v => exact sim_setStudyUserAttr m s hI hR sid k v
  | setStudySystemAttr sid k v => exact sim_setStudySystemAttr m s hI hR sid k v
  | createTrial sid tmpl ir => exact sim_createTrial m s hI hR sid tmpl ir hL
  | setTrialParam tid name p ir => exact sim_setTrialParam m s hI hR tid name p ir
  | setTrialStateValues tid st values => exact sim_setTrialStateValues m s hI hR tid st values hL
  | setTrialInter tid stp v => exact sim_setTrialInter m s hI hR tid stp v
  | setTrialUserAttr tid k v => exact sim_setTrialUserAttr m s hI hR tid k v
  | setTrialSystemAttr tid k v => exact sim_setTrialSystemAttr m s hI hR tid k v
  | getStudyIdFromName name => exact sim_getStudyIdFromName m s hI hR name
  | getStudyNameFromId sid => exact sim_getStudyNameFromId m s hI hR sid
  | getStudyDirections sid => exact sim_getStudyDirections m s hI hR sid
  | getStudyUserAttrs sid => exact sim_getStudyUserAttrs m s hI hR sid
  | getStudySystemAttrs sid => exact sim_getStudySystemAttrs m s hI hR sid
  | getAllStudies => exact sim_getAllStudies m s hI hR
  | getTrialIdFromNumber sid number => exact sim_getTrialIdFromNumber m s hI hR sid number
  | getTrialNumberFromId tid => exact sim_getTrialNumberFromId m s hI hR tid
  | getTrialParam tid name => exact sim_getTrialParam m s hI hR tid name
  | getTrial tid => exact sim_getTrial m s hI hR tid
  | getAllTrials sid states => exact sim_getAllTrials m s hI hR sid states
  | getNTrials sid states => exact sim_getNTrials m s hI hR sid states
  | getBestTrial sid => exact sim_getBestTrial m s hI hR sid

theorem inv_init : Inv init := by
  refine ⟨⟨by simp [init], ?_, ?_, ?_, ?_, ?_⟩, ⟨?_, ?_, ?_⟩⟩
  all_goals simp [init, NMap.get?, AList.get?, PWOk, GoodOk]

theorem rel_init : Rel init Storage.init := by
  refine ⟨rfl, rfl, ?_, ?_⟩
  · intro sid si h; simp [init, NMap.get?] at h
  · intro t ht; simp [Storage.init] at ht

/-! ## a used-up study id is a study created and deleted -/

theorem updAt_append_last {α : Type} (l : List α) (a : α) (f : α → α) :
    updAt (l ++ [a]) l.length f = l ++ [f a] := by
  induction l with
  | nil => rfl
  | cons x r ih => simp [updAt, ih]

/-- total length of the names in use: a longer name is free -/
def nameBound : List (Option StudyS) → Nat
  | [] => 0
  | none :: r => nameBound r
  | some st :: r => st.name.length + nameBound r

theorem le_nameBound (l : List (Option StudyS)) (st : StudyS) (h : some st ∈ l) :
    st.name.length ≤ nameBound l := by
  induction l with
  | nil => cases h
  | cons o r ih =>
    simp only [List.mem_cons] at h
    cases o with
    | none =>
      rcases h with h | h
      · cases h
      · exact ih h
    | some x =>
      rcases h with h | h
      · simp only [Option.some.injEq] at h; subst h; simp [nameBound]
      · have := ih h; simp only [nameBound]; omega

def freshName (s : Spec) : String := String.ofList (List.replicate (nameBound s.studies + 1) 'x')

theorem freshName_free (s : Spec) : s.nameTaken (freshName s) = false := by
  cases h : s.nameTaken (freshName s) with
  | false => rfl
  | true =>
    exfalso
    unfold Spec.nameTaken at h
    rw [List.any_eq_true] at h
    obtain ⟨o, ho, hp⟩ := h
    cases o with
    | none => simp at hp
    | some st =>
      have e : st.name = freshName s := by simpa using hp
      have h1 := le_nameBound s.studies st ho
      have h2 : (freshName s).length = nameBound s.studies + 1 := by
        simp [freshName, String.length_ofList]
      rw [e, h2] at h1
      omega

/-- The contract state after a rejected in-memory `create_new_study` is the contract state after
creating a study under any free name and deleting it at once. -/
theorem burn_eq_create_delete (s : Spec) (name : String) (dirs : List Nat) (h : s.nameTaken name = false) :
    (Storage.step (Storage.step s (.createStudy name dirs)).1 (.deleteStudy s.studies.length)).1 = burn s := by
  simp only [Storage.step, h, Bool.false_eq_true, if_false]
  have : ({ s with studies := s.studies ++ [some (StudyS.mk name dirs [] [] [])] } : Spec).study? s.studies.length =
      some (StudyS.mk name dirs [] [] []) := by
    simp [Spec.study?]
  rw [this]
  simp only [burn, updAt_append_last]

end OptunaVerif.InMemory
