import OptunaVerif.Model.Journal
/-! Lemmas about the journal replay model: every handler factors through a worker-independent
transformer of the shared (public) part of the state. -/
namespace OptunaVerif.Journal
open OptunaVerif OptunaVerif.Storage

/-- The error the *issuer* of record `r` gets when it is replayed on public state `s` (if any). -/
def rejects (s : Spec) : Rec → Option Err
  | .createStudy _ name _ => if s.nameTaken name then some .duplicated else none
  | .deleteStudy _ sid | .setStudyUserAttr _ sid _ _ | .setStudySystemAttr _ sid _ _ | .createTrial _ sid _ =>
    match s.study? sid with | none => some .keyError | some _ => none
  | .setTrialParam _ tid name p =>
    match updatable s tid with
    | .error e => some e
    | .ok t =>
      match firstDistOf s t.study name with
      | some d0 => if d0.compat p.dist then none else some .valueError
      | none => none
  | .setTrialStateValues _ tid _ _ | .setTrialInter _ tid _ _ | .setTrialUserAttr _ tid _ _
  | .setTrialSystemAttr _ tid _ _ =>
    match updatable s tid with | .error e => some e | .ok _ => none

/-- What replaying `r` does to the public state — the same for every worker. -/
def applySpec (s : Spec) (r : Rec) : Spec :=
  match rejects s r with
  | some _ => s
  | none =>
    match r with
    | .createStudy _ name dirs => { s with studies := s.studies ++ [some (StudyS.mk name dirs [] [] [])] }
    | .deleteStudy _ sid => { s with studies := updAt s.studies sid (fun _ => none) }
    | .setStudyUserAttr _ sid k v => s.updStudy sid (fun x => { x with userAttrs := x.userAttrs.set k v })
    | .setStudySystemAttr _ sid k v => s.updStudy sid (fun x => { x with systemAttrs := x.systemAttrs.set k v })
    | .createTrial _ sid tmpl => { s with trials := s.trials ++ [mkTrial sid (s.trialsOf sid).length tmpl] }
    | .setTrialParam _ tid name p =>
      match updatable s tid with
      | .ok t => setParam s tid t.study name p
      | .error _ => s
    | .setTrialStateValues _ tid state values =>
      match updatable s tid with
      | .ok t =>
        if state == .running && t.state == .running then s
        else s.updTrial tid (fun t => { t with
          state := state, values := values.or t.values,
          hasStart := t.hasStart || state == .running, hasComplete := t.hasComplete || state.isFinished })
      | .error _ => s
    | .setTrialInter _ tid stp v => s.updTrial tid (fun t => { t with inter := setInter t.inter stp v })
    | .setTrialUserAttr _ tid k v => s.updTrial tid (fun t => { t with userAttrs := t.userAttrs.set k v })
    | .setTrialSystemAttr _ tid k v => s.updTrial tid (fun t => { t with systemAttrs := t.systemAttrs.set k v })

/-- Key fact: a handler's effect on the public state and the error it raises are determined by the
public state and the record; the worker identity only decides *whether* the error is raised. -/
theorem apply_spec (w : String) (st : JState) (r : Rec) :
    (apply w st r).1.spec = applySpec st.spec r ∧
    (apply w st r).2 = (if r.worker == w then rejects st.spec r else none) := by
  cases r <;> simp only [apply, applySpec, rejects, reject, Rec.worker] <;>
    (repeat' split) <;> (try simp_all) <;> (repeat' split) <;> (try simp_all)

theorem apply_cursor (w : String) (st : JState) (r : Rec) : (apply w st r).1.cursor = st.cursor := by
  cases r <;> simp only [apply, reject] <;> (repeat' split) <;> rfl

end OptunaVerif.Journal

namespace OptunaVerif.Journal
open OptunaVerif OptunaVerif.Storage

/-- replaying a record issued by *another* worker touches neither what this worker owns nor the id
of the trial this process created last -/
theorem apply_foreign_local (w : String) (st : JState) (r : Rec) (h : (r.worker == w) = false) :
    (apply w st r).1.owned.get? w = st.owned.get? w ∧ (apply w st r).1.lastCreated = st.lastCreated := by
  cases r <;> simp only [Rec.worker] at h <;> simp only [apply, reject, Rec.worker, h] <;>
    (repeat' split) <;> simp_all

theorem applyAll_foreign_local (w : String) (st : JState) (rs : List Rec) (h : ∀ r ∈ rs, (r.worker == w) = false) :
    (applyAll w st rs).owned.get? w = st.owned.get? w ∧ (applyAll w st rs).lastCreated = st.lastCreated := by
  induction rs generalizing st with
  | nil => exact ⟨rfl, rfl⟩
  | cons r rs ih =>
    have h1 := apply_foreign_local w { st with cursor := st.cursor + 1 } r (h r (by simp))
    have h2 := ih (apply w { st with cursor := st.cursor + 1 } r).1 (fun x hx => h x (by simp [hx]))
    exact ⟨h2.1.trans h1.1, h2.2.trans h1.2⟩

end OptunaVerif.Journal
