import OptunaVerif.Model.JournalAppend
/-! Lemmas on splitting a byte string into complete lines and an unterminated tail. -/
namespace OptunaVerif.JournalAppend
open OptunaVerif.JournalFile

def enc (rs : List (List Nat)) : List Nat := rs.flatMap (· ++ [nl])

theorem splitRec_snoc (f : List Nat) (cur : List Nat) (b : Nat) :
    splitRec (f ++ [b]) cur =
      if b = nl then ((splitRec f cur).1 ++ [(splitRec f cur).2], [])
      else ((splitRec f cur).1, (splitRec f cur).2 ++ [b]) := by
  induction f generalizing cur with
  | nil =>
    by_cases hb : b = nl <;> simp [splitRec, hb]
  | cons a r ih =>
    simp only [List.cons_append, splitRec]
    by_cases ha : a = nl
    · simp only [ha, if_true]
      rw [ih []]
      by_cases hb : b = nl <;> simp [hb]
    · simp only [ha, if_false]
      exact ih _

theorem enc_split (f cur : List Nat) :
    enc (splitRec f cur).1 ++ (splitRec f cur).2 = cur ++ f := by
  induction f generalizing cur with
  | nil => simp [splitRec, enc]
  | cons a r ih =>
    simp only [splitRec]
    by_cases ha : a = nl
    · simp only [ha, if_true]
      have := ih []
      simp only [List.nil_append] at this
      simp only [enc, List.flatMap_cons] at this ⊢
      rw [List.append_assoc, this]
      simp
    · simp only [ha, if_false]
      rw [ih (cur ++ [a])]
      simp

/-- a byte string is its complete lines followed by its tail -/
theorem file_eq (f : List Nat) : enc (records f) ++ tail f = f := by
  have := enc_split f []
  simpa [records, tail] using this

theorem tail_snoc_ne (f : List Nat) (b : Nat) (hb : b ≠ nl) :
    records (f ++ [b]) = records f ∧ tail (f ++ [b]) = tail f ++ [b] := by
  unfold records tail; rw [splitRec_snoc]; simp [hb]

theorem tail_snoc_nl (f : List Nat) :
    records (f ++ [nl]) = records f ++ [tail f] ∧ tail (f ++ [nl]) = [] := by
  unfold records tail; rw [splitRec_snoc]; simp

theorem splitRec_noNl (f cur : List Nat) (h : nl ∉ cur) :
    nl ∉ (splitRec f cur).2 ∧ ∀ r ∈ (splitRec f cur).1, nl ∉ r := by
  induction f generalizing cur with
  | nil => simp [splitRec, h]
  | cons a r ih =>
    simp only [splitRec]
    by_cases ha : a = nl
    · simp only [ha, if_true]
      have := ih [] (by simp)
      refine ⟨this.1, ?_⟩
      intro x hx
      simp only [List.mem_cons] at hx
      rcases hx with hx | hx
      · subst hx; exact h
      · exact this.2 x hx
    · simp only [ha, if_false]
      exact ih _ (by simp [h]; exact fun e => ha e.symm)

theorem tail_noNl (f : List Nat) : nl ∉ tail f := (splitRec_noNl f [] (by simp)).1

theorem splitRec_enc (rs : List (List Nat)) (h : ∀ r ∈ rs, nl ∉ r) : splitRec (enc rs) [] = (rs, []) := by
  induction rs with
  | nil => simp [enc, splitRec]
  | cons r rs ih =>
    have hr : nl ∉ r := h r (by simp)
    have ih' := ih (fun x hx => h x (by simp [hx]))
    -- consume the bytes of r, then the newline
    have key : ∀ (pre rest : List Nat), nl ∉ rest →
        splitRec (rest ++ [nl] ++ enc rs) pre = ((pre ++ rest) :: rs, []) := by
      intro pre rest
      induction rest generalizing pre with
      | nil => intro _; simp [splitRec, ih']
      | cons b bs ihb =>
        intro hb
        have hbne : b ≠ nl := by intro e; apply hb; simp [e]
        simp only [List.cons_append, splitRec, hbne, if_false]
        have := ihb (pre ++ [b]) (by intro hm; apply hb; simp [hm])
        simpa using this
    have := key [] r hr
    simpa [enc, List.flatMap_cons] using this

/-- the repair step removes exactly the tail -/
theorem repair_eq (f : List Nat) : repair f = enc (records f) := by
  unfold repair
  have hl := congrArg List.length (file_eq f)
  simp only [List.length_append] at hl
  have e : f.length - (tail f).length = (enc (records f)).length := by omega
  rw [e]
  have : List.take (enc (records f)).length f =
      List.take (enc (records f)).length (enc (records f) ++ tail f) := by rw [file_eq f]
  rw [this, List.take_left']
  rfl

theorem records_repair (f : List Nat) : records (repair f) = records f ∧ tail (repair f) = [] := by
  rw [repair_eq]
  have h := splitRec_noNl f [] (by simp)
  have := splitRec_enc (records f) h.2
  unfold records tail at *
  rw [this]; simp

end OptunaVerif.JournalAppend
