import OptunaVerif.Model.JournalFile
/-! Lemmas about the byte-level journal reader: the offset cache as a finite map. -/
namespace OptunaVerif.JournalFile

theorem get?_set (c : Cache) (k o k' : Nat) :
    (c.set k o).get? k' = if k' = k then some o else c.get? k' := by
  unfold Cache.set Cache.get?
  by_cases h : k' = k
  · subst h; simp
  · simp only [h, if_false]
    have h2 : (k == k') = false := by simp; exact fun e => h e.symm
    simp only [List.find?_cons, h2]
    congr 1
    induction c with
    | nil => rfl
    | cons a r ih =>
      simp only [List.filter_cons]
      by_cases ha : a.1 = k
      · have : (a.1 != k) = false := by simp [ha]
        have h3 : (a.1 == k') = false := by simp [ha]; exact fun e => h e.symm
        simp only [this, List.find?_cons, h3]
        exact ih
      · have : (a.1 != k) = true := by simp [ha]
        simp only [this, if_true, List.find?_cons]
        split
        · rfl
        · exact ih

theorem get?_del (c : Cache) (k k' : Nat) :
    (c.del k).get? k' = if k' = k then none else c.get? k' := by
  unfold Cache.del Cache.get?
  induction c with
  | nil => simp
  | cons a r ih =>
    simp only [List.filter_cons]
    by_cases ha : a.1 = k
    · have : (a.1 != k) = false := by simp [ha]
      simp only [this, List.find?_cons]
      by_cases h : k' = k
      · subst h; simpa using ih
      · have h3 : (a.1 == k') = false := by simp [ha]; exact fun e => h e.symm
        simp only [h3]
        simpa [h] using ih
    · have : (a.1 != k) = true := by simp [ha]
      simp only [this, if_true, List.find?_cons]
      by_cases h : k' = k
      · subst h
        have h3 : (a.1 == k') = false := by simp [ha]
        simp only [h3, if_true] at ih ⊢
        simpa using ih
      · simp only [h, if_false] at ih ⊢
        split
        · rfl
        · exact ih

/-- byte offset of line `k` -/
def offsetOf (all : List Line) (k : Nat) : Nat := ((all.take k).map (·.len)).sum

theorem offsetOf_succ (all : List Line) (k : Nat) (ln : Line) (h : all[k]? = some ln) :
    offsetOf all (k + 1) = offsetOf all k + ln.len := by
  unfold offsetOf
  rw [List.take_succ, h]
  simp

def Complete (ln : Line) : Bool := ln.terminated && ln.valid

end OptunaVerif.JournalFile
