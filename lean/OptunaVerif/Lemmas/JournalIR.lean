import OptunaVerif.Model.JournalIR
/-! Lemmas used by `Props/C06Gen.lean` (the generated journal handlers equal the hand model). -/
namespace OptunaVerif.JournalIR
open OptunaVerif OptunaVerif.Storage OptunaVerif.Journal

theorem tstate_beq (a b : TState) : (a == b) = decide (a = b) := by
  cases a <;> cases b <;> rfl

theorem isFinished_running : TState.running.isFinished = false := rfl
theorem isFinished_complete : TState.complete.isFinished = true := rfl
theorem isFinished_pruned : TState.pruned.isFinished = true := rfl
theorem isFinished_fail : TState.fail.isFinished = true := rfl
theorem isFinished_waiting : TState.waiting.isFinished = false := rfl

theorem updAt_concat_length {α : Type} (l : List α) (a : α) (f : α → α) :
    updAt (l ++ [a]) l.length f = l ++ [f a] := by
  induction l with
  | nil => simp [updAt]
  | cons x t ih => simp [updAt, ih]

theorem updAt_const {α : Type} (l : List α) (i : Nat) (a : α) (f : α → α) (h : l[i]? = some a) :
    updAt l i (fun _ => f a) = updAt l i f := by
  induction l generalizing i with
  | nil => simp [updAt]
  | cons x t ih =>
    cases i with
    | zero => simp at h; simp [updAt, h]
    | succ i => simp at h; simp [updAt, ih i h]

theorem trial?_some {s : Spec} {tid : Nat} {t : TrialS} (h : s.trial? tid = some t) : s.trials[tid]? = some t := by
  unfold Spec.trial? at h
  cases h2 : s.trials[tid]? with
  | none => simp [h2] at h
  | some t' =>
    simp only [h2] at h
    split at h
    · simpa using h
    · simp at h

theorem updTrial_const (s : Spec) (tid : Nat) (t : TrialS) (f : TrialS → TrialS) (h : s.trial? tid = some t) :
    s.updTrial tid (fun _ => f t) = s.updTrial tid f := by
  simp only [Spec.updTrial, updAt_const _ _ _ _ (trial?_some h)]

theorem trial?_concat (s : Spec) (t : TrialS) (h : (s.study? t.study).isSome = true) :
    Spec.trial? { s with trials := s.trials ++ [t] } s.trials.length = some t := by
  simp [Spec.trial?, Spec.study?] at *
  simp [h]

theorem buildTrial_all (sid n : Nat) (tmpl : Option Template) :
    buildTrial sid n tmpl [.state, .values, .params, .userAttrs, .systemAttrs, .inter, .start, .complete] = mkTrial sid n tmpl := by
  cases tmpl <;> simp [buildTrial, mkTrial]

end OptunaVerif.JournalIR
