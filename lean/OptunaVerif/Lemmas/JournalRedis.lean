import OptunaVerif.Model.JournalRedis
/-!
Lemmas about the small-step model of the Redis journal backend (`Model/JournalRedis.lean`): the
invariant of the key space and of every worker's program counter, its preservation by every event.
The invariant is stated on `(db, pcs)` where `pcs w` is the program counter of worker `w`; whether a
worker is dead plays no role in it (a dead worker's pending `SET` stays pending for ever).
-/
namespace OptunaVerif.JournalRedis
variable {ρ : Type}

/-- every (number, record) pair of the list is in the store -/
def Stored (db : Redis ρ) (d : List (Int × ρ)) : Prop := ∀ p ∈ d, db.log p.1 = some p.2

/-- the keys `k, k+1, …, k+|acc|-1` hold exactly the records of `acc`, in order -/
def Slice (log : Int → Option ρ) (k : Int) (acc : List ρ) : Prop :=
  ∀ i (h : i < acc.length), log (k + (i : Nat)) = some acc[i]

/-- what holds of the store when a worker is at `pc` -/
def PcOk (cfg : Cfg) (db : Redis ρ) : PC ρ → Prop
  | .appEval d _ _ => cfg.cluster = false ∧ db.counter ≠ none ∧ Stored db d
  | .appIncr d _ _ => cfg.cluster = true ∧ db.counter ≠ none ∧ Stored db d
  | .appSet d n _ _ =>
    cfg.cluster = true ∧ (∃ c, db.counter = some c ∧ 0 ≤ n ∧ n ≤ c) ∧ db.log n = none ∧ Stored db d
  | .rdGet k cur max acc =>
    (k : Int) ≤ cur ∧ cur ≤ max ∧ (∃ c, db.counter = some c ∧ max ≤ c) ∧ Slice db.log k acc ∧
      (k : Int) + (acc.length : Nat) = cur
  | _ => True

abbrev Pcs (ρ : Type) := Nat → Option (PC ρ)

def upd (pcs : Pcs ρ) (w : Nat) (pc : PC ρ) : Pcs ρ := fun v => if v = w then some pc else pcs v

structure InvP (cfg : Cfg) (db : Redis ρ) (pcs : Pcs ρ) : Prop where
  /-- `SETNX` writes -1 and `INCR` only counts up -/
  cnt : ∀ c, db.counter = some c → -1 ≤ c
  /-- no log key outside `0..counter` -/
  range : ∀ n r, db.log n = some r → ∃ c, db.counter = some c ∧ 0 ≤ n ∧ n ≤ c
  loc : ∀ w pc, pcs w = some pc → PcOk cfg db pc
  /-- a number is handed to one worker only -/
  uniq : ∀ w w' d n r rest d' r' rest',
    pcs w = some (.appSet d n r rest) → pcs w' = some (.appSet d' n r' rest') → w = w'
  /-- every absent key within `0..counter` is the pending `SET` of some worker (alive or dead) -/
  owner : ∀ c n, db.counter = some c → 0 ≤ n → n ≤ c → db.log n = none →
    ∃ w d r rest, pcs w = some (.appSet d n r rest)

/-- the store only grows -/
structure Ext (db db' : Redis ρ) : Prop where
  cnt : ∀ c, db.counter = some c → ∃ c', db'.counter = some c' ∧ c ≤ c'
  log : ∀ n r, db.log n = some r → db'.log n = some r

theorem Ext.refl (db : Redis ρ) : Ext db db := ⟨fun c h => ⟨c, h, Int.le_refl c⟩, fun _ _ h => h⟩

theorem Ext.trans {a b c : Redis ρ} (h1 : Ext a b) (h2 : Ext b c) : Ext a c := by
  refine ⟨fun x hx => ?_, fun n r h => h2.log n r (h1.log n r h)⟩
  obtain ⟨y, hy, hxy⟩ := h1.cnt x hx
  obtain ⟨z, hz, hyz⟩ := h2.cnt y hy
  exact ⟨z, hz, by omega⟩

theorem Stored.mono {db db' : Redis ρ} {d : List (Int × ρ)} (h : Stored db d) (he : Ext db db') : Stored db' d :=
  fun p hp => he.log _ _ (h p hp)

theorem Slice.mono {l l' : Int → Option ρ} {k : Int} {acc : List ρ} (h : Slice l k acc)
    (he : ∀ n r, l n = some r → l' n = some r) : Slice l' k acc :=
  fun i hi => he _ _ (h i hi)

/-- `PcOk` survives the growth of the store, provided a pending `SET`'s key is still absent -/
theorem PcOk.mono {cfg : Cfg} {db db' : Redis ρ} {pc : PC ρ} (h : PcOk cfg db pc) (he : Ext db db')
    (hn : ∀ d n r rest, pc = .appSet d n r rest → db'.log n = none) : PcOk cfg db' pc := by
  cases pc with
  | idle => trivial
  | appSetnx _ => trivial
  | rdCounter _ => trivial
  | snapSet _ => trivial
  | snapGet => trivial
  | appEval d r rest =>
    obtain ⟨h1, h2, h3⟩ := h
    refine ⟨h1, ?_, h3.mono he⟩
    cases hc : db.counter with
    | none => exact absurd hc h2
    | some c => obtain ⟨c', hc', _⟩ := he.cnt c hc; simp [hc']
  | appIncr d r rest =>
    obtain ⟨h1, h2, h3⟩ := h
    refine ⟨h1, ?_, h3.mono he⟩
    cases hc : db.counter with
    | none => exact absurd hc h2
    | some c => obtain ⟨c', hc', _⟩ := he.cnt c hc; simp [hc']
  | appSet d n r rest =>
    obtain ⟨h1, ⟨c, hc, h0, hle⟩, _, h3⟩ := h
    obtain ⟨c', hc', hcc⟩ := he.cnt c hc
    exact ⟨h1, ⟨c', hc', h0, by omega⟩, hn d n r rest rfl, h3.mono he⟩
  | rdGet k cur mx acc =>
    obtain ⟨h1, h2, ⟨c, hc, hle⟩, h4, h5⟩ := h
    obtain ⟨c', hc', hcc⟩ := he.cnt c hc
    exact ⟨h1, h2, ⟨c', hc', by omega⟩, h4.mono he.log, h5⟩

/-- `PcOk` only looks at the counter and the log keys -/
theorem PcOk.congr {cfg : Cfg} {db db' : Redis ρ} {pc : PC ρ} (h : PcOk cfg db pc)
    (hc : db'.counter = db.counter) (hl : db'.log = db.log) : PcOk cfg db' pc := by
  cases pc <;> simp only [PcOk, Stored, hc, hl] at h ⊢ <;> exact h

theorem upd_self (pcs : Pcs ρ) (w : Nat) (pc : PC ρ) : upd pcs w pc w = some pc := by simp [upd]
theorem upd_other (pcs : Pcs ρ) (w v : Nat) (pc : PC ρ) (h : v ≠ w) : upd pcs w pc v = pcs v := by simp [upd, h]

/-- a step that leaves the store alone, of a worker that neither holds nor takes a pending `SET` -/
theorem InvP.upd_same {cfg : Cfg} {db : Redis ρ} {pcs : Pcs ρ} (h : InvP cfg db pcs) (w : Nat) (pc pc' : PC ρ)
    (hw : pcs w = some pc) (hold : ∀ d n r rest, pc ≠ .appSet d n r rest)
    (hnew : ∀ d n r rest, pc' ≠ .appSet d n r rest) (hok : PcOk cfg db pc') : InvP cfg db (upd pcs w pc') := by
  refine ⟨h.cnt, h.range, ?_, ?_, ?_⟩
  · intro v p hv
    by_cases hvw : v = w
    · subst hvw; rw [upd_self] at hv; cases hv; exact hok
    · rw [upd_other _ _ _ _ hvw] at hv; exact h.loc v p hv
  · intro v v' d n r rest d' r' rest' hv hv'
    by_cases hvw : v = w
    · subst hvw; rw [upd_self] at hv; cases hv; exact absurd rfl (hnew d n r rest)
    · by_cases hvw' : v' = w
      · subst hvw'; rw [upd_self] at hv'; cases hv'; exact absurd rfl (hnew d' n r' rest')
      · rw [upd_other _ _ _ _ hvw] at hv; rw [upd_other _ _ _ _ hvw'] at hv'
        exact h.uniq v v' d n r rest d' r' rest' hv hv'
  · intro c n hc h0 hle hnone
    obtain ⟨v, d, r, rest, hv⟩ := h.owner c n hc h0 hle hnone
    have hvw : v ≠ w := by
      intro e; subst e; rw [hw] at hv; cases hv; exact hold d n r rest rfl
    exact ⟨v, d, r, rest, by rw [upd_other _ _ _ _ hvw]; exact hv⟩

theorem nextApp_not_appSet (cfg : Cfg) (d : List (Int × ρ)) (rest : List ρ) (d' : List (Int × ρ)) (n : Int) (r : ρ) (rest' : List ρ) :
    (nextApp cfg d rest).1 ≠ .appSet d' n r rest' := by
  cases rest with
  | nil => simp [nextApp]
  | cons a t => simp only [nextApp]; split <;> simp

/-- the program counter `nextApp` yields is fine as soon as the counter exists and `d` is stored -/
theorem nextApp_ok (cfg : Cfg) (db : Redis ρ) (d : List (Int × ρ)) (rest : List ρ)
    (hc : db.counter ≠ none) (hd : Stored db d) : PcOk cfg db (nextApp cfg d rest).1 := by
  cases rest with
  | nil => simp [nextApp, PcOk]
  | cons a t =>
    simp only [nextApp]
    cases hcl : cfg.cluster with
    | true => simp [PcOk, hcl, hc, hd]
    | false => simp [PcOk, hcl, hc, hd]

theorem setLog_log (db : Redis ρ) (n : Int) (r : ρ) (k : Int) :
    (setLog db n r).log k = if k = n then some r else db.log k := rfl
theorem setLog_counter (db : Redis ρ) (n : Int) (r : ρ) : (setLog db n r).counter = db.counter := rfl

theorem stored_snoc {db : Redis ρ} {d : List (Int × ρ)} {n : Int} {r : ρ} (hd : Stored db d) (hn : db.log n = some r) :
    Stored db (d ++ [(n, r)]) := by
  intro p hp
  rcases List.mem_append.1 hp with h | h
  · exact hd p h
  · simp at h; subst h; exact hn

/-- with no counter key there is no log key and nobody is past `SETNX` -/
theorem InvP.setnx_new {cfg : Cfg} {db : Redis ρ} {pcs : Pcs ρ} (h : InvP cfg db pcs) (w : Nat) (recs : List ρ)
    (hw : pcs w = some (.appSetnx recs)) (hc : db.counter = none) :
    InvP cfg { db with counter := some (-1) } (upd pcs w (nextApp cfg [] recs).1) := by
  have hlog : ∀ n, db.log n = none := by
    intro n
    cases hn : db.log n with
    | none => rfl
    | some r => obtain ⟨c, hc', _⟩ := h.range n r hn; rw [hc] at hc'; cases hc'
  have hnoset : ∀ v d n r rest, pcs v ≠ some (.appSet d n r rest) := by
    intro v d n r rest hv
    obtain ⟨_, ⟨c, hc', _⟩, _⟩ := h.loc v _ hv
    rw [hc] at hc'; cases hc'
  refine ⟨?_, ?_, ?_, ?_, ?_⟩
  · intro c hc'; simp at hc'; omega
  · intro n r hn; simp [hlog] at hn
  · intro v p hv
    by_cases hvw : v = w
    · subst hvw; rw [upd_self] at hv; cases hv
      exact nextApp_ok cfg _ [] recs (by simp) (by intro p hp; cases hp)
    · rw [upd_other _ _ _ _ hvw] at hv
      have := h.loc v p hv
      cases p <;> simp only [PcOk, hc] at this ⊢ <;> simp_all
  · intro v v' d n r rest d' r' rest' hv hv'
    by_cases hvw : v = w
    · subst hvw; rw [upd_self] at hv; exact absurd (Option.some.inj hv) (nextApp_not_appSet cfg _ _ _ _ _ _)
    · rw [upd_other _ _ _ _ hvw] at hv; exact absurd hv (hnoset v d n r rest)
  · intro c n hc' h0 hle _; simp at hc'; omega


theorem InvP.fresh {cfg : Cfg} {db : Redis ρ} {pcs : Pcs ρ} (h : InvP cfg db pcs) (c : Int) (hc : db.counter = some c) :
    db.log (c + 1) = none := by
  cases hn : db.log (c + 1) with
  | none => rfl
  | some x =>
    obtain ⟨c', hc', _, hle⟩ := h.range _ _ hn
    rw [hc] at hc'; cases hc'; omega

theorem ext_setLog (db : Redis ρ) (n : Int) (r : ρ) (hn : db.log n = none) : Ext db (setLog db n r) := by
  refine ⟨fun c hc => ⟨c, hc, Int.le_refl c⟩, fun k x hk => ?_⟩
  rw [setLog_log]
  split
  · rename_i e; subst e; rw [hn] at hk; cases hk
  · exact hk

theorem ext_counter (db : Redis ρ) (c : Int) (hc : db.counter = some c) : Ext db { db with counter := some (c + 1) } :=
  ⟨fun x hx => ⟨c + 1, rfl, by rw [hc] at hx; cases hx; omega⟩, fun _ _ hk => hk⟩

/-- non-cluster mode: the script `INCR` + `SET` -/
theorem InvP.eval_step {cfg : Cfg} {db : Redis ρ} {pcs : Pcs ρ} (h : InvP cfg db pcs) (w : Nat)
    (d : List (Int × ρ)) (r : ρ) (rest : List ρ) (hw : pcs w = some (.appEval d r rest)) (c : Int) (hc : db.counter = some c) :
    InvP cfg (setLog { db with counter := some (c + 1) } (c + 1) r) (upd pcs w (nextApp cfg (d ++ [(c + 1, r)]) rest).1) := by
  have hcm := h.cnt c hc
  have hfresh := h.fresh c hc
  obtain ⟨_, _, hd⟩ := h.loc w _ hw
  have hext : Ext db (setLog { db with counter := some (c + 1) } (c + 1) r) :=
    (ext_counter db c hc).trans (ext_setLog _ _ _ hfresh)
  refine ⟨?_, ?_, ?_, ?_, ?_⟩
  · intro x hx
    have : x = c + 1 := by simpa [setLog] using hx.symm
    omega
  · intro k x hk
    rw [setLog_log] at hk
    split at hk
    · rename_i e; exact ⟨c + 1, rfl, by omega, by omega⟩
    · obtain ⟨c', hc', h0, hle⟩ := h.range k x hk
      rw [hc] at hc'; cases hc'
      exact ⟨c + 1, rfl, h0, by omega⟩
  · intro v p hv
    by_cases hvw : v = w
    · subst hvw; rw [upd_self] at hv; cases hv
      exact nextApp_ok cfg _ _ rest (by simp [setLog]) (stored_snoc (hd.mono hext) (by simp [setLog_log]))
    · rw [upd_other _ _ _ _ hvw] at hv
      refine (h.loc v p hv).mono hext ?_
      intro d' m r' rest' e
      subst e
      obtain ⟨_, ⟨c', hc', _, hle⟩, hm, _⟩ := h.loc v _ hv
      rw [hc] at hc'; cases hc'
      rw [setLog_log, if_neg (by omega)]; exact hm
  · intro v v' d' m r' rest' d'' r'' rest'' hv hv'
    by_cases hvw : v = w
    · subst hvw; rw [upd_self] at hv; exact absurd (Option.some.inj hv) (nextApp_not_appSet cfg _ _ _ _ _ _)
    · by_cases hvw' : v' = w
      · subst hvw'; rw [upd_self] at hv'; exact absurd (Option.some.inj hv') (nextApp_not_appSet cfg _ _ _ _ _ _)
      · rw [upd_other _ _ _ _ hvw] at hv; rw [upd_other _ _ _ _ hvw'] at hv'
        exact h.uniq _ _ _ _ _ _ _ _ _ hv hv'
  · intro x m hx h0 hle hnone
    have hx' : x = c + 1 := by simpa [setLog] using hx.symm
    rw [setLog_log] at hnone
    split at hnone
    · cases hnone
    · rename_i hne
      obtain ⟨v, d', r', rest', hv⟩ := h.owner c m hc h0 (by omega) hnone
      have hvw : v ≠ w := by intro e; subst e; rw [hw] at hv; cases hv
      exact ⟨v, d', r', rest', by rw [upd_other _ _ _ _ hvw]; exact hv⟩

/-- cluster mode: `INCR` -/
theorem InvP.incr_step {cfg : Cfg} {db : Redis ρ} {pcs : Pcs ρ} (h : InvP cfg db pcs) (w : Nat)
    (d : List (Int × ρ)) (r : ρ) (rest : List ρ) (hw : pcs w = some (.appIncr d r rest)) (c : Int) (hc : db.counter = some c) :
    InvP cfg { db with counter := some (c + 1) } (upd pcs w (.appSet d (c + 1) r rest)) := by
  have hcm := h.cnt c hc
  have hfresh := h.fresh c hc
  obtain ⟨hcl, _, hd⟩ := h.loc w _ hw
  have hext : Ext db { db with counter := some (c + 1) } := ext_counter db c hc
  refine ⟨?_, ?_, ?_, ?_, ?_⟩
  · intro x hx
    have : x = c + 1 := by simpa using hx.symm
    omega
  · intro k x hk
    obtain ⟨c', hc', h0, hle⟩ := h.range k x hk
    rw [hc] at hc'; cases hc'
    exact ⟨c + 1, rfl, h0, by omega⟩
  · intro v p hv
    by_cases hvw : v = w
    · subst hvw; rw [upd_self] at hv; cases hv
      exact ⟨hcl, ⟨c + 1, rfl, by omega, by omega⟩, hfresh, hd.mono hext⟩
    · rw [upd_other _ _ _ _ hvw] at hv
      refine (h.loc v p hv).mono hext ?_
      intro d' m r' rest' e
      subst e
      exact (h.loc v _ hv).2.2.1
  · intro v v' d' m r' rest' d'' r'' rest'' hv hv'
    have key : ∀ u, u ≠ w → ∀ a b e, pcs u = some (.appSet a m b e) → m ≠ c + 1 := by
      intro u _ a b e hu
      obtain ⟨_, ⟨c', hc', _, hle⟩, _, _⟩ := h.loc u _ hu
      rw [hc] at hc'; cases hc'; omega
    by_cases hvw : v = w
    · by_cases hvw' : v' = w
      · rw [hvw, hvw']
      · subst hvw; rw [upd_self] at hv; rw [upd_other _ _ _ _ hvw'] at hv'
        cases hv
        exact absurd rfl (key v' hvw' _ _ _ hv')
    · by_cases hvw' : v' = w
      · subst hvw'; rw [upd_self] at hv'; rw [upd_other _ _ _ _ hvw] at hv
        cases hv'
        exact absurd rfl (key v hvw _ _ _ hv)
      · rw [upd_other _ _ _ _ hvw] at hv; rw [upd_other _ _ _ _ hvw'] at hv'
        exact h.uniq _ _ _ _ _ _ _ _ _ hv hv'
  · intro x m hx h0 hle hnone
    have hx' : x = c + 1 := by simpa using hx.symm
    by_cases hm : m = c + 1
    · subst hm; exact ⟨w, d, r, rest, upd_self _ _ _⟩
    · obtain ⟨v, d', r', rest', hv⟩ := h.owner c m hc h0 (by omega) hnone
      have hvw : v ≠ w := by intro e; subst e; rw [hw] at hv; cases hv
      exact ⟨v, d', r', rest', by rw [upd_other _ _ _ _ hvw]; exact hv⟩

/-- cluster mode: `SET log:n` -/
theorem InvP.set_step {cfg : Cfg} {db : Redis ρ} {pcs : Pcs ρ} (h : InvP cfg db pcs) (w : Nat)
    (d : List (Int × ρ)) (n : Int) (r : ρ) (rest : List ρ) (hw : pcs w = some (.appSet d n r rest)) :
    InvP cfg (setLog db n r) (upd pcs w (nextApp cfg (d ++ [(n, r)]) rest).1) := by
  obtain ⟨_, ⟨c, hc, hn0, hnc⟩, hnone, hd⟩ := h.loc w _ hw
  have hext : Ext db (setLog db n r) := ext_setLog db n r hnone
  refine ⟨h.cnt, ?_, ?_, ?_, ?_⟩
  · intro k x hk
    rw [setLog_log] at hk
    split at hk
    · rename_i e; subst e; exact ⟨c, hc, hn0, hnc⟩
    · exact h.range k x hk
  · intro v p hv
    by_cases hvw : v = w
    · subst hvw; rw [upd_self] at hv; cases hv
      exact nextApp_ok cfg _ _ rest (by rw [setLog_counter, hc]; simp) (stored_snoc (hd.mono hext) (by simp [setLog_log]))
    · rw [upd_other _ _ _ _ hvw] at hv
      refine (h.loc v p hv).mono hext ?_
      intro d' m r' rest' e
      subst e
      have hmn : m ≠ n := by
        intro e; subst e
        exact hvw (h.uniq _ _ _ _ _ _ _ _ _ hv hw)
      rw [setLog_log, if_neg hmn]
      exact (h.loc v _ hv).2.2.1
  · intro v v' d' m r' rest' d'' r'' rest'' hv hv'
    by_cases hvw : v = w
    · subst hvw; rw [upd_self] at hv; exact absurd (Option.some.inj hv) (nextApp_not_appSet cfg _ _ _ _ _ _)
    · by_cases hvw' : v' = w
      · subst hvw'; rw [upd_self] at hv'; exact absurd (Option.some.inj hv') (nextApp_not_appSet cfg _ _ _ _ _ _)
      · rw [upd_other _ _ _ _ hvw] at hv; rw [upd_other _ _ _ _ hvw'] at hv'
        exact h.uniq _ _ _ _ _ _ _ _ _ hv hv'
  · intro x m hx h0 hle hnone'
    rw [setLog_log] at hnone'
    split at hnone'
    · cases hnone'
    · rename_i hne
      obtain ⟨v, d', r', rest', hv⟩ := h.owner x m hx h0 hle hnone'
      have hvw : v ≠ w := by intro e; subst e; rw [hw] at hv; cases hv; exact hne rfl
      exact ⟨v, d', r', rest', by rw [upd_other _ _ _ _ hvw]; exact hv⟩


theorem counter_of_ne_none {db : Redis ρ} (h : db.counter ≠ none) : ∃ c, db.counter = some c := by
  cases hc : db.counter with
  | none => exact absurd hc h
  | some c => exact ⟨c, rfl⟩

/-- **one command of one worker preserves the invariant** -/
theorem InvP.stepW {cfg : Cfg} {db : Redis ρ} {pcs : Pcs ρ} (h : InvP cfg db pcs) (w : Nat) (pc : PC ρ)
    (hw : pcs w = some pc) : InvP cfg (stepW cfg db pc).1 (upd pcs w (stepW cfg db pc).2.1) := by
  cases pc with
  | idle => exact h.upd_same w _ .idle hw (by intros; simp) (by intros; simp) trivial
  | appSetnx recs =>
    cases hc : db.counter with
    | none =>
      simp only [JournalRedis.stepW, hc]
      exact h.setnx_new w recs hw hc
    | some c =>
      simp only [JournalRedis.stepW, hc]
      exact h.upd_same w _ _ hw (by intros; simp) (nextApp_not_appSet cfg _ _)
        (nextApp_ok cfg db [] recs (by simp [hc]) (by intro p hp; cases hp))
  | appEval d r rest =>
    obtain ⟨c, hc⟩ := counter_of_ne_none (h.loc w _ hw).2.1
    simp only [JournalRedis.stepW, incrVal, hc, Option.getD_some]
    exact h.eval_step w d r rest hw c hc
  | appIncr d r rest =>
    obtain ⟨c, hc⟩ := counter_of_ne_none (h.loc w _ hw).2.1
    simp only [JournalRedis.stepW, incrVal, hc, Option.getD_some]
    exact h.incr_step w d r rest hw c hc
  | appSet d n r rest =>
    simp only [JournalRedis.stepW]
    exact h.set_step w d n r rest hw
  | rdCounter k =>
    cases hc : db.counter with
    | none =>
      simp only [JournalRedis.stepW, hc]
      exact h.upd_same w _ .idle hw (by intros; simp) (by intros; simp) trivial
    | some m =>
      simp only [JournalRedis.stepW, hc]
      split
      · rename_i hk
        refine h.upd_same w _ _ hw (by intros; simp) (by intros; simp) ?_
        exact ⟨Int.le_refl _, hk, ⟨m, hc, Int.le_refl _⟩, fun i hi => by simp at hi, by simp⟩
      · exact h.upd_same w _ .idle hw (by intros; simp) (by intros; simp) trivial
  | rdGet k cur mx acc =>
    have hok := h.loc w _ hw
    obtain ⟨h1, h2, h3, h4, h5⟩ := hok
    cases hl : db.log cur with
    | none =>
      simp only [JournalRedis.stepW, hl]
      exact h.upd_same w _ _ hw (by intros; simp) (by intros; simp) ⟨h1, h2, h3, h4, h5⟩
    | some r =>
      simp only [JournalRedis.stepW, hl]
      split
      · rename_i hle
        refine h.upd_same w _ _ hw (by intros; simp) (by intros; simp) ⟨by omega, hle, h3, ?_, ?_⟩
        · intro i hi
          by_cases hi' : i < acc.length
          · rw [List.getElem_append_left hi']; exact h4 i hi'
          · have : i = acc.length := by simp at hi; omega
            subst this
            rw [List.getElem_append_right (Nat.le_refl _)]
            simp only [Nat.sub_self, List.getElem_cons_zero]
            rw [h5]; exact hl
        · simp only [List.length_append, List.length_singleton]; omega
      · exact h.upd_same w _ .idle hw (by intros; simp) (by intros; simp) trivial
  | snapSet s =>
    simp only [JournalRedis.stepW]
    have h' := h.upd_same w _ .idle hw (by intros; simp) (by intros; simp) trivial
    exact ⟨h'.cnt, h'.range, fun v p hv => (h'.loc v p hv).congr rfl rfl, h'.uniq, h'.owner⟩
  | snapGet =>
    simp only [JournalRedis.stepW]
    exact h.upd_same w _ .idle hw (by intros; simp) (by intros; simp) trivial

/-- one command only extends the store -/
theorem InvP.stepW_ext {cfg : Cfg} {db : Redis ρ} {pcs : Pcs ρ} (h : InvP cfg db pcs) (w : Nat) (pc : PC ρ)
    (hw : pcs w = some pc) : Ext db (JournalRedis.stepW cfg db pc).1 := by
  cases pc with
  | idle => exact Ext.refl db
  | appSetnx recs =>
    cases hc : db.counter with
    | none =>
      simp only [JournalRedis.stepW, hc]
      exact ⟨fun c hc' => (by rw [hc] at hc'; cases hc'), fun _ _ hk => hk⟩
    | some c => simp only [JournalRedis.stepW, hc]; exact Ext.refl db
  | appEval d r rest =>
    obtain ⟨c, hc⟩ := counter_of_ne_none (h.loc w _ hw).2.1
    simp only [JournalRedis.stepW, incrVal, hc, Option.getD_some]
    exact (ext_counter db c hc).trans (ext_setLog _ _ _ (h.fresh c hc))
  | appIncr d r rest =>
    obtain ⟨c, hc⟩ := counter_of_ne_none (h.loc w _ hw).2.1
    simp only [JournalRedis.stepW, incrVal, hc, Option.getD_some]
    exact ext_counter db c hc
  | appSet d n r rest =>
    simp only [JournalRedis.stepW]
    exact ext_setLog db n r (h.loc w _ hw).2.2.1
  | rdCounter k =>
    cases hc : db.counter with
    | none => simp only [JournalRedis.stepW, hc]; exact Ext.refl db
    | some m => simp only [JournalRedis.stepW, hc]; split <;> exact Ext.refl db
  | rdGet k cur mx acc =>
    cases hl : db.log cur with
    | none => simp only [JournalRedis.stepW, hl]; exact Ext.refl db
    | some r => simp only [JournalRedis.stepW, hl]; split <;> exact Ext.refl db
  | snapSet s => simp only [JournalRedis.stepW]; exact ⟨fun c hc => ⟨c, hc, Int.le_refl c⟩, fun _ _ hk => hk⟩
  | snapGet => exact Ext.refl db

/-- the invariant of a state -/
def Inv (cfg : Cfg) (st : St ρ) : Prop := InvP cfg st.db (pcOf st)

theorem pcOf_updAt_pc (db db' : Redis ρ) (ws : List (Worker ρ)) (w : Nat) (wk : Worker ρ) (p : PC ρ) (hw : ws[w]? = some wk) :
    pcOf { db := db', ws := updAt ws w (fun x => { x with pc := p }) } = upd (pcOf { db := db, ws := ws }) w p := by
  funext v
  simp only [pcOf, upd, updAt_getElem?]
  by_cases hv : v = w
  · subst hv; simp [hw]
  · simp [hv]

theorem pcOf_updAt_dead (db : Redis ρ) (ws : List (Worker ρ)) (w : Nat) (b : Bool) :
    pcOf { db := db, ws := updAt ws w (fun x => { x with dead := b }) } = pcOf { db := db, ws := ws } := by
  funext v
  simp only [pcOf, updAt_getElem?]
  by_cases hv : v = w
  · subst hv; cases ws[v]? <;> simp
  · simp [hv]

theorem step_step_live (cfg : Cfg) (st : St ρ) (w : Nat) (wk : Worker ρ) (hw : st.ws[w]? = some wk) (hl : wk.dead = false) :
    step cfg st (.step w) =
      ({ db := (stepW cfg st.db wk.pc).1, ws := updAt st.ws w (fun x => { x with pc := (stepW cfg st.db wk.pc).2.1 }) },
       (stepW cfg st.db wk.pc).2.2) := by
  simp [step, hw, hl]

theorem step_step_dead (cfg : Cfg) (st : St ρ) (w : Nat) (wk : Worker ρ) (hw : st.ws[w]? = some wk) (hl : wk.dead = true) :
    step cfg st (.step w) = (st, ⟨.noop, none⟩) := by
  simp [step, hw, hl]

theorem step_step_none (cfg : Cfg) (st : St ρ) (w : Nat) (hw : st.ws[w]? = none) :
    step cfg st (.step w) = (st, ⟨.noop, none⟩) := by
  simp [step, hw]

theorem pcOf_eq {st : St ρ} {w : Nat} {wk : Worker ρ} (hw : st.ws[w]? = some wk) : pcOf st w = some wk.pc := by
  simp [pcOf, hw]

theorem inv_step (cfg : Cfg) (st : St ρ) (e : Ev ρ) (h : Inv cfg st) : Inv cfg (step cfg st e).1 := by
  cases e with
  | call w op =>
    cases hw : st.ws[w]? with
    | none => simpa [step, hw] using h
    | some wk =>
      simp only [step, hw]
      split
      · rename_i hd hp
        show InvP cfg _ _
        rw [pcOf_updAt_pc st.db st.db st.ws w wk _ hw]
        refine InvP.upd_same h w .idle _ (by rw [pcOf_eq hw, hp]) (by intros; simp) ?_ ?_
        · intro d n r rest; cases op <;> simp [entry]
        · cases op <;> simp [entry, PcOk]
      · exact h
  | crash w =>
    cases hw : st.ws[w]? with
    | none => simpa [step, hw] using h
    | some wk =>
      simp only [step, hw]
      split
      · exact h
      · show InvP cfg _ _
        rw [pcOf_updAt_dead]; exact h
  | step w =>
    cases hw : st.ws[w]? with
    | none => rw [step_step_none cfg st w hw]; exact h
    | some wk =>
      cases hl : wk.dead with
      | true => rw [step_step_dead cfg st w wk hw hl]; exact h
      | false =>
        rw [step_step_live cfg st w wk hw hl]
        show InvP cfg _ _
        rw [pcOf_updAt_pc st.db _ st.ws w wk _ hw]
        exact InvP.stepW h w wk.pc (pcOf_eq hw)

theorem ext_step (cfg : Cfg) (st : St ρ) (e : Ev ρ) (h : Inv cfg st) : Ext st.db (step cfg st e).1.db := by
  cases e with
  | call w op =>
    cases hw : st.ws[w]? with
    | none => simp only [step, hw]; exact Ext.refl _
    | some wk => simp only [step, hw]; split <;> exact Ext.refl _
  | crash w =>
    cases hw : st.ws[w]? with
    | none => simp only [step, hw]; exact Ext.refl _
    | some wk => simp only [step, hw]; split <;> exact Ext.refl _
  | step w =>
    cases hw : st.ws[w]? with
    | none => rw [step_step_none cfg st w hw]; exact Ext.refl _
    | some wk =>
      cases hl : wk.dead with
      | true => rw [step_step_dead cfg st w wk hw hl]; exact Ext.refl _
      | false =>
        rw [step_step_live cfg st w wk hw hl]
        exact InvP.stepW_ext h w wk.pc (pcOf_eq hw)

theorem inv_run (cfg : Cfg) (st : St ρ) (evs : List (Ev ρ)) (h : Inv cfg st) : Inv cfg (run cfg st evs) := by
  induction evs generalizing st with
  | nil => exact h
  | cons e es ih => exact ih _ (inv_step cfg st e h)

theorem ext_run (cfg : Cfg) (st : St ρ) (evs : List (Ev ρ)) (h : Inv cfg st) : Ext st.db (run cfg st evs).db := by
  induction evs generalizing st with
  | nil => exact Ext.refl _
  | cons e es ih => exact (ext_step cfg st e h).trans (ih _ (inv_step cfg st e h))

theorem inv_init (cfg : Cfg) (n : Nat) : Inv cfg (init n : St ρ) := by
  have hp : ∀ w pc, pcOf (init n : St ρ) w = some pc → pc = .idle := by
    intro w pc hw
    simp only [pcOf, init] at hw
    cases hg : (List.replicate n ({ pc := .idle, dead := false } : Worker ρ))[w]? with
    | none => rw [hg] at hw; cases hw
    | some wk =>
      rw [hg] at hw
      have := List.mem_replicate.1 (List.mem_of_getElem? hg)
      simp at hw; rw [← hw, this.2]
  refine ⟨?_, ?_, ?_, ?_, ?_⟩
  · intro c hc; cases hc
  · intro k r hk; cases hk
  · intro w pc hw; rw [hp w pc hw]; trivial
  · intro w w' d k r rest d' r' rest' hw _; cases hp w _ hw
  · intro c k hc; cases hc

theorem run_append (cfg : Cfg) (st : St ρ) (a b : List (Ev ρ)) : run cfg st (a ++ b) = run cfg (run cfg st a) b := by
  induction a generalizing st with
  | nil => rfl
  | cons e es ih => exact ih _

/-- every reachable state satisfies the invariant -/
theorem inv_reachable (cfg : Cfg) (n : Nat) (evs : List (Ev ρ)) : Inv cfg (run cfg (init n) evs) :=
  inv_run cfg _ evs (inv_init cfg n)

/-- worker `w` does not enter a new call -/
def NoCall (w : Nat) (evs : List (Ev ρ)) : Prop := ∀ e ∈ evs, ∀ op, e ≠ .call w op

theorem NoCall.tail {w : Nat} {e : Ev ρ} {evs : List (Ev ρ)} (h : NoCall w (e :: evs)) : NoCall w evs :=
  fun x hx => h x (List.mem_cons_of_mem _ hx)

/-- what an event does to the program counter of worker `w` -/
theorem pcOf_step_cases (cfg : Cfg) (st : St ρ) (e : Ev ρ) (w : Nat) :
    pcOf (step cfg st e).1 w = pcOf st w ∨
    (e = .step w ∧ ∃ wk, st.ws[w]? = some wk ∧ wk.dead = false ∧
        (step cfg st e).1.db = (stepW cfg st.db wk.pc).1 ∧
        pcOf (step cfg st e).1 w = some (stepW cfg st.db wk.pc).2.1) ∨
    (∃ op, e = .call w op) := by
  cases e with
  | call v op =>
    by_cases hv : v = w
    · subst hv; exact .inr (.inr ⟨op, rfl⟩)
    · left
      cases hw : st.ws[v]? with
      | none => simp [step, hw]
      | some wk =>
        simp only [step, hw]
        split
        · simp only [pcOf, updAt_getElem?, if_neg (Ne.symm hv)]
        · rfl
  | crash v =>
    left
    cases hw : st.ws[v]? with
    | none => simp [step, hw]
    | some wk =>
      simp only [step, hw]
      split
      · rfl
      · rw [pcOf_updAt_dead]
  | step v =>
    cases hw : st.ws[v]? with
    | none => left; rw [step_step_none cfg st v hw]
    | some wk =>
      cases hl : wk.dead with
      | true => left; rw [step_step_dead cfg st v wk hw hl]
      | false =>
        rw [step_step_live cfg st v wk hw hl]
        by_cases hv : v = w
        · subst hv
          refine .inr (.inl ⟨rfl, wk, hw, hl, rfl, ?_⟩)
          simp [pcOf, updAt_getElem?, hw]
        · left
          simp only [pcOf, updAt_getElem?, if_neg (Ne.symm hv)]

/-- **a property of one worker's call that its own commands maintain and the others' cannot disturb**
holds until the call returns (no new call of that worker in between). -/
theorem local_run (cfg : Cfg) (w : Nat) (Q : Redis ρ → PC ρ → Prop)
    (hmono : ∀ db db' pc, Ext db db' → Q db pc → Q db' pc)
    (hstep : ∀ db pcs pc, InvP cfg db pcs → pcs w = some pc → Q db pc → Q (stepW cfg db pc).1 (stepW cfg db pc).2.1) :
    ∀ (mid : List (Ev ρ)) (st : St ρ), Inv cfg st → (∃ pc, pcOf st w = some pc ∧ Q st.db pc) → NoCall w mid →
      ∃ pc, pcOf (run cfg st mid) w = some pc ∧ Q (run cfg st mid).db pc := by
  intro mid
  induction mid with
  | nil => intro st _ h _; exact h
  | cons e es ih =>
    intro st hinv ⟨pc, hpc, hq⟩ hnc
    refine ih (step cfg st e).1 (inv_step cfg st e hinv) ?_ hnc.tail
    rcases pcOf_step_cases cfg st e w with h | ⟨_, wk, hw, _, hdb, hpc'⟩ | ⟨op, he⟩
    · exact ⟨pc, by rw [h]; exact hpc, hmono _ _ _ (ext_step cfg st e hinv) hq⟩
    · have : wk.pc = pc := by rw [pcOf_eq hw] at hpc; exact Option.some.inj hpc
      subst this
      exact ⟨_, hpc', by rw [hdb]; exact hstep st.db (pcOf st) wk.pc hinv (pcOf_eq hw) hq⟩
    · exact absurd he (hnc e (List.mem_cons_self ..) op)

/-- the return value of the next command of `w`, by cases on where `w` is -/
theorem step_ret (cfg : Cfg) (st : St ρ) (w : Nat) (x : Ret ρ) (h : (step cfg st (.step w)).2.ret = some x) :
    ∃ wk, st.ws[w]? = some wk ∧ wk.dead = false ∧ (stepW cfg st.db wk.pc).2.2.ret = some x ∧
      (step cfg st (.step w)).1.db = (stepW cfg st.db wk.pc).1 := by
  cases hw : st.ws[w]? with
  | none => rw [step_step_none cfg st w hw] at h; cases h
  | some wk =>
    cases hl : wk.dead with
    | true => rw [step_step_dead cfg st w wk hw hl] at h; cases h
    | false =>
      rw [step_step_live cfg st w wk hw hl] at h ⊢
      exact ⟨wk, rfl, hl, h, rfl⟩

theorem slice_snoc {log : Int → Option ρ} {k : Int} {acc : List ρ} {r : ρ} (h : Slice log k acc)
    (hr : log (k + (acc.length : Nat)) = some r) : Slice log k (acc ++ [r]) := by
  intro i hi
  by_cases hi' : i < acc.length
  · rw [List.getElem_append_left hi']; exact h i hi'
  · have : i = acc.length := by simp at hi; omega
    subst this
    rw [List.getElem_append_right (Nat.le_refl _)]
    simp only [Nat.sub_self, List.getElem_cons_zero]
    exact hr

/-- where a `read_logs(k)` call that began when the store was `db₀` can be -/
def RdOk (db₀ : Redis ρ) (k : Nat) (db : Redis ρ) (pc : PC ρ) : Prop :=
  Ext db₀ db ∧
  (pc = .rdCounter k ∨ (∃ cur m acc, pc = .rdGet k cur m acc ∧ ∀ c, db₀.counter = some c → c ≤ m) ∨ pc = .idle)

theorem rdOk_step (cfg : Cfg) (db₀ : Redis ρ) (k w : Nat) (db : Redis ρ) (pcs : Pcs ρ) (pc : PC ρ)
    (hinv : InvP cfg db pcs) (hw : pcs w = some pc) (h : RdOk db₀ k db pc) :
    RdOk db₀ k (stepW cfg db pc).1 (stepW cfg db pc).2.1 := by
  obtain ⟨hext, hpc⟩ := h
  refine ⟨hext.trans (hinv.stepW_ext w pc hw), ?_⟩
  rcases hpc with e | ⟨cur, m, acc, e, hcov⟩ | e
  · subst e
    cases hc : db.counter with
    | none => simp [stepW, hc]
    | some m =>
      simp only [stepW, hc]
      split
      · right; left
        refine ⟨k, m, [], rfl, fun c hc0 => ?_⟩
        obtain ⟨c', hc', hle⟩ := hext.cnt c hc0
        rw [hc] at hc'; cases hc'; exact hle
      · simp
  · subst e
    cases hl : db.log cur with
    | none => simp only [stepW, hl]; right; left; exact ⟨cur, m, acc, rfl, hcov⟩
    | some r =>
      simp only [stepW, hl]
      split
      · right; left; exact ⟨cur + 1, m, acc ++ [r], rfl, hcov⟩
      · simp
  · subst e; simp [stepW]

/-- **the reader theorem**: a `read_logs(k)` whose first command comes after the store was `db₀` and that
returns `l` has fetched some counter value `m ≥` the counter of `db₀` and returns exactly the records
`k..m`, each as stored. -/
theorem reader_returns_slice (cfg : Cfg) (db₀ : Redis ρ) (w k : Nat) (mid : List (Ev ρ)) (st : St ρ)
    (hinv : Inv cfg st) (hext : Ext db₀ st.db) (hpc : pcOf st w = some (.rdCounter k)) (hnc : NoCall w mid)
    (l : List ρ) (hret : (step cfg (run cfg st mid) (.step w)).2.ret = some (.read l)) :
    ∃ m : Int, (∀ c, db₀.counter = some c → c ≤ m) ∧ l.length = (m + 1 - k).toNat ∧
      Slice (step cfg (run cfg st mid) (.step w)).1.db.log k l := by
  obtain ⟨pc, hpc', hext', hcases⟩ := local_run cfg w (RdOk db₀ k)
    (fun db db' pc he h => ⟨h.1.trans he, h.2⟩) (fun db pcs pc hi hw h => rdOk_step cfg db₀ k w db pcs pc hi hw h)
    mid st hinv ⟨_, hpc, hext, .inl rfl⟩ hnc
  have hinv' := inv_run cfg st mid hinv
  obtain ⟨wk, hwk, _, hr, hdb⟩ := step_ret cfg _ w _ hret
  have hpceq : wk.pc = pc := by rw [pcOf_eq hwk] at hpc'; exact Option.some.inj hpc'
  rw [hdb]
  rw [hpceq] at hr ⊢
  rcases hcases with e | ⟨cur, m, acc, e, hcov⟩ | e
  · subst e
    cases hc : (run cfg st mid).db.counter with
    | none =>
      simp only [stepW, hc] at hr ⊢
      have : l = [] := by simpa using hr.symm
      subst this
      refine ⟨-1, fun c hc0 => ?_, by simp, fun i hi => by simp at hi⟩
      obtain ⟨c', hc', _⟩ := hext'.cnt c hc0
      rw [hc] at hc'; cases hc'
    | some m =>
      simp only [stepW, hc] at hr ⊢
      split at hr
      · cases hr
      · rename_i hk
        have : l = [] := by simpa using hr.symm
        subst this
        rw [if_neg hk]
        refine ⟨m, fun c hc0 => ?_, by simp; omega, fun i hi => by simp at hi⟩
        obtain ⟨c', hc', hle⟩ := hext'.cnt c hc0
        rw [hc] at hc'; cases hc'; exact hle
  · subst e
    obtain ⟨h1, h2, _, h4, h5⟩ := hinv'.loc w _ hpc'
    cases hl : (run cfg st mid).db.log cur with
    | none => simp [stepW, hl] at hr
    | some r =>
      simp only [stepW, hl] at hr ⊢
      split at hr
      · cases hr
      · rename_i hk
        have : l = acc ++ [r] := by simpa using hr.symm
        subst this
        rw [if_neg hk]
        refine ⟨m, hcov, by simp only [List.length_append, List.length_singleton]; omega, ?_⟩
        exact slice_snoc h4 (by rw [h5]; exact hl)
  · subst e; simp [stepW] at hr

/-! ### a dead worker never moves -/

theorem dead_stays (cfg : Cfg) (st : St ρ) (e : Ev ρ) (v : Nat) (wk : Worker ρ) (hv : st.ws[v]? = some wk)
    (hd : wk.dead = true) : (step cfg st e).1.ws[v]? = some wk := by
  cases e with
  | call w op =>
    cases hw : st.ws[w]? with
    | none => simpa [step, hw] using hv
    | some wk' =>
      simp only [step, hw]
      split
      · rename_i hd' _
        have hne : v ≠ w := by
          intro e; subst e; rw [hv] at hw; cases hw; rw [hd] at hd'; cases hd'
        simp only [updAt_getElem?, if_neg hne]; exact hv
      · exact hv
  | crash w =>
    cases hw : st.ws[w]? with
    | none => simpa [step, hw] using hv
    | some wk' =>
      simp only [step, hw]
      split
      · exact hv
      · rename_i hd'
        have hne : v ≠ w := by
          intro e; subst e; rw [hv] at hw; cases hw; exact hd' hd
        simp only [updAt_getElem?, if_neg hne]; exact hv
  | step w =>
    cases hw : st.ws[w]? with
    | none => rw [step_step_none cfg st w hw]; exact hv
    | some wk' =>
      cases hl : wk'.dead with
      | true => rw [step_step_dead cfg st w wk' hw hl]; exact hv
      | false =>
        rw [step_step_live cfg st w wk' hw hl]
        have hne : v ≠ w := by
          intro e; subst e; rw [hv] at hw; cases hw; rw [hd] at hl; cases hl
        simp only [updAt_getElem?, if_neg hne]; exact hv

theorem dead_stays_run (cfg : Cfg) (st : St ρ) (evs : List (Ev ρ)) (v : Nat) (wk : Worker ρ) (hv : st.ws[v]? = some wk)
    (hd : wk.dead = true) : (run cfg st evs).ws[v]? = some wk := by
  induction evs generalizing st with
  | nil => exact hv
  | cons e es ih => exact ih _ (dead_stays cfg st e v wk hv hd)

/-- the number a dead writer took with `INCR` and never `SET` stays absent for ever -/
theorem dead_gap_never_filled (cfg : Cfg) (st : St ρ) (hinv : Inv cfg st) (v : Nat) (wk : Worker ρ)
    (hv : st.ws[v]? = some wk) (hd : wk.dead = true) (d : List (Int × ρ)) (n : Int) (r : ρ) (rest : List ρ)
    (hpc : wk.pc = .appSet d n r rest) (evs : List (Ev ρ)) : (run cfg st evs).db.log n = none := by
  have h1 := dead_stays_run cfg st evs v wk hv hd
  have h2 := (inv_run cfg st evs hinv).loc v wk.pc (pcOf_eq h1)
  rw [hpc] at h2
  exact h2.2.2.1

/-! ### the writer side of one call -/

/-- where an `append_logs(recs)` call can be: the records done so far (with their numbers, increasing) followed
by the records still to do are `recs` -/
def WrOk (recs : List ρ) (_db : Redis ρ) (pc : PC ρ) : Prop :=
  pc = .appSetnx recs ∨
  (∃ d r rest, (pc = .appEval d r rest ∨ pc = .appIncr d r rest) ∧ d.map Prod.snd ++ r :: rest = recs ∧
      d.Pairwise (fun a b => a.1 < b.1)) ∨
  (∃ d n r rest, pc = .appSet d n r rest ∧ d.map Prod.snd ++ r :: rest = recs ∧
      d.Pairwise (fun a b => a.1 < b.1) ∧ ∀ p ∈ d, p.1 < n) ∨
  pc = .idle

theorem pairwise_snoc {d : List (Int × ρ)} {n : Int} {r : ρ} (h : d.Pairwise (fun a b => a.1 < b.1))
    (hn : ∀ p ∈ d, p.1 < n) : (d ++ [(n, r)]).Pairwise (fun a b => a.1 < b.1) := by
  rw [List.pairwise_append]
  refine ⟨h, by simp, ?_⟩
  intro a ha b hb
  simp at hb; subst hb; exact hn a ha

theorem nextApp_wrOk (cfg : Cfg) (recs : List ρ) (db : Redis ρ) (d : List (Int × ρ)) (rest : List ρ)
    (h1 : d.map Prod.snd ++ rest = recs) (h2 : d.Pairwise (fun a b => a.1 < b.1)) :
    WrOk recs db (nextApp cfg d rest).1 := by
  cases rest with
  | nil => right; right; right; rfl
  | cons a t =>
    right; left
    refine ⟨d, a, t, ?_, h1, h2⟩
    simp only [nextApp]
    split
    · right; rfl
    · left; rfl

theorem stored_le {cfg : Cfg} {db : Redis ρ} {pcs : Pcs ρ} (h : InvP cfg db pcs) {d : List (Int × ρ)} (hd : Stored db d)
    (c : Int) (hc : db.counter = some c) : ∀ p ∈ d, p.1 < c + 1 := by
  intro p hp
  obtain ⟨c', hc', _, hle⟩ := h.range _ _ (hd p hp)
  rw [hc] at hc'; cases hc'; omega

theorem wrOk_step (cfg : Cfg) (recs : List ρ) (w : Nat) (db : Redis ρ) (pcs : Pcs ρ) (pc : PC ρ)
    (hinv : InvP cfg db pcs) (hw : pcs w = some pc) (h : WrOk recs db pc) :
    WrOk recs (stepW cfg db pc).1 (stepW cfg db pc).2.1 := by
  rcases h with e | ⟨d, r, rest, e, h1, h2⟩ | ⟨d, n, r, rest, e, h1, h2, h3⟩ | e
  · subst e
    cases hc : db.counter with
    | none => simp only [stepW, hc]; exact nextApp_wrOk cfg recs _ [] recs (by simp) (by simp)
    | some c => simp only [stepW, hc]; exact nextApp_wrOk cfg recs _ [] recs (by simp) (by simp)
  · rcases e with e | e
    · subst e
      obtain ⟨_, hne, hd⟩ := hinv.loc w _ hw
      obtain ⟨c, hc⟩ := counter_of_ne_none hne
      simp only [stepW, incrVal, hc, Option.getD_some]
      exact nextApp_wrOk cfg recs _ _ rest (by simp [← h1]) (pairwise_snoc h2 (stored_le hinv hd c hc))
    · subst e
      obtain ⟨_, hne, hd⟩ := hinv.loc w _ hw
      obtain ⟨c, hc⟩ := counter_of_ne_none hne
      simp only [stepW, incrVal, hc, Option.getD_some]
      right; right; left
      exact ⟨d, c + 1, r, rest, rfl, h1, h2, stored_le hinv hd c hc⟩
  · subst e
    simp only [stepW]
    exact nextApp_wrOk cfg recs _ _ rest (by simp [← h1]) (pairwise_snoc h2 h3)
  · subst e; right; right; right; simp [stepW]

/-- **an `append_logs(recs)` that returns** has stored every record of `recs`, in order, under strictly
increasing numbers -/
theorem writer_returns_stored (cfg : Cfg) (w : Nat) (recs : List ρ) (mid : List (Ev ρ)) (st : St ρ)
    (hinv : Inv cfg st) (hpc : pcOf st w = some (.appSetnx recs)) (hnc : NoCall w mid)
    (d : List (Int × ρ)) (hret : (step cfg (run cfg st mid) (.step w)).2.ret = some (.appended d)) :
    d.map Prod.snd = recs ∧ d.Pairwise (fun a b => a.1 < b.1) ∧
      Stored (step cfg (run cfg st mid) (.step w)).1.db d := by
  obtain ⟨pc, hpc', hq⟩ := local_run cfg w (WrOk recs) (fun _ _ _ _ h => h)
    (fun db pcs pc hi hw h => wrOk_step cfg recs w db pcs pc hi hw h) mid st hinv ⟨_, hpc, .inl rfl⟩ hnc
  have hinv' := inv_run cfg st mid hinv
  obtain ⟨wk, hwk, hlive, hr, hdb⟩ := step_ret cfg _ w _ hret
  have hpceq : wk.pc = pc := by rw [pcOf_eq hwk] at hpc'; exact Option.some.inj hpc'
  -- the state after the returning command satisfies the invariant as well
  have hinv2 := inv_step cfg _ (.step w) hinv'
  rw [hdb]
  rw [hpceq] at hr ⊢
  have hnil : ∀ (d0 : List (Int × ρ)) (rest : List ρ), (nextApp cfg d0 rest).2 = some (.appended d) → rest = [] ∧ d0 = d := by
    intro d0 rest h
    cases rest with
    | nil => simp [nextApp] at h; exact ⟨rfl, h⟩
    | cons a t => simp [nextApp] at h
  rcases hq with e | ⟨d0, r, rest, e, h1, h2⟩ | ⟨d0, n, r, rest, e, h1, h2, h3⟩ | e
  · subst e
    have : (nextApp cfg ([] : List (Int × ρ)) recs).2 = some (.appended d) := by
      cases hc : (run cfg st mid).db.counter <;> simpa [stepW, hc] using hr
    obtain ⟨e1, e2⟩ := hnil _ _ this
    subst e1; subst e2
    exact ⟨rfl, by simp, by intro p hp; cases hp⟩
  · rcases e with e | e
    · subst e
      obtain ⟨_, hne, hd⟩ := hinv'.loc w _ hpc'
      obtain ⟨c, hc⟩ := counter_of_ne_none hne
      simp only [stepW, incrVal, hc, Option.getD_some] at hr ⊢
      obtain ⟨e1, e2⟩ := hnil _ _ hr
      subst e1; subst e2
      refine ⟨by simp [← h1], pairwise_snoc h2 (stored_le hinv' hd c hc), ?_⟩
      exact stored_snoc (hd.mono ((ext_counter _ c hc).trans (ext_setLog _ _ _ (hinv'.fresh c hc)))) (by simp [setLog_log])
    · subst e
      simp [stepW] at hr
  · subst e
    obtain ⟨_, _, hnone, hd⟩ := hinv'.loc w _ hpc'
    simp only [stepW] at hr ⊢
    obtain ⟨e1, e2⟩ := hnil _ _ hr
    subst e1; subst e2
    exact ⟨by simp [← h1], pairwise_snoc h2 h3, stored_snoc (hd.mono (ext_setLog _ _ _ hnone)) (by simp [setLog_log])⟩
  · subst e; simp [stepW] at hr

/-! ### the official log -/

theorem collect_slice (log : Int → Option ρ) (k : Int) (f : Nat) : Slice log k (collect log k f) := by
  induction f generalizing k with
  | zero => intro i hi; simp [collect] at hi
  | succ f ih =>
    simp only [collect]
    cases hk : log k with
    | none => intro i hi; simp at hi
    | some r =>
      intro i hi
      cases i with
      | zero => simpa using hk
      | succ i =>
        simp only [List.getElem_cons_succ]
        have := ih (k + 1) i (by simpa using hi)
        rw [← this]; congr 1; push_cast; omega

theorem collect_of_slice (log : Int → Option ρ) (l : List ρ) (k : Int) (h : Slice log k l) (f : Nat) :
    collect log k (l.length + f) = l ++ collect log (k + (l.length : Nat)) f := by
  induction l generalizing k with
  | nil => simp
  | cons a t ih =>
    have h0 : log k = some a := by have := h 0 (by simp); simpa using this
    have ht : Slice log (k + 1) t := by
      intro i hi
      have := h (i + 1) (by simpa using hi)
      simp only [List.getElem_cons_succ] at this
      rw [← this]; congr 1; push_cast; omega
    have e : (a :: t).length + f = (t.length + f) + 1 := by simp; omega
    rw [e, collect, h0]
    simp only [List.cons_append, List.cons.injEq, true_and]
    rw [ih (k + 1) ht]
    congr 2
    simp only [List.length_cons]; push_cast; omega

theorem officialLog_slice (db : Redis ρ) : Slice db.log 0 (officialLog db) := by
  unfold officialLog
  cases db.counter with
  | none => intro i hi; simp at hi
  | some c => exact collect_slice db.log 0 _

/-- whatever a worker has read from number 0 on is a prefix of the official log -/
theorem slice_prefix_official {cfg : Cfg} {db : Redis ρ} {pcs : Pcs ρ} (h : InvP cfg db pcs) (p : List ρ)
    (hp : Slice db.log 0 p) : p <+: officialLog db := by
  cases p with
  | nil => exact List.nil_prefix
  | cons a t =>
    have hlast := hp t.length (by simp)
    obtain ⟨c, hc, _, hle⟩ := h.range _ _ hlast
    unfold officialLog
    rw [hc]
    show (a :: t) <+: collect db.log 0 (c + 1).toNat
    have : (c + 1).toNat = (a :: t).length + ((c + 1).toNat - (a :: t).length) := by
      simp only [List.length_cons]; omega
    rw [this, collect_of_slice db.log (a :: t) 0 hp]
    exact List.prefix_append _ _

theorem officialLog_mono {cfg : Cfg} {db db' : Redis ρ} {pcs' : Pcs ρ} (h' : InvP cfg db' pcs') (he : Ext db db') :
    officialLog db <+: officialLog db' :=
  slice_prefix_official h' _ ((officialLog_slice db).mono he.log)

end OptunaVerif.JournalRedis
