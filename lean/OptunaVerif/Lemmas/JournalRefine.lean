import OptunaVerif.Lemmas.Journal
import OptunaVerif.Lemmas.Storage
/-! The journal replay model refines the storage contract model (used by C01 and C06). -/
namespace OptunaVerif.Journal
open OptunaVerif OptunaVerif.Storage

/-- the contract call a record stands for; `raised` = did the issuer get `ValueError`
(only consulted by the contract where it leaves the answer open: U1) -/
def opOf (r : Rec) (raised : Bool) : Op :=
  match r with
  | .createStudy _ name dirs => .createStudy name dirs
  | .deleteStudy _ sid => .deleteStudy sid
  | .setStudyUserAttr _ sid k v => .setStudyUserAttr sid k v
  | .setStudySystemAttr _ sid k v => .setStudySystemAttr sid k v
  | .createTrial _ sid t => .createTrial sid t false
  | .setTrialParam _ tid name p => .setTrialParam tid name p raised
  | .setTrialStateValues _ tid st vs => .setTrialStateValues tid st vs
  | .setTrialInter _ tid stp v => .setTrialInter tid stp v
  | .setTrialUserAttr _ tid k v => .setTrialUserAttr tid k v
  | .setTrialSystemAttr _ tid k v => .setTrialSystemAttr tid k v

/-- the error part of a contract answer -/
def errOf : Out → Option Err
  | .err e => some e
  | _ => none

/-- Invariant linking the journal's compatibility test (first trial of the study, in number order,
that has the name) with the contract's (`paramDist`, the distribution fixed by `set_trial_param`). -/
def JInv (s : Spec) : Prop :=
  ∀ sid st name d1, s.study? sid = some st → st.paramDist.get? name = some d1 →
    ∃ d0, firstDistOf s sid name = some d0 ∧ d0.compat d1 = true

theorem compat_symm' (a b : Dist) (h : a.compat b = true) : b.compat a = true := by
  unfold Dist.compat at *
  simp only [Bool.and_eq_true, beq_iff_eq] at h ⊢
  obtain ⟨hk, h2⟩ := h
  refine ⟨hk.symm, ?_⟩
  rw [← hk]
  by_cases hc : a.kind = 2
  · simp only [hc, if_true, beq_iff_eq] at h2 ⊢; exact h2.symm
  · simp only [hc, if_false, beq_iff_eq] at h2 ⊢; exact h2.symm

theorem compat_trans' (a b c : Dist) (h1 : a.compat b = true) (h2 : b.compat c = true) :
    a.compat c = true := by
  unfold Dist.compat at *
  simp only [Bool.and_eq_true, beq_iff_eq] at h1 h2 ⊢
  obtain ⟨hk1, h1'⟩ := h1
  obtain ⟨hk2, h2'⟩ := h2
  refine ⟨hk1.trans hk2, ?_⟩
  rw [← hk1] at h2'
  by_cases hc : a.kind = 2
  · simp only [hc, if_true, beq_iff_eq] at h1' h2' ⊢; exact h1'.trans h2'
  · simp only [hc, if_false, beq_iff_eq] at h1' h2' ⊢; exact h1'.trans h2'

/-- the first trial of the study that has the name carries a distribution some trial of the study has -/
theorem firstDistOf_mem (s : Spec) (sid : Nat) (name : String) (d0 : Dist)
    (h : firstDistOf s sid name = some d0) :
    ∃ p ∈ s.trialsOf sid, ∃ q, p.2.params.get? name = some q ∧ q.dist = d0 := by
  unfold firstDistOf at h
  cases hf : (s.trialsOf sid).findSome? (fun p => p.2.params.get? name) with
  | none => simp [hf] at h
  | some q =>
    simp only [hf, Option.map_some, Option.some.injEq] at h
    obtain ⟨p, hp, hq⟩ := List.exists_of_findSome?_eq_some hf
    exact ⟨p, hp, q, hq, h⟩

/-- **journal_refines_spec** (one record): under the invariant, replaying a record changes the
public state exactly as the contract call it stands for does, and the issuer's error is the
contract's error. -/
theorem apply_refines_step (s : Spec) (r : Rec) (hJ : JInv s) :
    applySpec s r = (Storage.step s (opOf r (rejects s r == some .valueError))).1 ∧
    rejects s r = errOf (Storage.step s (opOf r (rejects s r == some .valueError))).2 := by
  cases r with
  | setTrialParam w tid name p =>
    simp only [applySpec, rejects, opOf, Storage.step, updatable]
    cases hw : s.writable tid with
    | error e => simp [errOf]
    | ok t =>
      simp only
      have hlive : (s.study? t.study).isSome = true :=
        ((trial?_some_iff s tid t).1 ((writable_ok_iff s tid t).1 hw).1).2
      obtain ⟨st, hst⟩ := Option.isSome_iff_exists.1 hlive
      simp only [hst]
      have hcases : firstDistOf s t.study name = none ∨ ∃ d0, firstDistOf s t.study name = some d0 := by
        cases firstDistOf s t.study name with
        | none => exact .inl rfl
        | some d => exact .inr ⟨d, rfl⟩
      rcases hcases with hfd | ⟨d0, hfd⟩
      · simp only [hfd]
        -- nobody has the name: the contract has nothing fixed either
        have hfix : st.fixedConflict name p.dist = false := by
          unfold StudyS.fixedConflict
          cases hpd : st.paramDist.get? name with
          | none => rfl
          | some d1 =>
            obtain ⟨d0, h0, _⟩ := hJ t.study st name d1 hst hpd
            rw [hfd] at h0; simp at h0
        simp [hfix, errOf, setParam]
      · simp only [hfd]
        by_cases hc : d0.compat p.dist = true
        · -- accepted by the journal
          have hfix : st.fixedConflict name p.dist = false := by
            unfold StudyS.fixedConflict
            cases hpd : st.paramDist.get? name with
            | none => rfl
            | some d1 =>
              obtain ⟨d0', h0, hcomp⟩ := hJ t.study st name d1 hst hpd
              rw [hfd] at h0
              simp only [Option.some.injEq] at h0
              subst h0
              have : d1.compat p.dist = true := compat_trans' d1 d0 p.dist (compat_symm' _ _ hcomp) hc
              simp [this]
          simp [hc, hfix, errOf, setParam]
        · -- rejected by the journal: the contract raises too (fixed or template conflict)
          have hc' : d0.compat p.dist = false := by simpa using hc
          obtain ⟨pr, hpr, q, hq, hqd⟩ := firstDistOf_mem s t.study name d0 hfd
          have htc : s.templateConflict t.study name p.dist = true := by
            unfold Spec.templateConflict
            simp only [List.any_eq_true]
            exact ⟨pr, hpr, by simp [hq, hqd, hc']⟩
          by_cases hfix : st.fixedConflict name p.dist = true
          · simp [hc', hfix, errOf]
          · simp [hc', hfix, htc, errOf]
  | setTrialStateValues w tid state values =>
    simp only [applySpec, rejects, opOf, Storage.step, updatable]
    cases hw : s.writable tid with
    | error e => simp [errOf]
    | ok t =>
      have hnf := ((writable_ok_iff s tid t).1 hw).2
      cases hst : t.state <;> simp [hst, TState.isFinished] at hnf <;>
        cases state <;> simp [hst, errOf]
  | createTrial w sid tmpl =>
    simp only [applySpec, rejects, opOf, Storage.step]
    cases hs : s.study? sid <;> simp [errOf]
  | _ =>
    simp only [applySpec, rejects, opOf, Storage.step, updatable]
    repeat' split
    all_goals simp_all [errOf]

end OptunaVerif.Journal

namespace OptunaVerif.Journal
open OptunaVerif OptunaVerif.Storage

/-! ### the invariant holds in every state the replay can reach -/

theorem trialsFrom_fst_ge (sid : Nat) (l : List TrialS) (i : Nat) :
    ∀ q ∈ trialsFrom sid l i, i ≤ q.1 := by
  induction l generalizing i with
  | nil => intro q hq; simp [trialsFrom] at hq
  | cons a r ih =>
    intro q hq
    simp only [trialsFrom] at hq
    split at hq
    · simp only [List.mem_cons] at hq
      rcases hq with hq | hq
      · subst hq; exact Nat.le_refl _
      · exact Nat.le_of_succ_le (ih (i + 1) q hq)
    · exact Nat.le_of_succ_le (ih (i + 1) q hq)

theorem trialsFrom_updAt (sid : Nat) (l : List TrialS) (j i : Nat) (f : TrialS → TrialS)
    (hf : ∀ t, (f t).study = t.study) :
    trialsFrom sid (updAt l j f) i =
      (trialsFrom sid l i).map (fun q => if q.1 = i + j then (q.1, f q.2) else q) := by
  induction l generalizing j i with
  | nil => simp [updAt, trialsFrom]
  | cons a r ih =>
    cases j with
    | zero =>
      simp only [updAt, trialsFrom, hf, Nat.add_zero]
      split
      · simp only [List.map_cons, if_true]
        congr 1
        -- tail unchanged
        refine (List.map_congr_left ?_).trans (List.map_id _) |>.symm
        intro q hq
        have := trialsFrom_fst_ge sid r (i + 1) q hq
        have hne : q.1 ≠ i := by omega
        simp [hne]
      · refine ((List.map_congr_left ?_).trans (List.map_id _)).symm
        intro q hq
        have := trialsFrom_fst_ge sid r (i + 1) q hq
        have hne : q.1 ≠ i := by omega
        simp [hne]
    | succ j =>
      simp only [updAt, trialsFrom]
      have e : i + (j + 1) = (i + 1) + j := by omega
      split
      · simp only [List.map_cons]
        have hne : i ≠ i + (j + 1) := by omega
        simp only [hne, if_false]
        rw [ih j (i + 1), e]
      · rw [ih j (i + 1), e]

end OptunaVerif.Journal

namespace OptunaVerif.Journal
open OptunaVerif OptunaVerif.Storage

theorem trialsFrom_append (sid : Nat) (l : List TrialS) (t : TrialS) (i : Nat) :
    trialsFrom sid (l ++ [t]) i =
      trialsFrom sid l i ++ (if t.study == sid then [(i + l.length, t)] else []) := by
  induction l generalizing i with
  | nil => simp [trialsFrom]
  | cons a r ih =>
    simp only [List.cons_append, trialsFrom, List.length_cons]
    have e : i + 1 + r.length = i + (r.length + 1) := by omega
    split <;> simp [ih (i + 1), e]

/-- `findSome?` over a list in which one entry was given a value: the first hit is that value or
the old first hit -/
theorem findSome?_upd {β : Type} (g : TrialS → Option β) (L : List (Nat × TrialS)) (tid : Nat)
    (f : TrialS → TrialS) (v : β) (hv : ∀ t, g (f t) = some v) (w : β)
    (h : (L.map (fun q => if q.1 = tid then (q.1, f q.2) else q)).findSome? (fun q => g q.2) = some w) :
    w = v ∨ L.findSome? (fun q => g q.2) = some w := by
  induction L with
  | nil => simp at h
  | cons q r ih =>
    simp only [List.map_cons, List.findSome?_cons] at h ⊢
    by_cases hq : q.1 = tid
    · simp only [hq, if_true, hv] at h
      simp only [Option.some.injEq] at h
      exact .inl h.symm
    · simp only [hq, if_false] at h
      cases hg : g q.2 with
      | some x => simp only [hg] at h ⊢; exact .inr h
      | none => simp only [hg] at h ⊢; exact ih h

theorem findSome?_upd_some {β : Type} (g : TrialS → Option β) (L : List (Nat × TrialS)) (tid : Nat)
    (f : TrialS → TrialS) (v : β) (hv : ∀ t, g (f t) = some v) (hmem : ∃ q ∈ L, q.1 = tid) :
    ∃ w, (L.map (fun q => if q.1 = tid then (q.1, f q.2) else q)).findSome? (fun q => g q.2) = some w := by
  induction L with
  | nil => obtain ⟨q, hq, _⟩ := hmem; simp at hq
  | cons q r ih =>
    simp only [List.map_cons, List.findSome?_cons]
    by_cases hq : q.1 = tid
    · simp only [hq, if_true, hv]; exact ⟨v, rfl⟩
    · simp only [hq, if_false]
      cases hg : g q.2 with
      | some x => exact ⟨x, rfl⟩
      | none =>
        simp only
        apply ih
        obtain ⟨q', hq', e⟩ := hmem
        simp only [List.mem_cons] at hq'
        rcases hq' with hq' | hq'
        · subst hq'; exact absurd e hq
        · exact ⟨q', hq', e⟩

/-- `findSome?` is unchanged by an update that does not touch what `g` looks at -/
theorem findSome?_upd_same {β : Type} (g : TrialS → Option β) (L : List (Nat × TrialS)) (tid : Nat)
    (f : TrialS → TrialS) (hg : ∀ t, g (f t) = g t) :
    (L.map (fun q => if q.1 = tid then (q.1, f q.2) else q)).findSome? (fun q => g q.2) =
      L.findSome? (fun q => g q.2) := by
  induction L with
  | nil => rfl
  | cons q r ih =>
    simp only [List.map_cons, List.findSome?_cons]
    by_cases hq : q.1 = tid
    · simp only [hq, if_true, hg, ih]
    · simp only [hq, if_false, ih]

/-- the study-indexed view of the trials after an update of trial `tid` that keeps its study -/
theorem trialsOf_updTrial (s : Spec) (tid sid : Nat) (f : TrialS → TrialS) (hf : ∀ t, (f t).study = t.study) :
    (s.updTrial tid f).trialsOf sid =
      (s.trialsOf sid).map (fun q => if q.1 = tid then (q.1, f q.2) else q) := by
  unfold Spec.trialsOf
  rw [updTrial_trials, trialsFrom_updAt sid s.trials tid 0 f hf]
  simp

theorem firstDistOf_updStudy (s : Spec) (sid0 sid : Nat) (f : StudyS → StudyS) (name : String) :
    firstDistOf (s.updStudy sid0 f) sid name = firstDistOf s sid name := rfl

theorem study?_updAt (l : List (Option StudyS)) (s : Spec) (sid0 sid : Nat) (g : Option StudyS → Option StudyS)
    (h : s.studies = l) :
    ({ s with studies := updAt l sid0 g } : Spec).study? sid =
      if sid = sid0 then ((l[sid]?).map g).join else s.study? sid := by
  subst h
  unfold Spec.study?
  simp only [updAt_getElem?]
  split <;> rfl

end OptunaVerif.Journal

namespace OptunaVerif.Journal
open OptunaVerif OptunaVerif.Storage

theorem jinv_init : JInv Storage.init := by
  intro sid st name d1 h
  simp [Storage.init, Spec.study?] at h

/-- JInv only looks at `study?`, the trials of each study and their parameters -/
theorem jinv_of_same (s s' : Spec) (h : JInv s)
    (hst : ∀ sid st', s'.study? sid = some st' → ∃ st, s.study? sid = some st ∧ st'.paramDist = st.paramDist)
    (hfd : ∀ sid name, firstDistOf s' sid name = firstDistOf s sid name) : JInv s' := by
  intro sid st' name d1 hs hp
  obtain ⟨st, hs0, hpd⟩ := hst sid st' hs
  rw [hpd] at hp
  obtain ⟨d0, h0, hc⟩ := h sid st name d1 hs0 hp
  exact ⟨d0, by rw [hfd]; exact h0, hc⟩

theorem firstDistOf_updTrial_same (s : Spec) (tid sid : Nat) (name : String) (f : TrialS → TrialS)
    (hf : ∀ t, (f t).study = t.study) (hp : ∀ t, (f t).params = t.params) :
    firstDistOf (s.updTrial tid f) sid name = firstDistOf s sid name := by
  unfold firstDistOf
  rw [trialsOf_updTrial s tid sid f hf]
  rw [findSome?_upd_same (fun t => t.params.get? name) (s.trialsOf sid) tid f (by intro t; simp [hp])]

theorem study?_updTrial' (s : Spec) (tid sid : Nat) (f : TrialS → TrialS) :
    (s.updTrial tid f).study? sid = s.study? sid := rfl

theorem study?_updStudy (s : Spec) (sid0 sid : Nat) (f : StudyS → StudyS) :
    (s.updStudy sid0 f).study? sid = if sid = sid0 then (s.study? sid).map f else s.study? sid := by
  unfold Spec.updStudy Spec.study?
  simp only [updAt_getElem?]
  split
  · cases s.studies[sid]? with
    | none => rfl
    | some o => cases o <;> rfl
  · rfl

/-- **The invariant is preserved by every replayed record**, accepted or rejected. -/
theorem jinv_step (s : Spec) (r : Rec) (h : JInv s) : JInv (applySpec s r) := by
  unfold applySpec
  cases hrej : rejects s r with
  | some e => exact h
  | none =>
    simp only
    cases r with
    | createStudy w name dirs =>
      simp only
      intro sid st' nm d1 hs hp
      unfold Spec.study? at hs
      simp only at hs
      rcases Nat.lt_or_ge sid s.studies.length with hlt | hge
      · rw [List.getElem?_append_left hlt] at hs
        obtain ⟨d0, h0, hc⟩ := h sid st' nm d1 hs hp
        exact ⟨d0, h0, hc⟩
      · rw [List.getElem?_append_right hge] at hs
        cases hk : sid - s.studies.length with
        | zero =>
          simp only [hk, List.getElem?_cons_zero, Option.join_some, Option.some.injEq] at hs
          subst hs
          simp [AList.get?] at hp
        | succ k => simp [hk] at hs
    | deleteStudy w sid0 =>
      simp only
      intro sid st' nm d1 hs hp
      rw [study?_updAt s.studies s sid0 sid (fun _ => none) rfl] at hs
      split at hs
      · cases hh : s.studies[sid]? <;> simp [hh] at hs
      · exact h sid st' nm d1 hs hp
    | setStudyUserAttr w sid0 k v =>
      simp only
      refine jinv_of_same s _ h ?_ (fun _ _ => rfl)
      intro sid st' hs
      rw [study?_updStudy] at hs
      split at hs
      · cases hh : s.study? sid with
        | none => simp [hh] at hs
        | some st => simp only [hh, Option.map_some, Option.some.injEq] at hs; exact ⟨st, rfl, by rw [← hs]⟩
      · exact ⟨st', hs, rfl⟩
    | setStudySystemAttr w sid0 k v =>
      simp only
      refine jinv_of_same s _ h ?_ (fun _ _ => rfl)
      intro sid st' hs
      rw [study?_updStudy] at hs
      split at hs
      · cases hh : s.study? sid with
        | none => simp [hh] at hs
        | some st => simp only [hh, Option.map_some, Option.some.injEq] at hs; exact ⟨st, rfl, by rw [← hs]⟩
      · exact ⟨st', hs, rfl⟩
    | createTrial w sid0 tmpl =>
      simp only
      intro sid st' nm d1 hs hp
      have hs0 : s.study? sid = some st' := hs
      obtain ⟨d0, h0, hc⟩ := h sid st' nm d1 hs0 hp
      refine ⟨d0, ?_, hc⟩
      unfold firstDistOf Spec.trialsOf at h0 ⊢
      simp only
      rw [trialsFrom_append, List.findSome?_append]
      cases hf : (trialsFrom sid s.trials 0).findSome? (fun p => p.2.params.get? nm) with
      | none => simp [hf] at h0
      | some q => simp only [hf] at h0 ⊢; exact h0
    | setTrialParam w tid name p =>
      simp only [updatable] at hrej ⊢
      cases hw : s.writable tid with
      | error e => simp [rejects, updatable, hw] at hrej
      | ok t =>
        simp only
        have hget := ((trial?_some_iff s tid t).1 ((writable_ok_iff s tid t).1 hw).1).1
        have hmem : ∃ q ∈ s.trialsOf t.study, q.1 = tid := by
          refine ⟨(tid, t), ?_, rfl⟩
          unfold Spec.trialsOf
          rw [mem_trialsFrom]
          exact ⟨tid, by omega, hget, rfl⟩
        -- what the journal checked when it accepted the record
        have hacc : ∀ d0, firstDistOf s t.study name = some d0 → d0.compat p.dist = true := by
          intro d0 hd0
          simp only [rejects, updatable, hw, hd0] at hrej
          split at hrej
          · assumption
          · simp at hrej
        intro sid st' nm d1 hs hp
        unfold setParam at hs ⊢
        rw [study?_updStudy, study?_updTrial'] at hs
        have hf1 : ∀ t0 : TrialS, ({ t0 with params := t0.params.set name p } : TrialS).study = t0.study := fun _ => rfl
        by_cases hsid : sid = t.study
        · subst hsid
          simp only [if_true] at hs
          cases hh : s.study? t.study with
          | none => simp [hh] at hs
          | some st =>
            simp only [hh, Option.map_some, Option.some.injEq] at hs
            subst hs
            simp only at hp
            by_cases hnm : nm = name
            · subst hnm
              rw [AList.get?_set_same] at hp
              simp only [Option.some.injEq] at hp
              subst hp
              -- the new first distribution is p's or the old first one
              rw [firstDistOf_updStudy]
              unfold firstDistOf
              rw [trialsOf_updTrial s tid t.study _ hf1]
              obtain ⟨wv, hwv⟩ := findSome?_upd_some (fun t0 => t0.params.get? nm) (s.trialsOf t.study) tid
                (fun t0 => { t0 with params := t0.params.set nm p }) p (by intro t0; exact AList.get?_set_same _ _ _) hmem
              rw [hwv]
              refine ⟨wv.dist, rfl, ?_⟩
              rcases findSome?_upd (fun t0 => t0.params.get? nm) (s.trialsOf t.study) tid
                (fun t0 => { t0 with params := t0.params.set nm p }) p (by intro t0; exact AList.get?_set_same _ _ _) wv hwv with e | e
              · subst e
                unfold Dist.compat; split <;> simp
              · exact hacc wv.dist (by unfold firstDistOf; rw [e]; rfl)
            · rw [AList.get?_set_other _ _ _ _ hnm] at hp
              obtain ⟨d0, h0, hc⟩ := h t.study st nm d1 hh hp
              refine ⟨d0, ?_, hc⟩
              rw [firstDistOf_updStudy]
              unfold firstDistOf at h0 ⊢
              rw [trialsOf_updTrial s tid t.study _ hf1]
              have e := findSome?_upd_same (fun t0 : TrialS => t0.params.get? nm) (s.trialsOf t.study) tid
                (fun t0 => ({ t0 with params := t0.params.set name p } : TrialS))
                (by intro t0; exact AList.get?_set_other _ _ _ _ hnm)
              exact (congrArg (Option.map (·.dist)) e).trans h0
        · simp only [hsid, if_false] at hs
          obtain ⟨d0, h0, hc⟩ := h sid st' nm d1 hs hp
          refine ⟨d0, ?_, hc⟩
          rw [firstDistOf_updStudy]
          unfold firstDistOf at h0 ⊢
          rw [trialsOf_updTrial s tid sid _ hf1]
          -- trial `tid` belongs to another study: it does not occur in this study's list
          have hno : ∀ q ∈ s.trialsOf sid, q.1 ≠ tid := by
            intro q hq e
            unfold Spec.trialsOf at hq
            obtain ⟨qi, qt⟩ := q
            rw [mem_trialsFrom] at hq
            obtain ⟨k, hk, hgetk, hst⟩ := hq
            simp only at e
            have : k = tid := by omega
            subst this
            rw [hget] at hgetk
            simp only [Option.some.injEq] at hgetk
            subst hgetk
            exact hsid hst.symm
          have : (s.trialsOf sid).map (fun q => if q.1 = tid then (q.1, ({ q.2 with params := q.2.params.set name p } : TrialS)) else q) = s.trialsOf sid := by
            refine (List.map_congr_left ?_).trans (List.map_id _)
            intro q hq
            simp [hno q hq]
          rw [this]
          exact h0
    | setTrialStateValues w tid state values =>
      simp only [updatable]
      cases hw : s.writable tid with
      | error e => exact h
      | ok t =>
        simp only
        split
        · exact h
        · exact jinv_of_same s _ h (fun sid st' hs => ⟨st', hs, rfl⟩)
            (fun sid nm => firstDistOf_updTrial_same s tid sid nm _ (fun _ => rfl) (fun _ => rfl))
    | setTrialInter w tid stp v =>
      exact jinv_of_same s _ h (fun sid st' hs => ⟨st', hs, rfl⟩)
        (fun sid nm => firstDistOf_updTrial_same s tid sid nm _ (fun _ => rfl) (fun _ => rfl))
    | setTrialUserAttr w tid k v =>
      exact jinv_of_same s _ h (fun sid st' hs => ⟨st', hs, rfl⟩)
        (fun sid nm => firstDistOf_updTrial_same s tid sid nm _ (fun _ => rfl) (fun _ => rfl))
    | setTrialSystemAttr w tid k v =>
      exact jinv_of_same s _ h (fun sid st' hs => ⟨st', hs, rfl⟩)
        (fun sid nm => firstDistOf_updTrial_same s tid sid nm _ (fun _ => rfl) (fun _ => rfl))

end OptunaVerif.Journal
