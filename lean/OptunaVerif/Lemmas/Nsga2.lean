import OptunaVerif.Model.Nsga2
import Mathlib.Data.List.Perm.Basic
import Mathlib.Data.List.Perm.Subperm
import Mathlib.Data.List.Sort
/-! Lemmas for the NSGA-II model (`Model/Nsga2.lean`): the stable sort is a permutation, the elite selection loop,
the per-rank grouping. -/
namespace OptunaVerif.Nsga2
open List

/-! ## `list.sort(key=…)` -/

section SortSec
variable {α β : Type} (lt : α → α → Bool) (key : β → α)

theorem insertByKey_perm (x : β) (l : List β) : (insertByKey lt key x l).Perm (x :: l) := by
  induction l with
  | nil => exact Perm.refl _
  | cons y t ih =>
    simp only [insertByKey]
    split
    · exact (Perm.cons y ih).trans (Perm.swap x y t)
    · exact Perm.refl _

theorem sortByKey_perm (l : List β) : (sortByKey lt key l).Perm l := by
  induction l with
  | nil => exact Perm.refl _
  | cons x t ih => exact (insertByKey_perm lt key x _).trans (Perm.cons x ih)

theorem sortByKey_length (l : List β) : (sortByKey lt key l).length = l.length :=
  (sortByKey_perm lt key l).length_eq

/-- `a` may stand before `b` -/
def Ord (a b : β) : Prop := lt (key b) (key a) = false

/-- sortedness, for keys in a set `P` on which `lt` is asymmetric and "not less" is transitive -/
theorem insertByKey_sorted (P : α → Prop)
    (hasym : ∀ a b, P a → P b → lt a b = true → lt b a = false)
    (htr : ∀ a b c, P a → P b → P c → lt b a = false → lt c b = false → lt c a = false)
    (x : β) (l : List β) (hx : P (key x)) (hl : ∀ y ∈ l, P (key y))
    (hs : l.Pairwise (Ord lt key)) : (insertByKey lt key x l).Pairwise (Ord lt key) := by
  induction l with
  | nil => simp [insertByKey]
  | cons y t ih =>
    have hy : P (key y) := hl y (by simp)
    have ht : ∀ z ∈ t, P (key z) := fun z hz => hl z (by simp [hz])
    rw [pairwise_cons] at hs
    simp only [insertByKey]
    split
    · rename_i hlt
      rw [pairwise_cons]
      refine ⟨?_, ih ht hs.2⟩
      intro z hz
      have hz' : z ∈ x :: t := (insertByKey_perm lt key x t).subset hz
      rcases mem_cons.1 hz' with rfl | hz''
      · exact hasym _ _ hy hx hlt
      · exact hs.1 z hz''
    · rename_i hlt
      have hlt' : lt (key y) (key x) = false := by simpa using hlt
      rw [pairwise_cons]
      refine ⟨?_, pairwise_cons.2 hs⟩
      intro z hz
      rcases mem_cons.1 hz with rfl | hz'
      · exact hlt'
      · exact htr _ _ _ hx hy (ht z hz') hlt' (hs.1 z hz')

theorem sortByKey_sorted (P : α → Prop)
    (hasym : ∀ a b, P a → P b → lt a b = true → lt b a = false)
    (htr : ∀ a b c, P a → P b → P c → lt b a = false → lt c b = false → lt c a = false)
    (l : List β) (hl : ∀ y ∈ l, P (key y)) : (sortByKey lt key l).Pairwise (Ord lt key) := by
  induction l with
  | nil => simp [sortByKey]
  | cons x t ih =>
    have ht : ∀ y ∈ t, P (key y) := fun y hy => hl y (by simp [hy])
    exact insertByKey_sorted lt key P hasym htr x _ (hl x (by simp))
      (fun y hy => ht y ((sortByKey_perm lt key t).subset hy)) (ih ht)

end SortSec

/-! ## crowding: the population is only permuted -/

section Crowd
variable {α : Type} (N : Num α)

theorem crowdStep_perm (st : List (Ind α) × Dists α) (i : Nat) : (crowdStep N st i).1.Perm st.1 := by
  unfold crowdStep
  simp only
  split
  · split <;> exact sortByKey_perm _ _ _
  · exact sortByKey_perm _ _ _

theorem foldl_crowdStep_perm (is : List Nat) (st : List (Ind α) × Dists α) :
    (is.foldl (crowdStep N) st).1.Perm st.1 := by
  induction is generalizing st with
  | nil => exact Perm.refl _
  | cons i is ih => exact (ih _).trans (crowdStep_perm N st i)

theorem calcCrowding_perm (pop : List (Ind α)) : (calcCrowding N pop).1.Perm pop := by
  unfold calcCrowding
  cases pop with
  | nil => exact Perm.refl _
  | cons p0 t => exact foldl_crowdStep_perm N _ _

theorem crowdingSort_perm (pop : List (Ind α)) : (crowdingSort N pop).Perm pop := by
  unfold crowdingSort
  exact (sortByKey_perm _ _ _).trans (calcCrowding_perm N pop)

theorem crowdingSortOld_perm (pop : List (Ind α)) : (crowdingSortOld N pop).Perm pop := by
  unfold crowdingSortOld
  exact (reverse_perm _).trans ((sortByKey_perm _ _ _).trans (calcCrowding_perm N pop))

theorem crowdingSort_length (pop : List (Ind α)) : (crowdingSort N pop).length = pop.length :=
  (crowdingSort_perm N pop).length_eq

/-! ## the selection loop -/

theorem selectLoop_length (popSize : Nat) (fronts : List (List (Ind α))) (elite : List (Ind α))
    (he : elite.length ≤ popSize) :
    (selectLoop N popSize fronts elite).length = min popSize (elite.length + fronts.flatten.length) := by
  induction fronts generalizing elite with
  | nil => simp [selectLoop]; omega
  | cons f rest ih =>
    simp only [selectLoop]
    split
    · rename_i h
      rw [ih (elite ++ f) (by simp; omega)]
      simp [Nat.add_assoc]
    · rename_i h
      simp only [length_append, length_take, crowdingSort_length, flatten_cons]
      omega

theorem selectLoop_subperm (popSize : Nat) (fronts : List (List (Ind α))) (elite : List (Ind α)) :
    (selectLoop N popSize fronts elite).Subperm (elite ++ fronts.flatten) := by
  induction fronts generalizing elite with
  | nil => simp [selectLoop, Subperm.refl]
  | cons f rest ih =>
    simp only [selectLoop]
    split
    · have := ih (elite ++ f)
      simpa [append_assoc] using this
    · simp only [flatten_cons]
      have h1 : ((crowdingSort N f).take (popSize - elite.length)).Subperm f :=
        ((take_sublist _ _).subperm).trans (crowdingSort_perm N f).subperm
      have h2 : (elite ++ (crowdingSort N f).take (popSize - elite.length)).Subperm (elite ++ f) :=
        (subperm_append_left elite).2 h1
      exact h2.trans ((sublist_append_left (elite ++ f) rest.flatten).subperm.trans (by simp [Subperm.refl]))

theorem elite_subset_selectLoop (popSize : Nat) (fronts : List (List (Ind α))) (elite : List (Ind α)) :
    ∀ x ∈ elite, x ∈ selectLoop N popSize fronts elite := by
  induction fronts generalizing elite with
  | nil => intro x hx; simpa [selectLoop] using hx
  | cons f rest ih =>
    intro x hx
    simp only [selectLoop]
    split
    · exact ih (elite ++ f) x (mem_append_left _ hx)
    · exact mem_append_left _ hx

/-- every selected individual is in the initial elite or in some front all of whose predecessors are selected
entirely -/
theorem selectLoop_fronts (popSize : Nat) (fronts : List (List (Ind α))) (elite : List (Ind α)) :
    ∀ x ∈ selectLoop N popSize fronts elite, x ∈ elite ∨
      ∃ i, ∃ h : i < fronts.length, x ∈ fronts[i] ∧
        ∀ y ∈ (fronts.take i).flatten, y ∈ selectLoop N popSize fronts elite := by
  induction fronts generalizing elite with
  | nil => intro x hx; left; simpa [selectLoop] using hx
  | cons f rest ih =>
    intro x hx
    simp only [selectLoop] at hx ⊢
    split at hx
    · rename_i hlt
      simp only [hlt, if_true]
      rcases ih (elite ++ f) x hx with h | ⟨i, hi, hxi, hall⟩
      · rcases mem_append.1 h with h | h
        · exact Or.inl h
        · exact Or.inr ⟨0, by simp, by simpa using h, by simp⟩
      · refine Or.inr ⟨i + 1, by simpa using hi, by simpa using hxi, ?_⟩
        intro y hy
        simp only [take_succ_cons, flatten_cons, mem_append] at hy
        rcases hy with hy | hy
        · exact elite_subset_selectLoop N popSize rest (elite ++ f) y (mem_append_right _ hy)
        · exact hall y hy
    · rename_i hlt
      simp only [hlt, if_false]
      rcases mem_append.1 hx with h | h
      · exact Or.inl h
      · have : x ∈ f := (crowdingSort_perm N f).subset ((take_sublist _ _).subset h)
        exact Or.inr ⟨0, by simp, by simpa using this, by simp⟩

end Crowd

/-! ## `population_per_rank` -/

section PerRank
variable {β : Type}

theorem filter_lt_succ_perm (L : List (β × Nat)) (K : Nat) :
    (L.filter (fun p => decide (p.2 < K + 1))).Perm
      (L.filter (fun p => decide (p.2 < K)) ++ L.filter (fun p => p.2 == K)) := by
  induction L with
  | nil => simp
  | cons a t ih =>
    simp only [filter_cons]
    by_cases h1 : a.2 < K
    · have h2 : a.2 < K + 1 := by omega
      have h3 : (a.2 == K) = false := by simp; omega
      simp only [h1, h2, h3, decide_true, if_true]
      exact Perm.cons a ih
    · by_cases h2 : a.2 = K
      · have h3 : a.2 < K + 1 := by omega
        have h5 : (a.2 == K) = true := by simpa using h2
        rw [if_pos (by simpa using h3), if_neg (by simpa using h1), if_pos h5]
        refine (Perm.cons a ih).trans ?_
        exact (perm_middle (a := a)).symm
      · have h3 : ¬ a.2 < K + 1 := by omega
        have h4 : (a.2 == K) = false := by simpa using h2
        rw [if_neg (by simpa using h3), if_neg (by simpa using h1), if_neg (by simp [h4])]
        exact ih

theorem perRank_aux (L : List (β × Nat)) (K : Nat) :
    (((List.range K).map (fun r => (L.filter (fun p => p.2 == r)).map (·.1))).flatten).Perm
      ((L.filter (fun p => decide (p.2 < K))).map (·.1)) := by
  induction K with
  | zero => simp
  | succ K ih =>
    rw [List.range_succ, map_append, flatten_append]
    simp only [map_cons, map_nil, flatten_cons, flatten_nil, append_nil]
    refine (Perm.append_right _ ih).trans ?_
    rw [← map_append]
    exact ((filter_lt_succ_perm L K).map _).symm

theorem le_foldl_max (l : List Nat) (a : Nat) : a ≤ l.foldl max a ∧ ∀ x ∈ l, x ≤ l.foldl max a := by
  induction l generalizing a with
  | nil => simp
  | cons y t ih =>
    obtain ⟨h1, h2⟩ := ih (max a y)
    simp only [foldl_cons]
    refine ⟨by omega, ?_⟩
    intro x hx
    rcases mem_cons.1 hx with rfl | hx
    · omega
    · exact h2 x hx

theorem le_maxRank (ranks : List Nat) : ∀ r ∈ ranks, r ≤ maxRank ranks := (le_foldl_max ranks 0).2

theorem perRank_perm (ranks : List Nat) (pop : List β) (hlen : ranks.length = pop.length) :
    (perRank ranks pop).flatten.Perm pop := by
  unfold perRank
  refine (perRank_aux (pop.zip ranks) (maxRank ranks + 1)).trans ?_
  have hall : (pop.zip ranks).filter (fun p => decide (p.2 < maxRank ranks + 1)) = pop.zip ranks := by
    apply filter_eq_self.2
    intro p hp
    have := le_maxRank ranks p.2 (of_mem_zip hp).2
    simp; omega
  rw [hall, map_fst_zip (by omega)]

theorem mem_perRank (ranks : List Nat) (pop : List β) (i : Nat) (h : i < (perRank ranks pop).length) (x : β) :
    x ∈ (perRank ranks pop)[i] ↔ (x, i) ∈ pop.zip ranks := by
  simp only [perRank, getElem_map, getElem_range, mem_map, mem_filter, beq_iff_eq]
  constructor
  · rintro ⟨p, ⟨hp, hr⟩, rfl⟩
    rw [← hr]; exact hp
  · intro hx
    exact ⟨(x, i), ⟨hx, rfl⟩, rfl⟩

theorem perRank_length (ranks : List Nat) (pop : List β) : (perRank ranks pop).length = maxRank ranks + 1 := by
  simp [perRank]

end PerRank

end OptunaVerif.Nsga2
