import OptunaVerif.Lemmas.Nsga2
import Mathlib.Tactic.Linarith
import Mathlib.Tactic.Ring
import Mathlib.Algebra.Order.Field.Rat
/-! Lemmas about `_calc_crowding_distance` at the exact instance `xnum`: arithmetic on `XVal`, the shape of the
contributions (finite non-negative or `+inf`), their reversal under negation of the column, sortedness. -/
namespace OptunaVerif.Nsga2
open List

/-! ## arithmetic on the extended rationals -/

@[simp] theorem xneg_xneg (a : XVal) : xneg (xneg a) = a := by cases a <;> simp [xneg]

theorem xadd_comm (a b : XVal) : xadd a b = xadd b a := by
  cases a <;> cases b <;> simp [xadd, add_comm]

theorem xeq_comm (a b : XVal) : xeq a b = xeq b a := by
  cases a <;> cases b <;> simp [xeq, eq_comm]

theorem xeq_xneg (a b : XVal) : xeq (xneg a) (xneg b) = xeq a b := by
  cases a <;> cases b <;> simp [xeq, xneg]

theorem xlt_xneg (a b : XVal) : xlt (xneg a) (xneg b) = xlt b a := by
  cases a <;> cases b <;> simp [xlt, xneg]

theorem xsub_xneg (a b : XVal) : xsub (xneg a) (xneg b) = xsub b a := by
  unfold xsub
  rw [xneg_xneg, xadd_comm]

/-- not NaN -/
def NotNaN (a : XVal) : Prop := a ≠ .nan

theorem notNaN_xneg {a : XVal} (h : NotNaN a) : NotNaN (xneg a) := by
  cases a <;> simp_all [NotNaN, xneg]

theorem xlt_asymm (a b : XVal) (h : xlt a b = true) : xlt b a = false := by
  cases a <;> cases b <;> simp_all [xlt]
  exact le_of_lt h

theorem xlt_negtrans (a b c : XVal) (ha : NotNaN a) (hb : NotNaN b) (hc : NotNaN c)
    (h1 : xlt b a = false) (h2 : xlt c b = false) : xlt c a = false := by
  cases a <;> cases b <;> cases c <;> simp_all [xlt, NotNaN]
  exact le_trans h1 h2

theorem xlt_irrefl (a : XVal) : xlt a a = false := by cases a <;> simp [xlt]

/-- for non-NaN values `==` is equality -/
theorem xeq_iff {a b : XVal} (ha : NotNaN a) : xeq a b = true ↔ a = b := by
  cases a <;> cases b <;> simp_all [xeq, NotNaN]

theorem xlt_total {a b : XVal} (ha : NotNaN a) (hb : NotNaN b) (h1 : xlt a b = false) (h2 : xlt b a = false) :
    a = b := by
  cases a <;> cases b <;> simp_all [xlt, NotNaN]
  exact le_antisymm h2 h1

/-- a crowding distance (or one contribution to it): a non-negative rational or `+inf` -/
def Good : XVal → Prop
  | .pinf => True
  | .fin q => 0 ≤ q
  | _ => False

theorem Good.notNaN {a : XVal} (h : Good a) : NotNaN a := by
  cases a <;> simp_all [Good, NotNaN]

theorem good_zero : Good (.fin 0) := by simp [Good]

theorem good_xadd {a b : XVal} (ha : Good a) (hb : Good b) : Good (xadd a b) := by
  cases a <;> cases b <;> simp_all [Good, xadd]
  exact add_nonneg ha hb

theorem xadd_pinf_left {b : XVal} (hb : Good b) : xadd .pinf b = .pinf := by
  cases b <;> simp_all [Good, xadd]

theorem xadd_pinf_right {a : XVal} (ha : Good a) : xadd a .pinf = .pinf := by
  cases a <;> simp_all [Good, xadd]

theorem xadd_zero_left (a : XVal) : xadd (.fin 0) a = a := by
  cases a <;> simp [xadd]

/-- the gap between an earlier and a later entry of a sorted column -/
def gapOf (a c : XVal) : XVal := if xeq a c then .fin 0 else xsub c a

theorem good_gapOf_fin (a c : Rat) (h : a ≤ c) : Good (gapOf (.fin a) (.fin c)) := by
  unfold gapOf
  by_cases hac : a = c
  · simp [xeq, hac, Good]
  · simp [xeq, hac, xsub, xadd, xneg, Good]
    linarith

theorem good_gapOf {a c : XVal} (ha : NotNaN a) (hc : NotNaN c) (h : xlt c a = false) : Good (gapOf a c) := by
  cases a <;> cases c <;> simp_all [NotNaN, xlt]
  case fin.fin a c => exact good_gapOf_fin a c h
  all_goals simp [gapOf, xeq, xsub, xadd, xneg, Good]

theorem gapOf_xneg (a c : XVal) : gapOf (xneg c) (xneg a) = gapOf a c := by
  unfold gapOf
  rw [xeq_xneg, xsub_xneg, xeq_comm]

/-- a positive finite width -/
def PosFin : XVal → Prop
  | .fin q => 0 < q
  | _ => False

theorem good_xdiv {g w : XVal} (hg : Good g) (hw : PosFin w) : Good (xdiv g w) := by
  cases g <;> cases w <;> simp_all [Good, PosFin, xdiv]
  · rename_i a b
    have hb : b ≠ 0 := ne_of_gt hw
    simp only [hb, if_false]
    exact div_nonneg hg (le_of_lt hw)

theorem xdiv_pinf {w : XVal} (hw : PosFin w) : xdiv .pinf w = .pinf := by
  cases w <;> simp_all [PosFin, xdiv]

/-! ## `gaps`, `widthOf`, `contribs` at `xnum` -/

theorem gaps_eq (vs : List XVal) : gaps xnum vs = zipWith gapOf vs (vs.drop 2) := rfl

theorem zipWith_drop_reverse {γ δ : Type} (f : γ → γ → δ) (l : List γ) (k : Nat) :
    zipWith f l.reverse (l.reverse.drop k) = (zipWith (fun a c => f c a) l (l.drop k)).reverse := by
  apply List.ext_getElem
  · simp
  · intro i h1 h2
    simp only [length_zipWith, length_reverse, length_drop] at h1 h2
    simp only [getElem_zipWith, getElem_reverse, getElem_drop, length_zipWith, length_drop]
    congr 1 <;> congr 1 <;> omega

/-- negating a column and reversing it reverses the gaps -/
theorem gaps_mirror (vs : List XVal) : gaps xnum ((vs.map xneg).reverse) = (gaps xnum vs).reverse := by
  simp only [gaps_eq, zipWith_drop_reverse, ← map_drop, zipWith_map, gapOf_xneg]

theorem xeq_xneg_left (a b : XVal) : xeq (xneg a) b = xeq a (xneg b) := by
  have := xeq_xneg a (xneg b)
  rwa [xneg_xneg] at this

theorem firstNe_map_xneg (bad dflt : XVal) (l : List XVal) :
    firstNe xnum bad dflt (l.map xneg) = xneg (firstNe xnum (xneg bad) (xneg dflt) l) := by
  unfold firstNe
  rw [find?_map]
  have : ((fun x => !xnum.eq x bad) ∘ xneg) = (fun x => !xnum.eq x (xneg bad)) := by
    funext x
    simp [xnum, xeq_xneg_left]
  rw [this]
  cases (find? (fun x => !xnum.eq x (xneg bad)) l) <;> simp

theorem widthOf_mirror (vs : List XVal) : widthOf xnum ((vs.map xneg).reverse) = widthOf xnum vs := by
  unfold widthOf
  have h1 : firstNe xnum xnum.ninf xnum.pinf ((vs.map xneg).reverse) = xneg (firstNe xnum xnum.pinf xnum.ninf vs.reverse) := by
    rw [← map_reverse, firstNe_map_xneg]; rfl
  have h2 : firstNe xnum xnum.pinf xnum.ninf ((vs.map xneg).reverse).reverse = xneg (firstNe xnum xnum.ninf xnum.pinf vs) := by
    rw [reverse_reverse, firstNe_map_xneg]; rfl
  simp only [h1, h2]
  have : xnum.sub (xneg (firstNe xnum xnum.ninf xnum.pinf vs)) (xneg (firstNe xnum xnum.pinf xnum.ninf vs.reverse)) =
      xnum.sub (firstNe xnum xnum.pinf xnum.ninf vs.reverse) (firstNe xnum xnum.ninf xnum.pinf vs) := xsub_xneg _ _
  simp only [this]

/-- **per objective, every column (ties, infinities, NaN included):** negating the column and reversing it reverses
the list of contributions -/
theorem contribs_mirror (col : List XVal) :
    contribs xnum ((col.map xneg).reverse) = (contribs xnum col).reverse := by
  unfold contribs
  have hvs : xnum.ninf :: ((col.map xneg).reverse ++ [xnum.pinf]) = ((xnum.ninf :: (col ++ [xnum.pinf])).map xneg).reverse := by
    simp [xnum, xneg]
  simp only [hvs, gaps_mirror, widthOf_mirror, map_reverse]

/-! ## the contributions of a sorted column without NaN are finite non-negative or `+inf` -/

/-- ascending (`b` is not smaller than `a` for `a` before `b`) -/
def Asc (l : List XVal) : Prop := l.Pairwise (fun a b => xlt b a = false)

theorem good_gaps (vs : List XVal) (hn : ∀ v ∈ vs, NotNaN v) (hs : Asc vs) : ∀ g ∈ gaps xnum vs, Good g := by
  intro g hg
  rw [gaps_eq] at hg
  obtain ⟨j, hj, rfl⟩ := getElem_of_mem hg
  simp only [length_zipWith, length_drop] at hj
  simp only [getElem_zipWith, getElem_drop]
  apply good_gapOf (hn _ (getElem_mem _)) (hn _ (getElem_mem _))
  exact (pairwise_iff_getElem.1 hs) j (2 + j) (by omega) (by omega) (by omega)

theorem firstNe_spec (bad dflt : XVal) (vs : List XVal) :
    firstNe xnum bad dflt vs = dflt ∨ (firstNe xnum bad dflt vs ∈ vs ∧ xeq (firstNe xnum bad dflt vs) bad = false) := by
  unfold firstNe
  cases h : find? (fun x => !xnum.eq x bad) vs with
  | none => left; rfl
  | some x =>
    right
    have h1 := find?_some h
    have h2 := mem_of_find?_eq_some h
    simp only [Option.getD_some]
    refine ⟨h2, ?_⟩
    simpa [xnum] using h1

theorem posFin_widthOf (vs : List XVal) (hn : ∀ v ∈ vs, NotNaN v) : PosFin (widthOf xnum vs) := by
  unfold widthOf
  have hmin := firstNe_spec xnum.ninf xnum.pinf vs
  have hmax := firstNe_spec xnum.pinf xnum.ninf vs.reverse
  generalize firstNe xnum xnum.ninf xnum.pinf vs = vmin at hmin
  generalize firstNe xnum xnum.pinf xnum.ninf vs.reverse = vmax at hmax
  have h1 : NotNaN vmin ∧ vmin ≠ .ninf := by
    rcases hmin with h | ⟨h, h'⟩
    · subst h; simp [xnum, NotNaN]
    · refine ⟨hn _ h, ?_⟩
      intro he; subst he; simp [xnum, xeq] at h'
  have h2 : NotNaN vmax ∧ vmax ≠ .pinf := by
    rcases hmax with h | ⟨h, h'⟩
    · subst h; simp [xnum, NotNaN]
    · refine ⟨hn _ (mem_reverse.1 h), ?_⟩
      intro he; subst he; simp [xnum, xeq] at h'
  obtain ⟨a1, a2⟩ := h1
  obtain ⟨b1, b2⟩ := h2
  cases vmin <;> cases vmax <;> simp_all [NotNaN, xnum, xsub, xadd, xneg, XVal.le]
  case fin.fin a b =>
    by_cases hle : b ≤ a
    · simp [hle, PosFin]
    · simp [hle, PosFin]; linarith
  all_goals simp [PosFin]

theorem asc_sentinels (col : List XVal) (hn : ∀ v ∈ col, NotNaN v) (hs : Asc col) :
    (∀ v ∈ XVal.ninf :: (col ++ [XVal.pinf]), NotNaN v) ∧ Asc (XVal.ninf :: (col ++ [XVal.pinf])) := by
  constructor
  · intro v hv
    simp only [mem_cons, mem_append, not_mem_nil, or_false] at hv
    rcases hv with rfl | hv | rfl
    · simp [NotNaN]
    · exact hn v hv
    · simp [NotNaN]
  · unfold Asc
    rw [pairwise_cons, pairwise_append]
    refine ⟨?_, hs, by simp, ?_⟩
    · intro b hb
      cases b <;> simp [xlt]
    · intro a ha b hb
      simp only [mem_singleton] at hb
      subst hb
      have := hn a ha
      cases a <;> simp_all [xlt, NotNaN]

theorem good_contribs (col : List XVal) (hn : ∀ v ∈ col, NotNaN v) (hs : Asc col) :
    ∀ c ∈ contribs xnum col, Good c := by
  intro c hc
  unfold contribs at hc
  obtain ⟨h1, h2⟩ := asc_sentinels col hn hs
  simp only [mem_map] at hc
  obtain ⟨g, hg, rfl⟩ := hc
  exact good_xdiv (good_gaps _ h1 h2 g hg) (posFin_widthOf _ h1)

theorem contribs_length (col : List XVal) : (contribs xnum col).length = col.length := by
  unfold contribs gaps
  simp
  omega

/-- the first individual of a sorted column whose second entry is strictly larger gets `+inf` -/
theorem contribs_head (a c1 : XVal) (t : List XVal) (hn : ∀ v ∈ a :: c1 :: t, NotNaN v) (hlt : xlt a c1 = true) :
    (contribs xnum (a :: c1 :: t)).head? = some .pinf := by
  unfold contribs
  have hw := posFin_widthOf (xnum.ninf :: ((a :: c1 :: t) ++ [xnum.pinf])) (by
    intro v hv
    simp only [mem_cons, mem_append, cons_append, not_mem_nil, or_false] at hv
    rcases hv with rfl | rfl | rfl | hv | rfl
    · simp [xnum, NotNaN]
    · exact hn _ (by simp)
    · exact hn _ (by simp)
    · exact hn _ (by simp [hv])
    · simp [xnum, NotNaN])
  simp only [gaps_eq, cons_append, drop_succ_cons, drop_zero, zipWith_cons_cons, map_cons, head?_cons]
  have hg : gapOf xnum.ninf c1 = .pinf := by
    have h1 := hn c1 (by simp)
    cases c1 <;> simp_all [gapOf, xnum, xeq, xsub, xadd, xneg, NotNaN]
    cases a <;> simp_all [xlt]
  rw [hg]
  exact congrArg some (xdiv_pinf hw)

/-- … and the last one when the entry before it is strictly smaller -/
theorem contribs_getLast (t : List XVal) (c b : XVal) (hn : ∀ v ∈ t ++ [c, b], NotNaN v) (hlt : xlt c b = true) :
    (contribs xnum (t ++ [c, b])).getLast? = some .pinf := by
  have h := contribs_mirror (t ++ [c, b])
  have hcol : ((t ++ [c, b]).map xneg).reverse = xneg b :: xneg c :: (t.map xneg).reverse := by simp
  rw [hcol] at h
  have hh := contribs_head (xneg b) (xneg c) ((t.map xneg).reverse) (by
    intro v hv
    simp only [mem_cons, mem_reverse, mem_map] at hv
    rcases hv with rfl | rfl | ⟨w, hw, rfl⟩
    · exact notNaN_xneg (hn b (by simp))
    · exact notNaN_xneg (hn c (by simp))
    · exact notNaN_xneg (hn w (by simp [hw]))) (by rw [xlt_xneg]; exact hlt)
  rw [h, head?_reverse] at hh
  exact hh

/-! ## the `defaultdict` -/

theorem lookupD_addDist (n m : Nat) (e : XVal) (d : Dists XVal) :
    lookupD xnum n (addDist xnum m e d) = if m = n then xadd (lookupD xnum n d) e else lookupD xnum n d := by
  induction d with
  | nil =>
    by_cases h : m = n <;> simp [addDist, lookupD, h, xnum]
  | cons p t ih =>
    obtain ⟨k, x⟩ := p
    by_cases hk : k = m
    · subst hk
      by_cases h : k = n <;> simp [addDist, lookupD, h, xnum]
    · by_cases h : m = n
      · subst h
        simp [addDist, lookupD, hk, ih]
      · by_cases hkn : k = n
        · subst hkn
          simp [addDist, lookupD, hk, h]
        · simp [addDist, lookupD, hk, h, hkn, ih]

/-- every stored distance is finite non-negative or `+inf` -/
def GoodD (d : Dists XVal) : Prop := ∀ n, Good (lookupD xnum n d)

theorem goodD_nil : GoodD [] := by intro n; simp [lookupD, xnum, Good]

theorem goodD_addDist {d : Dists XVal} (hd : GoodD d) (m : Nat) {e : XVal} (he : Good e) : GoodD (addDist xnum m e d) := by
  intro n
  rw [lookupD_addDist]
  split
  · exact good_xadd (hd n) he
  · exact hd n

theorem foldl_addDist_good (ups : List (Nat × XVal)) (d : Dists XVal) (hd : GoodD d) (hu : ∀ p ∈ ups, Good p.2) :
    GoodD (ups.foldl (fun acc p => addDist xnum p.1 p.2 acc) d) := by
  induction ups generalizing d with
  | nil => exact hd
  | cons p t ih =>
    exact ih _ (goodD_addDist hd p.1 (hu p (by simp))) (fun q hq => hu q (by simp [hq]))

theorem foldl_addDist_stable (ups : List (Nat × XVal)) (d : Dists XVal) (hd : GoodD d) (hu : ∀ p ∈ ups, Good p.2)
    (n : Nat) (h : lookupD xnum n d = .pinf) :
    lookupD xnum n (ups.foldl (fun acc p => addDist xnum p.1 p.2 acc) d) = .pinf := by
  induction ups generalizing d with
  | nil => exact h
  | cons p t ih =>
    apply ih _ (goodD_addDist hd p.1 (hu p (by simp))) (fun q hq => hu q (by simp [hq]))
    rw [lookupD_addDist]
    split
    · rw [h]; exact xadd_pinf_left (hu p (by simp))
    · exact h

theorem foldl_addDist_hit (ups : List (Nat × XVal)) (d : Dists XVal) (hd : GoodD d) (hu : ∀ p ∈ ups, Good p.2)
    (n : Nat) (h : (n, XVal.pinf) ∈ ups) :
    lookupD xnum n (ups.foldl (fun acc p => addDist xnum p.1 p.2 acc) d) = .pinf := by
  induction ups generalizing d with
  | nil => simp at h
  | cons p t ih =>
    have hg := goodD_addDist hd p.1 (hu p (by simp))
    have ht : ∀ q ∈ t, Good q.2 := fun q hq => hu q (by simp [hq])
    rcases mem_cons.1 h with h | h
    · subst h
      apply foldl_addDist_stable t _ hg ht
      rw [lookupD_addDist]
      simp only [if_true]
      exact xadd_pinf_right (hd n)
    · exact ih _ hg ht h

/-! ## where a strict extreme ends up in the stable sort -/

section Extreme
variable {α β : Type} (lt : α → α → Bool) (key : β → α)

theorem sortByKey_head_of_strict_min (l : List β) (x : β) (hx : x ∈ l) (hirr : lt (key x) (key x) = false)
    (hmin : ∀ y ∈ l, y ≠ x → lt (key x) (key y) = true ∧ lt (key y) (key x) = false) :
    ∃ t, sortByKey lt key l = x :: t := by
  induction l with
  | nil => simp at hx
  | cons a t' ih =>
    simp only [sortByKey]
    by_cases hxt : x ∈ t'
    · obtain ⟨t'', ht⟩ := ih hxt (fun y hy => hmin y (by simp [hy]))
      rw [ht]
      simp only [insertByKey]
      by_cases ha : a = x
      · subst ha
        simp [hirr]
      · simp [(hmin a (by simp) ha).1]
    · have ha : a = x := by
        rcases mem_cons.1 hx with h | h
        · exact h.symm
        · exact absurd h hxt
      subst ha
      cases hs : sortByKey lt key t' with
      | nil => exact ⟨[], by simp [insertByKey]⟩
      | cons y s' =>
        have hy : y ∈ t' := (sortByKey_perm lt key t').subset (by rw [hs]; simp)
        have hne : y ≠ a := fun h => hxt (h ▸ hy)
        simp only [insertByKey]
        simp [(hmin y (by simp [hy]) hne).2]

theorem insertByKey_all_lt (x : β) (s : List β) (h : ∀ y ∈ s, lt (key y) (key x) = true) :
    insertByKey lt key x s = s ++ [x] := by
  induction s with
  | nil => rfl
  | cons y s ih =>
    simp only [insertByKey, h y (by simp), if_true, cons_append]
    rw [ih (fun z hz => h z (by simp [hz]))]

theorem insertByKey_keeps_last (a x : β) (s : List β) (h : lt (key x) (key a) = false) :
    ∃ s', insertByKey lt key a (s ++ [x]) = s' ++ [x] := by
  induction s with
  | nil => exact ⟨[a], by simp [insertByKey, h]⟩
  | cons y s ih =>
    simp only [cons_append, insertByKey]
    split
    · obtain ⟨s', hs'⟩ := ih
      exact ⟨y :: s', by rw [hs']; rfl⟩
    · exact ⟨a :: y :: s, by simp⟩

theorem sortByKey_last_of_strict_max (l : List β) (x : β) (hx : x ∈ l) (hirr : lt (key x) (key x) = false)
    (hmax : ∀ y ∈ l, y ≠ x → lt (key y) (key x) = true ∧ lt (key x) (key y) = false) :
    ∃ t, sortByKey lt key l = t ++ [x] := by
  induction l with
  | nil => simp at hx
  | cons a t' ih =>
    simp only [sortByKey]
    by_cases hxt : x ∈ t'
    · obtain ⟨t'', ht⟩ := ih hxt (fun y hy => hmax y (by simp [hy]))
      rw [ht]
      apply insertByKey_keeps_last
      by_cases ha : a = x
      · subst ha; exact hirr
      · exact (hmax a (by simp) ha).2
    · have ha : a = x := by
        rcases mem_cons.1 hx with h | h
        · exact h.symm
        · exact absurd h hxt
      subst ha
      refine ⟨sortByKey lt key t', insertByKey_all_lt lt key a _ ?_⟩
      intro y hy
      have hy' : y ∈ t' := (sortByKey_perm lt key t').subset hy
      have hne : y ≠ a := fun h => hxt (h ▸ hy')
      exact (hmax y (by simp [hy']) hne).1

end Extreme

/-! ## invariants of the per-objective loop -/

/-- no objective value of the population is NaN (the storage refuses NaN for COMPLETE trials) -/
def NoNaNPop (pop : List (Ind XVal)) : Prop := ∀ x ∈ pop, ∀ i, NotNaN (x.val xnum i)

abbrev CSt := List (Ind XVal) × Dists XVal

def Inv (pop : List (Ind XVal)) (st : CSt) : Prop := st.1.Perm pop ∧ GoodD st.2

theorem xlt_ne {a b : XVal} (h : xlt a b = true) : xeq a b = false := by
  cases a <;> cases b <;> simp_all [xlt, xeq]
  exact ne_of_lt h

theorem sorted_col (l : List (Ind XVal)) (i : Nat) (hn : ∀ x ∈ l, NotNaN (x.val xnum i)) :
    (∀ v ∈ (sortByKey xlt (fun x => x.val xnum i) l).map (fun x => x.val xnum i), NotNaN v) ∧
      Asc ((sortByKey xlt (fun x => x.val xnum i) l).map (fun x => x.val xnum i)) := by
  constructor
  · intro v hv
    obtain ⟨x, hx, rfl⟩ := mem_map.1 hv
    exact hn x ((sortByKey_perm _ _ l).subset hx)
  · unfold Asc
    rw [pairwise_map]
    exact sortByKey_sorted xlt (fun x => x.val xnum i) NotNaN (fun a b _ _ h => xlt_asymm a b h)
      (fun a b c ha hb hc h1 h2 => xlt_negtrans a b c ha hb hc h1 h2) l hn

/-- what one round does to the distances: nothing, or one `+=` per individual with good contributions -/
theorem crowdStep_shape (st : CSt) (i : Nat) (hn : ∀ x ∈ st.1, NotNaN (x.val xnum i)) :
    (crowdStep xnum st i).1 = sortByKey xlt (fun x => x.val xnum i) st.1 ∧
    ((crowdStep xnum st i).2 = st.2 ∨
      ∃ ups : List (Nat × XVal), (crowdStep xnum st i).2 = ups.foldl (fun acc p => addDist xnum p.1 p.2 acc) st.2 ∧
        (∀ p ∈ ups, Good p.2) ∧
        ups = ((sortByKey xlt (fun x => x.val xnum i) st.1).map (·.number)).zip
          (contribs xnum ((sortByKey xlt (fun x => x.val xnum i) st.1).map (fun x => x.val xnum i)))) := by
  have hsc := sorted_col st.1 i hn
  unfold crowdStep
  simp only
  split
  · split
    · exact ⟨rfl, Or.inl rfl⟩
    · refine ⟨rfl, Or.inr ⟨_, rfl, ?_, rfl⟩⟩
      intro p hp
      exact good_contribs _ hsc.1 hsc.2 p.2 (of_mem_zip hp).2
  · exact ⟨rfl, Or.inl rfl⟩

theorem crowdStep_inv (pop : List (Ind XVal)) (hnn : NoNaNPop pop) (st : CSt) (i : Nat) (h : Inv pop st) :
    Inv pop (crowdStep xnum st i) := by
  have hn : ∀ x ∈ st.1, NotNaN (x.val xnum i) := fun x hx => hnn x (h.1.subset hx) i
  obtain ⟨h1, h2⟩ := crowdStep_shape st i hn
  refine ⟨by rw [h1]; exact (sortByKey_perm _ _ _).trans h.1, ?_⟩
  rcases h2 with h2 | ⟨ups, h2, hg, _⟩
  · rw [h2]; exact h.2
  · rw [h2]; exact foldl_addDist_good ups _ h.2 hg

theorem crowdStep_stable (pop : List (Ind XVal)) (hnn : NoNaNPop pop) (st : CSt) (i : Nat) (h : Inv pop st)
    (n : Nat) (hp : lookupD xnum n st.2 = .pinf) : lookupD xnum n (crowdStep xnum st i).2 = .pinf := by
  have hn : ∀ x ∈ st.1, NotNaN (x.val xnum i) := fun x hx => hnn x (h.1.subset hx) i
  obtain ⟨_, h2⟩ := crowdStep_shape st i hn
  rcases h2 with h2 | ⟨ups, h2, hg, _⟩
  · rw [h2]; exact hp
  · rw [h2]; exact foldl_addDist_stable ups _ h.2 hg n hp

theorem fold_inv (pop : List (Ind XVal)) (hnn : NoNaNPop pop) (is : List Nat) (st : CSt) (h : Inv pop st) :
    Inv pop (is.foldl (crowdStep xnum) st) := by
  induction is generalizing st with
  | nil => exact h
  | cons i is ih => exact ih _ (crowdStep_inv pop hnn st i h)

theorem fold_stable (pop : List (Ind XVal)) (hnn : NoNaNPop pop) (is : List Nat) (st : CSt) (h : Inv pop st)
    (n : Nat) (hp : lookupD xnum n st.2 = .pinf) : lookupD xnum n (is.foldl (crowdStep xnum) st).2 = .pinf := by
  induction is generalizing st with
  | nil => exact hp
  | cons i is ih => exact ih _ (crowdStep_inv pop hnn st i h) (crowdStep_stable pop hnn st i h n hp)

theorem fold_hit (pop : List (Ind XVal)) (hnn : NoNaNPop pop) (is : List Nat) (st : CSt) (h : Inv pop st)
    (n i : Nat) (hi : i ∈ is)
    (hstep : ∀ st', Inv pop st' → lookupD xnum n (crowdStep xnum st' i).2 = .pinf) :
    lookupD xnum n (is.foldl (crowdStep xnum) st).2 = .pinf := by
  induction is generalizing st with
  | nil => simp at hi
  | cons j is ih =>
    simp only [foldl_cons]
    by_cases hj : j = i
    · subst hj
      exact fold_stable pop hnn is _ (crowdStep_inv pop hnn st j h) n (hstep st h)
    · exact ih _ (crowdStep_inv pop hnn st j h) (by
        rcases mem_cons.1 hi with h' | h'
        · exact absurd h'.symm hj
        · exact h')

theorem inv_init (pop : List (Ind XVal)) : Inv pop (pop, []) := ⟨Perm.refl _, goodD_nil⟩

theorem nodup_of_numbers {pop : List (Ind XVal)} (h : (pop.map (·.number)).Nodup) : pop.Nodup :=
  Nodup.of_map _ h

theorem ne_number_of_ne {pop : List (Ind XVal)} (h : (pop.map (·.number)).Nodup) {x y : Ind XVal}
    (hx : x ∈ pop) (hy : y ∈ pop) (hne : y ≠ x) : y.number ≠ x.number := by
  intro he
  exact hne (inj_on_of_nodup_map h hy hx he)

/-! ## the final sort by `(-distance, number)` -/

@[simp] theorem xnum_eq' : xnum.eq = xeq := rfl
@[simp] theorem xnum_lt' : xnum.lt = xlt := rfl
@[simp] theorem xnum_neg : xnum.neg = xneg := rfl

theorem xeq_eq_decide {a : XVal} (ha : NotNaN a) (b : XVal) : xeq a b = decide (a = b) := by
  by_cases h : a = b
  · simp [h, (xeq_iff (h ▸ ha)).2 rfl]
  · have : xeq a b = false := by
      by_contra hc
      exact h ((xeq_iff ha).1 (by simpa using hc))
    simp [h, this]

/-- keys `(-d, number)` with a non-NaN first component -/
def KeyOK (p : XVal × Nat) : Prop := NotNaN p.1

theorem ltKey_asymm (p q : XVal × Nat) (hp : KeyOK p) (hq : KeyOK q) (h : ltKey xnum p q = true) :
    ltKey xnum q p = false := by
  unfold ltKey at h ⊢
  simp only [xnum_eq', xnum_lt', xeq_eq_decide hp, xeq_eq_decide hq] at h ⊢
  by_cases he : p.1 = q.1
  · simp only [he, decide_true, if_true, decide_eq_true_eq] at h ⊢
    simp; omega
  · have he' : ¬ q.1 = p.1 := fun h' => he h'.symm
    simp only [he, he', decide_false, Bool.false_eq_true, if_false] at h ⊢
    exact xlt_asymm _ _ h

theorem ltKey_negtrans (a b c : XVal × Nat) (ha : KeyOK a) (hb : KeyOK b) (hc : KeyOK c)
    (h1 : ltKey xnum b a = false) (h2 : ltKey xnum c b = false) : ltKey xnum c a = false := by
  unfold ltKey at h1 h2 ⊢
  simp only [xnum_eq', xnum_lt', xeq_eq_decide ha, xeq_eq_decide hb, xeq_eq_decide hc] at h1 h2 ⊢
  by_cases hca : c.1 = a.1
  · simp only [hca, decide_true, if_true]
    by_cases hba : b.1 = a.1
    · simp only [hba, decide_true, if_true, decide_eq_false_iff_not] at h1
      have hcb : c.1 = b.1 := hca.trans hba.symm
      simp only [hcb, decide_true, if_true, decide_eq_false_iff_not] at h2
      simp; omega
    · simp only [hba, decide_false, Bool.false_eq_true, if_false] at h1
      have hcb : ¬ c.1 = b.1 := fun h => hba (h.symm.trans hca)
      simp only [hcb, decide_false, Bool.false_eq_true, if_false] at h2
      rw [hca] at h2
      exact absurd (xlt_total ha hb h2 h1).symm hba
  · simp only [hca, decide_false, Bool.false_eq_true, if_false]
    by_cases hba : b.1 = a.1
    · have hcb : ¬ c.1 = b.1 := fun h => hca (h.trans hba)
      simp only [hcb, decide_false, Bool.false_eq_true, if_false] at h2
      rw [hba] at h2; exact h2
    · simp only [hba, decide_false, Bool.false_eq_true, if_false] at h1
      by_cases hcb : c.1 = b.1
      · rw [hcb]; exact h1
      · simp only [hcb, decide_false, Bool.false_eq_true, if_false] at h2
        exact xlt_negtrans _ _ _ ha hb hc h1 h2

/-- `a` may stand before `b` in the sorted front: its distance is not smaller, and with equal distances its number
is not larger -/
def Before (d : Dists XVal) (a b : Ind XVal) : Prop :=
  xlt (lookupD xnum a.number d) (lookupD xnum b.number d) = false ∧
    (lookupD xnum a.number d = lookupD xnum b.number d → a.number ≤ b.number)

theorem before_of_ltKey (d : Dists XVal) (hd : GoodD d) (a b : Ind XVal)
    (h : ltKey xnum (xneg (lookupD xnum b.number d), b.number) (xneg (lookupD xnum a.number d), a.number) = false) :
    Before d a b := by
  have ha := (hd a.number).notNaN
  have hb := (hd b.number).notNaN
  unfold ltKey at h
  simp only [xnum_eq', xnum_lt', xeq_eq_decide (notNaN_xneg hb), xlt_xneg] at h
  by_cases he : lookupD xnum a.number d = lookupD xnum b.number d
  · have : xneg (lookupD xnum b.number d) = xneg (lookupD xnum a.number d) := by rw [he]
    simp only [this, decide_true, if_true, decide_eq_false_iff_not] at h
    exact ⟨by rw [he]; exact xlt_irrefl _, fun _ => by omega⟩
  · have : ¬ xneg (lookupD xnum b.number d) = xneg (lookupD xnum a.number d) := by
      intro h'
      have := congrArg xneg h'
      simp only [xneg_xneg] at this
      exact he this.symm
    simp only [this, decide_false, Bool.false_eq_true, if_false] at h
    exact ⟨h, fun h' => absurd h' he⟩

/-- `_crowding_distance_sort`: a permutation, all distances good, listed by (distance descending, number ascending) -/
theorem crowdingSort_desc (pop : List (Ind XVal)) (hnn : NoNaNPop pop) :
    (crowdingSort xnum pop).Perm pop ∧
    (∀ n, Good (lookupD xnum n (calcCrowding xnum pop).2)) ∧
    (crowdingSort xnum pop).Pairwise (Before (calcCrowding xnum pop).2) := by
  have hinv : Inv pop (calcCrowding xnum pop) := by
    unfold calcCrowding
    cases pop with
    | nil => exact inv_init []
    | cons p0 t => exact fold_inv (p0 :: t) hnn _ _ (inv_init _)
  refine ⟨crowdingSort_perm xnum pop, hinv.2, ?_⟩
  unfold crowdingSort
  simp only [xnum_neg]
  have hs := sortByKey_sorted (ltKey xnum)
    (fun x : Ind XVal => (xneg (lookupD xnum x.number (calcCrowding xnum pop).2), x.number)) KeyOK
    (fun a b ha hb h => ltKey_asymm a b ha hb h) (fun a b c ha hb hc h1 h2 => ltKey_negtrans a b c ha hb hc h1 h2)
    (calcCrowding xnum pop).1 (fun y _ => notNaN_xneg (hinv.2 y.number).notNaN)
  exact hs.imp (fun {a b} h => before_of_ltKey _ hinv.2 a b h)

/-- with distinct numbers `Before` is antisymmetric: the sorted front is determined by the set of its members -/
theorem before_antisymm (d : Dists XVal) (hd : GoodD d) (a b : Ind XVal) (h1 : Before d a b) (h2 : Before d b a) :
    a.number = b.number := by
  have he := xlt_total (hd a.number).notNaN (hd b.number).notNaN h1.1 h2.1
  have := h1.2 he
  have := h2.2 he.symm
  omega

/-! ## the strict extreme of an objective gets `+inf` in that round -/

@[simp] theorem xnum_lt : xnum.lt = xlt := rfl
@[simp] theorem xnum_eq : xnum.eq = xeq := rfl

theorem crowdStep_acc (st : CSt) (i : Nat) (a b : XVal)
    (hh : ((sortByKey xlt (fun x => x.val xnum i) st.1).map (fun x => x.val xnum i)).head? = some a)
    (hl : ((sortByKey xlt (fun x => x.val xnum i) st.1).map (fun x => x.val xnum i)).getLast? = some b)
    (hne : xeq a b = false) :
    (crowdStep xnum st i).2 = accumulate xnum ((sortByKey xlt (fun x => x.val xnum i) st.1).map (·.number))
      (contribs xnum ((sortByKey xlt (fun x => x.val xnum i) st.1).map (fun x => x.val xnum i))) st.2 := by
  unfold crowdStep
  simp only [xnum_lt, hh, hl, xnum_eq, hne, Bool.false_eq_true, if_false]

theorem eq_nil_or_snoc {γ : Type} (l : List γ) : l = [] ∨ ∃ t a, l = t ++ [a] := by
  rcases eq_nil_or_concat l with h | ⟨t, a, h⟩
  · exact Or.inl h
  · exact Or.inr ⟨t, a, by rw [h, concat_eq_append]⟩

theorem getLast?_map' {γ δ : Type} (f : γ → δ) (l : List γ) (z : γ) (h : l.getLast? = some z) :
    (l.map f).getLast? = some (f z) := by
  rw [getLast?_map, h]; rfl

theorem crowdStep_min (pop : List (Ind XVal)) (hnn : NoNaNPop pop) (hnum : (pop.map (·.number)).Nodup)
    (x : Ind XVal) (hx : x ∈ pop) (i : Nat) (h2 : 2 ≤ pop.length)
    (hmin : ∀ y ∈ pop, y.number ≠ x.number → xlt (x.val xnum i) (y.val xnum i) = true)
    (st : CSt) (h : Inv pop st) : lookupD xnum x.number (crowdStep xnum st i).2 = .pinf := by
  have hn : ∀ z ∈ st.1, NotNaN (z.val xnum i) := fun z hz => hnn z (h.1.subset hz) i
  have hnd : pop.Nodup := nodup_of_numbers hnum
  obtain ⟨t, ht⟩ := sortByKey_head_of_strict_min xlt (fun z => z.val xnum i) st.1 x (h.1.symm.subset hx)
    (xlt_irrefl _) (fun y hy hne => by
      have := hmin y (h.1.subset hy) (ne_number_of_ne hnum hx (h.1.subset hy) hne)
      exact ⟨this, xlt_asymm _ _ this⟩)
  have hperm : (x :: t).Perm pop := by rw [← ht]; exact (sortByKey_perm _ _ _).trans h.1
  have hnd' : (x :: t).Nodup := hperm.nodup_iff.2 hnd
  cases t with
  | nil => have := hperm.length_eq; simp at this; omega
  | cons y t2 =>
    have hy : y ∈ pop := hperm.subset (by simp)
    have hyx : y ≠ x := by
      intro he; subst he; simp at hnd'
    have hlt : xlt (x.val xnum i) (y.val xnum i) = true := hmin y hy (ne_number_of_ne hnum hx hy hyx)
    have hlast : ∃ z, (x :: y :: t2).getLast? = some z ∧ z ∈ pop ∧ z ≠ x := by
      refine ⟨(y :: t2).getLast (by simp), by simp [getLast?_eq_some_getLast], ?_, ?_⟩
      · exact hperm.subset (mem_cons_of_mem _ (getLast_mem _))
      · intro he
        have : x ∈ y :: t2 := he ▸ getLast_mem _
        exact (nodup_cons.1 hnd').1 this
    obtain ⟨z, hz1, hz2, hz3⟩ := hlast
    have hltz : xlt (x.val xnum i) (z.val xnum i) = true := hmin z hz2 (ne_number_of_ne hnum hx hz2 hz3)
    have hcol := contribs_head (x.val xnum i) (y.val xnum i) (t2.map (fun z => z.val xnum i)) (by
      intro v hv
      have : v ∈ (x :: y :: t2).map (fun z => z.val xnum i) := by simpa using hv
      obtain ⟨w, hw, rfl⟩ := mem_map.1 this
      exact hnn w (hperm.subset hw) i) hlt
    rw [crowdStep_acc st i (x.val xnum i) (z.val xnum i) (by rw [ht]; rfl)
      (by rw [ht]; exact getLast?_map' _ _ z hz1) (xlt_ne hltz)]
    have hsc := sorted_col st.1 i hn
    have hgood := good_contribs _ hsc.1 hsc.2
    rw [ht] at hgood ⊢
    simp only [map_cons] at hgood hcol ⊢
    cases hc : contribs xnum ((x.val xnum i) :: (y.val xnum i) :: map (fun z => z.val xnum i) t2) with
    | nil => rw [hc] at hcol; simp at hcol
    | cons c cs =>
      rw [hc] at hcol hgood
      simp only [head?_cons, Option.some.injEq] at hcol
      subst hcol
      unfold accumulate
      apply foldl_addDist_hit _ _ h.2
      · intro p hp
        exact hgood p.2 (of_mem_zip hp).2
      · simp

theorem crowdStep_max (pop : List (Ind XVal)) (hnn : NoNaNPop pop) (hnum : (pop.map (·.number)).Nodup)
    (x : Ind XVal) (hx : x ∈ pop) (i : Nat) (h2 : 2 ≤ pop.length)
    (hmax : ∀ y ∈ pop, y.number ≠ x.number → xlt (y.val xnum i) (x.val xnum i) = true)
    (st : CSt) (h : Inv pop st) : lookupD xnum x.number (crowdStep xnum st i).2 = .pinf := by
  have hn : ∀ z ∈ st.1, NotNaN (z.val xnum i) := fun z hz => hnn z (h.1.subset hz) i
  have hnd : pop.Nodup := nodup_of_numbers hnum
  obtain ⟨t, ht⟩ := sortByKey_last_of_strict_max xlt (fun z => z.val xnum i) st.1 x (h.1.symm.subset hx)
    (xlt_irrefl _) (fun y hy hne => by
      have := hmax y (h.1.subset hy) (ne_number_of_ne hnum hx (h.1.subset hy) hne)
      exact ⟨this, xlt_asymm _ _ this⟩)
  have hperm : (t ++ [x]).Perm pop := by rw [← ht]; exact (sortByKey_perm _ _ _).trans h.1
  have hnd' : (t ++ [x]).Nodup := hperm.nodup_iff.2 hnd
  rcases eq_nil_or_snoc t with rfl | ⟨t0, y, rfl⟩
  · have := hperm.length_eq; simp at this; omega
  · have hy : y ∈ pop := hperm.subset (by simp)
    have hyx : y ≠ x := by
      intro he; subst he
      have := nodup_append.1 hnd'
      exact this.2.2 y (by simp) y (by simp) rfl
    have hlt : xlt (y.val xnum i) (x.val xnum i) = true := hmax y hy (ne_number_of_ne hnum hx hy hyx)
    -- the first element is not `x`
    have hfirst : ∃ z, (t0 ++ [y] ++ [x]).head? = some z ∧ z ∈ pop ∧ z ≠ x := by
      cases t0 with
      | nil => exact ⟨y, by simp, hy, hyx⟩
      | cons z t1 =>
        refine ⟨z, by simp, hperm.subset (by simp), ?_⟩
        intro he; subst he
        have := nodup_append.1 hnd'
        exact this.2.2 z (by simp) z (by simp) rfl
    obtain ⟨z, hz1, hz2, hz3⟩ := hfirst
    have hltz : xlt (z.val xnum i) (x.val xnum i) = true := hmax z hz2 (ne_number_of_ne hnum hx hz2 hz3)
    have hcolform : (t0 ++ [y] ++ [x]).map (fun z => z.val xnum i) =
        t0.map (fun z => z.val xnum i) ++ [y.val xnum i, x.val xnum i] := by simp
    have hcol := contribs_getLast (t0.map (fun z => z.val xnum i)) (y.val xnum i) (x.val xnum i) (by
      intro v hv
      rw [← hcolform] at hv
      obtain ⟨w, hw, rfl⟩ := mem_map.1 hv
      exact hnn w (hperm.subset hw) i) hlt
    rw [crowdStep_acc st i (z.val xnum i) (x.val xnum i)
      (by rw [ht, head?_map, hz1]; rfl)
      (by rw [ht]; exact getLast?_map' _ _ x (by simp)) (xlt_ne hltz)]
    have hsc := sorted_col st.1 i hn
    have hgood := good_contribs _ hsc.1 hsc.2
    rw [ht] at hgood ⊢
    rw [hcolform] at hgood ⊢
    have hlen := contribs_length (t0.map (fun z => z.val xnum i) ++ [y.val xnum i, x.val xnum i])
    rcases eq_nil_or_snoc (contribs xnum (t0.map (fun z => z.val xnum i) ++ [y.val xnum i, x.val xnum i])) with hc | ⟨cs, c, hc⟩
    · rw [hc] at hcol; simp at hcol
    · rw [hc] at hcol hgood hlen ⊢
      simp only [getLast?_append, getLast?_singleton, Option.some_or, Option.some.injEq] at hcol
      subst hcol
      unfold accumulate
      apply foldl_addDist_hit _ _ h.2
      · intro p hp
        exact hgood p.2 (of_mem_zip hp).2
      · have hl2 : (map (fun z => z.number) (t0 ++ [y])).length = cs.length := by
          simp at hlen ⊢; omega
        rw [map_append, zip_append hl2]
        simp

end OptunaVerif.Nsga2
