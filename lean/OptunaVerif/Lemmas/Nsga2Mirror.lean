import OptunaVerif.Lemmas.Nsga2Crowd
/-! C13 for the crowding distance: negating objectives (what `maximize f` vs `minimize -f` does to the raw
`trial.values` the crowding code reads) leaves every individual's distance unchanged when no objective has ties. -/
namespace OptunaVerif.Nsga2
open List

def flipOne (m : Bool) (v : XVal) : XVal := if m then xneg v else v

theorem flipVals_length (mask : List Bool) (vs : List XVal) : (flipVals mask vs).length = vs.length := by
  induction mask generalizing vs with
  | nil => rfl
  | cons m ms ih => cases vs <;> simp [flipVals, ih]

theorem flipVals_getD (mask : List Bool) (vs : List XVal) (i : Nat) :
    (flipVals mask vs).getD i (.fin 0) = flipOne (mask.getD i false) (vs.getD i (.fin 0)) := by
  induction mask generalizing vs i with
  | nil => simp [flipVals, flipOne]
  | cons m ms ih =>
    cases vs with
    | nil =>
      simp only [flipVals, getD_nil]
      unfold flipOne
      split <;> simp [xneg]
    | cons v vs =>
      cases i with
      | zero => simp [flipVals, flipOne]
      | succ i => simpa [flipVals] using ih vs i

theorem flipInd_val (mask : List Bool) (x : Ind XVal) (i : Nat) :
    (flipInd mask x).val xnum i = flipOne (mask.getD i false) (x.val xnum i) := by
  unfold Ind.val flipInd
  exact flipVals_getD mask x.values i

@[simp] theorem flipInd_number (mask : List Bool) (x : Ind XVal) : (flipInd mask x).number = x.number := rfl

theorem flipOne_inj (m : Bool) {a b : XVal} (h : flipOne m a = flipOne m b) : a = b := by
  unfold flipOne at h
  cases m
  · simpa using h
  · have := congrArg xneg h
    simpa using this

theorem notNaN_flipOne (m : Bool) {a : XVal} (h : NotNaN a) : NotNaN (flipOne m a) := by
  unfold flipOne; split
  · exact notNaN_xneg h
  · exact h

/-! ## the dictionary after one round depends only on the set of updates -/

theorem foldl_addDist_mem (ups : List (Nat × XVal)) (d : Dists XVal) (hnd : (ups.map (·.1)).Nodup)
    (n : Nat) (e : XVal) (h : (n, e) ∈ ups) :
    lookupD xnum n (ups.foldl (fun acc p => addDist xnum p.1 p.2 acc) d) = xadd (lookupD xnum n d) e := by
  induction ups generalizing d with
  | nil => simp at h
  | cons p t ih =>
    simp only [map_cons, nodup_cons] at hnd
    simp only [foldl_cons]
    rcases mem_cons.1 h with h | h
    · subst h
      -- the remaining updates do not touch `n`
      have hrest : ∀ (t : List (Nat × XVal)) (d' : Dists XVal), n ∉ t.map (·.1) →
          lookupD xnum n (t.foldl (fun acc p => addDist xnum p.1 p.2 acc) d') = lookupD xnum n d' := by
        intro t
        induction t with
        | nil => intro d' _; rfl
        | cons q t iht =>
          intro d' hq
          simp only [map_cons, mem_cons, not_or] at hq
          simp only [foldl_cons]
          rw [iht _ hq.2, lookupD_addDist]
          simp [Ne.symm hq.1]
      rw [hrest t _ hnd.1, lookupD_addDist]
      simp
    · have hne : p.1 ≠ n := by
        intro he
        exact hnd.1 (he ▸ mem_map.2 ⟨(n, e), h, rfl⟩)
      rw [ih _ hnd.2 h, lookupD_addDist]
      simp [hne]

theorem foldl_addDist_not_mem (ups : List (Nat × XVal)) (d : Dists XVal) (n : Nat) (h : n ∉ ups.map (·.1)) :
    lookupD xnum n (ups.foldl (fun acc p => addDist xnum p.1 p.2 acc) d) = lookupD xnum n d := by
  induction ups generalizing d with
  | nil => rfl
  | cons q t ih =>
    simp only [map_cons, mem_cons, not_or] at h
    simp only [foldl_cons]
    rw [ih _ h.2, lookupD_addDist]
    simp [Ne.symm h.1]

theorem foldl_addDist_perm (ups1 ups2 : List (Nat × XVal)) (hp : ups1.Perm ups2) (hnd : (ups1.map (·.1)).Nodup)
    (d1 d2 : Dists XVal) (hd : ∀ n, lookupD xnum n d1 = lookupD xnum n d2) (n : Nat) :
    lookupD xnum n (ups1.foldl (fun acc p => addDist xnum p.1 p.2 acc) d1) =
      lookupD xnum n (ups2.foldl (fun acc p => addDist xnum p.1 p.2 acc) d2) := by
  have hnd2 : (ups2.map (·.1)).Nodup := (hp.map _).nodup_iff.1 hnd
  by_cases hn : n ∈ ups1.map (·.1)
  · obtain ⟨p, hp1, rfl⟩ := mem_map.1 hn
    rw [foldl_addDist_mem ups1 d1 hnd p.1 p.2 hp1, foldl_addDist_mem ups2 d2 hnd2 p.1 p.2 (hp.subset hp1), hd]
  · have hn2 : n ∉ ups2.map (·.1) := fun h => hn ((hp.map _).symm.subset h)
    rw [foldl_addDist_not_mem ups1 d1 n hn, foldl_addDist_not_mem ups2 d2 n hn2, hd]

/-! ## strictly sorted lists are determined by their elements -/

theorem strict_of_sorted_nodup (l : List (Ind XVal)) (key : Ind XVal → XVal) (hn : ∀ z ∈ l, NotNaN (key z))
    (hs : l.Pairwise (fun a b => xlt (key b) (key a) = false)) (hnd : (l.map key).Nodup) :
    l.Pairwise (fun a b => xlt (key a) (key b) = true) := by
  induction l with
  | nil => simp
  | cons a t ih =>
    rw [pairwise_cons] at hs ⊢
    simp only [map_cons, nodup_cons] at hnd
    refine ⟨?_, ih (fun z hz => hn z (by simp [hz])) hs.2 hnd.2⟩
    intro b hb
    by_contra hc
    have hc' : xlt (key a) (key b) = false := by simpa using hc
    have := xlt_total (hn a (by simp)) (hn b (by simp [hb])) hc' (hs.1 b hb)
    exact hnd.1 (this ▸ mem_map.2 ⟨b, hb, rfl⟩)

theorem eq_of_strict_perm (l1 l2 : List (Ind XVal)) (key : Ind XVal → XVal)
    (h1 : l1.Pairwise (fun a b => xlt (key a) (key b) = true))
    (h2 : l2.Pairwise (fun a b => xlt (key a) (key b) = true)) (hp : l1.Perm l2) : l1 = l2 := by
  apply hp.eq_of_pairwise _ h1 h2
  intro a b _ _ hab hba
  have := xlt_asymm _ _ hab
  rw [this] at hba
  exact absurd hba (by simp)

/-! ## one round of the loop on the original and on the mirrored population -/

/-- no two individuals share their value in objective `i` -/
def TieFree (pop : List (Ind XVal)) (i : Nat) : Prop := (pop.map (fun x => x.val xnum i)).Nodup

theorem reverse_zip' {γ δ : Type} (l : List γ) (l' : List δ) (h : l.length = l'.length) :
    (l.zip l').reverse = l.reverse.zip l'.reverse := by
  simpa [zip] using reverse_zipWith (f := Prod.mk) h

section Step
variable (mask : List Bool) (i : Nat)

theorem sorted_mirror (lA lB : List (Ind XVal)) (hp : lB.Perm (lA.map (flipInd mask)))
    (hn : ∀ z ∈ lA, NotNaN (z.val xnum i)) (htf : (lA.map (fun z => z.val xnum i)).Nodup) :
    sortByKey xlt (fun z => z.val xnum i) lB =
      if mask.getD i false then ((sortByKey xlt (fun z => z.val xnum i) lA).map (flipInd mask)).reverse
      else (sortByKey xlt (fun z => z.val xnum i) lA).map (flipInd mask) := by
  set key : Ind XVal → XVal := fun z => z.val xnum i with hkey
  set m := mask.getD i false with hm
  have hkF : ∀ w, key (flipInd mask w) = flipOne m (key w) := fun w => flipInd_val mask w i
  have hnB : ∀ z ∈ lB, NotNaN (key z) := by
    intro z hz
    obtain ⟨w, hw, rfl⟩ := mem_map.1 (hp.subset hz)
    rw [hkF]; exact notNaN_flipOne m (hn w hw)
  have hndB : (lB.map key).Nodup := by
    have h1 : (lB.map key).Perm ((lA.map key).map (flipOne m)) := by
      refine (hp.map key).trans ?_
      simp only [map_map]
      exact Perm.of_eq (map_congr_left (fun w _ => hkF w))
    exact h1.nodup_iff.2 (htf.map (fun a b h => flipOne_inj m h))
  have hsA := sortByKey_sorted xlt key NotNaN (fun a b _ _ h => xlt_asymm a b h)
    (fun a b c ha hb hc h1 h2 => xlt_negtrans a b c ha hb hc h1 h2) lA hn
  have hsB := sortByKey_sorted xlt key NotNaN (fun a b _ _ h => xlt_asymm a b h)
    (fun a b c ha hb hc h1 h2 => xlt_negtrans a b c ha hb hc h1 h2) lB hnB
  have hpA := sortByKey_perm xlt key lA
  have hpB := sortByKey_perm xlt key lB
  have hstA := strict_of_sorted_nodup _ key (fun z hz => hn z (hpA.subset hz)) hsA ((hpA.map key).nodup_iff.2 htf)
  have hstB := strict_of_sorted_nodup _ key (fun z hz => hnB z (hpB.subset hz)) hsB ((hpB.map key).nodup_iff.2 hndB)
  have hpAB : (sortByKey xlt key lB).Perm ((sortByKey xlt key lA).map (flipInd mask)) :=
    hpB.trans (hp.trans (hpA.map _).symm)
  cases hmv : m with
  | false =>
    simp only [Bool.false_eq_true, if_false]
    apply eq_of_strict_perm _ _ key hstB _ hpAB
    rw [pairwise_map]
    refine hstA.imp ?_
    intro a b hab
    rw [hkF, hkF, hmv]; simpa [flipOne] using hab
  | true =>
    simp only [if_true]
    apply eq_of_strict_perm _ _ key hstB _ (hpAB.trans (reverse_perm _).symm)
    rw [pairwise_reverse, pairwise_map]
    refine hstA.imp ?_
    intro a b hab
    rw [hkF, hkF, hmv]
    simp only [flipOne, if_true]
    rw [xlt_xneg]; exact hab

/-- the distances after one round, given the sorted population -/
def stepOn (s : List (Ind XVal)) (d : Dists XVal) : Dists XVal :=
  match s.head?, s.getLast? with
  | some a, some b =>
    if xeq (a.val xnum i) (b.val xnum i) then d
    else accumulate xnum (s.map (·.number)) (contribs xnum (s.map (fun z => z.val xnum i))) d
  | _, _ => d

theorem crowdStep_eq (st : CSt) :
    crowdStep xnum st i = (sortByKey xlt (fun z => z.val xnum i) st.1, stepOn i (sortByKey xlt (fun z => z.val xnum i) st.1) st.2) := by
  unfold crowdStep stepOn
  simp only [xnum_lt, xnum_eq, head?_map, getLast?_map]
  cases (sortByKey xlt (fun z => z.val xnum i) st.1).head? <;>
    cases (sortByKey xlt (fun z => z.val xnum i) st.1).getLast? <;> simp
  split <;> simp_all

theorem stepOn_mirror (sA : List (Ind XVal)) (dA dB : Dists XVal) (hd : ∀ n, lookupD xnum n dB = lookupD xnum n dA)
    (hnum : (sA.map (·.number)).Nodup) (n : Nat) :
    lookupD xnum n (stepOn i (if mask.getD i false then (sA.map (flipInd mask)).reverse else sA.map (flipInd mask)) dB) =
      lookupD xnum n (stepOn i sA dA) := by
  set m := mask.getD i false with hm
  have hkF : ∀ w : Ind XVal, (flipInd mask w).val xnum i = flipOne m (w.val xnum i) := fun w => flipInd_val mask w i
  rcases eq_nil_or_snoc sA with rfl | ⟨t, l, hl⟩
  · cases m <;> simp [stepOn, hd]
  · -- `sA` is non-empty: first element `a`, last element `l`
    obtain ⟨a, hha⟩ : ∃ a, sA.head? = some a := by
      cases sA with
      | nil => simp at hl
      | cons a _ => exact ⟨a, rfl⟩
    have hll : sA.getLast? = some l := by rw [hl]; simp
    have hlenc : (sA.map (·.number)).length = (contribs xnum (sA.map (fun z => z.val xnum i))).length := by
      rw [contribs_length]; simp
    cases hmv : m with
    | false =>
      simp only [Bool.false_eq_true, if_false]
      have h1 : (sA.map (flipInd mask)).head? = some (flipInd mask a) := by rw [head?_map, hha]; rfl
      have h2 : (sA.map (flipInd mask)).getLast? = some (flipInd mask l) := by rw [getLast?_map, hll]; rfl
      have hcol : (sA.map (flipInd mask)).map (fun z => z.val xnum i) = sA.map (fun z => z.val xnum i) := by
        rw [map_map]; apply map_congr_left; intro w _; simp only [Function.comp, hkF, hmv, flipOne]; simp
      have hnums : (sA.map (flipInd mask)).map (·.number) = sA.map (·.number) := by
        rw [map_map]; rfl
      unfold stepOn
      simp only [h1, h2, hha, hll, hkF, hmv, hcol, hnums]
      simp only [flipOne, Bool.false_eq_true, if_false]
      split
      · exact hd n
      · unfold accumulate
        exact foldl_addDist_perm _ _ (Perm.refl _) (by rw [map_fst_zip (by omega)]; exact hnum) dB dA hd n
    | true =>
      simp only [if_true]
      have h1 : (sA.map (flipInd mask)).reverse.head? = some (flipInd mask l) := by
        rw [head?_reverse, getLast?_map, hll]; rfl
      have h2 : (sA.map (flipInd mask)).reverse.getLast? = some (flipInd mask a) := by
        rw [getLast?_reverse, head?_map, hha]; rfl
      have hcol : (sA.map (flipInd mask)).reverse.map (fun z => z.val xnum i) = ((sA.map (fun z => z.val xnum i)).map xneg).reverse := by
        rw [map_reverse, map_map, map_map]; congr 1
        apply map_congr_left; intro w _; simp only [Function.comp, hkF, hmv, flipOne]; simp
      have hnums : (sA.map (flipInd mask)).reverse.map (·.number) = (sA.map (·.number)).reverse := by
        rw [map_reverse, map_map]; rfl
      unfold stepOn
      simp only [h1, h2, hha, hll, hkF, hmv, hcol, hnums, contribs_mirror]
      simp only [flipOne, if_true, xeq_xneg]
      rw [xeq_comm]
      split
      · exact hd n
      · unfold accumulate
        rw [← reverse_zip' _ _ hlenc]
        exact foldl_addDist_perm _ _ (reverse_perm _)
          (by rw [map_reverse, map_fst_zip (by omega)]; exact nodup_reverse.2 hnum) dB dA hd n

end Step

/-- the relation between the run on `pop` (state `A`) and the run on the mirrored population (state `B`) -/
structure Rel (mask : List Bool) (A B : CSt) : Prop where
  perm : B.1.Perm (A.1.map (flipInd mask))
  look : ∀ n, lookupD xnum n B.2 = lookupD xnum n A.2

theorem crowdStep_rel (mask : List Bool) (pop : List (Ind XVal)) (hnn : NoNaNPop pop)
    (hnum : (pop.map (·.number)).Nodup) (i : Nat) (htf : TieFree pop i)
    (A B : CSt) (hA : A.1.Perm pop) (h : Rel mask A B) :
    Rel mask (crowdStep xnum A i) (crowdStep xnum B i) := by
  rw [crowdStep_eq i A, crowdStep_eq i B]
  have hn : ∀ z ∈ A.1, NotNaN (z.val xnum i) := fun z hz => hnn z (hA.subset hz) i
  have htfA : (A.1.map (fun z => z.val xnum i)).Nodup := (hA.map _).nodup_iff.2 htf
  have hs := sorted_mirror mask i A.1 B.1 h.perm hn htfA
  have hpA := sortByKey_perm xlt (fun z : Ind XVal => z.val xnum i) A.1
  constructor
  · simp only
    exact (sortByKey_perm _ _ _).trans (h.perm.trans (hpA.map _).symm)
  · intro n
    simp only
    rw [hs]
    apply stepOn_mirror mask i _ _ _ h.look
    exact ((hpA.trans hA).map _).nodup_iff.2 hnum

theorem fold_rel (mask : List Bool) (pop : List (Ind XVal)) (hnn : NoNaNPop pop)
    (hnum : (pop.map (·.number)).Nodup) (is : List Nat) (htf : ∀ i ∈ is, TieFree pop i)
    (A B : CSt) (hA : A.1.Perm pop) (h : Rel mask A B) :
    Rel mask (is.foldl (crowdStep xnum) A) (is.foldl (crowdStep xnum) B) := by
  induction is generalizing A B with
  | nil => exact h
  | cons i is ih =>
    simp only [foldl_cons]
    apply ih (fun j hj => htf j (by simp [hj]))
    · exact (crowdStep_perm xnum A i).trans hA
    · exact crowdStep_rel mask pop hnn hnum i (htf i (by simp)) A B hA h

/-! ## the repaired `_crowding_distance_sort`: the order is a function of the distances and the numbers -/

theorem noNaN_flip (mask : List Bool) (pop : List (Ind XVal)) (hnn : NoNaNPop pop) : NoNaNPop (pop.map (flipInd mask)) := by
  intro z hz i
  obtain ⟨w, hw, rfl⟩ := mem_map.1 hz
  rw [flipInd_val]; exact notNaN_flipOne _ (hnn w hw i)

/-- distances of the mirrored front = distances of the front (no NaN, distinct numbers, no per-objective ties) -/
theorem calcCrowding_mirror (mask : List Bool) (p0 : Ind XVal) (t : List (Ind XVal)) (hnn : NoNaNPop (p0 :: t))
    (hnum : ((p0 :: t).map (·.number)).Nodup) (htf : ∀ i < p0.values.length, TieFree (p0 :: t) i) (n : Nat) :
    lookupD xnum n (calcCrowding xnum ((p0 :: t).map (flipInd mask))).2 = lookupD xnum n (calcCrowding xnum (p0 :: t)).2 := by
  unfold calcCrowding
  simp only [map_cons]
  have hlen : (flipInd mask p0).values.length = p0.values.length := flipVals_length mask p0.values
  rw [hlen]
  have := fold_rel mask (p0 :: t) hnn hnum (List.range p0.values.length)
    (fun i hi => htf i (by simpa using hi)) (p0 :: t, []) ((p0 :: t).map (flipInd mask), [])
    (Perm.refl _) ⟨Perm.refl _, fun _ => rfl⟩
  simpa using this.look n

/-- … and of the same front listed in another order -/
theorem calcCrowding_perm_invariant (p0 p0' : Ind XVal) (t t' : List (Ind XVal)) (hp : (p0' :: t').Perm (p0 :: t))
    (hlen : p0'.values.length = p0.values.length) (hnn : NoNaNPop (p0 :: t))
    (hnum : ((p0 :: t).map (·.number)).Nodup) (htf : ∀ i < p0.values.length, TieFree (p0 :: t) i) (n : Nat) :
    lookupD xnum n (calcCrowding xnum (p0' :: t')).2 = lookupD xnum n (calcCrowding xnum (p0 :: t)).2 := by
  unfold calcCrowding
  simp only
  rw [hlen]
  have hid : (p0 :: t).map (flipInd []) = p0 :: t := by
    rw [← List.map_id (p0 :: t)]
    simp only [map_map]
    apply map_congr_left
    intro x _
    cases x
    simp [flipInd, flipVals]
  have := fold_rel [] (p0 :: t) hnn hnum (List.range p0.values.length)
    (fun i hi => htf i (by simpa using hi)) (p0 :: t, []) (p0' :: t', [])
    (Perm.refl _) ⟨by rw [hid]; exact hp, fun _ => rfl⟩
  exact this.look n

theorem before_congr (d d' : Dists XVal) (h : ∀ n, lookupD xnum n d' = lookupD xnum n d) (a b : Ind XVal) :
    Before d' a b ↔ Before d a b := by
  unfold Before
  rw [h a.number, h b.number]

/-- the order on numbers that the sort realises -/
def BeforeN (d : Dists XVal) (n m : Nat) : Prop :=
  xlt (lookupD xnum n d) (lookupD xnum m d) = false ∧ (lookupD xnum n d = lookupD xnum m d → n ≤ m)

theorem sorted_numbers_unique (d : Dists XVal) (hd : GoodD d) (l1 l2 : List (Ind XVal))
    (h1 : l1.Pairwise (Before d)) (h2 : l2.Pairwise (Before d))
    (hp : (l1.map (·.number)).Perm (l2.map (·.number))) : l1.map (·.number) = l2.map (·.number) := by
  apply hp.eq_of_pairwise (le := BeforeN d)
  · intro n m _ _ hnm hmn
    have he := xlt_total (hd n).notNaN (hd m).notNaN hnm.1 hmn.1
    have := hnm.2 he
    have := hmn.2 he.symm
    omega
  · rw [pairwise_map]; exact h1
  · rw [pairwise_map]; exact h2

/-- **the repaired sort is symmetric**: same numbers, in the same order, for the front and its mirror image -/
theorem crowdingSort_mirror (mask : List Bool) (p0 : Ind XVal) (t : List (Ind XVal)) (hnn : NoNaNPop (p0 :: t))
    (hnum : ((p0 :: t).map (·.number)).Nodup) (htf : ∀ i < p0.values.length, TieFree (p0 :: t) i) :
    (crowdingSort xnum ((p0 :: t).map (flipInd mask))).map (·.number) = (crowdingSort xnum (p0 :: t)).map (·.number) := by
  obtain ⟨hpA, hgA, hsA⟩ := crowdingSort_desc (p0 :: t) hnn
  obtain ⟨hpB, _, hsB⟩ := crowdingSort_desc ((p0 :: t).map (flipInd mask)) (noNaN_flip mask _ hnn)
  have hd := calcCrowding_mirror mask p0 t hnn hnum htf
  apply sorted_numbers_unique _ hgA
  · exact hsB.imp (fun {a b} h => (before_congr _ _ hd a b).1 h)
  · exact hsA
  · refine (hpB.map _).trans (Perm.trans ?_ (hpA.map _).symm)
    rw [map_map]
    exact Perm.of_eq (map_congr_left (fun w _ => rfl))

/-- **… and does not depend on the order in which the front is handed over** -/
theorem crowdingSort_perm_invariant (p0 p0' : Ind XVal) (t t' : List (Ind XVal)) (hp : (p0' :: t').Perm (p0 :: t))
    (hlen : p0'.values.length = p0.values.length) (hnn : NoNaNPop (p0 :: t))
    (hnum : ((p0 :: t).map (·.number)).Nodup) (htf : ∀ i < p0.values.length, TieFree (p0 :: t) i) :
    crowdingSort xnum (p0' :: t') = crowdingSort xnum (p0 :: t) := by
  have hnn' : NoNaNPop (p0' :: t') := fun x hx i => hnn x (hp.subset hx) i
  obtain ⟨hpA, hgA, hsA⟩ := crowdingSort_desc (p0 :: t) hnn
  obtain ⟨hpB, _, hsB⟩ := crowdingSort_desc (p0' :: t') hnn'
  have hd := calcCrowding_perm_invariant p0 p0' t t' hp hlen hnn hnum htf
  have hsB' : (crowdingSort xnum (p0' :: t')).Pairwise (Before (calcCrowding xnum (p0 :: t)).2) :=
    hsB.imp (fun {a b} h => (before_congr _ _ hd a b).1 h)
  apply (hpB.trans (hp.trans hpA.symm)).eq_of_pairwise _ hsB' hsA
  intro a b ha hb hab hba
  have hn := before_antisymm _ hgA a b hab hba
  exact inj_on_of_nodup_map hnum (hp.subset (hpB.subset ha)) (hpA.subset hb) hn

/-! ## the elite selection does not depend on the order of the population -/

/-- what makes the crowding sort of a front independent of the order it is handed over in: no NaN, distinct numbers,
`d` objective values each, no two trials sharing a value in an objective -/
structure FrontOK (d : Nat) (f : List (Ind XVal)) : Prop where
  nn : NoNaNPop f
  num : (f.map (·.number)).Nodup
  len : ∀ x ∈ f, x.values.length = d
  tf : ∀ i < d, TieFree f i

theorem FrontOK.sublist {d : Nat} {f g : List (Ind XVal)} (h : FrontOK d f) (hs : g.Sublist f) : FrontOK d g :=
  ⟨fun x hx i => h.nn x (hs.subset hx) i, h.num.sublist (hs.map _), fun x hx => h.len x (hs.subset hx),
    fun i hi => (h.tf i hi).sublist (hs.map _)⟩

theorem crowdingSort_perm_invariant' (d : Nat) (f f' : List (Ind XVal)) (hp : f'.Perm f) (hok : FrontOK d f) :
    crowdingSort xnum f' = crowdingSort xnum f := by
  cases f with
  | nil => rw [hp.eq_nil]
  | cons p0 t =>
    cases f' with
    | nil => exact absurd hp.symm.eq_nil (by simp)
    | cons p0' t' =>
      have h0 : p0.values.length = d := hok.len p0 (by simp)
      have h0' : p0'.values.length = d := hok.len p0' (hp.subset (by simp))
      exact crowdingSort_perm_invariant p0 p0' t t' hp (by omega) hok.nn hok.num (fun i hi => hok.tf i (by omega))

theorem selectLoop_perm_invariant (d k : Nat) (fs fs' : List (List (Ind XVal)))
    (hf : Forall₂ (fun f' f => f'.Perm f) fs' fs) (hok : ∀ f ∈ fs, FrontOK d f) (e e' : List (Ind XVal))
    (he : e'.Perm e) : (selectLoop xnum k fs' e').Perm (selectLoop xnum k fs e) := by
  induction hf generalizing e e' with
  | nil => simpa [selectLoop] using he
  | @cons f' f fs' fs hpf _ ih =>
    simp only [selectLoop]
    rw [he.length_eq, hpf.length_eq]
    split
    · exact ih (fun g hg => hok g (by simp [hg])) _ _ (he.append hpf)
    · rw [crowdingSort_perm_invariant' d f f' hpf (hok f (by simp))]
      exact he.append_right _

theorem maxRank_perm {l1 l2 : List Nat} (h : l1.Perm l2) : maxRank l1 = maxRank l2 := by
  unfold maxRank
  apply h.foldl_eq'
  intro x _ y _ z
  omega

theorem forall₂_map_same {γ δ : Type} (R : δ → δ → Prop) (g' g : γ → δ) (h : ∀ r, R (g' r) (g r)) (l : List γ) :
    Forall₂ R (l.map g') (l.map g) := by
  induction l with
  | nil => exact Forall₂.nil
  | cons a l ih => exact Forall₂.cons (h a) ih

/-- **the elite population as a multiset does not depend on the order of the input population** (ranks permuted
along with the trials): distinct numbers, no NaN, `d` objective values each, pairwise-distinct values per objective -/
theorem eliteWith_perm_invariant (d k : Nat) (ranks ranks' : List Nat) (pop pop' : List (Ind XVal))
    (hz : (pop'.zip ranks').Perm (pop.zip ranks)) (hl : ranks.length = pop.length) (hl' : ranks'.length = pop'.length)
    (hok : FrontOK d pop) : (eliteWith xnum k ranks' pop').Perm (eliteWith xnum k ranks pop) := by
  have hpop : pop'.Perm pop := by
    have := hz.map Prod.fst
    rwa [map_fst_zip (by omega), map_fst_zip (by omega)] at this
  have hr : ranks'.Perm ranks := by
    have := hz.map Prod.snd
    rwa [map_snd_zip (by omega), map_snd_zip (by omega)] at this
  unfold eliteWith
  cases pop with
  | nil => rw [hpop.eq_nil]
  | cons p t =>
    cases pop' with
    | nil => exact absurd hpop.symm.eq_nil (by simp)
    | cons p' t' =>
      simp only
      apply selectLoop_perm_invariant d k
      · unfold perRank
        rw [maxRank_perm hr]
        apply forall₂_map_same
        intro r
        exact (hz.filter _).map _
      · intro f hf
        unfold perRank at hf
        obtain ⟨r, _, rfl⟩ := mem_map.1 hf
        apply hok.sublist
        have h1 : ((((p :: t).zip ranks).filter (fun q => q.2 == r)).map (·.1)).Sublist (((p :: t).zip ranks).map (·.1)) :=
          (filter_sublist).map _
        rwa [map_fst_zip (by omega)] at h1
      · exact Perm.refl _

end OptunaVerif.Nsga2
