import OptunaVerif.Model.Pool
/-! Invariant of the thread-pool model (`Model/Pool.lean`) and its preservation by every event. -/
namespace OptunaVerif.Pool

theorem mem_raisedOf (ended : Nat → Option Res) (l : List Nat) (c : Nat) :
    c ∈ raisedOf ended l ↔ ∃ i ∈ l, ended i = some (.raised c) := by
  induction l with
  | nil => simp [raisedOf]
  | cons a t ih =>
    simp only [raisedOf]
    cases ha : ended a with
    | none => simp [ih, ha]
    | some r =>
      cases r with
      | ok => simp [ih, ha]
      | raised c' =>
        simp only [List.mem_cons, ih, exists_eq_or_imp, ha, Option.some.injEq, Res.raised.injEq]
        constructor
        · rintro (h | h)
          · exact Or.inl h.symm
          · exact Or.inr h
        · rintro (h | h)
          · exact Or.inl h.symm
          · exact Or.inr h

theorem raisedOf_nil (ended : Nat → Option Res) (l : List Nat) (h : raisedOf ended l = []) :
    ∀ i ∈ l, ∀ c, ended i ≠ some (.raised c) := by
  intro i hi c hc
  have : c ∈ raisedOf ended l := (mem_raisedOf ended l c).2 ⟨i, hi, hc⟩
  rw [h] at this
  cases this

theorem allEnded_mem (ended : Nat → Option Res) (l : List Nat) (h : allEnded ended l = true) :
    ∀ i ∈ l, (ended i).isSome = true := by
  simpa [allEnded] using h

/-- ended, and not with an exception ⇒ ended ok -/
theorem ended_ok_of (o : Option Res) (h1 : o.isSome = true) (h2 : ∀ c, o ≠ some (.raised c)) :
    o = some .ok := by
  cases o with
  | none => cases h1
  | some r =>
    cases r with
    | ok => rfl
    | raised c => exact absurd rfl (h2 c)

/-- The invariant of `_optimize`'s pool branch. -/
structure Inv (k : Nat) (n : Option Nat) (s : State) : Prop where
  fut_lt : ∀ i ∈ s.futures, i < s.submitted
  begun_lt : ∀ i, s.begun i = true → i < s.submitted
  ended_begun : ∀ i r, s.ended i = some r → s.begun i = true
  /-- while no exception has been met, every submitted future is still in `futures` or was seen
  to have returned normally -/
  tracked : (s.phase = .loop ∨ s.phase = .drained) → s.cands = [] →
    ∀ i, i < s.submitted → i ∈ s.futures ∨ s.ended i = some .ok
  cands_real : ∀ c ∈ s.cands, ∃ i, i < s.submitted ∧ s.ended i = some (.raised c)
  drained_empty : s.phase = .drained → s.futures = []
  exited : ∀ r, s.phase = .exited r →
    (∀ i, i < s.submitted → (s.ended i).isSome = true) ∧
    (r = .ok → ∀ i, i < s.submitted → s.ended i = some .ok) ∧
    (∀ c, r = .raised c → ∃ i, i < s.submitted ∧ s.ended i = some (.raised c))
  size : s.futures.length ≤ k
  unfinished_tracked : ∀ i, i < s.submitted → s.ended i = none → i ∈ s.futures
  quota : ∀ m, n = some m → s.submitted ≤ m
  /-- the submit loop is left without an exception only through one of its three `break`s:
  stop flag, `n_trials` reached, `timeout` elapsed -/
  drained_why : (s.phase = .drained ∨ s.phase = .exited .ok) →
    s.stop = true ∨ quotaReached n s.submitted = true ∨ s.timedOut = true

theorem inv_init (k : Nat) (n : Option Nat) : Inv k n init := by
  constructor <;> simp [init]

theorem inv_submit (k : Nat) (n : Option Nat) (s s' : State) (hi : Inv k n s)
    (h : step k n s .submit = some s') : Inv k n s' := by
  simp only [step] at h
  split at h
  · rename_i hg
    obtain ⟨hph, hc, hq, hlen⟩ := hg
    cases h
    constructor
    · intro i hi'
      rcases List.mem_cons.1 hi' with rfl | hi'
      · simp
      · exact Nat.lt_succ_of_lt (hi.fut_lt i hi')
    · intro i hb; exact Nat.lt_succ_of_lt (hi.begun_lt i hb)
    · exact hi.ended_begun
    · intro _ _ i hlt
      rcases Nat.lt_succ_iff_lt_or_eq.1 hlt with h1 | rfl
      · rcases hi.tracked (Or.inl hph) hc i h1 with h2 | h2
        · exact Or.inl (List.mem_cons_of_mem _ h2)
        · exact Or.inr h2
      · exact Or.inl List.mem_cons_self
    · intro c hc'
      obtain ⟨i, h1, h2⟩ := hi.cands_real c hc'
      exact ⟨i, Nat.lt_succ_of_lt h1, h2⟩
    · intro hd; simp only [] at hd; rw [hph] at hd; cases hd
    · intro r hr; simp only [] at hr; rw [hph] at hr; cases hr
    · simp only [List.length_cons]; omega
    · intro i hlt hn
      rcases Nat.lt_succ_iff_lt_or_eq.1 hlt with h1 | rfl
      · exact List.mem_cons_of_mem _ (hi.unfinished_tracked i h1 hn)
      · exact List.mem_cons_self
    · intro m hm
      have := hi.quota m hm
      subst hm
      simp only [quotaReached, decide_eq_false_iff_not] at hq
      simp only []
      omega
    · intro hd; simp only [] at hd; rw [hph] at hd
      rcases hd with hd | hd <;> cases hd
  · cases h

theorem inv_begin (k : Nat) (n : Option Nat) (s s' : State) (i : Nat) (hi : Inv k n s)
    (h : step k n s (.begin i) = some s') : Inv k n s' := by
  simp only [step] at h
  split at h
  · rename_i hg
    cases h
    constructor
    · exact hi.fut_lt
    · intro j hb
      simp only [] at hb
      split at hb
      · rename_i hji; subst hji; exact hg.1
      · exact hi.begun_lt j hb
    · intro j r hr
      simp only []
      split
      · rfl
      · exact hi.ended_begun j r hr
    · exact hi.tracked
    · exact hi.cands_real
    · exact hi.drained_empty
    · exact hi.exited
    · exact hi.size
    · exact hi.unfinished_tracked
    · exact hi.quota
    · exact hi.drained_why
  · cases h

theorem inv_stop (k : Nat) (n : Option Nat) (s s' : State) (i : Nat) (hi : Inv k n s)
    (h : step k n s (.stopCalled i) = some s') : Inv k n s' := by
  simp only [step] at h
  split at h
  · cases h
    constructor
    · exact hi.fut_lt
    · exact hi.begun_lt
    · exact hi.ended_begun
    · exact hi.tracked
    · exact hi.cands_real
    · exact hi.drained_empty
    · exact hi.exited
    · exact hi.size
    · exact hi.unfinished_tracked
    · exact hi.quota
    · intro _; exact Or.inl rfl
  · cases h

theorem inv_finish (k : Nat) (n : Option Nat) (s s' : State) (i : Nat) (r : Res) (hi : Inv k n s)
    (h : step k n s (.finish i r) = some s') : Inv k n s' := by
  simp only [step] at h
  split at h
  · rename_i hg
    obtain ⟨hb, he⟩ := hg
    have hlt : i < s.submitted := hi.begun_lt i hb
    cases h
    constructor
    · exact hi.fut_lt
    · exact hi.begun_lt
    · intro j r' hr
      simp only [] at hr
      split at hr
      · rename_i hji; subst hji; exact hb
      · exact hi.ended_begun j r' hr
    · intro hph hc j hj
      simp only [] at hph hc ⊢
      rcases hi.tracked hph hc j hj with h1 | h1
      · exact Or.inl h1
      · right
        split
        · rename_i hji; subst hji; rw [he] at h1; cases h1
        · exact h1
    · intro c hc
      obtain ⟨j, h1, h2⟩ := hi.cands_real c hc
      refine ⟨j, h1, ?_⟩
      simp only []
      split
      · rename_i hji; subst hji; rw [he] at h2; cases h2
      · exact h2
    · exact hi.drained_empty
    · intro r' hr
      -- impossible: after exit every submitted future has ended, but future i had not
      have := (hi.exited r' hr).1 i hlt
      rw [he] at this
      cases this
    · exact hi.size
    · intro j hj hn
      simp only [] at hn
      split at hn
      · cases hn
      · exact hi.unfinished_tracked j hj hn
    · exact hi.quota
    · exact hi.drained_why
  · cases h

theorem inv_waitFirst (k : Nat) (n : Option Nat) (s s' : State) (c : List Nat) (hi : Inv k n s)
    (h : step k n s (.waitFirst c) = some s') : Inv k n s' := by
  simp only [step] at h
  split at h
  · rename_i hg
    obtain ⟨hph, hc, _, _, _, hsub, hend⟩ := hg
    have hsub' : ∀ i ∈ c, i ∈ s.futures := by simpa using hsub
    have hend' := allEnded_mem s.ended c hend
    cases h
    constructor
    · intro i hi'
      exact hi.fut_lt i (List.mem_filter.1 hi').1
    · exact hi.begun_lt
    · exact hi.ended_begun
    · intro _ hc' j hj
      simp only [] at hc' ⊢
      rcases hi.tracked (Or.inl hph) hc j hj with h1 | h1
      · by_cases hjc : j ∈ c
        · exact Or.inr (ended_ok_of _ (hend' j hjc) (raisedOf_nil s.ended c hc' j hjc))
        · exact Or.inl (List.mem_filter.2 ⟨h1, by simpa using hjc⟩)
      · exact Or.inr h1
    · intro x hx
      simp only [] at hx
      obtain ⟨j, hj, hr⟩ := (mem_raisedOf s.ended c x).1 hx
      exact ⟨j, hi.fut_lt j (hsub' j hj), hr⟩
    · intro hd; simp only [] at hd; rw [hph] at hd; cases hd
    · intro r hr; simp only [] at hr; rw [hph] at hr; cases hr
    · exact Nat.le_trans (List.length_filter_le _ _) hi.size
    · intro j hj hn
      simp only [] at hn ⊢
      refine List.mem_filter.2 ⟨hi.unfinished_tracked j hj hn, ?_⟩
      have : j ∉ c := by
        intro hjc
        have := hend' j hjc
        rw [hn] at this
        cases this
      simpa using this
    · exact hi.quota
    · intro hd; simp only [] at hd; rw [hph] at hd
      rcases hd with hd | hd <;> cases hd
  · cases h

theorem inv_waitAll (k : Nat) (n : Option Nat) (s s' : State) (hi : Inv k n s)
    (h : step k n s .waitAll = some s') : Inv k n s' := by
  simp only [step] at h
  split at h
  · rename_i hg
    obtain ⟨hph, hc, hwhy, hend⟩ := hg
    have hend' := allEnded_mem s.ended s.futures hend
    cases h
    constructor
    · intro i hi'; cases hi'
    · exact hi.begun_lt
    · exact hi.ended_begun
    · intro _ hc' j hj
      simp only [] at hc' ⊢
      rcases hi.tracked (Or.inl hph) hc j hj with h1 | h1
      · exact Or.inr (ended_ok_of _ (hend' j h1) (raisedOf_nil s.ended s.futures hc' j h1))
      · exact Or.inr h1
    · intro x hx
      simp only [] at hx
      obtain ⟨j, hj, hr⟩ := (mem_raisedOf s.ended s.futures x).1 hx
      exact ⟨j, hi.fut_lt j hj, hr⟩
    · intro _; rfl
    · intro r hr; cases hr
    · simp
    · intro j hj hn
      exfalso
      have := hend' j (hi.unfinished_tracked j hj hn)
      rw [hn] at this
      cases this
    · exact hi.quota
    · intro _; exact hwhy
  · cases h

theorem inv_timeout (k : Nat) (n : Option Nat) (s s' : State) (hi : Inv k n s)
    (h : step k n s .timeout = some s') : Inv k n s' := by
  simp only [step] at h
  split at h
  · rename_i hph
    cases h
    constructor
    · exact hi.fut_lt
    · exact hi.begun_lt
    · exact hi.ended_begun
    · exact hi.tracked
    · exact hi.cands_real
    · exact hi.drained_empty
    · exact hi.exited
    · exact hi.size
    · exact hi.unfinished_tracked
    · exact hi.quota
    · intro hd; simp only [] at hd; rw [hph] at hd
      rcases hd with hd | hd <;> cases hd
  · cases h

theorem inv_exit (k : Nat) (n : Option Nat) (s s' : State) (r : Res) (hi : Inv k n s)
    (h : step k n s (.exit r) = some s') : Inv k n s' := by
  simp only [step] at h
  split at h
  · rename_i hg
    obtain ⟨hph, hend, hallow⟩ := hg
    have hend' : ∀ i, i < s.submitted → (s.ended i).isSome = true := by
      intro i hlt
      exact allEnded_mem s.ended _ hend i (List.mem_range.2 hlt)
    cases h
    constructor
    · exact hi.fut_lt
    · exact hi.begun_lt
    · exact hi.ended_begun
    · intro hp; simp only [] at hp; rcases hp with hp | hp <;> cases hp
    · exact hi.cands_real
    · intro hd; cases hd
    · intro r' hr
      simp only [Phase.exited.injEq] at hr
      subst hr
      refine ⟨hend', ?_, ?_⟩
      · intro hr j hj
        subst hr
        simp only [exitAllowed, Bool.and_eq_true, decide_eq_true_eq] at hallow
        rcases hi.tracked (Or.inr hallow.1) hallow.2 j hj with h1 | h1
        · rw [hi.drained_empty hallow.1] at h1; cases h1
        · exact h1
      · intro c hr
        subst hr
        simp only [exitAllowed, List.contains_iff_mem] at hallow
        exact hi.cands_real c hallow
    · exact hi.size
    · exact hi.unfinished_tracked
    · exact hi.quota
    · intro hd
      simp only [] at hd
      rcases hd with hd | hd
      · cases hd
      · simp only [Phase.exited.injEq] at hd
        subst hd
        simp only [exitAllowed, Bool.and_eq_true, decide_eq_true_eq] at hallow
        exact hi.drained_why (Or.inl hallow.1)
  · cases h

theorem inv_step (k : Nat) (n : Option Nat) (s s' : State) (e : Event) (hi : Inv k n s)
    (h : step k n s e = some s') : Inv k n s' := by
  cases e with
  | submit => exact inv_submit k n s s' hi h
  | begin i => exact inv_begin k n s s' i hi h
  | stopCalled i => exact inv_stop k n s s' i hi h
  | finish i r => exact inv_finish k n s s' i r hi h
  | waitFirst c => exact inv_waitFirst k n s s' c hi h
  | timeout => exact inv_timeout k n s s' hi h
  | waitAll => exact inv_waitAll k n s s' hi h
  | exit r => exact inv_exit k n s s' r hi h

theorem inv_run (k : Nat) (n : Option Nat) (s s' : State) (es : List Event) (hi : Inv k n s)
    (h : run k n s es = some s') : Inv k n s' := by
  induction es generalizing s with
  | nil => simp only [run, Option.some.injEq] at h; subst h; exact hi
  | cons e es ih =>
    simp only [run] at h
    cases hs : step k n s e with
    | none => rw [hs] at h; cases h
    | some s1 =>
      rw [hs] at h
      exact ih s1 (inv_step k n s s1 e hi hs) h

/-- the stop flag is never lowered while `_optimize` runs -/
theorem stop_mono_step (k : Nat) (n : Option Nat) (s s' : State) (e : Event)
    (h : step k n s e = some s') (hs : s.stop = true) : s'.stop = true := by
  cases e <;> simp only [step] at h <;> split at h <;> first | (cases h; first | exact hs | rfl) | cases h

theorem stop_mono_run (k : Nat) (n : Option Nat) (s s' : State) (es : List Event)
    (h : run k n s es = some s') (hs : s.stop = true) : s'.stop = true := by
  induction es generalizing s with
  | nil => simp only [run, Option.some.injEq] at h; subst h; exact hs
  | cons e es ih =>
    simp only [run] at h
    cases hst : step k n s e with
    | none => rw [hst] at h; cases h
    | some s1 =>
      rw [hst] at h
      exact ih s1 h (stop_mono_step k n s s1 e hst hs)

end OptunaVerif.Pool
