import OptunaVerif.Model.Proto
/-!
Helper lemmas for the wire model of the gRPC proxy (Props/C01Grpc.lean): protobuf maps (`ofList`),
the parameter join of `_from_proto_trial`, lists of trials.
-/
namespace OptunaVerif.Proto
open OptunaVerif OptunaVerif.Storage OptunaVerif.Generated

/-! ## maps -/

section Map
variable {κ α : Type} [DecidableEq κ]

theorem lookup_insertBy (lt : κ → κ → Bool) (k : κ) (v : α) (l : List (κ × α)) (x : κ) :
    lookup (insertBy lt k v l) x = if k = x then some v else lookup l x := by
  induction l with
  | nil => simp [insertBy, lookup]
  | cons hd t ih =>
    obtain ⟨k', v'⟩ := hd
    simp only [insertBy]
    by_cases h1 : k' = k
    · subst h1
      simp only [if_true, lookup]
      by_cases h2 : k' = x <;> simp [h2]
    · simp only [h1, if_false]
      by_cases h2 : lt k k' = true
      · simp only [h2, if_true, lookup]
      · rw [if_neg h2]
        simp only [lookup, ih]
        by_cases h3 : k' = x
        · subst h3
          have : ¬ k = k' := fun h => h1 h.symm
          simp [this]
        · simp [h3]

theorem lookup_ofList (lt : κ → κ → Bool) (l : List (κ × α)) (x : κ) :
    lookup (ofList lt l) x = lookup l x := by
  induction l with
  | nil => rfl
  | cons hd t ih =>
    obtain ⟨k, v⟩ := hd
    show lookup (insertBy lt k v (ofList lt t)) x = lookup ((k, v) :: t) x
    rw [lookup_insertBy, ih]
    simp [lookup]

theorem mem_insertBy (lt : κ → κ → Bool) (k : κ) (v : α) (l : List (κ × α)) (p : κ × α)
    (h : p ∈ insertBy lt k v l) : p = (k, v) ∨ p ∈ l := by
  induction l with
  | nil => simp [insertBy] at h; exact Or.inl h
  | cons hd t ih =>
    obtain ⟨k', v'⟩ := hd
    simp only [insertBy] at h
    split at h
    · simp only [List.mem_cons] at h ⊢
      rcases h with h | h
      · exact Or.inl h
      · exact Or.inr (Or.inr h)
    · split at h
      · simp only [List.mem_cons] at h ⊢
        exact h
      · simp only [List.mem_cons] at h ⊢
        rcases h with h | h
        · exact Or.inr (Or.inl h)
        · rcases ih h with h | h
          · exact Or.inl h
          · exact Or.inr (Or.inr h)

theorem mem_ofList_key (lt : κ → κ → Bool) (l : List (κ × α)) (p : κ × α) (h : p ∈ ofList lt l) :
    p.1 ∈ l.map (·.1) := by
  induction l with
  | nil => simp [ofList] at h
  | cons hd t ih =>
    have h' : p ∈ insertBy lt hd.1 hd.2 (ofList lt t) := h
    rcases mem_insertBy lt _ _ _ _ h' with h | h
    · simp [h]
    · simp only [List.map_cons, List.mem_cons]
      exact Or.inr (ih h)

/-- the order a map's representative is sorted by -/
structure StrictOrder (lt : κ → κ → Bool) : Prop where
  irrefl : ∀ a, lt a a = false
  trans : ∀ a b c, lt a b = true → lt b c = true → lt a c = true
  tri : ∀ a b, lt a b = true ∨ a = b ∨ lt b a = true

/-- strictly increasing keys (hence unique keys) -/
def Sorted (lt : κ → κ → Bool) (l : List (κ × α)) : Prop := l.Pairwise (fun a b => lt a.1 b.1 = true)

theorem insertBy_sorted {lt : κ → κ → Bool} (ho : StrictOrder lt) (k : κ) (v : α) (l : List (κ × α))
    (h : Sorted lt l) : Sorted lt (insertBy lt k v l) := by
  induction l with
  | nil => simp [insertBy, Sorted]
  | cons hd t ih =>
    obtain ⟨k', v'⟩ := hd
    unfold Sorted at h ⊢
    rw [List.pairwise_cons] at h
    obtain ⟨hhd, ht⟩ := h
    simp only [insertBy]
    by_cases h1 : k' = k
    · subst h1
      simp only [if_true]
      exact List.pairwise_cons.2 ⟨hhd, ht⟩
    · simp only [h1, if_false]
      by_cases h2 : lt k k' = true
      · simp only [h2, if_true]
        refine List.pairwise_cons.2 ⟨?_, List.pairwise_cons.2 ⟨hhd, ht⟩⟩
        intro b hb
        rcases List.mem_cons.1 hb with hb | hb
        · subst hb; exact h2
        · exact ho.trans _ _ _ h2 (hhd b hb)
      · simp only [h2]
        have hlt : lt k' k = true := by
          rcases ho.tri k k' with h | h | h
          · exact absurd h h2
          · exact absurd h.symm h1
          · exact h
        refine List.pairwise_cons.2 ⟨?_, ih ht⟩
        intro b hb
        rcases mem_insertBy lt _ _ _ _ hb with hb | hb
        · subst hb; exact hlt
        · exact hhd b hb

theorem ofList_sorted {lt : κ → κ → Bool} (ho : StrictOrder lt) (l : List (κ × α)) : Sorted lt (ofList lt l) := by
  induction l with
  | nil => simp [ofList, Sorted]
  | cons hd t ih => exact insertBy_sorted ho hd.1 hd.2 _ ih

/-- a sorted list is its own representative -/
theorem ofList_of_sorted {lt : κ → κ → Bool} (ho : StrictOrder lt) (l : List (κ × α)) (h : Sorted lt l) :
    ofList lt l = l := by
  induction l with
  | nil => rfl
  | cons hd t ih =>
    obtain ⟨k, v⟩ := hd
    unfold Sorted at h
    rw [List.pairwise_cons] at h
    show insertBy lt k v (ofList lt t) = (k, v) :: t
    rw [ih h.2]
    cases t with
    | nil => rfl
    | cons hd2 t2 =>
      obtain ⟨k2, v2⟩ := hd2
      have hlt : lt k k2 = true := h.1 (k2, v2) (by simp)
      have hne : ¬ k2 = k := by
        intro he; subst he
        rw [ho.irrefl] at hlt; exact Bool.noConfusion hlt
      simp [insertBy, hne, hlt]

theorem ofList_idem {lt : κ → κ → Bool} (ho : StrictOrder lt) (l : List (κ × α)) :
    ofList lt (ofList lt l) = ofList lt l := ofList_of_sorted ho _ (ofList_sorted ho l)

omit [DecidableEq κ] in
theorem sorted_keys_nodup {lt : κ → κ → Bool} (ho : StrictOrder lt) (l : List (κ × α)) (h : Sorted lt l) :
    (l.map (·.1)).Nodup := by
  unfold Sorted at h
  rw [List.Nodup, List.pairwise_map]
  refine h.imp ?_
  intro a b hab he
  rw [he, ho.irrefl] at hab
  exact Bool.noConfusion hab

theorem lookup_of_mem_sorted {lt : κ → κ → Bool} (ho : StrictOrder lt) (l : List (κ × α)) (h : Sorted lt l)
    (k : κ) (v : α) (hm : (k, v) ∈ l) : lookup l k = some v := by
  induction l with
  | nil => simp at hm
  | cons hd t ih =>
    obtain ⟨k', v'⟩ := hd
    unfold Sorted at h
    rw [List.pairwise_cons] at h
    rcases List.mem_cons.1 hm with hm | hm
    · cases hm; simp [lookup]
    · have hlt : lt k' k = true := h.1 (k, v) hm
      have hne : ¬ k' = k := by
        intro he; subst he
        rw [ho.irrefl] at hlt; exact Bool.noConfusion hlt
      simp only [lookup, hne, if_false]
      exact ih h.2 hm

/-- re-labelling the values commutes with building the map -/
theorem insertBy_mapVal {β : Type} (lt : κ → κ → Bool) (g : α → β) (k : κ) (v : α) (l : List (κ × α)) :
    insertBy lt k (g v) (l.map (fun p => (p.1, g p.2))) = (insertBy lt k v l).map (fun p => (p.1, g p.2)) := by
  induction l with
  | nil => rfl
  | cons hd t ih =>
    obtain ⟨k', v'⟩ := hd
    simp only [List.map_cons, insertBy]
    by_cases h1 : k' = k
    · simp [h1]
    · simp only [h1, if_false]
      by_cases h2 : lt k k' = true
      · simp [h2]
      · simp [h2, ih]

theorem ofList_mapVal {β : Type} (lt : κ → κ → Bool) (g : α → β) (l : List (κ × α)) :
    ofList lt (l.map (fun p => (p.1, g p.2))) = (ofList lt l).map (fun p => (p.1, g p.2)) := by
  induction l with
  | nil => rfl
  | cons hd t ih =>
    show insertBy lt hd.1 (g hd.2) (ofList lt (t.map _)) = (insertBy lt hd.1 hd.2 (ofList lt t)).map _
    rw [ih, insertBy_mapVal]

theorem insertBy_perm (lt : κ → κ → Bool) (k : κ) (v : α) (l : List (κ × α)) (h : k ∉ l.map (·.1)) :
    (insertBy lt k v l).Perm ((k, v) :: l) := by
  induction l with
  | nil => simp [insertBy]
  | cons hd t ih =>
    obtain ⟨k', v'⟩ := hd
    simp only [List.map_cons, List.mem_cons, not_or] at h
    have hne : ¬ k' = k := fun he => h.1 he.symm
    simp only [insertBy, hne, if_false]
    split
    · exact List.Perm.refl _
    · exact ((ih h.2).cons (k', v')).trans (List.Perm.swap _ _ _)

/-- the representative is a rearrangement of the dictionary's items -/
theorem ofList_perm (lt : κ → κ → Bool) (l : List (κ × α)) (h : (l.map (·.1)).Nodup) :
    (ofList lt l).Perm l := by
  induction l with
  | nil => exact List.Perm.refl _
  | cons hd t ih =>
    simp only [List.map_cons, List.nodup_cons] at h
    have hk : hd.1 ∉ (ofList lt t).map (·.1) := by
      intro hm
      obtain ⟨p, hp, hpk⟩ := List.mem_map.1 hm
      exact h.1 (hpk ▸ mem_ofList_key lt t p hp)
    exact (insertBy_perm lt hd.1 hd.2 _ hk).trans ((ih h.2).cons hd)

end Map

theorem strLt_order : StrictOrder strLt where
  irrefl a := by simp [strLt]
  trans a b c h1 h2 := by
    simp only [strLt, decide_eq_true_eq] at *
    exact String.lt_trans h1 h2
  tri a b := by
    simp only [strLt, decide_eq_true_eq]
    by_cases h1 : a < b
    · exact Or.inl h1
    · by_cases h2 : b < a
      · exact Or.inr (Or.inr h2)
      · exact Or.inr (Or.inl (String.le_antisymm (String.not_lt.1 h2) (String.not_lt.1 h1)))

theorem intLt_order : StrictOrder intLt where
  irrefl a := by simp [intLt]
  trans a b c h1 h2 := by
    simp only [intLt, decide_eq_true_eq] at *
    omega
  tri a b := by
    simp only [intLt, decide_eq_true_eq]
    omega

theorem get?_eq_lookup {α : Type} (l : AList α) (k : String) : AList.get? l k = lookup l k := by
  induction l with
  | nil => rfl
  | cons hd t ih =>
    obtain ⟨k', v⟩ := hd
    simp only [AList.get?, lookup, ih]

/-- reading a key of the map field gives what reading the dictionary gives -/
theorem get?_smap {α : Type} (l : AList α) (k : String) : AList.get? (smap l) k = AList.get? l k := by
  rw [get?_eq_lookup, get?_eq_lookup]; exact lookup_ofList strLt l k

theorem smap_idem {α : Type} (l : AList α) : smap (smap l) = smap l := ofList_idem strLt_order l
theorem imap_idem (l : List (Int × XVal)) : imap (imap l) = imap l := ofList_idem intLt_order l

/-! ## the parameter join of `_from_proto_trial` -/

theorem joinParams_of_lookup (ds : AList Dist) (n : AList Param)
    (h : ∀ p ∈ n, lookup ds p.1 = some p.2.dist) :
    joinParams ds (n.map (fun p => (p.1, p.2.internal))) = some n := by
  induction n with
  | nil => rfl
  | cons hd t ih =>
    obtain ⟨k, p⟩ := hd
    have h1 : lookup ds k = some p.dist := h (k, p) (by simp)
    have h2 := ih (fun q hq => h q (List.mem_cons_of_mem _ hq))
    simp only [List.map_cons, joinParams, h1, h2]

theorem joinParams_smap (ps : AList Param) :
    joinParams (smap (ps.map (fun p => (p.1, p.2.dist)))) (smap (ps.map (fun p => (p.1, p.2.internal)))) = some (smap ps) := by
  unfold smap
  rw [ofList_mapVal strLt (fun (p : Param) => p.dist), ofList_mapVal strLt (fun (p : Param) => p.internal)]
  apply joinParams_of_lookup
  intro p hp
  have hs : Sorted strLt ((ofList strLt ps).map (fun q => (q.1, q.2.dist))) := by
    have := ofList_sorted strLt_order ps
    unfold Sorted at this ⊢
    rw [List.pairwise_map]
    exact this
  exact lookup_of_mem_sorted strLt_order _ hs p.1 p.2.dist (List.mem_map.2 ⟨p, hp, rfl⟩)

/-! ## small facts -/

theorem decodeDt_encodeDt (b : Bool) : decodeDt (encodeDt b) = b := by cases b <;> decide

theorem values_roundtrip (v : Option (List XVal)) :
    decodeValues GrpcTables.trialValuesDecode (encodeValues v) = normValues v := by
  cases v with
  | none => rfl
  | some l => cases l <;> rfl

theorem setStateValues_roundtrip (v : Option (List XVal)) :
    decodeValues GrpcTables.setStateValuesDecode (encodeValues v) = normValues v := by
  cases v with
  | none => rfl
  | some l => cases l <;> rfl

theorem state_roundtrip (s : TState) : ∃ c, stateToProto s = some c ∧ stateFromProto c = some s := by
  cases s <;> (refine ⟨_, rfl, ?_⟩; decide)

end OptunaVerif.Proto
