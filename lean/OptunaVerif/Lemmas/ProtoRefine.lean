import OptunaVerif.Lemmas.Proto
/-!
Helper lemmas for Props/C01Grpc.lean (the gRPC proxy refines its backend): the `FrozenTrial` round trip and its
list form, facts about the normal form, the `BaseStorage.get_best_trial` computation under normalisation.
-/
namespace OptunaVerif.C01Grpc
open OptunaVerif OptunaVerif.Storage OptunaVerif.Proto OptunaVerif.Generated
open OptunaVerif.Generated.GrpcTables (Exc Status Rpc ValuesDecode)

def normFrozen (f : Frozen) : Frozen := { f with body := normTemplate f.body }

theorem normDir_eq (d : Nat) : normDir d = if d = 1 then 1 else 2 := by
  unfold normDir dirFromProto dirToProto
  by_cases h : d = 1
  · subst h; decide
  · have : ¬ d = GrpcTables.dirToProtoTest := h
    simp only [this, h, if_false]
    decide

theorem normDir_idem (d : Nat) : normDir (normDir d) = normDir d := by
  simp only [normDir_eq]; split <;> simp

/-- `_from_proto_trial(_to_proto_trial(t))` is `t` in normal form, for every
`FrozenTrial` (any state, any values incl. NaN/±inf, any dictionaries, any id/number). -/
theorem frozen_roundtrip (f : Frozen) :
    ∃ p, toProtoTrial f = some p ∧ fromProtoTrial p = .ok (normFrozen f) := by
  obtain ⟨c, h1, h2⟩ := state_roundtrip f.body.state
  simp only [toProtoTrial, h1]
  refine ⟨_, rfl, ?_⟩
  simp only [fromProtoTrial, joinParams_smap, h2, values_roundtrip, decodeDt_encodeDt]
  rfl

theorem normValues_idem (v : Option (List XVal)) : normValues (normValues v) = normValues v := by
  cases v with
  | none => rfl
  | some l => cases l <;> rfl

/-- the rpc an operation of the contract goes through; `none`: a `BaseStorage` default that runs in the
client on top of `get_trial` / `get_all_trials` / `get_study_directions` -/
def rpcOf : Op → Option Rpc
  | .createStudy .. => some .createNewStudy
  | .deleteStudy .. => some .deleteStudy
  | .setStudyUserAttr .. => some .setStudyUserAttribute
  | .setStudySystemAttr .. => some .setStudySystemAttribute
  | .createTrial .. => some .createNewTrial
  | .setTrialParam .. => some .setTrialParameter
  | .setTrialStateValues .. => some .setTrialStateValues
  | .setTrialInter .. => some .setTrialIntermediateValue
  | .setTrialUserAttr .. => some .setTrialUserAttribute
  | .setTrialSystemAttr .. => some .setTrialSystemAttribute
  | .getStudyIdFromName .. => some .getStudyIdFromName
  | .getStudyNameFromId .. => some .getStudyNameFromId
  | .getStudyDirections .. => some .getStudyDirections
  | .getStudyUserAttrs .. => some .getStudyUserAttributes
  | .getStudySystemAttrs .. => some .getStudySystemAttributes
  | .getAllStudies => some .getAllStudies
  | .getTrialIdFromNumber .. => some .getTrialIdFromStudyIdTrialNumber
  | .getTrial .. => some .getTrial
  | .getAllTrials .. => some .getTrials
  | .getTrialNumberFromId .. | .getTrialParam .. | .getNTrials .. | .getBestTrial .. => none

theorem writable_err (s : Spec) (tid : Nat) (e : Err) (h : s.writable tid = .error e) :
    e = .keyError ∨ e = .updateFinished := by
  unfold Spec.writable at h
  split at h
  · cases h; exact Or.inl rfl
  · split at h
    · cases h; exact Or.inr rfl
    · cases h

theorem trialOfFrozen_norm (p : Nat × TrialS) : trialOfFrozen (normFrozen (frozenOf p)) = normIdTrial p := by
  simp [trialOfFrozen, normFrozen, frozenOf, normIdTrial, normTrial, normTemplate, TrialS.template]

/-- a list of stored trials over the wire (`GetTrialsReply.trials`) -/
theorem trials_roundtrip (l : List (Nat × TrialS)) :
    ∃ ps, toProtoTrials (l.map frozenOf) = some ps ∧
      fromProtoTrials ps = .ok (l.map (fun p => normFrozen (frozenOf p))) := by
  induction l with
  | nil => exact ⟨[], rfl, rfl⟩
  | cons hd t ih =>
    obtain ⟨ps, h1, h2⟩ := ih
    obtain ⟨p, h3, h4⟩ := frozen_roundtrip (frozenOf hd)
    exact ⟨p :: ps, by simp [toProtoTrials, h1, h3], by simp [fromProtoTrials, h2, h4]⟩

theorem servicerFilter_all (l : List (Nat × TrialS)) : Cache.servicerFilter [] (-1) l = l := by
  unfold Cache.servicerFilter
  apply List.filter_eq_self.2
  intro p _
  simp only [Bool.or_eq_true, decide_eq_true_eq]
  exact Or.inl (by omega)

theorem rpcOf_normOp (u : String) (op : Op) : rpcOf (normOp u op) = rpcOf op := by
  cases op <;> try rfl
  case createTrial sid t ir => cases t <;> rfl

theorem value0_norm (t : TrialS) : (normTrial t).value0? = t.value0? := by
  unfold TrialS.value0? normTrial
  cases h : t.values with
  | none => rfl
  | some l => cases l <;> rfl

theorem completeWithValue_norm (l : List (Nat × TrialS)) :
    completeWithValue (l.map normIdTrial) = (completeWithValue l).map (fun q => (q.1, normTrial q.2.1, q.2.2)) := by
  induction l with
  | nil => rfl
  | cons p t ih =>
    unfold completeWithValue at ih ⊢
    simp only [List.map_cons, List.filterMap_cons, normIdTrial, value0_norm]
    have hs : (normTrial p.2).state = p.2.state := rfl
    rw [hs]
    by_cases hc : (p.2.state == TState.complete) = true
    · simp only [hc, if_true]
      cases hv : p.2.value0? with
      | none => simpa [normIdTrial] using ih
      | some v => simpa [normIdTrial] using ih
    · simp only [hc]
      simpa [normIdTrial] using ih

theorem betterEq_normDir (d : Nat) : betterEq (normDir d) = betterEq d := by
  funext a b
  unfold betterEq
  rw [normDir_eq]
  by_cases h : d = 1
  · subst h; rfl
  · have h1 : (d == 1) = false := by simpa using h
    simp [h, h1]

theorem bestSet_norm (d : Nat) (l : List (Nat × TrialS)) :
    bestSet (normDir d) (l.map normIdTrial) = (bestSet d l).map normIdTrial := by
  unfold bestSet
  rw [betterEq_normDir, completeWithValue_norm]
  simp [List.filter_map, List.all_map, List.map_map, Function.comp_def, normIdTrial]

theorem bestOut_norm (dirs : List Nat) (l : List (Nat × TrialS)) :
    bestOut (dirs.map normDir) (l.map normIdTrial) = normOut (bestOut dirs l) := by
  match dirs with
  | [] => rfl
  | [d] =>
    simp only [List.map_cons, List.map_nil, bestOut, bestSet_norm]
    cases bestSet d l with
    | nil => rfl
    | cons b bs => rfl
  | d1 :: d2 :: rest => rfl

theorem trialParamOut_norm (t : TrialS) (name : String) :
    Cache.trialParamOut (normTrial t) name = normOut (Cache.trialParamOut t name) := by
  unfold Cache.trialParamOut
  have : (normTrial t).params.get? name = t.params.get? name := get?_smap _ name
  rw [this]
  cases t.params.get? name <;> rfl

theorem step_getBestTrial (s : Spec) (sid : Nat) (st : StudyS) (h : s.study? sid = some st) :
    step s (.getBestTrial sid) = (s, bestOut st.directions (s.trialsOf sid)) := by
  simp only [step, h]
  unfold bestOut
  rcases hd : st.directions with _ | ⟨d, _ | ⟨d2, r⟩⟩
  · rfl
  · simp only []
    cases hb : bestSet d (s.trialsOf sid) <;> rfl
  · rfl

theorem normOp_of_derived (u : String) (op : Op) (h : rpcOf op = none) : normOp u op = op := by
  cases op <;> simp [rpcOf] at h <;> rfl

end OptunaVerif.C01Grpc
