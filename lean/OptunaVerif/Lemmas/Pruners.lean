import OptunaVerif.Model.Pruners
/-!
# Helper lemmas for C16 (pruners)

Order facts about `XVal`, `nanMin`/`nanMax`, the insertion sort, the numpy percentile
(`npPercentile` lies between any lower and upper bound of the non-NaN inputs, or is NaN), the interval
function, the promotable index, the successive-halving loop and lookups in trial lists.
Core Lean only.
-/
set_option linter.unusedSimpArgs false
set_option linter.unusedVariables false
namespace OptunaVerif.Pruners
open OptunaVerif

/-! ## order on `XVal` -/

theorem xle_refl {a : XVal} (h : xisNan a = false) : XVal.le a a = true := by
  cases a <;> simp_all [XVal.le, xisNan]

theorem xle_trans {a b c : XVal} (h1 : XVal.le a b = true) (h2 : XVal.le b c = true) :
    XVal.le a c = true := by
  cases a <;> cases b <;> cases c <;> simp_all [XVal.le]
  exact Rat.le_trans h1 h2

theorem xle_total {a b : XVal} (ha : xisNan a = false) (hb : xisNan b = false) :
    XVal.le a b = true ∨ XVal.le b a = true := by
  cases a <;> cases b <;> simp_all [XVal.le, xisNan]
  exact Rat.le_total

theorem xle_not_xlt {a b : XVal} (h : XVal.le a b = true) : xlt b a = false := by
  cases a <;> cases b <;> simp_all [XVal.le, xlt]
  exact Rat.not_lt.2 h

theorem xlt_xle {a b : XVal} (h : xlt a b = true) : XVal.le a b = true := by
  cases a <;> cases b <;> simp_all [XVal.le, xlt]
  exact Rat.le_of_lt h

theorem xle_notNan {a b : XVal} (h : XVal.le a b = true) : xisNan a = false ∧ xisNan b = false := by
  cases a <;> cases b <;> simp_all [XVal.le, xisNan]

theorem xlt_nan_left (b : XVal) : xlt .nan b = false := by cases b <;> rfl
theorem xlt_nan_right (a : XVal) : xlt a .nan = false := by cases a <;> rfl

theorem xisNan_nan : xisNan XVal.nan = true := rfl

theorem xisNan_eq_true {a : XVal} : xisNan a = true ↔ a = .nan := by
  cases a <;> simp [xisNan]

/-! ## `nanMin` / `nanMax` -/

theorem nanMin_spec (l : List XVal) :
    (nanMin l = .nan ∧ ∀ u ∈ l, xisNan u = true) ∨
    (xisNan (nanMin l) = false ∧ nanMin l ∈ l ∧
      ∀ u ∈ l, xisNan u = false → XVal.le (nanMin l) u = true) := by
  induction l with
  | nil => left; simp [nanMin]
  | cons v t ih =>
    simp only [nanMin]
    by_cases hv : xisNan v = true
    · simp only [hv, if_true]
      rcases ih with ⟨h1, h2⟩ | ⟨h1, h2, h3⟩
      · left; refine ⟨h1, ?_⟩
        intro u hu
        rcases List.mem_cons.1 hu with rfl | hu
        · exact hv
        · exact h2 u hu
      · right; refine ⟨h1, List.mem_cons_of_mem _ h2, ?_⟩
        intro u hu hn
        rcases List.mem_cons.1 hu with rfl | hu
        · simp [hv] at hn
        · exact h3 u hu hn
    · have hv' : xisNan v = false := by simpa using hv
      simp only [hv', Bool.false_eq_true, if_false]
      rcases ih with ⟨h1, h2⟩ | ⟨h1, h2, h3⟩
      · right
        rw [h1]; simp only [xisNan_nan, if_true]
        refine ⟨hv', List.mem_cons_self, ?_⟩
        intro u hu hn
        rcases List.mem_cons.1 hu with rfl | hu
        · exact xle_refl hn
        · simp [h2 u hu] at hn
      · right
        simp only [h1, Bool.false_eq_true, if_false]
        by_cases hle : XVal.le v (nanMin t) = true
        · simp only [hle, if_true]
          refine ⟨hv', List.mem_cons_self, ?_⟩
          intro u hu hn
          rcases List.mem_cons.1 hu with rfl | hu
          · exact xle_refl hn
          · exact xle_trans hle (h3 u hu hn)
        · simp only [hle, if_false]
          refine ⟨h1, List.mem_cons_of_mem _ h2, ?_⟩
          intro u hu hn
          rcases List.mem_cons.1 hu with rfl | hu
          · rcases xle_total h1 hn with h | h
            · exact h
            · exact absurd h hle
          · exact h3 u hu hn

theorem nanMax_spec (l : List XVal) :
    (nanMax l = .nan ∧ ∀ u ∈ l, xisNan u = true) ∨
    (xisNan (nanMax l) = false ∧ nanMax l ∈ l ∧
      ∀ u ∈ l, xisNan u = false → XVal.le u (nanMax l) = true) := by
  induction l with
  | nil => left; simp [nanMax]
  | cons v t ih =>
    simp only [nanMax]
    by_cases hv : xisNan v = true
    · simp only [hv, if_true]
      rcases ih with ⟨h1, h2⟩ | ⟨h1, h2, h3⟩
      · left; refine ⟨h1, ?_⟩
        intro u hu
        rcases List.mem_cons.1 hu with rfl | hu
        · exact hv
        · exact h2 u hu
      · right; refine ⟨h1, List.mem_cons_of_mem _ h2, ?_⟩
        intro u hu hn
        rcases List.mem_cons.1 hu with rfl | hu
        · simp [hv] at hn
        · exact h3 u hu hn
    · have hv' : xisNan v = false := by simpa using hv
      simp only [hv', Bool.false_eq_true, if_false]
      rcases ih with ⟨h1, h2⟩ | ⟨h1, h2, h3⟩
      · right
        rw [h1]; simp only [xisNan_nan, if_true]
        refine ⟨hv', List.mem_cons_self, ?_⟩
        intro u hu hn
        rcases List.mem_cons.1 hu with rfl | hu
        · exact xle_refl hn
        · simp [h2 u hu] at hn
      · right
        simp only [h1, Bool.false_eq_true, if_false]
        by_cases hle : XVal.le (nanMax t) v = true
        · simp only [hle, if_true]
          refine ⟨hv', List.mem_cons_self, ?_⟩
          intro u hu hn
          rcases List.mem_cons.1 hu with rfl | hu
          · exact xle_refl hn
          · exact xle_trans (h3 u hu hn) hle
        · simp only [hle, if_false]
          refine ⟨h1, List.mem_cons_of_mem _ h2, ?_⟩
          intro u hu hn
          rcases List.mem_cons.1 hu with rfl | hu
          · rcases xle_total hn h1 with h | h
            · exact h
            · exact absurd h hle
          · exact h3 u hu hn

/-- With at least one non-NaN element the NaN-ignoring minimum is not NaN. -/
theorem nanMin_notNan {l : List XVal} {v : XVal} (hv : v ∈ l) (hn : xisNan v = false) :
    xisNan (nanMin l) = false := by
  rcases nanMin_spec l with ⟨_, h2⟩ | ⟨h1, _, _⟩
  · simp [h2 v hv] at hn
  · exact h1

theorem nanMax_notNan {l : List XVal} {v : XVal} (hv : v ∈ l) (hn : xisNan v = false) :
    xisNan (nanMax l) = false := by
  rcases nanMax_spec l with ⟨_, h2⟩ | ⟨h1, _, _⟩
  · simp [h2 v hv] at hn
  · exact h1

theorem nanMin_le {l : List XVal} {u : XVal} (hu : u ∈ l) (hn : xisNan u = false) :
    XVal.le (nanMin l) u = true := by
  rcases nanMin_spec l with ⟨_, h2⟩ | ⟨_, _, h3⟩
  · simp [h2 u hu] at hn
  · exact h3 u hu hn

theorem le_nanMax {l : List XVal} {u : XVal} (hu : u ∈ l) (hn : xisNan u = false) :
    XVal.le u (nanMax l) = true := by
  rcases nanMax_spec l with ⟨_, h2⟩ | ⟨_, _, h3⟩
  · simp [h2 u hu] at hn
  · exact h3 u hu hn

theorem nanMin_mem {l : List XVal} (h : xisNan (nanMin l) = false) : nanMin l ∈ l := by
  rcases nanMin_spec l with ⟨h1, _⟩ | ⟨_, h2, _⟩
  · simp [h1, xisNan] at h
  · exact h2

theorem nanMax_mem {l : List XVal} (h : xisNan (nanMax l) = false) : nanMax l ∈ l := by
  rcases nanMax_spec l with ⟨h1, _⟩ | ⟨_, h2, _⟩
  · simp [h1, xisNan] at h
  · exact h2

/-! ## insertion sort is a rearrangement -/

theorem mem_insertBy {α : Type} (le : α → α → Bool) (x y : α) (l : List α) :
    y ∈ insertBy le x l ↔ y = x ∨ y ∈ l := by
  induction l with
  | nil => simp [insertBy]
  | cons z t ih =>
    simp only [insertBy]
    split
    · simp
    · simp only [List.mem_cons, ih]
      constructor
      · rintro (h | h | h) <;> simp [h]
      · rintro (h | h | h) <;> simp [h]

theorem mem_sortBy {α : Type} (le : α → α → Bool) (y : α) (l : List α) :
    y ∈ sortBy le l ↔ y ∈ l := by
  induction l with
  | nil => simp [sortBy]
  | cons z t ih => simp [sortBy, mem_insertBy, ih]

theorem length_insertBy {α : Type} (le : α → α → Bool) (x : α) (l : List α) :
    (insertBy le x l).length = l.length + 1 := by
  induction l with
  | nil => simp [insertBy]
  | cons z t ih =>
    simp only [insertBy]
    split <;> simp [ih]

theorem length_sortBy {α : Type} (le : α → α → Bool) (l : List α) :
    (sortBy le l).length = l.length := by
  induction l with
  | nil => simp [sortBy]
  | cons z t ih => simp [sortBy, length_insertBy, ih]

theorem mem_of_sortX_getElem? {l : List XVal} {i : Nat} {a : XVal} (h : (sortX l)[i]? = some a) :
    a ∈ l :=
  (mem_sortBy XVal.le a l).1 (List.mem_of_getElem? h)

/-! ## the numpy linear interpolation stays between its end points (or is NaN) -/

theorem xle_ninf (r : XVal) : xisNan r = true ∨ XVal.le .ninf r = true := by
  cases r <;> simp [XVal.le, xisNan]

theorem xle_pinf (r : XVal) : xisNan r = true ∨ XVal.le r .pinf = true := by
  cases r <;> simp [XVal.le, xisNan]

theorem lerp_lower {m a b : XVal} {t : Rat} (h0 : 0 ≤ t) (h1 : t ≤ 1)
    (ha : XVal.le m a = true) (hb : XVal.le m b = true) :
    xisNan (lerp a b t) = true ∨ XVal.le m (lerp a b t) = true := by
  cases m with
  | nan => simp [XVal.le] at ha
  | ninf => exact xle_ninf _
  | pinf =>
    cases a <;> cases b <;> simp [XVal.le] at ha hb
    left
    simp [lerp, xsub, xadd, xneg, xscale, xisNan]
  | fin m =>
    cases a <;> cases b <;> simp [XVal.le] at ha hb
    · rename_i a b
      right
      have h2 : 0 ≤ (b - m) * t := Rat.mul_nonneg (by grind) h0
      have h3 : 0 ≤ (a - m) * (1 - t) := Rat.mul_nonneg (by grind) (by grind)
      simp only [lerp, xsub, xadd, xneg, xscale]
      split
      · simp only [XVal.le, decide_eq_true_eq]; grind
      · simp only [XVal.le, decide_eq_true_eq]; grind
    · rename_i a
      simp only [lerp, xsub, xadd, xneg, xscale]
      by_cases ht : (1:Rat)/2 ≤ t
      · simp only [ht, if_true]
        by_cases h1t : 0 < 1 - t
        · simp [h1t, xadd, xneg, xisNan]
        · have : ¬ (1 - t < 0) := by grind
          simp [h1t, this, xadd, xneg, xisNan]
      · simp only [ht, if_false]
        by_cases htp : 0 < t
        · simp [htp, xadd, XVal.le]
        · have : ¬ (t < 0) := by grind
          simp [htp, this, xadd, xisNan]
    · rename_i b
      simp only [lerp, xsub, xadd, xneg, xscale]
      by_cases ht : (1:Rat)/2 ≤ t
      · simp only [ht, if_true]
        by_cases h1t : 0 < 1 - t
        · simp [h1t, xadd, xneg, XVal.le]
        · have : ¬ (1 - t < 0) := by grind
          simp [h1t, this, xadd, xneg, xisNan]
      · simp only [ht, if_false]
        by_cases htp : 0 < t
        · simp [htp, xadd, xisNan]
        · have : ¬ (t < 0) := by grind
          simp [htp, this, xadd, xisNan]
    · left
      simp [lerp, xsub, xadd, xneg, xscale, xisNan]

theorem lerp_upper {m a b : XVal} {t : Rat} (h0 : 0 ≤ t) (h1 : t ≤ 1)
    (ha : XVal.le a m = true) (hb : XVal.le b m = true) :
    xisNan (lerp a b t) = true ∨ XVal.le (lerp a b t) m = true := by
  cases m with
  | nan => cases a <;> simp [XVal.le] at ha
  | pinf => exact xle_pinf _
  | ninf =>
    cases a <;> cases b <;> simp [XVal.le] at ha hb
    left
    simp [lerp, xsub, xadd, xneg, xscale, xisNan]
  | fin m =>
    cases a <;> cases b <;> simp [XVal.le] at ha hb
    · -- ninf, ninf
      left
      simp [lerp, xsub, xadd, xneg, xscale, xisNan]
    · -- ninf, fin
      rename_i b
      simp only [lerp, xsub, xadd, xneg, xscale]
      by_cases ht : (1:Rat)/2 ≤ t
      · simp only [ht, if_true]
        by_cases h1t : 0 < 1 - t
        · simp [h1t, xadd, xneg, XVal.le]
        · have : ¬ (1 - t < 0) := by grind
          simp [h1t, this, xadd, xneg, xisNan]
      · simp only [ht, if_false]
        by_cases htp : 0 < t
        · simp [htp, xadd, xisNan]
        · have : ¬ (t < 0) := by grind
          simp [htp, this, xadd, xisNan]
    · -- fin, ninf
      rename_i a
      simp only [lerp, xsub, xadd, xneg, xscale]
      by_cases ht : (1:Rat)/2 ≤ t
      · simp only [ht, if_true]
        by_cases h1t : 0 < 1 - t
        · simp [h1t, xadd, xneg, xisNan]
        · have : ¬ (1 - t < 0) := by grind
          simp [h1t, this, xadd, xneg, xisNan]
      · simp only [ht, if_false]
        by_cases htp : 0 < t
        · simp [htp, xadd, XVal.le]
        · have : ¬ (t < 0) := by grind
          simp [htp, this, xadd, xisNan]
    · rename_i a b
      right
      have h2 : 0 ≤ (m - b) * t := Rat.mul_nonneg (by grind) h0
      have h3 : 0 ≤ (m - a) * (1 - t) := Rat.mul_nonneg (by grind) (by grind)
      simp only [lerp, xsub, xadd, xneg, xscale]
      split
      · simp only [XVal.le, decide_eq_true_eq]; grind
      · simp only [XVal.le, decide_eq_true_eq]; grind

/-- both neighbours equal (the top index): the result is that element or NaN, whatever `gamma` is -/
theorem lerp_same (l : XVal) (t : Rat) : xisNan (lerp l l t) = true ∨ lerp l l t = l := by
  cases l with
  | nan => left; simp [lerp, xsub, xadd, xneg, xscale, xisNan]
  | pinf => left; simp [lerp, xsub, xadd, xneg, xscale, xisNan]
  | ninf => left; simp [lerp, xsub, xadd, xneg, xscale, xisNan]
  | fin a =>
    right
    simp only [lerp, xsub, xadd, xneg, xscale]
    split
    · congr 1; grind
    · congr 1; grind

/-! ## the numpy percentile is bounded by the bounds of its non-NaN inputs -/

theorem floor_toNat_bounds {v : Rat} (h : 0 ≤ v) :
    ((v.floor.toNat : Nat) : Rat) ≤ v ∧ v < ((v.floor.toNat : Nat) : Rat) + 1 := by
  have h0 : 0 ≤ v.floor := Rat.le_floor_iff.2 (by simpa using h)
  have e : ((v.floor.toNat : Nat) : Rat) = ((v.floor : Int) : Rat) := by
    rw [← Rat.intCast_natCast]; congr 1; omega
  rw [e]
  refine ⟨Rat.floor_le v, ?_⟩
  have := Rat.lt_floor_add_one v
  rw [Rat.intCast_add] at this
  simpa using this

theorem mem_filter_notNan {vals : List XVal} {a : XVal}
    (h : a ∈ vals.filter (fun v => !xisNan v)) : a ∈ vals ∧ xisNan a = false := by
  simpa using h

/-- `numpy.nanpercentile` never goes below a lower bound of the non-NaN inputs (or it is NaN). -/
theorem npPercentile_lower {m : XVal} {vals : List XVal} {q : Rat} (hq0 : 0 ≤ q)
    (hm : ∀ u ∈ vals, xisNan u = false → XVal.le m u = true) :
    xisNan (npPercentile vals q) = true ∨ XVal.le m (npPercentile vals q) = true := by
  unfold npPercentile
  simp only
  split
  · left; rfl
  · rename_i k hk
    have hmem : ∀ (i : Nat) (a : XVal), (sortX (vals.filter (fun v => !xisNan v)))[i]? = some a → XVal.le m a = true := by
      intro i a h
      have := mem_filter_notNan (mem_of_sortX_getElem? h)
      exact hm a this.1 this.2
    split
    · split
      · rename_i l hl
        rcases lerp_same l ((k : Rat) * (q / 100) + 1) with h | h
        · left; exact h
        · right; rw [h]; exact hmem _ _ hl
      · left; rfl
    · rename_i hv
      split
      · rename_i a b ha hb
        have hv0 : 0 ≤ (k : Rat) * (q / 100) := Rat.mul_nonneg Rat.natCast_nonneg (by grind)
        have hb' := floor_toNat_bounds hv0
        exact lerp_lower (by grind) (by grind) (hmem _ _ ha) (hmem _ _ hb)
      · left; rfl
/-- `numpy.nanpercentile` never goes above an upper bound of the non-NaN inputs (or it is NaN). -/
theorem npPercentile_upper {m : XVal} {vals : List XVal} {q : Rat} (hq0 : 0 ≤ q)
    (hm : ∀ u ∈ vals, xisNan u = false → XVal.le u m = true) :
    xisNan (npPercentile vals q) = true ∨ XVal.le (npPercentile vals q) m = true := by
  unfold npPercentile
  simp only
  split
  · left; rfl
  · rename_i k hk
    have hmem : ∀ (i : Nat) (a : XVal), (sortX (vals.filter (fun v => !xisNan v)))[i]? = some a → XVal.le a m = true := by
      intro i a h
      have := mem_filter_notNan (mem_of_sortX_getElem? h)
      exact hm a this.1 this.2
    split
    · split
      · rename_i l hl
        rcases lerp_same l ((k : Rat) * (q / 100) + 1) with h | h
        · left; exact h
        · right; rw [h]; exact hmem _ _ hl
      · left; rfl
    · rename_i hv
      split
      · rename_i a b ha hb
        have hv0 : 0 ≤ (k : Rat) * (q / 100) := Rat.mul_nonneg Rat.natCast_nonneg (by grind)
        have hb' := floor_toNat_bounds hv0
        exact lerp_upper (by grind) (by grind) (hmem _ _ ha) (hmem _ _ hb)
      · left; rfl

/-! ## `_is_first_in_interval_step` -/

theorem secondLast_foldl_lt (step b : Int) (steps : List Int) (acc : Int) :
    steps.foldl (fun acc s => if s > acc ∧ s ≠ step then s else acc) acc < b ↔
      acc < b ∧ ∀ s ∈ steps, s ≠ step → s < b := by
  induction steps generalizing acc with
  | nil => simp
  | cons x t ih =>
    simp only [List.foldl_cons, ih, List.mem_cons]
    constructor
    · rintro ⟨h1, h2⟩
      split at h1
      · rename_i hx
        refine ⟨by omega, ?_⟩
        rintro s (rfl | hs) hne
        · exact h1
        · exact h2 s hs hne
      · rename_i hx
        refine ⟨h1, ?_⟩
        rintro s (rfl | hs) hne
        · have : ¬ (s > acc) := fun h => hx ⟨h, hne⟩
          omega
        · exact h2 s hs hne
    · rintro ⟨h1, h2⟩
      refine ⟨?_, fun s hs hne => h2 s (Or.inr hs) hne⟩
      split
      · rename_i hx; exact h2 x (Or.inl rfl) hx.2
      · exact h1

/-- What the reduce computes: every *other* reported step lies below the bound, and so does `-1`. -/
theorem isFirstInIntervalStep_iff (step : Int) (steps : List Int) (w i : Int) :
    isFirstInIntervalStep step steps w i = true ↔
      -1 < nearestLowerPruningStep step w i ∧
      ∀ s ∈ steps, s ≠ step → s < nearestLowerPruningStep step w i := by
  unfold isFirstInIntervalStep secondLastStep
  rw [decide_eq_true_eq]
  exact secondLast_foldl_lt step _ steps (-1)

/-- The nearest lower pruning step is the check point `w + k·i` of the interval that contains
`step`. -/
theorem nearestLower_eq {step w i : Int} (k : Int) (hi : 0 < i)
    (h1 : w + k * i ≤ step) (h2 : step < w + (k + 1) * i) :
    nearestLowerPruningStep step w i = w + k * i := by
  unfold nearestLowerPruningStep
  have hf : Int.fdiv (step - w) i = (step - w) / i := Int.fdiv_eq_ediv_of_nonneg _ (Int.le_of_lt hi)
  have hk : (step - w) / i = k := by
    have a : k ≤ (step - w) / i := Int.le_ediv_of_mul_le hi (by omega)
    have b : (step - w) / i < k + 1 := Int.ediv_lt_of_lt_mul hi (by omega)
    omega
  rw [hf, hk]; omega

theorem nearestLower_bounds {step w i : Int} (hi : 0 < i) :
    nearestLowerPruningStep step w i ≤ step ∧ step < nearestLowerPruningStep step w i + i := by
  unfold nearestLowerPruningStep
  have hf : Int.fdiv (step - w) i = (step - w) / i := Int.fdiv_eq_ediv_of_nonneg _ (Int.le_of_lt hi)
  rw [hf]
  have a := Int.ediv_mul_le (step - w) (Int.ne_of_gt hi)
  have b := Int.lt_ediv_add_one_mul_self (step - w) hi
  have c : ((step - w) / i + 1) * i = (step - w) / i * i + i := by
    rw [Int.add_mul]; omega
  omega



/-! ## successive halving: promotable index, competing values, the loop -/

theorem promotableIdx_lt {n eta : Nat} (hn : 1 ≤ n) (he : 1 ≤ eta) : promotableIdx n eta < n := by
  unfold promotableIdx
  have : n / eta ≤ n := Nat.div_le_self n eta
  simp only
  split <;> omega

theorem competingValues_length_pos (trials : List PTrial) (rung : Nat) (value : XVal) :
    1 ≤ (competingValues trials rung value).length := by
  simp [competingValues]

theorem mem_competingValues {trials : List PTrial} {rung : Nat} {value u : XVal}
    (h : u ∈ competingValues trials rung value) :
    u = value ∨ ∃ t ∈ trials, rungGet t.rungs rung = some u := by
  simp only [competingValues, List.mem_append, List.mem_filterMap, List.mem_singleton] at h
  rcases h with ⟨t, ht, h⟩ | h
  · exact Or.inr ⟨t, ht, h⟩
  · exact Or.inl h

/-- The index used by `_is_trial_promotable_to_next_rung` is always inside the sorted list. -/
theorem isPromotable?_isSome (value : XVal) (competing : List XVal) (eta : Nat) (d : Dir)
    (hn : 1 ≤ competing.length) (he : 1 ≤ eta) : (isPromotable? value competing eta d).isSome = true := by
  have hi := promotableIdx_lt hn he
  have hl : (sortX competing).length = competing.length := length_sortBy _ _
  unfold isPromotable?
  cases d with
  | minimize =>
    simp only
    have : promotableIdx competing.length eta < (sortX competing).length := by omega
    simp [List.getElem?_eq_getElem this]
  | maximize =>
    simp only
    have h1 : promotableIdx competing.length eta + 1 ≤ (sortX competing).length := by omega
    have h2 : (sortX competing).length - (promotableIdx competing.length eta + 1) < (sortX competing).length := by omega
    simp [h1, List.getElem?_eq_getElem h2]

/-- A value at least as good as every competing value is promotable. -/
theorem isPromotable?_best (value : XVal) (competing : List XVal) (eta : Nat) (d : Dir)
    (hn : 1 ≤ competing.length) (he : 1 ≤ eta)
    (hbest : ∀ u ∈ competing, match d with
      | .minimize => XVal.le value u = true
      | .maximize => XVal.le u value = true) :
    isPromotable? value competing eta d = some true := by
  have hs := isPromotable?_isSome value competing eta d hn he
  unfold isPromotable? at hs ⊢
  cases d with
  | minimize =>
    simp only at hs ⊢
    cases h : (sortX competing)[promotableIdx competing.length eta]? with
    | none => simp [h] at hs
    | some c =>
      simp only [Option.map_some, Option.some.injEq]
      exact hbest c (mem_of_sortX_getElem? h)
  | maximize =>
    simp only at hs ⊢
    split
    · cases h : (sortX competing)[(sortX competing).length - (promotableIdx competing.length eta + 1)]? with
      | none => rename_i h1; simp [h1, h] at hs
      | some c =>
        simp only [Option.map_some, Option.some.injEq]
        exact hbest c (mem_of_sortX_getElem? h)
    · rename_i h1; simp [h1] at hs

theorem lt_promotionStep {m eta : Nat} (rate rung : Nat) (hm : 1 ≤ m) (he : 2 ≤ eta) :
    rung < promotionStep m eta rate rung := by
  unfold promotionStep
  have h1 : rung < 2 ^ rung := Nat.lt_two_pow_self
  have h2 : 2 ^ rung ≤ 2 ^ (rate + rung) := Nat.pow_le_pow_right (by omega) (by omega)
  have h3 : 2 ^ (rate + rung) ≤ eta ^ (rate + rung) := Nat.pow_le_pow_left he _
  have h4 : eta ^ (rate + rung) ≤ m * eta ^ (rate + rung) := Nat.le_mul_of_pos_left _ (by omega)
  omega

/-- The `while True:` loop of successive halving ends: with `m ≥ 1` and `η ≥ 2` the promotion step
outgrows the trial's step, so the fuel `prune` passes is never exhausted. -/
theorem shLoop_isSome (c : SHCfg) (m : Nat) (d : Dir) (trials : List PTrial) (step : Int) (value : XVal)
    (hm : 1 ≤ m) (he : 2 ≤ c.eta) :
    ∀ (fuel rung : Nat), 1 ≤ fuel → step.toNat < rung + fuel →
      (shLoop c m d trials step value fuel rung).isSome = true := by
  intro fuel
  induction fuel with
  | zero => intro rung h; omega
  | succ fuel ih =>
    intro rung _ hlt
    simp only [shLoop]
    have hp := lt_promotionStep (m := m) (eta := c.eta) c.rate rung hm he
    split
    · rfl
    · rename_i hns
      split
      · rfl
      · split
        · rfl
        · split
          · apply ih
            · omega
            · omega
          · rfl

/-- What the loop returns: `hi` is never below the starting rung, and a rung is only written for a
non-NaN value. -/
theorem shLoop_hi (c : SHCfg) (m : Nat) (d : Dir) (trials : List PTrial) (step : Int) (value : XVal) :
    ∀ (fuel rung : Nat) (b : Bool) (hi : Nat), shLoop c m d trials step value fuel rung = some (b, hi) →
      rung ≤ hi ∧ (rung < hi → xisNan value = false) := by
  intro fuel
  induction fuel with
  | zero => intro rung b hi h; simp [shLoop] at h
  | succ fuel ih =>
    intro rung b hi h
    simp only [shLoop] at h
    split at h
    · simp only [Option.some.injEq, Prod.mk.injEq] at h; omega
    · split at h
      · simp only [Option.some.injEq, Prod.mk.injEq] at h; omega
      · rename_i hn
        have hn' : xisNan value = false := by simpa using hn
        split at h
        · simp only [Option.some.injEq, Prod.mk.injEq] at h; exact ⟨by omega, fun _ => hn'⟩
        · split at h
          · have := ih _ _ _ h
            exact ⟨by omega, fun _ => hn'⟩
          · simp only [Option.some.injEq, Prod.mk.injEq] at h; exact ⟨by omega, fun _ => hn'⟩

/-- Without bootstrap, a non-NaN value that is at least as good as every competing
`completed_rung_r` value (for every rung from the current one on) is never pruned by the loop. -/
theorem shLoop_best (c : SHCfg) (m : Nat) (d : Dir) (trials : List PTrial) (step : Int) (value : XVal)
    (he : 1 ≤ c.eta) (hboot : c.bootstrap = 0) (hval : xisNan value = false) :
    ∀ (fuel rung : Nat),
      (∀ r, rung ≤ r → ∀ t ∈ trials, ∀ u, rungGet t.rungs r = some u →
        match d with
        | .minimize => XVal.le value u = true
        | .maximize => XVal.le u value = true) →
      ∀ b hi, shLoop c m d trials step value fuel rung = some (b, hi) → b = false := by
  intro fuel
  induction fuel with
  | zero => intro rung _ b hi h; simp [shLoop] at h
  | succ fuel ih =>
    intro rung hbest b hi h
    simp only [shLoop] at h
    split at h
    · simp only [Option.some.injEq, Prod.mk.injEq] at h; exact h.1.symm
    · simp only [hval, Bool.false_eq_true, if_false] at h
      have hpos := competingValues_length_pos trials rung value
      have hnb : ¬ (competingValues trials rung value).length ≤ c.bootstrap := by omega
      simp only [hnb, if_false] at h
      have hp : isPromotable? value (competingValues trials rung value) c.eta d = some true := by
        apply isPromotable?_best _ _ _ _ hpos he
        intro u hu
        rcases mem_competingValues hu with rfl | ⟨t, ht, hr⟩
        · cases d <;> exact xle_refl hval
        · exact hbest rung (Nat.le_refl _) t ht u hr
      rw [hp] at h
      exact ih (rung + 1) (fun r hr => hbest r (by omega)) b hi h



/-! ## lookups in trials and trial lists -/

theorem interGet_mem {l : List (Int × XVal)} {k : Int} {v : XVal} (h : interGet l k = some v) :
    (k, v) ∈ l := by
  induction l with
  | nil => simp [interGet] at h
  | cons p t ih =>
    obtain ⟨s, w⟩ := p
    simp only [interGet] at h
    split at h
    · rename_i hs; simp only [Option.some.injEq] at h; subst hs; subst h; exact List.mem_cons_self
    · exact List.mem_cons_of_mem _ (ih h)

theorem interGet_mem_values {t : PTrial} {k : Int} {v : XVal} (h : interGet t.inter k = some v) :
    v ∈ interValues t := by
  have := interGet_mem h
  exact List.mem_map.2 ⟨(k, v), this, rfl⟩

theorem interGet_isSome_of_mem {l : List (Int × XVal)} {k : Int} (h : k ∈ l.map (·.1)) :
    ∃ v, interGet l k = some v := by
  induction l with
  | nil => simp at h
  | cons p t ih =>
    obtain ⟨s, w⟩ := p
    simp only [interGet]
    by_cases hs : s = k
    · exact ⟨w, by simp [hs]⟩
    · simp only [hs, if_false]
      apply ih
      simp only [List.map_cons, List.mem_cons] at h
      rcases h with h | h
      · exact absurd h.symm hs
      · exact h

theorem lastStep_spec {l : List (Int × XVal)} {s : Int} (h : lastStep l = some s) :
    s ∈ l.map (·.1) ∧ ∀ s' ∈ l.map (·.1), s' ≤ s := by
  induction l generalizing s with
  | nil => simp [lastStep] at h
  | cons p t ih =>
    obtain ⟨k, w⟩ := p
    simp only [lastStep] at h
    cases ht : lastStep t with
    | none =>
      simp only [ht, Option.some.injEq] at h
      subst h
      have : t = [] := by
        cases t with
        | nil => rfl
        | cons q t' =>
          obtain ⟨k', w'⟩ := q
          simp only [lastStep] at ht
          split at ht <;> simp at ht
      subst this
      simp
    | some m =>
      simp only [ht, Option.some.injEq] at h
      have ⟨h1, h2⟩ := ih ht
      subst h
      simp only [List.map_cons, List.mem_cons]
      constructor
      · split
        · left; rfl
        · right; exact h1
      · rintro s' (rfl | hs')
        · split <;> omega
        · have := h2 s' hs'
          split <;> omega

theorem lastStep_none {l : List (Int × XVal)} (h : lastStep l = none) : l = [] := by
  cases l with
  | nil => rfl
  | cons q t =>
    obtain ⟨k, w⟩ := q
    simp only [lastStep] at h
    split at h <;> simp at h

theorem mem_valuesAtStep {trials : List PTrial} {step : Int} {u : XVal}
    (h : u ∈ valuesAtStep trials step) : ∃ t ∈ trials, interGet t.inter step = some u := by
  simpa [valuesAtStep] using h

theorem mem_completedTrials {trials : List PTrial} {t : PTrial} (h : t ∈ completedTrials trials) :
    t ∈ trials ∧ t.state = .complete := by
  simpa [completedTrials] using h

theorem rungGet_mem {l : List (Nat × XVal)} {k : Nat} {v : XVal} (h : rungGet l k = some v) :
    (k, v) ∈ l := by
  induction l with
  | nil => simp [rungGet] at h
  | cons p t ih =>
    obtain ⟨s, w⟩ := p
    simp only [rungGet] at h
    split at h
    · rename_i hs; simp only [Option.some.injEq] at h; subst hs; subst h; exact List.mem_cons_self
    · exact List.mem_cons_of_mem _ (ih h)

theorem rungGet_isSome_range' {l : List (Nat × XVal)} {a : Nat}
    (h : l.map (·.1) = List.range' a l.length) (k : Nat) :
    (rungGet l k).isSome = true ↔ a ≤ k ∧ k < a + l.length := by
  induction l generalizing a with
  | nil => simp [rungGet]
  | cons p t ih =>
    obtain ⟨s, w⟩ := p
    simp only [List.map_cons, List.length_cons, List.range'_succ, List.cons.injEq] at h
    obtain ⟨hs, ht⟩ := h
    subst hs
    simp only [rungGet]
    by_cases hk : s = k
    · subst hk; simp
    · simp only [hk, if_false, ih ht, List.length_cons]
      omega

/-- Rungs written in order `0, 1, 2, …`: the current rung is their number. -/
theorem currentRung_of_range {l : List (Nat × XVal)} (h : l.map (·.1) = List.range l.length) :
    currentRung l = l.length := by
  have h' : l.map (·.1) = List.range' 0 l.length := by rw [h, List.range_eq_range']
  have key : ∀ fuel k, k ≤ l.length → l.length - k ≤ fuel → currentRungFrom l fuel k = l.length := by
    intro fuel
    induction fuel with
    | zero => intro k h1 h2; simp only [currentRungFrom]; omega
    | succ fuel ih =>
      intro k h1 h2
      simp only [currentRungFrom, hasRung]
      by_cases hk : (rungGet l k).isSome = true
      · simp only [hk, if_true]
        have := (rungGet_isSome_range' h' k).1 hk
        exact ih (k + 1) (by omega) (by omega)
      · simp only [hk]
        have : ¬ (0 ≤ k ∧ k < 0 + l.length) := fun hh => hk ((rungGet_isSome_range' h' k).2 hh)
        simp only [Bool.false_eq_true, if_false]
        omega
  exact key _ 0 (by omega) (by omega)

theorem rungGet_none_of_range {l : List (Nat × XVal)} (h : l.map (·.1) = List.range l.length)
    {k : Nat} (hk : l.length ≤ k) : rungGet l k = none := by
  have h' : l.map (·.1) = List.range' 0 l.length := by rw [h, List.range_eq_range']
  cases hr : rungGet l k with
  | none => rfl
  | some v =>
    have := (rungGet_isSome_range' h' k).1 (by simp [hr])
    omega

theorem mem_bracketTrials {nb eta : Nat} {crc : Nat → Nat} {b : Nat} {trials : List PTrial} {t : PTrial}
    (h : t ∈ bracketTrials nb eta crc b trials) : ∃ i : Nat, trials[i]? = some t := by
  simp only [bracketTrials, List.mem_map, List.mem_filter] at h
  obtain ⟨⟨t', i⟩, ⟨hm, _⟩, rfl⟩ := h
  exact ⟨i, (List.mem_zipIdx_iff_getElem?.1 hm)⟩

theorem mem_updAt {α : Type} {l : List α} {n : Nat} {f : α → α} {x : α} (h : x ∈ updAt l n f) :
    x ∈ l ∨ ∃ y, l[n]? = some y ∧ x = f y := by
  obtain ⟨j, hj⟩ := List.mem_iff_getElem?.1 h
  rw [updAt_getElem?] at hj
  split at hj
  · rename_i hjn
    subst hjn
    cases hl : l[j]? with
    | none => simp [hl] at hj
    | some y => simp only [hl, Option.map_some, Option.some.injEq] at hj; exact Or.inr ⟨y, rfl, hj.symm⟩
  · exact Or.inl (List.mem_of_getElem? hj)



/-! ## Hyperband: budgets and the bracket walk -/

theorem ceilDiv_spec (N s : Nat) :
    N ≤ (s + 1) * ((N + s) / (s + 1)) ∧ (s + 1) * ((N + s) / (s + 1)) < N + (s + 1) := by
  have h1 := Nat.div_add_mod (N + s) (s + 1)
  have h2 := Nat.mod_lt (N + s) (Nat.succ_pos s)
  generalize (N + s) / (s + 1) = d at *
  generalize (N + s) % (s + 1) = r at *
  generalize (s + 1) * d = e at *
  constructor <;> omega

/-- `budget` is the ceiling of `n_brackets · η^s / (s+1)`, `s = n_brackets - 1 - bracket_id`. -/
theorem budget_is_ceil (nb eta b : Nat) :
    nb * eta ^ (nb - 1 - b) ≤ (nb - 1 - b + 1) * budget nb eta b ∧
    (nb - 1 - b + 1) * budget nb eta b < nb * eta ^ (nb - 1 - b) + (nb - 1 - b + 1) := by
  unfold budget
  exact ceilDiv_spec _ _

theorem budget_pos {nb eta : Nat} (b : Nat) (hnb : 1 ≤ nb) (he : 1 ≤ eta) : 1 ≤ budget nb eta b := by
  have h := (budget_is_ceil nb eta b).1
  have hp : 1 ≤ eta ^ (nb - 1 - b) := Nat.one_le_pow _ _ he
  have : 1 ≤ nb * eta ^ (nb - 1 - b) := Nat.mul_le_mul hnb hp
  cases hb : budget nb eta b with
  | zero => rw [hb] at h; omega
  | succ k => omega

theorem budgets_length (nb eta : Nat) : (budgets nb eta).length = nb := by simp [budgets]

theorem sum_pos_of_forall_pos {l : List Nat} (hne : l ≠ []) (h : ∀ x ∈ l, 1 ≤ x) : 1 ≤ l.sum := by
  cases l with
  | nil => exact absurd rfl hne
  | cons x t => simp only [List.sum_cons]; have := h x List.mem_cons_self; omega

theorem budgets_sum_pos {nb eta : Nat} (hnb : 1 ≤ nb) (he : 1 ≤ eta) : 1 ≤ (budgets nb eta).sum := by
  apply sum_pos_of_forall_pos
  · intro h
    have := budgets_length nb eta
    rw [h] at this
    simp at this
    omega
  · intro x hx
    simp only [budgets, List.mem_map] at hx
    obtain ⟨b, _, rfl⟩ := hx
    exact budget_pos b hnb he

/-- The walk over the budgets finds a bracket whenever the starting number is below their sum: the
`assert False` after the loop is unreachable. -/
theorem bracketWalk_lt (bs : List Nat) : ∀ (n : Int) (i : Nat), 0 ≤ n → n < (bs.sum : Nat) →
    ∃ j, bracketWalk bs n i = some j ∧ i ≤ j ∧ j < i + bs.length := by
  induction bs with
  | nil => intro n i h0 h1; simp at h1; omega
  | cons b t ih =>
    intro n i h0 h1
    simp only [bracketWalk]
    split
    · exact ⟨i, rfl, Nat.le_refl _, by simp⟩
    · rename_i hn
      simp only [List.sum_cons] at h1
      obtain ⟨j, hj, h2, h3⟩ := ih (n - (b : Int)) (i + 1) (by omega) (by omega)
      exact ⟨j, hj, by omega, by simp only [List.length_cons]; omega⟩

theorem bracketId_lt {nb eta : Nat} (h : Nat) (hnb : 1 ≤ nb) (he : 1 ≤ eta) :
    ∃ j, bracketId nb eta h = some j ∧ j < nb := by
  unfold bracketId
  simp only
  have hs := budgets_sum_pos hnb he
  have hm : h % (budgets nb eta).sum < (budgets nb eta).sum := Nat.mod_lt _ (by omega)
  obtain ⟨j, hj, _, h3⟩ := bracketWalk_lt (budgets nb eta) ((h % (budgets nb eta).sum : Nat) : Int) 0
    (by omega) (by omega)
  exact ⟨j, hj, by rw [budgets_length] at h3; omega⟩


end OptunaVerif.Pruners
