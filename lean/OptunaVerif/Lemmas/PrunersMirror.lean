import OptunaVerif.Lemmas.Pruners
import OptunaVerif.Lemmas.Direction
import OptunaVerif.Lemmas.TpeSplit
import Mathlib.Tactic.Positivity
/-! Negation lemmas on `Model/Pruners.lean` (C13 bridge): every quantity the pruners compute, on the negated study. -/
set_option linter.unusedSimpArgs false
set_option linter.unusedVariables false
namespace OptunaVerif.Pruners
open OptunaVerif

/-- the trial of the mirrored run: every reported value and every stored `completed_rung_k` value negated (NaN stays NaN) -/
def negT (t : PTrial) : PTrial :=
  { t with inter := t.inter.map (fun p => (p.1, xneg p.2)), rungs := t.rungs.map (fun p => (p.1, xneg p.2)) }

@[simp] theorem xneg_xneg (v : XVal) : xneg (xneg v) = v := by cases v <;> simp [xneg]
@[simp] theorem xisNan_xneg (v : XVal) : xisNan (xneg v) = xisNan v := by cases v <;> rfl
theorem xlt_xneg (a b : XVal) : xlt (xneg a) (xneg b) = xlt b a := by
  cases a <;> cases b <;> simp [xlt, xneg]
theorem xle_xneg (a b : XVal) : XVal.le (xneg a) (xneg b) = XVal.le b a := by
  cases a <;> cases b <;> simp [XVal.le, xneg]
theorem xneg_xadd (a b : XVal) : xneg (xadd a b) = xadd (xneg a) (xneg b) := by
  cases a <;> cases b <;> simp [xadd, xneg, neg_add, add_comm]

theorem nanMin_neg (l : List XVal) : nanMin (l.map xneg) = xneg (nanMax l) := by
  induction l with
  | nil => rfl
  | cons v t ih =>
    simp only [List.map_cons, nanMin, nanMax, ih, xisNan_xneg, xle_xneg]
    split
    · rfl
    · split
      · rfl
      · split <;> rfl

theorem nanMax_neg (l : List XVal) : nanMax (l.map xneg) = xneg (nanMin l) := by
  have := nanMin_neg (l.map xneg)
  rw [List.map_map] at this
  have h : (xneg ∘ xneg) = id := by funext v; simp
  rw [h, List.map_id] at this
  rw [this, xneg_xneg]

theorem interGet_neg (l : List (Int × XVal)) (k : Int) :
    interGet (l.map (fun p => (p.1, xneg p.2))) k = (interGet l k).map xneg := by
  induction l with
  | nil => rfl
  | cons p t ih =>
    obtain ⟨s, v⟩ := p
    simp only [List.map_cons, interGet, ih]
    split <;> rfl

theorem rungGet_neg (l : List (Nat × XVal)) (k : Nat) :
    rungGet (l.map (fun p => (p.1, xneg p.2))) k = (rungGet l k).map xneg := by
  induction l with
  | nil => rfl
  | cons p t ih =>
    obtain ⟨s, v⟩ := p
    simp only [List.map_cons, rungGet, ih]
    split <;> rfl

theorem lastStep_neg (l : List (Int × XVal)) : lastStep (l.map (fun p => (p.1, xneg p.2))) = lastStep l := by
  induction l with
  | nil => rfl
  | cons p t ih =>
    obtain ⟨s, v⟩ := p
    simp only [List.map_cons, lastStep, ih]

@[simp] theorem negT_state (t : PTrial) : (negT t).state = t.state := rfl
@[simp] theorem lastStep_negT (t : PTrial) : lastStep (negT t).inter = lastStep t.inter := lastStep_neg _
@[simp] theorem interSteps_negT (t : PTrial) : interSteps (negT t) = interSteps t := by
  simp [interSteps, negT, List.map_map, Function.comp_def]
theorem interValues_negT (t : PTrial) : interValues (negT t) = (interValues t).map xneg := by
  simp [interValues, negT, List.map_map, Function.comp_def]
@[simp] theorem inter_length_negT (t : PTrial) : (negT t).inter.length = t.inter.length := by simp [negT]

theorem completedTrials_neg (trials : List PTrial) : completedTrials (trials.map negT) = (completedTrials trials).map negT := by
  unfold completedTrials
  rw [List.filter_map]; rfl

theorem valuesAtStep_neg (trials : List PTrial) (step : Int) :
    valuesAtStep (trials.map negT) step = (valuesAtStep trials step).map xneg := by
  unfold valuesAtStep
  rw [List.filterMap_map, List.map_filterMap]
  congr 1
  funext t
  simp [Function.comp, negT, interGet_neg]

/-! ### the two insertion sorts are one -/

theorem insertBy_eq {α : Type} (le : α → α → Bool) (x : α) (l : List α) : insertBy le x l = Direction.insertBy le x l := by
  induction l with
  | nil => rfl
  | cons y t ih => simp only [insertBy, Direction.insertBy, ih]

theorem sortBy_eq {α : Type} (le : α → α → Bool) (l : List α) : sortBy le l = Direction.sortBy le l := by
  induction l with
  | nil => rfl
  | cons x t ih => simp only [sortBy, Direction.sortBy, ih, insertBy_eq]

theorem scoresByStep_negT (t : PTrial) : scoresByStep (negT t) = (scoresByStep t).map xneg := by
  unfold scoresByStep negT
  simp only [sortBy_eq]
  rw [Direction.sortBy_map]
  have : (fun (a b : Int × XVal) => stepLe (a.1, xneg a.2) (b.1, xneg b.2)) = stepLe := by funext a b; rfl
  rw [this]
  simp [List.map_map, Function.comp_def]

/-! ### PatientPruner -/

theorem patientMaybe_mirror (patience : Nat) (delta : Rat) (t : PTrial) :
    patientMaybe patience delta .minimize (negT t) = patientMaybe patience delta .maximize t := by
  unfold patientMaybe
  simp only [inter_length_negT, scoresByStep_negT, ← List.map_take, ← List.map_drop, nanMin_neg]
  split
  · rfl
  · rw [← xlt_xneg, xneg_xadd, xneg_xneg, xneg_xneg]
    rfl

/-! ### ThresholdPruner -/

/-- mirrored bounds: `lower' = -upper`, `upper' = -lower` -/
def mirrorThreshold (c : ThresholdCfg) : ThresholdCfg := { c with lower := xneg c.upper, upper := xneg c.lower }

theorem thresholdPrune_mirror (c : ThresholdCfg) (t : PTrial) :
    thresholdPrune (mirrorThreshold c) (negT t) = thresholdPrune c t := by
  have hc : thresholdChecked (mirrorThreshold c) (negT t) = (thresholdChecked c t).map xneg := by
    unfold thresholdChecked mirrorThreshold
    simp only [lastStep_negT, interSteps_negT]
    cases lastStep t.inter with
    | none => rfl
    | some step =>
      simp only
      split
      · rfl
      split
      · rfl
      simp only [negT, interGet_neg]
  unfold thresholdPrune
  rw [hc]
  cases thresholdChecked c t with
  | none => rfl
  | some v =>
    simp only [Option.map_some, mirrorThreshold, xisNan_xneg, xlt_xneg]
    cases xisNan v <;> cases xlt v c.lower <;> cases xlt c.upper v <;> rfl

/-! ### numpy's percentile on values without ±inf is the rational `percLin` of Model/Direction.lean -/

/-- the finite entries -/
def finOf : List XVal → List Rat
  | [] => []
  | .fin q :: t => q :: finOf t
  | _ :: t => finOf t

/-- no `+inf` / `-inf` among the values (NaN allowed) -/
def NoInf (l : List XVal) : Prop := ∀ v ∈ l, v ≠ .pinf ∧ v ≠ .ninf

theorem filter_notNan_eq (l : List XVal) (h : NoInf l) : l.filter (fun v => !xisNan v) = (finOf l).map .fin := by
  induction l with
  | nil => rfl
  | cons v t ih =>
    have ht : NoInf t := fun x hx => h x (List.mem_cons_of_mem _ hx)
    have hv := h v (List.mem_cons_self)
    cases v with
    | nan => simp only [List.filter_cons, finOf]; simpa [xisNan] using ih ht
    | fin q => simp only [List.filter_cons, finOf, List.map_cons]; simpa [xisNan] using ih ht
    | pinf => exact absurd rfl hv.1
    | ninf => exact absurd rfl hv.2

theorem finOf_neg (l : List XVal) : finOf (l.map xneg) = Direction.negL (finOf l) := by
  induction l with
  | nil => rfl
  | cons v t ih => cases v <;> simp [finOf, xneg, Direction.negL, ih]

theorem NoInf_neg (l : List XVal) (h : NoInf l) : NoInf (l.map xneg) := by
  intro v hv
  obtain ⟨u, hu, rfl⟩ := List.mem_map.mp hv
  have := h u hu
  cases u <;> simp_all [xneg]

theorem sortX_fin (l : List Rat) : sortX (l.map XVal.fin) = (Direction.sortR l).map XVal.fin := by
  unfold sortX Direction.sortR
  rw [sortBy_eq, Direction.sortBy_map]
  have : (fun (a b : Rat) => XVal.le (.fin a) (.fin b)) = Direction.leR := by
    funext a b; simp [XVal.le, Direction.leR]
  rw [this]

theorem lerp_fin (a b t : Rat) : lerp (.fin a) (.fin b) t = .fin (a + (b - a) * t) := by
  unfold lerp
  simp only [xsub, xadd, xneg, xscale]
  split <;> (congr 1; ring)

theorem npPercentile_eq_percLin (vals : List XVal) (q : Rat) (h : NoInf vals) (hq0 : 0 ≤ q) (hq1 : q ≤ 100) :
    npPercentile vals q =
      match finOf vals with
      | [] => .nan
      | x :: r => .fin (Direction.percLin (Direction.sortR (x :: r)) q) := by
  unfold npPercentile
  simp only [filter_notNan_eq vals h, List.length_map, sortX_fin]
  cases hl : finOf vals with
  | nil => rfl
  | cons x r =>
    have hlen : (Direction.sortR (x :: r)).length = r.length + 1 := by simp
    simp only [List.length_cons]
    unfold Direction.percLin
    simp only [hlen]
    have hm0 : (0 : Rat) ≤ (r.length : Rat) := by exact_mod_cast Nat.zero_le _
    have hv0 : 0 ≤ (r.length : Rat) * (q / 100) := mul_nonneg hm0 (by positivity)
    have hveq : q / 100 * (((r.length + 1 : Nat) : Rat) - 1) = (r.length : Rat) * (q / 100) := by push_cast; ring
    rw [hveq]
    have hvle : (r.length : Rat) * (q / 100) ≤ (r.length : Rat) := by
      have : q / 100 ≤ 1 := by linarith
      calc (r.length : Rat) * (q / 100) ≤ (r.length : Rat) * 1 := mul_le_mul_of_nonneg_left this hm0
        _ = _ := by ring
    obtain ⟨hf1, hf2⟩ := floor_toNat_bounds hv0
    set v := (r.length : Rat) * (q / 100) with hvdef
    set p := v.floor.toNat with hp
    by_cases htop : (r.length : Rat) ≤ v
    · have hveq' : v = (r.length : Rat) := le_antisymm hvle htop
      have hpm : p = r.length := by
        have h1 : (p : Rat) ≤ (r.length : Rat) := by rw [← hveq']; exact hf1
        have h2 : (r.length : Rat) < (p : Rat) + 1 := by rw [← hveq']; exact hf2
        have h1' : p ≤ r.length := by exact_mod_cast h1
        have h2' : r.length < p + 1 := by exact_mod_cast h2
        omega
      have hidx : r.length < (Direction.sortR (x :: r)).length := by omega
      simp only [htop, if_true, List.getElem?_map, List.getElem?_eq_getElem hidx, Option.map_some, lerp_fin, hpm,
        List.getD_eq_getElem?_getD, Nat.min_eq_right (Nat.le_succ _), Nat.add_sub_cancel, Option.getD_some]
      congr 1; ring
    · have hlt : v < (r.length : Rat) := not_le.mp htop
      have hp1 : p + 1 ≤ r.length := by
        have : (p : Rat) < (r.length : Rat) := lt_of_le_of_lt hf1 hlt
        have : p < r.length := by exact_mod_cast this
        omega
      have hi0 : p < (Direction.sortR (x :: r)).length := by omega
      have hi1 : p + 1 < (Direction.sortR (x :: r)).length := by omega
      have hmin : min (p + 1) (r.length + 1 - 1) = p + 1 := by omega
      simp only [htop, if_false, List.getElem?_map, List.getElem?_eq_getElem hi0, List.getElem?_eq_getElem hi1,
        Option.map_some, lerp_fin, List.getD_eq_getElem?_getD, hmin, Option.getD_some]

/-- **numpy's percentile mirrors on values without ±inf**: `perc(-v, q) = -perc(v, 100 - q)`.  The tie-break that
makes it go through: both `_lerp` branches (`a + d·t` below one half, `b - d·(1-t)` from one half on) are the
same number `a + (b-a)·t` for finite neighbours, so which branch the mirrored `t' = 1 - t` falls into does not
matter — with an infinite neighbour it does (`percentile_mirror_fails_with_inf`). -/
theorem npPercentile_neg (vals : List XVal) (q : Rat) (h : NoInf vals) (hq0 : 0 ≤ q) (hq1 : q ≤ 100) :
    npPercentile (vals.map xneg) q = xneg (npPercentile vals (100 - q)) := by
  rw [npPercentile_eq_percLin _ q (NoInf_neg vals h) hq0 hq1,
    npPercentile_eq_percLin vals (100 - q) h (by linarith) (by linarith), finOf_neg]
  cases hl : finOf vals with
  | nil => rfl
  | cons x r =>
    simp only [Direction.negL, List.map_cons]
    have := Direction.percLin_mirror (Direction.sortR (x :: r)) q (by
      intro he; have := congrArg List.length he; simp at this) hq0 hq1
    rw [this, ← Direction.sortR_negL]
    simp [xneg, Direction.negL]

/-! ### PercentilePruner / MedianPruner -/

theorem bestOverSteps_mirror (t : PTrial) : bestOverSteps (negT t) .minimize = xneg (bestOverSteps t .maximize) := by
  simp only [bestOverSteps, interValues_negT, nanMin_neg]

/-- by construction since the repair of F41: under MAXIMIZE the source negates, takes the percentile at `q`, negates -/
theorem percentileOverTrials_mirror (completed : List PTrial) (step : Int) (q : Rat) (nMin : Nat) :
    percentileOverTrials (completed.map negT) .minimize step q nMin =
      xneg (percentileOverTrials completed .maximize step q nMin) := by
  unfold percentileOverTrials
  simp only [valuesAtStep_neg, List.length_map]
  split
  · rfl
  · simp

theorem percentilePrune_mirror (c : PercentileCfg) (trials : List PTrial) (t : PTrial) :
    percentilePrune c .minimize (trials.map negT) (negT t) = percentilePrune c .maximize trials t := by
  unfold percentilePrune
  simp only [completedTrials_neg, List.length_map, lastStep_negT, interSteps_negT, bestOverSteps_mirror, xisNan_xneg]
  split
  · rfl
  split
  · rfl
  cases lastStep t.inter with
  | none => rfl
  | some step =>
    simp only [percentileOverTrials_mirror, xisNan_xneg, xlt_xneg]

/-- the PRE-F41 formulation (`percentile = 100 - percentile` on the raw values) mirrors only without ±inf reports -/
theorem percentileOverTrialsOld_mirror (completed : List PTrial) (step : Int) (q : Rat) (nMin : Nat)
    (h : NoInf (valuesAtStep completed step)) (hq0 : 0 ≤ q) (hq1 : q ≤ 100) :
    percentileOverTrialsOld (completed.map negT) .minimize step q nMin =
      xneg (percentileOverTrialsOld completed .maximize step q nMin) := by
  unfold percentileOverTrialsOld
  simp only [valuesAtStep_neg, List.length_map]
  split
  · rfl
  · exact npPercentile_neg _ q h hq0 hq1

/-! ### SuccessiveHalvingPruner -/

/-- `XVal.le` with NaN as the greatest element: total and transitive on all of `XVal` -/
def leT (a b : XVal) : Bool := XVal.le a b || xisNan b

theorem leT_total (a b : XVal) : leT a b = true ∨ leT b a = true := by
  cases a <;> cases b <;> simp [leT, XVal.le, xisNan]
  exact le_total _ _

theorem leT_trans (a b c : XVal) : leT a b = true → leT b c = true → leT a c = true := by
  cases a <;> cases b <;> cases c <;> simp [leT, XVal.le, xisNan]
  exact fun h1 h2 => le_trans h1 h2

theorem sortX_pairwise (l : List XVal) (h : ∀ v ∈ l, xisNan v = false) :
    (sortX l).Pairwise (fun a b => XVal.le a b = true) := by
  have hc : sortX l = Direction.sortBy leT l := by
    unfold sortX
    rw [sortBy_eq]
    apply TpeSplit.sortBy_congr
    intro a ha b hb
    simp [leT, h b hb]
  rw [hc]
  have hp := Direction.sortBy_pairwise leT leT_trans leT_total l
  refine hp.imp_of_mem ?_
  intro a b ha hb hab
  have hb' := h b ((Direction.sortBy_perm leT l).subset hb)
  simpa [leT, hb'] using hab

theorem xle_antisymm (a b : XVal) (h1 : XVal.le a b = true) (h2 : XVal.le b a = true) : a = b := by
  cases a <;> cases b <;> simp [XVal.le] at h1 h2 ⊢
  exact le_antisymm h1 h2

theorem sortX_neg (l : List XVal) (h : ∀ v ∈ l, xisNan v = false) :
    sortX (l.map xneg) = (sortX l).reverse.map xneg := by
  apply List.Perm.eq_of_pairwise (le := fun a b => XVal.le a b = true)
  · intro a b _ _ h1 h2; exact xle_antisymm a b h1 h2
  · apply sortX_pairwise
    intro v hv
    obtain ⟨u, hu, rfl⟩ := List.mem_map.mp hv
    simp [h u hu]
  · rw [List.pairwise_map, List.pairwise_reverse]
    exact (sortX_pairwise l h).imp (fun {a b} hab => by rw [xle_xneg]; exact hab)
  · unfold sortX
    rw [sortBy_eq, sortBy_eq]
    exact (Direction.sortBy_perm _ _).trans (((List.reverse_perm _).trans (Direction.sortBy_perm _ l)).map _).symm

theorem isPromotable_mirror (v : XVal) (comp : List XVal) (eta : Nat) (h : ∀ u ∈ comp, xisNan u = false) :
    isPromotable? (xneg v) (comp.map xneg) eta .minimize = isPromotable? v comp eta .maximize := by
  unfold isPromotable?
  simp only [List.length_map, sortX_neg comp h, List.getElem?_map]
  have hlen : (sortX comp).length = comp.length := length_sortBy _ _
  generalize promotableIdx comp.length eta = idx
  by_cases hi : idx + 1 ≤ (sortX comp).length
  · have : idx < (sortX comp).length := by omega
    simp only [hi, if_true, List.getElem?_reverse this]
    have e : (sortX comp).length - 1 - idx = (sortX comp).length - (idx + 1) := by omega
    rw [e]
    cases (sortX comp)[(sortX comp).length - (idx + 1)]? with
    | none => rfl
    | some c => simp [xle_xneg]
  · simp only [hi, if_false]
    have : (sortX comp).reverse.length ≤ idx := by simp; omega
    rw [List.getElem?_eq_none this]
    rfl

theorem competingValues_neg (trials : List PTrial) (rung : Nat) (v : XVal) :
    competingValues (trials.map negT) rung (xneg v) = (competingValues trials rung v).map xneg := by
  unfold competingValues
  rw [List.filterMap_map, List.map_append, List.map_filterMap]
  congr 1
  congr 1
  funext t
  simp [Function.comp, negT, rungGet_neg]

/-- no `completed_rung_k` attribute holds NaN (true in every reachable study: the pruner returns before storing a NaN) -/
def NoNanRungs (trials : List PTrial) : Prop := ∀ t ∈ trials, ∀ p ∈ t.rungs, xisNan p.2 = false

theorem competing_notNan (trials : List PTrial) (rung : Nat) (v : XVal) (h : NoNanRungs trials) (hv : xisNan v = false) :
    ∀ u ∈ competingValues trials rung v, xisNan u = false := by
  intro u hu
  unfold competingValues at hu
  rcases List.mem_append.mp hu with hu | hu
  · obtain ⟨t, ht, hg⟩ := List.mem_filterMap.mp hu
    exact h t ht _ (rungGet_mem hg)
  · simp at hu; rw [hu]; exact hv

theorem shLoop_mirror (c : SHCfg) (m : Nat) (trials : List PTrial) (step : Int) (v : XVal) (h : NoNanRungs trials) :
    ∀ (fuel rung : Nat), shLoop c m .minimize (trials.map negT) step (xneg v) fuel rung =
      shLoop c m .maximize trials step v fuel rung := by
  intro fuel
  induction fuel with
  | zero => intro rung; rfl
  | succ fuel ih =>
    intro rung
    simp only [shLoop, xisNan_xneg, competingValues_neg, List.length_map]
    split
    · rfl
    split
    · rfl
    rename_i _ hn
    have hv : xisNan v = false := by simpa using hn
    split
    · rfl
    rw [isPromotable_mirror v _ c.eta (competing_notNan trials rung v h hv), ih]

theorem hasRung_neg (l : List (Nat × XVal)) (k : Nat) : hasRung (l.map (fun p => (p.1, xneg p.2))) k = hasRung l k := by
  unfold hasRung; rw [rungGet_neg]; cases rungGet l k <;> rfl

theorem currentRungFrom_neg (l : List (Nat × XVal)) : ∀ (f k : Nat),
    currentRungFrom (l.map (fun p => (p.1, xneg p.2))) f k = currentRungFrom l f k := by
  intro f
  induction f with
  | zero => intro k; rfl
  | succ f ih => intro k; simp only [currentRungFrom, hasRung_neg, ih]

theorem estimateMinResource_neg (trials : List PTrial) : estimateMinResource (trials.map negT) = estimateMinResource trials := by
  unfold estimateMinResource
  simp only [completedTrials_neg, List.filterMap_map]
  have : ((fun t => lastStep t.inter) ∘ negT) = (fun t => lastStep t.inter) := by funext t; simp
  rw [this]

/-- the mirrored result: the value written to `completed_rung_k` is the negated one -/
def negR (r : SHResult) : SHResult := { r with value := xneg r.value }

theorem shPrune_mirror (c : SHCfg) (trials : List PTrial) (t : PTrial) (h : NoNanRungs trials) :
    shPrune c .minimize (trials.map negT) (negT t) = negR (shPrune c .maximize trials t) := by
  unfold shPrune
  simp only [lastStep_negT]
  cases lastStep t.inter with
  | none => rfl
  | some step =>
    have hcr : currentRung (negT t).rungs = currentRung t.rungs := by
      unfold currentRung negT; simp only [List.length_map]; exact currentRungFrom_neg _ _ _
    have hig : interGet (negT t).inter step = (interGet t.inter step).map xneg := interGet_neg _ _
    simp only [hcr, hig]
    cases interGet t.inter step with
    | none => rfl
    | some v =>
      simp only [Option.map_some]
      have hres : resolveMinResource c (trials.map negT) = resolveMinResource c trials := by
        unfold resolveMinResource; rw [estimateMinResource_neg]
      rw [hres]
      cases resolveMinResource c trials with
      | none => rfl
      | some m =>
        simp only [shLoop_mirror c m trials step v h]
        cases shLoop c m .maximize trials step v (step.toNat + 1) (currentRung t.rungs) with
        | none => rfl
        | some r => obtain ⟨b, hi⟩ := r; rfl

/-! ### HyperbandPruner -/

theorem zipIdx_map_negT (l : List PTrial) (k : Nat) :
    (l.map negT).zipIdx k = (l.zipIdx k).map (fun p => (negT p.1, p.2)) := by
  induction l generalizing k with
  | nil => rfl
  | cons x t ih => simp [List.zipIdx_cons, ih]

theorem bracketTrials_neg (nb eta : Nat) (crc : Nat → Nat) (b : Nat) (trials : List PTrial) :
    bracketTrials nb eta crc b (trials.map negT) = (bracketTrials nb eta crc b trials).map negT := by
  unfold bracketTrials
  rw [zipIdx_map_negT, List.filter_map, List.map_map, List.map_map]
  rfl

theorem NoNanRungs_bracket (nb eta : Nat) (crc : Nat → Nat) (b : Nat) (trials : List PTrial) (h : NoNanRungs trials) :
    NoNanRungs (bracketTrials nb eta crc b trials) := by
  intro t ht
  obtain ⟨i, hi⟩ := mem_bracketTrials ht
  exact h t (List.mem_of_getElem? hi)

theorem hbPrune_mirror (c : HBCfg) (crc : Nat → Nat) (trials : List PTrial) (n : Nat) (t : PTrial) (h : NoNanRungs trials) :
    hbPrune c crc .minimize (trials.map negT) n (negT t) = negR (hbPrune c crc .maximize trials n t) := by
  unfold hbPrune
  cases c.nBrackets with
  | none => rfl
  | some nb =>
    simp only
    split
    · rfl
    cases bracketId nb c.eta (crc n) with
    | none => rfl
    | some b =>
      simp only [bracketTrials_neg]
      exact shPrune_mirror _ _ t (NoNanRungs_bracket nb c.eta crc b trials h)

/-! ### every pruner -/

/-- the pruner of the mirrored run: thresholds mirrored (`lower' = -upper`, `upper' = -lower`), everything else kept -/
def mirrorP : Pruner → Pruner
  | .threshold c => .threshold (mirrorThreshold c)
  | .patient w k d => .patient (mirrorP w) k d
  | p => p

theorem prune_mirror (crc : Nat → Nat) (trials : List PTrial) (n : Nat) (t : PTrial) (p : Pruner) (hr : NoNanRungs trials) :
    prune crc ⟨.minimize, trials.map negT⟩ n (negT t) (mirrorP p) = negR (prune crc ⟨.maximize, trials⟩ n t p) := by
  induction p with
  | nop => rfl
  | percentile c =>
    simp only [mirrorP, prune, percentilePrune_mirror c trials t]
    rfl
  | threshold c =>
    simp only [mirrorP, prune, thresholdPrune_mirror]
    rfl
  | sh c => exact shPrune_mirror c trials t hr
  | hyperband c => exact hbPrune_mirror c crc trials n t hr
  | patient w k dl ih =>
    simp only [mirrorP, prune, patientMaybe_mirror]
    split
    · exact ih
    · rfl
  | patientNone k dl =>
    simp only [mirrorP, prune, patientMaybe_mirror]
    rfl

end OptunaVerif.Pruners
