import OptunaVerif.Lemmas.Storage
import OptunaVerif.Model.Queue
/-! Where can a WAITING state come from?  (helper for C04) -/
namespace OptunaVerif.Queue
open OptunaVerif OptunaVerif.Storage

/-- an update of trial `tid0` by a function that keeps the state -/
theorem state_of_upd (s : Spec) (tid0 tid : Nat) (f : TrialS → TrialS) (t' : TrialS)
    (h : (s.updTrial tid0 f).trials[tid]? = some t') (hf : ∀ t, (f t).state = t.state) :
    ∃ t, s.trials[tid]? = some t ∧ t.state = t'.state := by
  rw [updTrial_trials, updAt_getElem?] at h
  split at h
  · cases hh : s.trials[tid]? with
    | none => simp [hh] at h
    | some t =>
      simp only [hh, Option.map_some, Option.some.injEq] at h
      exact ⟨t, rfl, by rw [← h, hf]⟩
  · exact ⟨t', h, rfl⟩

/-- The state of a trial record after one storage call is its state before, unless the record is
new or the call is `set_trial_state_values` on that very trial. -/
theorem step_state (s : Spec) (op : Op) (tid : Nat) (t' : TrialS)
    (h : (Storage.step s op).1.trials[tid]? = some t') :
    (∃ t, s.trials[tid]? = some t ∧ t.state = t'.state) ∨ s.trials[tid]? = none ∨
      (∃ st v, op = .setTrialStateValues tid st v ∧ t'.state = st) := by
  cases op with
  | createTrial sid tmpl ir =>
    simp only [Storage.step] at h
    split at h
    · exact .inl ⟨t', h, rfl⟩
    · split at h
      · exact .inl ⟨t', h, rfl⟩
      · simp only at h
        rcases Nat.lt_or_ge tid s.trials.length with hlt | hge
        · rw [List.getElem?_append_left hlt] at h
          exact .inl ⟨t', h, rfl⟩
        · exact .inr (.inl (List.getElem?_eq_none hge))
  | setTrialStateValues tid0 st v =>
    simp only [Storage.step] at h
    split at h
    · exact .inl ⟨t', h, rfl⟩
    · split at h
      · exact .inl ⟨t', h, rfl⟩
      · simp only at h
        rw [updTrial_trials, updAt_getElem?] at h
        split at h
        · rename_i heq
          subst heq
          cases hh : s.trials[tid]? with
          | none => simp [hh] at h
          | some t =>
            simp only [hh, Option.map_some, Option.some.injEq] at h
            exact .inr (.inr ⟨st, v, rfl, by rw [← h]⟩)
        · exact .inl ⟨t', h, rfl⟩
  | setTrialParam tid0 name p ir =>
    simp only [Storage.step] at h
    repeat' split at h
    all_goals first
      | exact .inl ⟨t', h, rfl⟩
      | (simp only [updStudy_trials] at h
         exact .inl (state_of_upd s tid0 tid _ t' h (fun _ => rfl)))
  | setTrialInter tid0 stp v =>
    simp only [Storage.step] at h
    split at h
    · exact .inl ⟨t', h, rfl⟩
    · exact .inl (state_of_upd s tid0 tid _ t' h (fun _ => rfl))
  | setTrialUserAttr tid0 k v =>
    simp only [Storage.step] at h
    split at h
    · exact .inl ⟨t', h, rfl⟩
    · exact .inl (state_of_upd s tid0 tid _ t' h (fun _ => rfl))
  | setTrialSystemAttr tid0 k v =>
    simp only [Storage.step] at h
    split at h
    · exact .inl ⟨t', h, rfl⟩
    · exact .inl (state_of_upd s tid0 tid _ t' h (fun _ => rfl))
  | _ =>
    simp only [Storage.step] at h
    repeat' split at h
    all_goals exact .inl ⟨t', h, rfl⟩

end OptunaVerif.Queue
