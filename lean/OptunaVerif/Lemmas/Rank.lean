import OptunaVerif.Model.Rank
import OptunaVerif.Lemmas.Hypervolume

/-! Lemmas for C15 (non-domination rank): front exactness on unique-lexsorted arrays and the peeling loop. -/
namespace OptunaVerif.Rank
open OptunaVerif.Hypervolume List

/-- strict Pareto dominance -/
def Dom (q p : Pt) : Prop := Le q p ∧ q ≠ p

theorem Le.antisymm {p q : Pt} (h1 : Le p q) (h2 : Le q p) : p = q := by
  induction h1 with
  | nil => rfl
  | cons hab _ ih =>
    cases h2 with
    | cons hba h2' => rw [le_antisymm hab hba, ih h2']

theorem anyLt_not_le {a b : Pt} (h : anyLt b a = true) : ¬ Le a b := by
  intro hle
  induction hle with
  | nil => simp [anyLt] at h
  | cons hab _ ih =>
    simp only [anyLt, Bool.or_eq_true, decide_eq_true_eq] at h
    rcases h with h | h
    · omega
    · exact ih h

theorem Le.y1 {a b : Pt} (h : Le a b) : y1 a ≤ y1 b := by
  cases h with
  | nil => simp [Hypervolume.y1]
  | cons _ h =>
    cases h with
    | nil => simp [Hypervolume.y1]
    | cons h _ => simpa [Hypervolume.y1] using h

theorem frontNd_pairwise (L : List Pt) : (frontNd id L).Pairwise (fun a b => ¬ Le a b) := by
  induction hn : L.length using Nat.strong_induction_on generalizing L with
  | _ n ih =>
    cases L with
    | nil => simp
    | cons h t =>
      subst hn
      rw [frontNd_cons]
      refine List.pairwise_cons.2 ⟨?_, ih _ (Nat.lt_succ_of_le (List.length_filter_le _ _)) _ rfl⟩
      intro b hb
      have := (frontNd_sublist id _).subset hb
      have := (List.mem_filter.1 this).2
      exact fun hle => anyLt_not_le this hle.tail

theorem front2dGo_pairwise (m : Int) (L : List Pt) :
    (front2dGo id m L).Pairwise (fun a b => y1 b < y1 a) ∧ ∀ p ∈ front2dGo id m L, y1 p < m := by
  induction L generalizing m with
  | nil => simp [front2dGo]
  | cons q t ih =>
    simp only [front2dGo, id]
    split
    · rename_i h
      obtain ⟨h1, h2⟩ := ih (y1 q)
      refine ⟨List.pairwise_cons.2 ⟨fun p hp => h2 p hp, h1⟩, ?_⟩
      intro p hp
      rcases List.mem_cons.1 hp with rfl | hp
      · exact h
      · exact lt_trans (h2 p hp) h
    · exact ih m

theorem frontSorted_pairwise (d : Nat) (L : List Pt) :
    (frontSorted id d L).Pairwise (fun a b => ¬ Le a b) := by
  unfold frontSorted
  split
  · cases L <;> simp [front1d]
  · split
    · cases L with
      | nil => simp [front2d]
      | cons h t =>
        obtain ⟨h1, h2⟩ := front2dGo_pairwise (y1 h) t
        refine List.pairwise_cons.2 ⟨fun p hp hle => ?_, h1.imp (fun hlt hle => ?_)⟩
        · have := h2 p hp; have := Le.y1 hle; simp only [id] at *; omega
        · have := Le.y1 hle; omega
    · exact frontNd_pairwise L

/-- on a unique-lexsorted array the selected rows are mutually non-dominating -/
theorem frontSorted_antichain (d : Nat) (L : List Pt) (hL : LexSorted L) :
    ∀ a ∈ frontSorted id d L, ∀ b ∈ frontSorted id d L, Le a b → a = b := by
  have hsub := frontSorted_sublist d L
  have h1 := frontSorted_pairwise d L
  have h2 : (frontSorted id d L).Pairwise (fun a b => ¬ Le b a) :=
    (List.Pairwise.sublist hsub hL).imp (fun h => lexLt_not_le h)
  intro a ha b hb hle
  exact List.Pairwise.forall_of_forall_of_flip (R := fun a b => Le a b → a = b)
    (fun a _ _ => rfl) (h1.imp (fun h hh => absurd hh h)) (h2.imp (fun h hh => absurd hh h)) ha hb hle

/-- **Front exactness**: on a unique-lexsorted array `_is_pareto_front(…, True)` selects exactly the
rows that no other row dominates. -/
theorem mem_frontSorted_iff (r : Pt) (L : List Pt) (hL : LexSorted L) (hb : ∀ q ∈ L, Le q r) (p : Pt) :
    p ∈ frontSorted id r.length L ↔ p ∈ L ∧ ∀ q ∈ L, ¬ Dom q p := by
  have hsub := frontSorted_sublist r.length L
  constructor
  · intro hp
    refine ⟨hsub.subset hp, fun q hq hdom => ?_⟩
    obtain ⟨p', hp', hle⟩ := frontSorted_cover r L hb hL.sorted0 q hq
    have := frontSorted_antichain r.length L hL p' hp' p hp (hle.trans hdom.1)
    subst this
    exact hdom.2 (Le.antisymm hdom.1 hle)
  · rintro ⟨hp, hnd⟩
    obtain ⟨p', hp', hle⟩ := frontSorted_cover r L hb hL.sorted0 p hp
    by_cases h : p' = p
    · subst h; exact hp'
    · exact absurd ⟨hle, h⟩ (hnd p' (hsub.subset hp'))

/-! ## the peeling loop -/

theorem lookupRank_map_append (A : List Pt) (k : Nat) (B : List (Pt × Nat)) (p : Pt) :
    lookupRank (A.map (fun p => (p, k)) ++ B) p = if p ∈ A then k else lookupRank B p := by
  induction A with
  | nil => simp
  | cons a A ih =>
    by_cases h : a = p
    · subst h
      simp [lookupRank]
    · have h' : (a == p) = false := by simpa using h
      have : lookupRank ((a :: A).map (fun p => (p, k)) ++ B) p
          = lookupRank (A.map (fun p => (p, k)) ++ B) p := by
        simp [lookupRank, h']
      rw [this, ih]
      have : p ∈ a :: A ↔ p ∈ A := by
        simp only [List.mem_cons]; constructor
        · rintro (rfl | h2); exact absurd rfl h; exact h2
        · exact Or.inr
      simp only [this]

theorem lookupRank_map (A : List Pt) (k : Nat) (p : Pt) (hp : p ∈ A) :
    lookupRank (A.map (fun p => (p, k))) p = k := by
  have := lookupRank_map_append A k [] p
  simpa [hp] using this

theorem head_mem_frontSorted (d : Nat) (h : Pt) (t : List Pt) : h ∈ frontSorted id d (h :: t) := by
  unfold frontSorted
  split
  · simp [front1d]
  · split
    · simp [front2d]
    · rw [frontNd_cons]; simp

theorem removeAll_sublist (L F : List Pt) : (removeAll L F).Sublist L := filter_sublist

theorem mem_removeAll (L F : List Pt) (p : Pt) : p ∈ removeAll L F ↔ p ∈ L ∧ p ∉ F := by
  simp [removeAll]

theorem removeAll_length_lt (d : Nat) (L : List Pt) (hne : L ≠ []) :
    (removeAll L (frontSorted id d L)).length < L.length := by
  cases L with
  | nil => exact absurd rfl hne
  | cons h t =>
    unfold removeAll
    apply List.length_filter_lt_length_iff_exists.2
    exact ⟨h, List.mem_cons_self, by simpa using head_mem_frontSorted d h t⟩

/-- number of iterations of the `while` loop -/
def iters (d nb nU : Nat) : Nat → List Pt → Nat
  | 0, _ => 0
  | f + 1, rem =>
    if nU - rem.length < nb then 1 + iters d nb nU f (removeAll rem (frontSorted id d rem)) else 0

/-- Invariant of the peeling loop, for any `n_below`.  With `ρ` the ranks written by the loop started at
rank `k` on the remaining unique-lexsorted rows `rem`, and `K` the rank at which it stops:
(1) `k ≤ ρ p ≤ K`; (2) for every level `j < K` the rows of rank `j` are exactly the rows not dominated
by a row of rank `≥ j`; (3) when it stops at least `nb` unique rows have a rank below `K`;
(4) one level earlier fewer than `nb` had. -/
theorem peelLoop_spec (r : Pt) (nb nU : Nat) (hnb : nb ≤ nU) :
    ∀ (fuel k : Nat) (rem : List Pt), rem.length ≤ fuel → LexSorted rem → (∀ q ∈ rem, Le q r) →
      let ρ := lookupRank (peelLoop r.length nb nU fuel k rem)
      let K := k + iters r.length nb nU fuel rem
      (∀ p ∈ rem, k ≤ ρ p ∧ ρ p ≤ K) ∧
      (∀ p ∈ rem, ∀ j, k ≤ j → j < K → j ≤ ρ p → (ρ p = j ↔ ∀ q ∈ rem, j ≤ ρ q → ¬ Dom q p)) ∧
      nb ≤ nU - (rem.filter (fun p => ρ p = K)).length ∧
      (k < K → nU - (rem.filter (fun p => K - 1 ≤ ρ p)).length < nb) := by
  intro fuel
  induction fuel with
  | zero =>
    intro k rem hlen _ _
    have : rem = [] := by simpa using hlen
    subst this
    simp [iters, hnb]
  | succ fuel ih =>
    intro k rem hlen hlex hb
    by_cases hc : nU - rem.length < nb
    · -- one more round
      have hrem' := removeAll_sublist rem (frontSorted id r.length rem)
      have hlen' : (removeAll rem (frontSorted id r.length rem)).length ≤ fuel := by
        by_cases hne : rem = []
        · subst hne; simp [removeAll]
        · have := removeAll_length_lt r.length rem hne; omega
      obtain ⟨i1, i2, i3, i4⟩ := ih (k + 1) _ hlen' (List.Pairwise.sublist hrem' hlex)
        (fun q hq => hb q (hrem'.subset hq))
      simp only [peelLoop, hc, if_true, iters]
      set front := frontSorted id r.length rem with hfront
      set rem' := removeAll rem front with hrem
      set ρ' := lookupRank (peelLoop r.length nb nU fuel (k + 1) rem') with hρ'
      set it := iters r.length nb nU fuel rem' with hit
      have hρ : ∀ p, lookupRank (front.map (fun p => (p, k)) ++ peelLoop r.length nb nU fuel (k + 1) rem') p
          = if p ∈ front then k else ρ' p := fun p => lookupRank_map_append front k _ p
      simp only [hρ]
      have hK : k + (1 + it) = k + 1 + it := by omega
      rw [hK]
      have hsplit : ∀ p ∈ rem, p ∈ front ∨ (p ∉ front ∧ p ∈ rem') := by
        intro p hp
        by_cases h : p ∈ front
        · exact Or.inl h
        · exact Or.inr ⟨h, (mem_removeAll _ _ _).2 ⟨hp, h⟩⟩
      have hfrontmem := mem_frontSorted_iff r rem hlex hb
      refine ⟨?_, ?_, ?_, ?_⟩
      · intro p hp
        rcases hsplit p hp with h | ⟨h, hp'⟩
        · simp only [h, if_true]; omega
        · simp only [h, if_false]
          have := i1 p hp'; omega
      · intro p hp j hkj hjK hjρ
        rcases hsplit p hp with h | ⟨h, hp'⟩
        · simp only [h, if_true] at hjρ ⊢
          have hjk : j = k := by omega
          subst hjk
          simp only [true_iff]
          intro q hq _
          exact ((hfrontmem p).1 h).2 q hq
        · simp only [h, if_false] at hjρ ⊢
          by_cases hjk : j = k
          · subst hjk
            have h1 := (i1 p hp').1
            constructor
            · intro h2; omega
            · intro hall
              exfalso
              have : ¬ (p ∈ rem ∧ ∀ q ∈ rem, ¬ Dom q p) := fun hh => h ((hfrontmem p).2 hh)
              apply this
              refine ⟨hp, fun q hq => hall q hq ?_⟩
              rcases hsplit q hq with hq1 | ⟨hq1, hq2⟩
              · simp [hq1]
              · simp only [hq1, if_false]; have := (i1 q hq2).1; omega
          · have hkj' : k + 1 ≤ j := by omega
            rw [i2 p hp' j hkj' hjK hjρ]
            constructor
            · intro hall q hq hjq
              rcases hsplit q hq with hq1 | ⟨hq1, hq2⟩
              · simp only [hq1, if_true] at hjq; omega
              · simp only [hq1, if_false] at hjq
                exact hall q hq2 hjq
            · intro hall q hq2 hjq
              have hq := hrem'.subset hq2
              have hq1 : q ∉ front := ((mem_removeAll _ _ _).1 hq2).2
              exact hall q hq (by simpa [hq1] using hjq)
      · have : rem.filter (fun p => decide ((if p ∈ front then k else ρ' p) = k + 1 + it))
            = rem'.filter (fun p => decide (ρ' p = k + 1 + it)) := by
          rw [hrem, removeAll, List.filter_filter]
          apply List.filter_congr
          intro p _
          by_cases h : p ∈ front
          · have : k ≠ k + 1 + it := by omega
            simp [h, this]
          · simp [h]
        rw [this]
        exact i3
      · intro _
        by_cases hit0 : it = 0
        · have : rem.filter (fun p => decide (k + 1 + it - 1 ≤ (if p ∈ front then k else ρ' p))) = rem := by
            apply List.filter_eq_self.2
            intro p hp
            rcases hsplit p hp with h | ⟨h, hp'⟩
            · simp [h, hit0]
            · have := (i1 p hp').1
              simp only [h, if_false, decide_eq_true_eq]; omega
          rw [this]; exact hc
        · have : rem.filter (fun p => decide (k + 1 + it - 1 ≤ (if p ∈ front then k else ρ' p)))
              = rem'.filter (fun p => decide (k + 1 + it - 1 ≤ ρ' p)) := by
            rw [hrem, removeAll, List.filter_filter]
            apply List.filter_congr
            intro p _
            by_cases h : p ∈ front
            · simp [h, hit0]
            · simp [h]
          rw [this]
          exact i4 (by omega)
    · -- the loop stops here
      simp only [peelLoop, hc, if_false, iters, Nat.add_zero]
      have hρ : ∀ p ∈ rem, lookupRank (rem.map (fun p => (p, k))) p = k :=
        fun p hp => lookupRank_map rem k p hp
      refine ⟨fun p hp => by rw [hρ p hp]; omega, fun p hp j h1 h2 => by omega, ?_, fun h => by omega⟩
      have : rem.filter (fun p => decide (lookupRank (rem.map (fun p => (p, k))) p = k)) = rem := by
        apply List.filter_eq_self.2
        intro p hp
        simp [hρ p hp]
      rw [this]
      omega

/-! ## peeling specification and the top-level functions -/

theorem le_pmax_left {p q : Pt} (h : p.length = q.length) : Le p (pmax p q) := by
  induction p generalizing q with
  | nil => cases q with
    | nil => exact Forall₂.nil
    | cons _ _ => simp at h
  | cons a p ih =>
    cases q with
    | nil => simp at h
    | cons b q => exact Forall₂.cons (le_max_left _ _) (ih (by simpa using h))

theorem le_pmax_right {p q : Pt} (h : p.length = q.length) : Le q (pmax p q) := by
  induction p generalizing q with
  | nil => cases q with
    | nil => exact Forall₂.nil
    | cons _ _ => simp at h
  | cons a p ih =>
    cases q with
    | nil => simp at h
    | cons b q => exact Forall₂.cons (le_max_right _ _) (ih (by simpa using h))

/-- rows of one common length have a common upper bound (used only to carry the length information) -/
theorem exists_upper (d : Nat) (S : List Pt) (hS : ∀ q ∈ S, q.length = d) :
    ∃ r : Pt, r.length = d ∧ ∀ q ∈ S, Le q r := by
  induction S with
  | nil => exact ⟨List.replicate d 0, by simp, fun q hq => by cases hq⟩
  | cons p S ih =>
    obtain ⟨r, hr, hle⟩ := ih (fun q hq => hS q (List.mem_cons_of_mem _ hq))
    have hp := hS p List.mem_cons_self
    refine ⟨pmax p r, ?_, ?_⟩
    · rw [← (le_pmax_left (hp.trans hr.symm)).length_eq, hp]
    · intro q hq
      rcases List.mem_cons.1 hq with rfl | hq
      · exact le_pmax_left (hp.trans hr.symm)
      · exact (hle q hq).trans (le_pmax_right (hp.trans hr.symm))

/-- `ρ` **is the rank given by repeatedly peeling the Pareto front of `S`**: for every level `j`, the
rows of rank `j` are exactly the rows (of rank `≥ j`) that no row of rank `≥ j` dominates. -/
def IsPeeling (S : List Pt) (ρ : Pt → Nat) : Prop :=
  ∀ p ∈ S, ∀ j, j ≤ ρ p → (ρ p = j ↔ ∀ q ∈ S, j ≤ ρ q → ¬ Dom q p)

/-- peeling stopped at level `K`: exact below `K`, everything else gets `K` -/
def IsPeelingUpTo (S : List Pt) (ρ : Pt → Nat) (K : Nat) : Prop :=
  (∀ p ∈ S, ρ p ≤ K) ∧
  ∀ p ∈ S, ∀ j, j < K → j ≤ ρ p → (ρ p = j ↔ ∀ q ∈ S, j ≤ ρ q → ¬ Dom q p)

/-- The peeling rank is unique. -/
theorem isPeeling_unique (S : List Pt) (ρ ρ' : Pt → Nat) (h : IsPeeling S ρ) (h' : IsPeeling S ρ') :
    ∀ p ∈ S, ρ p = ρ' p := by
  -- by strong induction on the level: the two rank functions have the same level sets
  have key : ∀ n, ∀ p ∈ S, (ρ p = n ↔ ρ' p = n) := by
    intro n
    induction n using Nat.strong_induction_on with
    | _ n ih =>
      have hlow : ∀ q ∈ S, (n ≤ ρ q ↔ n ≤ ρ' q) := by
        intro q hq
        constructor
        · intro hn
          by_contra hc
          have := (ih (ρ' q) (by omega) q hq).2 rfl
          omega
        · intro hn
          by_contra hc
          have := (ih (ρ q) (by omega) q hq).1 rfl
          omega
      intro p hp
      constructor
      · intro hpn
        have hn' : n ≤ ρ' p := (hlow p hp).1 (by omega)
        rw [h' p hp n hn']
        intro q hq hnq
        exact (h p hp n (by omega)).1 hpn q hq ((hlow q hq).2 hnq)
      · intro hpn
        have hn' : n ≤ ρ p := (hlow p hp).2 (by omega)
        rw [h p hp n hn']
        intro q hq hnq
        exact (h' p hp n (by omega)).1 hpn q hq ((hlow q hq).1 hnq)
  intro p hp
  exact ((key (ρ p) p hp).1 rfl).symm

/-! ## one objective: dense rank in the sorted unique array -/

theorem LexSorted.nodup {L : List Pt} (h : LexSorted L) : L.Nodup :=
  List.Pairwise.imp (fun hlt heq => by subst heq; simp [lexLt_irrefl] at hlt) h

theorem lexLt_iff_idxOf {U : List Pt} (hU : LexSorted U) {p q : Pt} (hp : p ∈ U) (hq : q ∈ U) :
    lexLt q p = true ↔ U.idxOf q < U.idxOf p := by
  have hip := List.idxOf_lt_length_of_mem hp
  have hiq := List.idxOf_lt_length_of_mem hq
  have hgp : U[U.idxOf p] = p := List.getElem_idxOf hip
  have hgq : U[U.idxOf q] = q := List.getElem_idxOf hiq
  have hpw := List.pairwise_iff_getElem.1 hU
  constructor
  · intro hlt
    by_contra hc
    rcases Nat.lt_or_ge (U.idxOf p) (U.idxOf q) with h | h
    · have := hpw _ _ hip hiq h
      rw [hgp, hgq] at this
      have := lexLt_trans this hlt
      simp [lexLt_irrefl] at this
    · have : U.idxOf p = U.idxOf q := by omega
      have : p = q := by rw [← hgp, ← hgq]; simp [this]
      subst this
      simp [lexLt_irrefl] at hlt
  · intro h
    have := hpw _ _ hiq hip h
    rwa [hgp, hgq] at this

theorem dom_iff_lexLt_1d {p q : Pt} (hp : p.length = 1) (hq : q.length = 1) :
    Dom q p ↔ lexLt q p = true := by
  match p, hp, q, hq with
  | [a], _, [b], _ =>
    simp only [Dom, Le, forall₂_cons, Forall₂.nil, and_true, lexLt, Bool.and_false, Bool.or_false,
      decide_eq_true_eq, ne_eq, List.cons.injEq]
    omega

theorem isPeeling_idxOf (S : List Pt) (hS : ∀ q ∈ S, q.length = 1) :
    IsPeeling S (fun p => (uniqueLex S).idxOf p) := by
  have hU := lexSorted_uniqueLex 1 S hS
  intro p hp j hj
  have hpU := (mem_uniqueLex S p).2 hp
  constructor
  · intro hpj q hq hjq hdom
    have hqU := (mem_uniqueLex S q).2 hq
    have := (lexLt_iff_idxOf hU hpU hqU).1 ((dom_iff_lexLt_1d (hS p hp) (hS q hq)).1 hdom)
    simp only at hjq hpj
    omega
  · intro hall
    by_contra hne
    have hj' : j ≤ (uniqueLex S).idxOf p := hj
    have hne' : ¬ (uniqueLex S).idxOf p = j := hne
    have hlt : j < (uniqueLex S).idxOf p := by omega
    have hjU : j < (uniqueLex S).length := lt_trans hlt (List.idxOf_lt_length_of_mem hpU)
    have hqU : (uniqueLex S)[j] ∈ uniqueLex S := List.getElem_mem hjU
    have hq := (mem_uniqueLex S _).1 hqU
    have hidx : (uniqueLex S).idxOf (uniqueLex S)[j] = j := (LexSorted.nodup hU).idxOf_getElem j hjU
    apply hall _ hq (by simp only [hidx]; exact le_refl j)
    apply (dom_iff_lexLt_1d (hS p hp) (hS _ hq)).2
    apply (lexLt_iff_idxOf hU hpU hqU).2
    rw [hidx]; exact hlt

/-! ## `_calculate_nondomination_rank` -/

theorem clipNBelow_le (nb : Option Int) (n : Nat) : clipNBelow nb n ≤ n := by
  unfold clipNBelow
  split
  · split
    · exact le_refl _
    · exact min_le_right _ _
  · exact le_refl _

/-- `_calculate_nondomination_rank(S, n_below)` for any `n_below`: there is a stopping level `K` such that
ranks below `K` are the exact peeling ranks, all other rows get `K`; when `d ≠ 1` and the call is not
the trivial one, `K` is the first level at which at least `min n_below n_unique` unique rows are ranked. -/
theorem rankFn_upTo (d : Nat) (S : List Pt) (hS : ∀ q ∈ S, q.length = d) (nBelow : Option Int)
    (h1 : d ≠ 1) (ht : trivialCase S nBelow = false) :
    ∃ K, IsPeelingUpTo S (rankFn d S nBelow) K ∧
      clipNBelow nBelow (uniqueLex S).length
        ≤ (uniqueLex S).length - ((uniqueLex S).filter (fun p => rankFn d S nBelow p = K)).length ∧
      (0 < K → (uniqueLex S).length - ((uniqueLex S).filter (fun p => K - 1 ≤ rankFn d S nBelow p)).length
        < clipNBelow nBelow (uniqueLex S).length) := by
  obtain ⟨r, hr, hle⟩ := exists_upper d S hS
  subst hr
  have hU := lexSorted_uniqueLex r.length S hS
  have hbU : ∀ q ∈ uniqueLex S, Le q r := fun q hq => hle q ((mem_uniqueLex S q).1 hq)
  have hρ : rankFn r.length S nBelow = lookupRank (peelLoop r.length (clipNBelow nBelow (uniqueLex S).length)
      (uniqueLex S).length (uniqueLex S).length 0 (uniqueLex S)) := by
    funext p
    simp [rankFn, ht, h1]
  obtain ⟨i1, i2, i3, i4⟩ := peelLoop_spec r _ _ (clipNBelow_le nBelow _) (uniqueLex S).length 0
    (uniqueLex S) (le_refl _) hU hbU
  simp only [Nat.zero_add] at i1 i2 i3 i4
  rw [← hρ] at i1 i2 i3 i4
  refine ⟨_, ⟨fun p hp => (i1 p ((mem_uniqueLex S p).2 hp)).2, ?_⟩, i3, i4⟩
  intro p hp j hjK hjp
  rw [i2 p ((mem_uniqueLex S p).2 hp) j (Nat.zero_le _) hjK hjp]
  constructor
  · intro h q hq; exact h q ((mem_uniqueLex S q).2 hq)
  · intro h q hq; exact h q ((mem_uniqueLex S q).1 hq)

/-- **rank_eq_peeling**: without `n_below` the computed rank of every row is its peeling rank. -/
theorem rankFn_isPeeling (d : Nat) (S : List Pt) (hS : ∀ q ∈ S, q.length = d) :
    IsPeeling S (rankFn d S none) := by
  by_cases hne : S = []
  · subst hne; intro p hp; cases hp
  have ht : trivialCase S none = false := by
    cases S with
    | nil => exact absurd rfl hne
    | cons _ _ => simp [trivialCase]
  by_cases h1 : d = 1
  · subst h1
    have : rankFn 1 S none = fun p => (uniqueLex S).idxOf p := by
      funext p; simp [rankFn, ht]
    rw [this]
    exact isPeeling_idxOf S hS
  · obtain ⟨K, ⟨hK1, hK2⟩, h3, _⟩ := rankFn_upTo d S hS none h1 ht
    have hfil : (uniqueLex S).filter (fun p => decide (rankFn d S none p = K)) = [] := by
      have : clipNBelow none (uniqueLex S).length = (uniqueLex S).length := rfl
      rw [this] at h3
      have hlen := List.length_filter_le (fun p => decide (rankFn d S none p = K)) (uniqueLex S)
      exact List.eq_nil_of_length_eq_zero (by omega)
    intro p hp j hj
    have hlt : rankFn d S none p < K := by
      have h := hK1 p hp
      rcases Nat.lt_or_ge (rankFn d S none p) K with h' | h'
      · exact h'
      · have heq : rankFn d S none p = K := by omega
        have : p ∈ (uniqueLex S).filter (fun p => decide (rankFn d S none p = K)) :=
          List.mem_filter.2 ⟨(mem_uniqueLex S p).2 hp, by simpa using heq⟩
        rw [hfil] at this; cases this
    exact hK2 p hp j (by omega) hj

/-! ## constrained variant -/

/-- constrained domination of rows with a penalty (`none` = NaN = no constraint information):
feasible before infeasible before unknown; Pareto dominance among feasible and among unknown rows;
smaller penalty among infeasible rows. -/
def CDom (a b : Row) : Prop :=
  match classify a.2, classify b.2 with
  | .feasible, .feasible => Dom a.1 b.1
  | .feasible, _ => True
  | .infeasible, .infeasible => a.2.getD 0 < b.2.getD 0
  | .infeasible, .unknown => True
  | .unknown, .unknown => Dom a.1 b.1
  | _, _ => False

/-- `ρ` is the rank given by repeatedly peeling the constrained-non-dominated rows -/
def IsCPeeling (rows : List Row) (ρ : Row → Nat) : Prop :=
  ∀ e ∈ rows, ∀ j, j ≤ ρ e → (ρ e = j ↔ ∀ e' ∈ rows, j ≤ ρ e' → ¬ CDom e' e)

theorem topRank_aux (l : List Nat) (a : Nat) :
    a ≤ l.foldl (fun m x => max m (x + 1)) a ∧ (∀ x ∈ l, x < l.foldl (fun m x => max m (x + 1)) a) ∧
      (l.foldl (fun m x => max m (x + 1)) a = a ∨ ∃ x ∈ l, x + 1 = l.foldl (fun m x => max m (x + 1)) a) := by
  induction l generalizing a with
  | nil => simp
  | cons y l ih =>
    obtain ⟨h1, h2, h3⟩ := ih (max a (y + 1))
    simp only [List.foldl_cons]
    refine ⟨le_trans (le_max_left _ _) h1, ?_, ?_⟩
    · intro x hx
      rcases List.mem_cons.1 hx with rfl | hx
      · have := le_max_right a (x + 1); omega
      · exact h2 x hx
    · rcases h3 with h | ⟨x, hx, h⟩
      · rcases le_total a (y + 1) with hle | hle
        · right; exact ⟨y, List.mem_cons_self, by rw [h, max_eq_right hle]⟩
        · left; rw [h, max_eq_left hle]
      · right; exact ⟨x, List.mem_cons_of_mem _ hx, h⟩

theorem topRank_lt (l : List Nat) : ∀ x ∈ l, x < topRank l := (topRank_aux l 0).2.1

theorem topRank_attained (l : List Nat) (h : 0 < topRank l) : ∃ x ∈ l, x + 1 = topRank l := by
  rcases (topRank_aux l 0).2.2 with h0 | h0
  · unfold topRank at h; omega
  · exact h0

theorem rankFn_some_eq_none (d : Nat) (S : List Pt) (n : Int) (hpos : 0 < n)
    (hn : (uniqueLex S).length ≤ n.toNat) : rankFn d S (some n) = rankFn d S none := by
  funext p
  have ht : trivialCase S (some n) = trivialCase S none := by
    simp only [trivialCase]
    have : decide (n ≤ 0) = false := by simpa using hpos
    simp [this]
  have hc : clipNBelow (some n) (uniqueLex S).length = clipNBelow none (uniqueLex S).length := by
    simp only [clipNBelow]
    have : n ≠ 0 := by omega
    simp [this, hn]
  simp only [rankFn, ht, hc]

theorem rowsOf_length (rows : List Row) :
    rows.length = (rowsOf .feasible rows).length + (rowsOf .infeasible rows).length
      + (rowsOf .unknown rows).length := by
  induction rows with
  | nil => rfl
  | cons e rows ih =>
    simp only [rowsOf, List.filter_cons] at *
    cases h : classify e.2 <;> simp <;> omega

theorem uniqueLex_length_le (d : Nat) (S : List Pt) (hS : ∀ q ∈ S, q.length = d) :
    (uniqueLex S).length ≤ S.length := by
  have hnd := LexSorted.nodup (lexSorted_uniqueLex d S hS)
  have : (uniqueLex S).Subperm S :=
    List.Nodup.subperm hnd (fun p hp => (mem_uniqueLex S p).1 hp)
  exact this.length_le

theorem mem_rowsOf (c : PClass) (rows : List Row) (e : Row) :
    e ∈ rowsOf c rows ↔ e ∈ rows ∧ classify e.2 = c := by
  simp [rowsOf]

theorem dom_singleton (v w : Int) : Dom [v] [w] ↔ v < w := by
  simp only [Dom, Le, forall₂_cons, Forall₂.nil, and_true, ne_eq, List.cons.injEq]
  omega

/-- **rank_constrained_eq_spec**: without `n_below`, `_fast_non_domination_rank(loss, penalty=…)` gives
every row its rank under repeated peeling with the constrained domination `CDom`. -/
theorem fastRankFn_isCPeeling (d : Nat) (rows : List Row) (hd : ∀ e ∈ rows, e.1.length = d) :
    IsCPeeling rows (fastRankFn d rows rows.length) := by
  -- the three blocks
  set F := (rowsOf .feasible rows).map (·.1) with hF
  set N := (rowsOf .unknown rows).map (·.1) with hN
  set P := penaltyRows rows with hP
  have hlen := rowsOf_length rows
  have hFl : F.length = (rowsOf .feasible rows).length := by simp [hF]
  have hNl : N.length = (rowsOf .unknown rows).length := by simp [hN]
  have hPl : P.length = (rowsOf .infeasible rows).length := by simp [hP, penaltyRows]
  have hFd : ∀ q ∈ F, q.length = d := by
    intro q hq
    obtain ⟨e, he, rfl⟩ := List.mem_map.1 hq
    exact hd e ((mem_rowsOf _ _ _).1 he).1
  have hNd : ∀ q ∈ N, q.length = d := by
    intro q hq
    obtain ⟨e, he, rfl⟩ := List.mem_map.1 hq
    exact hd e ((mem_rowsOf _ _ _).1 he).1
  have hPd : ∀ q ∈ P, q.length = 1 := by
    intro q hq
    obtain ⟨e, _, rfl⟩ := List.mem_map.1 hq
    rfl
  -- each block is ranked exactly
  have hρF : F ≠ [] → rankFn d F (some (rows.length : Int)) = rankFn d F none := by
    intro hne
    have : 0 < F.length := List.length_pos_iff.2 hne
    apply rankFn_some_eq_none d F _ (by omega)
    have := uniqueLex_length_le d F hFd
    simp only [Int.toNat_natCast]; omega
  have hρI : P ≠ [] → rankFn 1 P (some ((rows.length : Int) - F.length)) = rankFn 1 P none := by
    intro hne
    have : 0 < P.length := List.length_pos_iff.2 hne
    apply rankFn_some_eq_none 1 P _ (by omega)
    have := uniqueLex_length_le 1 P hPd
    omega
  have hρN : N ≠ [] → rankFn d N (some ((rows.length : Int) - F.length - P.length)) = rankFn d N none := by
    intro hne
    have : 0 < N.length := List.length_pos_iff.2 hne
    apply rankFn_some_eq_none d N _ (by omega)
    have := uniqueLex_length_le d N hNd
    omega
  have pF := rankFn_isPeeling d F hFd
  have pI := rankFn_isPeeling 1 P hPd
  have pN := rankFn_isPeeling d N hNd
  set ρF := rankFn d F (some (rows.length : Int)) with hρFdef
  set ρI := rankFn 1 P (some ((rows.length : Int) - F.length)) with hρIdef
  set ρN := rankFn d N (some ((rows.length : Int) - F.length - P.length)) with hρNdef
  set rF := calcRank d F (some (rows.length : Int)) with hrF
  set topI := topRank rF with htopI
  set rI := (calcRank 1 P (some ((rows.length : Int) - F.length))).map (· + topI) with hrI
  set topN := topRank (rF ++ rI) with htopN
  have pF' : IsPeeling F ρF := by
    by_cases h : F = []
    · rw [h]; intro p hp; cases hp
    · show IsPeeling F ρF
      rw [hρF h]; exact pF
  have pI' : IsPeeling P ρI := by
    by_cases h : P = []
    · rw [h]; intro p hp; cases hp
    · show IsPeeling P ρI
      rw [hρI h]; exact pI
  have pN' : IsPeeling N ρN := by
    by_cases h : N = []
    · rw [h]; intro p hp; cases hp
    · show IsPeeling N ρN
      rw [hρN h]; exact pN
  -- the rank function on each class
  have hρ : ∀ e : Row, fastRankFn d rows rows.length e =
      match classify e.2 with
      | .feasible => ρF e.1
      | .infeasible => topI + ρI [e.2.getD 0]
      | .unknown => topN + ρN e.1 := by
    intro e; rfl
  have hρf : ∀ e : Row, classify e.2 = .feasible → fastRankFn d rows rows.length e = ρF e.1 := by
    intro e hc; rw [hρ e, hc]
  have hρi : ∀ e : Row, classify e.2 = .infeasible →
      fastRankFn d rows rows.length e = topI + ρI [e.2.getD 0] := by
    intro e hc; rw [hρ e, hc]
  have hρu : ∀ e : Row, classify e.2 = .unknown → fastRankFn d rows rows.length e = topN + ρN e.1 := by
    intro e hc; rw [hρ e, hc]
  -- membership transfer
  have memF : ∀ e ∈ rows, classify e.2 = .feasible → e.1 ∈ F := fun e he hc =>
    List.mem_map.2 ⟨e, (mem_rowsOf _ _ _).2 ⟨he, hc⟩, rfl⟩
  have memN : ∀ e ∈ rows, classify e.2 = .unknown → e.1 ∈ N := fun e he hc =>
    List.mem_map.2 ⟨e, (mem_rowsOf _ _ _).2 ⟨he, hc⟩, rfl⟩
  have memP : ∀ e ∈ rows, classify e.2 = .infeasible → [e.2.getD 0] ∈ P := fun e he hc =>
    List.mem_map.2 ⟨e, (mem_rowsOf _ _ _).2 ⟨he, hc⟩, rfl⟩
  have ofF : ∀ q ∈ F, ∃ e ∈ rows, classify e.2 = .feasible ∧ e.1 = q := by
    intro q hq
    obtain ⟨e, he, rfl⟩ := List.mem_map.1 hq
    exact ⟨e, ((mem_rowsOf _ _ _).1 he).1, ((mem_rowsOf _ _ _).1 he).2, rfl⟩
  have ofN : ∀ q ∈ N, ∃ e ∈ rows, classify e.2 = .unknown ∧ e.1 = q := by
    intro q hq
    obtain ⟨e, he, rfl⟩ := List.mem_map.1 hq
    exact ⟨e, ((mem_rowsOf _ _ _).1 he).1, ((mem_rowsOf _ _ _).1 he).2, rfl⟩
  have ofP : ∀ q ∈ P, ∃ e ∈ rows, classify e.2 = .infeasible ∧ [e.2.getD 0] = q := by
    intro q hq
    obtain ⟨e, he, rfl⟩ := List.mem_map.1 hq
    exact ⟨e, ((mem_rowsOf _ _ _).1 he).1, ((mem_rowsOf _ _ _).1 he).2, rfl⟩
  -- levels of the blocks
  have hF_lt : ∀ e ∈ rows, classify e.2 = .feasible → ρF e.1 < topI := by
    intro e he hc
    apply topRank_lt
    exact List.mem_map.2 ⟨e.1, memF e he hc, rfl⟩
  have hI_lt : ∀ e ∈ rows, classify e.2 = .infeasible → topI + ρI [e.2.getD 0] < topN := by
    intro e he hc
    apply topRank_lt
    apply List.mem_append_right
    exact List.mem_map.2 ⟨ρI [e.2.getD 0], List.mem_map.2 ⟨_, memP e he hc, rfl⟩, Nat.add_comm _ _⟩
  have hF_ltN : ∀ e ∈ rows, classify e.2 = .feasible → ρF e.1 < topN := by
    intro e he hc
    apply topRank_lt
    apply List.mem_append_left
    exact List.mem_map.2 ⟨e.1, memF e he hc, rfl⟩
  have hF_top : 0 < topI → ∃ e ∈ rows, classify e.2 = .feasible ∧ ρF e.1 + 1 = topI := by
    intro h
    obtain ⟨x, hx, hx1⟩ := topRank_attained rF h
    obtain ⟨q, hq, rfl⟩ := List.mem_map.1 hx
    obtain ⟨e, he, hc, rfl⟩ := ofF q hq
    exact ⟨e, he, hc, hx1⟩
  have hFI_top : 0 < topN → ∃ e ∈ rows, classify e.2 ≠ .unknown ∧
      fastRankFn d rows rows.length e + 1 = topN := by
    intro h
    obtain ⟨x, hx, hx1⟩ := topRank_attained (rF ++ rI) h
    rcases List.mem_append.1 hx with hx | hx
    · obtain ⟨q, hq, rfl⟩ := List.mem_map.1 hx
      obtain ⟨e, he, hc, rfl⟩ := ofF q hq
      exact ⟨e, he, by rw [hc]; simp, by rw [hρf e hc]; exact hx1⟩
    · obtain ⟨y, hy, rfl⟩ := List.mem_map.1 hx
      obtain ⟨q, hq, rfl⟩ := List.mem_map.1 hy
      obtain ⟨e, he, hc, rfl⟩ := ofP q hq
      have hx2 : ρI [e.2.getD 0] + topI + 1 = topN := hx1
      exact ⟨e, he, by rw [hc]; simp, by rw [hρi e hc]; omega⟩
  -- now the characterisation, class by class (the blocks are opaque from here on)
  clear hρFdef hρIdef hρNdef hrF htopI hrI htopN hρF hρI hρN
  clear_value topN rI topI rF ρN ρI ρF
  clear hρ
  intro e he j hj
  cases hc : classify e.2 with
  | feasible =>
    rw [hρf e hc] at hj ⊢
    rw [pF' e.1 (memF e he hc) j hj]
    constructor
    · intro h e' he' hj' hdom
      cases hc' : classify e'.2 with
      | feasible =>
        rw [hρf e' hc'] at hj'
        simp only [CDom, hc, hc'] at hdom
        exact h e'.1 (memF e' he' hc') hj' hdom
      | infeasible => simp [CDom, hc, hc'] at hdom
      | unknown => simp [CDom, hc, hc'] at hdom
    · intro h q hq hjq hdom
      obtain ⟨e', he', hc', rfl⟩ := ofF q hq
      apply h e' he' (by rw [hρf e' hc']; exact hjq)
      simp only [CDom, hc, hc']; exact hdom
  | infeasible =>
    rw [hρi e hc] at hj ⊢
    by_cases hlow : j < topI
    · -- some feasible row of the last feasible level still dominates
      constructor
      · intro h; omega
      · intro h
        exfalso
        obtain ⟨e', he', hc', htop⟩ := hF_top (by omega)
        apply h e' he' (by rw [hρf e' hc']; omega)
        simp [CDom, hc, hc']
    · have hj' : j - topI ≤ ρI [e.2.getD 0] := by omega
      have hiff := pI' [e.2.getD 0] (memP e he hc) (j - topI) hj'
      constructor
      · intro h e' he' hje' hdom
        cases hc' : classify e'.2 with
        | feasible =>
          rw [hρf e' hc'] at hje'
          have := hF_lt e' he' hc'; omega
        | infeasible =>
          rw [hρi e' hc'] at hje'
          simp only [CDom, hc, hc'] at hdom
          exact (hiff.1 (by omega)) [e'.2.getD 0] (memP e' he' hc') (by omega) ((dom_singleton _ _).2 hdom)
        | unknown => simp [CDom, hc, hc'] at hdom
      · intro h
        have : ρI [e.2.getD 0] = j - topI := by
          apply hiff.2
          intro q hq hjq hdom
          obtain ⟨e', he', hc', rfl⟩ := ofP q hq
          apply h e' he' (by rw [hρi e' hc']; omega)
          simp only [CDom, hc, hc']
          exact (dom_singleton _ _).1 hdom
        omega
  | unknown =>
    rw [hρu e hc] at hj ⊢
    by_cases hlow : j < topN
    · constructor
      · intro h; omega
      · intro h
        exfalso
        obtain ⟨e', he', hc', htop⟩ := hFI_top (by omega)
        apply h e' he' (by omega)
        cases hc'' : classify e'.2 with
        | feasible => simp [CDom, hc, hc'']
        | infeasible => simp [CDom, hc, hc'']
        | unknown => exact absurd hc'' hc'
    · have hj' : j - topN ≤ ρN e.1 := by omega
      have hiff := pN' e.1 (memN e he hc) (j - topN) hj'
      constructor
      · intro h e' he' hje' hdom
        cases hc' : classify e'.2 with
        | feasible =>
          rw [hρf e' hc'] at hje'
          have := hF_ltN e' he' hc'; omega
        | infeasible =>
          rw [hρi e' hc'] at hje'
          have := hI_lt e' he' hc'; omega
        | unknown =>
          rw [hρu e' hc'] at hje'
          simp only [CDom, hc, hc'] at hdom
          exact (hiff.1 (by omega)) e'.1 (memN e' he' hc') (by omega) hdom
      · intro h
        have : ρN e.1 = j - topN := by
          apply hiff.2
          intro q hq hjq hdom
          obtain ⟨e', he', hc', rfl⟩ := ofN q hq
          apply h e' he' (by rw [hρu e' hc']; omega)
          simp only [CDom, hc, hc']
          exact hdom
        omega


/-- `_fast_non_domination_rank(loss, penalty=pen)` as a whole -/
theorem fastRank_constrained (d : Nat) (S : List Pt) (pen : List (Option Int)) (hS : ∀ q ∈ S, q.length = d)
    (hlen : pen.length = S.length) :
    ∃ ρ : Row → Nat, fastRank d S (some pen) none = some ((S.zip pen).map ρ) ∧ IsCPeeling (S.zip pen) ρ := by
  refine ⟨fastRankFn d (S.zip pen) (S.zip pen).length, ?_, ?_⟩
  · unfold fastRank
    by_cases hne : S = []
    · subst hne; simp
    · have h1 : S.isEmpty = false := by simpa using hne
      have h2 : (S.zip pen).length = S.length := by simp [hlen]
      simp only [h1, Bool.false_eq_true, if_false, hlen, ne_eq, not_true_eq_false, h2]
  · apply fastRankFn_isCPeeling
    intro e he
    exact hS e.1 (List.of_mem_zip he).1

/-! ## the naive peeling used by the driver as a reference is the same rank -/

theorem allLe_iff' (p c : Pt) : allLe p c = true ↔ Le p c := by
  induction p generalizing c with
  | nil => cases c <;> simp [allLe, Le]
  | cons a p ih =>
    cases c with
    | nil => simp [allLe, Le]
    | cons b c => simp only [allLe, Bool.and_eq_true, decide_eq_true_eq, Le, forall₂_cons] at *; rw [ih c]

theorem dominates_iff (q p : Pt) : dominates q p = true ↔ Dom q p := by
  simp [dominates, Dom, allLe_iff']

theorem isNonDom_iff (S : List Pt) (p : Pt) : isNonDom S p = true ↔ ∀ q ∈ S, ¬ Dom q p := by
  simp only [isNonDom, Bool.not_eq_true', List.any_eq_false, ← dominates_iff]

theorem exists_nonDom (d : Nat) (S : List Pt) (hS : ∀ q ∈ S, q.length = d) (hne : S ≠ []) :
    ∃ p ∈ S, ∀ q ∈ S, ¬ Dom q p := by
  have hlex := lexSorted_uniqueLex d S hS
  cases hU : uniqueLex S with
  | nil =>
    exfalso
    cases S with
    | nil => exact hne rfl
    | cons a t =>
      have := (mem_uniqueLex (a :: t) a).2 List.mem_cons_self
      rw [hU] at this; cases this
  | cons h t =>
    rw [hU] at hlex
    have hh : h ∈ S := (mem_uniqueLex S h).1 (by rw [hU]; exact List.mem_cons_self)
    refine ⟨h, hh, fun q hq hdom => ?_⟩
    have hqU := (mem_uniqueLex S q).2 hq
    rw [hU] at hqU
    rcases List.mem_cons.1 hqU with rfl | hqt
    · exact hdom.2 rfl
    · exact lexLt_not_le ((List.pairwise_cons.1 hlex).1 q hqt) hdom.1

theorem peelRankNaive_isPeeling (d : Nat) :
    ∀ (f : Nat) (S : List Pt), (∀ q ∈ S, q.length = d) → S.length ≤ f → IsPeeling S (peelRankNaive f S) := by
  intro f
  induction f with
  | zero =>
    intro S _ hlen
    have : S = [] := by simpa using hlen
    subst this
    intro p hp; cases hp
  | succ f ih =>
    intro S hS hlen
    by_cases hne : S = []
    · subst hne; intro p hp; cases hp
    set S' := S.filter (fun q => !isNonDom S q) with hS'
    have hsub : ∀ q ∈ S', q ∈ S := fun q hq => (List.mem_filter.1 hq).1
    have hlen' : S'.length ≤ f := by
      obtain ⟨p, hp, hnd⟩ := exists_nonDom d S hS hne
      have : S'.length < S.length := by
        apply List.length_filter_lt_length_iff_exists.2
        exact ⟨p, hp, by simpa using (isNonDom_iff S p).2 hnd⟩
      omega
    have ih' := ih S' (fun q hq => hS q (hsub q hq)) hlen'
    have hρ : ∀ p, peelRankNaive (f + 1) S p = if isNonDom S p then 0 else 1 + peelRankNaive f S' p := by
      intro p; rfl
    have hmem' : ∀ q ∈ S, isNonDom S q = false → q ∈ S' := fun q hq h =>
      List.mem_filter.2 ⟨hq, by simp [h]⟩
    have hnd' : ∀ q ∈ S', isNonDom S q = false := fun q hq => by
      simpa using (List.mem_filter.1 hq).2
    intro p hp j hj
    rw [hρ] at hj ⊢
    by_cases hnd : isNonDom S p = true
    · simp only [hnd, if_true] at hj ⊢
      have : j = 0 := by omega
      subst this
      simp only [true_iff]
      intro q hq _
      exact (isNonDom_iff S p).1 hnd q hq
    · have hnd2 : isNonDom S p = false := by simpa using hnd
      simp only [hnd2, Bool.false_eq_true, if_false] at hj ⊢
      have hpS' := hmem' p hp hnd2
      cases j with
      | zero =>
        constructor
        · intro h; omega
        · intro h
          exfalso
          apply hnd
          exact (isNonDom_iff S p).2 (fun q hq => h q hq (Nat.zero_le _))
      | succ j =>
        have := ih' p hpS' j (by omega)
        constructor
        · intro h q hq hjq
          rw [hρ] at hjq
          by_cases hq1 : isNonDom S q = true
          · simp [hq1] at hjq
          · have hq2 : isNonDom S q = false := by simpa using hq1
            simp only [hq2, Bool.false_eq_true, if_false] at hjq
            exact (this.1 (by omega)) q (hmem' q hq hq2) (by omega)
        · intro h
          have : peelRankNaive f S' p = j := by
            apply this.2
            intro q hq hjq
            apply h q (hsub q hq)
            rw [hρ, hnd' q hq]
            simp only [Bool.false_eq_true, if_false]; omega
          omega

/-- the O(n²) peeling reference of the driver (`naiveRanks`) gives every row the rank the modelled
`_calculate_nondomination_rank` gives it -/
theorem naive_eq_rank (d : Nat) (S : List Pt) (hS : ∀ q ∈ S, q.length = d) :
    naiveRanks S = calcRank d S none := by
  unfold naiveRanks calcRank
  apply List.map_congr_left
  intro p hp
  exact isPeeling_unique S _ _ (peelRankNaive_isPeeling d S.length S hS (le_refl _))
    (rankFn_isPeeling d S hS) p hp

end OptunaVerif.Rank
