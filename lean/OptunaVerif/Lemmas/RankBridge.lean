import OptunaVerif.Lemmas.RankIR
import OptunaVerif.Lemmas.Rank
/-! Bridge between the flag-free references of `Lemmas/RankIR.lean` (arrays, index arrays, scatter writes) and the hand model
`Model/Rank.lean` (association table unique row ↦ rank), for `_is_pareto_front(·, True)` = `frontSorted`. -/
set_option linter.unusedSimpArgs false
namespace OptunaVerif.RankIR
open OptunaVerif OptunaVerif.Hypervolume OptunaVerif.Rank

/-- `_is_pareto_front(a, assume_unique_lexsorted=True)` as the hand model has it -/
def frontH : Nat → List Pt → List Pt := fun d l => frontSorted id d l

theorem selMask_map_map {α β : Type} (l : List α) (f : α → β) (q : α → Bool) :
    selMask (l.map f) (l.map q) = (l.filter q).map f := by
  induction l with
  | nil => rfl
  | cons a t ih => cases h : q a <;> simp [selMask, h, ih, List.filter_cons]

theorem scatterIdx_cons (l : List Int) (j : Nat) (js : List Int) (v : Int) :
    scatterIdx l (Int.ofNat j :: js) v = scatterIdx (l.set j v) js v := by
  simp [scatterIdx]

theorem scatterIdx_getD (is : List Nat) (v : Int) (i : Nat) : ∀ (l : List Int), (∀ j ∈ is, j < l.length) →
    (scatterIdx l (is.map Int.ofNat) v).getD i 0 = if i ∈ is then v else l.getD i 0 := by
  induction is with
  | nil => intro l _; simp [scatterIdx]
  | cons j js ih =>
    intro l hb
    rw [List.map_cons, scatterIdx_cons, ih (l.set j v) (by intro k hk; simp; exact hb k (List.mem_cons_of_mem _ hk))]
    have hj : j < l.length := hb j (List.mem_cons_self ..)
    by_cases hi : i ∈ js
    · simp [hi]
    · simp only [hi, if_false, List.mem_cons]
      by_cases hij : i = j
      · subst hij
        simp [List.getD_eq_getElem?_getD, List.getElem?_set, hj]
      · have : ¬ j = i := fun e => hij e.symm
        simp [List.getD_eq_getElem?_getD, List.getElem?_set, hij, this]

theorem scatterIdx_length (idx : List Int) (v : Int) : ∀ l : List Int, (scatterIdx l idx v).length = l.length := by
  induction idx with
  | nil => intro l; rfl
  | cons j js ih =>
    intro l
    simp only [scatterIdx, List.foldl_cons]
    by_cases h : 0 ≤ j
    · simp only [h, if_true]
      have := ih (l.set j.toNat v)
      simp only [scatterIdx] at this
      rw [this]; simp
    · simp only [h, if_false]
      exact ih l

/-- the peeling loop on (ranks, indices, array) computes, position by position, what the hand model's table of unique rows says -/
theorem peel_bridge (d : Nat) (U : List Pt) (nbN nUN : Nat) : ∀ (fuel : Nat) (is : List Nat) (ranks : List Int) (r : Nat),
    (∀ j ∈ is, j < U.length) → ranks.length = U.length → is.length ≤ nUN →
    ∀ i, i < U.length →
      (scatterIdx (peelRef frontH d nUN nbN fuel ⟨r, is.map Int.ofNat, is.map (fun i => U.getD i []), ranks⟩).ranks
          (peelRef frontH d nUN nbN fuel ⟨r, is.map Int.ofNat, is.map (fun i => U.getD i []), ranks⟩).indices
          (peelRef frontH d nUN nbN fuel ⟨r, is.map Int.ofNat, is.map (fun i => U.getD i []), ranks⟩).rank).getD i 0 =
        if i ∈ is then ((lookupRank (peelLoop d nbN nUN fuel r (is.map (fun i => U.getD i []))) (U.getD i []) : Nat) : Int)
        else ranks.getD i 0 := by
  intro fuel
  induction fuel with
  | zero =>
    intro is ranks r hb hl _ i _
    simp only [peelRef, peelLoop]
    rw [scatterIdx_getD is r i ranks (by rw [hl]; exact hb)]
    by_cases hi : i ∈ is
    · have : U.getD i [] ∈ is.map (fun i => U.getD i []) := List.mem_map.mpr ⟨i, hi, rfl⟩
      rw [if_pos hi, if_pos hi, lookupRank_map _ r _ this]
    · rw [if_neg hi, if_neg hi]
  | succ f ih =>
    intro is ranks r hb hl hle i hi
    simp only [peelRef, peelLoop, List.length_map]
    by_cases hc : nUN - is.length < nbN
    · have hc' : (nUN : Int) - (is.length : Int) < (nbN : Int) := by omega
      rw [if_pos hc', if_pos hc]
      -- the state after one round, in the form of the induction hypothesis
      have hmask : frontMaskOf frontH d (is.map (fun i => U.getD i [])) =
          is.map (fun i => (frontSorted id d (is.map (fun i => U.getD i []))).contains (U.getD i [])) := by
        simp [frontMaskOf, frontH, List.map_map, Function.comp_def]
      have hmaskn : (frontMaskOf frontH d (is.map (fun i => U.getD i []))).map (fun x => !x) =
          is.map (fun i => !(frontSorted id d (is.map (fun i => U.getD i []))).contains (U.getD i [])) := by
        rw [hmask]; simp [List.map_map, Function.comp_def]
      rw [hmaskn, hmask, selMask_map_map, selMask_map_map, selMask_map_map]
      have hrem : removeAll (is.map (fun i => U.getD i [])) (frontSorted id d (is.map (fun i => U.getD i []))) =
          (is.filter (fun i => !(frontSorted id d (is.map (fun i => U.getD i []))).contains (U.getD i []))).map (fun i => U.getD i []) := by
        simp [removeAll, List.filter_map, Function.comp_def]
      rw [hrem]
      have hcast : ((r : Int) + 1) = ((r + 1 : Nat) : Int) := by simp
      rw [hcast]
      have hb' : ∀ j ∈ is.filter (fun i => !(frontSorted id d (is.map (fun i => U.getD i []))).contains (U.getD i [])), j < U.length :=
        fun j hj => hb j (List.mem_of_mem_filter hj)
      have hl' : (scatterIdx ranks ((is.filter (fun i => (frontSorted id d (is.map (fun i => U.getD i []))).contains (U.getD i []))).map Int.ofNat) r).length = U.length := by
        rw [scatterIdx_length, hl]
      have hle' : (is.filter (fun i => !(frontSorted id d (is.map (fun i => U.getD i []))).contains (U.getD i []))).length ≤ nUN :=
        Nat.le_trans (List.length_filter_le _ _) hle
      rw [ih _ _ (r + 1) hb' hl' hle' i hi, lookupRank_map_append]
      rw [scatterIdx_getD _ r i ranks (by intro j hj; rw [hl]; exact hb j (List.mem_of_mem_filter hj))]
      by_cases him : i ∈ is
      · by_cases hf : (frontSorted id d (is.map (fun i => U.getD i []))).contains (U.getD i []) = true
        · have hmem : U.getD i [] ∈ frontSorted id d (is.map (fun i => U.getD i [])) := by simpa using hf
          have h1 : i ∈ is.filter (fun i => (frontSorted id d (is.map (fun i => U.getD i []))).contains (U.getD i [])) :=
            List.mem_filter.mpr ⟨him, hf⟩
          have h2 : ¬ i ∈ is.filter (fun i => !(frontSorted id d (is.map (fun i => U.getD i []))).contains (U.getD i [])) := by
            intro h; have := (List.mem_filter.mp h).2; rw [hf] at this; cases this
          rw [if_neg h2, if_pos h1, if_pos him, if_pos hmem]
        · have hmem : ¬ U.getD i [] ∈ frontSorted id d (is.map (fun i => U.getD i [])) := by simpa using hf
          have h2 : i ∈ is.filter (fun i => !(frontSorted id d (is.map (fun i => U.getD i []))).contains (U.getD i [])) :=
            List.mem_filter.mpr ⟨him, by simpa using hmem⟩
          rw [if_pos h2, if_pos him, if_neg hmem]
      · have h1 : ¬ i ∈ is.filter (fun i => (frontSorted id d (is.map (fun i => U.getD i []))).contains (U.getD i [])) :=
          fun h => him (List.mem_of_mem_filter h)
        have h2 : ¬ i ∈ is.filter (fun i => !(frontSorted id d (is.map (fun i => U.getD i []))).contains (U.getD i [])) :=
          fun h => him (List.mem_of_mem_filter h)
        rw [if_neg h2, if_neg h1, if_neg him]
    · have hc' : ¬ (nUN : Int) - (is.length : Int) < (nbN : Int) := by omega
      rw [if_neg hc', if_neg hc]
      simp only []
      rw [scatterIdx_getD is r i ranks (by rw [hl]; exact hb)]
      by_cases hi' : i ∈ is
      · have : U.getD i [] ∈ is.map (fun i => U.getD i []) := List.mem_map.mpr ⟨i, hi', rfl⟩
        rw [if_pos hi', if_pos hi', lookupRank_map _ r _ this]
      · rw [if_neg hi', if_neg hi']

theorem map_getD_range_pt (U : List Pt) : (List.range U.length).map (fun i => U.getD i []) = U := by
  apply List.ext_getElem?
  intro i
  by_cases h : i < U.length
  · simp [h, List.getElem?_eq_getElem h]
  · simp [h, List.getElem?_eq_none (Nat.le_of_not_lt h)]

theorem nbClip_cast (S : List Pt) (nb : Option Int) (n : Nat) (ht : trivialCase S nb = false) :
    nbClip nb n = ((clipNBelow nb n : Nat) : Int) := by
  cases nb with
  | none => simp [nbClip, nbOr, clipNBelow]
  | some k =>
    have hk : 0 < k := by
      simp [trivialCase] at ht
      omega
    have hk0 : ¬ k = 0 := by omega
    simp only [nbClip, nbOr, clipNBelow, hk0, if_false]
    have : ((k.toNat : Nat) : Int) = k := Int.toNat_of_nonneg (by omega)
    omega

/-- **calcRef_eq_calcRank** — the array reference of `_calculate_nondomination_rank` (scatter writes through index arrays) is the hand model
`Rank.calcRank` (association table), for rows of `d` columns, every `n_below`, loop bound `n_unique` -/
theorem calcRef_eq_calcRank (d : Nat) (S : List Pt) (hS : ∀ q ∈ S, q.length = d) (nb : Option Int) :
    calcRef frontH (uniqueLex S).length d S nb = (calcRank d S nb).map Int.ofNat := by
  unfold calcRef calcRank
  cases ht : trivialCase S nb with
  | true =>
    have h0 : ∀ p, rankFn d S nb p = 0 := fun p => by simp [rankFn, ht]
    simp [h0, List.map_const', Function.comp_def]
  | false =>
    simp only [Bool.false_eq_true, if_false]
    by_cases hd : d = 1
    · subst hd
      simp only [if_true, rankFn, ht, Bool.false_eq_true, if_false]
      have hcol : S.map col0Row = S := by
        conv => rhs; rw [← List.map_id S]
        apply List.map_congr_left
        intro p hp
        have := hS p hp
        match p, this with
        | [a], _ => rfl
      have h1 : ∀ p, rankFn 1 S nb p = (uniqueLex S).idxOf p := fun p => by simp [rankFn, ht]
      simp [uniqueInvCol0Of, uniqueInvOf, hcol, List.map_map, Function.comp_def, h1]
    · simp only [hd, if_false, rankFn, ht, Bool.false_eq_true]
      simp only [uniqueInvOf, List.map_map]
      apply List.map_congr_left
      intro p hp
      have hpU : p ∈ uniqueLex S := (mem_uniqueLex S p).mpr hp
      have hi : (uniqueLex S).idxOf p < (uniqueLex S).length := List.idxOf_lt_length_iff.mpr hpU
      have hget : (uniqueLex S).getD ((uniqueLex S).idxOf p) [] = p := by
        rw [List.getD_eq_getElem?_getD, List.getElem?_eq_getElem hi]
        simp
      have hb := peel_bridge d (uniqueLex S) (clipNBelow nb (uniqueLex S).length) (uniqueLex S).length (uniqueLex S).length
        (List.range (uniqueLex S).length) (List.replicate (uniqueLex S).length 0) 0
        (by intro j hj; exact List.mem_range.mp hj) (by simp) (by simp) ((uniqueLex S).idxOf p) hi
      rw [map_getD_range_pt, hget, if_pos (List.mem_range.mpr hi)] at hb
      have hr : rankFn d S nb p = lookupRank (peelLoop d (clipNBelow nb (uniqueLex S).length) (uniqueLex S).length (uniqueLex S).length 0
          (uniqueLex S)) p := by simp [rankFn, ht, hd]
      simp only [Function.comp, Int.toNat_natCast]
      rw [nbClip_cast S nb _ ht, hr]
      simpa using hb

end OptunaVerif.RankIR
