import OptunaVerif.Lemmas.RankBridge
/-! Bridge, constrained branch: the three-scatter reference `fastRef` of `_fast_non_domination_rank` (Lemmas/RankIR.lean) is the hand model
`Rank.fastRank` (Model/Rank.lean).  The open step of part 3: the offset of the third group is a maximum over an INTERLEAVED selection of the
ranks of the first two groups (`np.max(ranks[~is_penalty_nan])`), the hand model's over their concatenation — equal because a maximum only
depends on the set of values (`maxInitOf_congr`). -/
set_option linter.unusedSimpArgs false
namespace OptunaVerif.RankIR
open OptunaVerif OptunaVerif.Hypervolume OptunaVerif.Rank

/-! ### masks are the classes of the hand model -/

theorem mask_nan (p : List (Option Int)) : isnanOf p = p.map (fun v => classify v == .unknown) := by
  induction p with
  | nil => rfl
  | cons v t ih =>
    cases v with
    | none => simp [isnanOf, classify] at ih ⊢; exact ih
    | some x => by_cases h : x ≤ 0 <;> simp [isnanOf, classify, h] at ih ⊢ <;> exact ih

theorem mask_notnan (p : List (Option Int)) : (isnanOf p).map (fun x => !x) = p.map (fun v => !(classify v == .unknown)) := by
  rw [mask_nan]; simp [List.map_map, Function.comp_def]

theorem mask_feas (p : List (Option Int)) :
    zipAnd ((isnanOf p).map (fun x => !x)) (penLe0Of p) = p.map (fun v => classify v == .feasible) := by
  induction p with
  | nil => rfl
  | cons v t ih =>
    cases v with
    | none => simp [isnanOf, penLe0Of, zipAnd, classify] at ih ⊢; exact ih
    | some x => by_cases h : x ≤ 0 <;> simp [isnanOf, penLe0Of, zipAnd, classify, h] at ih ⊢ <;> exact ih

theorem mask_infeas (p : List (Option Int)) :
    zipAnd ((isnanOf p).map (fun x => !x)) (penGt0Of p) = p.map (fun v => classify v == .infeasible) := by
  induction p with
  | nil => rfl
  | cons v t ih =>
    cases v with
    | none => simp [isnanOf, penGt0Of, zipAnd, classify] at ih ⊢; exact ih
    | some x =>
      by_cases h : x ≤ 0
      · have h' : ¬ 0 < x := by omega
        simp [isnanOf, penGt0Of, zipAnd, classify, h, h'] at ih ⊢; exact ih
      · have h' : 0 < x := by omega
        simp [isnanOf, penGt0Of, zipAnd, classify, h, h'] at ih ⊢; exact ih

/-! ### scatter writes as maps -/

theorem scatterMask_filter_map {α : Type} (q : α → Bool) (f : α → Int) : ∀ (L : List α) (l : List Int), l.length = L.length →
    scatterMask l (L.map q) ((L.filter q).map f) = List.zipWith (fun x a => if q a then f a else x) l L := by
  intro L
  induction L with
  | nil => intro l h; cases l <;> simp_all [scatterMask]
  | cons a t ih =>
    intro l h
    cases l with
    | nil => simp at h
    | cons x xs =>
      simp only [List.length_cons, Nat.add_right_cancel_iff] at h
      cases hq : q a <;> simp [scatterMask, List.filter_cons, hq, ih xs h]

theorem zipWith_replicate_left {α : Type} (k : Int → α → Int) (c : Int) : ∀ L : List α,
    List.zipWith k (List.replicate L.length c) L = L.map (k c) := by
  intro L
  induction L with
  | nil => rfl
  | cons a t ih => simp [List.replicate_succ, ih]

theorem zipWith_map_left' {α : Type} (h : Int → α → Int) (g : α → Int) : ∀ L : List α,
    List.zipWith h (L.map g) L = L.map (fun a => h (g a) a) := by
  intro L
  induction L with
  | nil => rfl
  | cons a t ih => simp [ih]

theorem countTrue_map {α : Type} (q : α → Bool) (L : List α) : countTrueOf (L.map q) = ((L.filter q).length : Int) := by
  induction L with
  | nil => rfl
  | cons a t ih =>
    simp only [countTrueOf] at ih ⊢
    cases hq : q a <;> simp [List.filter_cons, hq] at ih ⊢ <;> omega

/-! ### maxima -/

theorem maxInitOf_le_iff (A : List Int) : ∀ (i b : Int), maxInitOf A i ≤ b ↔ i ≤ b ∧ ∀ x ∈ A, x ≤ b := by
  induction A with
  | nil => intro i b; simp [maxInitOf]
  | cons a t ih =>
    intro i b
    have := ih (max i a) b
    simp only [maxInitOf, List.foldl_cons] at this ⊢
    rw [this]
    simp only [List.mem_cons, forall_eq_or_imp]
    constructor
    · rintro ⟨h1, h2⟩; exact ⟨by omega, by omega, h2⟩
    · rintro ⟨h1, h2, h3⟩; exact ⟨by omega, h3⟩

/-- a maximum depends only on the SET of values -/
theorem maxInitOf_congr (A B : List Int) (i : Int) (h : ∀ x, x ∈ A ↔ x ∈ B) : maxInitOf A i = maxInitOf B i := by
  apply Int.le_antisymm
  · rw [maxInitOf_le_iff]
    obtain ⟨h1, h2⟩ := (maxInitOf_le_iff B i _).mp (Int.le_refl _)
    exact ⟨h1, fun x hx => h2 x ((h x).mp hx)⟩
  · rw [maxInitOf_le_iff]
    obtain ⟨h1, h2⟩ := (maxInitOf_le_iff A i _).mp (Int.le_refl _)
    exact ⟨h1, fun x hx => h2 x ((h x).mpr hx)⟩

theorem maxInit_topRank_aux (A : List Nat) : ∀ m : Nat,
    (A.map Int.ofNat).foldl max ((m : Int) - 1) + 1 = ((A.foldl (fun m x => max m (x + 1)) m : Nat) : Int) := by
  induction A with
  | nil => intro m; simp
  | cons a t ih =>
    intro m
    simp only [List.map_cons, List.foldl_cons]
    have : max ((m : Int) - 1) (Int.ofNat a) = ((max m (a + 1) : Nat) : Int) - 1 := by
      simp only [Int.ofNat_eq_natCast]; omega
    rw [this, ih]

/-- `np.max(r, initial=-1) + 1` of natural ranks is the hand model's `topRank` -/
theorem maxInit_topRank (A : List Nat) : maxInitOf (A.map Int.ofNat) (-1) + 1 = ((topRank A : Nat) : Int) := by
  have := maxInit_topRank_aux A 0
  simpa [maxInitOf, topRank] using this

/-! ### the three scatter writes, row by row -/

def qC (c : PClass) (e : Row) : Bool := classify e.2 == c

/-- the callee of `_fast_non_domination_rank` as the hand model has it -/
def cR : Nat → List Pt → Int → List Int := fun d m n => (calcRank d m (some n)).map Int.ofNat

theorem rowsOf_eq (c : PClass) (rows : List Row) : rowsOf c rows = rows.filter (qC c) := rfl

theorem qC_cases (e : Row) : (qC .feasible e = true ∧ qC .infeasible e = false ∧ qC .unknown e = false) ∨
    (qC .feasible e = false ∧ qC .infeasible e = true ∧ qC .unknown e = false) ∨
    (qC .feasible e = false ∧ qC .infeasible e = false ∧ qC .unknown e = true) := by
  unfold qC
  cases h : classify e.2 <;> simp

/-- **fast_core** — the three scatter writes of the constrained branch (masks = the classes of the hand model, callee = the hand model's
`calcRank`) produce, row by row, the hand model's `fastRankFn` -/
theorem fast_core (d : Nat) (rows : List Row) (nb : Int) :
    let S := rows.map (·.1)
    let p := rows.map (·.2)
    let mF := rows.map (qC .feasible)
    let mI := rows.map (qC .infeasible)
    let mN := rows.map (qC .unknown)
    let mNN := rows.map (fun e => !qC .unknown e)
    let r1 := scatterMask (List.replicate rows.length (-1)) mF (cR d (selMask S mF) nb)
    let nb1 := nb - ((rows.filter (qC .feasible)).length : Int)
    let topI := maxInitOf (selMask r1 mF) (-1) + 1
    let r2 := scatterMask r1 mI ((cR 1 (newaxisOf (selMask p mI)) nb1).map (fun v => topI + v))
    let nb2 := nb1 - ((rows.filter (qC .infeasible)).length : Int)
    let topN := maxInitOf (selMask r2 mNN) (-1) + 1
    scatterMask r2 mN ((cR d (selMask S mN) nb2).map (fun v => topN + v)) = rows.map (fun e => Int.ofNat (fastRankFn d rows nb e)) := by
  intro S p mF mI mN mNN r1 nb1 topI r2 nb2 topN
  -- the groups
  have hfeas : selMask S mF = (rowsOf .feasible rows).map (·.1) := by
    simp only [S, mF, rowsOf_eq]; exact selMask_map_map rows _ _
  have hunk : selMask S mN = (rowsOf .unknown rows).map (·.1) := by
    simp only [S, mN, rowsOf_eq]; exact selMask_map_map rows _ _
  have hpens : newaxisOf (selMask p mI) = penaltyRows rows := by
    simp only [p, mI, penaltyRows, rowsOf_eq, newaxisOf]
    rw [selMask_map_map]; simp [List.map_map, Function.comp_def]
  have hfl : ((rows.filter (qC .feasible)).length : Int) = (((rowsOf .feasible rows).map (·.1)).length : Int) := by
    simp [rowsOf_eq]
  have hil : ((rows.filter (qC .infeasible)).length : Int) = ((penaltyRows rows).length : Int) := by
    simp [penaltyRows, rowsOf_eq]
  -- first write
  have hr1 : r1 = rows.map (fun e => if qC .feasible e then Int.ofNat (rankFn d ((rowsOf .feasible rows).map (·.1)) (some nb) e.1) else -1) := by
    simp only [r1, hfeas]
    have : cR d ((rowsOf .feasible rows).map (·.1)) nb =
        (rows.filter (qC .feasible)).map (fun e => Int.ofNat (rankFn d ((rowsOf .feasible rows).map (·.1)) (some nb) e.1)) := by
      simp [cR, calcRank, rowsOf_eq, List.map_map, Function.comp_def]
    rw [this, scatterMask_filter_map _ _ rows _ (by simp), zipWith_replicate_left]
  have htopI : topI = ((topRank (calcRank d ((rowsOf .feasible rows).map (·.1)) (some nb)) : Nat) : Int) := by
    simp only [topI, hr1, mF]
    rw [selMask_map_map]
    have : (rows.filter (qC .feasible)).map (fun e => if qC .feasible e then Int.ofNat (rankFn d ((rowsOf .feasible rows).map (·.1)) (some nb) e.1) else -1) =
        (calcRank d ((rowsOf .feasible rows).map (·.1)) (some nb)).map Int.ofNat := by
      simp only [calcRank, rowsOf_eq, List.map_map]
      apply List.map_congr_left
      intro e he
      simp [(List.mem_filter.mp he).2]
    rw [this, maxInit_topRank]
  -- abbreviations of the hand model's pieces
  generalize hfeasdef : (rowsOf .feasible rows).map (·.1) = feas at *
  generalize hpensdef : penaltyRows rows = pens at *
  generalize hunkdef : (rowsOf .unknown rows).map (·.1) = unk at *
  have hnb1 : nb1 = nb - (feas.length : Int) := by simp only [nb1, hfl]
  have hnb2 : nb2 = nb - (feas.length : Int) - (pens.length : Int) := by simp only [nb2, hnb1, hil]
  generalize htI : topRank (calcRank d feas (some nb)) = tI at *
  -- second write
  have hcI : (cR 1 (newaxisOf (selMask p mI)) nb1).map (fun v => topI + v) =
      (rows.filter (qC .infeasible)).map (fun e => (tI : Int) + Int.ofNat (rankFn 1 pens (some (nb - (feas.length : Int))) [e.2.getD 0])) := by
    rw [hpens, hnb1, htopI, ← hpensdef]
    simp [cR, calcRank, penaltyRows, rowsOf_eq, List.map_map, Function.comp_def]
  have hr2 : r2 = rows.map (fun e => if qC .infeasible e then (tI : Int) + Int.ofNat (rankFn 1 pens (some (nb - (feas.length : Int))) [e.2.getD 0])
      else if qC .feasible e then Int.ofNat (rankFn d feas (some nb) e.1) else -1) := by
    simp only [r2, hcI]
    rw [scatterMask_filter_map _ _ rows _ (by rw [hr1]; simp), hr1, zipWith_map_left']
  -- the offset of the third group: a maximum over the interleaved first two groups
  have htopN : topN = ((topRank (calcRank d feas (some nb) ++ (calcRank 1 pens (some (nb - (feas.length : Int)))).map (· + tI)) : Nat) : Int) := by
    rw [← maxInit_topRank]
    simp only [topN, hr2, mNN]
    rw [selMask_map_map]
    congr 1
    apply maxInitOf_congr
    intro x
    simp only [List.map_append, List.mem_append, List.mem_map, List.mem_filter, calcRank]
    constructor
    · rintro ⟨e, ⟨he, hn⟩, rfl⟩
      rcases qC_cases e with ⟨h1, h2, h3⟩ | ⟨h1, h2, h3⟩ | ⟨h1, h2, h3⟩
      · left
        refine ⟨rankFn d feas (some nb) e.1, ⟨e.1, ?_, rfl⟩, by simp [h1, h2]⟩
        rw [← hfeasdef]; exact List.mem_map.mpr ⟨e, List.mem_filter.mpr ⟨he, h1⟩, rfl⟩
      · right
        refine ⟨rankFn 1 pens (some (nb - (feas.length : Int))) [e.2.getD 0] + tI, ⟨_, ⟨[e.2.getD 0], ?_, rfl⟩, rfl⟩, ?_⟩
        · rw [← hpensdef]; exact List.mem_map.mpr ⟨e, List.mem_filter.mpr ⟨he, h2⟩, rfl⟩
        · simp [h2]; omega
      · simp [h3] at hn
    · rintro (⟨r, ⟨q, hq, rfl⟩, rfl⟩ | ⟨r, ⟨r', ⟨q, hq, rfl⟩, rfl⟩, rfl⟩)
      · rw [← hfeasdef] at hq
        obtain ⟨e, he, rfl⟩ := List.mem_map.mp hq
        obtain ⟨he1, he2⟩ := List.mem_filter.mp he
        have hq2 : qC .infeasible e = false ∧ qC .unknown e = false := by
          rcases qC_cases e with ⟨h1, h2, h3⟩ | ⟨h1, h2, h3⟩ | ⟨h1, h2, h3⟩ <;> simp_all [qC]
        have he2' : qC .feasible e = true := he2
        exact ⟨e, ⟨he1, by simp [hq2.2]⟩, by simp [he2', hq2.1]⟩
      · rw [← hpensdef] at hq
        obtain ⟨e, he, rfl⟩ := List.mem_map.mp hq
        obtain ⟨he1, he2⟩ := List.mem_filter.mp he
        have hq2 : qC .unknown e = false := by
          rcases qC_cases e with ⟨h1, h2, h3⟩ | ⟨h1, h2, h3⟩ | ⟨h1, h2, h3⟩ <;> simp_all [qC]
        refine ⟨e, ⟨he1, by simp [hq2]⟩, ?_⟩
        have he2' : qC .infeasible e = true := he2
        simp [he2']; omega
  generalize htN : topRank (calcRank d feas (some nb) ++ (calcRank 1 pens (some (nb - (feas.length : Int)))).map (· + tI)) = tN at *
  -- third write
  have hcN : (cR d (selMask S mN) nb2).map (fun v => topN + v) =
      (rows.filter (qC .unknown)).map (fun e => (tN : Int) + Int.ofNat (rankFn d unk (some (nb - (feas.length : Int) - (pens.length : Int))) e.1)) := by
    rw [hunk, hnb2, htopN, ← hunkdef]
    simp [cR, calcRank, rowsOf_eq, List.map_map, Function.comp_def]
  rw [hcN, scatterMask_filter_map _ _ rows _ (by rw [hr2]; simp), hr2, zipWith_map_left']
  apply List.map_congr_left
  intro e _
  unfold fastRankFn
  simp only [hfeasdef, hpensdef, hunkdef, htI, htN]
  rcases qC_cases e with ⟨h1, h2, h3⟩ | ⟨h1, h2, h3⟩ | ⟨h1, h2, h3⟩
  · have hc : classify e.2 = .feasible := by simpa [qC] using h1
    simp [h1, h2, h3, hc]
  · have hc : classify e.2 = .infeasible := by simpa [qC] using h2
    simp [h1, h2, h3, hc]
  · have hc : classify e.2 = .unknown := by simpa [qC] using h3
    simp [h1, h2, h3, hc]

theorem selMask_subset {α : Type} : ∀ (l : List α) (b : List Bool), ∀ x ∈ selMask l b, x ∈ l := by
  intro l
  induction l with
  | nil => intro b x hx; cases b <;> simp [selMask] at hx
  | cons a t ih =>
    intro b x hx
    cases b with
    | nil => simp [selMask] at hx
    | cons c cs =>
      cases c
      · simp only [selMask] at hx; exact List.mem_cons_of_mem _ (ih cs x hx)
      · simp only [selMask, List.mem_cons] at hx
        rcases hx with rfl | hx
        · exact List.mem_cons_self ..
        · exact List.mem_cons_of_mem _ (ih cs x hx)

/-- the callee as generated (array reference, loop bound `n_unique`) -/
def cH : Nat → List Pt → Int → List Int := fun d m n => calcRef frontH (uniqueLex m).length d m (some n)

theorem cH_eq_cR (d : Nat) (m : List Pt) (n : Int) (hm : ∀ q ∈ m, q.length = d) : cH d m n = cR d m n :=
  calcRef_eq_calcRank d m hm (some n)

theorem fastRef_rows (d : Nat) (rows : List Row) (hd : ∀ e ∈ rows, e.1.length = d) (nBelow : Option Int)
    (hne : rows ≠ []) (hpos : 0 < nbOr nBelow rows.length) :
    fastRef cH d (rows.map (·.1)) (some (rows.map (·.2))) nBelow =
      .ints (rows.map (fun e => Int.ofNat (fastRankFn d rows (nbOr nBelow rows.length) e))) := by
  have hlen0 : ¬ rows.length = 0 := fun h => hne (List.length_eq_zero_iff.mp h)
  have hSd : ∀ q ∈ rows.map (·.1), q.length = d := by
    intro q hq; obtain ⟨e, he, rfl⟩ := List.mem_map.mp hq; exact hd e he
  unfold fastRef
  simp only [List.length_map, hlen0, if_false, hpos, not_true_eq_false, ne_eq]
  generalize nbOr nBelow rows.length = nb
  have hmF : zipAnd ((isnanOf (rows.map (·.2))).map (fun x => !x)) (penLe0Of (rows.map (·.2))) = rows.map (qC .feasible) := by
    rw [mask_feas, List.map_map]; rfl
  have hmI : zipAnd ((isnanOf (rows.map (·.2))).map (fun x => !x)) (penGt0Of (rows.map (·.2))) = rows.map (qC .infeasible) := by
    rw [mask_infeas, List.map_map]; rfl
  have hmN : isnanOf (rows.map (·.2)) = rows.map (qC .unknown) := by
    rw [mask_nan, List.map_map]; rfl
  have hmNN : (isnanOf (rows.map (·.2))).map (fun x => !x) = rows.map (fun e => !qC .unknown e) := by
    rw [mask_notnan, List.map_map]; rfl
  rw [hmF, hmI, hmNN, hmN]
  simp only [countTrue_map]
  rw [cH_eq_cR d _ _ (fun q hq => hSd q (selMask_subset _ _ q hq)),
    cH_eq_cR d _ _ (fun q hq => hSd q (selMask_subset _ _ q hq)),
    cH_eq_cR 1 _ _ (by intro r hr; simp only [newaxisOf, List.mem_map] at hr; obtain ⟨v, _, rfl⟩ := hr; rfl)]
  have core := fast_core d rows nb
  simp only [] at core
  rw [core]
  have hall : (rows.map (fun e => Int.ofNat (fastRankFn d rows nb e))).all (fun v => v != -1) = true := by
    rw [List.all_eq_true]
    intro v hv
    obtain ⟨e, _, rfl⟩ := List.mem_map.mp hv
    have : Int.ofNat (fastRankFn d rows nb e) ≠ -1 := by simp only [Int.ofNat_eq_natCast]; omega
    simpa using this
  rw [if_pos hall]

/-- **fastRef_eq_fastRank** — the three-scatter reference of the constrained branch, with the callee as generated, is the hand model
`Rank.fastRank`: every array of rows with `d` columns (no rows included), every penalty vector of that length (NaN entries, an empty feasible /
infeasible / NaN group), every `n_below` -/
theorem fastRef_eq_fastRank (d : Nat) (S : List Pt) (hS : ∀ q ∈ S, q.length = d) (pen : List (Option Int)) (hlen : pen.length = S.length)
    (nBelow : Option Nat) :
    fastRef cH d S (some pen) (nBelow.map Int.ofNat) = .ints (((fastRank d S (some pen) nBelow).getD []).map Int.ofNat) := by
  by_cases hS0 : S = []
  · subst hS0
    simp [fastRef, fastRank]
  · have h1 : (S.zip pen).map (·.1) = S := List.map_fst_zip (by omega)
    have h2 : (S.zip pen).map (·.2) = pen := List.map_snd_zip (by omega)
    have hl : (S.zip pen).length = S.length := by simp [hlen]
    have hne : S.zip pen ≠ [] := by
      intro h; apply hS0; rw [← h1, h]; rfl
    have hSl : 0 < S.length := List.length_pos_iff.mpr hS0
    have hd : ∀ e ∈ S.zip pen, e.1.length = d := by
      intro e he; exact hS e.1 (List.of_mem_zip he).1
    have hemp : S.isEmpty = false := by cases S with | nil => exact absurd rfl hS0 | cons a t => rfl
    have hpos : 0 < nbOr (nBelow.map Int.ofNat) (S.zip pen).length := by
      rw [hl]
      cases nBelow with
      | none => simp only [Option.map_none, nbOr]; omega
      | some n => by_cases h0 : n = 0 <;> simp [nbOr, h0] <;> omega
    have key := fastRef_rows d (S.zip pen) hd (nBelow.map Int.ofNat) hne hpos
    rw [h1, h2] at key
    rw [key]
    unfold fastRank
    simp only [hemp, Bool.false_eq_true, if_false, hlen, ne_eq, not_true_eq_false, Option.getD_some, List.map_map, hl]
    congr 1
    cases nBelow with
    | none => rfl
    | some n => by_cases h0 : n = 0 <;> simp [nbOr, h0, Function.comp_def]

end OptunaVerif.RankIR
