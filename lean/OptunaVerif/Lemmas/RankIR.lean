import OptunaVerif.Generated.RankMethods
/-! Flag-free references for the two rank functions and the lemmas of the interpreter tie (`Props/C15Gen.lean`, rank part).  Core Lean only. -/
set_option linter.unusedSimpArgs false
namespace OptunaVerif.RankIR
open OptunaVerif OptunaVerif.Hypervolume

/-- `n_below` as the interpreter receives it -/
def nbRV : Option Int → RV
  | none => .none_
  | some n => .int n

def penRV : Option (List (Option Int)) → RV
  | none => .none_
  | some p => .pen p

/-- the state of the peeling loop: `rank`, `indices`, `unique_lexsorted_loss_values`, `ranks` -/
structure PeelSt where
  rank : Int
  indices : List Int
  arr : List Pt
  ranks : List Int
deriving Repr

/-- the `while n_unique - indices.size < n_below` loop: the rows on the front of what is left get the current rank (a scatter write through
`indices`), they are removed from `indices` and from the array, the rank goes up -/
def peelRef (front : Nat → List Pt → List Pt) (d : Nat) (nU nb : Int) : Nat → PeelSt → PeelSt
  | 0, st => st
  | fuel + 1, st =>
    if nU - (st.indices.length : Int) < nb then
      let on := frontMaskOf front d st.arr
      peelRef front d nU nb fuel
        { rank := st.rank + 1, indices := selMask st.indices (on.map (fun x => !x)), arr := selMask st.arr (on.map (fun x => !x)),
          ranks := scatterIdx st.ranks (selMask st.indices on) st.rank }
    else st

/-- `n_below or n` -/
def nbOr (nb : Option Int) (n : Nat) : Int :=
  match nb with
  | none => (n : Int)
  | some k => if k = 0 then (n : Int) else k

/-- `min(n_below or n_unique, n_unique)` -/
def nbClip (nb : Option Int) (nU : Nat) : Int := min (nbOr nb nU) (nU : Int)

/-- `_calculate_nondomination_rank(S, n_below=nb)`: all zeros for an empty array or a non-positive `n_below`; for one objective the position of
the value among the sorted distinct values; else: rows made unique and sorted, `n_below` clipped to the number of unique rows, the peeling loop,
the rows that were never reached get the last rank, every row reads the rank of its unique row -/
def calcRef (front : Nat → List Pt → List Pt) (fuel d : Nat) (S : List Pt) (nb : Option Int) : List Int :=
  if Rank.trivialCase S nb then List.replicate S.length 0
  else if d = 1 then uniqueInvCol0Of S
  else
    let U := uniqueLex S
    let nb' : Int := nbClip nb U.length
    let st := peelRef front d U.length nb' fuel
      { rank := 0, indices := (List.range U.length).map Int.ofNat, arr := U, ranks := List.replicate U.length 0 }
    (uniqueInvOf S).map (fun j => (scatterIdx st.ranks st.indices st.rank).getD j.toNat 0)

/-- `_fast_non_domination_rank(S, penalty=pen, n_below=nBelow)` with the callee `c` = `_calculate_nondomination_rank(·, n_below=·)` -/
def fastRef (c : Nat → List Pt → Int → List Int) (d : Nat) (S : List Pt) (pen : Option (List (Option Int))) (nBelow : Option Int) : RV :=
  if S.length = 0 then .ints []
  else
    let nb : Int := nbOr nBelow S.length
    if ¬ 0 < nb then .assertionError
    else match pen with
    | none => .ints (c d S nb)
    | some p =>
      if p.length ≠ S.length then .valueError
      else
        let isNan := isnanOf p
        let isF := zipAnd (isNan.map (fun x => !x)) (penLe0Of p)
        let isI := zipAnd (isNan.map (fun x => !x)) (penGt0Of p)
        -- feasible rows: ranks by domination
        let r1 := scatterMask (List.replicate S.length (-1)) isF (c d (selMask S isF) nb)
        let nb1 := nb - countTrueOf isF
        -- infeasible rows: after every feasible rank, by the penalty alone
        let topI := maxInitOf (selMask r1 isF) (-1) + 1
        let r2 := scatterMask r1 isI ((c 1 (newaxisOf (selMask p isI)) nb1).map (fun v => topI + v))
        let nb2 := nb1 - countTrueOf isI
        -- rows without penalty information: after every rank given so far, by domination
        let topN := maxInitOf (selMask r2 (isNan.map (fun x => !x))) (-1) + 1
        let r3 := scatterMask r2 isNan ((c d (selMask S isNan) nb2).map (fun v => topN + v))
        if r3.all (fun v => v != -1) then .ints r3 else .assertionError

theorem rget_cons (k : String) (v : RV) (env : Env) (n : String) :
    rget ((k, v) :: env) n = if k == n then v else rget env n := by
  unfold rget
  simp only [List.find?_cons]
  cases h : (k == n) <;> simp

theorem rget_nil (n : String) : rget [] n = .err := rfl

theorem rset_cons (k : String) (w : RV) (t : Env) (n : String) (v : RV) :
    rset ((k, w) :: t) n v = if k == n then (k, v) :: t else (k, w) :: rset t n v := rfl

theorem rset_nil (n : String) (v : RV) : rset [] n v = [(n, v)] := rfl

end OptunaVerif.RankIR
