import OptunaVerif.Lemmas.RdbViews
import OptunaVerif.Lemmas.RdbSpec
/-! The abstraction relation between the relational model and the contract model, and what follows
from it for the reading calls.  Core Lean only. -/
set_option linter.unusedSimpArgs false
set_option linter.unusedSectionVars false
set_option linter.unusedVariables false
namespace OptunaVerif.Rdb
open OptunaVerif OptunaVerif.Storage

/-- `paramDist` is book-keeping of the contract model, not something a storage returns -/
def erasePD (st : StudyS) : StudyS := { st with paramDist := [] }

/-- `x` is a `trial_params` row of parameter `name` of a trial of study `sid` (the rows the query of
`_check_compatibility_with_previous_trial_param_distributions` ranges over) -/
def State.paramRowOf (r : State) (sid : Nat) (name : String) (x : KRow String Param) : Prop :=
  x ∈ r.params ∧ x.key = name ∧ r.trialStudy? x.owner = some sid

/-- the study has a row for the name whose distribution is compatible with `d1` -/
def PDist (r : State) (sid : Nat) (name : String) (d1 : Dist) : Prop :=
  ∃ x, r.paramRowOf sid name x ∧ x.val.dist.compat d1 = true

/-- within a study, all rows of one parameter name carry pairwise compatible distributions (this is why
it does not matter which row the `LIMIT 1` query of the compatibility check returns) -/
def PC (r : State) : Prop :=
  ∀ sid name x y, r.paramRowOf sid name x → r.paramRowOf sid name y → x.val.dist.compat y.val.dist = true

/-- **Abstraction relation** `Abs r a`: the tables `r` present the contract state `a`.
It is a relation and not a function because two components of `a` cannot be recomputed from the
tables: the records of the trials of deleted studies (the contract keeps them as dead entries, the
cascade deletes their rows) and `paramDist` (which distribution the last `set_trial_param` fixed). -/
structure Abs (r : State) (a : Spec) : Prop where
  inv : Inv r
  nStudies : a.studies.length = r.nStudy
  nTrials : a.trials.length = r.nTrial
  /-- every live study reads the same from both -/
  study : ∀ sid, (a.study? sid).map erasePD = r.studyView sid
  /-- every live trial reads the same from both; dead or unknown ids have no row -/
  trial : ∀ tid, a.trial? tid = r.trialView tid
  bound : ∀ (i : Nat) (t : TrialS), a.trials[i]? = some t → t.study < a.studies.length
  /-- what `set_trial_param` fixed is compatible with every row the RDB compatibility query can return -/
  pdist : ∀ sid st name d1, a.study? sid = some st → st.paramDist.get? name = some d1 → PDist r sid name d1
  pc : PC r
  /-- (holds along well-formed histories) only finished trials carry values -/
  unfin : ∀ tid t, a.trial? tid = some t → t.state.isFinished = false → t.values = none
  /-- (holds along well-formed histories) objective values are never NaN -/
  nonan : ∀ tid t l, a.trial? tid = some t → t.values = some l → ∀ v ∈ l, v ≠ XVal.nan
  /-- (holds along well-formed histories) a study has at least one direction, each MINIMIZE or MAXIMIZE -/
  dirsOk : ∀ sid st, a.study? sid = some st → st.directions ≠ [] ∧ ∀ d ∈ st.directions, d = 1 ∨ d = 2

theorem abs_init : Abs init Storage.init := by
  refine ⟨inv_init, rfl, rfl, ?_, ?_, ?_, ?_, ?_, ?_, ?_, ?_⟩
  · intro sid; simp [Storage.init, Spec.study?, State.studyView, State.studyRow?, init]
  · intro tid; simp [Storage.init, Spec.trial?, State.trialView, State.trialRow?, init]
  · intro i t h; simp [Storage.init] at h
  · intro sid st name d1 h; simp [Storage.init, Spec.study?] at h
  · intro sid name x y hx; simp [State.paramRowOf, init] at hx
  · intro tid t h; simp [Storage.init, Spec.trial?] at h
  · intro tid t l h; simp [Storage.init, Spec.trial?] at h
  · intro sid st h; simp [Storage.init, Spec.study?] at h

/-! ## studies -/

theorem abs_study_some (r : State) (a : Spec) (h : Abs r a) (sid : Nat) (st : StudyS) (hs : a.study? sid = some st) :
    ∃ row, r.studyRow? sid = some row ∧ (frozenStudy r row).2 = erasePD st := by
  have := h.study sid
  rw [hs] at this
  unfold State.studyView at this
  cases hr : r.studyRow? sid with
  | none => simp [hr] at this
  | some row =>
    simp only [hr, Option.map_some, Option.some.injEq] at this
    exact ⟨row, rfl, this.symm⟩

theorem abs_study_none (r : State) (a : Spec) (h : Abs r a) (sid : Nat) (hs : a.study? sid = none) :
    r.studyRow? sid = none := by
  have := h.study sid
  rw [hs] at this
  unfold State.studyView at this
  cases hr : r.studyRow? sid with
  | none => rfl
  | some row => simp [hr] at this

theorem abs_study_row (r : State) (a : Spec) (h : Abs r a) (sid : Nat) (row : StudyRow) (hr : r.studyRow? sid = some row) :
    ∃ st, a.study? sid = some st ∧ (frozenStudy r row).2 = erasePD st := by
  cases hs : a.study? sid with
  | none => rw [abs_study_none r a h sid hs] at hr; simp at hr
  | some st =>
    obtain ⟨row', h1, h2⟩ := abs_study_some r a h sid st hs
    rw [hr] at h1
    simp only [Option.some.injEq] at h1
    subst h1
    exact ⟨st, rfl, h2⟩

/-- `find_or_raise_by_id` on studies against the contract's `study?` -/
theorem findStudy_abs (r : State) (a : Spec) (h : Abs r a) (sid : Nat) :
    (∃ row st, findStudy r sid = .ok row ∧ r.studyRow? sid = some row ∧ a.study? sid = some st ∧
        (frozenStudy r row).2 = erasePD st) ∨
    (findStudy r sid = .error (.api .keyError) ∧ a.study? sid = none ∧ r.studyRow? sid = none) := by
  rw [findStudy_eq r h.inv.1]
  cases hs : a.study? sid with
  | none =>
    have := abs_study_none r a h sid hs
    unfold State.studyRow? at this
    right
    simp [this, State.studyRow?]
  | some st =>
    obtain ⟨row, h1, h2⟩ := abs_study_some r a h sid st hs
    left
    unfold State.studyRow? at h1
    refine ⟨row, st, by simp [h1], h1, rfl, h2⟩

/-! ## trials -/

theorem abs_trial_row (r : State) (a : Spec) (h : Abs r a) (tid : Nat) (row : TrialRow) (hr : r.trialRow? tid = some row) :
    a.trial? tid = some (r.rowView row) := by
  rw [h.trial tid]; simp [State.trialView, hr]

theorem abs_trial_none (r : State) (a : Spec) (h : Abs r a) (tid : Nat) (hr : r.trialRow? tid = none) :
    a.trial? tid = none := by
  rw [h.trial tid]; simp [State.trialView, hr]

/-- the study of a trial row is live in the contract state -/
theorem abs_row_study_live (r : State) (a : Spec) (h : Abs r a) (row : TrialRow) (hr : row ∈ r.trials) :
    (a.study? row.study).isSome = true := by
  have h1 := abs_trial_row r a h row.id row (trialRow?_of_mem r h.inv.1 row hr)
  rw [trial?_some_iff] at h1
  exact h1.2

/-- `find_or_raise_by_id` + `check_trial_is_updatable` against the contract's `writable` -/
theorem updatable_abs (r : State) (a : Spec) (h : Abs r a) (tid : Nat) :
    (∃ row, updatableTrial r tid = .ok row ∧ r.trialRow? tid = some row ∧ a.writable tid = .ok (r.rowView row)) ∨
    (∃ e, updatableTrial r tid = .error (.api e) ∧ a.writable tid = .error e) := by
  unfold updatableTrial Spec.writable
  rw [findTrial_eq r h.inv.1]
  cases hr : r.trials.find? (fun x => x.id == tid) with
  | none =>
    right
    have : r.trialRow? tid = none := hr
    rw [abs_trial_none r a h tid this]
    exact ⟨.keyError, rfl, rfl⟩
  | some row =>
    have hrow : r.trialRow? tid = some row := hr
    rw [abs_trial_row r a h tid row hrow]
    simp only
    by_cases hf : row.state.isFinished = true
    · right; exact ⟨.updateFinished, by simp [hf], by simp [State.rowView, hf]⟩
    · left; exact ⟨row, by simp [hf], hrow, by simp [State.rowView, hf]⟩

/-- **the listing of a live study's trials** is the same on both sides -/
theorem abs_trialsOf (r : State) (a : Spec) (h : Abs r a) (sid : Nat) (hlive : (a.study? sid).isSome = true) :
    a.trialsOf sid = (r.trials.filter (fun x => x.study == sid)).map (fun x => (x.id, r.rowView x)) := by
  apply trialsOf_eq_of_pointwise a sid hlive
  · rw [List.pairwise_map]
    exact (h.inv.1.trialsSorted.sublist List.filter_sublist).imp (by intro x y hxy; exact hxy)
  · intro i t
    rw [h.trial i]
    simp only [List.mem_map, List.mem_filter, beq_iff_eq, Prod.mk.injEq]
    constructor
    · rintro ⟨row, ⟨hrow, hst⟩, hid, hv⟩
      subst hid
      rw [State.trialView, trialRow?_of_mem r h.inv.1 row hrow]
      exact ⟨by simp [hv], by rw [← hv]; exact hst⟩
    · rintro ⟨hv, hst⟩
      unfold State.trialView at hv
      cases hrow : r.trialRow? i with
      | none => simp [hrow] at hv
      | some row =>
        simp only [hrow, Option.map_some, Option.some.injEq] at hv
        obtain ⟨hm, hid⟩ := trialRow?_some r i row hrow
        exact ⟨row, ⟨hm, by rw [← hv] at hst; exact hst⟩, hid, hv⟩

/-- a dead or unknown study has no trial rows (FOREIGN KEY + cascade) -/
theorem abs_no_rows_of_dead (r : State) (a : Spec) (h : Abs r a) (sid : Nat) (hd : a.study? sid = none) :
    r.trials.filter (fun x => x.study == sid) = [] := by
  rw [List.filter_eq_nil_iff]
  intro row hrow hs
  simp only [beq_iff_eq] at hs
  have := abs_row_study_live r a h row hrow
  rw [hs, hd] at this
  simp at this

/-- **the listing of the live studies** is the same on both sides (up to `paramDist`) -/
theorem abs_liveStudies (r : State) (a : Spec) (h : Abs r a) :
    (liveStudies a).map (fun p => (p.1, erasePD p.2)) = r.studies.map (frozenStudy r) := by
  apply sorted_ext
  · rw [List.pairwise_map]
    exact (liveStudies_sorted a).imp (by intro x y hxy; exact hxy)
  · rw [List.pairwise_map]
    exact h.inv.1.studiesSorted.imp (by intro x y hxy; exact hxy)
  · intro x
    obtain ⟨i, st'⟩ := x
    simp only [List.mem_map, Prod.mk.injEq]
    constructor
    · rintro ⟨p, hp, e1, e2⟩
      obtain ⟨j, st⟩ := p
      simp only at e1 e2
      subst e1
      rw [mem_liveStudies] at hp
      obtain ⟨row, h1, h2⟩ := abs_study_some r a h j st hp
      obtain ⟨hm, hid⟩ := studyRow?_some r j row h1
      refine ⟨row, hm, ?_⟩
      rw [← e2, ← h2]
      show (row.id, (frozenStudy r row).2) = _
      rw [hid]
    · rintro ⟨row, hm, e⟩
      obtain ⟨st, h1, h2⟩ := abs_study_row r a h row.id row (studyRow?_of_mem r h.inv.1 row hm)
      refine ⟨(row.id, st), (mem_liveStudies a row.id st).mpr h1, ?_⟩
      have e1 : (frozenStudy r row).1 = i := by rw [e]
      have e2 : (frozenStudy r row).2 = st' := by rw [e]
      exact ⟨e1, by rw [← e2, h2]⟩

end OptunaVerif.Rdb
