import OptunaVerif.Lemmas.RdbGetters
import OptunaVerif.Lemmas.Best
/-! `get_trial_id_from_study_id_trial_number` and `get_best_trial` of the relational model against the
contract model (refinement, part 2).  Core Lean only. -/
set_option linter.unusedSimpArgs false
set_option linter.unusedSectionVars false
set_option linter.unusedVariables false
namespace OptunaVerif.Rdb
open OptunaVerif OptunaVerif.Storage

/-! ## trial id from number -/

theorem find?_number (q : List TrialRow) (k n : Nat) (h : q.map (·.number) = List.range' k q.length) :
    q.find? (fun x => x.number == n) = if n < k then none else q[n - k]? := by
  induction q generalizing k with
  | nil => simp
  | cons x t ih =>
    simp only [List.map_cons, List.length_cons, List.range'_succ, List.cons.injEq] at h
    obtain ⟨h1, h2⟩ := h
    simp only [List.find?_cons]
    by_cases hn : x.number = n
    · have : ¬ n < k := by omega
      have e : n - k = 0 := by omega
      simp [hn, this, e]
    · have hb : (x.number == n) = false := by simpa using hn
      simp only [hb]
      rw [ih (k + 1) h2]
      by_cases hlt : n < k
      · have : n < k + 1 := by omega
        simp [hlt, this]
      · have hgt : ¬ n < k + 1 := by omega
        have e : n - k = (n - (k + 1)) + 1 := by omega
        simp [hlt, hgt, e]

theorem numbers_distinct (q : List TrialRow) (k : Nat) (h : q.map (·.number) = List.range' k q.length) (n : Nat) :
    q.Pairwise (fun x y => ¬((x.number == n) = true ∧ (y.number == n) = true)) := by
  induction q generalizing k with
  | nil => exact List.Pairwise.nil
  | cons x t ih =>
    simp only [List.map_cons, List.length_cons, List.range'_succ, List.cons.injEq] at h
    obtain ⟨h1, h2⟩ := h
    rw [List.pairwise_cons]
    refine ⟨?_, ih (k + 1) h2⟩
    intro y hy ⟨hx, hyn⟩
    simp only [beq_iff_eq] at hx hyn
    have : y.number ∈ List.range' (k + 1) t.length := by
      rw [← h2]; exact List.mem_map.mpr ⟨y, hy, rfl⟩
    rw [List.mem_range'_1] at this
    omega

theorem sim_getTrialIdFromNumber (r : State) (a : Spec) (h : Abs r a) (sid number : Nat) :
    Allowed (step r (.getTrialIdFromNumber sid number)).2 (Storage.step a (.getTrialIdFromNumber sid number)).2 := by
  have hsplit : r.trials.filter (fun x => x.number == number && x.study == sid) =
      (r.trials.filter (fun x => x.study == sid)).filter (fun x => x.number == number) := by
    rw [List.filter_filter]
  have hnum := h.inv.2 sid
  rw [List.range_eq_range'] at hnum
  simp only [step, Storage.step, ro, commit, hsplit,
    oneOrNone_filter _ _ (numbers_distinct _ 0 hnum number), find?_number _ 0 number hnum]
  cases hs : a.study? sid with
  | none =>
    simp [abs_no_rows_of_dead r a h sid hs, Allowed]
  | some st =>
    simp only [abs_trialsOf r a h sid (by simp [hs]), List.getElem?_map, Nat.not_lt_zero, if_false, Nat.sub_zero]
    cases (r.trials.filter (fun x => x.study == sid))[number]? with
    | none => simp [Allowed]
    | some row => simp [Allowed]

/-! ## best trial -/

/-- the first value row of a trial is the one `objective = 0` finds -/
theorem atKey_zero (s : State) (h : Inv0 s) (tid : Nat) :
    Tbl.atKey s.values tid 0 = (Tbl.ofOwner s.values tid).take 1 := by
  have hk := h.objectives tid
  have e : Tbl.atKey s.values tid 0 = (Tbl.ofOwner s.values tid).filter (fun x => decide (x.key = 0)) := by
    unfold Tbl.atKey Tbl.ofOwner
    rw [List.filter_filter]
    apply List.filter_congr
    intro x _
    exact Bool.and_comm _ _
  rw [e]
  generalize Tbl.ofOwner s.values tid = rows at hk
  cases rows with
  | nil => rfl
  | cons x rest =>
    rw [List.range_eq_range'] at hk
    simp only [List.map_cons, List.length_cons, List.range'_succ, List.cons.injEq] at hk
    obtain ⟨h1, h2⟩ := hk
    have : rest.filter (fun x => decide (x.key = 0)) = [] := by
      rw [List.filter_eq_nil_iff]
      intro y hy
      have : y.key ∈ List.range' (0 + 1) rest.length := by rw [← h2]; exact List.mem_map.mpr ⟨y, hy, rfl⟩
      rw [List.mem_range'_1] at this
      simp; omega
    simp [List.filter_cons, h1, this]

/-- `FrozenTrial.values[0]` of a trial row in terms of its first value row -/
theorem value0_rowView (s : State) (h : Inv0 s) (row : TrialRow) :
    (s.rowView row).value0? = ((Tbl.atKey s.values row.id 0).head?).bind (fun x => decV x.val) := by
  rw [atKey_zero s h]
  unfold TrialS.value0? State.rowView State.valuesView
  simp only
  cases hrows : Tbl.ofOwner s.values row.id with
  | nil => rfl
  | cons x rest =>
    obtain ⟨v, e⟩ := h.valuesEnc x (by
      have : x ∈ Tbl.ofOwner s.values row.id := by rw [hrows]; simp
      exact ((Tbl.mem_ofOwner _ _ _).mp this).1)
    simp [List.filterMap_cons, e, decV_encV]

theorem toBestVal_enc (e : Best.EVal) : toBestVal (encV e.toX) = Best.encode e := by
  cases e <;> simp [toBestVal, encV, Best.EVal.toX, Best.encode,
    Generated.RdbCodec.TrialValueModel.value_to_stored_repr, Generated.RdbCodec.pyFloatEq]

theorem encV_inj (v w : XVal) (h : encV v = encV w) : v = w := by
  have := congrArg decV h
  simpa [decV_encV] using this

theorem ofX_toX (v : XVal) (hv : v ≠ .nan) : ∃ e : Best.EVal, e.toX = v := by
  cases v with
  | nan => exact absurd rfl hv
  | ninf => exact ⟨.ninf, rfl⟩
  | pinf => exact ⟨.pinf, rfl⟩
  | fin q => exact ⟨.fin q, rfl⟩

/-- a list all of whose entries are encodings is the image of its decoded list -/
theorem decode_list (C : List (Nat × SVal)) (h : ∀ c ∈ C, ∃ e : Best.EVal, c.2 = encV e.toX) :
    ∃ D : List (Nat × Best.EVal), C = D.map (fun x => (x.1, encV x.2.toX)) := by
  induction C with
  | nil => exact ⟨[], rfl⟩
  | cons c t ih =>
    obtain ⟨D, hD⟩ := ih (fun x hx => h x (List.mem_cons_of_mem _ hx))
    obtain ⟨e, he⟩ := h c (by simp)
    refine ⟨(c.1, e) :: D, ?_⟩
    simp only [List.map_cons, ← hD, ← he]

theorem sim_getBestTrial (r : State) (a : Spec) (h : Abs r a) (sid : Nat) :
    Allowed (step r (.getBestTrial sid)).2 (Storage.step a (.getBestTrial sid)).2 := by
  simp only [step, Storage.step, getBestTrial, getDirections]
  rcases findStudy_abs r a h sid with ⟨srow, st, h1, h2, h3, h4⟩ | ⟨h1, h2, _⟩
  rotate_left
  · simp [h1, h2, commit, Allowed]
  have hsid := (studyRow?_some r sid srow h2).2
  have hdirs : (Tbl.ofOwner r.dirs sid).map (·.val) = st.directions := by
    have := (frozen_fields r srow st h4).2.1
    rw [hsid] at this; exact this
  obtain ⟨hne, hcodes⟩ := h.dirsOk sid st h3
  simp only [h1, h3, hdirs]
  -- the shape of the directions
  cases hd : st.directions with
  | nil => exact absurd hd hne
  | cons d rest =>
    cases rest with
    | cons d2 rest2 => simp [commit, Allowed]
    | nil =>
      simp only [List.length_cons, List.length_nil, Nat.lt_irrefl, decide_false, Bool.false_eq_true, if_false,
        Nat.zero_add, gt_iff_lt]
      have hd12 : d = 1 ∨ d = 2 := hcodes d (by rw [hd]; simp)
      have huse : Best.rdbUseMax (dirOfCode d) = (d == 2) := by
        rw [Best.rdbUseMax_eq]; unfold dirOfCode
        rcases hd12 with e | e <;> subst e <;> rfl
      have hlive : (a.study? sid).isSome = true := by simp [h3]
      have hL := abs_trialsOf r a h sid hlive
      -- every candidate of the query is (row id, encoding of the first value of a COMPLETE trial of the study)
      have hM1 : ∀ c ∈ bestCandidates r sid Generated.Best.rdbObjectiveIndex,
          ∃ row v, row ∈ r.trials ∧ row.study = sid ∧ row.state = .complete ∧ c = (row.id, encV v) ∧
            (r.rowView row).value0? = some v ∧ v ≠ .nan := by
        intro c hc
        unfold bestCandidates at hc
        simp only [List.mem_flatMap, List.mem_filter, Bool.and_eq_true, beq_iff_eq, List.mem_map] at hc
        obtain ⟨row, ⟨hrow, hst, hcomp⟩, x, hx, e⟩ := hc
        have hv0 := value0_rowView r h.inv.1 row
        have hz : Generated.Best.rdbObjectiveIndex = 0 := rfl
        rw [hz] at hx
        have hone : Tbl.atKey r.values row.id 0 = [x] := by
          rcases (Tbl.oneOrNone_atKey r.values r.nValue h.inv.1.values row.id 0) with ho
          cases hq : Tbl.atKey r.values row.id 0 with
          | nil => rw [hq] at hx; simp at hx
          | cons y t =>
            cases t with
            | nil => rw [hq] at hx; simp at hx; rw [hx]
            | cons z t2 => rw [hq] at ho; simp [oneOrNone] at ho
        obtain ⟨v, ev⟩ := h.inv.1.valuesEnc x ((List.mem_filter.mp hx).1)
        rw [hone] at hv0
        simp only [List.head?_cons, Option.bind_some, ev, decV_encV] at hv0
        have hnn : v ≠ .nan := by
          have ht := abs_trial_row r a h row.id row (trialRow?_of_mem r h.inv.1 row hrow)
          have hvals : ∃ l, (r.rowView row).values = some l ∧ v ∈ l := by
            unfold TrialS.value0? at hv0
            cases hvv : (r.rowView row).values with
            | none => simp [hvv] at hv0
            | some l =>
              cases l with
              | nil => simp [hvv] at hv0
              | cons w t => simp [hvv] at hv0; exact ⟨w :: t, rfl, by simp [hv0]⟩
          obtain ⟨l, hl1, hl2⟩ := hvals
          exact h.nonan row.id _ l ht hl1 v hl2
        exact ⟨row, v, hrow, hst, hcomp, by rw [← e, ev], hv0, hnn⟩
      -- every COMPLETE trial with a value that the contract looks at is a candidate of the query
      have hM2 : ∀ q ∈ completeWithValue (a.trialsOf sid),
          (q.1, encV q.2.2) ∈ bestCandidates r sid Generated.Best.rdbObjectiveIndex := by
        intro q hq
        unfold completeWithValue at hq
        rw [hL] at hq
        simp only [List.mem_filterMap, List.mem_map, List.mem_filter, beq_iff_eq] at hq
        obtain ⟨p, ⟨row, ⟨hrow, hst⟩, ep⟩, hq2⟩ := hq
        subst ep
        simp only at hq2
        split at hq2
        rotate_left
        · simp at hq2
        rename_i hcomp
        simp only [Option.map_eq_some_iff] at hq2
        obtain ⟨v, hv, eq⟩ := hq2
        subst eq
        have hv0 := value0_rowView r h.inv.1 row
        rw [hv] at hv0
        cases hq : Tbl.atKey r.values row.id 0 with
        | nil => rw [hq] at hv0; simp at hv0
        | cons x t =>
          rw [hq] at hv0
          simp only [List.head?_cons, Option.bind_some] at hv0
          obtain ⟨w, ew⟩ := h.inv.1.valuesEnc x (by
            have : x ∈ Tbl.atKey r.values row.id 0 := by rw [hq]; simp
            exact (List.mem_filter.mp this).1)
          rw [ew, decV_encV] at hv0
          simp only [Option.some.injEq] at hv0
          subst hv0
          unfold bestCandidates
          simp only [List.mem_flatMap, List.mem_filter, Bool.and_eq_true, beq_iff_eq, List.mem_map]
          refine ⟨row, ⟨hrow, hst, by simpa [State.rowView] using hcomp⟩, x, ?_, by rw [ew]⟩
          have hz : Generated.Best.rdbObjectiveIndex = 0 := rfl
          rw [hz, hq]; simp
      obtain ⟨D, hD⟩ := decode_list (bestCandidates r sid Generated.Best.rdbObjectiveIndex) (by
        intro c hc
        obtain ⟨row, v, _, _, _, e, _, hnn⟩ := hM1 c hc
        obtain ⟨ev, hev⟩ := ofX_toX v hnn
        exact ⟨ev, by rw [e, hev]⟩)
      unfold findBestTrialId
      rw [hD, Best.firstBest_map (fun x : Nat × Best.EVal => (x.1, encV x.2.toX))
        (fun y cur => if (d == 2) then cur.2.lt y.2 else y.2.lt cur.2) _
        (by intro y c; simp only [toBestVal_enc, Best.sqlBefore_encode, huse])]
      have hpick : Best.firstBest (fun (y cur : Nat × Best.EVal) => if (d == 2) then cur.2.lt y.2 else y.2.lt cur.2) D =
          Best.pyPick (d == 2) (fun x => x.2) D := rfl
      rw [hpick]
      cases hp : Best.pyPick (d == 2) (fun x => x.2) D with
      | none =>
        rw [Best.pyPick_none] at hp
        have hC : bestCandidates r sid Generated.Best.rdbObjectiveIndex = [] := by rw [hD, hp]; rfl
        have hc : completeWithValue (a.trialsOf sid) = [] := by
          cases hcc : completeWithValue (a.trialsOf sid) with
          | nil => rfl
          | cons q t =>
            have := hM2 q (by rw [hcc]; simp)
            rw [hC] at this; simp at this
        simp [bestSet, hc, commit, Allowed]
      | some best =>
        obtain ⟨hbm, hball⟩ := Best.pyPick_some _ _ _ _ hp
        have hbc : (best.1, encV best.2.toX) ∈ bestCandidates r sid Generated.Best.rdbObjectiveIndex := by
          rw [hD]; exact List.mem_map.mpr ⟨best, hbm, rfl⟩
        obtain ⟨row, v, hrow, hst, hcomp, e, hv0, hnn⟩ := hM1 _ hbc
        simp only [Prod.mk.injEq] at e
        obtain ⟨e1, e2⟩ := e
        have ev : best.2.toX = v := encV_inj _ _ e2
        simp only [Option.map_some, getTrial_eq r h.inv.1, e1, trialRow?_of_mem r h.inv.1 row hrow]
        -- the contract's optimum set contains this trial
        have hmemc : (row.id, r.rowView row, v) ∈ completeWithValue (a.trialsOf sid) := by
          unfold completeWithValue
          rw [hL]
          simp only [List.mem_filterMap, List.mem_map, List.mem_filter, beq_iff_eq]
          refine ⟨(row.id, r.rowView row), ⟨row, ⟨hrow, hst⟩, rfl⟩, ?_⟩
          have : (r.rowView row).state = .complete := by simpa [State.rowView] using hcomp
          simp [this, hv0]
        have hopt : ∀ q ∈ completeWithValue (a.trialsOf sid), Storage.betterEq d v q.2.2 = true := by
          intro q hq
          have hqc := hM2 q hq
          rw [hD] at hqc
          obtain ⟨z, hz, ez⟩ := List.mem_map.mp hqc
          simp only [Prod.mk.injEq] at ez
          have ezv : z.2.toX = q.2.2 := encV_inj _ _ ez.2
          have hb := hball z hz
          rw [← ev, ← ezv]
          rcases hd12 with e | e <;> subst e <;>
            simpa [Storage.betterEq, Best.betterEq, Best.EVal.le] using hb
        have hin : (row.id, r.rowView row) ∈ bestSet d (a.trialsOf sid) := by
          unfold bestSet
          simp only [List.mem_map, List.mem_filter, List.all_eq_true]
          exact ⟨(row.id, r.rowView row, v), ⟨hmemc, hopt⟩, rfl⟩
        cases hbs : bestSet d (a.trialsOf sid) with
        | nil => rw [hbs] at hin; simp at hin
        | cons x t =>
          simp only [commit, Allowed]
          exact ⟨(row.id, r.rowView row), by rw [← hbs]; exact hin, rfl⟩

end OptunaVerif.Rdb
