import OptunaVerif.Lemmas.RdbMut5
/-! The field-by-field writes of `_get_prepared_new_trial` (template trial): what a loop of
`_without_commit` setters does to a table for a trial that has no rows yet.  Core Lean only. -/
set_option linter.unusedSimpArgs false
set_option linter.unusedSectionVars false
set_option linter.unusedVariables false
namespace OptunaVerif.Rdb
open OptunaVerif OptunaVerif.Storage

namespace Tbl
variable {κ ν : Type} [DecidableEq κ]

/-- `for k, v in d.items(): upsert(owner, k, v)` -/
def bulk (t : List (KRow κ ν)) (n : Nat) (o : Nat) : List (κ × ν) → List (KRow κ ν) × Nat
  | [] => (t, n)
  | (k, v) :: rest => bulk (upsertConflict t n o k v).1 (upsertConflict t n o k v).2 o rest

theorem bulk_spec {β : Type} (f : ν → β) (t : List (KRow κ ν)) (n : Nat) (h : TblInv t n) (o : Nat) (l : List (κ × ν))
    (hd : l.Pairwise (fun a b => a.1 ≠ b.1)) (hfresh : ∀ p ∈ l, ∀ x ∈ t, ¬(x.owner = o ∧ x.key = p.1)) :
    TblInv (bulk t n o l).1 (bulk t n o l).2 ∧
    kv f (bulk t n o l).1 o = kv f t o ++ l.map (fun p => (p.1, f p.2)) ∧
    (∀ o', o' ≠ o → ofOwner (bulk t n o l).1 o' = ofOwner t o') ∧
    (∀ x ∈ (bulk t n o l).1, x ∈ t ∨ (x.owner = o ∧ (x.key, x.val) ∈ l)) ∧
    (∀ x ∈ t, x ∈ (bulk t n o l).1) := by
  induction l generalizing t n with
  | nil => exact ⟨h, by simp [bulk], fun _ _ => rfl, fun x hx => .inl hx, fun x hx => hx⟩
  | cons a rest ih =>
    obtain ⟨k, v⟩ := a
    rw [List.pairwise_cons] at hd
    have h1 := tblInv_upsertConflict t n h o k v
    have hfree : ∀ x ∈ t, ¬(x.owner = o ∧ x.key = k) := fun x hx => hfresh (k, v) (by simp) x hx
    have hfresh1 : ∀ p ∈ rest, ∀ x ∈ (upsertConflict t n o k v).1, ¬(x.owner = o ∧ x.key = p.1) := by
      intro p hp x hx
      rcases mem_upsertConflict t n o k v x hx with ⟨_, hk, _⟩ | ⟨hx0, _⟩
      · intro hc
        have := hd.1 p hp
        exact this (hk.symm.trans hc.2)
      · exact hfresh p (List.mem_cons_of_mem _ hp) x hx0
    obtain ⟨i1, i2, i3, i4, i5⟩ := ih _ _ h1 hd.2 hfresh1
    refine ⟨i1, ?_, ?_, ?_, ?_⟩
    · show kv f (bulk _ _ o rest).1 o = _
      rw [i2, kv_upsertConflict f t n h o k v o]
      simp only [if_true]
      rw [kvSet_not_mem]
      · simp
      · intro p hp hk
        obtain ⟨x, hx, e⟩ := List.mem_map.mp hp
        have := (mem_ofOwner t o x).mp hx
        rw [← e] at hk
        exact hfree x this.1 ⟨this.2, hk⟩
    · intro o' ho'
      show ofOwner (bulk _ _ o rest).1 o' = _
      rw [i3 o' ho', ofOwner_upsertConflict_other t n o k v o' ho']
    · intro x hx
      rcases i4 x hx with hx1 | ⟨ho, hm⟩
      · rcases mem_upsertConflict t n o k v x hx1 with ⟨ho, hk, hv⟩ | ⟨hx0, _⟩
        · right; refine ⟨ho, ?_⟩; rw [hk, hv]; simp
        · exact .inl hx0
      · exact .inr ⟨ho, List.mem_cons_of_mem _ hm⟩
    · intro x hx
      exact i5 x (upsertConflict_keeps t n o k v x hx (hfree x hx))

end Tbl

/-! ## the loops -/

theorem attr_loop (sys : Bool) (tid : Nat) (row : TrialRow) (l : List (String × String)) (s : State)
    (hu : updatableTrial s tid = .ok row) :
    forEachNC (fun s k v => setTAttrNC sys s tid k v) s l = .ok
      (if sys then { s with tSys := (Tbl.bulk s.tSys s.nTSys tid l).1, nTSys := (Tbl.bulk s.tSys s.nTSys tid l).2 }
       else { s with tUser := (Tbl.bulk s.tUser s.nTUser tid l).1, nTUser := (Tbl.bulk s.tUser s.nTUser tid l).2 }) := by
  induction l generalizing s with
  | nil => cases sys <;> rfl
  | cons a rest ih =>
    obtain ⟨k, v⟩ := a
    cases sys
    · have h1 : setTAttrNC false s tid k v = .ok { s with tUser := (Tbl.upsertConflict s.tUser s.nTUser tid k v).1, nTUser := (Tbl.upsertConflict s.tUser s.nTUser tid k v).2 } := by
        unfold setTAttrNC; simp only [hu]; rfl
      simp only [forEachNC, h1]
      rw [ih { s with tUser := (Tbl.upsertConflict s.tUser s.nTUser tid k v).1, nTUser := (Tbl.upsertConflict s.tUser s.nTUser tid k v).2 } hu]
      rfl
    · have h1 : setTAttrNC true s tid k v = .ok { s with tSys := (Tbl.upsertConflict s.tSys s.nTSys tid k v).1, nTSys := (Tbl.upsertConflict s.tSys s.nTSys tid k v).2 } := by
        unfold setTAttrNC; simp only [hu]; rfl
      simp only [forEachNC, h1]
      rw [ih { s with tSys := (Tbl.upsertConflict s.tSys s.nTSys tid k v).1, nTSys := (Tbl.upsertConflict s.tSys s.nTSys tid k v).2 } hu]
      rfl

theorem inter_loop (tid : Nat) (row : TrialRow) (l : List (Int × XVal)) (s : State)
    (hu : updatableTrial s tid = .ok row) (ht : TblInv s.inters s.nInter) :
    forEachNC (fun s k v => setInterNC s tid k v) s l = .ok
      { s with inters := (Tbl.bulk s.inters s.nInter tid (l.map (fun p => (p.1, encI p.2)))).1,
               nInter := (Tbl.bulk s.inters s.nInter tid (l.map (fun p => (p.1, encI p.2)))).2 } := by
  induction l generalizing s with
  | nil => rfl
  | cons a rest ih =>
    obtain ⟨k, v⟩ := a
    have h1 : setInterNC s tid k v = .ok { s with inters := (Tbl.upsertConflict s.inters s.nInter tid k (encI v)).1, nInter := (Tbl.upsertConflict s.inters s.nInter tid k (encI v)).2 } := by
      unfold setInterNC; simp only [hu, Tbl.upsert_eq s.inters s.nInter ht]
    simp only [forEachNC, h1]
    rw [ih { s with inters := (Tbl.upsertConflict s.inters s.nInter tid k (encI v)).1, nInter := (Tbl.upsertConflict s.inters s.nInter tid k (encI v)).2 } hu (Tbl.tblInv_upsertConflict _ _ ht _ _ _)]
    rfl

/-- the parameter loop when it succeeds: the table it leaves, and every row the study had for one of the
names before the loop is compatible with the distribution written for that name -/
theorem param_loop_ok (tid : Nat) (row : TrialRow) (l : List (String × Param)) (s s' : State) (h : Inv0 s)
    (hrow : s.trialRow? tid = some row) (hu : updatableTrial s tid = .ok row)
    (hd : l.Pairwise (fun a b => a.1 ≠ b.1)) (hpc0 : PC s)
    (hs : forEachNC (fun s k p => setParamNC s tid k p) s l = .ok s') :
    s' = { s with params := (Tbl.bulk s.params s.nParam tid l).1, nParam := (Tbl.bulk s.params s.nParam tid l).2 } ∧
    (∀ kp ∈ l, ∀ x, s.paramRowOf row.study kp.1 x → x.val.dist.compat kp.2.dist = true) := by
  induction l generalizing s with
  | nil => simp only [forEachNC, Except.ok.injEq] at hs; subst hs; exact ⟨rfl, by simp⟩
  | cons a rest ih =>
    obtain ⟨k, p⟩ := a
    rw [List.pairwise_cons] at hd
    simp only [forEachNC] at hs
    cases h1 : setParamNC s tid k p with
    | error f => simp [h1] at hs
    | ok s1 =>
      simp only [h1] at hs
      rw [setParamNC_eq s h tid k p row hu] at h1
      cases hcc : checkCompat s row.study k p.dist with
      | error f => simp [hcc] at h1
      | ok u =>
        simp only [hcc, Except.ok.injEq] at h1
        subst h1
        have hinv1 : Inv0 { s with params := (Tbl.upsertConflict s.params s.nParam tid k p).1, nParam := (Tbl.upsertConflict s.params s.nParam tid k p).2 } :=
          inv0_setParamNC s h tid k p _ (by rw [setParamNC_eq s h tid k p row hu, hcc])
        have hpc1 := (param_step s tid row hrow k p hpc0 hcc).1
        obtain ⟨e, hacc⟩ := ih { s with params := (Tbl.upsertConflict s.params s.nParam tid k p).1, nParam := (Tbl.upsertConflict s.params s.nParam tid k p).2 } hinv1 hrow hu hd.2 hpc1 hs
        refine ⟨e, ?_⟩
        intro kp hkp x hx
        rcases List.mem_cons.mp hkp with e0 | hkp'
        · subst e0; exact accepted_all s hpc0 row.study k p.dist hcc x hx
        · apply hacc kp hkp' x
          obtain ⟨hm, hk, hst⟩ := hx
          refine ⟨Tbl.upsertConflict_keeps s.params s.nParam tid k p x hm ?_, hk, hst⟩
          intro hc
          exact hd.1 kp hkp' (hc.2.symm.trans hk)

/-- the table the parameter loop leaves when it succeeds -/
theorem param_loop_shape (tid : Nat) (row : TrialRow) (l : List (String × Param)) (s s' : State) (h : Inv0 s)
    (hu : updatableTrial s tid = .ok row)
    (hs : forEachNC (fun s k p => setParamNC s tid k p) s l = .ok s') :
    s' = { s with params := (Tbl.bulk s.params s.nParam tid l).1, nParam := (Tbl.bulk s.params s.nParam tid l).2 } := by
  induction l generalizing s with
  | nil => simp only [forEachNC, Except.ok.injEq] at hs; subst hs; rfl
  | cons a rest ih =>
    obtain ⟨k, p⟩ := a
    simp only [forEachNC] at hs
    cases h1 : setParamNC s tid k p with
    | error f => simp [h1] at hs
    | ok s1 =>
      simp only [h1] at hs
      rw [setParamNC_eq s h tid k p row hu] at h1
      cases hcc : checkCompat s row.study k p.dist with
      | error f => simp [hcc] at h1
      | ok u =>
        simp only [hcc, Except.ok.injEq] at h1
        subst h1
        have hinv1 : Inv0 { s with params := (Tbl.upsertConflict s.params s.nParam tid k p).1, nParam := (Tbl.upsertConflict s.params s.nParam tid k p).2 } :=
          inv0_setParamNC s h tid k p _ (by rw [setParamNC_eq s h tid k p row hu, hcc])
        exact ih { s with params := (Tbl.upsertConflict s.params s.nParam tid k p).1, nParam := (Tbl.upsertConflict s.params s.nParam tid k p).2 } hinv1 hu hs

/-- the parameter loop when it fails: a `ValueError`, caused by a row that was in the table before the loop -/
theorem param_loop_err (tid : Nat) (row : TrialRow) (l : List (String × Param)) (s : State) (h : Inv0 s)
    (hu : updatableTrial s tid = .ok row) (hd : l.Pairwise (fun a b => a.1 ≠ b.1)) (f : Fail)
    (hs : forEachNC (fun s k p => setParamNC s tid k p) s l = .error f) :
    f = .api .valueError ∧ ∃ kp ∈ l, ∃ x, s.paramRowOf row.study kp.1 x ∧ x.val.dist.compat kp.2.dist = false := by
  induction l generalizing s with
  | nil => simp [forEachNC] at hs
  | cons a rest ih =>
    obtain ⟨k, p⟩ := a
    rw [List.pairwise_cons] at hd
    simp only [forEachNC] at hs
    rw [setParamNC_eq s h tid k p row hu] at hs
    cases hcc : checkCompat s row.study k p.dist with
    | error f0 =>
      simp only [hcc, Except.error.injEq] at hs
      subst hs
      unfold checkCompat at hcc
      cases hp : s.prevDist row.study k with
      | none => simp [hp] at hcc
      | some d0 =>
        simp only [hp] at hcc
        split at hcc
        · simp at hcc
        · rename_i hc
          simp only [Except.error.injEq] at hcc
          obtain ⟨x, hx, ex⟩ := prevDist_some s row.study k d0 hp
          exact ⟨hcc.symm, (k, p), by simp, x, hx, by rw [ex]; simpa using hc⟩
    | ok u =>
      simp only [hcc] at hs
      have hinv1 : Inv0 { s with params := (Tbl.upsertConflict s.params s.nParam tid k p).1, nParam := (Tbl.upsertConflict s.params s.nParam tid k p).2 } :=
        inv0_setParamNC s h tid k p _ (by rw [setParamNC_eq s h tid k p row hu, hcc])
      obtain ⟨ef, kp, hkp, x, hx, hc⟩ := ih { s with params := (Tbl.upsertConflict s.params s.nParam tid k p).1, nParam := (Tbl.upsertConflict s.params s.nParam tid k p).2 } hinv1 hu hd.2 hs
      refine ⟨ef, kp, List.mem_cons_of_mem _ hkp, x, ?_, hc⟩
      obtain ⟨hm, hk, hst⟩ := hx
      rcases Tbl.mem_upsertConflict s.params s.nParam tid k p x hm with ⟨_, hk2, _⟩ | ⟨hm0, _⟩
      · exact absurd (hk2.symm.trans hk) (hd.1 kp hkp)
      · exact ⟨hm0, hk, hst⟩

end OptunaVerif.Rdb
