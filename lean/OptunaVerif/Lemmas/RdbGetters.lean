import OptunaVerif.Lemmas.RdbAbs
/-! The reading calls of the relational model answer what the contract model answers (refinement,
part 1: calls that do not change the state).  Core Lean only. -/
set_option linter.unusedSimpArgs false
set_option linter.unusedSectionVars false
set_option linter.unusedVariables false
namespace OptunaVerif.Rdb
open OptunaVerif OptunaVerif.Storage

/-- Is the answer of the relational model one the contract allows?  `oneOf` = any of the listed
trials (U4); the `paramDist` book-keeping of the contract model is not part of an answer. -/
def Allowed (res : Res) (o : Out) : Prop :=
  match o with
  | .oneOf l => ∃ p ∈ l, res = .out (.trial p.1 p.2)
  | .studies l => res = .out (.studies (l.map (fun p => (p.1, erasePD p.2))))
  | o => res = .out o

/-! ## studies -/

theorem frozen_fields (r : State) (row : StudyRow) (st : StudyS) (h : (frozenStudy r row).2 = erasePD st) :
    row.name = st.name ∧ (Tbl.ofOwner r.dirs row.id).map (·.val) = st.directions ∧
    Tbl.toDict id (Tbl.ofOwner r.sUser row.id) = st.userAttrs ∧
    Tbl.toDict id (Tbl.ofOwner r.sSys row.id) = st.systemAttrs := by
  have h1 := congrArg StudyS.name h
  have h2 := congrArg StudyS.directions h
  have h3 := congrArg StudyS.userAttrs h
  have h4 := congrArg StudyS.systemAttrs h
  exact ⟨h1, h2, h3, h4⟩

theorem sim_getStudyNameFromId (r : State) (a : Spec) (h : Abs r a) (sid : Nat) :
    Allowed (step r (.getStudyNameFromId sid)).2 (Storage.step a (.getStudyNameFromId sid)).2 := by
  rcases findStudy_abs r a h sid with ⟨row, st, h1, h2, h3, h4⟩ | ⟨h1, h2, _⟩
  · simp [step, Storage.step, ro, commit, h1, h3, Except.map, Allowed, (frozen_fields r row st h4).1]
  · simp [step, Storage.step, ro, commit, h1, h2, Except.map, Allowed]

theorem sim_getStudyDirections (r : State) (a : Spec) (h : Abs r a) (sid : Nat) :
    Allowed (step r (.getStudyDirections sid)).2 (Storage.step a (.getStudyDirections sid)).2 := by
  rcases findStudy_abs r a h sid with ⟨row, st, h1, h2, h3, h4⟩ | ⟨h1, h2, _⟩
  · have hid := (studyRow?_some r sid row h2).2
    have := (frozen_fields r row st h4).2.1
    rw [hid] at this
    simp [step, Storage.step, ro, commit, getDirections, h1, h3, Except.map, Allowed, this]
  · simp [step, Storage.step, ro, commit, getDirections, h1, h2, Except.map, Allowed]

theorem sim_getStudyUserAttrs (r : State) (a : Spec) (h : Abs r a) (sid : Nat) :
    Allowed (step r (.getStudyUserAttrs sid)).2 (Storage.step a (.getStudyUserAttrs sid)).2 := by
  rcases findStudy_abs r a h sid with ⟨row, st, h1, h2, h3, h4⟩ | ⟨h1, h2, _⟩
  · have hid := (studyRow?_some r sid row h2).2
    have := (frozen_fields r row st h4).2.2.1
    rw [hid] at this
    simp [step, Storage.step, ro, commit, studyAttrs, h1, h3, Except.map, Allowed, this]
  · simp [step, Storage.step, ro, commit, studyAttrs, h1, h2, Except.map, Allowed]

theorem sim_getStudySystemAttrs (r : State) (a : Spec) (h : Abs r a) (sid : Nat) :
    Allowed (step r (.getStudySystemAttrs sid)).2 (Storage.step a (.getStudySystemAttrs sid)).2 := by
  rcases findStudy_abs r a h sid with ⟨row, st, h1, h2, h3, h4⟩ | ⟨h1, h2, _⟩
  · have hid := (studyRow?_some r sid row h2).2
    have := (frozen_fields r row st h4).2.2.2
    rw [hid] at this
    simp [step, Storage.step, ro, commit, studyAttrs, h1, h3, Except.map, Allowed, this]
  · simp [step, Storage.step, ro, commit, studyAttrs, h1, h2, Except.map, Allowed]

theorem sim_getAllStudies (r : State) (a : Spec) (h : Abs r a) :
    Allowed (step r .getAllStudies).2 (Storage.step a .getAllStudies).2 := by
  have := abs_liveStudies r a h
  unfold liveStudies at this
  simp [step, Storage.step, commit, Allowed, this]

/-! ### by name -/

theorem findIdx_some {α : Type} (p : α → Bool) (l : List α) (k i : Nat) (h : findIdx p l k = some i) :
    ∃ j x, i = k + j ∧ l[j]? = some x ∧ p x = true := by
  induction l generalizing k with
  | nil => simp [findIdx] at h
  | cons y t ih =>
    simp only [findIdx] at h
    split at h
    · rename_i hp
      simp only [Option.some.injEq] at h
      exact ⟨0, y, by omega, by simp, hp⟩
    · obtain ⟨j, x, e, hg, hp⟩ := ih (k + 1) h
      exact ⟨j + 1, x, by omega, by simpa using hg, hp⟩

theorem findIdx_none {α : Type} (p : α → Bool) (l : List α) (k : Nat) (h : findIdx p l k = none) :
    ∀ x ∈ l, p x = false := by
  induction l generalizing k with
  | nil => intro x hx; simp at hx
  | cons y t ih =>
    simp only [findIdx] at h
    split at h
    · simp at h
    · rename_i hp
      intro x hx
      rcases List.mem_cons.mp hx with e | hx
      · subst e; simpa using hp
      · exact ih (k + 1) h x hx

theorem sim_getStudyIdFromName (r : State) (a : Spec) (h : Abs r a) (name : String) :
    Allowed (step r (.getStudyIdFromName name)).2 (Storage.step a (.getStudyIdFromName name)).2 := by
  have huniq : r.studies.Pairwise (fun x y => ¬((x.name == name) = true ∧ (y.name == name) = true)) := by
    refine h.inv.1.namesUniq.imp ?_
    intro x y hxy ⟨hx, hy⟩
    simp only [beq_iff_eq] at hx hy
    exact hxy (hx.trans hy.symm)
  simp only [step, Storage.step, ro, commit, studyIdFromName, oneOrNone_filter _ _ huniq]
  cases hfi : findIdx (fun o => match o with | some st => st.name == name | none => false) a.studies 0 with
  | some i =>
    obtain ⟨j, x, e, hg, hp⟩ := findIdx_some _ _ _ _ hfi
    have : i = j := by omega
    subst this
    cases x with
    | none => simp at hp
    | some st =>
      simp only [beq_iff_eq] at hp
      have hs : a.study? i = some st := by simp [Spec.study?, hg]
      obtain ⟨row, h1, h2⟩ := abs_study_some r a h i st hs
      obtain ⟨hm, hid⟩ := studyRow?_some r i row h1
      have hn : row.name = name := (frozen_fields r row st h2).1.trans hp
      -- the row found by name is this row
      cases hf : r.studies.find? (fun x => x.name == name) with
      | none =>
        have := List.find?_eq_none.mp hf row hm
        simp [hn] at this
      | some row' =>
        have hm' := List.mem_of_find?_eq_some hf
        have hn' : row'.name = name := by simpa using List.find?_some hf
        have : row' = row := by
          rcases pairwise_mem_cases h.inv.1.namesUniq hm' hm with e | e | e
          · exact e
          · exact absurd (hn'.trans hn.symm) e
          · exact absurd (hn.trans hn'.symm) e
        subst this
        simp [Except.map, Allowed, hid]
  | none =>
    have hnone := findIdx_none _ _ _ hfi
    cases hf : r.studies.find? (fun x => x.name == name) with
    | none => simp [Except.map, Allowed]
    | some row =>
      exfalso
      have hm := List.mem_of_find?_eq_some hf
      have hn : row.name = name := by simpa using List.find?_some hf
      obtain ⟨st, h1, h2⟩ := abs_study_row r a h row.id row (studyRow?_of_mem r h.inv.1 row hm)
      have hmem : some st ∈ a.studies := by
        unfold Spec.study? at h1
        cases hg : a.studies[row.id]? with
        | none => simp [hg] at h1
        | some o =>
          simp only [hg, Option.join_some] at h1
          subst h1
          exact List.mem_of_getElem? hg
      have := hnone (some st) hmem
      simp only [beq_eq_false_iff_ne, ne_eq] at this
      exact this ((frozen_fields r row st h2).1.symm.trans hn)

/-! ## trials -/

theorem sim_getTrial (r : State) (a : Spec) (h : Abs r a) (tid : Nat) :
    Allowed (step r (.getTrial tid)).2 (Storage.step a (.getTrial tid)).2 := by
  simp only [step, Storage.step, ro, commit, getTrial_eq r h.inv.1]
  cases hr : r.trialRow? tid with
  | none => simp [abs_trial_none r a h tid hr, Except.map, Allowed]
  | some row => simp [abs_trial_row r a h tid row hr, Except.map, Allowed]

theorem sim_getTrialNumberFromId (r : State) (a : Spec) (h : Abs r a) (tid : Nat) :
    Allowed (step r (.getTrialNumberFromId tid)).2 (Storage.step a (.getTrialNumberFromId tid)).2 := by
  simp only [step, Storage.step, ro, commit, getTrial_eq r h.inv.1]
  cases hr : r.trialRow? tid with
  | none => simp [abs_trial_none r a h tid hr, Except.map, Allowed]
  | some row => simp [abs_trial_row r a h tid row hr, Except.map, Allowed]

theorem get?_kv {ν : Type} (t : List (KRow String ν)) (o : Nat) (k : String) :
    AList.get? (Tbl.kv id t o) k = (t.find? (fun x => x.owner == o && decide (x.key = k))).map (·.val) := by
  induction t with
  | nil => rfl
  | cons x rest ih =>
    unfold Tbl.kv Tbl.ofOwner at ih ⊢
    by_cases ho : x.owner = o
    · by_cases hk : x.key = k
      · simp [List.filter_cons, ho, hk, AList.get?]
      · simp [List.filter_cons, ho, hk, AList.get?]; exact ih
    · simp [List.filter_cons, ho]; exact ih

theorem sim_getTrialParam (r : State) (a : Spec) (h : Abs r a) (tid : Nat) (name : String) :
    Allowed (step r (.getTrialParam tid name)).2 (Storage.step a (.getTrialParam tid name)).2 := by
  simp only [step, Storage.step, ro, commit, findTrial_eq r h.inv.1,
    Tbl.oneOrNone_atKey r.params r.nParam h.inv.1.params]
  cases hr : r.trials.find? (fun x => x.id == tid) with
  | none =>
    have : r.trialRow? tid = none := hr
    simp [abs_trial_none r a h tid this, Allowed]
  | some row =>
    have hrow : r.trialRow? tid = some row := hr
    have hid := (trialRow?_some r tid row hrow).2
    simp only [abs_trial_row r a h tid row hrow, State.rowView, get?_kv, hid]
    cases r.params.find? (fun x => x.owner == tid && decide (x.key = name)) with
    | none => simp [Allowed]
    | some x => simp [Allowed]

/-- `states` filter of `get_all_trials` -/
def stateRows (states : Option (List TState)) (q : List TrialRow) : List TrialRow :=
  match states with
  | none => q
  | some l => q.filter (fun r => l.contains r.state)

theorem getTrials_all (r : State) (h : Inv0 r) (sid : Nat) (states : Option (List TState)) :
    getTrials r sid states [] (-1) =
      match findStudy r sid with
      | .error f => .error f
      | .ok _ => .ok ((stateRows states (r.trials.filter (fun x => x.study == sid))).map (fun x => (x.id, r.rowView x))) := by
  unfold getTrials
  cases findStudy r sid with
  | error f => rfl
  | ok row =>
    simp only [List.filter_nil, List.length_nil, Nat.lt_irrefl, decide_false, Bool.false_and, Bool.false_eq_true,
      if_false]
    have : ¬ ((-1 : Int) > -1) := by omega
    simp only [this, if_false, buildTrials_eq r h]
    cases states <;> rfl

theorem stateRows_view (r : State) (states : Option (List TState)) (q : List TrialRow) :
    (q.map (fun x => (x.id, r.rowView x))).filter (fun p => stateIn states p.2.state) =
      (stateRows states q).map (fun x => (x.id, r.rowView x)) := by
  rw [List.filter_map]
  congr 1
  cases states with
  | none => simp [stateRows, stateIn]
  | some l =>
    simp only [stateRows]
    apply List.filter_congr
    intro x _
    simp [stateIn, State.rowView]

theorem sim_getAllTrials (r : State) (a : Spec) (h : Abs r a) (sid : Nat) (states : Option (List TState)) :
    Allowed (step r (.getAllTrials sid states)).2 (Storage.step a (.getAllTrials sid states)).2 := by
  simp only [step, Storage.step, ro, commit, getTrials_all r h.inv.1]
  rcases findStudy_abs r a h sid with ⟨row, st, h1, h2, h3, h4⟩ | ⟨h1, h2, _⟩
  · simp only [h1, h3, Except.map, Allowed]
    rw [abs_trialsOf r a h sid (by simp [h3]), stateRows_view]
  · simp [h1, h2, Except.map, Allowed]

theorem sim_getNTrials (r : State) (a : Spec) (h : Abs r a) (sid : Nat) (states : Option (List TState)) :
    Allowed (step r (.getNTrials sid states)).2 (Storage.step a (.getNTrials sid states)).2 := by
  simp only [step, Storage.step, ro, commit, getTrials_all r h.inv.1]
  rcases findStudy_abs r a h sid with ⟨row, st, h1, h2, h3, h4⟩ | ⟨h1, h2, _⟩
  · simp only [h1, h3, Except.map, Allowed]
    rw [abs_trialsOf r a h sid (by simp [h3]), stateRows_view]
  · simp [h1, h2, Except.map, Allowed]

end OptunaVerif.Rdb
