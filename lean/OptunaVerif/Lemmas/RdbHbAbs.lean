import OptunaVerif.Lemmas.RdbHbQuery
import OptunaVerif.Lemmas.RdbHbCallback
import OptunaVerif.Lemmas.RdbRefine
import OptunaVerif.Lemmas.HeartbeatInv
/-! The abstraction from a configuration of the relational heartbeat model (`Model/RdbHeartbeat.lean`) to a
configuration of the abstract sweep model (`Model/Heartbeat.lean`), and the list lemmas it rests on.

A trial of the study is seen as `⟨recOf (its FrozenTrial), age of its heartbeat row⟩`; its *number* (the index in
the abstract model) is the count of earlier trials of the study — what `count_past_trials` computes.  The time
unit of the abstract model is taken to be the microsecond.  Core Lean only. -/
set_option linter.unusedSimpArgs false
set_option linter.unusedSectionVars false
set_option linter.unusedVariables false
namespace OptunaVerif.RdbHb
open OptunaVerif OptunaVerif.Storage OptunaVerif.Rdb
open OptunaVerif.Generated
open OptunaVerif.Heartbeat (HTrial Rec)

/-! ## the trials of the study, as the storage shows them -/

/-- `(trial_id, FrozenTrial)` of the study's trials in id order -/
def studyList (db : Rdb.State) (sid : Nat) : List (Nat × TrialS) :=
  (db.trials.filter (fun x => x.study == sid)).map (fun x => (x.id, db.rowView x))

theorem studyList_abs (r : Rdb.State) (a : Spec) (h : Abs r a) (sid : Nat) (hl : (a.study? sid).isSome = true) :
    studyList r sid = a.trialsOf sid := (abs_trialsOf r a h sid hl).symm

/-- `count_past_trials`: how many trials of the study have a smaller id -/
def numOf (L : List (Nat × TrialS)) (tid : Nat) : Nat := (L.filter (fun p => decide (p.1 < tid))).length

def Sorted (L : List (Nat × TrialS)) : Prop := L.Pairwise (fun x y => x.1 < y.1)

theorem studyList_sorted (db : Rdb.State) (h : Inv0 db) (sid : Nat) : Sorted (studyList db sid) := by
  unfold Sorted studyList
  rw [List.pairwise_map]
  exact (h.trialsSorted.sublist List.filter_sublist).imp (by intro x y hxy; exact hxy)

theorem numOf_of_getElem? (L : List (Nat × TrialS)) (hs : Sorted L) (i : Nat) (p : Nat × TrialS) (h : L[i]? = some p) :
    numOf L p.1 = i := by
  induction L generalizing i with
  | nil => simp at h
  | cons q t ih =>
    unfold Sorted at hs
    rw [List.pairwise_cons] at hs
    cases i with
    | zero =>
      simp at h; subst h
      unfold numOf
      rw [List.filter_cons]
      simp only [Nat.lt_irrefl, decide_false, Bool.false_eq_true, if_false]
      rw [List.length_eq_zero_iff, List.filter_eq_nil_iff]
      intro x hx
      have := hs.1 x hx
      simp; omega
    | succ i =>
      simp at h
      have hp : p ∈ t := List.mem_of_getElem? h
      have := hs.1 p hp
      unfold numOf
      rw [List.filter_cons]
      simp only [this, decide_true, if_true, List.length_cons]
      have := ih hs.2 i h
      unfold numOf at this
      omega

theorem numOf_ge_length (L : List (Nat × TrialS)) (tid : Nat) (h : ∀ p ∈ L, p.1 < tid) : numOf L tid = L.length := by
  unfold numOf
  rw [List.filter_eq_self.mpr]
  intro p hp
  simpa using h p hp

theorem numOf_congr (L L' : List (Nat × TrialS)) (tid : Nat) (h : L'.map (·.1) = L.map (·.1)) : numOf L' tid = numOf L tid := by
  have : ∀ (M : List (Nat × TrialS)), numOf M tid = ((M.map (·.1)).filter (fun i => decide (i < tid))).length := by
    intro M
    unfold numOf
    rw [List.filter_map, List.length_map]
    rfl
  rw [this L', this L, h]

theorem numOf_append (L : List (Nat × TrialS)) (p : Nat × TrialS) (tid : Nat) (h : tid ≤ p.1) : numOf (L ++ [p]) tid = numOf L tid := by
  unfold numOf
  rw [List.filter_append]
  have : ¬ p.1 < tid := by omega
  simp [this]

/-- the index of an id in a sorted list is its `numOf` -/
theorem getElem?_numOf (L : List (Nat × TrialS)) (hs : Sorted L) (p : Nat × TrialS) (h : p ∈ L) : L[numOf L p.1]? = some p := by
  obtain ⟨i, hi⟩ := List.getElem?_of_mem h
  rw [numOf_of_getElem? L hs i p hi]
  exact hi

theorem sorted_fst_inj (L : List (Nat × TrialS)) (hs : Sorted L) (p q : Nat × TrialS) (hp : p ∈ L) (hq : q ∈ L) (e : p.1 = q.1) :
    p = q := by
  rcases pairwise_mem_cases hs hp hq with h | h | h
  · exact h
  · omega
  · omega

/-! ## how a change of the contract state shows in the listing of a study -/

theorem trialsFrom_fst_ge (sid : Nat) (l : List TrialS) (i : Nat) (p : Nat × TrialS) (h : p ∈ trialsFrom sid l i) : i ≤ p.1 := by
  obtain ⟨tid, t⟩ := p
  obtain ⟨k, hk, _, _⟩ := (mem_trialsFrom sid l i tid t).mp h
  simp only; omega

theorem trialsFrom_updAt (sid : Nat) (l : List TrialS) (k i : Nat) (f : TrialS → TrialS) (hf : ∀ t, (f t).study = t.study) :
    trialsFrom sid (updAt l k f) i =
      (trialsFrom sid l i).map (fun p => if p.1 = i + k then (p.1, f p.2) else p) := by
  induction l generalizing k i with
  | nil => simp [updAt, trialsFrom]
  | cons a r ih =>
    cases k with
    | zero =>
      simp only [updAt, trialsFrom, hf, Nat.add_zero]
      have hrest : (trialsFrom sid r (i + 1)).map (fun p => if p.1 = i then (p.1, f p.2) else p) = trialsFrom sid r (i + 1) := by
        rw [List.map_congr_left (g := id)]
        · simp
        · intro p hp
          have := trialsFrom_fst_ge sid r (i + 1) p hp
          have : p.1 ≠ i := by omega
          simp [this]
      split
      · simp [hrest]
      · exact hrest.symm
    | succ k =>
      simp only [updAt, trialsFrom]
      have e : i + (k + 1) = i + 1 + k := by omega
      split
      · simp only [List.map_cons]
        have : ¬ i = i + (k + 1) := by omega
        simp only [this, if_false]
        rw [ih k (i + 1), e]
      · rw [ih k (i + 1), e]

theorem trialsOf_updTrial (a : Spec) (tid : Nat) (f : TrialS → TrialS) (hf : ∀ t, (f t).study = t.study) (sid : Nat) :
    (a.updTrial tid f).trialsOf sid = (a.trialsOf sid).map (fun p => if p.1 = tid then (p.1, f p.2) else p) := by
  unfold Spec.trialsOf Spec.updTrial
  simp only
  rw [trialsFrom_updAt sid a.trials tid 0 f hf]
  simp

theorem trialsFrom_append (sid : Nat) (l : List TrialS) (t : TrialS) (i : Nat) :
    trialsFrom sid (l ++ [t]) i = trialsFrom sid l i ++ (if t.study == sid then [(i + l.length, t)] else []) := by
  induction l generalizing i with
  | nil => simp [trialsFrom]
  | cons a r ih =>
    simp only [List.cons_append, trialsFrom, List.length_cons]
    have e : i + 1 + r.length = i + (r.length + 1) := by omega
    split
    · rw [ih (i + 1), e]; rfl
    · rw [ih (i + 1), e]

theorem trialsOf_appendTrial (a : Spec) (t : TrialS) (sid : Nat) :
    ({ a with trials := a.trials ++ [t] } : Spec).trialsOf sid =
      a.trialsOf sid ++ (if t.study == sid then [(a.trials.length, t)] else []) := by
  unfold Spec.trialsOf
  simp only
  rw [trialsFrom_append]
  simp

theorem trialsOf_studies_irrelevant (a : Spec) (st : List (Option StudyS)) (sid : Nat) :
    ({ a with studies := st } : Spec).trialsOf sid = a.trialsOf sid := rfl

/-- members of the listing of a live study are the live trials of that study -/
theorem mem_trialsOf (a : Spec) (sid : Nat) (hl : (a.study? sid).isSome = true) (tid : Nat) (t : TrialS) :
    (tid, t) ∈ a.trialsOf sid ↔ a.trial? tid = some t ∧ t.study = sid := by
  unfold Spec.trialsOf
  rw [mem_trialsFrom]
  constructor
  · rintro ⟨k, hk, hget, hst⟩
    have : k = tid := by omega
    subst this
    refine ⟨?_, hst⟩
    rw [trial?_some_iff]
    exact ⟨hget, by rw [hst]; exact hl⟩
  · rintro ⟨h1, h2⟩
    rw [trial?_some_iff] at h1
    exact ⟨tid, by omega, h1.1, h2⟩

/-- an update at an id that is in the listing is an update at its index; at an id that is not, nothing -/
theorem map_if_eq_updAt (L : List (Nat × TrialS)) (hs : Sorted L) (tid : Nat) (F : Nat × TrialS → Nat × TrialS) :
    L.map (fun p => if p.1 = tid then F p else p) =
      if tid ∈ L.map (·.1) then updAt L (numOf L tid) F else L := by
  split
  · rename_i hm
    obtain ⟨q, hq, hqe⟩ := List.mem_map.mp hm
    apply List.ext_getElem?
    intro i
    rw [List.getElem?_map, updAt_getElem?]
    cases hi : L[i]? with
    | none => simp
    | some p =>
      have hn := numOf_of_getElem? L hs i p hi
      simp only [Option.map_some]
      by_cases hp : p.1 = tid
      · rw [← hp, hn]; simp [hp]
      · have : i ≠ numOf L tid := by
          intro e
          have hq' := getElem?_numOf L hs q hq
          rw [hqe, ← e, hi] at hq'
          simp at hq'
          rw [hq'] at hp
          exact hp hqe
        simp [hp, this]
  · rename_i hm
    rw [List.map_congr_left (g := id)]
    · simp
    · intro p hp
      have : p.1 ≠ tid := by
        intro e
        exact hm (List.mem_map.mpr ⟨p, hp, e⟩)
      simp [this]

theorem map_updAt {α β : Type} (l : List α) (n : Nat) (F : α → α) (G : β → β) (h : α → β)
    (hc : ∀ x, l[n]? = some x → h (F x) = G (h x)) : (updAt l n F).map h = updAt (l.map h) n G := by
  apply List.ext_getElem?
  intro i
  rw [List.getElem?_map, updAt_getElem?, updAt_getElem?, List.getElem?_map]
  by_cases hi : i = n
  · subst hi
    cases hx : l[i]? with
    | none => simp
    | some x => simp [hc x hx]
  · simp [hi]

/-! ## the abstraction -/

/-- the age (µs, truncated at 0) of the trial's heartbeat row on the database clock; `none`: no row -/
def ageOf (hs : HState) (now : Int) (tid : Nat) : Option Nat :=
  match heartbeatsOf hs tid with
  | [ts] => some (now - ts).toNat
  | _ => none

def absTrial (C : Codec) (hs : HState) (now : Int) (p : Nat × TrialS) : HTrial := ⟨recOf C p.2, ageOf hs now p.1⟩

def absTrialsL (C : Codec) (hs : HState) (now : Int) (L : List (Nat × TrialS)) : List HTrial := L.map (absTrial C hs now)

def absPhase (C : Codec) (L : List (Nat × TrialS)) : Phase → Heartbeat.Phase
  | .idle => .idle
  | .dead => .dead
  | .failing todo won => .failing (todo.map (numOf L)) (won.map (numOf L))
  | .calling todo => .calling (todo.map (numOf L))
  | .enqueue t snap todo => .enqueue (numOf L t) (recOf C snap) (todo.map (numOf L))

/-- an exception leaving the sweep has no counterpart in the abstract model (it is shown not to happen) -/
def absEvent (C : Codec) (L : List (Nat × TrialS)) : Event → Option Heartbeat.Event
  | .read w ids => some (.read w (ids.map (numOf L)))
  | .won w t => some (.won w (numOf L t))
  | .lost w t => some (.lost w (numOf L t))
  | .callback w t b => some (.callback w (numOf L t) b)
  | .enqueued w t n tmpl => some (.enqueued w (numOf L t) (numOf L n) (recOf C (mkTrial 0 0 (some tmpl))))
  | .raised _ _ => none

/-- the abstract model's parameters; its time unit is the microsecond -/
def absParams (P : Params) : Heartbeat.Params :=
  { grace := (StaleGen.effectiveGrace P.hbInterval P.gracePeriod * 1000000).toNat,
    hasCb := P.hasCb,
    maxRetry := P.cb.maxRetry.map Int.toNat }

def absCfg (P : Params) (c : Cfg) : Heartbeat.Cfg :=
  { trials := absTrialsL P.codec c.hs c.now (studyList c.hs.db P.sid),
    workers := c.workers.map (absPhase P.codec (studyList c.hs.db P.sid)),
    events := c.events.filterMap (absEvent P.codec (studyList c.hs.db P.sid)) }

/-- ids a phase mentions -/
def Phase.ids : Phase → List Nat
  | .idle => []
  | .dead => []
  | .failing todo won => todo ++ won
  | .calling todo => todo
  | .enqueue t _ todo => t :: todo

def Event.ids : Event → List Nat
  | .read _ ids => ids
  | .won _ t => [t]
  | .lost _ t => [t]
  | .callback _ t _ => [t]
  | .enqueued _ t n _ => [t, n]
  | .raised _ _ => []

theorem absPhase_congr (C : Codec) (L L' : List (Nat × TrialS)) (ph : Phase) (h : ∀ t ∈ ph.ids, numOf L' t = numOf L t) :
    absPhase C L' ph = absPhase C L ph := by
  cases ph with
  | idle => rfl
  | dead => rfl
  | failing todo won =>
    simp only [absPhase, Phase.ids, List.mem_append] at h ⊢
    rw [List.map_congr_left (fun t ht => h t (Or.inl ht)), List.map_congr_left (fun t ht => h t (Or.inr ht))]
  | calling todo =>
    simp only [absPhase, Phase.ids] at h ⊢
    rw [List.map_congr_left h]
  | enqueue t snap todo =>
    simp only [absPhase, Phase.ids, List.mem_cons] at h ⊢
    rw [h t (Or.inl rfl), List.map_congr_left (fun x hx => h x (Or.inr hx))]

theorem absEvent_congr (C : Codec) (L L' : List (Nat × TrialS)) (e : Event) (h : ∀ t ∈ e.ids, numOf L' t = numOf L t) :
    absEvent C L' e = absEvent C L e := by
  cases e with
  | read w ids => simp only [absEvent, Event.ids] at h ⊢; rw [List.map_congr_left h]
  | won w t => simp only [absEvent, Event.ids, List.mem_singleton, forall_eq] at h ⊢; rw [h]
  | lost w t => simp only [absEvent, Event.ids, List.mem_singleton, forall_eq] at h ⊢; rw [h]
  | callback w t b => simp only [absEvent, Event.ids, List.mem_singleton, forall_eq] at h ⊢; rw [h]
  | enqueued w t n tmpl =>
    simp only [absEvent, Event.ids, List.mem_cons, List.mem_singleton] at h ⊢
    rw [h t (Or.inl rfl), h n (Or.inr (Or.inl rfl))]
  | raised w s => rfl

end OptunaVerif.RdbHb
