import OptunaVerif.Lemmas.RdbInv
/-! No `BaseStorage` call except `delete_study` touches the table `trial_heartbeats` (relational model
`Model/RdbLogic.lean`).  Core Lean only. -/
set_option linter.unusedSimpArgs false
set_option linter.unusedSectionVars false
set_option linter.unusedVariables false
namespace OptunaVerif.Rdb
open OptunaVerif OptunaVerif.Storage

structure SameBeats (s s' : State) : Prop where
  beats : s'.beats = s.beats
  nBeat : s'.nBeat = s.nBeat

theorem SameBeats.refl (s : State) : SameBeats s s := ⟨rfl, rfl⟩
theorem SameBeats.trans {a b c : State} (h1 : SameBeats a b) (h2 : SameBeats b c) : SameBeats a c :=
  ⟨h2.beats.trans h1.beats, h2.nBeat.trans h1.nBeat⟩

theorem beats_setTAttrNC (sys : Bool) (s : State) (tid : Nat) (k v : String) (s' : State)
    (hs : setTAttrNC sys s tid k v = .ok s') : SameBeats s s' := by
  obtain ⟨_, e⟩ := setTAttrNC_ok sys s tid k v s' hs
  subst e; cases sys <;> exact ⟨rfl, rfl⟩

theorem beats_setInterNC (s : State) (h : Inv0 s) (tid : Nat) (step : Int) (v : XVal) (s' : State)
    (hs : setInterNC s tid step v = .ok s') : SameBeats s s' := by
  obtain ⟨_, e⟩ := setInterNC_ok s h tid step v s' hs
  subst e; exact ⟨rfl, rfl⟩

theorem beats_setValueNC (s : State) (h : Inv0 s) (tid i : Nat) (v : XVal) (s' : State)
    (hs : setValueNC s tid i v = .ok s') : SameBeats s s' := by
  obtain ⟨_, e⟩ := setValueNC_ok s h tid i v s' hs
  subst e; exact ⟨rfl, rfl⟩

theorem beats_setParamNC (s : State) (h : Inv0 s) (tid : Nat) (name : String) (p : Param) (s' : State)
    (hs : setParamNC s tid name p = .ok s') : SameBeats s s' := by
  obtain ⟨_, e⟩ := setParamNC_ok s h tid name p s' hs
  subst e; exact ⟨rfl, rfl⟩

theorem beats_setValuesNC (s : State) (h : Inv0 s) (tid i : Nat) (l : List XVal) (s' : State)
    (hi : i ≤ (Tbl.ofOwner s.values tid).length) (hs : setValuesNC s tid i l = .ok s') : SameBeats s s' := by
  induction l generalizing s i with
  | nil => simp only [setValuesNC, Except.ok.injEq] at hs; subst hs; exact SameBeats.refl _
  | cons v t ih =>
    simp only [setValuesNC] at hs
    cases h1 : setValueNC s tid i v with
    | error e => simp [h1] at hs
    | ok s1 =>
      simp only [h1] at hs
      obtain ⟨hinv, hlen⟩ := inv0_setValueNC s h tid i v s1 hi h1
      exact (beats_setValueNC s h tid i v s1 h1).trans (ih s1 hinv (i + 1) hlen hs)

theorem beats_prepareNewTrial (s : State) (h : Inv s) (sid : Nat) (hsid : sid ∈ s.studyIds) (tmpl : Option Template)
    (s' : State) (tid : Nat) (hm : prepareNewTrial s sid tmpl = .ok (s', tid)) : SameBeats s s' := by
  unfold prepareNewTrial at hm
  cases tmpl with
  | none =>
    simp only [Except.ok.injEq, Prod.mk.injEq] at hm
    obtain ⟨e, _⟩ := hm
    subst e
    exact ⟨rfl, rfl⟩
  | some t =>
    dsimp only at hm
    have h1 := inv0_insTrial s h.1 { id := s.nTrial, number := 0, study := sid, state := .running, hasStart := t.hasStart, hasComplete := t.hasComplete } rfl hsid
    have hb1 : SameBeats s ({ s with trials := s.trials ++ [({ id := s.nTrial, number := 0, study := sid, state := .running, hasStart := t.hasStart, hasComplete := t.hasComplete } : TrialRow)], nTrial := s.nTrial + 1 } : State) := ⟨rfl, rfl⟩
    generalize hs1 : ({ s with trials := s.trials ++ [({ id := s.nTrial, number := 0, study := sid, state := .running, hasStart := t.hasStart, hasComplete := t.hasComplete } : TrialRow)], nTrial := s.nTrial + 1 } : State) = s1 at hm h1 hb1
    have hv : ∀ s2, templateValuesNC s1 s.nTrial t.values = Except.ok s2 → Inv0 s2 ∧ SameBeats s1 s2 := by
      intro s2 h2
      unfold templateValuesNC at h2
      split at h2
      · exact ⟨(setValuesNC_induct s1 h1 _ 0 _ s2 (Nat.zero_le _) h2).1, beats_setValuesNC s1 h1 _ 0 _ s2 (Nat.zero_le _) h2⟩
      · split at h2
        · simp at h2
        · simp only [Except.ok.injEq] at h2; subst h2; exact ⟨h1, SameBeats.refl _⟩
        · exact ⟨(inv0_setValueNC s1 h1 _ 0 _ s2 (Nat.zero_le _) h2).1, beats_setValueNC s1 h1 _ 0 _ s2 h2⟩
    split at hm
    · simp at hm
    · rename_i s2 h2
      obtain ⟨i2, p2⟩ := hv s2 h2
      split at hm
      · simp at hm
      · rename_i s3 h3
        obtain ⟨i3, p3⟩ := forEachNC_induct _ (fun x => Inv0 x ∧ SameBeats s1 x)
          (fun a k v a' hq hf => ⟨inv0_setParamNC a hq.1 _ k v a' hf, hq.2.trans (beats_setParamNC a hq.1 _ k v a' hf)⟩)
          s2 t.params s3 ⟨i2, p2⟩ h3
        split at hm
        · simp at hm
        · rename_i s4 h4
          obtain ⟨i4, p4⟩ := forEachNC_induct _ (fun x => Inv0 x ∧ SameBeats s1 x)
            (fun a k v a' hq hf => ⟨inv0_setTAttrNC false a hq.1 _ k v a' hf, hq.2.trans (beats_setTAttrNC false a _ k v a' hf)⟩)
            s3 t.userAttrs s4 ⟨i3, p3⟩ h4
          split at hm
          · simp at hm
          · rename_i s5 h5
            obtain ⟨i5, p5⟩ := forEachNC_induct _ (fun x => Inv0 x ∧ SameBeats s1 x)
              (fun a k v a' hq hf => ⟨inv0_setTAttrNC true a hq.1 _ k v a' hf, hq.2.trans (beats_setTAttrNC true a _ k v a' hf)⟩)
              s4 t.systemAttrs s5 ⟨i4, p4⟩ h5
            split at hm
            · simp at hm
            · rename_i s6 h6
              obtain ⟨i6, p6⟩ := forEachNC_induct _ (fun x => Inv0 x ∧ SameBeats s1 x)
                (fun a k v a' hq hf => ⟨inv0_setInterNC a hq.1 _ k v a' hf, hq.2.trans (beats_setInterNC a hq.1 _ k v a' hf)⟩)
                s5 t.inter s6 ⟨i5, p5⟩ h6
              simp only [Except.ok.injEq, Prod.mk.injEq] at hm
              obtain ⟨e, _⟩ := hm
              subst e
              have := hb1.trans p6
              exact ⟨this.beats, this.nBeat⟩

theorem beats_createTrial (s : State) (h : Inv s) (sid : Nat) (tmpl : Option Template) (s' : State) (o : Out)
    (hm : createTrial s sid tmpl = .ok (s', o)) : SameBeats s s' := by
  unfold createTrial at hm
  cases hf : findStudy s sid with
  | error f => simp [hf] at hm
  | ok r0 =>
    obtain ⟨_, _, hmem⟩ := findStudy_mem s h.1 sid r0 hf
    simp only [hf] at hm
    cases hp : prepareNewTrial s sid tmpl with
    | error f => simp [hp] at hm
    | ok x =>
      obtain ⟨s1, tid⟩ := x
      simp only [hp, Except.ok.injEq, Prod.mk.injEq] at hm
      obtain ⟨e, _⟩ := hm
      subst e
      exact beats_prepareNewTrial s h sid hmem tmpl s1 tid hp

theorem beats_setTrialStateValues (s : State) (h : Inv s) (tid : Nat) (st : TState) (values : Option (List XVal))
    (s' : State) (o : Out) (hm : setTrialStateValues s tid st values = .ok (s', o)) : SameBeats s s' := by
  unfold setTrialStateValues at hm
  cases hu : updatableTrial s tid with
  | error f => simp [hu] at hm
  | ok tr =>
    simp only [hu] at hm
    have hv : ∀ s1, writeValuesNC s tid values = Except.ok s1 → SameBeats s s1 := by
      intro s1 h1
      cases values with
      | none => simp only [writeValuesNC, Except.ok.injEq] at h1; subst h1; exact SameBeats.refl _
      | some l =>
        simp only [writeValuesNC] at h1
        exact beats_setValuesNC s h.1 tid 0 l s1 (Nat.zero_le _) h1
    split at hm
    · simp at hm
    · rename_i s1 h1
      have i1 := hv s1 h1
      split at hm
      · simp only [Except.ok.injEq, Prod.mk.injEq] at hm
        obtain ⟨e, _⟩ := hm; subst e; exact i1
      · (try dsimp only at hm)
        repeat' split at hm
        all_goals first
          | (simp at hm; done)
          | (simp only [Except.ok.injEq, Prod.mk.injEq] at hm
             obtain ⟨e, _⟩ := hm; subst e; exact ⟨i1.beats, i1.nBeat⟩)

theorem beats_nc (s : State) (m : M State) (hq : ∀ s', m = .ok s' → SameBeats s s')
    (s' : State) (o : Out) (hm : nc m = .ok (s', o)) : SameBeats s s' := by
  unfold nc at hm
  cases m with
  | error f => simp at hm
  | ok s1 =>
    simp only [Except.ok.injEq, Prod.mk.injEq] at hm
    obtain ⟨e, _⟩ := hm; subst e
    exact hq s1 rfl

/-- **no storage call except `delete_study` changes `trial_heartbeats`** -/
theorem beats_step (s : State) (op : Op) (h : Inv s) (hnd : ∀ sid, op ≠ .deleteStudy sid) : SameBeats s (step s op).1 := by
  unfold step
  rcases commit_state s _ with e | ⟨s', o, hm, e⟩
  · rw [e]; exact SameBeats.refl _
  · rw [e]
    cases op with
    | createStudy name dirs =>
      simp only [Rdb.createStudy] at hm
      split at hm
      · simp at hm
      · (try dsimp only at hm)
        split at hm
        · simp at hm
        · simp only [Except.ok.injEq, Prod.mk.injEq] at hm
          rw [← hm.1]; exact ⟨rfl, rfl⟩
    | deleteStudy sid => exact absurd rfl (hnd sid)
    | setStudyUserAttr sid k v =>
      simp only [setStudyAttr] at hm
      repeat' split at hm
      all_goals first
        | (simp at hm; done)
        | (simp only [Except.ok.injEq, Prod.mk.injEq] at hm; rw [← hm.1]; exact ⟨rfl, rfl⟩)
    | setStudySystemAttr sid k v =>
      simp only [setStudyAttr] at hm
      repeat' split at hm
      all_goals first
        | (simp at hm; done)
        | (simp only [Except.ok.injEq, Prod.mk.injEq] at hm; rw [← hm.1]; exact ⟨rfl, rfl⟩)
    | createTrial sid tmpl ir => exact beats_createTrial s h sid tmpl s' o hm
    | setTrialParam tid name p ir => exact beats_nc s _ (fun x hx => beats_setParamNC s h.1 tid name p x hx) s' o hm
    | setTrialStateValues tid st values => exact beats_setTrialStateValues s h tid st values s' o hm
    | setTrialInter tid stp v => exact beats_nc s _ (fun x hx => beats_setInterNC s h.1 tid stp v x hx) s' o hm
    | setTrialUserAttr tid k v => exact beats_nc s _ (fun x hx => beats_setTAttrNC false s tid k v x hx) s' o hm
    | setTrialSystemAttr tid k v => exact beats_nc s _ (fun x hx => beats_setTAttrNC true s tid k v x hx) s' o hm
    | getAllStudies =>
      simp only [Except.ok.injEq, Prod.mk.injEq] at hm
      rw [← hm.1]; exact SameBeats.refl _
    | getBestTrial sid =>
      have : s' = s := by
        simp only [getBestTrial] at hm
        repeat' split at hm
        all_goals first
          | (simp at hm; done)
          | (simp only [Except.ok.injEq, Prod.mk.injEq] at hm; exact hm.1.symm)
      rw [this]; exact SameBeats.refl _
    | _ => rw [ro_state s _ s' o hm]; exact SameBeats.refl _

end OptunaVerif.Rdb
