import OptunaVerif.Lemmas.RdbHbRows
/-! One whole call of `fail_stale_trials` on the relational model (`failStaleTrials`): it is a run of abstract sweep
steps of one worker, it returns, and it leaves the rows of every trial that its stale read did not return as they
were.  Core Lean only. -/
set_option linter.unusedSimpArgs false
set_option linter.unusedSectionVars false
set_option linter.unusedVariables false
namespace OptunaVerif.RdbHb
open OptunaVerif OptunaVerif.Storage OptunaVerif.Rdb
open OptunaVerif.Generated

theorem run_replicate_succ (P : Heartbeat.Params) (c : Heartbeat.Cfg) (a : Heartbeat.Act) (k : Nat) :
    Heartbeat.run P c (List.replicate (k + 1) a) = Heartbeat.run P (Heartbeat.step P c a) (List.replicate k a) := by
  simp [Heartbeat.run, List.replicate_succ]

/-- the worker runs on alone: a run of abstract sweep steps -/
theorem sweepLoop_sim (P : Params) (hP : POk P) (w : Nat) (fuel : Nat) (c : Cfg) (h : RInv P c) :
    ∃ k, absCfg P (sweepLoop P w fuel c) =
        Heartbeat.run (absParams P) (absCfg P c) (List.replicate k (.sweep w [])) ∧ RInv P (sweepLoop P w fuel c) := by
  induction fuel generalizing c with
  | zero => exact ⟨0, rfl, h⟩
  | succ n ih =>
    simp only [sweepLoop]
    split
    · obtain ⟨h1, h2⟩ := sweep_sim P hP c h w
      obtain ⟨k, hk, hr⟩ := ih (sweepStep P c w) h2
      refine ⟨k + 1, ?_, hr⟩
      rw [hk, run_replicate_succ, h1]
      rfl
    · exact ⟨0, rfl, h⟩

/-- **one whole call of `fail_stale_trials` is a run of the abstract sweep** (steps of that worker only) -/
theorem failStaleTrials_sim (P : Params) (hP : POk P) (c : Cfg) (h : RInv P c) (w : Nat) :
    ∃ k, absCfg P (failStaleTrials P c w) =
        Heartbeat.run (absParams P) (absCfg P c) (List.replicate k (.sweep w [])) ∧ RInv P (failStaleTrials P c w) := by
  unfold failStaleTrials
  obtain ⟨h1, h2⟩ := sweep_sim P hP c h w
  obtain ⟨k, hk, hr⟩ := sweepLoop_sim P hP w _ (sweepStep P c w) h2
  refine ⟨k + 1, ?_, hr⟩
  simp only
  rw [hk, run_replicate_succ, h1]
  rfl

/-! ## the ids still to be failed only shrink -/

def Phase.failTodo : Phase → List Nat
  | .failing todo _ => todo
  | _ => []

theorem norm_failTodo (b : Bool) (todo won : List Nat) : ∀ x ∈ (Phase.norm b (.failing todo won)).failTodo, x ∈ todo := by
  intro x hx
  cases todo with
  | nil =>
    simp only [Phase.norm] at hx
    split at hx <;> simp [Phase.failTodo] at hx
  | cons t r => exact hx

theorem norm_calling_failTodo (b : Bool) (todo : List Nat) : (Phase.norm b (.calling todo)).failTodo = [] := by
  cases todo <;> rfl

theorem workers_setPhase (c : Cfg) (w : Nat) (ph : Phase) (hlt : w < c.workers.length) : (c.setPhase w ph).workers[w]? = some ph := by
  simp only [Cfg.setPhase, updAt_getElem?, if_true, List.getElem?_eq_getElem hlt, Option.map_some]

theorem workers_log (c : Cfg) (e : Event) : (c.log e).workers = c.workers := rfl
theorem workers_setDb (c : Cfg) (d : Rdb.State) : (c.setDb d).workers = c.workers := rfl

theorem workers_raise (c : Cfg) (w : Nat) (s : String) (hlt : w < c.workers.length) : (c.raise w s).workers[w]? = some .idle := by
  simp only [Cfg.raise, Cfg.log, Cfg.setPhase, updAt_getElem?, if_true, List.getElem?_eq_getElem hlt, Option.map_some]

/-- after a storage call of a worker that is inside a sweep, the ids it still has to fail are among those it had -/
theorem sweepStep_failTodo (P : Params) (c : Cfg) (w : Nat) (ph : Phase) (hw : c.workers[w]? = some ph) (hni : ph ≠ .idle) :
    ∀ ph', (sweepStep P c w).workers[w]? = some ph' → ∀ x ∈ ph'.failTodo, x ∈ ph.failTodo := by
  have hlt : w < c.workers.length := Heartbeat.getElem?_lt_length hw
  have hlt' : ∀ d, w < (c.setDb d).workers.length := fun d => hlt
  intro ph' hph' x hx
  unfold sweepStep at hph'
  rw [hw] at hph'
  cases ph with
  | idle => exact absurd rfl hni
  | dead => simp only at hph'; rw [hw] at hph'; simp at hph'; subst hph'; exact hx
  | failing todo won =>
    cases todo with
    | nil =>
      simp only [workers_setPhase c w _ hlt, Option.some.injEq] at hph'
      subst hph'
      exact norm_failTodo _ _ _ x hx
    | cons t todo =>
      simp only at hph'
      split at hph'
      · simp only [workers_log, workers_setPhase _ w _ (hlt' _), Option.some.injEq] at hph'
        subst hph'
        exact List.mem_cons_of_mem _ (norm_failTodo _ _ _ x hx)
      · simp only [workers_setPhase _ w _ (hlt' _), Option.some.injEq] at hph'
        subst hph'
        exact List.mem_cons_of_mem _ (norm_failTodo _ _ _ x hx)
      · split at hph'
        · rw [workers_raise c w _ hlt] at hph'; simp at hph'; subst hph'; simp [Phase.failTodo] at hx
        · simp only [workers_log, workers_setPhase c w _ hlt, Option.some.injEq] at hph'
          subst hph'
          exact List.mem_cons_of_mem _ (norm_failTodo _ _ _ x hx)
      · rw [workers_raise c w _ hlt] at hph'; simp at hph'; subst hph'; simp [Phase.failTodo] at hx
  | calling todo =>
    cases todo with
    | nil =>
      simp only [workers_setPhase c w _ hlt, Option.some.injEq] at hph'
      subst hph'; simp [Phase.failTodo] at hx
    | cons t todo =>
      simp only at hph'
      split at hph'
      · rw [workers_raise c w _ hlt] at hph'; simp at hph'; subst hph'; simp [Phase.failTodo] at hx
      · split at hph'
        · rw [workers_raise c w _ hlt] at hph'; simp at hph'; subst hph'; simp [Phase.failTodo] at hx
        · simp only [workers_log, workers_setPhase c w _ hlt, Option.some.injEq] at hph'
          subst hph'
          rw [norm_calling_failTodo] at hx; simp at hx
        · simp only [workers_log, workers_setPhase c w _ hlt, Option.some.injEq] at hph'
          subst hph'; simp [Phase.failTodo] at hx
  | enqueue t snap todo =>
    simp only at hph'
    split at hph'
    · split at hph'
      · simp only [workers_log, workers_setPhase _ w _ (hlt' _), Option.some.injEq] at hph'
        subst hph'
        rw [norm_calling_failTodo] at hx; simp at hx
      · rw [workers_raise c w _ hlt] at hph'; simp at hph'; subst hph'; simp [Phase.failTodo] at hx
    · rw [workers_raise c w _ hlt] at hph'; simp at hph'; subst hph'; simp [Phase.failTodo] at hx

theorem rows_trialIds (hs hs' : HState) (tid : Nat) (h : rowsOf hs' tid = rowsOf hs tid) (ht : tid ∈ hs.db.trialIds) :
    tid ∈ hs'.db.trialIds := by
  have e : hs'.db.trialRow? tid = hs.db.trialRow? tid := congrArg TrialRows.trial h
  cases hr : hs'.db.trialRow? tid with
  | none =>
    rw [hr] at e
    exact absurd ht ((trialRow?_none_iff hs.db tid).mp e.symm)
  | some r =>
    obtain ⟨hm, hid⟩ := trialRow?_some hs'.db tid r hr
    exact List.mem_map.mpr ⟨r, hm, hid⟩

/-- while the worker runs on alone, rows of a trial it has not (any more) on its list stay as they are -/
theorem sweepLoop_rows (P : Params) (hP : POk P) (w : Nat) (S : List Nat) (tid : Nat) (hS : tid ∉ S) (fuel : Nat) (c : Cfg)
    (h : RInv P c) (htid : tid ∈ c.hs.db.trialIds)
    (hsub : ∀ ph, c.workers[w]? = some ph → ∀ x ∈ ph.failTodo, x ∈ S) :
    rowsOf (sweepLoop P w fuel c).hs tid = rowsOf c.hs tid := by
  induction fuel generalizing c with
  | zero => rfl
  | succ n ih =>
    simp only [sweepLoop]
    split
    · rename_i hbusy
      have hrows : rowsOf (sweepStep P c w).hs tid = rowsOf c.hs tid := by
        rcases sweepStep_rows P hP c h w tid htid with e | ⟨todo, won, hw⟩
        · exact e
        · exact absurd (hsub _ hw tid (by simp [Phase.failTodo])) hS
      rw [ih (sweepStep P c w) (sweep_sim P hP c h w).2 (rows_trialIds _ _ tid hrows htid) ?_, hrows]
      intro ph' hph' x hx
      cases hw : c.workers[w]? with
      | none => simp [Cfg.busy, hw] at hbusy
      | some ph =>
        have hni : ph ≠ .idle := by intro e; subst e; simp [Cfg.busy, hw] at hbusy
        exact hsub ph hw x (sweepStep_failTodo P c w ph hw hni ph' hph' x hx)
    · rfl

/-- **table level, one whole call**: `fail_stale_trials` by an idle worker, nobody else acting in between, leaves every
row of every table of every existing trial (of any study) exactly as it was — primary keys and heartbeat column
included — unless the trial is one of the ids the call's stale read returned. -/
theorem failStaleTrials_rows (P : Params) (hP : POk P) (c : Cfg) (h : RInv P c) (w : Nat) (hw : c.workers[w]? = some .idle)
    (ids : List Nat) (hids : getStaleTrialIds c.hs c.now P.hbInterval P.gracePeriod P.sid = .ok ids)
    (tid : Nat) (htid : tid ∈ c.hs.db.trialIds) (hns : tid ∉ ids) :
    rowsOf (failStaleTrials P c w).hs tid = rowsOf c.hs tid := by
  unfold failStaleTrials
  have h1 : sweepStep P c w = (c.setPhase w (Phase.norm P.hasCb (.failing ids []))).log (.read w ids) := by
    simp only [sweepStep, hw, hids]
  simp only
  rw [sweepLoop_rows P hP w ids tid hns _ (sweepStep P c w) (sweep_sim P hP c h w).2 (by rw [h1]; exact htid) ?_, h1]
  · rfl
  · intro ph hph x hx
    rw [h1, workers_log, workers_setPhase c w _ (Heartbeat.getElem?_lt_length hw)] at hph
    simp only [Option.some.injEq] at hph
    subst hph
    exact norm_failTodo _ _ _ x hx

/-! ## the call returns -/

theorem size_norm_failing (b : Bool) (todo won : List Nat) :
    (Phase.norm b (.failing todo won)).size ≤ 3 * todo.length + 2 * won.length + 2 := by
  cases todo with
  | nil =>
    simp only [Phase.norm]
    split <;> simp [Phase.size] <;> omega
  | cons t r => simp [Phase.norm, Phase.size]

theorem size_norm_calling (b : Bool) (todo : List Nat) : (Phase.norm b (.calling todo)).size ≤ 2 * todo.length + 1 := by
  cases todo <;> simp [Phase.norm, Phase.size]

/-- every storage call of a worker inside a sweep brings the end of the sweep nearer -/
theorem sweepStep_size (P : Params) (c : Cfg) (w : Nat) (ph : Phase) (hw : c.workers[w]? = some ph) (hb : c.busy w = true) :
    ∀ ph', (sweepStep P c w).workers[w]? = some ph' → ph'.size < ph.size := by
  have hlt : w < c.workers.length := Heartbeat.getElem?_lt_length hw
  have hlt' : ∀ d, w < (c.setDb d).workers.length := fun d => hlt
  intro ph' hph'
  unfold sweepStep at hph'
  rw [hw] at hph'
  cases ph with
  | idle => simp [Cfg.busy, hw] at hb
  | dead => simp [Cfg.busy, hw] at hb
  | failing todo won =>
    cases todo with
    | nil =>
      simp only [workers_setPhase c w _ hlt, Option.some.injEq] at hph'
      subst hph'
      simp only [Phase.norm]
      split <;> simp [Phase.size]
    | cons t todo =>
      simp only at hph'
      split at hph'
      · simp only [workers_log, workers_setPhase _ w _ (hlt' _), Option.some.injEq] at hph'
        subst hph'
        have := size_norm_failing P.hasCb todo (if StaleGen.appendOnTrue then won ++ [t] else won)
        have h2 : (if StaleGen.appendOnTrue then won ++ [t] else won).length ≤ won.length + 1 := by split <;> simp
        simp only [Phase.size, List.length_cons] at this ⊢; omega
      · simp only [workers_setPhase _ w _ (hlt' _), Option.some.injEq] at hph'
        subst hph'
        have := size_norm_failing P.hasCb todo (if StaleGen.appendOnFalse then won ++ [t] else won)
        have h2 : (if StaleGen.appendOnFalse then won ++ [t] else won).length ≤ won.length + 1 := by split <;> simp
        simp only [Phase.size, List.length_cons] at this ⊢; omega
      · split at hph'
        · rw [workers_raise c w _ hlt] at hph'; simp at hph'; subst hph'; simp [Phase.size]
        · rename_i b _
          simp only [workers_log, workers_setPhase c w _ hlt, Option.some.injEq] at hph'
          subst hph'
          have := size_norm_failing P.hasCb todo (if b then won ++ [t] else won)
          have h2 : (if b then won ++ [t] else won).length ≤ won.length + 1 := by split <;> simp
          simp only [Phase.size, List.length_cons] at this ⊢; omega
      · rw [workers_raise c w _ hlt] at hph'; simp at hph'; subst hph'; simp [Phase.size]
  | calling todo =>
    cases todo with
    | nil =>
      simp only [workers_setPhase c w _ hlt, Option.some.injEq] at hph'
      subst hph'; simp [Phase.size]
    | cons t todo =>
      simp only at hph'
      split at hph'
      · rw [workers_raise c w _ hlt] at hph'; simp at hph'; subst hph'; simp [Phase.size]
      · split at hph'
        · rw [workers_raise c w _ hlt] at hph'; simp at hph'; subst hph'; simp [Phase.size]
        · simp only [workers_log, workers_setPhase c w _ hlt, Option.some.injEq] at hph'
          subst hph'
          have := size_norm_calling P.hasCb todo
          simp only [Phase.size, List.length_cons] at this ⊢; omega
        · simp only [workers_log, workers_setPhase c w _ hlt, Option.some.injEq] at hph'
          subst hph'; simp [Phase.size]; omega
  | enqueue t snap todo =>
    simp only at hph'
    split at hph'
    · split at hph'
      · simp only [workers_log, workers_setPhase _ w _ (hlt' _), Option.some.injEq] at hph'
        subst hph'
        have := size_norm_calling P.hasCb todo
        simp only [Phase.size] at this ⊢; omega
      · rw [workers_raise c w _ hlt] at hph'; simp at hph'; subst hph'; simp [Phase.size]
    · rw [workers_raise c w _ hlt] at hph'; simp at hph'; subst hph'; simp [Phase.size]

theorem sweepStep_workers_length (P : Params) (c : Cfg) (w : Nat) : (sweepStep P c w).workers.length = c.workers.length := by
  unfold sweepStep
  repeat' split
  all_goals simp [Cfg.raise, Cfg.log, Cfg.setPhase, Cfg.setDb]

/-- with enough fuel the worker is not inside a sweep any more at the end of the loop -/
theorem sweepLoop_returns (P : Params) (w : Nat) (fuel : Nat) (c : Cfg) (ph : Phase) (hw : c.workers[w]? = some ph)
    (hf : ph.size ≤ fuel) : (sweepLoop P w fuel c).busy w = false := by
  induction fuel generalizing c ph with
  | zero =>
    simp only [sweepLoop]
    cases ph <;> simp [Phase.size] at hf <;> simp [Cfg.busy, hw]
  | succ n ih =>
    simp only [sweepLoop]
    split
    · rename_i hb
      have hlt : w < (sweepStep P c w).workers.length := by
        rw [sweepStep_workers_length]; exact Heartbeat.getElem?_lt_length hw
      have hget : (sweepStep P c w).workers[w]? = some ((sweepStep P c w).workers[w]) := List.getElem?_eq_getElem hlt
      have := sweepStep_size P c w ph hw hb _ hget
      exact ih (sweepStep P c w) _ hget (by omega)
    · rename_i hb; simpa using hb

/-- **`fail_stale_trials` returns**: after the whole call the worker is idle again (or dead, if it was) -/
theorem failStaleTrials_returns (P : Params) (c : Cfg) (w : Nat) (hw : w < c.workers.length) :
    (failStaleTrials P c w).busy w = false := by
  unfold failStaleTrials
  have hlt : w < (sweepStep P c w).workers.length := by rw [sweepStep_workers_length]; exact hw
  have hget : (sweepStep P c w).workers[w]? = some ((sweepStep P c w).workers[w]) := List.getElem?_eq_getElem hlt
  simp only [hget]
  exact sweepLoop_returns P w _ _ _ hget (Nat.le_refl _)

end OptunaVerif.RdbHb
