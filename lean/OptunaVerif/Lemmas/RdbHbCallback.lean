import OptunaVerif.Model.RdbHeartbeat
import OptunaVerif.Model.Heartbeat
import OptunaVerif.Lemmas.RdbMut1
/-! `RetryFailedTrialCallback.__call__` on the relational model (`retryTemplate`, built from the *generated*
definitions of `Generated/StaleGen.lean`) against the abstract `retryOf` / `exceeds` of
`Model/Heartbeat.lean`.  Core Lean only. -/
set_option linter.unusedSimpArgs false
set_option linter.unusedSectionVars false
set_option linter.unusedVariables false
namespace OptunaVerif.RdbHb
open OptunaVerif OptunaVerif.Storage OptunaVerif.Rdb
open OptunaVerif.Generated

/-! ## insertion-ordered dicts -/

theorem get?_none_of_not_mem {α : Type} (l : AList α) (k : String) (h : ∀ p ∈ l, p.1 ≠ k) : l.get? k = none := by
  induction l with
  | nil => rfl
  | cons hd t ih =>
    obtain ⟨k', v'⟩ := hd
    have hk : k' ≠ k := h (k', v') (by simp)
    simp only [AList.get?, hk, if_false]
    exact ih (fun p hp => h p (List.mem_cons_of_mem _ hp))

theorem get?_some_mem {α : Type} (l : AList α) (k : String) (v : α) (h : l.get? k = some v) : (k, v) ∈ l := by
  induction l with
  | nil => simp [AList.get?] at h
  | cons hd t ih =>
    obtain ⟨k', v'⟩ := hd
    by_cases hk : k' = k
    · subst hk; simp [AList.get?] at h; subst h; simp
    · simp only [AList.get?, hk, if_false] at h
      exact List.mem_cons_of_mem _ (ih h)

theorem set_not_mem {α : Type} (l : AList α) (k : String) (v : α) (h : ∀ p ∈ l, p.1 ≠ k) : l.set k v = l ++ [(k, v)] := by
  induction l with
  | nil => rfl
  | cons hd t ih =>
    obtain ⟨k', v'⟩ := hd
    have hk : k' ≠ k := h (k', v') (by simp)
    simp only [AList.set, hk, if_false, List.cons_append]
    rw [ih (fun p hp => h p (List.mem_cons_of_mem _ hp))]

theorem keys_set {α : Type} (l : AList α) (k : String) (v : α) (k2 : String) :
    k2 ∈ (l.set k v).map (·.1) ↔ k2 ∈ l.map (·.1) ∨ k2 = k := by
  induction l with
  | nil => simp [AList.set]
  | cons hd t ih =>
    obtain ⟨k', v'⟩ := hd
    by_cases hk : k' = k
    · subst hk
      simp only [AList.set, if_true, List.map_cons, List.mem_cons]
      constructor
      · rintro (h | h)
        · exact Or.inr h
        · exact Or.inl (Or.inr h)
      · rintro ((h | h) | h)
        · exact Or.inl h
        · exact Or.inr h
        · exact Or.inl h
    · simp only [AList.set, hk, if_false, List.map_cons, List.mem_cons, ih]
      constructor
      · rintro (h | h | h)
        · exact Or.inl (Or.inl h)
        · exact Or.inl (Or.inr h)
        · exact Or.inr h
      · rintro ((h | h) | h)
        · exact Or.inl h
        · exact Or.inr (Or.inl h)
        · exact Or.inr (Or.inr h)

theorem distinct_set {α : Type} (l : AList α) (k : String) (v : α) (h : distinctKeys l) : distinctKeys (l.set k v) := by
  induction l with
  | nil => simp [AList.set, distinctKeys]
  | cons hd t ih =>
    obtain ⟨k', v'⟩ := hd
    unfold distinctKeys at h ih ⊢
    rw [List.pairwise_cons] at h
    by_cases hk : k' = k
    · subst hk
      simp only [AList.set, if_true]
      rw [List.pairwise_cons]
      exact ⟨h.1, h.2⟩
    · simp only [AList.set, hk, if_false]
      rw [List.pairwise_cons]
      refine ⟨?_, ih h.2⟩
      intro p hp
      have : p.1 ∈ (AList.set t k v).map (·.1) := List.mem_map.mpr ⟨p, hp, rfl⟩
      rw [keys_set] at this
      rcases this with hm | hm
      · obtain ⟨q, hq, e⟩ := List.mem_map.mp hm
        have := h.1 q hq
        simp only at this e ⊢
        rw [← e]; exact this
      · simp only; rw [hm]; exact hk

theorem filter_set {α : Type} (l : AList α) (k : String) (v : α) (p : String → Bool) :
    (l.set k v).filter (fun x => p x.1) =
      if p k then AList.set (l.filter (fun x => p x.1)) k v else l.filter (fun x => p x.1) := by
  induction l with
  | nil => by_cases hp : p k <;> simp [AList.set, hp]
  | cons hd t ih =>
    obtain ⟨k', v'⟩ := hd
    by_cases hk : k' = k
    · subst hk
      by_cases hp : p k' <;> simp [AList.set, hp]
    · simp only [AList.set, hk, if_false, List.filter_cons]
      by_cases hp' : p k'
      · simp only [hp', if_true, ih]
        by_cases hp : p k <;> simp [hp, AList.set, hk]
      · simp only [hp', Bool.false_eq_true, if_false, ih]

theorem dictUpdate_cons (d : AList String) (k v : String) (l : AList String) :
    dictUpdate d ((k, v) :: l) = dictUpdate (d.set k v) l := rfl

theorem get?_dictUpdate (d l : AList String) (hl : distinctKeys l) (k : String) :
    (dictUpdate d l).get? k = match l.get? k with | some v => some v | none => d.get? k := by
  induction l generalizing d with
  | nil => rfl
  | cons hd t ih =>
    obtain ⟨k', v'⟩ := hd
    unfold distinctKeys at hl
    rw [List.pairwise_cons] at hl
    rw [dictUpdate_cons, ih _ hl.2]
    by_cases hk : k' = k
    · subst hk
      have : AList.get? t k' = none := get?_none_of_not_mem t k' (fun p hp => (hl.1 p hp).symm)
      simp [AList.get?, this, AList.get?_set_same]
    · simp only [AList.get?, hk, if_false]
      cases AList.get? t k with
      | some v => rfl
      | none => simp only; exact AList.get?_set_other d k' k v' (Ne.symm hk)

theorem filter_dictUpdate (d l : AList String) (p : String → Bool) :
    (dictUpdate d l).filter (fun x => p x.1) = dictUpdate (d.filter (fun x => p x.1)) (l.filter (fun x => p x.1)) := by
  induction l generalizing d with
  | nil => rfl
  | cons hd t ih =>
    obtain ⟨k', v'⟩ := hd
    rw [dictUpdate_cons, ih, filter_set]
    by_cases hp : p k'
    · simp [hp, dictUpdate_cons]
    · simp [hp]

theorem dictUpdate_append (d l : AList String) (hl : distinctKeys l) (hdl : ∀ p ∈ d, ∀ q ∈ l, p.1 ≠ q.1) :
    dictUpdate d l = d ++ l := by
  induction l generalizing d with
  | nil => simp [dictUpdate]
  | cons hd t ih =>
    obtain ⟨k', v'⟩ := hd
    unfold distinctKeys at hl
    rw [List.pairwise_cons] at hl
    rw [dictUpdate_cons, set_not_mem d k' v' (fun p hp => hdl p hp (k', v') (by simp))]
    rw [ih _ hl.2]
    · simp
    · intro p hp q hq
      rcases List.mem_append.mp hp with hp | hp
      · exact hdl p hp q (List.mem_cons_of_mem _ hq)
      · simp only [List.mem_singleton] at hp; subst hp; exact hl.1 q hq

theorem distinct_filter {α : Type} (l : AList α) (p : String × α → Bool) (h : distinctKeys l) : distinctKeys (l.filter p) :=
  List.Pairwise.sublist List.filter_sublist h

theorem distinct_dictUpdate (d l : AList String) (hd : distinctKeys d) : distinctKeys (dictUpdate d l) := by
  induction l generalizing d with
  | nil => exact hd
  | cons hd' t ih => obtain ⟨k', v'⟩ := hd'; rw [dictUpdate_cons]; exact ih _ (distinct_set d k' v' hd)

/-! ## the abstraction of one trial -/

structure Codec.Lawful (C : Codec) : Prop where
  nat : ∀ n, C.decNat (C.encNat n) = some n
  list : ∀ l, C.decList (C.encList l) = some l

/-- the two keys `RetryFailedTrialCallback` owns -/
def reserved (k : String) : Bool := k == StaleGen.retriedKey || k == StaleGen.historyKey

/-- a parameter as an opaque token of the abstract model -/
def ptok (p : Param) : String := p.internal ++ " " ++ p.dist.body

/-- what `Model/Heartbeat.lean` sees of a trial -/
def recOf (C : Codec) (t : TrialS) : Heartbeat.Rec :=
  { state := t.state,
    params := t.params.map (fun p => (p.1, ptok p.2)),
    userAttrs := t.userAttrs,
    failedTrial := (t.systemAttrs.get? StaleGen.retriedKey).bind C.decNat,
    retryHistory := (t.systemAttrs.get? StaleGen.historyKey).bind C.decList,
    otherSys := t.systemAttrs.filter (fun p => !reserved p.1) }

/-- the payloads under the two reserved keys are a number / a list of numbers (nobody but the callback
writes them) -/
structure WfSys (C : Codec) (sys : AList String) : Prop where
  keys : distinctKeys sys
  failed : ∀ tok, sys.get? StaleGen.retriedKey = some tok → ∃ n, tok = C.encNat n
  history : ∀ tok, sys.get? StaleGen.historyKey = some tok → ∃ l, tok = C.encList l

/-- the history the callback starts from -/
def histOf (C : Codec) (sys : AList String) : List Nat := ((sys.get? StaleGen.historyKey).bind C.decList).getD []

theorem recOf_hist (C : Codec) (t : TrialS) : (recOf C t).hist = histOf C t.systemAttrs := rfl

/-! ## against the generated code -/

theorem appendKey_eq : StaleGen.appendKey = StaleGen.historyKey := by decide
theorem keys_ne : StaleGen.retriedKey ≠ StaleGen.historyKey := by decide

theorem initDict_eq (C : Codec) (n : Nat) :
    initDict C n = [(StaleGen.retriedKey, C.encNat n), (StaleGen.historyKey, C.encList [])] := by
  simp [initDict, StaleGen.callbackInit, StaleGen.retriedKey, StaleGen.historyKey, dictUpdate, AList.set]

theorem displayDict_eq (C : Codec) (n : Nat) (sys : AList String) :
    displayDict C n sys = dictUpdate [(StaleGen.retriedKey, C.encNat n), (StaleGen.historyKey, C.encList [])] sys := by
  simp only [displayDict, StaleGen.spread, initDict_eq]

theorem givesUp_iff (m : Option Int) (len : Nat) :
    StaleGen.givesUp m ((len + 1 : Nat) : Int) = Heartbeat.exceeds (m.map Int.toNat) { (default : Heartbeat.Rec) with retryHistory := some (List.replicate len 0) } := by
  cases m with
  | none => rfl
  | some m =>
    simp only [StaleGen.givesUp, Heartbeat.exceeds, Option.map_some, Heartbeat.Rec.hist, Option.getD_some, List.length_replicate]
    congr 1
    apply propext
    omega

/-- the `max_retry` test of the callback is the abstract `exceeds` -/
theorem givesUp_exceeds (m : Option Int) (r : Heartbeat.Rec) :
    StaleGen.givesUp m ((r.hist.length + 1 : Nat) : Int) = Heartbeat.exceeds (m.map Int.toNat) r := by
  cases m with
  | none => rfl
  | some m =>
    simp only [StaleGen.givesUp, Heartbeat.exceeds, Option.map_some]
    congr 1
    apply propext
    omega

/-! ## the callback -/

/-- the system attributes the callback hands to `create_trial` -/
def retrySys (C : Codec) (t : TrialS) : AList String :=
  (dictUpdate [(StaleGen.retriedKey, C.encNat t.number), (StaleGen.historyKey, C.encList [])] t.systemAttrs).set
    StaleGen.historyKey (C.encList (histOf C t.systemAttrs ++ [t.number]))

/-- the template the callback hands to `add_trial` -/
def retryTmpl (C : Codec) (cb : CbCfg) (t : TrialS) : Template :=
  { state := .waiting, values := none, params := t.params, userAttrs := t.userAttrs, systemAttrs := retrySys C t,
    inter := if cb.inherit then t.inter else [], hasStart := false, hasComplete := false }

theorem history_token (C : Codec) (hC : C.Lawful) (t : TrialS) (hw : WfSys C t.systemAttrs) :
    ∃ tok, (displayDict C t.number t.systemAttrs).get? StaleGen.historyKey = some tok ∧
      C.decList tok = some (histOf C t.systemAttrs) := by
  rw [displayDict_eq, get?_dictUpdate _ _ hw.keys]
  cases hg : t.systemAttrs.get? StaleGen.historyKey with
  | some tok =>
    obtain ⟨l, hl⟩ := hw.history tok hg
    refine ⟨tok, rfl, ?_⟩
    simp [histOf, hg, hl, hC.list]
  | none =>
    refine ⟨C.encList [], ?_, ?_⟩
    · simp [AList.get?, keys_ne]
    · simp [histOf, hg, hC.list]

/-- **the callback, exactly**: on a trial whose reserved payloads are well-formed, `RetryFailedTrialCallback`
gives up iff the abstract `exceeds` says so, and otherwise hands `retryTmpl` to `add_trial`. -/
theorem retryTemplate_eq (C : Codec) (hC : C.Lawful) (cb : CbCfg) (t : TrialS) (hw : WfSys C t.systemAttrs) :
    retryTemplate C cb t =
      if Heartbeat.exceeds (cb.maxRetry.map Int.toNat) (recOf C t) then .gaveUp else .enqueue (retryTmpl C cb t) := by
  obtain ⟨tok, htok, hdec⟩ := history_token C hC t hw
  unfold retryTemplate appendNumber
  rw [appendKey_eq, htok]
  simp only [hdec]
  have hlen : ((histOf C t.systemAttrs ++ [t.number]).length : Int) = (((recOf C t).hist.length + 1 : Nat) : Int) := by
    rw [recOf_hist]; simp
  rw [hlen, givesUp_exceeds]
  split
  · rfl
  · simp only [retryTmpl, retrySys, StaleGen.retryState, StaleGen.copiesParams, StaleGen.copiesUserAttrs,
      StaleGen.sysAttrsSource, StaleGen.interMode, displayDict_eq, if_true, TState.isFinished]
    rfl

/-! ## what the retry looks like to the abstract model -/

theorem retrySys_get_failed (C : Codec) (t : TrialS) (hw : WfSys C t.systemAttrs) :
    (retrySys C t).get? StaleGen.retriedKey =
      match t.systemAttrs.get? StaleGen.retriedKey with
      | some tok => some tok
      | none => some (C.encNat t.number) := by
  unfold retrySys
  rw [AList.get?_set_other _ _ _ _ keys_ne, get?_dictUpdate _ _ hw.keys]
  cases t.systemAttrs.get? StaleGen.retriedKey with
  | some tok => rfl
  | none => simp [AList.get?]

theorem retrySys_get_history (C : Codec) (t : TrialS) :
    (retrySys C t).get? StaleGen.historyKey = some (C.encList (histOf C t.systemAttrs ++ [t.number])) := by
  unfold retrySys
  exact AList.get?_set_same _ _ _

theorem reserved_retried : reserved StaleGen.retriedKey = true := by decide
theorem reserved_history : reserved StaleGen.historyKey = true := by decide

theorem retrySys_other (C : Codec) (t : TrialS) (hw : WfSys C t.systemAttrs) :
    (retrySys C t).filter (fun p => !reserved p.1) = t.systemAttrs.filter (fun p => !reserved p.1) := by
  unfold retrySys
  rw [filter_set _ _ _ (fun k => !reserved k)]
  simp only [reserved_history, Bool.not_true, Bool.false_eq_true, if_false]
  rw [filter_dictUpdate _ _ (fun k => !reserved k)]
  have : List.filter (fun (x : String × String) => !reserved x.1)
      [(StaleGen.retriedKey, C.encNat t.number), (StaleGen.historyKey, C.encList [])] = [] := by
    simp [reserved_retried, reserved_history]
  rw [this, dictUpdate_append [] _ (distinct_filter _ _ hw.keys) (by intro p hp; simp at hp)]
  simp

theorem retrySys_wf (C : Codec) (t : TrialS) (hw : WfSys C t.systemAttrs) : WfSys C (retrySys C t) := by
  refine ⟨?_, ?_, ?_⟩
  · unfold retrySys
    apply distinct_set
    apply distinct_dictUpdate
    unfold distinctKeys
    simp [keys_ne]
  · intro tok h
    rw [retrySys_get_failed C t hw] at h
    cases hg : t.systemAttrs.get? StaleGen.retriedKey with
    | some tok' => rw [hg] at h; simp at h; subst h; exact hw.failed tok' hg
    | none => rw [hg] at h; simp at h; exact ⟨t.number, h.symm⟩
  · intro tok h
    rw [retrySys_get_history] at h
    simp at h
    exact ⟨_, h.symm⟩

/-- **the retry is the abstract `retryOf`**: the trial `create_new_trial` makes of the callback's template is,
for `Model/Heartbeat.lean`, the WAITING copy `retryOf number record`. -/
theorem recOf_retry (C : Codec) (hC : C.Lawful) (cb : CbCfg) (t : TrialS) (hw : WfSys C t.systemAttrs) (sid n : Nat) :
    recOf C (mkTrial sid n (some (retryTmpl C cb t))) = Heartbeat.retryOf t.number (recOf C t) := by
  have hf : ((retrySys C t).get? StaleGen.retriedKey).bind C.decNat
      = some (((t.systemAttrs.get? StaleGen.retriedKey).bind C.decNat).getD t.number) := by
    rw [retrySys_get_failed C t hw]
    cases hg : t.systemAttrs.get? StaleGen.retriedKey with
    | some tok => obtain ⟨m, hm⟩ := hw.failed tok hg; simp [hm, hC.nat]
    | none => simp [hC.nat]
  simp only [recOf, mkTrial, retryTmpl, Heartbeat.retryOf, Heartbeat.Rec.hist, hf, retrySys_get_history, retrySys_other C t hw,
    Option.bind_some, hC.list, histOf]

end OptunaVerif.RdbHb
