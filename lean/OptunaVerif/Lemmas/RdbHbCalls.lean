import OptunaVerif.Lemmas.RdbHbInv
/-! The three storage calls of the sweep on the relational model, through the refinement of the storage
contract (`step_sim`, Lemmas/RdbRefine.lean): what `set_trial_state_values(t, FAIL)` answers and does, and
that `create_new_trial` with the callback's template cannot be refused.  Core Lean only. -/
set_option linter.unusedSimpArgs false
set_option linter.unusedSectionVars false
set_option linter.unusedVariables false
namespace OptunaVerif.RdbHb
open OptunaVerif OptunaVerif.Storage OptunaVerif.Rdb
open OptunaVerif.Generated

/-- what `set_trial_state_values(t, FAIL, values=None)` does to the record -/
def failF (t : TrialS) : TrialS :=
  { t with state := .fail, values := (none : Option (List XVal)).or t.values,
           hasStart := t.hasStart || (TState.fail == TState.running),
           hasComplete := t.hasComplete || TState.fail.isFinished }

theorem allowed_plain (res : Res) (o : Out) (h : Allowed res o) (h1 : ∀ l, o ≠ .oneOf l) (h2 : ∀ l, o ≠ .studies l) :
    res = .out o := by
  unfold Allowed at h
  split at h
  · exact absurd rfl (h1 _)
  · exact absurd rfl (h2 _)
  · exact h

theorem cas_finished (db : Rdb.State) (a : Spec) (h : Abs db a) (t : Nat) (tr : TrialS) (ht : a.trial? t = some tr)
    (hf : tr.state.isFinished = true) :
    (Rdb.step db (.setTrialStateValues t .fail none)).2 = .out (.err .updateFinished) := by
  have hs := step_sim db a (.setTrialStateValues t .fail none) h trivial
  unfold StepOk at hs
  simp only [withRaised, Storage.step, Spec.writable, ht, hf, if_true] at hs
  exact allowed_plain _ _ hs.2 (by intro l; simp) (by intro l; simp)

theorem cas_unfinished (db : Rdb.State) (a : Spec) (h : Abs db a) (t : Nat) (tr : TrialS) (ht : a.trial? t = some tr)
    (hf : tr.state.isFinished = false) :
    (Rdb.step db (.setTrialStateValues t .fail none)).2 = .out (.bool true) ∧
    Abs (Rdb.step db (.setTrialStateValues t .fail none)).1 (a.updTrial t failF) := by
  have hs := step_sim db a (.setTrialStateValues t .fail none) h trivial
  unfold StepOk at hs
  simp only [withRaised, Storage.step, Spec.writable, ht, hf] at hs
  have hne : (TState.fail == TState.running && tr.state != TState.waiting) = false := by
    have : (TState.fail == TState.running) = false := by decide
    rw [this]; rfl
  simp only [Bool.false_eq_true, if_false, hne] at hs
  exact ⟨allowed_plain _ _ hs.2 (by intro l; simp) (by intro l; simp), hs.1⟩

/-! ## `create_new_trial(study_id, template)` for the callback's template -/

theorem create_ok (db : Rdb.State) (a : Spec) (h : Abs db a) (sid : Nat) (st : StudyS) (hs : a.study? sid = some st)
    (tmpl : Template) (hwf : WfOp (.createTrial sid (some tmpl) false))
    (hnc : a.tmplConflict sid st (some tmpl) = false) :
    (Rdb.step db (.createTrial sid (some tmpl) false)).2 = .out (.newId a.trials.length) ∧
    Abs (Rdb.step db (.createTrial sid (some tmpl) false)).1
      { a with trials := a.trials ++ [mkTrial sid (a.trialsOf sid).length (some tmpl)] } := by
  have hsim := step_sim db a (.createTrial sid (some tmpl) false) h hwf
  unfold StepOk at hsim
  simp only [withRaised, Storage.step, hs, hnc, Bool.and_false, Bool.false_eq_true, if_false] at hsim
  exact ⟨allowed_plain _ _ hsim.2 (by intro l; simp) (by intro l; simp), hsim.1⟩

/-- a parameter of a listed trial is a row of `trial_params` of a trial of the study -/
theorem param_row (db : Rdb.State) (hinv : Inv0 db) (sid : Nat) (p : Nat × TrialS) (hp : p ∈ studyList db sid)
    (k : String) (q : Param) (hq : (k, q) ∈ p.2.params) : ∃ x, db.paramRowOf sid k x ∧ x.val = q := by
  obtain ⟨row, hr, hst, ep⟩ := (mem_studyList db sid p).mp hp
  rw [ep] at hq
  simp only [State.rowView, Tbl.kv, List.mem_map, Prod.mk.injEq] at hq
  obtain ⟨x, hx, ek, ev⟩ := hq
  rw [Tbl.mem_ofOwner] at hx
  refine ⟨x, ⟨hx.1, ek, ?_⟩, ev⟩
  rw [trialStudy?_eq, hx.2, trialRow?_of_mem db hinv row hr]
  simp [hst]

theorem no_conflict (db : Rdb.State) (a : Spec) (h : Abs db a) (sid : Nat) (st : StudyS) (hs : a.study? sid = some st)
    (p : Nat × TrialS) (hp : p ∈ studyList db sid) (tmpl : Template) (hpar : tmpl.params = p.2.params) :
    a.tmplConflict sid st (some tmpl) = false := by
  have hlive : (a.study? sid).isSome = true := by rw [hs]; rfl
  unfold Spec.tmplConflict
  rw [List.any_eq_false]
  intro kq hkq
  obtain ⟨k, q⟩ := kq
  rw [hpar] at hkq
  obtain ⟨x, hx, exv⟩ := param_row db h.inv.1 sid p hp k q hkq
  simp only [Bool.or_eq_true, not_or]
  constructor
  · -- what `set_trial_param` fixed for the name
    unfold StudyS.fixedConflict
    cases hg : st.paramDist.get? k with
    | none => simp
    | some d0 =>
      obtain ⟨z, hz, hzc⟩ := h.pdist sid st k d0 hs hg
      have hzx := h.pc sid k z x hz hx
      rw [exv] at hzx
      have := Journal.compat_trans' _ _ _ (Journal.compat_symm' _ _ hzc) hzx
      simp [this]
  · -- what the other trials of the study carry
    unfold Spec.templateConflict
    simp only [Bool.not_eq_true]
    rw [List.any_eq_false]
    intro p' hp'
    rw [← studyList_abs db a h sid hlive] at hp'
    cases hg : p'.2.params.get? k with
    | none => simp
    | some q' =>
      obtain ⟨y, hy, eyv⟩ := param_row db h.inv.1 sid p' hp' k q' (get?_some_mem _ _ _ hg)
      have := h.pc sid k y x hy hx
      rw [eyv, exv] at this
      simp [this]

end OptunaVerif.RdbHb
