import OptunaVerif.Lemmas.RdbHbSweep3
/-! The other actors of the relational heartbeat model against the abstract one: a worker dies, the database clock
advances, somebody records a heartbeat.  Core Lean only. -/
set_option linter.unusedSimpArgs false
set_option linter.unusedSectionVars false
set_option linter.unusedVariables false
namespace OptunaVerif.RdbHb
open OptunaVerif OptunaVerif.Storage OptunaVerif.Rdb
open OptunaVerif.Generated
open OptunaVerif.Heartbeat (HTrial Rec)

/-! ## stamps -/

theorem stampOf_mem (l : Stamps) (b : Nat) (ts : Int) (h : stampOf l b = some ts) : (b, ts) ∈ l := by
  induction l with
  | nil => simp [stampOf] at h
  | cons hd t ih =>
    obtain ⟨b', t'⟩ := hd
    by_cases hb : b' = b
    · subst hb; simp [stampOf] at h; subst h; simp
    · simp only [stampOf, hb, if_false] at h
      exact List.mem_cons_of_mem _ (ih h)

theorem mem_setStamp (l : Stamps) (b : Nat) (ts : Int) (p : Nat × Int) (h : p ∈ setStamp l b ts) : p ∈ l ∨ p = (b, ts) := by
  induction l with
  | nil => simp [setStamp] at h; exact Or.inr h
  | cons hd t ih =>
    obtain ⟨b', t'⟩ := hd
    by_cases hb : b' = b
    · subst hb
      simp only [setStamp, if_true, List.mem_cons] at h
      rcases h with h | h
      · exact Or.inr h
      · exact Or.inl (List.mem_cons_of_mem _ h)
    · simp only [setStamp, hb, if_false, List.mem_cons] at h
      rcases h with h | h
      · exact Or.inl (by rw [h]; simp)
      · rcases ih h with h | h
        · exact Or.inl (List.mem_cons_of_mem _ h)
        · exact Or.inr h

theorem heartbeat_past (hs : HState) (now : Int) (hpast : ∀ p ∈ hs.stamps, p.2 ≤ now) (tid : Nat) (ts : Int)
    (h : ts ∈ heartbeatsOf hs tid) : ts ≤ now := by
  unfold heartbeatsOf at h
  obtain ⟨b, _, hb⟩ := List.mem_filterMap.mp h
  exact hpast (b.id, ts) (stampOf_mem _ _ _ hb)

/-! ## a worker dies -/

theorem die_sim (P : Params) (c : Cfg) (h : RInv P c) (w : Nat) :
    absCfg P (step P c (.die w)) = Heartbeat.step (absParams P) (absCfg P c) (.die w) ∧ RInv P (step P c (.die w)) := by
  have hrel : step P c (.die w) = c.move c.hs.db w .dead none := rfl
  rw [hrel]
  constructor
  · rw [absCfg_move P c h c.hs.db w _ _ rfl (fun _ _ => rfl)]
    simp only [Heartbeat.step, Heartbeat.Cfg.setPhase]
    apply cfg_ext <;> rfl
  · exact h.move_same w _ none trivial (by intro ev hev; cases hev)

/-! ## the clock -/

theorem ageOf_tick (hs : HState) (now : Int) (d : Nat) (hpast : ∀ p ∈ hs.stamps, p.2 ≤ now) (tid : Nat) :
    ageOf hs (now + d) tid = (ageOf hs now tid).map (· + d) := by
  unfold ageOf
  match hh : heartbeatsOf hs tid with
  | [] => rfl
  | [ts] =>
    have : ts ≤ now := heartbeat_past hs now hpast tid ts (by rw [hh]; simp)
    simp only [Option.map_some, Option.some.injEq]
    omega
  | _ :: _ :: _ => rfl

theorem tick_sim (P : Params) (c : Cfg) (h : RInv P c) (d : Nat) :
    absCfg P (step P c (.tick d)) = Heartbeat.step (absParams P) (absCfg P c) (.env (.tick d)) ∧ RInv P (step P c (.tick d)) := by
  constructor
  · simp only [step, Heartbeat.step, Heartbeat.envStep]
    apply cfg_ext
    · simp only [absCfg, absTrialsL, List.map_map]
      apply List.map_congr_left
      intro p _
      simp only [Function.comp, absTrial, ageOf_tick c.hs c.now d h.past p.1]
    · rfl
    · rfl
  · refine ⟨h.abs, h.stamped, ?_, h.wf, h.phases, h.evIn, h.noRaise⟩
    intro p hp
    have := h.past p hp
    show p.2 ≤ c.now + d
    omega

/-! ## `record_heartbeat` -/

theorem unit_row_eq {ν : Type} (r : KRow Unit Unit) : ({ r with val := () } : KRow Unit Unit) = r := rfl

/-- what `record_heartbeat` does to the tables: a new row stamped `now`, or the existing row re-stamped -/
theorem beat_cases (s : HState) (h : Inv0 s.db) (now : Int) (tid : Nat) :
    ((∀ b ∈ s.db.beats, b.owner ≠ tid) ∧
      (recordHeartbeat s now tid).1 =
        { db := { s.db with beats := s.db.beats ++ [{ id := s.db.nBeat, owner := tid, key := (), val := () }], nBeat := s.db.nBeat + 1 },
          stamps := setStamp s.stamps s.db.nBeat now }) ∨
    (∃ r ∈ s.db.beats, r.owner = tid ∧ (recordHeartbeat s now tid).1 = { db := s.db, stamps := setStamp s.stamps r.id now }) := by
  unfold recordHeartbeat
  rw [Tbl.oneOrNone_atKey s.db.beats s.db.nBeat h.beats, recordHeartbeat_eq s.db h]
  cases hf : s.db.beats.find? (fun r => r.owner == tid && decide (r.key = ())) with
  | none =>
    left
    have hno : ∀ b ∈ s.db.beats, b.owner ≠ tid := by
      intro b hb e
      have := List.find?_eq_none.mp hf b hb
      simp [e] at this
    have hemp : (Tbl.atKey s.db.beats tid ()).isEmpty = true := by
      rw [Tbl.atKey_isEmpty_iff]; intro r hr hm; exact hno r hr hm.1
    refine ⟨hno, ?_⟩
    simp only [Tbl.upsertConflict, hemp, if_true]
  | some r =>
    right
    have hr := List.find?_some hf
    have hmem := List.mem_of_find?_eq_some hf
    simp only [Bool.and_eq_true, beq_iff_eq, decide_eq_true_eq] at hr
    have hne : (Tbl.atKey s.db.beats tid ()).isEmpty = false := by
      cases hh : (Tbl.atKey s.db.beats tid ()).isEmpty with
      | false => rfl
      | true =>
        rw [Tbl.atKey_isEmpty_iff] at hh
        exact absurd ⟨hr.1, rfl⟩ (hh r hmem)
    refine ⟨r, hmem, hr.1, ?_⟩
    simp only [Tbl.upsertConflict, hne, Bool.false_eq_true, if_false]
    congr 1
    have hF : ∀ F' : KRow Unit Unit → KRow Unit Unit, (∀ r, F' r = r) → List.map F' s.db.beats = s.db.beats := by
      intro F' hF'
      rw [List.map_congr_left (g := id)]
      · simp
      · intro x _; exact hF' x
    rw [hF _ (by intro r; split <;> rfl)]

theorem heartbeatsOf_beat (s : HState) (h : Inv0 s.db) (now : Int) (tid x : Nat) :
    heartbeatsOf (recordHeartbeat s now tid).1 x = if x = tid then [now] else heartbeatsOf s x := by
  rcases beat_cases s h now tid with ⟨hno, e⟩ | ⟨r, hr, hro, e⟩
  · rw [e]
    unfold heartbeatsOf
    simp only [Tbl.ofOwner_append, List.filterMap_append]
    have hold : ∀ l : List (KRow Unit Unit), (∀ b ∈ l, b ∈ s.db.beats) →
        l.filterMap (fun b => stampOf (setStamp s.stamps s.db.nBeat now) b.id) = l.filterMap (fun b => stampOf s.stamps b.id) := by
      intro l hl
      apply filterMap_congr'
      intro b hb
      have : b.id ≠ s.db.nBeat := by have := h.beats.below b (hl b hb); omega
      exact stampOf_setStamp_other _ _ _ _ this
    rw [hold _ (fun b hb => ((Tbl.mem_ofOwner _ _ _).mp hb).1)]
    by_cases hx : x = tid
    · subst hx
      have : Tbl.ofOwner s.db.beats x = [] := by
        unfold Tbl.ofOwner; rw [List.filter_eq_nil_iff]; intro b hb; simpa using hno b hb
      rw [this]
      simp [Tbl.ofOwner, stampOf_setStamp_same]
    · have : Tbl.ofOwner [({ id := s.db.nBeat, owner := tid, key := (), val := () } : KRow Unit Unit)] x = [] := by
        simp [Tbl.ofOwner, Ne.symm hx]
      simp [this, hx]
  · rw [e]
    unfold heartbeatsOf
    by_cases hx : x = tid
    · subst hx
      rw [← hro, beats_ofOwner_eq_singleton _ _ h.beats r hr]
      simp [stampOf_setStamp_same, hro]
    · simp only [hx, if_false]
      apply filterMap_congr'
      intro b hb
      rw [Tbl.mem_ofOwner] at hb
      have : b.id ≠ r.id := by
        intro e'
        rcases pairwise_mem_cases h.beats.sorted hb.1 hr with e2 | e2 | e2
        · rw [e2, hro] at hb; exact hx hb.2.symm
        · omega
        · omega
      exact stampOf_setStamp_other _ _ _ _ this

theorem beat_db (s : HState) (h : Inv0 s.db) (now : Int) (tid : Nat) :
    (recordHeartbeat s now tid).1.db = (Rdb.recordHeartbeat s.db tid).1 := by
  unfold recordHeartbeat
  rw [Tbl.oneOrNone_atKey s.db.beats s.db.nBeat h.beats]
  cases s.db.beats.find? (fun r => r.owner == tid && decide (r.key = ())) <;> rfl

theorem beat_studyList (s : HState) (h : Inv0 s.db) (now : Int) (tid sid : Nat) :
    studyList (recordHeartbeat s now tid).1.db sid = studyList s.db sid ∧
    (recordHeartbeat s now tid).1.db.nTrial = s.db.nTrial := by
  rcases beat_cases s h now tid with ⟨_, e⟩ | ⟨r, _, _, e⟩ <;> rw [e] <;> exact ⟨rfl, rfl⟩

theorem map_if_eq_updAt' {β : Type} (L : List (Nat × TrialS)) (hs : Sorted L) (tid : Nat) (f : Nat × TrialS → β) (G : β → β) :
    L.map (fun p => if p.1 = tid then G (f p) else f p) =
      if tid ∈ L.map (·.1) then updAt (L.map f) (numOf L tid) G else L.map f := by
  split
  · rename_i hm
    obtain ⟨q, hq, hqe⟩ := List.mem_map.mp hm
    apply List.ext_getElem?
    intro i
    rw [List.getElem?_map, updAt_getElem?, List.getElem?_map]
    cases hi : L[i]? with
    | none => simp
    | some p =>
      have hn := numOf_of_getElem? L hs i p hi
      simp only [Option.map_some]
      by_cases hp : p.1 = tid
      · rw [← hp, hn]; simp [hp]
      · have : i ≠ numOf L tid := by
          intro e
          have hq' := getElem?_numOf L hs q hq
          rw [hqe, ← e, hi] at hq'
          simp at hq'
          rw [hq'] at hp
          exact hp hqe
        simp [hp, this]
  · rename_i hm
    apply List.map_congr_left
    intro p hp
    have : p.1 ≠ tid := fun e => hm (List.mem_map.mpr ⟨p, hp, e⟩)
    simp [this]

/-- the abstract counterpart of `record_heartbeat(tid)`: a `beat` of the trial's number if the trial belongs to the
study, nothing otherwise -/
def beatActs (P : Params) (c : Cfg) (tid : Nat) : List Heartbeat.Act :=
  if tid ∈ (studyList c.hs.db P.sid).map (·.1) then [.env (.beat (numOf (studyList c.hs.db P.sid) tid))] else []

theorem beat_sim (P : Params) (c : Cfg) (h : RInv P c) (tid : Nat) (htid : tid ∈ c.hs.db.trialIds) :
    absCfg P (step P c (.beat tid)) = Heartbeat.run (absParams P) (absCfg P c) (beatActs P c tid) ∧ RInv P (step P c (.beat tid)) := by
  obtain ⟨a, ha, hlive⟩ := h.abs
  have hinv := ha.inv
  obtain ⟨hL, hnT⟩ := beat_studyList c.hs hinv.1 c.now tid P.sid
  have hsorted := studyList_sorted c.hs.db hinv.1 P.sid
  have hage : ∀ x, ageOf (recordHeartbeat c.hs c.now tid).1 c.now x = if x = tid then some 0 else ageOf c.hs c.now x := by
    intro x
    unfold ageOf
    rw [heartbeatsOf_beat c.hs hinv.1 c.now tid x]
    by_cases hx : x = tid
    · simp [hx]
    · simp [hx]
  constructor
  · simp only [step]
    apply cfg_ext
    · show absTrialsL P.codec (recordHeartbeat c.hs c.now tid).1 c.now (studyList (recordHeartbeat c.hs c.now tid).1.db P.sid) = _
      rw [hL]
      have : absTrialsL P.codec (recordHeartbeat c.hs c.now tid).1 c.now (studyList c.hs.db P.sid) =
          (studyList c.hs.db P.sid).map (fun p => if p.1 = tid then (fun x : HTrial => { x with hb := some 0 }) (absTrial P.codec c.hs c.now p)
            else absTrial P.codec c.hs c.now p) := by
        apply List.map_congr_left
        intro p _
        simp only [absTrial, hage]
        split <;> rfl
      rw [this, map_if_eq_updAt' _ hsorted tid (absTrial P.codec c.hs c.now) (fun x : HTrial => { x with hb := some 0 })]
      unfold beatActs
      split
      · simp only [Heartbeat.run, List.foldl_cons, List.foldl_nil, Heartbeat.step, Heartbeat.envStep]
        rename_i hm
        obtain ⟨q, hq, hqe⟩ := List.mem_map.mp hm
        have := trials_abs_get P c h q hq
        rw [hqe] at this
        simp only [this]
        rfl
      · rfl
    · show c.workers.map (absPhase P.codec (studyList (recordHeartbeat c.hs c.now tid).1.db P.sid)) = _
      rw [hL]
      unfold beatActs
      split
      · simp only [Heartbeat.run, List.foldl_cons, List.foldl_nil, Heartbeat.step]; rfl
      · rfl
    · show c.events.filterMap (absEvent P.codec (studyList (recordHeartbeat c.hs c.now tid).1.db P.sid)) = _
      rw [hL]
      unfold beatActs
      split
      · simp only [Heartbeat.run, List.foldl_cons, List.foldl_nil, Heartbeat.step]; rfl
      · rfl
  · have habs' : Abs (recordHeartbeat c.hs c.now tid).1.db a := by
      rw [beat_db c.hs hinv.1]; exact (abs_recordHeartbeat c.hs.db a ha tid htid).1
    refine ⟨⟨a, habs', hlive⟩, ?_, ?_, ?_, ?_, ?_, h.noRaise⟩
    · intro b hb
      rcases beat_cases c.hs hinv.1 c.now tid with ⟨_, e⟩ | ⟨r, _, _, e⟩
      · have hb' : b ∈ (recordHeartbeat c.hs c.now tid).1.db.beats := hb
        show ∃ ts, stampOf (recordHeartbeat c.hs c.now tid).1.stamps b.id = some ts
        rw [e] at hb' ⊢
        simp only [List.mem_append, List.mem_singleton] at hb'
        by_cases hid : b.id = c.hs.db.nBeat
        · rw [hid]; exact ⟨c.now, stampOf_setStamp_same _ _ _⟩
        · rcases hb' with hb' | hb'
          · obtain ⟨ts, hts⟩ := h.stamped b hb'
            exact ⟨ts, by simp only; rw [stampOf_setStamp_other _ _ _ _ hid]; exact hts⟩
          · rw [hb'] at hid; exact absurd rfl hid
      · have hb' : b ∈ (recordHeartbeat c.hs c.now tid).1.db.beats := hb
        show ∃ ts, stampOf (recordHeartbeat c.hs c.now tid).1.stamps b.id = some ts
        rw [e] at hb' ⊢
        by_cases hid : b.id = r.id
        · rw [hid]; exact ⟨c.now, stampOf_setStamp_same _ _ _⟩
        · obtain ⟨ts, hts⟩ := h.stamped b hb'
          exact ⟨ts, by simp only; rw [stampOf_setStamp_other _ _ _ _ hid]; exact hts⟩
    · intro p hp
      have hp' : p ∈ (recordHeartbeat c.hs c.now tid).1.stamps := hp
      show p.2 ≤ c.now
      rcases beat_cases c.hs hinv.1 c.now tid with ⟨_, e⟩ | ⟨r, _, _, e⟩ <;>
      · rw [e] at hp'
        rcases mem_setStamp _ _ _ _ hp' with hp' | hp'
        · exact h.past p hp'
        · rw [hp']; exact Int.le_refl _
    · intro q hq
      have hq' : q ∈ studyList (recordHeartbeat c.hs c.now tid).1.db P.sid := hq
      rw [hL] at hq'
      exact h.wf q hq'
    · intro w ph hw
      show PhaseOk _ _ (studyList (recordHeartbeat c.hs c.now tid).1.db P.sid) ph
      rw [hL]
      exact h.phases w ph hw
    · intro ev hev t ht
      show t ∈ (studyList (recordHeartbeat c.hs c.now tid).1.db P.sid).map (·.1)
      rw [hL]
      exact h.evIn ev hev t ht

end OptunaVerif.RdbHb
