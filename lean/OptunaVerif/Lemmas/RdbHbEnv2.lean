import OptunaVerif.Lemmas.RdbHbEnv
/-! Any `BaseStorage` call by anybody, on the relational heartbeat model, against the abstract model: the three ways
the listing of the study can change (not at all / one listed trial rewritten / one trial appended) and what each
means for the abstraction and the invariant.  Core Lean only. -/
set_option linter.unusedSimpArgs false
set_option linter.unusedSectionVars false
set_option linter.unusedVariables false
namespace OptunaVerif.RdbHb
open OptunaVerif OptunaVerif.Storage OptunaVerif.Rdb
open OptunaVerif.Generated
open OptunaVerif.Heartbeat (HTrial Rec)

/-! ## the study stays live -/

theorem study?_of_studies (a a' : Spec) (h : a'.studies = a.studies) (sid : Nat) : a'.study? sid = a.study? sid := by
  unfold Spec.study?; rw [h]

theorem live_step (a : Spec) (op : Op) (hnd : ∀ s, op ≠ .deleteStudy s) (sid : Nat) (hl : (a.study? sid).isSome = true) :
    ((Storage.step a op).1.study? sid).isSome = true := by
  rcases step_studies a op with h | ⟨st, h, _⟩ | ⟨s, h, _⟩ | ⟨s, f, h, _⟩
  · rw [study?_of_studies _ _ h]; exact hl
  · unfold Spec.study? at hl ⊢
    rw [h]
    have hlt : sid < a.studies.length := by
      cases hg : a.studies[sid]? with
      | none => simp [hg] at hl
      | some o => exact Heartbeat.getElem?_lt_length hg
    rw [List.getElem?_append_left hlt]; exact hl
  · -- only `delete_study` empties a slot
    cases op with
    | deleteStudy s' => exact absurd rfl (hnd s')
    | createStudy name dirs =>
      simp only [Storage.step] at h ⊢
      split
      · exact hl
      · unfold Spec.study? at hl ⊢
        have hlt : sid < a.studies.length := by
          cases hg : a.studies[sid]? with
          | none => simp [hg] at hl
          | some o => exact Heartbeat.getElem?_lt_length hg
        simp only
        rw [List.getElem?_append_left hlt]; exact hl
    | setStudyUserAttr s' k v =>
      simp only [Storage.step]
      split
      · exact hl
      · rw [Journal.study?_updStudy]
        split
        · rename_i e; rw [e] at hl ⊢; cases hq : a.study? s' with
          | none => simp [hq] at hl
          | some _ => rfl
        · exact hl
    | setStudySystemAttr s' k v =>
      simp only [Storage.step]
      split
      · exact hl
      · rw [Journal.study?_updStudy]
        split
        · rename_i e; rw [e] at hl ⊢; cases hq : a.study? s' with
          | none => simp [hq] at hl
          | some _ => rfl
        · exact hl
    | setTrialParam tid name p ir =>
      simp only [Storage.step]
      repeat' split
      all_goals first
        | exact hl
        | (rw [Journal.study?_updStudy, updTrial_study?]
           split
           · rename_i e; rw [e] at hl ⊢
             cases hq : a.study? _ with
             | none => simp [hq] at hl
             | some _ => rfl
           · exact hl)
    | _ =>
      simp only [Storage.step]
      repeat' split
      all_goals first
        | exact hl
        | (rw [updTrial_study?]; exact hl)
        | (rw [study?_of_studies _ a rfl]; exact hl)
  · unfold Spec.study? at hl ⊢
    rw [h, updAt_getElem?]
    split
    · cases hg : a.studies[sid]? with
      | none => simp [hg] at hl
      | some o =>
        cases o with
        | none => simp [hg] at hl
        | some st => simp [hg]
    · exact hl

/-! ## how the listing of the study can change -/

theorem trialsOf_of_trials (a a' : Spec) (h : a'.trials = a.trials) (sid : Nat) : a'.trialsOf sid = a.trialsOf sid := by
  unfold Spec.trialsOf; rw [h]

theorem change_evolves (a a' : Spec) (sid : Nat) (hch : TrialsChange a a') (hl : (a.study? sid).isSome = true) :
    Evolves (a.trialsOf sid) (a'.trialsOf sid) ∧ a.trials.length ≤ a'.trials.length := by
  rcases hch with h | ⟨t, h, _, _⟩ | ⟨tid, f, t0, h, hw, hf⟩
  · rw [trialsOf_of_trials _ _ h, h]; exact ⟨Evolves.refl _, Nat.le_refl _⟩
  · have : a'.trialsOf sid = a.trialsOf sid ++ (if t.study == sid then [(a.trials.length, t)] else []) := by
      unfold Spec.trialsOf; rw [h, trialsFrom_append]; simp
    rw [this, h]
    refine ⟨⟨fun x hx => by rw [List.map_append]; exact List.mem_append_left _ hx, fun q hq _ => List.mem_append_left _ hq⟩, by simp⟩
  · have : a'.trialsOf sid = (a.trialsOf sid).map (fun p => if p.1 = tid then (p.1, f p.2) else p) := by
      unfold Spec.trialsOf; rw [h, trialsFrom_updAt sid a.trials tid 0 f (fun t => (hf t).1)]; simp
    rw [this, h]
    refine ⟨⟨?_, ?_⟩, by simp⟩
    · intro x hx
      rw [List.map_map]
      obtain ⟨q, hq, e⟩ := List.mem_map.mp hx
      refine List.mem_map.mpr ⟨q, hq, ?_⟩
      simp only [Function.comp]
      split <;> exact e
    · intro q hq hqf
      refine List.mem_map.mpr ⟨q, hq, ?_⟩
      have hne : q.1 ≠ tid := by
        intro e
        have h1 := (mem_trialsOf a sid hl q.1 q.2).mp hq
        rw [e] at h1
        obtain ⟨h2, h3⟩ := (writable_ok_iff a tid t0).mp hw
        rw [h2] at h1
        simp only [Option.some.injEq] at h1
        rw [← h1.1, h3] at hqf
        exact Bool.false_ne_true hqf
      simp [hne]

/-! ## the abstraction and the invariant after a storage call -/

theorem absCfg_setDb (P : Params) (c : Cfg) (h : RInv P c) (db' : Rdb.State) (hbeats : db'.beats = c.hs.db.beats)
    (hnum : ∀ t, t < c.hs.db.nTrial → numOf (studyList db' P.sid) t = numOf (studyList c.hs.db P.sid) t) :
    absCfg P (c.setDb db') =
      { trials := absTrialsL P.codec c.hs c.now (studyList db' P.sid), workers := (absCfg P c).workers, events := (absCfg P c).events } := by
  apply cfg_ext
  · simp only [absCfg, Cfg.setDb, absTrialsL]
    apply List.map_congr_left
    intro p _
    simp only [absTrial]
    rw [ageOf_eq_of_beats c.hs { c.hs with db := db' } c.now p.1 hbeats rfl]
  · simp only [absCfg, Cfg.setDb]
    apply List.map_congr_left
    intro ph' hph'
    obtain ⟨w', hw'⟩ := List.getElem?_of_mem hph'
    apply absPhase_congr
    intro t ht
    exact hnum t (studyList_lt c.hs.db h.inv.1 P.sid t (Phase.ids_mem (h.phases w' ph' hw') t ht))
  · simp only [absCfg, Cfg.setDb]
    apply filterMap_congr'
    intro ev hev
    apply absEvent_congr
    intro t ht
    exact hnum t (h.evIds ev hev t ht)

theorem RInv.setDb {P : Params} {c : Cfg} (h : RInv P c) (db' : Rdb.State) (a' : Spec) (habs : Abs db' a')
    (hlive : (a'.study? P.sid).isSome = true) (hbeats : db'.beats = c.hs.db.beats)
    (hev : Evolves (studyList c.hs.db P.sid) (studyList db' P.sid)) (hnT : c.hs.db.nTrial ≤ db'.nTrial)
    (hwf : ∀ q ∈ studyList db' P.sid, WfSys P.codec q.2.systemAttrs) : RInv P (c.setDb db') := by
  refine ⟨⟨a', habs, hlive⟩, ?_, h.past, hwf, ?_, ?_, h.noRaise⟩
  · intro b hb
    have : b ∈ c.hs.db.beats := by rw [← hbeats]; exact hb
    exact h.stamped b this
  · intro w ph hw
    exact (h.phases w ph hw).evolve hev
  · intro ev hm t ht
    exact hev.ids t (h.evIn ev hm t ht)

/-- the facts every storage call other than `delete_study` gives -/
structure CallFacts (P : Params) (c : Cfg) (db' : Rdb.State) (a a' : Spec) : Prop where
  abs : Abs c.hs.db a
  abs' : Abs db' a'
  live : (a.study? P.sid).isSome = true
  live' : (a'.study? P.sid).isSome = true
  beats : db'.beats = c.hs.db.beats
  evolves : Evolves (a.trialsOf P.sid) (a'.trialsOf P.sid)
  len : a.trials.length ≤ a'.trials.length

theorem CallFacts.L {P : Params} {c : Cfg} {db' : Rdb.State} {a a' : Spec} (f : CallFacts P c db' a a') :
    studyList c.hs.db P.sid = a.trialsOf P.sid := studyList_abs _ _ f.abs _ f.live
theorem CallFacts.L' {P : Params} {c : Cfg} {db' : Rdb.State} {a a' : Spec} (f : CallFacts P c db' a a') :
    studyList db' P.sid = a'.trialsOf P.sid := studyList_abs _ _ f.abs' _ f.live'

theorem call_facts (P : Params) (c : Cfg) (a : Spec) (ha : Abs c.hs.db a) (hlive : (a.study? P.sid).isSome = true) (op : Op)
    (hwf : WfOp op) (hnd : ∀ s, op ≠ .deleteStudy s) :
    CallFacts P c (Rdb.step c.hs.db op).1 a (Storage.step a (withRaised op (raisedValueError (Rdb.step c.hs.db op).2))).1 ∧
    Allowed (Rdb.step c.hs.db op).2 (Storage.step a (withRaised op (raisedValueError (Rdb.step c.hs.db op).2))).2 := by
  obtain ⟨h1, h2⟩ := step_sim c.hs.db a op ha hwf
  have hnd' : ∀ s, withRaised op (raisedValueError (Rdb.step c.hs.db op).2) ≠ .deleteStudy s := by
    intro s; cases op <;> simp [withRaised] <;> exact absurd rfl (hnd _)
  obtain ⟨hev, hlen⟩ := change_evolves a _ P.sid (step_trials a _) hlive
  exact ⟨⟨ha, h1, hlive, live_step a _ hnd' P.sid hlive, (beats_step c.hs.db op ha.inv hnd).beats, hev, hlen⟩, h2⟩

/-- **frame**: the listing of the study did not change -/
theorem frame_sim (P : Params) (c : Cfg) (h : RInv P c) (db' : Rdb.State) (a a' : Spec) (f : CallFacts P c db' a a')
    (hsame : a'.trialsOf P.sid = a.trialsOf P.sid) :
    absCfg P (c.setDb db') = absCfg P c ∧ RInv P (c.setDb db') := by
  have hL' : studyList db' P.sid = studyList c.hs.db P.sid := by rw [f.L', f.L, hsame]
  constructor
  · rw [absCfg_setDb P c h db' f.beats (fun t _ => by rw [hL']), hL']
    rfl
  · apply h.setDb db' a' f.abs' f.live' f.beats (by rw [hL']; exact Evolves.refl _)
    · rw [← f.abs.nTrials, ← f.abs'.nTrials]; exact f.len
    · rw [hL']; exact h.wf

/-- **one listed, unfinished trial is rewritten** -/
theorem upd_sim (P : Params) (c : Cfg) (h : RInv P c) (db' : Rdb.State) (a a' : Spec) (f : CallFacts P c db' a a')
    (p : Nat × TrialS) (hp : p ∈ studyList c.hs.db P.sid) (g : TrialS → TrialS)
    (hL' : a'.trialsOf P.sid = (a.trialsOf P.sid).map (fun q => if q.1 = p.1 then (q.1, g q.2) else q))
    (hlen : a'.trials.length = a.trials.length)
    (G : HTrial → HTrial) (hG : ∀ q, absTrial P.codec c.hs c.now (q.1, g q.2) = G (absTrial P.codec c.hs c.now q))
    (hwf : WfSys P.codec p.2.systemAttrs → WfSys P.codec (g p.2).systemAttrs) :
    absCfg P (c.setDb db') =
      { absCfg P c with trials := updAt (absCfg P c).trials (numOf (studyList c.hs.db P.sid) p.1) G } ∧
    RInv P (c.setDb db') := by
  have hsorted := studyList_sorted c.hs.db h.inv.1 P.sid
  have hmem : p.1 ∈ (studyList c.hs.db P.sid).map (·.1) := List.mem_map.mpr ⟨p, hp, rfl⟩
  have hL2 : studyList db' P.sid = updAt (studyList c.hs.db P.sid) (numOf (studyList c.hs.db P.sid) p.1) (fun q => (q.1, g q.2)) := by
    rw [f.L', hL', ← f.L, map_if_eq_updAt _ hsorted p.1 (fun q => (q.1, g q.2)), if_pos hmem]
  have hids : (studyList db' P.sid).map (·.1) = (studyList c.hs.db P.sid).map (·.1) := by
    rw [hL2]; exact map_fst_updAt _ _ _ (fun _ => rfl)
  have hidx := getElem?_numOf _ hsorted p hp
  constructor
  · rw [absCfg_setDb P c h db' f.beats (fun t _ => numOf_congr _ _ t hids), hL2]
    apply cfg_ext
    · simp only [absCfg, absTrialsL]
      exact map_updAt _ _ _ G _ (fun x _ => hG x)
    · rfl
    · rfl
  · apply h.setDb db' a' f.abs' f.live' f.beats (by rw [f.L, f.L']; exact f.evolves)
    · rw [← f.abs.nTrials, ← f.abs'.nTrials, hlen]; exact Nat.le_refl _
    · intro q hq
      rw [hL2] at hq
      rcases mem_updAt _ _ _ q hq with hq | ⟨y, hy, e⟩
      · exact h.wf q hq
      · rw [hidx] at hy
        simp only [Option.some.injEq] at hy
        subst hy
        rw [e]
        exact hwf (h.wf p hp)

/-- **one trial is appended to the study** -/
theorem append_sim (P : Params) (c : Cfg) (h : RInv P c) (db' : Rdb.State) (a a' : Spec) (f : CallFacts P c db' a a')
    (t : TrialS) (hL' : a'.trialsOf P.sid = a.trialsOf P.sid ++ [(a.trials.length, t)])
    (hlen : a'.trials.length = a.trials.length + 1) (hwf : WfSys P.codec t.systemAttrs) :
    absCfg P (c.setDb db') = { absCfg P c with trials := (absCfg P c).trials ++ [⟨recOf P.codec t, none⟩] } ∧
    RInv P (c.setDb db') := by
  have hinv := f.abs.inv
  have hN : a.trials.length = c.hs.db.nTrial := f.abs.nTrials
  have hL2 : studyList db' P.sid = studyList c.hs.db P.sid ++ [(c.hs.db.nTrial, t)] := by rw [f.L', hL', ← f.L, hN]
  have hage : ageOf c.hs c.now c.hs.db.nTrial = none := by
    apply ageOf_none
    intro b hb e
    have := hinv.1.beatsFk b hb
    rw [e] at this
    obtain ⟨row, hr, er⟩ := List.mem_map.mp this
    have := hinv.1.trialsBelow row hr
    omega
  constructor
  · rw [absCfg_setDb P c h db' f.beats (fun x hx => by rw [hL2]; exact numOf_append _ _ x (by simp only; omega)), hL2]
    apply cfg_ext
    · simp only [absCfg, absTrialsL, List.map_append, List.map_cons, List.map_nil, absTrial, hage]
    · rfl
    · rfl
  · apply h.setDb db' a' f.abs' f.live' f.beats (by rw [f.L, f.L']; exact f.evolves)
    · rw [← f.abs.nTrials, ← f.abs'.nTrials, hlen]; omega
    · intro q hq
      rw [hL2] at hq
      rcases List.mem_append.mp hq with hq | hq
      · exact h.wf q hq
      · simp only [List.mem_singleton] at hq
        rw [hq]; exact hwf

end OptunaVerif.RdbHb
