import OptunaVerif.Lemmas.RdbHbEnv2
/-! Every `BaseStorage` call of the other actors (`ask` = create / claim, `tell` = finish, parameter and attribute
writes, `enqueue_trial`, calls on other studies, getters) as actions of the abstract model's environment.
Core Lean only. -/
set_option linter.unusedSimpArgs false
set_option linter.unusedSectionVars false
set_option linter.unusedVariables false
namespace OptunaVerif.RdbHb
open OptunaVerif OptunaVerif.Storage OptunaVerif.Rdb
open OptunaVerif.Generated
open OptunaVerif.Heartbeat (HTrial Rec)

/-- What the other actors are assumed not to do (the assumptions of verif/props/c19.py, made precise): delete a
study; put a trial of the study back to WAITING; write one of the callback's two system attributes on a trial of the
study; add a trial to the study that is not a plain queued trial (WAITING, no parameters, no reserved attribute). -/
def EnvOk (P : Params) (c : Cfg) : Op → Prop
  | .deleteStudy _ => False
  | .createTrial s (some t) _ => s = P.sid → t.state = .waiting ∧ t.params = [] ∧ ∀ p ∈ t.systemAttrs, reserved p.1 = false
  | .setTrialStateValues tid st _ => tid ∈ (studyList c.hs.db P.sid).map (·.1) → st ≠ .waiting
  | .setTrialSystemAttr tid k _ => tid ∈ (studyList c.hs.db P.sid).map (·.1) → reserved k = false
  | _ => True

/-- the abstract model's environment actions a storage call stands for -/
def callOps (P : Params) (c : Cfg) (op : Op) : List Heartbeat.EnvOp :=
  match op with
  | .createTrial s none _ => if s = P.sid then [.create] else []
  | .createTrial s (some t) _ => if s = P.sid then [.enqueue t.userAttrs t.systemAttrs] else []
  | .setTrialStateValues tid st _ =>
    if tid ∈ (studyList c.hs.db P.sid).map (·.1) then
      (if st = .running then [.claim (numOf (studyList c.hs.db P.sid) tid)] else [.finish (numOf (studyList c.hs.db P.sid) tid) st])
    else []
  | .setTrialParam tid k p _ =>
    if tid ∈ (studyList c.hs.db P.sid).map (·.1) ∧ (Rdb.step c.hs.db op).2 = .out .unit then
      [.setParam (numOf (studyList c.hs.db P.sid) tid) k (ptok p)] else []
  | .setTrialUserAttr tid k v =>
    if tid ∈ (studyList c.hs.db P.sid).map (·.1) then [.setUserAttr (numOf (studyList c.hs.db P.sid) tid) k v] else []
  | .setTrialSystemAttr tid k v =>
    if tid ∈ (studyList c.hs.db P.sid).map (·.1) then [.setSysAttr (numOf (studyList c.hs.db P.sid) tid) k v] else []
  | _ => []

def callActs (P : Params) (c : Cfg) (op : Op) : List Heartbeat.Act := (callOps P c op).map .env

theorem run_env1 (P : Heartbeat.Params) (c : Heartbeat.Cfg) (e : Heartbeat.EnvOp) :
    Heartbeat.run P c [.env e] = { c with trials := (Heartbeat.envStep c.trials e).1 } := rfl

theorem trialsOf_updTrial_unlisted (a : Spec) (tid : Nat) (f : TrialS → TrialS) (hf : ∀ t, (f t).study = t.study) (sid : Nat)
    (hn : tid ∉ (a.trialsOf sid).map (·.1)) : (a.updTrial tid f).trialsOf sid = a.trialsOf sid := by
  rw [trialsOf_updTrial a tid f hf sid, List.map_congr_left (g := id)]
  · simp
  · intro p hp
    have : p.1 ≠ tid := fun e => hn (List.mem_map.mpr ⟨p, hp, e⟩)
    simp [this]

theorem trialsOf_updStudy (a : Spec) (s : Nat) (f : StudyS → StudyS) (sid : Nat) : (a.updStudy s f).trialsOf sid = a.trialsOf sid := rfl

/-- what `writable` says of a listed trial -/
theorem writable_listed (a : Spec) (sid : Nat) (hl : (a.study? sid).isSome = true) (p : Nat × TrialS) (hp : p ∈ a.trialsOf sid) :
    a.writable p.1 = if p.2.state.isFinished then .error .updateFinished else .ok p.2 := by
  have := ((mem_trialsOf a sid hl p.1 p.2).mp hp).1
  simp [Spec.writable, this]

/-- of an id that is not listed: if writable at all, the trial belongs to another study -/
theorem writable_unlisted (a : Spec) (sid : Nat) (hl : (a.study? sid).isSome = true) (tid : Nat) (t0 : TrialS)
    (hn : tid ∉ (a.trialsOf sid).map (·.1)) (hw : a.writable tid = .ok t0) : t0.study ≠ sid := by
  intro e
  obtain ⟨h1, _⟩ := (writable_ok_iff a tid t0).mp hw
  exact hn (List.mem_map.mpr ⟨(tid, t0), (mem_trialsOf a sid hl tid t0).mpr ⟨h1, e⟩, rfl⟩)

theorem absTrial_get (P : Params) (c : Cfg) (h : RInv P c) (p : Nat × TrialS) (hp : p ∈ studyList c.hs.db P.sid) :
    (absCfg P c).trials[numOf (studyList c.hs.db P.sid) p.1]? = some (absTrial P.codec c.hs c.now p) := trials_abs_get P c h p hp

theorem map_set_tok (l : AList Param) (k : String) (p : Param) :
    (l.set k p).map (fun q => (q.1, ptok q.2)) = AList.set (l.map (fun q => (q.1, ptok q.2))) k (ptok p) := by
  induction l with
  | nil => rfl
  | cons hd t ih =>
    obtain ⟨k', v'⟩ := hd
    by_cases hk : k' = k
    · simp [AList.set, hk]
    · simp [AList.set, hk, ih]

/-- a plain attribute write on a trial: the shared part of `set_trial_user_attr` / `set_trial_system_attr` /
`set_trial_param` / `tell` -/
theorem setter_sim (P : Params) (c : Cfg) (h : RInv P c) (a : Spec) (ha : Abs c.hs.db a) (hlive : (a.study? P.sid).isSome = true)
    (op : Op) (hwf : WfOp op) (hnd : ∀ s, op ≠ .deleteStudy s) (hnh : ∀ b, withRaised op b = op)
    (tid : Nat) (g : TrialS → TrialS) (hg : ∀ t, (g t).study = t.study)
    (hstep : ∀ t0, a.writable tid = .ok t0 → (Storage.step a op).1.trials = updAt a.trials tid g)
    (herr : ∀ e, a.writable tid = .error e → (Storage.step a op).1.trials = a.trials)
    (eop : Nat → Heartbeat.EnvOp) (G : HTrial → HTrial)
    (henv : ∀ tr n, (Heartbeat.envStep tr (eop n)).1 = (Heartbeat.guarded tr n G).1)
    (hG : tid ∈ (studyList c.hs.db P.sid).map (·.1) → ∀ q, absTrial P.codec c.hs c.now (q.1, g q.2) = G (absTrial P.codec c.hs c.now q))
    (hwfs : ∀ t, tid ∈ (studyList c.hs.db P.sid).map (·.1) → WfSys P.codec t.systemAttrs → WfSys P.codec (g t).systemAttrs) :
    absCfg P (c.setDb (Rdb.step c.hs.db op).1) =
      Heartbeat.run (absParams P) (absCfg P c)
        (if tid ∈ (studyList c.hs.db P.sid).map (·.1) then [.env (eop (numOf (studyList c.hs.db P.sid) tid))] else []) ∧
    RInv P (c.setDb (Rdb.step c.hs.db op).1) := by
  obtain ⟨F, _⟩ := call_facts P c a ha hlive op hwf hnd
  rw [hnh] at F
  have hL := F.L
  by_cases hm : tid ∈ (studyList c.hs.db P.sid).map (·.1)
  · rw [if_pos hm]
    obtain ⟨p, hp, hpt⟩ := List.mem_map.mp hm
    have hp' : p ∈ a.trialsOf P.sid := by rw [← hL]; exact hp
    have hwr := writable_listed a P.sid hlive p hp'
    rw [hpt] at hwr
    have hta := absTrial_get P c h p hp
    rw [hpt] at hta
    rw [run_env1, henv, Heartbeat.guarded, hta]
    by_cases hfin : p.2.state.isFinished = true
    · rw [hfin] at hwr; simp only [if_true] at hwr
      have hsame := trialsOf_of_trials a _ (herr _ hwr) P.sid
      obtain ⟨h1, h2⟩ := frame_sim P c h _ a _ F hsame
      refine ⟨?_, h2⟩
      rw [h1]
      have : (absTrial P.codec c.hs c.now p).core.state.isFinished = true := hfin
      simp only [this, if_true]
    · have hfin' : p.2.state.isFinished = false := by simpa using hfin
      rw [hfin'] at hwr; simp only [Bool.false_eq_true, if_false] at hwr
      have htr := hstep _ hwr
      have hL' : (Storage.step a op).1.trialsOf P.sid = (a.trialsOf P.sid).map (fun q => if q.1 = p.1 then (q.1, g q.2) else q) := by
        unfold Spec.trialsOf
        rw [htr, trialsFrom_updAt P.sid a.trials tid 0 g hg, hpt]
        simp
      obtain ⟨h1, h2⟩ := upd_sim P c h _ a _ F p hp g hL' (by rw [htr]; simp) G (hG hm) (hwfs p.2 hm)
      refine ⟨?_, h2⟩
      rw [h1, hpt]
      have : (absTrial P.codec c.hs c.now p).core.state.isFinished = false := hfin'
      simp only [this, Bool.false_eq_true, if_false]
  · rw [if_neg hm]
    have hm' : tid ∉ (a.trialsOf P.sid).map (·.1) := by rw [← hL]; exact hm
    have hsame : (Storage.step a op).1.trialsOf P.sid = a.trialsOf P.sid := by
      cases hw : a.writable tid with
      | error e => exact trialsOf_of_trials a _ (herr e hw) P.sid
      | ok t0 =>
        have htr := hstep t0 hw
        unfold Spec.trialsOf
        rw [htr, trialsFrom_updAt P.sid a.trials tid 0 g hg, List.map_congr_left (g := id)]
        · simp
        · intro q hq
          have : q.1 ≠ tid := fun e => hm' (List.mem_map.mpr ⟨q, hq, e⟩)
          simp [this]
    exact frame_sim P c h _ a _ F hsame

end OptunaVerif.RdbHb
