import OptunaVerif.Lemmas.RdbHbEnv3
/-! The individual `BaseStorage` calls of the other actors.  Core Lean only. -/
set_option linter.unusedSimpArgs false
set_option linter.unusedSectionVars false
set_option linter.unusedVariables false
namespace OptunaVerif.RdbHb
open OptunaVerif OptunaVerif.Storage OptunaVerif.Rdb
open OptunaVerif.Generated
open OptunaVerif.Heartbeat (HTrial Rec)

theorem step_call (P : Params) (c : Cfg) (op : Op) : step P c (.call op) = c.setDb (Rdb.step c.hs.db op).1 := rfl

/-! ## attribute writes -/

theorem userAttr_sim (P : Params) (c : Cfg) (h : RInv P c) (tid : Nat) (k v : String) :
    absCfg P (step P c (.call (.setTrialUserAttr tid k v))) =
      Heartbeat.run (absParams P) (absCfg P c) (callActs P c (.setTrialUserAttr tid k v)) ∧
    RInv P (step P c (.call (.setTrialUserAttr tid k v))) := by
  obtain ⟨a, ha, hlive⟩ := h.abs
  have := setter_sim P c h a ha hlive (.setTrialUserAttr tid k v) trivial (by intro s; simp) (fun _ => rfl) tid
    (fun t => { t with userAttrs := t.userAttrs.set k v }) (fun _ => rfl)
    (by intro t0 hw; simp [Storage.step, hw, Spec.updTrial])
    (by intro e hw; simp [Storage.step, hw])
    (fun n => .setUserAttr n k v) (fun x => { x with core := { x.core with userAttrs := x.core.userAttrs.set k v } })
    (fun _ _ => rfl) (fun _ _ => rfl) (fun t _ hw => hw)
  rw [step_call]
  simp only [callActs, callOps]
  split <;> rename_i hm <;> simp only [hm, if_true, if_false, List.map_cons, List.map_nil] at this ⊢ <;> exact this

theorem reserved_ne {k : String} (hk : reserved k = false) : StaleGen.retriedKey ≠ k ∧ StaleGen.historyKey ≠ k := by
  constructor
  · intro e; rw [← e, reserved_retried] at hk; exact Bool.noConfusion hk
  · intro e; rw [← e, reserved_history] at hk; exact Bool.noConfusion hk

theorem sysAttr_sim (P : Params) (c : Cfg) (h : RInv P c) (tid : Nat) (k v : String)
    (hok : tid ∈ (studyList c.hs.db P.sid).map (·.1) → reserved k = false) :
    absCfg P (step P c (.call (.setTrialSystemAttr tid k v))) =
      Heartbeat.run (absParams P) (absCfg P c) (callActs P c (.setTrialSystemAttr tid k v)) ∧
    RInv P (step P c (.call (.setTrialSystemAttr tid k v))) := by
  obtain ⟨a, ha, hlive⟩ := h.abs
  have := setter_sim P c h a ha hlive (.setTrialSystemAttr tid k v) trivial (by intro s; simp) (fun _ => rfl) tid
    (fun t => { t with systemAttrs := t.systemAttrs.set k v }) (fun _ => rfl)
    (by intro t0 hw; simp [Storage.step, hw, Spec.updTrial])
    (by intro e hw; simp [Storage.step, hw])
    (fun n => .setSysAttr n k v) (fun x => { x with core := { x.core with otherSys := x.core.otherSys.set k v } })
    (fun _ _ => rfl)
    (by
      intro hm q
      obtain ⟨h1, h2⟩ := reserved_ne (hok hm)
      simp only [absTrial, recOf, AList.get?_set_other _ _ _ _ h1, AList.get?_set_other _ _ _ _ h2]
      rw [filter_set _ _ _ (fun x => !reserved x)]
      simp [hok hm])
    (by
      intro t hm hw
      obtain ⟨h1, h2⟩ := reserved_ne (hok hm)
      refine ⟨distinct_set _ _ _ hw.keys, ?_, ?_⟩
      · intro tok; simp only; rw [AList.get?_set_other _ _ _ _ h1]; exact hw.failed tok
      · intro tok; simp only; rw [AList.get?_set_other _ _ _ _ h2]; exact hw.history tok)
  rw [step_call]
  simp only [callActs, callOps]
  split <;> rename_i hm <;> simp only [hm, if_true, if_false, List.map_cons, List.map_nil] at this ⊢ <;> exact this

/-! ## calls that the abstract model does not see: intermediate values -/

theorem updAt_id {α : Type} (l : List α) (n : Nat) : updAt l n (fun x => x) = l := by
  apply List.ext_getElem?
  intro i
  rw [updAt_getElem?]
  split <;> simp

theorem inter_sim (P : Params) (c : Cfg) (h : RInv P c) (tid : Nat) (stp : Int) (v : XVal) :
    absCfg P (step P c (.call (.setTrialInter tid stp v))) = absCfg P c ∧ RInv P (step P c (.call (.setTrialInter tid stp v))) := by
  obtain ⟨a, ha, hlive⟩ := h.abs
  obtain ⟨F, _⟩ := call_facts P c a ha hlive (.setTrialInter tid stp v) trivial (by intro s; simp)
  simp only [withRaised] at F
  rw [step_call]
  have hg : ∀ t : TrialS, ({ t with inter := setInter t.inter stp v } : TrialS).study = t.study := fun _ => rfl
  cases hw : a.writable tid with
  | error e =>
    have hsame : (Storage.step a (.setTrialInter tid stp v)).1.trialsOf P.sid = a.trialsOf P.sid := by
      simp [Storage.step, hw]
    exact frame_sim P c h _ a _ F hsame
  | ok t0 =>
    have htr : (Storage.step a (.setTrialInter tid stp v)).1 = a.updTrial tid (fun t => { t with inter := setInter t.inter stp v }) := by
      simp [Storage.step, hw]
    by_cases hm : tid ∈ (studyList c.hs.db P.sid).map (·.1)
    · obtain ⟨p, hp, hpt⟩ := List.mem_map.mp hm
      have hL' : (Storage.step a (.setTrialInter tid stp v)).1.trialsOf P.sid =
          (a.trialsOf P.sid).map (fun q => if q.1 = p.1 then (q.1, { q.2 with inter := setInter q.2.inter stp v }) else q) := by
        rw [htr, trialsOf_updTrial a tid _ hg P.sid, hpt]
      obtain ⟨h1, h2⟩ := upd_sim P c h _ a _ F p hp (fun t => { t with inter := setInter t.inter stp v }) hL'
        (by rw [htr]; simp [Spec.updTrial]) (fun x => x) (fun _ => rfl) (fun hw => hw)
      refine ⟨?_, h2⟩
      rw [h1, updAt_id]
    · have hsame : (Storage.step a (.setTrialInter tid stp v)).1.trialsOf P.sid = a.trialsOf P.sid := by
        rw [htr]
        exact trialsOf_updTrial_unlisted a tid _ hg P.sid (by rw [← F.L]; exact hm)
      exact frame_sim P c h _ a _ F hsame

/-! ## `set_trial_state_values`: the claim of `ask`, the finish of `tell` -/

/-- what a successful `set_trial_state_values(tid, st, values)` does to the record -/
def stateF (st : TState) (vals : Option (List XVal)) (t : TrialS) : TrialS :=
  { t with state := st, values := vals.or t.values, hasStart := t.hasStart || st == .running,
           hasComplete := t.hasComplete || st.isFinished }

theorem state_sim (P : Params) (c : Cfg) (h : RInv P c) (tid : Nat) (st : TState) (vals : Option (List XVal))
    (hwf : WfOp (.setTrialStateValues tid st vals))
    (hok : tid ∈ (studyList c.hs.db P.sid).map (·.1) → st ≠ .waiting) :
    absCfg P (step P c (.call (.setTrialStateValues tid st vals))) =
      Heartbeat.run (absParams P) (absCfg P c) (callActs P c (.setTrialStateValues tid st vals)) ∧
    RInv P (step P c (.call (.setTrialStateValues tid st vals))) := by
  obtain ⟨a, ha, hlive⟩ := h.abs
  obtain ⟨F, _⟩ := call_facts P c a ha hlive (.setTrialStateValues tid st vals) hwf (by intro s; simp)
  simp only [withRaised] at F
  rw [step_call]
  have hg : ∀ t : TrialS, (stateF st vals t).study = t.study := fun _ => rfl
  have hshape : (∃ e, a.writable tid = .error e ∧ (Storage.step a (.setTrialStateValues tid st vals)).1 = a) ∨
      (∃ t0, a.writable tid = .ok t0 ∧ (st = .running ∧ t0.state ≠ .waiting) ∧ (Storage.step a (.setTrialStateValues tid st vals)).1 = a) ∨
      (∃ t0, a.writable tid = .ok t0 ∧ ¬(st = .running ∧ t0.state ≠ .waiting) ∧
        (Storage.step a (.setTrialStateValues tid st vals)).1 = a.updTrial tid (stateF st vals)) := by
    simp only [Storage.step]
    cases hw : a.writable tid with
    | error e => exact Or.inl ⟨e, rfl, rfl⟩
    | ok t0 =>
      simp only
      split
      · rename_i hc
        simp only [Bool.and_eq_true, beq_iff_eq, bne_iff_ne, ne_eq] at hc
        exact Or.inr (Or.inl ⟨t0, rfl, hc, rfl⟩)
      · rename_i hc
        refine Or.inr (Or.inr ⟨t0, rfl, ?_, rfl⟩)
        intro ⟨h1, h2⟩
        apply hc
        simp [h1, h2]
  by_cases hm : tid ∈ (studyList c.hs.db P.sid).map (·.1)
  · obtain ⟨p, hp, hpt⟩ := List.mem_map.mp hm
    have hp' : p ∈ a.trialsOf P.sid := by rw [← F.L]; exact hp
    have hwr := writable_listed a P.sid hlive p hp'
    rw [hpt] at hwr
    have hta := absTrial_get P c h p hp
    rw [hpt] at hta
    have hstw := hok hm
    -- the abstract side
    have habs : ∀ tr : List HTrial, tr[numOf (studyList c.hs.db P.sid) tid]? = some (absTrial P.codec c.hs c.now p) →
        (Heartbeat.run (absParams P) { (absCfg P c) with trials := tr } (callActs P c (.setTrialStateValues tid st vals))).trials =
          if p.2.state.isFinished = true ∨ (st = .running ∧ p.2.state ≠ .waiting) then tr
          else updAt tr (numOf (studyList c.hs.db P.sid) tid) (Heartbeat.setState st) := by
      intro tr htr
      simp only [callActs, callOps, hm, if_true]
      by_cases hrun : st = .running
      · subst hrun
        simp only [if_true, List.map_cons, List.map_nil, run_env1, Heartbeat.envStep, htr]
        have e1 : (absTrial P.codec c.hs c.now p).core.state = p.2.state := rfl
        rw [e1]
        by_cases hfin : p.2.state.isFinished = true
        · simp [hfin]
        · by_cases hwt : p.2.state = .waiting
          · simp [hfin, hwt, TState.isFinished]
          · have : (p.2.state == TState.waiting) = false := by simpa using hwt
            simp [hfin, hwt, this]
      · have hfinst : st.isFinished = true := by cases st <;> simp_all [TState.isFinished]
        simp only [hrun, if_false, List.map_cons, List.map_nil, run_env1, Heartbeat.envStep, hfinst, if_true, Heartbeat.guarded, htr]
        have e1 : (absTrial P.codec c.hs c.now p).core.state = p.2.state := rfl
        rw [e1]
        by_cases hfin : p.2.state.isFinished = true
        · simp [hfin]
        · simp [hfin, hrun]
    have ht0 : ∀ t0, a.writable tid = .ok t0 → t0 = p.2 ∧ p.2.state.isFinished = false := by
      intro t0 hw0
      by_cases hfin : p.2.state.isFinished = true
      · rw [hfin] at hwr; simp only [if_true] at hwr; rw [hwr] at hw0; cases hw0
      · have hfin' : p.2.state.isFinished = false := by simpa using hfin
        rw [hfin'] at hwr; simp only [Bool.false_eq_true, if_false] at hwr
        rw [hwr] at hw0; simp only [Except.ok.injEq] at hw0; exact ⟨hw0.symm, hfin'⟩
    have hnothing : (Storage.step a (.setTrialStateValues tid st vals)).1 = a →
        (p.2.state.isFinished = true ∨ (st = .running ∧ p.2.state ≠ .waiting)) →
        absCfg P (c.setDb (Rdb.step c.hs.db (.setTrialStateValues tid st vals)).1) =
          Heartbeat.run (absParams P) (absCfg P c) (callActs P c (.setTrialStateValues tid st vals)) ∧
        RInv P (c.setDb (Rdb.step c.hs.db (.setTrialStateValues tid st vals)).1) := by
      intro hsame hcase
      have hsame' : (Storage.step a (.setTrialStateValues tid st vals)).1.trialsOf P.sid = a.trialsOf P.sid := by rw [hsame]
      obtain ⟨h1, h2⟩ := frame_sim P c h _ a _ F hsame'
      refine ⟨?_, h2⟩
      rw [h1]
      apply cfg_ext
      · have := habs (absCfg P c).trials hta
        simp only [hcase, if_true] at this
        exact this.symm
      · simp only [callActs, callOps, hm, if_true]; split <;> rfl
      · simp only [callActs, callOps, hm, if_true]; split <;> rfl
    rcases hshape with ⟨e, hwe, hsame⟩ | ⟨t0, hw0, hcond, hsame⟩ | ⟨t0, hw0, hcond, hupd⟩
    · -- the trial is finished
      apply hnothing hsame
      left
      by_cases hfin : p.2.state.isFinished = true
      · exact hfin
      · have hfin' : p.2.state.isFinished = false := by simpa using hfin
        rw [hfin'] at hwr; simp only [Bool.false_eq_true, if_false] at hwr
        rw [hwr] at hwe; cases hwe
    · -- a claim of a trial that is not WAITING
      obtain ⟨e0, _⟩ := ht0 t0 hw0
      subst e0
      exact hnothing hsame (Or.inr hcond)
    · obtain ⟨e0, hunf⟩ := ht0 t0 hw0
      subst e0
      have hL' : (Storage.step a (.setTrialStateValues tid st vals)).1.trialsOf P.sid =
          (a.trialsOf P.sid).map (fun q => if q.1 = p.1 then (q.1, stateF st vals q.2) else q) := by
        rw [hupd, trialsOf_updTrial a tid _ hg P.sid, hpt]
      obtain ⟨h1, h2⟩ := upd_sim P c h _ a _ F p hp _ hL' (by rw [hupd]; simp [Spec.updTrial]) (Heartbeat.setState st)
        (fun _ => rfl) (fun hw => hw)
      refine ⟨?_, h2⟩
      rw [h1, hpt]
      have hcase : ¬(p.2.state.isFinished = true ∨ (st = .running ∧ p.2.state ≠ .waiting)) := by
        intro hc; rcases hc with hc | hc
        · rw [hunf] at hc; exact Bool.false_ne_true hc
        · exact hcond hc
      apply cfg_ext
      · have := habs (absCfg P c).trials hta
        simp only [hcase, if_false] at this
        exact this.symm
      · simp only [callActs, callOps, hm, if_true]; split <;> rfl
      · simp only [callActs, callOps, hm, if_true]; split <;> rfl
  · have hsame : (Storage.step a (.setTrialStateValues tid st vals)).1.trialsOf P.sid = a.trialsOf P.sid := by
      rcases hshape with ⟨_, _, e⟩ | ⟨_, _, _, e⟩ | ⟨t0, _, _, e⟩
      · rw [e]
      · rw [e]
      · rw [e]; exact trialsOf_updTrial_unlisted a tid _ hg P.sid (by rw [← F.L]; exact hm)
    have := frame_sim P c h _ a _ F hsame
    simp only [callActs, callOps, hm, if_false, List.map_nil]
    exact this

end OptunaVerif.RdbHb
