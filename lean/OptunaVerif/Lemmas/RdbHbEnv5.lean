import OptunaVerif.Lemmas.RdbHbEnv4
/-! `set_trial_param`, `create_new_trial`, the calls that do not touch trials; every call; every action; every
history.  Core Lean only. -/
set_option linter.unusedSimpArgs false
set_option linter.unusedSectionVars false
set_option linter.unusedVariables false
namespace OptunaVerif.RdbHb
open OptunaVerif OptunaVerif.Storage OptunaVerif.Rdb
open OptunaVerif.Generated
open OptunaVerif.Heartbeat (HTrial Rec)

/-! ## `set_trial_param` -/

theorem param_sim (P : Params) (c : Cfg) (h : RInv P c) (tid : Nat) (name : String) (p : Param) (ir : Bool) :
    absCfg P (step P c (.call (.setTrialParam tid name p ir))) =
      Heartbeat.run (absParams P) (absCfg P c) (callActs P c (.setTrialParam tid name p ir)) ∧
    RInv P (step P c (.call (.setTrialParam tid name p ir))) := by
  obtain ⟨a, ha, hlive⟩ := h.abs
  obtain ⟨F, hal⟩ := call_facts P c a ha hlive (.setTrialParam tid name p ir) trivial (by intro s; simp)
  simp only [withRaised] at F hal
  rw [step_call]
  generalize hb : raisedValueError (Rdb.step c.hs.db (.setTrialParam tid name p ir)).2 = b at F hal
  have hg : ∀ t : TrialS, ({ t with params := t.params.set name p } : TrialS).study = t.study := fun _ => rfl
  have hshape : ((Storage.step a (.setTrialParam tid name p b)).1 = a ∧ (Storage.step a (.setTrialParam tid name p b)).2 ≠ .unit ∧
        ∃ e, (Storage.step a (.setTrialParam tid name p b)).2 = .err e) ∨
      (∃ t0, a.writable tid = .ok t0 ∧ (Storage.step a (.setTrialParam tid name p b)).2 = .unit ∧
        (Storage.step a (.setTrialParam tid name p b)).1.trials = updAt a.trials tid (fun t => { t with params := t.params.set name p })) := by
    simp only [Storage.step]
    cases hw : a.writable tid with
    | error e => exact Or.inl ⟨rfl, by simp, e, rfl⟩
    | ok t0 =>
      simp only
      split
      · exact Or.inl ⟨rfl, by simp, _, rfl⟩
      · split
        · exact Or.inl ⟨rfl, by simp, _, rfl⟩
        · split
          · exact Or.inl ⟨rfl, by simp, _, rfl⟩
          · exact Or.inr ⟨t0, rfl, rfl, rfl⟩
  have hres : (Rdb.step c.hs.db (.setTrialParam tid name p ir)).2 = .out (Storage.step a (.setTrialParam tid name p b)).2 := by
    rcases hshape with ⟨_, _, e, he⟩ | ⟨_, _, he, _⟩
    · rw [he] at hal ⊢; exact allowed_plain _ _ hal (by intro l; simp) (by intro l; simp)
    · rw [he] at hal ⊢; exact allowed_plain _ _ hal (by intro l; simp) (by intro l; simp)
  by_cases hm : tid ∈ (studyList c.hs.db P.sid).map (·.1)
  · obtain ⟨q, hq, hqt⟩ := List.mem_map.mp hm
    have hq' : q ∈ a.trialsOf P.sid := by rw [← F.L]; exact hq
    have hwr := writable_listed a P.sid hlive q hq'
    rw [hqt] at hwr
    have hta := absTrial_get P c h q hq
    rw [hqt] at hta
    rcases hshape with ⟨hsame, hne, _⟩ | ⟨t0, hw0, hunit, htr⟩
    · have hsame' : (Storage.step a (.setTrialParam tid name p b)).1.trialsOf P.sid = a.trialsOf P.sid := by rw [hsame]
      have := frame_sim P c h _ a _ F hsame'
      have hno : ¬((Rdb.step c.hs.db (.setTrialParam tid name p ir)).2 = .out .unit) := by
        rw [hres]; intro e; simp only [Res.out.injEq] at e; exact hne e
      simp only [callActs, callOps, hm, hno, and_false, if_false, List.map_nil]
      exact this
    · have ht0 : t0 = q.2 ∧ q.2.state.isFinished = false := by
        by_cases hfin : q.2.state.isFinished = true
        · rw [hfin] at hwr; simp only [if_true] at hwr; rw [hwr] at hw0; cases hw0
        · have hfin' : q.2.state.isFinished = false := by simpa using hfin
          rw [hfin'] at hwr; simp only [Bool.false_eq_true, if_false] at hwr
          rw [hwr] at hw0; simp only [Except.ok.injEq] at hw0; exact ⟨hw0.symm, hfin'⟩
      have hL' : (Storage.step a (.setTrialParam tid name p b)).1.trialsOf P.sid =
          (a.trialsOf P.sid).map (fun x => if x.1 = q.1 then (x.1, { x.2 with params := x.2.params.set name p }) else x) := by
        unfold Spec.trialsOf
        rw [htr, trialsFrom_updAt P.sid a.trials tid 0 _ hg, hqt]
        simp
      obtain ⟨h1, h2⟩ := upd_sim P c h _ a _ F q hq (fun t => { t with params := t.params.set name p }) hL' (by rw [htr]; simp)
        (fun x => { x with core := { x.core with params := x.core.params.set name (ptok p) } })
        (by intro x; simp only [absTrial, recOf, map_set_tok]) (fun hw => hw)
      refine ⟨?_, h2⟩
      have hyes : (Rdb.step c.hs.db (.setTrialParam tid name p ir)).2 = .out .unit := by rw [hres, hunit]
      simp only [callActs, callOps, hm, hyes, and_self, if_true, List.map_cons, List.map_nil]
      rw [h1, hqt, run_env1]
      have : (absTrial P.codec c.hs c.now q).core.state.isFinished = false := ht0.2
      simp only [Heartbeat.envStep, Heartbeat.guarded, hta, this, Bool.false_eq_true, if_false]
  · have hm' : tid ∉ (a.trialsOf P.sid).map (·.1) := by rw [← F.L]; exact hm
    have hsame : (Storage.step a (.setTrialParam tid name p b)).1.trialsOf P.sid = a.trialsOf P.sid := by
      rcases hshape with ⟨e, _, _⟩ | ⟨t0, _, _, htr⟩
      · rw [e]
      · unfold Spec.trialsOf
        rw [htr, trialsFrom_updAt P.sid a.trials tid 0 _ hg, List.map_congr_left (g := id)]
        · simp
        · intro x hx
          have : x.1 ≠ tid := fun e => hm' (List.mem_map.mpr ⟨x, hx, e⟩)
          simp [this]
    have := frame_sim P c h _ a _ F hsame
    simp only [callActs, callOps, hm, false_and, if_false, List.map_nil]
    exact this

/-! ## `create_new_trial` by the other actors: `ask` without a queued trial, `enqueue_trial` -/

theorem recOf_fresh (C : Codec) (sid n : Nat) : recOf C (mkTrial sid n none) = Heartbeat.freshRec .running [] [] := by
  simp [recOf, mkTrial, Heartbeat.freshRec, AList.get?]

theorem recOf_enqueued (C : Codec) (sid n : Nat) (t : Template) (hst : t.state = .waiting) (hpar : t.params = [])
    (hres : ∀ p ∈ t.systemAttrs, reserved p.1 = false) :
    recOf C (mkTrial sid n (some t)) = Heartbeat.freshRec .waiting t.userAttrs t.systemAttrs := by
  have h1 : t.systemAttrs.get? StaleGen.retriedKey = none :=
    get?_none_of_not_mem _ _ (fun p hp e => by have := hres p hp; rw [e, reserved_retried] at this; exact Bool.noConfusion this)
  have h2 : t.systemAttrs.get? StaleGen.historyKey = none :=
    get?_none_of_not_mem _ _ (fun p hp e => by have := hres p hp; rw [e, reserved_history] at this; exact Bool.noConfusion this)
  have h3 : t.systemAttrs.filter (fun p => !reserved p.1) = t.systemAttrs := by
    rw [List.filter_eq_self]; intro p hp; simp [hres p hp]
  simp [recOf, mkTrial, Heartbeat.freshRec, hst, hpar, h1, h2, h3]

theorem wfSys_unreserved (C : Codec) (sys : AList String) (hd : distinctKeys sys) (hres : ∀ p ∈ sys, reserved p.1 = false) : WfSys C sys := by
  refine ⟨hd, ?_, ?_⟩
  · intro tok hg
    have := hres _ (get?_some_mem _ _ _ hg)
    rw [reserved_retried] at this; exact Bool.noConfusion this
  · intro tok hg
    have := hres _ (get?_some_mem _ _ _ hg)
    rw [reserved_history] at this; exact Bool.noConfusion this

theorem create_sim (P : Params) (c : Cfg) (h : RInv P c) (s : Nat) (tmpl : Option Template) (ir : Bool)
    (hwf : WfOp (.createTrial s tmpl ir)) (hok : EnvOk P c (.createTrial s tmpl ir)) :
    absCfg P (step P c (.call (.createTrial s tmpl ir))) =
      Heartbeat.run (absParams P) (absCfg P c) (callActs P c (.createTrial s tmpl ir)) ∧
    RInv P (step P c (.call (.createTrial s tmpl ir))) := by
  obtain ⟨a, ha, hlive⟩ := h.abs
  obtain ⟨F, hal⟩ := call_facts P c a ha hlive (.createTrial s tmpl ir) hwf (by intro x; simp)
  simp only [withRaised] at F hal
  rw [step_call]
  generalize hb : raisedValueError (Rdb.step c.hs.db (.createTrial s tmpl ir)).2 = b at F hal
  by_cases hs : s = P.sid
  · subst hs
    obtain ⟨st, hst⟩ := Option.isSome_iff_exists.mp hlive
    have hnc : a.tmplConflict P.sid st tmpl = false := by
      cases tmpl with
      | none => rfl
      | some t =>
        have := (hok rfl).2.1
        simp [Spec.tmplConflict, this]
    have hstep : (Storage.step a (.createTrial P.sid tmpl b)).1 = { a with trials := a.trials ++ [mkTrial P.sid (a.trialsOf P.sid).length tmpl] } := by
      simp [Storage.step, hst, hnc]
    have hL' : (Storage.step a (.createTrial P.sid tmpl b)).1.trialsOf P.sid =
        a.trialsOf P.sid ++ [(a.trials.length, mkTrial P.sid (a.trialsOf P.sid).length tmpl)] := by
      rw [hstep, trialsOf_appendTrial]
      cases tmpl <;> simp [mkTrial]
    have hlen : (Storage.step a (.createTrial P.sid tmpl b)).1.trials.length = a.trials.length + 1 := by rw [hstep]; simp
    cases tmpl with
    | none =>
      have hwf0 : WfSys P.codec (mkTrial P.sid (a.trialsOf P.sid).length none).systemAttrs :=
        ⟨List.Pairwise.nil, by intro tok hg; simp [mkTrial, AList.get?] at hg, by intro tok hg; simp [mkTrial, AList.get?] at hg⟩
      obtain ⟨h1, h2⟩ := append_sim P c h _ a _ F (mkTrial P.sid (a.trialsOf P.sid).length none) hL' hlen hwf0
      refine ⟨?_, h2⟩
      simp only [callActs, callOps, if_true, List.map_cons, List.map_nil]
      rw [h1, run_env1, recOf_fresh]
      rfl
    | some t =>
      obtain ⟨hwait, hpar, hres⟩ := hok rfl
      obtain ⟨_, _, hds, _, _⟩ := hwf
      have hwf0 : WfSys P.codec (mkTrial P.sid (a.trialsOf P.sid).length (some t)).systemAttrs := wfSys_unreserved P.codec t.systemAttrs hds hres
      obtain ⟨h1, h2⟩ := append_sim P c h _ a _ F (mkTrial P.sid (a.trialsOf P.sid).length (some t)) hL' hlen hwf0
      refine ⟨?_, h2⟩
      simp only [callActs, callOps, if_true, List.map_cons, List.map_nil]
      rw [h1, run_env1, recOf_enqueued P.codec _ _ t hwait hpar hres]
      rfl
  · have hsame : (Storage.step a (.createTrial s tmpl b)).1.trialsOf P.sid = a.trialsOf P.sid := by
      simp only [Storage.step]
      split
      · rfl
      · split
        · rfl
        · rw [trialsOf_appendTrial]
          have : (mkTrial s (a.trialsOf s).length tmpl).study = s := by cases tmpl <;> rfl
          simp [this, hs]
    have := frame_sim P c h _ a _ F hsame
    cases tmpl <;> simp only [callActs, callOps, hs, if_false, List.map_nil] <;> exact this

/-! ## calls that leave the list of trials alone -/

def silent : Op → Bool
  | .deleteStudy _ => false
  | .createTrial _ _ _ => false
  | .setTrialParam _ _ _ _ => false
  | .setTrialStateValues _ _ _ => false
  | .setTrialInter _ _ _ => false
  | .setTrialUserAttr _ _ _ => false
  | .setTrialSystemAttr _ _ _ => false
  | _ => true

theorem silent_trials (a : Spec) (op : Op) (h : silent op = true) : (Storage.step a op).1.trials = a.trials := by
  cases op <;> simp only [silent] at h <;> first
    | exact Bool.noConfusion h
    | (simp only [Storage.step]; repeat' split) <;> rfl

theorem silent_sim (P : Params) (c : Cfg) (h : RInv P c) (op : Op) (hs : silent op = true) (hwf : WfOp op) :
    absCfg P (step P c (.call op)) = absCfg P c ∧ RInv P (step P c (.call op)) := by
  obtain ⟨a, ha, hlive⟩ := h.abs
  have hnd : ∀ s, op ≠ .deleteStudy s := by intro s e; rw [e] at hs; exact Bool.noConfusion hs
  obtain ⟨F, _⟩ := call_facts P c a ha hlive op hwf hnd
  have hw : ∀ b, withRaised op b = op := by intro b; cases op <;> first | rfl | exact Bool.noConfusion hs
  rw [hw] at F
  rw [step_call]
  exact frame_sim P c h _ a _ F (trialsOf_of_trials a _ (silent_trials a op hs) P.sid)

theorem silent_callOps (P : Params) (c : Cfg) (op : Op) (hs : silent op = true) : callActs P c op = [] := by
  cases op <;> first | rfl | exact Bool.noConfusion hs

/-! ## every storage call -/

theorem call_sim (P : Params) (c : Cfg) (h : RInv P c) (op : Op) (hwf : WfOp op) (hok : EnvOk P c op) :
    absCfg P (step P c (.call op)) = Heartbeat.run (absParams P) (absCfg P c) (callActs P c op) ∧ RInv P (step P c (.call op)) := by
  cases hs : silent op with
  | true =>
    rw [silent_callOps P c op hs]
    exact silent_sim P c h op hs hwf
  | false =>
    cases op with
    | deleteStudy s => exact absurd hok (by simp [EnvOk])
    | createTrial s tmpl ir => exact create_sim P c h s tmpl ir hwf hok
    | setTrialParam tid name p ir => exact param_sim P c h tid name p ir
    | setTrialStateValues tid st vals => exact state_sim P c h tid st vals hwf hok
    | setTrialInter tid stp v =>
      have := inter_sim P c h tid stp v
      simpa [callActs, callOps, Heartbeat.run] using this
    | setTrialUserAttr tid k v => exact userAttr_sim P c h tid k v
    | setTrialSystemAttr tid k v => exact sysAttr_sim P c h tid k v hok
    | _ => simp [silent] at hs

end OptunaVerif.RdbHb
