import OptunaVerif.Lemmas.RdbHbAbs
import OptunaVerif.Lemmas.RdbHbBeats
/-! The invariant of the relational heartbeat model under which it refines the abstract sweep model, and the
facts about the stale query / the listing of the study that the step-by-step simulation uses.  Core Lean only. -/
set_option linter.unusedSimpArgs false
set_option linter.unusedSectionVars false
set_option linter.unusedVariables false
namespace OptunaVerif.RdbHb
open OptunaVerif OptunaVerif.Storage OptunaVerif.Rdb
open OptunaVerif.Generated
open OptunaVerif.Heartbeat (HTrial Rec)

/-- what is assumed of the storage's parameters: the JSON codec round-trips the two payloads, and the
constructor accepted `heartbeat_interval` / `grace_period` -/
structure POk (P : Params) : Prop where
  lawful : P.codec.Lawful
  interval : StaleGen.heartbeatIntervalRejected (some P.hbInterval) = false
  grace : StaleGen.gracePeriodRejected P.gracePeriod = false

theorem POk.gpos {P : Params} (h : POk P) : 0 < StaleGen.effectiveGrace P.hbInterval P.gracePeriod :=
  effectiveGrace_pos _ _ h.interval h.grace

def FinishedIn (L : List (Nat × TrialS)) (t : Nat) : Prop := ∃ p ∈ L, p.1 = t ∧ p.2.state.isFinished = true

/-- what a worker's position in the sweep presupposes of the study's trials -/
def PhaseOk (C : Codec) (m : Option Nat) (L : List (Nat × TrialS)) : Phase → Prop
  | .idle => True
  | .dead => True
  | .failing todo won => (∀ t ∈ todo, t ∈ L.map (·.1)) ∧ (∀ t ∈ won, FinishedIn L t)
  | .calling todo => ∀ t ∈ todo, FinishedIn L t
  | .enqueue t snap todo =>
    (t, snap) ∈ L ∧ snap.state.isFinished = true ∧ Heartbeat.exceeds m (recOf C snap) = false ∧ ∀ t ∈ todo, FinishedIn L t

def Event.isRaised : Event → Bool
  | .raised _ _ => true
  | _ => false

structure RInv (P : Params) (c : Cfg) : Prop where
  /-- the tables present some contract state (hence satisfy the table invariant), in which the study is live -/
  abs : ∃ a, Abs c.hs.db a ∧ (a.study? P.sid).isSome = true
  stamped : Stamped c.hs
  /-- heartbeats were written at database times that have passed -/
  past : ∀ p ∈ c.hs.stamps, p.2 ≤ c.now
  /-- nobody but the callback writes the two reserved system attributes -/
  wf : ∀ p ∈ studyList c.hs.db P.sid, WfSys P.codec p.2.systemAttrs
  phases : ∀ (w : Nat) (ph : Phase), c.workers[w]? = some ph →
    PhaseOk P.codec (P.cb.maxRetry.map Int.toNat) (studyList c.hs.db P.sid) ph
  /-- the ids the event log mentions are trials of the study -/
  evIn : ∀ e ∈ c.events, ∀ t ∈ e.ids, t ∈ (studyList c.hs.db P.sid).map (·.1)
  /-- no exception has left a `fail_stale_trials` -/
  noRaise : ∀ e ∈ c.events, e.isRaised = false

theorem RInv.inv {P : Params} {c : Cfg} (h : RInv P c) : Inv c.hs.db := by
  obtain ⟨a, ha, _⟩ := h.abs; exact ha.inv

theorem FinishedIn.mem {L : List (Nat × TrialS)} {t : Nat} (h : FinishedIn L t) : t ∈ L.map (·.1) := by
  obtain ⟨p, hp, e, _⟩ := h
  exact List.mem_map.mpr ⟨p, hp, e⟩

theorem Phase.ids_mem {C : Codec} {m : Option Nat} {L : List (Nat × TrialS)} {ph : Phase} (h : PhaseOk C m L ph) :
    ∀ t ∈ ph.ids, t ∈ L.map (·.1) := by
  intro t ht
  cases ph with
  | idle => simp [Phase.ids] at ht
  | dead => simp [Phase.ids] at ht
  | failing todo won =>
    simp only [Phase.ids, List.mem_append] at ht
    rcases ht with ht | ht
    · exact h.1 t ht
    · exact (h.2 t ht).mem
  | calling todo => exact (h t ht).mem
  | enqueue t' snap todo =>
    simp only [Phase.ids, List.mem_cons] at ht
    rcases ht with ht | ht
    · subst ht; exact List.mem_map.mpr ⟨_, h.1, rfl⟩
    · exact (h.2.2.2 t ht).mem

/-- the listing only grows, and what is finished in it stays as it is -/
structure Evolves (L L' : List (Nat × TrialS)) : Prop where
  ids : ∀ t ∈ L.map (·.1), t ∈ L'.map (·.1)
  frozen : ∀ p ∈ L, p.2.state.isFinished = true → p ∈ L'

theorem Evolves.refl (L : List (Nat × TrialS)) : Evolves L L := ⟨fun _ h => h, fun _ h _ => h⟩

theorem FinishedIn.evolve {L L' : List (Nat × TrialS)} (he : Evolves L L') {t : Nat} (h : FinishedIn L t) : FinishedIn L' t := by
  obtain ⟨p, hp, e, hf⟩ := h
  exact ⟨p, he.frozen p hp hf, e, hf⟩

theorem PhaseOk.evolve {C : Codec} {m : Option Nat} {L L' : List (Nat × TrialS)} (he : Evolves L L') {ph : Phase}
    (h : PhaseOk C m L ph) : PhaseOk C m L' ph := by
  cases ph with
  | idle => trivial
  | dead => trivial
  | failing todo won => exact ⟨fun t ht => he.ids t (h.1 t ht), fun t ht => (h.2 t ht).evolve he⟩
  | calling todo => exact fun t ht => (h t ht).evolve he
  | enqueue t snap todo => exact ⟨he.frozen _ h.1 h.2.1, h.2.1, h.2.2.1, fun t ht => (h.2.2.2 t ht).evolve he⟩

/-! ## the listing of the study -/

theorem mem_studyList (db : Rdb.State) (sid : Nat) (p : Nat × TrialS) :
    p ∈ studyList db sid ↔ ∃ row ∈ db.trials, row.study = sid ∧ p = (row.id, db.rowView row) := by
  unfold studyList
  simp only [List.mem_map, List.mem_filter, beq_iff_eq]
  constructor
  · rintro ⟨row, ⟨hr, hs⟩, e⟩; exact ⟨row, hr, hs, e.symm⟩
  · rintro ⟨row, hr, hs, e⟩; exact ⟨row, ⟨hr, hs⟩, e.symm⟩

theorem studyList_lt (db : Rdb.State) (h : Inv0 db) (sid : Nat) (t : Nat) (ht : t ∈ (studyList db sid).map (·.1)) : t < db.nTrial := by
  obtain ⟨p, hp, e⟩ := List.mem_map.mp ht
  obtain ⟨row, hr, _, ep⟩ := (mem_studyList db sid p).mp hp
  rw [← e, ep]
  exact h.trialsBelow row hr

theorem RInv.evIds {P : Params} {c : Cfg} (h : RInv P c) : ∀ e ∈ c.events, ∀ t ∈ e.ids, t < c.hs.db.nTrial :=
  fun e he t ht => studyList_lt c.hs.db h.inv.1 P.sid t (h.evIn e he t ht)

theorem number_eq_numOf (db : Rdb.State) (h : Inv db) (sid : Nat) (p : Nat × TrialS) (hp : p ∈ studyList db sid) :
    p.2.number = numOf (studyList db sid) p.1 := by
  obtain ⟨i, hi⟩ := List.getElem?_of_mem hp
  rw [numOf_of_getElem? _ (studyList_sorted db h.1 sid) i p hi]
  unfold studyList at hi
  rw [List.getElem?_map] at hi
  cases hrow : (db.trials.filter (fun x => x.study == sid))[i]? with
  | none => simp [hrow] at hi
  | some row =>
    simp only [hrow, Option.map_some, Option.some.injEq] at hi
    have hn := h.2 sid
    have : ((db.trials.filter (fun x => x.study == sid)).map (·.number))[i]? = some row.number := by
      rw [List.getElem?_map, hrow]; rfl
    rw [hn] at this
    have hlt : i < (db.trials.filter (fun x => x.study == sid)).length := Heartbeat.getElem?_lt_length hrow
    rw [List.getElem?_range hlt] at this
    simp only [Option.some.injEq] at this
    rw [← hi]
    simp only [State.rowView]
    exact this.symm

/-- `get_trial` of an id of the listing returns the listed trial -/
theorem getTrial_of_mem (db : Rdb.State) (h : Inv0 db) (sid : Nat) (p : Nat × TrialS) (hp : p ∈ studyList db sid) :
    getTrial db p.1 = .ok (p.1, p.2) := by
  obtain ⟨row, hr, _, ep⟩ := (mem_studyList db sid p).mp hp
  rw [getTrial_eq db h, ep]
  simp only
  rw [trialRow?_of_mem db h row hr]

/-! ## ages and the stale query -/

theorem ageOf_eq_of_beats (hs hs' : HState) (now : Int) (tid : Nat) (hb : hs'.db.beats = hs.db.beats) (hst : hs'.stamps = hs.stamps) :
    ageOf hs' now tid = ageOf hs now tid := by
  unfold ageOf heartbeatsOf
  rw [hb, hst]

/-- a trial id that no heartbeat row refers to has no age -/
theorem ageOf_none (hs : HState) (now : Int) (tid : Nat) (h : ∀ b ∈ hs.db.beats, b.owner ≠ tid) : ageOf hs now tid = none := by
  unfold ageOf heartbeatsOf
  have : Tbl.ofOwner hs.db.beats tid = [] := by
    unfold Tbl.ofOwner
    rw [List.filter_eq_nil_iff]
    intro b hb
    simpa using h b hb
  rw [this]
  rfl

/-- the abstract staleness test on the abstraction of a trial is the generated one on its rows -/
theorem isStale_abs (P : Params) (hP : POk P) (hs : HState) (now : Int) (p : Nat × TrialS) :
    (absTrial P.codec hs now p).isStale (absParams P).grace =
      (p.2.state == .running &&
        match heartbeatsOf hs p.1 with
        | [ts] => decide (now - ts > StaleGen.effectiveGrace P.hbInterval P.gracePeriod * 1000000)
        | _ => false) := by
  have hg := hP.gpos
  unfold HTrial.isStale absTrial ageOf absParams recOf
  simp only
  congr 1
  match heartbeatsOf hs p.1 with
  | [] => rfl
  | [ts] =>
    simp only
    congr 1
    apply propext
    omega
  | _ :: _ :: _ => rfl

theorem staleFrom_map (g : Nat) (L M : List (Nat × TrialS)) (h : Nat × TrialS → HTrial) (i : Nat)
    (hidx : ∀ j p, M[j]? = some p → numOf L p.1 = i + j) :
    Heartbeat.staleFrom g (M.map h) i = (M.filter (fun p => (h p).isStale g)).map (fun p => numOf L p.1) := by
  induction M generalizing i with
  | nil => rfl
  | cons p M ih =>
    have h0 : numOf L p.1 = i := by simpa using hidx 0 p (by simp)
    have hrest := ih (i + 1) (fun j q hq => by have := hidx (j + 1) q (by simpa using hq); omega)
    simp only [List.map_cons, Heartbeat.staleFrom, List.filter_cons]
    split
    · simp [hrest, h0]
    · exact hrest

/-- **the stale ids of the relational query are, number for number, the abstract model's stale set** -/
theorem stale_abs (P : Params) (hP : POk P) (hs : HState) (hinv : Inv0 hs.db) (now : Int) :
    ∃ ids, getStaleTrialIds hs now P.hbInterval P.gracePeriod P.sid = .ok ids ∧
      (∀ t ∈ ids, t ∈ (studyList hs.db P.sid).map (·.1)) ∧
      ids.map (numOf (studyList hs.db P.sid)) =
        Heartbeat.staleIds (absParams P).grace (absTrialsL P.codec hs now (studyList hs.db P.sid)) := by
  refine ⟨_, getStaleTrialIds_eq hs hinv now _ _ _, ?_, ?_⟩
  · intro t ht
    obtain ⟨row, hrow, e⟩ := List.mem_map.mp ht
    have hc := (List.mem_filter.mp hrow).1
    rw [mem_staleCandidates] at hc
    refine List.mem_map.mpr ⟨(row.id, hs.db.rowView row), ?_, e⟩
    exact (mem_studyList _ _ _).mpr ⟨row, hc.1, hc.2.2, rfl⟩
  · unfold Heartbeat.staleIds absTrialsL
    rw [staleFrom_map _ (studyList hs.db P.sid) (studyList hs.db P.sid) _ 0
      (fun j p hj => by rw [numOf_of_getElem? _ (studyList_sorted hs.db hinv P.sid) j p hj]; omega)]
    unfold studyList staleCandidates
    rw [List.filter_filter, List.filter_map, List.map_map, List.map_map]
    rw [List.filter_filter]
    have hf : ∀ row : TrialRow,
        ((((fun p => (absTrial P.codec hs now p).isStale (absParams P).grace) ∘ (fun x => (x.id, hs.db.rowView x))) row) && (row.study == P.sid))
        = ((staleRow hs now (StaleGen.effectiveGrace P.hbInterval P.gracePeriod) row) && (StaleGen.queryFilter row.state row.study P.sid)) := by
      intro row
      simp only [Function.comp, isStale_abs P hP, State.rowView, staleRow, StaleGen.queryFilter]
      rcases heartbeatsOf hs row.id with _ | ⟨ts, _ | ⟨_, _⟩⟩ <;> cases row.state <;> cases (row.study == P.sid) <;> (try simp) <;> (try exact Bool.and_comm _ _)
    rw [List.filter_congr (fun row _ => hf row)]
    apply List.map_congr_left
    intro row _
    rfl

end OptunaVerif.RdbHb
