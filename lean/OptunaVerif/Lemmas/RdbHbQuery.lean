import OptunaVerif.Model.RdbHeartbeat
import OptunaVerif.Lemmas.RdbViews
/-! `_get_stale_trial_ids` on the relational model: what the query returns, for every table state that
satisfies the table invariant.  The staleness test and the query filter are the *generated*
definitions of `Generated/StaleGen.lean`; the two lemmas `rowVerdict_le_one` and `queryFilter_iff` are
where a change of the Python text (`>=`, `.seconds`, another state, a dropped filter) stops the build.
Core Lean only. -/
set_option linter.unusedSimpArgs false
set_option linter.unusedSectionVars false
set_option linter.unusedVariables false
namespace OptunaVerif.RdbHb
open OptunaVerif OptunaVerif.Storage OptunaVerif.Rdb
open OptunaVerif.Generated

/-! ## stamps -/

theorem stampOf_setStamp_same (l : Stamps) (b : Nat) (ts : Int) : stampOf (setStamp l b ts) b = some ts := by
  induction l with
  | nil => simp [setStamp, stampOf]
  | cons h t ih =>
    obtain ⟨b', t'⟩ := h
    by_cases hb : b' = b
    · simp [setStamp, stampOf, hb]
    · simp [setStamp, stampOf, hb, ih]

theorem stampOf_setStamp_other (l : Stamps) (b b2 : Nat) (ts : Int) (h : b2 ≠ b) :
    stampOf (setStamp l b ts) b2 = stampOf l b2 := by
  induction l with
  | nil => simp [setStamp, stampOf, Ne.symm h]
  | cons hd t ih =>
    obtain ⟨b', t'⟩ := hd
    by_cases hb : b' = b
    · subst hb; simp [setStamp, stampOf, Ne.symm h]
    · by_cases hb2 : b' = b2
      · subst hb2; simp [setStamp, stampOf, hb]
      · simp [setStamp, stampOf, hb, hb2, ih]

/-- NOT NULL on `trial_heartbeats.heartbeat`: every row has its stamp -/
def Stamped (s : HState) : Prop := ∀ b ∈ s.db.beats, ∃ ts, stampOf s.stamps b.id = some ts

/-- the table state the query theorems are about: the table invariant and the NOT NULL column -/
structure HInv (s : HState) : Prop where
  inv : Inv s.db
  stamped : Stamped s

/-! ## at most one heartbeat row per trial (UNIQUE (trial_id)) -/

theorem length_le_one_of_pairwise_false {α : Type} (l : List α) (R : α → α → Prop) (h : l.Pairwise R)
    (hf : ∀ a ∈ l, ∀ b ∈ l, ¬ R a b) : l.length ≤ 1 := by
  match l, h with
  | [], _ => simp
  | [_], _ => simp
  | a :: b :: t, h =>
    have := (List.pairwise_cons.mp h).1 b (by simp)
    exact absurd this (hf a (by simp) b (by simp))

theorem beats_ofOwner_le_one {ν : Type} (t : List (KRow Unit ν)) (n : Nat) (h : TblInv t n) (o : Nat) :
    (Tbl.ofOwner t o).length ≤ 1 := by
  have hp : (Tbl.ofOwner t o).Pairwise (fun a b => ¬(a.owner = b.owner ∧ a.key = b.key)) :=
    h.uniq.sublist List.filter_sublist
  apply length_le_one_of_pairwise_false _ _ hp
  intro a ha b hb hab
  have ha' := (Tbl.mem_ofOwner t o a).mp ha
  have hb' := (Tbl.mem_ofOwner t o b).mp hb
  exact hab ⟨ha'.2.trans hb'.2.symm, rfl⟩

theorem beats_ofOwner_eq_singleton {ν : Type} (t : List (KRow Unit ν)) (n : Nat) (h : TblInv t n) (b : KRow Unit ν)
    (hb : b ∈ t) : Tbl.ofOwner t b.owner = [b] := by
  have hm : b ∈ Tbl.ofOwner t b.owner := (Tbl.mem_ofOwner t b.owner b).mpr ⟨hb, rfl⟩
  have hl := beats_ofOwner_le_one t n h b.owner
  match hh : Tbl.ofOwner t b.owner, hm, hl with
  | [x], hm, _ => simp at hm; rw [hm]
  | [], hm, _ => simp at hm
  | _ :: _ :: _, _, hl => simp at hl

theorem heartbeatsOf_le_one (s : HState) (h : Inv0 s.db) (tid : Nat) : (heartbeatsOf s tid).length ≤ 1 := by
  unfold heartbeatsOf
  exact Nat.le_trans (List.length_filterMap_le _ _) (beats_ofOwner_le_one _ _ h.beats tid)

/-- the heartbeat of a trial as the query sees it: `some ts` iff the trial has a row, whose stamp is `ts` -/
theorem heartbeatsOf_eq_singleton_iff (s : HState) (h : Inv0 s.db) (tid : Nat) (ts : Int) :
    heartbeatsOf s tid = [ts] ↔ ∃ b ∈ s.db.beats, b.owner = tid ∧ stampOf s.stamps b.id = some ts := by
  constructor
  · intro he
    have : ts ∈ heartbeatsOf s tid := by rw [he]; simp
    unfold heartbeatsOf at this
    obtain ⟨b, hb, hs⟩ := List.mem_filterMap.mp this
    rw [Tbl.mem_ofOwner] at hb
    exact ⟨b, hb.1, hb.2, hs⟩
  · rintro ⟨b, hb, ho, hs⟩
    subst ho
    unfold heartbeatsOf
    rw [beats_ofOwner_eq_singleton _ _ h.beats b hb]
    simp [hs]

theorem heartbeatsOf_eq_nil_iff (s : HState) (hst : Stamped s) (tid : Nat) :
    heartbeatsOf s tid = [] ↔ ∀ b ∈ s.db.beats, b.owner ≠ tid := by
  unfold heartbeatsOf
  rw [List.filterMap_eq_nil_iff]
  constructor
  · intro h b hb ho
    obtain ⟨ts, hts⟩ := hst b hb
    have := h b ((Tbl.mem_ofOwner _ _ _).mpr ⟨hb, ho⟩)
    rw [hts] at this
    cases this
  · intro h b hb
    rw [Tbl.mem_ofOwner] at hb
    exact absurd hb.2 (h b hb.1)

/-! ## the generated row test on at most one heartbeat -/

/-- **against the generated code**: on a trial with no heartbeat row the loop body skips; on one row it
is the strict comparison `now - heartbeat > grace_period seconds` (timestamps in µs). -/
theorem rowVerdict_le_one (now g : Int) (hbs : List Int) (h : hbs.length ≤ 1) :
    StaleGen.rowVerdict now hbs g =
      match hbs with
      | [] => .skip
      | ts :: _ => if now - ts > g * 1000000 then .stale else .fresh := by
  match hbs, h with
  | [], _ => simp [StaleGen.rowVerdict]
  | [ts], _ => simp [StaleGen.rowVerdict]
  | _ :: _ :: _, h => simp at h

/-- **against the generated code**: the query keeps exactly the RUNNING trials of the given study. -/
theorem queryFilter_iff (st : TState) (study sid : Nat) :
    StaleGen.queryFilter st study sid = true ↔ st = .running ∧ study = sid := by
  simp [StaleGen.queryFilter]

/-- **against the generated code**: `grace_period`, or twice the heartbeat interval. -/
theorem effectiveGrace_eq (hbInterval : Int) (gp : Option Int) :
    StaleGen.effectiveGrace hbInterval gp = match gp with | none => 2 * hbInterval | some g => g := by
  cases gp <;> rfl

/-- **against the generated code**: a storage the constructor accepted has a positive grace period. -/
theorem effectiveGrace_pos (hbInterval : Int) (gp : Option Int)
    (h1 : StaleGen.heartbeatIntervalRejected (some hbInterval) = false) (h2 : StaleGen.gracePeriodRejected gp = false) :
    0 < StaleGen.effectiveGrace hbInterval gp := by
  cases gp with
  | none => simp [StaleGen.heartbeatIntervalRejected] at h1; simp [StaleGen.effectiveGrace]; omega
  | some g => simp [StaleGen.gracePeriodRejected] at h2; simp [StaleGen.effectiveGrace]; omega

/-! ## the loop -/

/-- the row is RUNNING-with-an-old-heartbeat as far as the loop body is concerned -/
def staleRow (s : HState) (now g : Int) (r : TrialRow) : Bool :=
  match heartbeatsOf s r.id with
  | [ts] => decide (now - ts > g * 1000000)
  | _ => false

theorem staleLoop_eq (s : HState) (h : Inv0 s.db) (now g : Int) (rows : List TrialRow) :
    staleLoop s now g rows = .ok ((rows.filter (staleRow s now g)).map (·.id)) := by
  induction rows with
  | nil => rfl
  | cons r rest ih =>
    have hl := heartbeatsOf_le_one s h r.id
    unfold staleLoop
    rw [rowVerdict_le_one now g _ hl]
    match hh : heartbeatsOf s r.id, hl with
    | [], _ => simp [ih, staleRow, hh]
    | [ts], _ =>
      by_cases hc : now - ts > g * 1000000
      · simp [ih, staleRow, hh, hc]
      · simp [ih, staleRow, hh, hc]
    | _ :: _ :: _, hl => simp at hl

theorem getStaleTrialIds_eq (s : HState) (h : Inv0 s.db) (now hbInterval : Int) (gp : Option Int) (sid : Nat) :
    getStaleTrialIds s now hbInterval gp sid =
      .ok (((staleCandidates s sid).filter (staleRow s now (StaleGen.effectiveGrace hbInterval gp))).map (·.id)) :=
  staleLoop_eq s h now _ _

theorem staleRow_iff (s : HState) (h : Inv0 s.db) (now g : Int) (r : TrialRow) :
    staleRow s now g r = true ↔
      ∃ b ∈ s.db.beats, b.owner = r.id ∧ ∃ ts, stampOf s.stamps b.id = some ts ∧ now - ts > g * 1000000 := by
  have hl := heartbeatsOf_le_one s h r.id
  constructor
  · intro hs
    unfold staleRow at hs
    match hh : heartbeatsOf s r.id, hl with
    | [], _ => simp [hh] at hs
    | [ts], _ =>
      simp only [hh, decide_eq_true_eq] at hs
      obtain ⟨b, hb, ho, hst⟩ := (heartbeatsOf_eq_singleton_iff s h r.id ts).mp hh
      exact ⟨b, hb, ho, ts, hst, hs⟩
    | _ :: _ :: _, hl => simp at hl
  · rintro ⟨b, hb, ho, ts, hst, hgt⟩
    have := (heartbeatsOf_eq_singleton_iff s h r.id ts).mpr ⟨b, hb, ho, hst⟩
    simp [staleRow, this, hgt]

theorem mem_staleCandidates (s : HState) (sid : Nat) (r : TrialRow) :
    r ∈ staleCandidates s sid ↔ r ∈ s.db.trials ∧ r.state = .running ∧ r.study = sid := by
  unfold staleCandidates
  rw [List.mem_filter, queryFilter_iff]

end OptunaVerif.RdbHb
