import OptunaVerif.Lemmas.RdbHbSweep3
/-! Table level: which *rows* a storage call of the sweep touches.  `rowsOf hs tid` is everything the eleven
tables hold about trial `tid` (its `trials` row, its rows in the five child tables, its heartbeat row with the
`heartbeat` column), primary keys included.  Core Lean only. -/
set_option linter.unusedSimpArgs false
set_option linter.unusedSectionVars false
set_option linter.unusedVariables false
namespace OptunaVerif.RdbHb
open OptunaVerif OptunaVerif.Storage OptunaVerif.Rdb
open OptunaVerif.Generated

/-- every row of every table that belongs to one trial -/
structure TrialRows where
  trial : Option TrialRow
  params : List (KRow String Param)
  values : List (KRow Nat SVal)
  inters : List (KRow Int SIVal)
  user : List (KRow String String)
  sys : List (KRow String String)
  beats : List (KRow Unit Unit × Option Int)
deriving DecidableEq, Repr

def dbRows (db : Rdb.State) (stamps : Stamps) (tid : Nat) : TrialRows :=
  { trial := db.trialRow? tid, params := Tbl.ofOwner db.params tid, values := Tbl.ofOwner db.values tid,
    inters := Tbl.ofOwner db.inters tid, user := Tbl.ofOwner db.tUser tid, sys := Tbl.ofOwner db.tSys tid,
    beats := (Tbl.ofOwner db.beats tid).map (fun b => (b, stampOf stamps b.id)) }

def rowsOf (hs : HState) (tid : Nat) : TrialRows := dbRows hs.db hs.stamps tid

theorem find?_map_id (l : List TrialRow) (g : TrialRow → TrialRow) (hg : ∀ r, (g r).id = r.id) (tid : Nat) :
    (l.map g).find? (fun r => r.id == tid) = (l.find? (fun r => r.id == tid)).map g := by
  induction l with
  | nil => rfl
  | cons a t ih =>
    simp only [List.map_cons, List.find?_cons, hg]
    split
    · rfl
    · exact ih

/-- `set_trial_state_values(t, FAIL)` touches no row of any other trial -/
theorem cas_rows (db : Rdb.State) (stamps : Stamps) (t tid : Nat) (hne : tid ≠ t) :
    dbRows (Rdb.step db (.setTrialStateValues t .fail none)).1 stamps tid = dbRows db stamps tid := by
  unfold Rdb.step
  rcases commit_state db (setTrialStateValues db t .fail none) with e | ⟨s', o, hm, e⟩
  · rw [e]
  · rw [e]
    unfold setTrialStateValues at hm
    cases hu : updatableTrial db t with
    | error f => simp [hu] at hm
    | ok tr =>
      simp only [hu, writeValuesNC] at hm
      have hne' : (TState.fail == TState.running && tr.state != TState.waiting) = false := by
        have : (TState.fail == TState.running) = false := by decide
        rw [this]; rfl
      simp only [hne', Bool.false_eq_true, if_false] at hm
      have hs' : s' = { db with trials := db.trials.map (fun r => if (r.id == t && [TState.running, TState.waiting].contains r.state) = true then
          { r with state := .fail, hasStart := r.hasStart || (TState.fail == TState.running), hasComplete := r.hasComplete || TState.fail.isFinished } else r) } := by
        have hfr : (TState.fail == TState.running) = false := by decide
        simp only [hfr, Bool.false_eq_true, if_false] at hm
        split at hm
        · simp at hm
        · simp only [Except.ok.injEq, Prod.mk.injEq] at hm
          exact hm.1.symm
      rw [hs']
      simp only [dbRows, State.trialRow?]
      rw [find?_map_id _ _ (by intro r; split <;> rfl)]
      congr 1
      cases hf : db.trials.find? (fun r => r.id == tid) with
      | none => rfl
      | some row =>
        have : row.id = tid := by simpa using List.find?_some hf
        have hno : (row.id == t) = false := by simp [this, hne]
        show some (if _ then _ else row) = some row
        rw [if_neg (by simp [hno])]

/-- `create_new_trial(study_id, template)` touches no row of any existing trial -/
theorem create_rows (db : Rdb.State) (hinv : Inv db) (stamps : Stamps) (sid : Nat) (t : Template) (ir : Bool)
    (hd : distinctKeys t.params) (hdu : distinctKeys t.userAttrs) (hds : distinctKeys t.systemAttrs) (hdi : distinctKeys t.inter)
    (hne : ∀ l, t.values = some l → l ≠ []) (tid : Nat) (htid : tid ∈ db.trialIds) :
    dbRows (Rdb.step db (.createTrial sid (some t) ir)).1 stamps tid = dbRows db stamps tid := by
  have hbe := (beats_step db (.createTrial sid (some t) ir) hinv (by intro s; simp)).beats
  unfold Rdb.step at hbe ⊢
  rcases commit_state db (createTrial db sid (some t)) with e | ⟨s', o, hm, e⟩
  · rw [e]
  · rw [e] at hbe ⊢
    unfold createTrial at hm
    cases hf : findStudy db sid with
    | error f => simp [hf] at hm
    | ok r0 =>
      obtain ⟨_, _, hmem⟩ := findStudy_mem db hinv.1 sid r0 hf
      simp only [hf] at hm
      rcases prepare_some db hinv sid hmem t hd hne with ⟨herr, _⟩ | ⟨s1, hok, htr, _, _, hvals, hpar, hus, hsy, hin, _⟩
      · simp [herr] at hm
      · simp only [hok, Except.ok.injEq, Prod.mk.injEq] at hm
        obtain ⟨e1, _⟩ := hm
        subst e1
        have hlt : tid ≠ db.nTrial := by
          obtain ⟨row, hr, er⟩ := List.mem_map.mp htid
          have := hinv.1.trialsBelow row hr
          omega
        have hfr : ∀ {κ ν : Type} [DecidableEq κ] (tb : List (KRow κ ν)), Fk db.trialIds tb → ∀ (l : List (κ × ν)),
            ∀ p ∈ l, ∀ x ∈ tb, ¬(x.owner = db.nTrial ∧ x.key = p.1) :=
          fun tb hfk l p _ x hx hc => fresh_owner db hinv.1 tb hfk x hx hc.1
        obtain ⟨_, _, p3, _, _⟩ := Tbl.bulk_spec id db.params db.nParam hinv.1.params db.nTrial t.params hd (hfr db.params hinv.1.paramsFk _)
        obtain ⟨_, _, u3, _, _⟩ := Tbl.bulk_spec id db.tUser db.nTUser hinv.1.tUser db.nTrial t.userAttrs hdu (hfr db.tUser hinv.1.tUserFk _)
        obtain ⟨_, _, y3, _, _⟩ := Tbl.bulk_spec id db.tSys db.nTSys hinv.1.tSys db.nTrial t.systemAttrs hds (hfr db.tSys hinv.1.tSysFk _)
        have hdi' : (t.inter.map (fun p => (p.1, encI p.2))).Pairwise (fun a b => a.1 ≠ b.1) := by
          rw [List.pairwise_map]; exact hdi
        obtain ⟨_, _, i3, _, _⟩ := Tbl.bulk_spec decI db.inters db.nInter hinv.1.inters db.nTrial _ hdi' (hfr db.inters hinv.1.intersFk _)
        simp only [dbRows, hbe]
        have h1 : s1.trialRow? tid = db.trialRow? tid := by
          unfold State.trialRow?
          rw [htr, find?_ins db hinv.1 _ rfl tid]
          simp [hlt]; rfl
        rw [h1, hpar, hus, hsy, hin, p3 tid hlt, u3 tid hlt, y3 tid hlt, i3 tid hlt, hvals.2 tid hlt]

/-- where the tables can differ after one storage call of a sweep -/
theorem sweepStep_hs (P : Params) (c : Cfg) (w : Nat) :
    (sweepStep P c w).hs = c.hs ∨
    (∃ t todo won, c.workers[w]? = some (.failing (t :: todo) won) ∧
      (sweepStep P c w).hs = { c.hs with db := (Rdb.step c.hs.db (.setTrialStateValues t StaleGen.failState none)).1 }) ∨
    (∃ t snap todo tmpl, c.workers[w]? = some (.enqueue t snap todo) ∧ retryTemplate P.codec P.cb snap = .enqueue tmpl ∧
      (sweepStep P c w).hs = { c.hs with db := (Rdb.step c.hs.db (.createTrial P.sid (some tmpl) false)).1 }) := by
  unfold sweepStep
  split
  · exact Or.inl rfl
  · exact Or.inl rfl
  · split <;> exact Or.inl rfl
  · exact Or.inl rfl
  · rename_i t todo won hw
    split
    · rename_i db' heq
      refine Or.inr (Or.inl ⟨t, todo, won, hw, ?_⟩)
      simp only [Cfg.log, Cfg.setPhase, Cfg.setDb, heq]
    · rename_i db' heq
      refine Or.inr (Or.inl ⟨t, todo, won, hw, ?_⟩)
      simp only [Cfg.setPhase, Cfg.setDb, heq]
    · split <;> exact Or.inl rfl
    · exact Or.inl rfl
  · exact Or.inl rfl
  · split
    · exact Or.inl rfl
    · split <;> exact Or.inl rfl
  · rename_i t snap todo hw
    split
    · rename_i tmpl htm
      split
      · rename_i db' n heq
        refine Or.inr (Or.inr ⟨t, snap, todo, tmpl, hw, htm, ?_⟩)
        simp only [Cfg.log, Cfg.setPhase, Cfg.setDb, heq]
      · exact Or.inl rfl
    · exact Or.inl rfl

/-- **a storage call of a sweep changes rows of at most one existing trial: the one at the head of the worker's
list of noticed stale ids** -/
theorem sweepStep_rows (P : Params) (hP : POk P) (c : Cfg) (h : RInv P c) (w tid : Nat) (htid : tid ∈ c.hs.db.trialIds) :
    rowsOf (sweepStep P c w).hs tid = rowsOf c.hs tid ∨
    ∃ todo won, c.workers[w]? = some (.failing (tid :: todo) won) := by
  rcases sweepStep_hs P c w with e | ⟨t, todo, won, hw, e⟩ | ⟨t, snap, todo, tmpl, hw, htm, e⟩
  · left; rw [e]
  · by_cases ht : tid = t
    · right; subst ht; exact ⟨todo, won, hw⟩
    · left
      rw [e]
      exact cas_rows c.hs.db c.hs.stamps t tid ht
  · left
    rw [e]
    obtain ⟨hmem, _, hex, _⟩ := h.phases w _ hw
    have hwf := h.wf (t, snap) hmem
    have : tmpl = retryTmpl P.codec P.cb snap := by
      rw [retryTemplate_eq P.codec hP.lawful P.cb snap hwf, hex] at htm
      simp at htm
      exact htm.symm
    subst this
    obtain ⟨d1, d2, d3, d4, _⟩ := retryTmpl_wf P.codec P.cb c.hs.db h.inv.1 P.sid (t, snap) hmem hwf P.sid
    exact create_rows c.hs.db h.inv c.hs.stamps P.sid _ false d1 d2 d3 d4 (by intro l hl; simp [retryTmpl] at hl) tid htid

end OptunaVerif.RdbHb
