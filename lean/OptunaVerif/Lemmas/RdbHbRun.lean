import OptunaVerif.Lemmas.RdbHbEnv5
import OptunaVerif.Lemmas.RdbHbCall
/-! Whole histories of the relational heartbeat model: every action is a (possibly empty) list of actions of the
abstract sweep model on the abstraction; starting configurations; how counts over the event log transfer.
Core Lean only. -/
set_option linter.unusedSimpArgs false
set_option linter.unusedSectionVars false
set_option linter.unusedVariables false
namespace OptunaVerif.RdbHb
open OptunaVerif OptunaVerif.Storage OptunaVerif.Rdb
open OptunaVerif.Generated
open OptunaVerif.Heartbeat (HTrial Rec)

/-- what an action must satisfy in the configuration in which it is taken -/
def ActOk (P : Params) (c : Cfg) : Act → Prop
  | .call op => WfOp op ∧ EnvOk P c op
  | .beat tid => tid ∈ c.hs.db.trialIds
  | _ => True

/-- the actions of the abstract model an action of the relational model stands for -/
def absActs (P : Params) (c : Cfg) : Act → List Heartbeat.Act
  | .sweep w => [.sweep w []]
  | .die w => [.die w]
  | .call op => callActs P c op
  | .beat tid => beatActs P c tid
  | .tick d => [.env (.tick d)]

/-- **one action** of anybody: the abstraction moves by `absActs`, the invariant is kept -/
theorem act_sim (P : Params) (hP : POk P) (c : Cfg) (h : RInv P c) (a : Act) (hok : ActOk P c a) :
    absCfg P (step P c a) = Heartbeat.run (absParams P) (absCfg P c) (absActs P c a) ∧ RInv P (step P c a) := by
  cases a with
  | sweep w =>
    obtain ⟨h1, h2⟩ := sweep_sim P hP c h w
    exact ⟨by rw [show step P c (.sweep w) = sweepStep P c w from rfl, h1]; rfl, h2⟩
  | die w =>
    obtain ⟨h1, h2⟩ := die_sim P c h w
    exact ⟨by rw [h1]; rfl, h2⟩
  | call op => exact call_sim P c h op hok.1 hok.2
  | beat tid => exact beat_sim P c h tid hok
  | tick d =>
    obtain ⟨h1, h2⟩ := tick_sim P c h d
    exact ⟨by rw [h1]; rfl, h2⟩

/-- every action of the history is admissible when it is taken -/
def RunOk (P : Params) : Cfg → List Act → Prop
  | _, [] => True
  | c, a :: rest => ActOk P c a ∧ RunOk P (step P c a) rest

/-- the abstract schedule a relational history stands for -/
def absRun (P : Params) : Cfg → List Act → List Heartbeat.Act
  | _, [] => []
  | c, a :: rest => absActs P c a ++ absRun P (step P c a) rest

theorem run_append (P : Heartbeat.Params) (c : Heartbeat.Cfg) (l1 l2 : List Heartbeat.Act) :
    Heartbeat.run P c (l1 ++ l2) = Heartbeat.run P (Heartbeat.run P c l1) l2 := by
  simp [Heartbeat.run, List.foldl_append]

/-- **every history**: the abstraction of the configuration reached is the configuration the abstract model reaches
by the corresponding schedule, and the invariant holds at the end -/
theorem run_sim' (P : Params) (hP : POk P) (c : Cfg) (h : RInv P c) (as : List Act) (hok : RunOk P c as) :
    absCfg P (run P c as) = Heartbeat.run (absParams P) (absCfg P c) (absRun P c as) ∧ RInv P (run P c as) := by
  induction as generalizing c with
  | nil => exact ⟨rfl, h⟩
  | cons a rest ih =>
    obtain ⟨h1, h2⟩ := act_sim P hP c h a hok.1
    obtain ⟨i1, i2⟩ := ih (step P c a) h2 hok.2
    refine ⟨?_, i2⟩
    show absCfg P (run P (step P c a) rest) = _
    rw [i1, h1]
    simp only [absRun]
    rw [run_append]

/-! ## where histories start -/

/-- a configuration in which the study exists and has no trial yet, nobody has recorded a heartbeat, and the
`n` workers are idle -/
def startCfg (db : Rdb.State) (now : Int) (n : Nat) : Cfg :=
  { hs := { db := db, stamps := [] }, now := now, workers := List.replicate n .idle, events := [] }

theorem start_ok (P : Params) (db : Rdb.State) (a : Spec) (habs : Abs db a) (hlive : (a.study? P.sid).isSome = true)
    (hempty : studyList db P.sid = []) (hbeats : db.beats = []) (now : Int) (n : Nat) :
    RInv P (startCfg db now n) ∧ absCfg P (startCfg db now n) = Heartbeat.init n := by
  constructor
  · refine ⟨⟨a, habs, hlive⟩, ?_, ?_, ?_, ?_, ?_, ?_⟩
    · intro b hb
      have hb' : b ∈ db.beats := hb
      rw [hbeats] at hb'; simp at hb'
    · intro p hp; simp [startCfg] at hp
    · intro p hp
      have hp' : p ∈ studyList db P.sid := hp
      rw [hempty] at hp'; simp at hp'
    · intro w ph hw
      simp only [startCfg] at hw
      rw [List.getElem?_replicate] at hw
      split at hw
      · simp at hw; subst hw; trivial
      · simp at hw
    · intro e he; simp [startCfg] at he
    · intro e he; simp [startCfg] at he
  · apply cfg_ext
    · show absTrialsL P.codec _ _ (studyList db P.sid) = []
      rw [hempty]; rfl
    · show (List.replicate n Phase.idle).map _ = List.replicate n Heartbeat.Phase.idle
      simp [absPhase]
    · rfl

/-! ## counting in the event log -/

theorem numOf_inj (L : List (Nat × TrialS)) (hs : Sorted L) (t t' : Nat) (ht : t ∈ L.map (·.1)) (ht' : t' ∈ L.map (·.1))
    (e : numOf L t = numOf L t') : t = t' := by
  obtain ⟨p, hp, hpt⟩ := List.mem_map.mp ht
  obtain ⟨q, hq, hqt⟩ := List.mem_map.mp ht'
  have h1 := getElem?_numOf L hs p hp
  have h2 := getElem?_numOf L hs q hq
  rw [hpt, e] at h1
  rw [hqt, h1] at h2
  simp only [Option.some.injEq] at h2
  rw [← hpt, ← hqt, h2]

def Event.isWon (t : Nat) : Event → Bool
  | .won _ t' => t' == t
  | _ => false

def Event.isCb (t : Nat) : Event → Bool
  | .callback _ t' _ => t' == t
  | _ => false

def Event.isEnq (t : Nat) : Event → Bool
  | .enqueued _ t' _ _ => t' == t
  | _ => false

/-- counting events about trial `t` in the log = counting events about its number in the abstract log -/
theorem count_transfer (C : Codec) (L : List (Nat × TrialS)) (hs : Sorted L) (evs : List Event)
    (hin : ∀ e ∈ evs, ∀ x ∈ e.ids, x ∈ L.map (·.1)) (t : Nat) (ht : t ∈ L.map (·.1))
    (p : Event → Bool) (q : Heartbeat.Event → Bool)
    (hpq : ∀ e ∈ evs, (∀ x ∈ e.ids, x ∈ L.map (·.1)) → p e = match absEvent C L e with | some e' => q e' | none => false) :
    evs.countP p = Heartbeat.cnt q (evs.filterMap (absEvent C L)) := by
  induction evs with
  | nil => rfl
  | cons e rest ih =>
    have hrest := ih (fun e' he' => hin e' (List.mem_cons_of_mem _ he')) (fun e' he' => hpq e' (List.mem_cons_of_mem _ he'))
    have he := hpq e (by simp) (hin e (by simp))
    rw [List.countP_cons, hrest, List.filterMap_cons]
    cases ha : absEvent C L e with
    | none => rw [ha] at he; simp [he]
    | some e' =>
      rw [ha] at he
      simp only [Heartbeat.cnt, List.countP_cons, he]

end OptunaVerif.RdbHb
