import OptunaVerif.Lemmas.RdbHbCalls
/-! One storage call of `fail_stale_trials` on the relational model (`RdbHb.sweepStep`) is one step of the abstract
sweep (`Heartbeat.sweepStep`) on the abstraction, and keeps the invariant `RInv`; no exception leaves the sweep.
Core Lean only. -/
set_option linter.unusedSimpArgs false
set_option linter.unusedSectionVars false
set_option linter.unusedVariables false
namespace OptunaVerif.RdbHb
open OptunaVerif OptunaVerif.Storage OptunaVerif.Rdb
open OptunaVerif.Generated
open OptunaVerif.Heartbeat (HTrial Rec)

/-! ## small facts -/

theorem absPhase_norm (C : Codec) (L : List (Nat × TrialS)) (b : Bool) (ph : Phase) :
    absPhase C L (Phase.norm b ph) = Heartbeat.Phase.norm b (absPhase C L ph) := by
  cases ph with
  | idle => rfl
  | dead => rfl
  | failing todo won =>
    cases todo with
    | nil =>
      cases won with
      | nil => cases b <;> rfl
      | cons x r => cases b <;> rfl
    | cons t r => rfl
  | calling todo =>
    cases todo with
    | nil => rfl
    | cons t r => rfl
  | enqueue t s todo => rfl

theorem orderBy_nil (s : List Nat) : Heartbeat.orderBy [] s = s := by
  simp [Heartbeat.orderBy]

theorem map_updAt_const {α β : Type} (l : List α) (n : Nat) (x : α) (f : α → β) :
    (updAt l n (fun _ => x)).map f = updAt (l.map f) n (fun _ => f x) :=
  map_updAt l n (fun _ => x) (fun _ => f x) f (fun _ _ => rfl)

theorem PhaseOk.norm {C : Codec} {m : Option Nat} {L : List (Nat × TrialS)} {b : Bool} {ph : Phase}
    (h : PhaseOk C m L ph) : PhaseOk C m L (Phase.norm b ph) := by
  cases ph with
  | idle => trivial
  | dead => trivial
  | failing todo won =>
    cases todo with
    | nil =>
      simp only [Phase.norm]
      split
      · exact h.2
      · trivial
    | cons t r => exact h
  | calling todo =>
    cases todo with
    | nil => trivial
    | cons t r => exact h
  | enqueue t s todo => exact h

theorem filterMap_congr' {α β : Type} (f g : α → Option β) (l : List α) (h : ∀ x ∈ l, f x = g x) :
    l.filterMap f = l.filterMap g := by
  induction l with
  | nil => rfl
  | cons a t ih =>
    simp only [List.filterMap_cons, h a (by simp)]
    rw [ih (fun x hx => h x (List.mem_cons_of_mem _ hx))]

/-- worker `w` moves to phase `ph`, the tables become `db'`, an event may be logged -/
def Cfg.move (c : Cfg) (db' : Rdb.State) (w : Nat) (ph : Phase) (e : Option Event) : Cfg :=
  { hs := { c.hs with db := db' }, now := c.now, workers := updAt c.workers w (fun _ => ph), events := e.toList ++ c.events }

theorem move_eq_log (c : Cfg) (db' : Rdb.State) (w : Nat) (ph : Phase) (e : Event) :
    ((c.setDb db').setPhase w ph).log e = c.move db' w ph (some e) := rfl
theorem move_eq_set (c : Cfg) (db' : Rdb.State) (w : Nat) (ph : Phase) :
    (c.setDb db').setPhase w ph = c.move db' w ph none := rfl
theorem move_eq_log' (c : Cfg) (w : Nat) (ph : Phase) (e : Event) :
    (c.setPhase w ph).log e = c.move c.hs.db w ph (some e) := rfl
theorem move_eq_set' (c : Cfg) (w : Nat) (ph : Phase) : c.setPhase w ph = c.move c.hs.db w ph none := rfl

theorem cfg_ext (a b : Heartbeat.Cfg) (h1 : a.trials = b.trials) (h2 : a.workers = b.workers) (h3 : a.events = b.events) :
    a = b := by
  cases a; cases b; simp only at h1 h2 h3; subst h1 h2 h3; rfl

/-- the abstraction of a moved configuration, when ids below the old counter keep their numbers and the heartbeat
table is untouched -/
theorem absCfg_move (P : Params) (c : Cfg) (h : RInv P c) (db' : Rdb.State) (w : Nat) (ph : Phase) (e : Option Event)
    (hbeats : db'.beats = c.hs.db.beats)
    (hnum : ∀ t, t < c.hs.db.nTrial → numOf (studyList db' P.sid) t = numOf (studyList c.hs.db P.sid) t) :
    absCfg P (c.move db' w ph e) =
      { trials := absTrialsL P.codec c.hs c.now (studyList db' P.sid),
        workers := updAt (absCfg P c).workers w (fun _ => absPhase P.codec (studyList db' P.sid) ph),
        events := (e.bind (absEvent P.codec (studyList db' P.sid))).toList ++ (absCfg P c).events } := by
  apply cfg_ext
  · simp only [absCfg, Cfg.move, absTrialsL]
    apply List.map_congr_left
    intro p _
    simp only [absTrial]
    rw [ageOf_eq_of_beats c.hs { c.hs with db := db' } c.now p.1 hbeats rfl]
  · simp only [absCfg, Cfg.move]
    rw [map_updAt_const]
    congr 1
    apply List.map_congr_left
    intro ph' hph'
    obtain ⟨w', hw'⟩ := List.getElem?_of_mem hph'
    apply absPhase_congr
    intro t ht
    exact hnum t (studyList_lt c.hs.db h.inv.1 P.sid t (Phase.ids_mem (h.phases w' ph' hw') t ht))
  · simp only [absCfg, Cfg.move, List.filterMap_append]
    congr 1
    · cases e <;> simp [List.filterMap_cons]
      rename_i ev
      cases absEvent P.codec (studyList db' P.sid) ev <;> rfl
    · apply filterMap_congr'
      intro ev hev
      apply absEvent_congr
      intro t ht
      exact hnum t (h.evIds ev hev t ht)

/-- `RInv` of a moved configuration whose tables did not change -/
theorem RInv.move_same {P : Params} {c : Cfg} (h : RInv P c) (w : Nat) (ph : Phase) (e : Option Event)
    (hph : PhaseOk P.codec (P.cb.maxRetry.map Int.toNat) (studyList c.hs.db P.sid) ph)
    (hev : ∀ ev, e = some ev → (∀ t ∈ ev.ids, t ∈ (studyList c.hs.db P.sid).map (·.1)) ∧ ev.isRaised = false) :
    RInv P (c.move c.hs.db w ph e) := by
  refine ⟨h.abs, h.stamped, h.past, h.wf, ?_, ?_, ?_⟩
  · intro w' ph' hw'
    simp only [Cfg.move, updAt_getElem?] at hw'
    split at hw'
    · cases hg : c.workers[w']? with
      | none => simp [hg] at hw'
      | some x => simp [hg] at hw'; subst hw'; exact hph
    · exact h.phases w' ph' hw'
  · intro ev hm
    simp only [Cfg.move, List.mem_append] at hm
    rcases hm with hm | hm
    · cases e with
      | none => simp at hm
      | some ev' => simp at hm; rw [hm]; exact (hev ev' rfl).1
    · exact h.evIn ev hm
  · intro ev hm
    simp only [Cfg.move, List.mem_append] at hm
    rcases hm with hm | hm
    · cases e with
      | none => simp at hm
      | some ev' => simp at hm; rw [hm]; exact (hev ev' rfl).2
    · exact h.noRaise ev hm

theorem workers_abs_get (P : Params) (c : Cfg) (w : Nat) :
    (absCfg P c).workers[w]? = (c.workers[w]?).map (absPhase P.codec (studyList c.hs.db P.sid)) := by
  simp [absCfg]

/-- the abstract trial at the number of a listed trial -/
theorem trials_abs_get (P : Params) (c : Cfg) (h : RInv P c) (p : Nat × TrialS) (hp : p ∈ studyList c.hs.db P.sid) :
    (absCfg P c).trials[numOf (studyList c.hs.db P.sid) p.1]? = some (absTrial P.codec c.hs c.now p) := by
  simp only [absCfg, absTrialsL, List.getElem?_map]
  rw [getElem?_numOf _ (studyList_sorted c.hs.db h.inv.1 P.sid) p hp]
  rfl

/-! ## the stale read -/

theorem sweep_idle (P : Params) (hP : POk P) (c : Cfg) (h : RInv P c) (w : Nat) (hw : c.workers[w]? = some .idle) :
    absCfg P (sweepStep P c w) = Heartbeat.sweepStep (absParams P) (absCfg P c) w [] ∧ RInv P (sweepStep P c w) := by
  obtain ⟨ids, hst, hmem, hmap⟩ := stale_abs P hP c.hs h.inv.1 c.now
  have hrel : sweepStep P c w = c.move c.hs.db w (Phase.norm P.hasCb (.failing ids [])) (some (.read w ids)) := by
    simp only [sweepStep, hw, hst]
    rfl
  rw [hrel]
  have hphok : PhaseOk P.codec (P.cb.maxRetry.map Int.toNat) (studyList c.hs.db P.sid) (Phase.failing ids []) :=
    ⟨hmem, by intro t ht; simp at ht⟩
  constructor
  · rw [absCfg_move P c h c.hs.db w _ _ rfl (fun _ _ => rfl)]
    have hwa : (absCfg P c).workers[w]? = some .idle := by rw [workers_abs_get, hw]; rfl
    simp only [Heartbeat.sweepStep, hwa, orderBy_nil, Heartbeat.Cfg.setPhase]
    apply cfg_ext
    · rfl
    · rw [absPhase_norm]
      simp only [absPhase, List.map_nil]
      rw [hmap]; rfl
    · simp only [Option.bind_some, absEvent, Option.toList_some, List.cons_append, List.nil_append]
      rw [hmap]; rfl
  · apply h.move_same w _ _ hphok.norm
    intro ev hev
    simp only [Option.some.injEq] at hev
    subst hev
    refine ⟨?_, rfl⟩
    intro t ht
    exact hmem t ht

theorem sweep_failing_nil (P : Params) (c : Cfg) (h : RInv P c) (w : Nat) (won : List Nat)
    (hw : c.workers[w]? = some (.failing [] won)) :
    absCfg P (sweepStep P c w) = Heartbeat.sweepStep (absParams P) (absCfg P c) w [] ∧ RInv P (sweepStep P c w) := by
  have hrel : sweepStep P c w = c.move c.hs.db w (Phase.norm P.hasCb (.failing [] won)) none := by
    simp only [sweepStep, hw]; rfl
  rw [hrel]
  constructor
  · rw [absCfg_move P c h c.hs.db w _ _ rfl (fun _ _ => rfl)]
    have hwa : (absCfg P c).workers[w]? = some (.failing [] (won.map (numOf (studyList c.hs.db P.sid)))) := by
      rw [workers_abs_get, hw]; rfl
    simp only [Heartbeat.sweepStep, hwa, Heartbeat.Cfg.setPhase]
    apply cfg_ext
    · rfl
    · rw [absPhase_norm]
      simp only [absPhase, List.map_nil]
      rfl
    · rfl
  · exact h.move_same w _ none (h.phases w _ hw).norm (by intro ev hev; cases hev)

theorem sweep_calling_nil (P : Params) (c : Cfg) (h : RInv P c) (w : Nat) (hw : c.workers[w]? = some (.calling [])) :
    absCfg P (sweepStep P c w) = Heartbeat.sweepStep (absParams P) (absCfg P c) w [] ∧ RInv P (sweepStep P c w) := by
  have hrel : sweepStep P c w = c.move c.hs.db w .idle none := by
    simp only [sweepStep, hw]; rfl
  rw [hrel]
  constructor
  · rw [absCfg_move P c h c.hs.db w _ _ rfl (fun _ _ => rfl)]
    have hwa : (absCfg P c).workers[w]? = some (.calling []) := by rw [workers_abs_get, hw]; rfl
    simp only [Heartbeat.sweepStep, hwa, Heartbeat.Cfg.setPhase]
    apply cfg_ext <;> rfl
  · exact h.move_same w _ none trivial (by intro ev hev; cases hev)

theorem sweep_none (P : Params) (c : Cfg) (h : RInv P c) (w : Nat) (hw : c.workers[w]? = none) :
    absCfg P (sweepStep P c w) = Heartbeat.sweepStep (absParams P) (absCfg P c) w [] ∧ RInv P (sweepStep P c w) := by
  have hrel : sweepStep P c w = c := by simp only [sweepStep, hw]
  have hwa : (absCfg P c).workers[w]? = none := by rw [workers_abs_get, hw]; rfl
  rw [hrel]
  exact ⟨by simp only [Heartbeat.sweepStep, hwa], h⟩

theorem sweep_dead (P : Params) (c : Cfg) (h : RInv P c) (w : Nat) (hw : c.workers[w]? = some .dead) :
    absCfg P (sweepStep P c w) = Heartbeat.sweepStep (absParams P) (absCfg P c) w [] ∧ RInv P (sweepStep P c w) := by
  have hrel : sweepStep P c w = c := by simp only [sweepStep, hw]
  have hwa : (absCfg P c).workers[w]? = some .dead := by rw [workers_abs_get, hw]; rfl
  rw [hrel]
  exact ⟨by simp only [Heartbeat.sweepStep, hwa], h⟩

end OptunaVerif.RdbHb
