import OptunaVerif.Lemmas.RdbHbSweep
/-! The three storage calls of the sweep that read or write a trial: the compare-and-set to FAIL, `get_trial` + the
callback's decision, `create_new_trial` of the retry.  Core Lean only. -/
set_option linter.unusedSimpArgs false
set_option linter.unusedSectionVars false
set_option linter.unusedVariables false
namespace OptunaVerif.RdbHb
open OptunaVerif OptunaVerif.Storage OptunaVerif.Rdb
open OptunaVerif.Generated
open OptunaVerif.Heartbeat (HTrial Rec)

/-! ## lists -/

theorem map_fst_updAt (L : List (Nat × TrialS)) (n : Nat) (F : Nat × TrialS → Nat × TrialS) (hF : ∀ p, (F p).1 = p.1) :
    (updAt L n F).map (·.1) = L.map (·.1) := by
  apply List.ext_getElem?
  intro i
  rw [List.getElem?_map, updAt_getElem?, List.getElem?_map]
  split
  · cases L[i]? <;> simp [hF]
  · rfl

theorem mem_updAt {α : Type} (l : List α) (n : Nat) (f : α → α) (x : α) (h : x ∈ updAt l n f) :
    x ∈ l ∨ ∃ y, l[n]? = some y ∧ x = f y := by
  obtain ⟨i, hi⟩ := List.getElem?_of_mem h
  rw [updAt_getElem?] at hi
  split at hi
  · rename_i e
    subst e
    cases hy : l[i]? with
    | none => simp [hy] at hi
    | some y => simp [hy] at hi; exact Or.inr ⟨y, rfl, hi.symm⟩
  · exact Or.inl (List.mem_of_getElem? hi)

theorem mem_updAt_of_ne {α : Type} (l : List α) (n : Nat) (f : α → α) (x p : α) (hx : x ∈ l) (hp : l[n]? = some p) (hne : x ≠ p) :
    x ∈ updAt l n f := by
  obtain ⟨i, hi⟩ := List.getElem?_of_mem hx
  have : i ≠ n := by
    intro e; subst e; rw [hi] at hp; simp at hp; exact hne hp
  apply List.mem_of_getElem? (i := i)
  rw [updAt_getElem?]
  simp [this, hi]

theorem mem_updAt_self {α : Type} (l : List α) (n : Nat) (f : α → α) (p : α) (hp : l[n]? = some p) : f p ∈ updAt l n f := by
  apply List.mem_of_getElem? (i := n)
  rw [updAt_getElem?]
  simp [hp]

theorem distinct_sequence {κ β : Type} (l : List (κ × Option β)) (h : distinctKeys l) : distinctKeys (sequence l) := by
  unfold sequence distinctKeys at *
  induction l with
  | nil => simp
  | cons a t ih =>
    rw [List.pairwise_cons] at h
    obtain ⟨k, o⟩ := a
    cases o with
    | none => simpa [List.filterMap_cons] using ih h.2
    | some v =>
      simp only [List.filterMap_cons, Option.map_some]
      rw [List.pairwise_cons]
      refine ⟨?_, ih h.2⟩
      intro q hq
      obtain ⟨r, hr, er⟩ := List.mem_filterMap.mp hq
      have := h.1 r hr
      cases hr2 : r.2 with
      | none => simp [hr2] at er
      | some v' => simp [hr2] at er; rw [← er]; exact this

/-- the dict-valued fields of a stored trial have distinct keys -/
theorem rowView_distinct (db : Rdb.State) (h : Inv0 db) (row : TrialRow) :
    distinctKeys (db.rowView row).params ∧ distinctKeys (db.rowView row).userAttrs ∧
    distinctKeys (db.rowView row).systemAttrs ∧ distinctKeys (db.rowView row).inter := by
  refine ⟨Tbl.kv_keys_distinct id db.params db.nParam h.params row.id, Tbl.kv_keys_distinct id db.tUser db.nTUser h.tUser row.id,
    Tbl.kv_keys_distinct id db.tSys db.nTSys h.tSys row.id, ?_⟩
  show distinctKeys (db.interView row.id)
  rw [interView_eq]
  exact distinct_sequence _ (Tbl.kv_keys_distinct decI db.inters db.nInter h.inters row.id)

theorem recOf_failF (C : Codec) (t : TrialS) : recOf C (failF t) = { recOf C t with state := .fail } := rfl

/-! ## the compare-and-set -/

theorem sweep_failing_cons (P : Params) (hP : POk P) (c : Cfg) (h : RInv P c) (w t : Nat) (todo won : List Nat)
    (hw : c.workers[w]? = some (.failing (t :: todo) won)) :
    absCfg P (sweepStep P c w) = Heartbeat.sweepStep (absParams P) (absCfg P c) w [] ∧ RInv P (sweepStep P c w) := by
  have hph := h.phases w _ hw
  obtain ⟨a, ha, hlive⟩ := h.abs
  have hL := studyList_abs c.hs.db a ha P.sid hlive
  have hsorted := studyList_sorted c.hs.db ha.inv.1 P.sid
  obtain ⟨p, hp, hpt⟩ := List.mem_map.mp (hph.1 t (by simp))
  have hpa : a.trial? t = some p.2 ∧ p.2.study = P.sid := by
    have : (t, p.2) ∈ a.trialsOf P.sid := by rw [← hL, ← hpt]; exact hp
    exact (mem_trialsOf a P.sid hlive t p.2).mp this
  have hidx : (studyList c.hs.db P.sid)[numOf (studyList c.hs.db P.sid) t]? = some p := by
    rw [← hpt]; exact getElem?_numOf _ hsorted p hp
  have hwa : (absCfg P c).workers[w]? = some (.failing (numOf (studyList c.hs.db P.sid) t :: todo.map (numOf (studyList c.hs.db P.sid)))
      (won.map (numOf (studyList c.hs.db P.sid)))) := by
    rw [workers_abs_get, hw]; rfl
  have hta : (absCfg P c).trials[numOf (studyList c.hs.db P.sid) t]? = some (absTrial P.codec c.hs c.now p) := by
    rw [← hpt]; exact trials_abs_get P c h p hp
  by_cases hfin : p.2.state.isFinished = true
  · -- somebody was faster: UpdateFinishedTrialError, swallowed
    have hres := cas_finished c.hs.db a ha t p.2 hpa.1 hfin
    have hrel : sweepStep P c w = c.move c.hs.db w (Phase.norm P.hasCb (.failing todo won)) (some (.lost w t)) := by
      simp only [sweepStep, hw, StaleGen.failState]
      rw [show Rdb.step c.hs.db (.setTrialStateValues t .fail none) = ((Rdb.step c.hs.db (.setTrialStateValues t .fail none)).1, .out (.err .updateFinished)) from Prod.ext rfl hres]
      simp only [StaleGen.onUpdateFinished]
      rfl
    rw [hrel]
    constructor
    · rw [absCfg_move P c h c.hs.db w _ _ rfl (fun _ _ => rfl)]
      have hx : (absTrial P.codec c.hs c.now p).core.state.isFinished = true := hfin
      simp only [Heartbeat.sweepStep, hwa, hta, hx, if_true, Heartbeat.Cfg.setPhase]
      apply cfg_ext
      · rfl
      · rw [absPhase_norm]; rfl
      · rfl
    · apply h.move_same w _ _ (PhaseOk.norm (ph := .failing todo won) ⟨fun x hx => hph.1 x (List.mem_cons_of_mem _ hx), hph.2⟩)
      intro ev hev
      simp only [Option.some.injEq] at hev
      subst hev
      exact ⟨by intro x hx; simp [Event.ids] at hx; rw [hx]; exact hph.1 t (by simp), rfl⟩
  · -- this worker wins
    have hfin' : p.2.state.isFinished = false := by simpa using hfin
    obtain ⟨hres, habs'⟩ := cas_unfinished c.hs.db a ha t p.2 hpa.1 hfin'
    generalize hdb : (Rdb.step c.hs.db (.setTrialStateValues t .fail none)).1 = db' at habs'
    have hrel : sweepStep P c w = c.move db' w (Phase.norm P.hasCb (.failing todo (won ++ [t]))) (some (.won w t)) := by
      simp only [sweepStep, hw, StaleGen.failState]
      rw [show Rdb.step c.hs.db (.setTrialStateValues t .fail none) = (db', .out (.bool true)) from Prod.ext hdb hres]
      simp only [StaleGen.appendOnTrue, if_true]
      rfl
    have hbeats : db'.beats = c.hs.db.beats := by
      rw [← hdb]; exact (beats_step c.hs.db _ ha.inv (by intro sid; simp)).beats
    have hlive' : ((a.updTrial t failF).study? P.sid).isSome = true := by rw [updTrial_study?]; exact hlive
    have hL' : studyList db' P.sid = updAt (studyList c.hs.db P.sid) (numOf (studyList c.hs.db P.sid) t) (fun q => (q.1, failF q.2)) := by
      rw [studyList_abs db' _ habs' P.sid hlive', trialsOf_updTrial a t failF (fun _ => rfl) P.sid, ← hL,
        map_if_eq_updAt _ hsorted t (fun q => (q.1, failF q.2))]
      rw [if_pos (hph.1 t (by simp))]
    have hids : (studyList db' P.sid).map (·.1) = (studyList c.hs.db P.sid).map (·.1) := by
      rw [hL']; exact map_fst_updAt _ _ _ (fun _ => rfl)
    have hnum : ∀ x, numOf (studyList db' P.sid) x = numOf (studyList c.hs.db P.sid) x := fun x => numOf_congr _ _ x hids
    have hnT : db'.nTrial = c.hs.db.nTrial := by
      rw [← habs'.nTrials, ← ha.nTrials]; simp [Spec.updTrial]
    rw [hrel]
    have hev : Evolves (studyList c.hs.db P.sid) (studyList db' P.sid) := by
      refine ⟨fun x hx => by rw [hids]; exact hx, ?_⟩
      intro q hq hqf
      rw [hL']
      apply mem_updAt_of_ne _ _ _ q p hq hidx
      intro e; rw [e] at hqf; exact hfin hqf
    have hwinner : FinishedIn (studyList db' P.sid) t := by
      refine ⟨(p.1, failF p.2), ?_, hpt, rfl⟩
      rw [hL']
      exact mem_updAt_self _ _ (fun q => (q.1, failF q.2)) p hidx
    constructor
    · rw [absCfg_move P c h db' w _ _ hbeats (fun x _ => hnum x)]
      have hx : (absTrial P.codec c.hs c.now p).core.state.isFinished = false := hfin'
      simp only [Heartbeat.sweepStep, hwa, hta, hx]
      apply cfg_ext
      · simp only [Bool.false_eq_true, if_false]
        show absTrialsL P.codec c.hs c.now (studyList db' P.sid) = updAt (absCfg P c).trials _ _
        rw [hL']
        simp only [absCfg, absTrialsL]
        apply map_updAt
        intro x _
        rfl
      · simp only [Bool.false_eq_true, if_false]
        congr 1
        funext _
        rw [absPhase_congr P.codec (studyList c.hs.db P.sid) (studyList db' P.sid) _ (fun x _ => hnum x), absPhase_norm]
        simp only [absPhase, List.map_append, List.map_cons, List.map_nil]
        rfl
      · simp only [Bool.false_eq_true, if_false, Option.bind_some, absEvent, hnum]
        rfl
    · refine ⟨⟨_, habs', hlive'⟩, ?_, h.past, ?_, ?_, ?_, ?_⟩
      · intro b hb
        have : b ∈ c.hs.db.beats := by rw [← hbeats]; exact hb
        exact h.stamped b this
      · intro q hq
        show WfSys P.codec q.2.systemAttrs
        have hq' : q ∈ studyList db' P.sid := hq
        rw [hL'] at hq'
        rcases mem_updAt _ _ _ q hq' with hq' | ⟨y, hy, e⟩
        · exact h.wf q hq'
        · rw [e]; exact h.wf y (List.mem_of_getElem? hy)
      · intro w' ph' hw'
        simp only [Cfg.move, updAt_getElem?] at hw'
        split at hw'
        · cases hg : c.workers[w']? with
          | none => simp [hg] at hw'
          | some x =>
            simp [hg] at hw'; subst hw'
            apply PhaseOk.norm (ph := .failing todo (won ++ [t]))
            refine ⟨fun x hx => hev.ids x (hph.1 x (List.mem_cons_of_mem _ hx)), ?_⟩
            intro x hx
            rcases List.mem_append.mp hx with hx | hx
            · exact (hph.2 x hx).evolve hev
            · simp at hx; rw [hx]; exact hwinner
        · exact (h.phases w' ph' hw').evolve hev
      · intro ev hm t' ht'
        show t' ∈ (studyList db' P.sid).map (·.1)
        rw [hids]
        simp only [Cfg.move, Option.toList_some, List.mem_append, List.mem_singleton] at hm
        rcases hm with hm | hm
        · subst hm; simp [Event.ids] at ht'; rw [ht']
          exact hph.1 t (by simp)
        · exact h.evIn ev hm t' ht'
      · intro ev hm
        simp only [Cfg.move, Option.toList_some, List.mem_append, List.mem_singleton] at hm
        rcases hm with hm | hm
        · subst hm; rfl
        · exact h.noRaise ev hm

end OptunaVerif.RdbHb
