import OptunaVerif.Lemmas.RdbHbSweep2
/-! `get_trial` + the callback's decision, `create_new_trial` of the retry, and the assembled one-step
simulation of the sweep.  Core Lean only. -/
set_option linter.unusedSimpArgs false
set_option linter.unusedSectionVars false
set_option linter.unusedVariables false
namespace OptunaVerif.RdbHb
open OptunaVerif OptunaVerif.Storage OptunaVerif.Rdb
open OptunaVerif.Generated
open OptunaVerif.Heartbeat (HTrial Rec)

/-! ## `get_trial` and the callback up to `add_trial` -/

theorem sweep_calling_cons (P : Params) (hP : POk P) (c : Cfg) (h : RInv P c) (w t : Nat) (todo : List Nat)
    (hw : c.workers[w]? = some (.calling (t :: todo))) :
    absCfg P (sweepStep P c w) = Heartbeat.sweepStep (absParams P) (absCfg P c) w [] ∧ RInv P (sweepStep P c w) := by
  have hph := h.phases w _ hw
  obtain ⟨p, hp, hpt, hpf⟩ := hph t (by simp)
  have hinv := h.inv
  have hget : getTrial c.hs.db t = .ok (t, p.2) := by rw [← hpt]; exact getTrial_of_mem c.hs.db hinv.1 P.sid p hp
  have hwf := h.wf p hp
  have hwa : (absCfg P c).workers[w]? = some (.calling (numOf (studyList c.hs.db P.sid) t :: todo.map (numOf (studyList c.hs.db P.sid)))) := by
    rw [workers_abs_get, hw]; rfl
  have hta : (absCfg P c).trials[numOf (studyList c.hs.db P.sid) t]? = some (absTrial P.codec c.hs c.now p) := by
    rw [← hpt]; exact trials_abs_get P c h p hp
  have htodo : ∀ x ∈ todo, FinishedIn (studyList c.hs.db P.sid) x := fun x hx => hph x (List.mem_cons_of_mem _ hx)
  have hlt : t < c.hs.db.nTrial := studyList_lt c.hs.db hinv.1 P.sid t (List.mem_map.mpr ⟨p, hp, hpt⟩)
  by_cases hex : Heartbeat.exceeds (P.cb.maxRetry.map Int.toNat) (recOf P.codec p.2) = true
  · have hrel : sweepStep P c w = c.move c.hs.db w (Phase.norm P.hasCb (.calling todo)) (some (.callback w t false)) := by
      simp only [sweepStep, hw, hget, retryTemplate_eq P.codec hP.lawful P.cb p.2 hwf, hex, if_true]
      rfl
    rw [hrel]
    constructor
    · rw [absCfg_move P c h c.hs.db w _ _ rfl (fun _ _ => rfl)]
      have hx : Heartbeat.exceeds (absParams P).maxRetry (absTrial P.codec c.hs c.now p).core = true := hex
      simp only [Heartbeat.sweepStep, hwa, hta, hx, if_true, Heartbeat.Cfg.setPhase]
      apply cfg_ext
      · rfl
      · rw [absPhase_norm]; rfl
      · rfl
    · apply h.move_same w _ _ (PhaseOk.norm (ph := .calling todo) htodo)
      intro ev hev
      simp only [Option.some.injEq] at hev
      subst hev
      exact ⟨by intro x hx; simp [Event.ids] at hx; rw [hx]; exact List.mem_map.mpr ⟨p, hp, hpt⟩, rfl⟩
  · have hex' : Heartbeat.exceeds (P.cb.maxRetry.map Int.toNat) (recOf P.codec p.2) = false := by simpa using hex
    have hrel : sweepStep P c w = c.move c.hs.db w (.enqueue t p.2 todo) (some (.callback w t true)) := by
      simp only [sweepStep, hw, hget, retryTemplate_eq P.codec hP.lawful P.cb p.2 hwf, hex', Bool.false_eq_true, if_false]
      rfl
    rw [hrel]
    constructor
    · rw [absCfg_move P c h c.hs.db w _ _ rfl (fun _ _ => rfl)]
      have hx : Heartbeat.exceeds (absParams P).maxRetry (absTrial P.codec c.hs c.now p).core = false := hex'
      simp only [Heartbeat.sweepStep, hwa, hta, hx, Bool.false_eq_true, if_false, Heartbeat.Cfg.setPhase]
      apply cfg_ext <;> rfl
    · apply h.move_same w _ _ (show PhaseOk _ _ _ (.enqueue t p.2 todo) from ⟨by rw [← hpt]; exact hp, hpf, hex', htodo⟩)
      intro ev hev
      simp only [Option.some.injEq] at hev
      subst hev
      exact ⟨by intro x hx; simp [Event.ids] at hx; rw [hx]; exact List.mem_map.mpr ⟨p, hp, hpt⟩, rfl⟩

/-! ## `create_new_trial` of the retry -/

theorem retryTmpl_wf (C : Codec) (cb : CbCfg) (db : Rdb.State) (hinv : Inv0 db) (sid : Nat) (p : Nat × TrialS)
    (hp : p ∈ studyList db sid) (hw : WfSys C p.2.systemAttrs) (sid' : Nat) :
    WfOp (.createTrial sid' (some (retryTmpl C cb p.2)) false) := by
  obtain ⟨row, _, _, ep⟩ := (mem_studyList db sid p).mp hp
  have hd := rowView_distinct db hinv row
  have e2 : p.2 = db.rowView row := by rw [ep]
  refine ⟨?_, ?_, ?_, ?_, trivial⟩
  · simp only [retryTmpl, e2]; exact hd.1
  · simp only [retryTmpl, e2]; exact hd.2.1
  · exact (retrySys_wf C p.2 hw).keys
  · simp only [retryTmpl]
    split
    · rw [e2]; exact hd.2.2.2
    · exact List.Pairwise.nil

theorem sweep_enqueue (P : Params) (hP : POk P) (c : Cfg) (h : RInv P c) (w t : Nat) (snap : TrialS) (todo : List Nat)
    (hw : c.workers[w]? = some (.enqueue t snap todo)) :
    absCfg P (sweepStep P c w) = Heartbeat.sweepStep (absParams P) (absCfg P c) w [] ∧ RInv P (sweepStep P c w) := by
  obtain ⟨hmem, hsf, hex, htodo⟩ := h.phases w _ hw
  obtain ⟨a, ha, hlive⟩ := h.abs
  have hinv := ha.inv
  have hL := studyList_abs c.hs.db a ha P.sid hlive
  have hwf := h.wf (t, snap) hmem
  obtain ⟨st, hst⟩ := Option.isSome_iff_exists.mp hlive
  have htmpl : retryTemplate P.codec P.cb snap = .enqueue (retryTmpl P.codec P.cb snap) := by
    rw [retryTemplate_eq P.codec hP.lawful P.cb snap hwf, hex]; rfl
  have hwfop := retryTmpl_wf P.codec P.cb c.hs.db hinv.1 P.sid (t, snap) hmem hwf P.sid
  have hnc := no_conflict c.hs.db a ha P.sid st hst (t, snap) hmem (retryTmpl P.codec P.cb snap) rfl
  obtain ⟨hres, habs'⟩ := create_ok c.hs.db a ha P.sid st hst (retryTmpl P.codec P.cb snap) hwfop hnc
  generalize hdb : (Rdb.step c.hs.db (.createTrial P.sid (some (retryTmpl P.codec P.cb snap)) false)).1 = db' at habs'
  have hN : a.trials.length = c.hs.db.nTrial := ha.nTrials
  have hrel : sweepStep P c w =
      c.move db' w (Phase.norm P.hasCb (.calling todo)) (some (.enqueued w t c.hs.db.nTrial (retryTmpl P.codec P.cb snap))) := by
    simp only [sweepStep, hw, htmpl]
    rw [show Rdb.step c.hs.db (.createTrial P.sid (some (retryTmpl P.codec P.cb snap)) false) = (db', .out (.newId c.hs.db.nTrial)) from
      Prod.ext hdb (by rw [hres, hN])]
    rfl
  have hbeats : db'.beats = c.hs.db.beats := by
    rw [← hdb]; exact (beats_step c.hs.db _ hinv (by intro sid; simp)).beats
  have hlive' : (({ a with trials := a.trials ++ [mkTrial P.sid (a.trialsOf P.sid).length (some (retryTmpl P.codec P.cb snap))] } : Spec).study? P.sid).isSome = true := hlive
  have hL' : studyList db' P.sid = studyList c.hs.db P.sid ++
      [(c.hs.db.nTrial, mkTrial P.sid (studyList c.hs.db P.sid).length (some (retryTmpl P.codec P.cb snap)))] := by
    rw [studyList_abs db' _ habs' P.sid hlive', trialsOf_appendTrial, ← hL, hN]
    simp [mkTrial]
  have hbelow : ∀ q ∈ studyList c.hs.db P.sid, q.1 < c.hs.db.nTrial :=
    fun q hq => studyList_lt c.hs.db hinv.1 P.sid q.1 (List.mem_map.mpr ⟨q, hq, rfl⟩)
  have hnum : ∀ x, x < c.hs.db.nTrial → numOf (studyList db' P.sid) x = numOf (studyList c.hs.db P.sid) x := by
    intro x hx; rw [hL']; exact numOf_append _ _ x (by simp only; omega)
  have hnumN : numOf (studyList db' P.sid) c.hs.db.nTrial = (studyList c.hs.db P.sid).length := by
    rw [hL', numOf_append _ _ _ (Nat.le_refl _)]; exact numOf_ge_length _ _ hbelow
  have hnT : db'.nTrial = c.hs.db.nTrial + 1 := by
    rw [← habs'.nTrials, ← hN]; simp
  have hlt : t < c.hs.db.nTrial := hbelow (t, snap) hmem
  have hnumber : snap.number = numOf (studyList c.hs.db P.sid) t := number_eq_numOf c.hs.db hinv P.sid (t, snap) hmem
  have hev : Evolves (studyList c.hs.db P.sid) (studyList db' P.sid) := by
    rw [hL']
    exact ⟨fun x hx => by rw [List.map_append]; exact List.mem_append_left _ hx, fun q hq _ => List.mem_append_left _ hq⟩
  have hwa : (absCfg P c).workers[w]? = some (.enqueue (numOf (studyList c.hs.db P.sid) t) (recOf P.codec snap) (todo.map (numOf (studyList c.hs.db P.sid)))) := by
    rw [workers_abs_get, hw]; rfl
  have hage : ageOf c.hs c.now c.hs.db.nTrial = none := by
    apply ageOf_none
    intro b hb e
    have := hinv.1.beatsFk b hb
    rw [e] at this
    obtain ⟨row, hr, er⟩ := List.mem_map.mp this
    have := hinv.1.trialsBelow row hr
    omega
  rw [hrel]
  constructor
  · rw [absCfg_move P c h db' w _ _ hbeats hnum]
    simp only [Heartbeat.sweepStep, hwa]
    apply cfg_ext
    · show absTrialsL P.codec c.hs c.now (studyList db' P.sid) = (absCfg P c).trials ++ _
      rw [hL']
      simp only [absCfg, absTrialsL, List.map_append, List.map_cons, List.map_nil, absTrial, hage]
      rw [recOf_retry P.codec hP.lawful P.cb snap hwf, hnumber]
    · show updAt (absCfg P c).workers w (fun _ => absPhase P.codec (studyList db' P.sid) (Phase.norm P.hasCb (.calling todo))) =
        updAt (absCfg P c).workers w _
      congr 1
      funext _
      have hphn : PhaseOk P.codec (P.cb.maxRetry.map Int.toNat) (studyList c.hs.db P.sid) (Phase.norm P.hasCb (.calling todo)) :=
        PhaseOk.norm (ph := .calling todo) htodo
      rw [absPhase_congr P.codec (studyList c.hs.db P.sid) (studyList db' P.sid) _
        (fun x hx => hnum x (studyList_lt c.hs.db hinv.1 P.sid x (Phase.ids_mem hphn x hx))),
        absPhase_norm]
      rfl
    · simp only [Option.bind_some, absEvent, Option.toList_some, List.cons_append, List.nil_append, hnum t hlt, hnumN]
      rw [recOf_retry P.codec hP.lawful P.cb snap hwf 0 0, hnumber]
      simp [absCfg, absTrialsL]
  · refine ⟨⟨_, habs', hlive'⟩, ?_, h.past, ?_, ?_, ?_, ?_⟩
    · intro b hb
      have : b ∈ c.hs.db.beats := by rw [← hbeats]; exact hb
      exact h.stamped b this
    · intro q hq
      have hq' : q ∈ studyList db' P.sid := hq
      rw [hL'] at hq'
      rcases List.mem_append.mp hq' with hq' | hq'
      · exact h.wf q hq'
      · simp only [List.mem_singleton] at hq'
        rw [hq']
        exact retrySys_wf P.codec snap hwf
    · intro w' ph' hw'
      simp only [Cfg.move, updAt_getElem?] at hw'
      split at hw'
      · cases hg : c.workers[w']? with
        | none => simp [hg] at hw'
        | some x =>
          simp [hg] at hw'; subst hw'
          exact PhaseOk.norm (ph := .calling todo) (fun x hx => (htodo x hx).evolve hev)
      · exact (h.phases w' ph' hw').evolve hev
    · intro ev hm t' ht'
      show t' ∈ (studyList db' P.sid).map (·.1)
      rw [hL', List.map_append]
      simp only [Cfg.move, Option.toList_some, List.mem_append, List.mem_singleton] at hm
      rcases hm with hm | hm
      · subst hm
        simp only [Event.ids, List.mem_cons, List.mem_singleton, List.not_mem_nil, or_false] at ht'
        rcases ht' with e | e
        · rw [e]; exact List.mem_append_left _ (List.mem_map.mpr ⟨(t, snap), hmem, rfl⟩)
        · rw [e]; exact List.mem_append_right _ (by simp)
      · exact List.mem_append_left _ (h.evIn ev hm t' ht')
    · intro ev hm
      simp only [Cfg.move, Option.toList_some, List.mem_append, List.mem_singleton] at hm
      rcases hm with hm | hm
      · subst hm; rfl
      · exact h.noRaise ev hm

/-! ## one storage call of the sweep -/

/-- **One storage call of `fail_stale_trials` on the relational model is one step of the abstract sweep** on the
abstraction (with the stale ids in table order), and the invariant is kept. -/
theorem sweep_sim (P : Params) (hP : POk P) (c : Cfg) (h : RInv P c) (w : Nat) :
    absCfg P (sweepStep P c w) = Heartbeat.sweepStep (absParams P) (absCfg P c) w [] ∧ RInv P (sweepStep P c w) := by
  cases hw : c.workers[w]? with
  | none => exact sweep_none P c h w hw
  | some ph =>
    cases ph with
    | idle => exact sweep_idle P hP c h w hw
    | dead => exact sweep_dead P c h w hw
    | failing todo won =>
      cases todo with
      | nil => exact sweep_failing_nil P c h w won hw
      | cons t todo => exact sweep_failing_cons P hP c h w t todo won hw
    | calling todo =>
      cases todo with
      | nil => exact sweep_calling_nil P c h w hw
      | cons t todo => exact sweep_calling_cons P hP c h w t todo hw
    | enqueue t snap todo => exact sweep_enqueue P hP c h w t snap todo hw

end OptunaVerif.RdbHb
