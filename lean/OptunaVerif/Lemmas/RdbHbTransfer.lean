import OptunaVerif.Lemmas.RdbHbRun
/-! From the abstract sweep model back to the relational one: membership and counts in the event log, trials by
number.  Core Lean only. -/
set_option linter.unusedSimpArgs false
set_option linter.unusedSectionVars false
set_option linter.unusedVariables false
namespace OptunaVerif.RdbHb
open OptunaVerif OptunaVerif.Storage OptunaVerif.Rdb
open OptunaVerif.Generated
open OptunaVerif.Heartbeat (HTrial Rec)

theorem mem_abs_events (P : Params) (c : Cfg) (e : Event) (e' : Heartbeat.Event) (he : e ∈ c.events)
    (ha : absEvent P.codec (studyList c.hs.db P.sid) e = some e') : e' ∈ (absCfg P c).events :=
  List.mem_filterMap.mpr ⟨e, he, ha⟩

/-- the abstract trial with the number of a listed trial is that trial's abstraction -/
theorem abs_trial_of_listed (P : Params) (c : Cfg) (h : RInv P c) (t : Nat) (ht : t ∈ (studyList c.hs.db P.sid).map (·.1))
    (x : HTrial) (hx : (absCfg P c).trials[numOf (studyList c.hs.db P.sid) t]? = some x) :
    ∃ p ∈ studyList c.hs.db P.sid, p.1 = t ∧ x = absTrial P.codec c.hs c.now p := by
  obtain ⟨p, hp, hpt⟩ := List.mem_map.mp ht
  have := trials_abs_get P c h p hp
  rw [hpt, hx] at this
  simp only [Option.some.injEq] at this
  exact ⟨p, hp, hpt, this⟩

/-- counting the events of one kind about trial `t`: at most what the abstract log has for the trial's number -/
theorem count_le_abs (P : Params) (c : Cfg) (h : RInv P c) (t : Nat) (p : Event → Bool) (q : Nat → Heartbeat.Event → Bool)
    (hp_ids : ∀ e, p e = true → t ∈ e.ids)
    (hpq : ∀ L : List (Nat × TrialS), Sorted L → t ∈ L.map (·.1) → ∀ e, (∀ x ∈ e.ids, x ∈ L.map (·.1)) →
      p e = match absEvent P.codec L e with | some e' => q (numOf L t) e' | none => false)
    (bound : Nat) (hb : ∀ n, Heartbeat.cnt (q n) (absCfg P c).events ≤ bound) :
    c.events.countP p ≤ bound := by
  by_cases ht : t ∈ (studyList c.hs.db P.sid).map (·.1)
  · have hs := studyList_sorted c.hs.db h.inv.1 P.sid
    rw [count_transfer P.codec (studyList c.hs.db P.sid) hs c.events h.evIn t ht p (q (numOf (studyList c.hs.db P.sid) t))
      (fun e _ hin => hpq _ hs ht e hin)]
    exact hb _
  · have : c.events.countP p = 0 := by
      rw [List.countP_eq_zero]
      intro e he hpe
      exact ht (h.evIn e he t (hp_ids e hpe))
    omega

theorem beq_numOf (L : List (Nat × TrialS)) (hs : Sorted L) (t t' : Nat) (ht : t ∈ L.map (·.1)) (ht' : t' ∈ L.map (·.1)) :
    (numOf L t' == numOf L t) = (t' == t) := by
  by_cases e : t' = t
  · subst e; rw [beq_self_eq_true, beq_self_eq_true]
  · have : numOf L t' ≠ numOf L t := fun e' => e (numOf_inj L hs t' t ht' ht e')
    rw [beq_eq_false_iff_ne.mpr this, beq_eq_false_iff_ne.mpr e]

theorem won_count (P : Params) (c : Cfg) (h : RInv P c) (t : Nat) (bound : Nat)
    (hb : ∀ n, Heartbeat.cnt (Heartbeat.Event.isWon n) (absCfg P c).events ≤ bound) : c.events.countP (Event.isWon t) ≤ bound := by
  apply count_le_abs P c h t _ (fun n => Heartbeat.Event.isWon n) _ _ bound hb
  · intro e he; cases e <;> simp [Event.isWon, Event.ids] at he ⊢; exact he.symm
  · intro L hs ht e hin
    cases e with
    | won w t' =>
      simp only [Event.isWon, absEvent, Heartbeat.Event.isWon]
      exact (beq_numOf L hs t t' ht (hin t' (by simp [Event.ids]))).symm
    | _ => simp [Event.isWon, absEvent, Heartbeat.Event.isWon]

theorem cb_count (P : Params) (c : Cfg) (h : RInv P c) (t : Nat) (bound : Nat)
    (hb : ∀ n, Heartbeat.cnt (Heartbeat.Event.isCb n) (absCfg P c).events ≤ bound) : c.events.countP (Event.isCb t) ≤ bound := by
  apply count_le_abs P c h t _ (fun n => Heartbeat.Event.isCb n) _ _ bound hb
  · intro e he; cases e <;> simp [Event.isCb, Event.ids] at he ⊢; exact he.symm
  · intro L hs ht e hin
    cases e with
    | callback w t' b =>
      simp only [Event.isCb, absEvent, Heartbeat.Event.isCb]
      exact (beq_numOf L hs t t' ht (hin t' (by simp [Event.ids]))).symm
    | _ => simp [Event.isCb, absEvent, Heartbeat.Event.isCb]

theorem enq_count (P : Params) (c : Cfg) (h : RInv P c) (t : Nat) (bound : Nat)
    (hb : ∀ n, Heartbeat.cnt (Heartbeat.Event.isEnq n) (absCfg P c).events ≤ bound) : c.events.countP (Event.isEnq t) ≤ bound := by
  apply count_le_abs P c h t _ (fun n => Heartbeat.Event.isEnq n) _ _ bound hb
  · intro e he; cases e <;> simp [Event.isEnq, Event.ids] at he ⊢; exact Or.inl he.symm
  · intro L hs ht e hin
    cases e with
    | enqueued w t' k tmpl =>
      simp only [Event.isEnq, absEvent, Heartbeat.Event.isEnq]
      exact (beq_numOf L hs t t' ht (hin t' (by simp [Event.ids]))).symm
    | _ => simp [Event.isEnq, absEvent, Heartbeat.Event.isEnq]

end OptunaVerif.RdbHb
