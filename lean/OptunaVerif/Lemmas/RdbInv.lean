import OptunaVerif.Lemmas.RdbTables
/-! The invariant of the tables of the relational model and its preservation by every storage call
(`Model/RdbLogic.lean`), for all histories. Core Lean only. -/
set_option linter.unusedSimpArgs false
set_option linter.unusedSectionVars false
set_option linter.unusedVariables false
namespace OptunaVerif.Rdb
open OptunaVerif OptunaVerif.Storage

/-- FOREIGN KEY: every row's owner is the id of a parent row -/
def Fk {κ ν : Type} (parents : List Nat) (t : List (KRow κ ν)) : Prop := ∀ r ∈ t, r.owner ∈ parents

def State.studyIds (s : State) : List Nat := s.studies.map (·.id)
def State.trialIds (s : State) : List Nat := s.trials.map (·.id)

/-- Everything except the density of trial numbers (which does not hold between the INSERT and the
UPDATE of `_get_prepared_new_trial`). -/
structure Inv0 (s : State) : Prop where
  studiesSorted : s.studies.Pairwise (fun a b => a.id < b.id)
  studiesBelow : ∀ r ∈ s.studies, r.id < s.nStudy
  namesUniq : s.studies.Pairwise (fun a b => a.name ≠ b.name)
  trialsSorted : s.trials.Pairwise (fun a b => a.id < b.id)
  trialsBelow : ∀ r ∈ s.trials, r.id < s.nTrial
  trialsFk : ∀ r ∈ s.trials, r.study ∈ s.studyIds
  dirs : TblInv s.dirs s.nDir
  sUser : TblInv s.sUser s.nSUser
  sSys : TblInv s.sSys s.nSSys
  params : TblInv s.params s.nParam
  values : TblInv s.values s.nValue
  inters : TblInv s.inters s.nInter
  tUser : TblInv s.tUser s.nTUser
  tSys : TblInv s.tSys s.nTSys
  beats : TblInv s.beats s.nBeat
  dirsFk : Fk s.studyIds s.dirs
  sUserFk : Fk s.studyIds s.sUser
  sSysFk : Fk s.studyIds s.sSys
  paramsFk : Fk s.trialIds s.params
  valuesFk : Fk s.trialIds s.values
  intersFk : Fk s.trialIds s.inters
  tUserFk : Fk s.trialIds s.tUser
  tSysFk : Fk s.trialIds s.tSys
  beatsFk : Fk s.trialIds s.beats
  /-- the objectives of a trial's value rows are 0,1,2,… in table order -/
  objectives : ∀ tid, (Tbl.ofOwner s.values tid).map (·.key) = List.range (Tbl.ofOwner s.values tid).length
  /-- every stored objective value is the encoding of a float -/
  valuesEnc : ∀ r ∈ s.values, ∃ v, r.val = encV v
  intersDec : ∀ r ∈ s.inters, (decI r.val).isSome = true

/-- per study, the numbers of its trials in id order are 0,1,2,… -/
def Numbers (s : State) : Prop :=
  ∀ sid, (s.trials.filter (fun r => r.study == sid)).map (·.number) =
    List.range (s.trials.filter (fun r => r.study == sid)).length

def Inv (s : State) : Prop := Inv0 s ∧ Numbers s

theorem inv0_init : Inv0 init := by
  refine ⟨?_, ?_, ?_, ?_, ?_, ?_, ?_, ?_, ?_, ?_, ?_, ?_, ?_, ?_, ?_, ?_, ?_, ?_, ?_, ?_, ?_, ?_, ?_, ?_, ?_, ?_, ?_⟩
  all_goals first
    | exact List.Pairwise.nil
    | exact Tbl.tblInv_nil _
    | (intro r hr; simp [init] at hr)
    | (intro tid; simp [init, Tbl.ofOwner])

theorem inv_init : Inv init := ⟨inv0_init, by intro sid; simp [init]⟩

/-! ## lookups under the invariant -/

theorem findStudy_eq (s : State) (h : Inv0 s) (sid : Nat) :
    findStudy s sid = match s.studies.find? (fun r => r.id == sid) with
      | none => .error (.api .keyError)
      | some r => .ok r := by
  unfold findStudy
  rw [oneOrNone_filter _ _ (pairwise_unique_of_lt (·.id) s.studies h.studiesSorted sid)]
  cases s.studies.find? (fun r => r.id == sid) <;> rfl

theorem findTrial_eq (s : State) (h : Inv0 s) (tid : Nat) :
    findTrial s tid = match s.trials.find? (fun r => r.id == tid) with
      | none => .error (.api .keyError)
      | some r => .ok r := by
  unfold findTrial
  rw [oneOrNone_filter _ _ (pairwise_unique_of_lt (·.id) s.trials h.trialsSorted tid)]
  cases s.trials.find? (fun r => r.id == tid) <;> rfl

theorem updatableTrial_ok (s : State) (h : Inv0 s) (tid : Nat) (r : TrialRow)
    (hu : updatableTrial s tid = .ok r) :
    s.trials.find? (fun x => x.id == tid) = some r ∧ r.state.isFinished = false ∧ r ∈ s.trials ∧ r.id = tid := by
  unfold updatableTrial at hu
  rw [findTrial_eq s h] at hu
  cases hf : s.trials.find? (fun x => x.id == tid) with
  | none => simp [hf] at hu
  | some r' =>
    simp only [hf] at hu
    split at hu
    · simp at hu
    · rename_i hfin
      simp only [Except.ok.injEq] at hu
      subst hu
      have := List.find?_some hf
      exact ⟨rfl, by simpa using hfin, List.mem_of_find?_eq_some hf, by simpa using this⟩


theorem mem_trialIds_of_updatable (s : State) (h : Inv0 s) (tid : Nat) (r : TrialRow)
    (hu : updatableTrial s tid = .ok r) : tid ∈ s.trialIds := by
  obtain ⟨_, _, hm, hid⟩ := updatableTrial_ok s h tid r hu
  exact List.mem_map.mpr ⟨r, hm, hid⟩

theorem fk_upsertConflict {κ ν : Type} [DecidableEq κ] (parents : List Nat) (t : List (KRow κ ν)) (n o : Nat)
    (k : κ) (v : ν) (h : Fk parents t) (ho : o ∈ parents) : Fk parents (Tbl.upsertConflict t n o k v).1 := by
  intro r hr
  rcases Tbl.owner_upsertConflict t n o k v r hr with e | ⟨r0, hr0, e⟩
  · rw [e]; exact ho
  · rw [← e]; exact h r0 hr0

/-- a property of the value columns survives an upsert of a value that has it -/
theorem vals_upsertConflict {κ ν : Type} [DecidableEq κ] (P : ν → Prop) (t : List (KRow κ ν)) (n o : Nat)
    (k : κ) (v : ν) (h : ∀ r ∈ t, P r.val) (hv : P v) : ∀ r ∈ (Tbl.upsertConflict t n o k v).1, P r.val := by
  unfold Tbl.upsertConflict
  split
  · intro r hr
    rcases List.mem_append.mp hr with hr | hr
    · exact h r hr
    · simp only [List.mem_singleton] at hr; subst hr; exact hv
  · intro r hr
    obtain ⟨r0, hr0, e⟩ := List.mem_map.mp hr
    rw [← e]
    split
    · exact hv
    · exact h r0 hr0

/-! ## the `_without_commit` setters: what they do when they succeed -/

theorem setTAttrNC_ok (sys : Bool) (s : State) (tid : Nat) (k v : String) (s' : State)
    (hs : setTAttrNC sys s tid k v = .ok s') :
    (∃ r, updatableTrial s tid = .ok r) ∧
    s' = if sys then { s with tSys := (Tbl.upsertConflict s.tSys s.nTSys tid k v).1,
                              nTSys := (Tbl.upsertConflict s.tSys s.nTSys tid k v).2 }
         else { s with tUser := (Tbl.upsertConflict s.tUser s.nTUser tid k v).1,
                       nTUser := (Tbl.upsertConflict s.tUser s.nTUser tid k v).2 } := by
  unfold setTAttrNC at hs
  cases hu : updatableTrial s tid with
  | error f => simp [hu] at hs
  | ok r =>
    simp only [hu] at hs
    refine ⟨⟨r, rfl⟩, ?_⟩
    cases sys <;> simp at hs ⊢ <;> exact hs.symm

theorem setInterNC_ok (s : State) (h : Inv0 s) (tid : Nat) (step : Int) (v : XVal) (s' : State)
    (hs : setInterNC s tid step v = .ok s') :
    (∃ r, updatableTrial s tid = .ok r) ∧
    s' = { s with inters := (Tbl.upsertConflict s.inters s.nInter tid step (encI v)).1,
                  nInter := (Tbl.upsertConflict s.inters s.nInter tid step (encI v)).2 } := by
  unfold setInterNC at hs
  cases hu : updatableTrial s tid with
  | error f => simp [hu] at hs
  | ok r =>
    simp only [hu, Tbl.upsert_eq s.inters s.nInter h.inters] at hs
    refine ⟨⟨r, rfl⟩, ?_⟩
    simp at hs
    exact hs.symm

theorem setValueNC_ok (s : State) (h : Inv0 s) (tid objective : Nat) (v : XVal) (s' : State)
    (hs : setValueNC s tid objective v = .ok s') :
    (∃ r, updatableTrial s tid = .ok r) ∧
    s' = { s with values := (Tbl.upsertConflict s.values s.nValue tid objective (encV v)).1,
                  nValue := (Tbl.upsertConflict s.values s.nValue tid objective (encV v)).2 } := by
  unfold setValueNC at hs
  cases hu : updatableTrial s tid with
  | error f => simp [hu] at hs
  | ok r =>
    simp only [hu, Tbl.upsert_eq s.values s.nValue h.values] at hs
    refine ⟨⟨r, rfl⟩, ?_⟩
    simp at hs
    exact hs.symm

theorem setParamNC_ok (s : State) (h : Inv0 s) (tid : Nat) (name : String) (p : Param) (s' : State)
    (hs : setParamNC s tid name p = .ok s') :
    (∃ r, updatableTrial s tid = .ok r ∧ checkCompat s r.study name p.dist = .ok ()) ∧
    s' = { s with params := (Tbl.upsertConflict s.params s.nParam tid name p).1,
                  nParam := (Tbl.upsertConflict s.params s.nParam tid name p).2 } := by
  have hup := Tbl.upsert_eq s.params s.nParam h.params tid name p
  unfold Tbl.upsert at hup
  unfold setParamNC at hs
  cases hu : updatableTrial s tid with
  | error f => simp [hu] at hs
  | ok r =>
    simp only [hu] at hs
    cases ho : oneOrNone (Tbl.atKey s.params tid name) with
    | error f => simp [ho] at hs
    | ok x =>
      simp only [ho] at hs hup
      cases x with
      | none =>
        simp only at hs hup
        cases hc : checkCompat s r.study name p.dist with
        | error f => simp [hc] at hs
        | ok u =>
          simp only [hc, Except.ok.injEq] at hs hup
          refine ⟨⟨r, rfl, hc⟩, ?_⟩
          rw [← hs, ← hup]
      | some x =>
        simp only at hs hup
        cases hc : checkCompat s r.study name p.dist with
        | error f => simp [hc] at hs
        | ok u =>
          simp only [hc, Except.ok.injEq] at hs hup
          refine ⟨⟨r, rfl, hc⟩, ?_⟩
          rw [← hs, ← hup]

/-! ## … and that they keep the invariant -/

theorem inv0_setTAttrNC (sys : Bool) (s : State) (h : Inv0 s) (tid : Nat) (k v : String) (s' : State)
    (hs : setTAttrNC sys s tid k v = .ok s') : Inv0 s' := by
  obtain ⟨⟨r, hu⟩, e⟩ := setTAttrNC_ok sys s tid k v s' hs
  have hm := mem_trialIds_of_updatable s h tid r hu
  subst e
  cases sys
  · exact { h with tUser := Tbl.tblInv_upsertConflict _ _ h.tUser _ _ _,
                   tUserFk := fk_upsertConflict _ _ _ _ _ _ h.tUserFk hm }
  · exact { h with tSys := Tbl.tblInv_upsertConflict _ _ h.tSys _ _ _,
                   tSysFk := fk_upsertConflict _ _ _ _ _ _ h.tSysFk hm }

theorem inv0_setInterNC (s : State) (h : Inv0 s) (tid : Nat) (step : Int) (v : XVal) (s' : State)
    (hs : setInterNC s tid step v = .ok s') : Inv0 s' := by
  obtain ⟨⟨r, hu⟩, e⟩ := setInterNC_ok s h tid step v s' hs
  have hm := mem_trialIds_of_updatable s h tid r hu
  subst e
  exact { h with inters := Tbl.tblInv_upsertConflict _ _ h.inters _ _ _,
                 intersFk := fk_upsertConflict _ _ _ _ _ _ h.intersFk hm,
                 intersDec := vals_upsertConflict (fun x => (decI x).isSome = true) _ _ _ _ _ h.intersDec
                   (by simp [decI_encI]) }

theorem inv0_setParamNC (s : State) (h : Inv0 s) (tid : Nat) (name : String) (p : Param) (s' : State)
    (hs : setParamNC s tid name p = .ok s') : Inv0 s' := by
  obtain ⟨⟨r, hu, _⟩, e⟩ := setParamNC_ok s h tid name p s' hs
  have hm := mem_trialIds_of_updatable s h tid r hu
  subst e
  exact { h with params := Tbl.tblInv_upsertConflict _ _ h.params _ _ _,
                 paramsFk := fk_upsertConflict _ _ _ _ _ _ h.paramsFk hm }

/-- writing objective `i ≤ (number of value rows of the trial)` keeps the objectives 0,1,2,… -/
theorem inv0_setValueNC (s : State) (h : Inv0 s) (tid objective : Nat) (v : XVal) (s' : State)
    (hi : objective ≤ (Tbl.ofOwner s.values tid).length)
    (hs : setValueNC s tid objective v = .ok s') :
    Inv0 s' ∧ objective + 1 ≤ (Tbl.ofOwner s'.values tid).length := by
  obtain ⟨⟨r, hu⟩, e⟩ := setValueNC_ok s h tid objective v s' hs
  have hm := mem_trialIds_of_updatable s h tid r hu
  subst e
  have hkeys := fun o' => Tbl.keys_upsertConflict s.values s.nValue h.values tid objective (encV v) o'
  have hobj : ∀ o', (Tbl.ofOwner (Tbl.upsertConflict s.values s.nValue tid objective (encV v)).1 o').map (·.key) =
      List.range (Tbl.ofOwner (Tbl.upsertConflict s.values s.nValue tid objective (encV v)).1 o').length := by
    intro o'
    have hlen : (Tbl.ofOwner (Tbl.upsertConflict s.values s.nValue tid objective (encV v)).1 o').length =
        ((Tbl.ofOwner (Tbl.upsertConflict s.values s.nValue tid objective (encV v)).1 o').map (·.key)).length := by simp
    rw [hlen, hkeys o']
    by_cases ho : o' = tid
    · subst ho
      simp only [if_true]
      rw [h.objectives o']
      by_cases hlt : objective < (Tbl.ofOwner s.values o').length
      · simp [List.mem_range, hlt]
      · have he : objective = (Tbl.ofOwner s.values o').length := by omega
        have : ¬ objective ∈ List.range (Tbl.ofOwner s.values o').length := by simp [List.mem_range, hlt]
        simp only [this, if_false, List.length_append, List.length_range, List.length_singleton]
        rw [List.range_succ, he]
    · simp only [ho, if_false]
      rw [h.objectives o']; simp
  refine ⟨{ h with values := Tbl.tblInv_upsertConflict _ _ h.values _ _ _,
                   valuesFk := fk_upsertConflict _ _ _ _ _ _ h.valuesFk hm,
                   objectives := hobj,
                   valuesEnc := vals_upsertConflict (fun x => ∃ v, x = encV v) _ _ _ _ _ h.valuesEnc
                     ⟨v, rfl⟩ }, ?_⟩
  show objective + 1 ≤ (Tbl.ofOwner (Tbl.upsertConflict s.values s.nValue tid objective (encV v)).1 tid).length
  have hlen : (Tbl.ofOwner (Tbl.upsertConflict s.values s.nValue tid objective (encV v)).1 tid).length =
      ((Tbl.ofOwner (Tbl.upsertConflict s.values s.nValue tid objective (encV v)).1 tid).map (·.key)).length := by simp
  rw [hlen, hkeys tid]
  simp only [if_true]
  rw [h.objectives tid]
  by_cases hlt : objective < (Tbl.ofOwner s.values tid).length
  · simp [List.mem_range, hlt]; omega
  · have : ¬ objective ∈ List.range (Tbl.ofOwner s.values tid).length := by simp [List.mem_range, hlt]
    simp [this]; omega

/-- what none of the `_without_commit` setters touches -/
structure SameParents (s s' : State) : Prop where
  studies : s'.studies = s.studies
  trials : s'.trials = s.trials
  nStudy : s'.nStudy = s.nStudy
  nTrial : s'.nTrial = s.nTrial

theorem SameParents.refl (s : State) : SameParents s s := ⟨rfl, rfl, rfl, rfl⟩
theorem SameParents.trans {a b c : State} (h1 : SameParents a b) (h2 : SameParents b c) : SameParents a c :=
  ⟨h2.studies.trans h1.studies, h2.trials.trans h1.trials, h2.nStudy.trans h1.nStudy, h2.nTrial.trans h1.nTrial⟩

theorem same_setTAttrNC (sys : Bool) (s : State) (tid : Nat) (k v : String) (s' : State)
    (hs : setTAttrNC sys s tid k v = .ok s') : SameParents s s' := by
  obtain ⟨_, e⟩ := setTAttrNC_ok sys s tid k v s' hs
  subst e; cases sys <;> exact ⟨rfl, rfl, rfl, rfl⟩

theorem same_setInterNC (s : State) (h : Inv0 s) (tid : Nat) (step : Int) (v : XVal) (s' : State)
    (hs : setInterNC s tid step v = .ok s') : SameParents s s' := by
  obtain ⟨_, e⟩ := setInterNC_ok s h tid step v s' hs
  subst e; exact ⟨rfl, rfl, rfl, rfl⟩

theorem same_setValueNC (s : State) (h : Inv0 s) (tid i : Nat) (v : XVal) (s' : State)
    (hs : setValueNC s tid i v = .ok s') : SameParents s s' := by
  obtain ⟨_, e⟩ := setValueNC_ok s h tid i v s' hs
  subst e; exact ⟨rfl, rfl, rfl, rfl⟩

theorem same_setParamNC (s : State) (h : Inv0 s) (tid : Nat) (name : String) (p : Param) (s' : State)
    (hs : setParamNC s tid name p = .ok s') : SameParents s s' := by
  obtain ⟨_, e⟩ := setParamNC_ok s h tid name p s' hs
  subst e; exact ⟨rfl, rfl, rfl, rfl⟩

/-- `for k, v in d.items(): setter(...)` keeps whatever every single setter call keeps -/
theorem forEachNC_induct {κ ν : Type} (f : State → κ → ν → M State) (Q : State → Prop)
    (hf : ∀ s k v s', Q s → f s k v = .ok s' → Q s')
    (s : State) (l : List (κ × ν)) (s' : State) (hq : Q s) (hs : forEachNC f s l = .ok s') : Q s' := by
  induction l generalizing s with
  | nil => simp only [forEachNC, Except.ok.injEq] at hs; subst hs; exact hq
  | cons a t ih =>
    obtain ⟨k, v⟩ := a
    simp only [forEachNC] at hs
    cases h1 : f s k v with
    | error e => simp [h1] at hs
    | ok s1 => simp only [h1] at hs; exact ih s1 (hf s k v s1 hq h1) hs

theorem setValuesNC_induct (s : State) (h : Inv0 s) (tid i : Nat) (l : List XVal) (s' : State)
    (hi : i ≤ (Tbl.ofOwner s.values tid).length) (hs : setValuesNC s tid i l = .ok s') :
    Inv0 s' ∧ SameParents s s' := by
  induction l generalizing s i with
  | nil => simp only [setValuesNC, Except.ok.injEq] at hs; subst hs; exact ⟨h, SameParents.refl _⟩
  | cons v t ih =>
    simp only [setValuesNC] at hs
    cases h1 : setValueNC s tid i v with
    | error e => simp [h1] at hs
    | ok s1 =>
      simp only [h1] at hs
      obtain ⟨hinv, hlen⟩ := inv0_setValueNC s h tid i v s1 hi h1
      obtain ⟨h2, h3⟩ := ih s1 hinv (i + 1) hlen hs
      exact ⟨h2, (same_setValueNC s h tid i v s1 h1).trans h3⟩


/-! ## transactions -/

theorem commit_state (s : State) (m : M (State × Out)) :
    (commit s m).1 = s ∨ ∃ s' o, m = .ok (s', o) ∧ (commit s m).1 = s' := by
  unfold commit
  cases m with
  | ok x => obtain ⟨s', o⟩ := x; exact .inr ⟨s', o, rfl, rfl⟩
  | error f => cases f <;> exact .inl rfl

theorem fk_mono {κ ν : Type} (p q : List Nat) (t : List (KRow κ ν)) (h : Fk p t) (hpq : ∀ x ∈ p, x ∈ q) : Fk q t :=
  fun r hr => hpq _ (h r hr)

/-- a change of the `trials` rows that keeps primary key and study -/
theorem inv0_mapTrials (s : State) (h : Inv0 s) (g : TrialRow → TrialRow)
    (hg : ∀ r, (g r).id = r.id ∧ (g r).study = r.study) : Inv0 { s with trials := s.trials.map g } := by
  have hids : ({ s with trials := s.trials.map g } : State).trialIds = s.trialIds := by
    simp only [State.trialIds, List.map_map]
    apply List.map_congr_left
    intro r _; exact (hg r).1
  refine { h with trialsSorted := ?_, trialsBelow := ?_, trialsFk := ?_, paramsFk := ?_, valuesFk := ?_,
                  intersFk := ?_, tUserFk := ?_, tSysFk := ?_, beatsFk := ?_ }
  · show (s.trials.map g).Pairwise _
    rw [List.pairwise_map]
    exact h.trialsSorted.imp (by intro a b hab; rw [(hg a).1, (hg b).1]; exact hab)
  · intro r hr
    obtain ⟨r0, hr0, e⟩ := List.mem_map.mp hr
    rw [← e, (hg r0).1]; exact h.trialsBelow r0 hr0
  · intro r hr
    obtain ⟨r0, hr0, e⟩ := List.mem_map.mp hr
    rw [← e, (hg r0).2]; exact h.trialsFk r0 hr0
  all_goals (rw [hids]; first | exact h.paramsFk | exact h.valuesFk | exact h.intersFk | exact h.tUserFk | exact h.tSysFk | exact h.beatsFk)

theorem numbers_mapTrials (s : State) (h : Numbers s) (g : TrialRow → TrialRow)
    (hg : ∀ r, (g r).study = r.study ∧ (g r).number = r.number) :
    Numbers { s with trials := s.trials.map g } := by
  intro sid
  have e : (s.trials.map g).filter (fun r => r.study == sid) = (s.trials.filter (fun r => r.study == sid)).map g := by
    rw [List.filter_map]
    congr 1
    apply List.filter_congr
    intro r _
    simp [Function.comp, (hg r).1]
  show ((s.trials.map g).filter _).map _ = List.range ((s.trials.map g).filter _).length
  rw [e, List.map_map, List.length_map, ← h sid]
  apply List.map_congr_left
  intro r _; exact (hg r).2

/-! ### create_new_study -/

theorem mem_zipIdx_bounds {α : Type} (l : List α) (i : Nat) (p : α × Nat) (hp : p ∈ l.zipIdx i) :
    i ≤ p.2 ∧ p.2 < i + l.length := by
  induction l generalizing i with
  | nil => simp at hp
  | cons a t ih =>
    simp only [List.zipIdx_cons, List.mem_cons] at hp
    rcases hp with rfl | hp
    · simp only [List.length_cons]; omega
    · have := ih (i + 1) hp
      simp only [List.length_cons]; omega

theorem zipIdx_pairwise {α : Type} (l : List α) (i : Nat) : (l.zipIdx i).Pairwise (fun a b => a.2 < b.2) := by
  induction l generalizing i with
  | nil => simp
  | cons a t ih =>
    simp only [List.zipIdx_cons, List.pairwise_cons]
    refine ⟨?_, ih (i + 1)⟩
    intro p hp
    have := mem_zipIdx_bounds t (i + 1) p hp
    (try simp only); omega

theorem tblInv_append_dirs (t : List (KRow Nat Nat)) (n : Nat) (h : TblInv t n) (sid : Nat)
    (hfresh : ∀ r ∈ t, r.owner ≠ sid) (dirs : List Nat) :
    TblInv (t ++ dirs.zipIdx.map (fun p => ({ id := n + p.2, owner := sid, key := p.2, val := p.1 } : KRow Nat Nat)))
      (n + dirs.length) := by
  refine ⟨?_, ?_, ?_⟩
  · rw [List.pairwise_append]
    refine ⟨h.sorted, ?_, ?_⟩
    · rw [List.pairwise_map]
      exact (zipIdx_pairwise dirs 0).imp (by intro a b hab; (try simp only); omega)
    · intro a ha b hb
      obtain ⟨p, _, e⟩ := List.mem_map.mp hb
      rw [← e]
      have := h.below a ha
      (try simp only); omega
  · intro r hr
    rcases List.mem_append.mp hr with hr | hr
    · have := h.below r hr; omega
    · obtain ⟨p, hp, e⟩ := List.mem_map.mp hr
      rw [← e]
      have := mem_zipIdx_bounds dirs 0 p hp
      (try simp only); omega
  · rw [List.pairwise_append]
    refine ⟨h.uniq, ?_, ?_⟩
    · rw [List.pairwise_map]
      exact (zipIdx_pairwise dirs 0).imp (by intro a b hab e; simp only at e; omega)
    · intro a ha b hb
      obtain ⟨p, _, e⟩ := List.mem_map.mp hb
      rw [← e]
      intro hc
      exact hfresh a ha hc.1

theorem inv_createStudy (s : State) (h : Inv s) (name : String) (dirs : List Nat) (s' : State) (o : Out)
    (hm : createStudy s name dirs = .ok (s', o)) : Inv s' := by
  unfold createStudy at hm
  split at hm
  · simp at hm
  · rename_i hany
    have hfree : ∀ r ∈ s.studies, r.name ≠ name := by
      intro r hr e
      apply hany
      simp only [List.any_eq_true, beq_iff_eq]
      exact ⟨r, hr, e⟩
    dsimp only at hm
    split at hm
    · simp at hm
    · simp only [Except.ok.injEq, Prod.mk.injEq] at hm
      obtain ⟨e, _⟩ := hm
      subst e
      obtain ⟨h0, hn⟩ := h
      have hsub : ∀ x ∈ s.studyIds, x ∈ (s.studies ++ [({ id := s.nStudy, name := name } : StudyRow)]).map (·.id) := by
        intro x hx; simp only [List.map_append, List.mem_append]; exact .inl hx
      refine ⟨{ h0 with studiesSorted := ?_, studiesBelow := ?_, namesUniq := ?_, trialsFk := ?_, dirs := ?_,
                        dirsFk := ?_, sUserFk := ?_, sSysFk := ?_ }, hn⟩
      · show (s.studies ++ [_]).Pairwise _
        rw [List.pairwise_append]
        refine ⟨h0.studiesSorted, by simp, ?_⟩
        intro a ha b hb
        simp only [List.mem_singleton] at hb; subst hb
        exact h0.studiesBelow a ha
      · intro r hr
        rcases List.mem_append.mp hr with hr | hr
        · exact Nat.lt_succ_of_lt (h0.studiesBelow r hr)
        · simp only [List.mem_singleton] at hr; subst hr; exact Nat.lt_succ_self _
      · show (s.studies ++ [_]).Pairwise _
        rw [List.pairwise_append]
        refine ⟨h0.namesUniq, by simp, ?_⟩
        intro a ha b hb
        simp only [List.mem_singleton] at hb; subst hb
        exact hfree a ha
      · intro r hr; exact hsub _ (h0.trialsFk r hr)
      · apply tblInv_append_dirs _ _ h0.dirs
        intro r hr e
        have := h0.dirsFk r hr
        obtain ⟨st, hst, e2⟩ := List.mem_map.mp this
        have := h0.studiesBelow st hst
        omega
      · intro r hr
        rcases List.mem_append.mp hr with hr | hr
        · exact hsub _ (h0.dirsFk r hr)
        · obtain ⟨p, _, e⟩ := List.mem_map.mp hr
          rw [← e]
          simp [State.studyIds]
      · exact fk_mono _ _ _ h0.sUserFk hsub
      · exact fk_mono _ _ _ h0.sSysFk hsub


/-! ### delete_study -/

theorem findStudy_mem (s : State) (h : Inv0 s) (sid : Nat) (r : StudyRow) (hf : findStudy s sid = .ok r) :
    r ∈ s.studies ∧ r.id = sid ∧ sid ∈ s.studyIds := by
  rw [findStudy_eq s h] at hf
  cases hq : s.studies.find? (fun r => r.id == sid) with
  | none => simp [hq] at hf
  | some r' =>
    simp only [hq, Except.ok.injEq] at hf
    subst hf
    have h1 := List.mem_of_find?_eq_some hq
    have h2 : r'.id = sid := by simpa using List.find?_some hq
    exact ⟨h1, h2, List.mem_map.mpr ⟨r', h1, h2⟩⟩

theorem inv_deleteStudy (s : State) (h : Inv s) (sid : Nat) (s' : State) (o : Out)
    (hm : deleteStudy s sid = .ok (s', o)) : Inv s' := by
  unfold deleteStudy at hm
  cases hf : findStudy s sid with
  | error f => simp [hf] at hm
  | ok r0 =>
    simp only [hf, Except.ok.injEq, Prod.mk.injEq] at hm
    obtain ⟨e, _⟩ := hm
    subst e
    obtain ⟨h0, hn⟩ := h
    -- parents that stay
    have hst : ∀ x, x ∈ s.studyIds → x ≠ sid → x ∈ (s.studies.filter (fun r => !(r.id == sid))).map (·.id) := by
      intro x hx hne
      obtain ⟨r, hr, e⟩ := List.mem_map.mp hx
      exact List.mem_map.mpr ⟨r, List.mem_filter.mpr ⟨hr, by simp [e, hne]⟩, e⟩
    have htr : ∀ x, x ∈ s.trialIds → x ∉ (s.trials.filter (fun r => r.study == sid)).map (·.id) →
        x ∈ (s.trials.filter (fun r => !(r.study == sid))).map (·.id) := by
      intro x hx hnd
      obtain ⟨r, hr, e⟩ := List.mem_map.mp hx
      refine List.mem_map.mpr ⟨r, List.mem_filter.mpr ⟨hr, ?_⟩, e⟩
      cases hs : r.study == sid with
      | false => rfl
      | true => exact absurd (List.mem_map.mpr ⟨r, List.mem_filter.mpr ⟨hr, hs⟩, e⟩) hnd
    have hsfk : ∀ {κ ν : Type} [DecidableEq κ] (t : List (KRow κ ν)), Fk s.studyIds t →
        Fk ((s.studies.filter (fun r => !(r.id == sid))).map (·.id)) (Tbl.dropOwners t [sid]) := by
      intro κ ν _ t ht r hr
      obtain ⟨hr1, hr2⟩ := (Tbl.mem_dropOwners t [sid] r).mp hr
      exact hst _ (ht r hr1) (by simpa using hr2)
    have htfk : ∀ {κ ν : Type} [DecidableEq κ] (t : List (KRow κ ν)), Fk s.trialIds t →
        Fk ((s.trials.filter (fun r => !(r.study == sid))).map (·.id))
          (Tbl.dropOwners t ((s.trials.filter (fun r => r.study == sid)).map (·.id))) := by
      intro κ ν _ t ht r hr
      obtain ⟨hr1, hr2⟩ := (Tbl.mem_dropOwners t _ r).mp hr
      exact htr _ (ht r hr1) hr2
    refine ⟨?_, ?_⟩
    · exact {
        studiesSorted := h0.studiesSorted.sublist List.filter_sublist
        studiesBelow := fun r hr => h0.studiesBelow r (List.mem_filter.mp hr).1
        namesUniq := h0.namesUniq.sublist List.filter_sublist
        trialsSorted := h0.trialsSorted.sublist List.filter_sublist
        trialsBelow := fun r hr => h0.trialsBelow r (List.mem_filter.mp hr).1
        trialsFk := by
          intro r hr
          obtain ⟨hr1, hr2⟩ := List.mem_filter.mp hr
          exact hst _ (h0.trialsFk r hr1) (by simpa using hr2)
        dirs := Tbl.tblInv_filter _ _ h0.dirs _
        sUser := Tbl.tblInv_filter _ _ h0.sUser _
        sSys := Tbl.tblInv_filter _ _ h0.sSys _
        params := Tbl.tblInv_filter _ _ h0.params _
        values := Tbl.tblInv_filter _ _ h0.values _
        inters := Tbl.tblInv_filter _ _ h0.inters _
        tUser := Tbl.tblInv_filter _ _ h0.tUser _
        tSys := Tbl.tblInv_filter _ _ h0.tSys _
        beats := Tbl.tblInv_filter _ _ h0.beats _
        dirsFk := hsfk _ h0.dirsFk
        sUserFk := hsfk _ h0.sUserFk
        sSysFk := hsfk _ h0.sSysFk
        paramsFk := htfk _ h0.paramsFk
        valuesFk := htfk _ h0.valuesFk
        intersFk := htfk _ h0.intersFk
        tUserFk := htfk _ h0.tUserFk
        tSysFk := htfk _ h0.tSysFk
        beatsFk := htfk _ h0.beatsFk
        objectives := by
          intro tid
          show (Tbl.ofOwner (Tbl.dropOwners s.values _) tid).map _ = List.range (Tbl.ofOwner (Tbl.dropOwners s.values _) tid).length
          rw [Tbl.ofOwner_dropOwners]
          split
          · rfl
          · exact h0.objectives tid
        valuesEnc := fun r hr => h0.valuesEnc r ((Tbl.mem_dropOwners _ _ r).mp hr).1
        intersDec := fun r hr => h0.intersDec r ((Tbl.mem_dropOwners _ _ r).mp hr).1 }
    · intro sid'
      show ((s.trials.filter (fun r => !(r.study == sid))).filter (fun r => r.study == sid')).map _ =
        List.range ((s.trials.filter (fun r => !(r.study == sid))).filter (fun r => r.study == sid')).length
      rw [List.filter_filter]
      by_cases hs : sid' = sid
      · subst hs
        have : s.trials.filter (fun a => (a.study == sid') && !(a.study == sid')) = [] := by
          rw [List.filter_eq_nil_iff]; intro a _; simp
        rw [this]; rfl
      · have : s.trials.filter (fun a => (a.study == sid') && !(a.study == sid)) = s.trials.filter (fun a => a.study == sid') := by
          apply List.filter_congr
          intro a _
          by_cases ha : a.study = sid'
          · simp [ha, hs]
          · simp [ha]
        rw [this]; exact hn sid'

/-! ### set_study_user_attr / set_study_system_attr -/

theorem inv_setStudyAttr (sys : Bool) (s : State) (h : Inv s) (sid : Nat) (k v : String) (s' : State) (o : Out)
    (hm : setStudyAttr sys s sid k v = .ok (s', o)) : Inv s' := by
  obtain ⟨h0, hn⟩ := h
  unfold setStudyAttr at hm
  cases hf : findStudy s sid with
  | error f => simp [hf] at hm
  | ok r0 =>
    obtain ⟨_, _, hmem⟩ := findStudy_mem s h0 sid r0 hf
    simp only [hf] at hm
    cases sys
    · simp only [Bool.false_eq_true, if_false, Tbl.upsert_eq s.sUser s.nSUser h0.sUser, Except.ok.injEq, Prod.mk.injEq] at hm
      obtain ⟨e, _⟩ := hm; subst e
      exact ⟨{ h0 with sUser := Tbl.tblInv_upsertConflict _ _ h0.sUser _ _ _,
                       sUserFk := fk_upsertConflict _ _ _ _ _ _ h0.sUserFk hmem }, hn⟩
    · simp only [if_true, Tbl.upsert_eq s.sSys s.nSSys h0.sSys, Except.ok.injEq, Prod.mk.injEq] at hm
      obtain ⟨e, _⟩ := hm; subst e
      exact ⟨{ h0 with sSys := Tbl.tblInv_upsertConflict _ _ h0.sSys _ _ _,
                       sSysFk := fk_upsertConflict _ _ _ _ _ _ h0.sSysFk hmem }, hn⟩


/-! ### create_new_trial -/

theorem inv0_insTrial (s : State) (h : Inv0 s) (row : TrialRow) (hid : row.id = s.nTrial)
    (hst : row.study ∈ s.studyIds) :
    Inv0 { s with trials := s.trials ++ [row], nTrial := s.nTrial + 1 } := by
  have hsub : ∀ x ∈ s.trialIds, x ∈ (s.trials ++ [row]).map (·.id) := by
    intro x hx; simp only [List.map_append, List.mem_append]; exact .inl hx
  refine { h with trialsSorted := ?_, trialsBelow := ?_, trialsFk := ?_, paramsFk := fk_mono _ _ _ h.paramsFk hsub,
                  valuesFk := fk_mono _ _ _ h.valuesFk hsub, intersFk := fk_mono _ _ _ h.intersFk hsub,
                  tUserFk := fk_mono _ _ _ h.tUserFk hsub, tSysFk := fk_mono _ _ _ h.tSysFk hsub,
                  beatsFk := fk_mono _ _ _ h.beatsFk hsub }
  · show (s.trials ++ [row]).Pairwise _
    rw [List.pairwise_append]
    refine ⟨h.trialsSorted, by simp, ?_⟩
    intro a ha b hb
    simp only [List.mem_singleton] at hb; subst hb
    rw [hid]; exact h.trialsBelow a ha
  · intro r hr
    rcases List.mem_append.mp hr with hr | hr
    · exact Nat.lt_succ_of_lt (h.trialsBelow r hr)
    · simp only [List.mem_singleton] at hr; subst hr; rw [hid]; exact Nat.lt_succ_self _
  · intro r hr
    rcases List.mem_append.mp hr with hr | hr
    · exact h.trialsFk r hr
    · simp only [List.mem_singleton] at hr; subst hr; exact hst

/-- the trials table after the final UPDATE of `_get_prepared_new_trial` -/
theorem finishNewTrial_trials (s : State) (h : Inv0 s) (row : TrialRow) (sid tid : Nat) (hid : row.id = tid)
    (htid : tid = s.nTrial) (hsid : row.study = sid) (fst : TrialRow → TState) :
    (s.trials ++ [row]).map (fun r => if r.id == tid then
        { r with state := fst r, number := ((s.trials ++ [row]).filter (fun r => r.study == sid && decide (r.id < tid))).length } else r) =
      s.trials ++ [{ row with state := fst row, number := (s.trials.filter (fun r => r.study == sid)).length }] := by
  have hcount : (s.trials ++ [row]).filter (fun r => r.study == sid && decide (r.id < tid)) =
      s.trials.filter (fun r => r.study == sid) := by
    rw [List.filter_append]
    have h1 : [row].filter (fun r => r.study == sid && decide (r.id < tid)) = [] := by simp [hid]
    rw [h1, List.append_nil]
    apply List.filter_congr
    intro r hr
    have := h.trialsBelow r hr
    have : r.id < tid := by omega
    simp [this]
  rw [hcount, List.map_append]
  congr 1
  · refine (List.map_congr_left ?_).trans (List.map_id _)
    intro r hr
    have := h.trialsBelow r hr
    have : ¬ r.id = tid := by omega
    simp [this]
  · simp [hid]

theorem inv_finishNewTrial (s s6 : State) (h : Inv s) (h6 : Inv0 s6) (row : TrialRow) (sid tid : Nat)
    (hid : row.id = tid) (htid : tid = s.nTrial) (hsid : row.study = sid)
    (htr : s6.trials = s.trials ++ [row]) (fst : TrialRow → TState) :
    Inv { s6 with trials := s6.trials.map (fun r => if r.id == tid then
        { r with state := fst r, number := (s6.trials.filter (fun r => r.study == sid && decide (r.id < tid))).length } else r) } := by
  refine ⟨inv0_mapTrials s6 h6 _ (by intro r; split <;> simp), ?_⟩
  intro sid'
  show ((s6.trials.map _).filter _).map _ = List.range ((s6.trials.map _).filter _).length
  rw [htr, finishNewTrial_trials s h.1 row sid tid hid htid hsid fst, List.filter_append]
  have hn := h.2 sid'
  by_cases hs : sid' = sid
  · subst hs
    have : [({ row with state := fst row, number := (s.trials.filter (fun r => r.study == sid')).length } : TrialRow)].filter
        (fun r => r.study == sid') = [{ row with state := fst row, number := (s.trials.filter (fun r => r.study == sid')).length }] := by
      simp [hsid]
    rw [this, List.map_append, hn]
    simp [List.range_succ]
  · have : [({ row with state := fst row, number := (s.trials.filter (fun r => r.study == sid)).length } : TrialRow)].filter
        (fun r => r.study == sid') = [] := by
      simp [hsid, Ne.symm hs]
    rw [this, List.append_nil]; exact hn

theorem inv_prepareNewTrial (s : State) (h : Inv s) (sid : Nat) (hsid : sid ∈ s.studyIds) (tmpl : Option Template)
    (s' : State) (tid : Nat) (hm : prepareNewTrial s sid tmpl = .ok (s', tid)) : Inv s' := by
  unfold prepareNewTrial at hm
  cases tmpl with
  | none =>
    simp only [Except.ok.injEq, Prod.mk.injEq] at hm
    obtain ⟨e, _⟩ := hm
    subst e
    have h1 := inv0_insTrial s h.1 { id := s.nTrial, number := 0, study := sid, state := .running, hasStart := true, hasComplete := false } rfl hsid
    have := inv_finishNewTrial s _ h h1 { id := s.nTrial, number := 0, study := sid, state := .running, hasStart := true, hasComplete := false }
      sid s.nTrial rfl rfl rfl rfl (fun r => r.state)
    exact this
  | some t =>
    dsimp only at hm
    have h1 := inv0_insTrial s h.1 { id := s.nTrial, number := 0, study := sid, state := .running, hasStart := t.hasStart, hasComplete := t.hasComplete } rfl hsid
    generalize hs1 : ({ s with trials := s.trials ++ [({ id := s.nTrial, number := 0, study := sid, state := .running, hasStart := t.hasStart, hasComplete := t.hasComplete } : TrialRow)], nTrial := s.nTrial + 1 } : State) = s1 at hm h1
    -- values
    have hv : ∀ s2, templateValuesNC s1 s.nTrial t.values = Except.ok s2 → Inv0 s2 ∧ SameParents s1 s2 := by
      intro s2 h2
      unfold templateValuesNC at h2
      split at h2
      · exact setValuesNC_induct s1 h1 _ 0 _ s2 (Nat.zero_le _) h2
      · split at h2
        · simp at h2
        · simp only [Except.ok.injEq] at h2; subst h2; exact ⟨h1, SameParents.refl _⟩
        · exact ⟨(inv0_setValueNC s1 h1 _ 0 _ s2 (Nat.zero_le _) h2).1, same_setValueNC s1 h1 _ 0 _ s2 h2⟩
    split at hm
    · simp at hm
    · rename_i s2 h2
      obtain ⟨i2, p2⟩ := hv s2 h2
      split at hm
      · simp at hm
      · rename_i s3 h3
        obtain ⟨i3, p3⟩ := forEachNC_induct _ (fun x => Inv0 x ∧ SameParents s1 x)
          (fun a k v a' hq hf => ⟨inv0_setParamNC a hq.1 _ k v a' hf, hq.2.trans (same_setParamNC a hq.1 _ k v a' hf)⟩)
          s2 t.params s3 ⟨i2, p2⟩ h3
        split at hm
        · simp at hm
        · rename_i s4 h4
          obtain ⟨i4, p4⟩ := forEachNC_induct _ (fun x => Inv0 x ∧ SameParents s1 x)
            (fun a k v a' hq hf => ⟨inv0_setTAttrNC false a hq.1 _ k v a' hf, hq.2.trans (same_setTAttrNC false a _ k v a' hf)⟩)
            s3 t.userAttrs s4 ⟨i3, p3⟩ h4
          split at hm
          · simp at hm
          · rename_i s5 h5
            obtain ⟨i5, p5⟩ := forEachNC_induct _ (fun x => Inv0 x ∧ SameParents s1 x)
              (fun a k v a' hq hf => ⟨inv0_setTAttrNC true a hq.1 _ k v a' hf, hq.2.trans (same_setTAttrNC true a _ k v a' hf)⟩)
              s4 t.systemAttrs s5 ⟨i4, p4⟩ h5
            split at hm
            · simp at hm
            · rename_i s6 h6
              obtain ⟨i6, p6⟩ := forEachNC_induct _ (fun x => Inv0 x ∧ SameParents s1 x)
                (fun a k v a' hq hf => ⟨inv0_setInterNC a hq.1 _ k v a' hf, hq.2.trans (same_setInterNC a hq.1 _ k v a' hf)⟩)
                s5 t.inter s6 ⟨i5, p5⟩ h6
              simp only [Except.ok.injEq, Prod.mk.injEq] at hm
              obtain ⟨e, _⟩ := hm
              subst e
              have htr : s6.trials = s.trials ++ [({ id := s.nTrial, number := 0, study := sid, state := .running, hasStart := t.hasStart, hasComplete := t.hasComplete } : TrialRow)] := by
                rw [p6.trials, ← hs1]
              exact inv_finishNewTrial s s6 h i6 _ sid s.nTrial rfl rfl rfl htr (fun _ => t.state)

theorem inv_createTrial (s : State) (h : Inv s) (sid : Nat) (tmpl : Option Template) (s' : State) (o : Out)
    (hm : createTrial s sid tmpl = .ok (s', o)) : Inv s' := by
  unfold createTrial at hm
  cases hf : findStudy s sid with
  | error f => simp [hf] at hm
  | ok r0 =>
    obtain ⟨_, _, hmem⟩ := findStudy_mem s h.1 sid r0 hf
    simp only [hf] at hm
    cases hp : prepareNewTrial s sid tmpl with
    | error f => simp [hp] at hm
    | ok x =>
      obtain ⟨s1, tid⟩ := x
      simp only [hp, Except.ok.injEq, Prod.mk.injEq] at hm
      obtain ⟨e, _⟩ := hm
      subst e
      exact inv_prepareNewTrial s h sid hmem tmpl s1 tid hp


/-! ### set_trial_state_values -/

theorem numbers_of_same (s s' : State) (h : Numbers s) (e : s'.trials = s.trials) : Numbers s' := by
  intro sid; rw [e]; exact h sid

theorem inv_setTrialStateValues (s : State) (h : Inv s) (tid : Nat) (st : TState) (values : Option (List XVal))
    (s' : State) (o : Out) (hm : setTrialStateValues s tid st values = .ok (s', o)) : Inv s' := by
  unfold setTrialStateValues at hm
  cases hu : updatableTrial s tid with
  | error f => simp [hu] at hm
  | ok tr =>
    simp only [hu] at hm
    have hv : ∀ s1, writeValuesNC s tid values = Except.ok s1 → Inv s1 := by
      intro s1 h1
      cases values with
      | none => simp only [writeValuesNC, Except.ok.injEq] at h1; subst h1; exact h
      | some l =>
        simp only [writeValuesNC] at h1
        obtain ⟨a, b⟩ := setValuesNC_induct s h.1 tid 0 l s1 (Nat.zero_le _) h1
        exact ⟨a, numbers_of_same s s1 h.2 b.trials⟩
    split at hm
    · simp at hm
    · rename_i s1 h1
      have i1 := hv s1 h1
      split at hm
      · simp only [Except.ok.injEq, Prod.mk.injEq] at hm
        obtain ⟨e, _⟩ := hm; subst e; exact i1
      · (try dsimp only at hm)
        have i2 : ∀ g : TrialRow → Bool, Inv { s1 with trials := s1.trials.map (fun r => if g r then
            { r with state := st, hasStart := r.hasStart || st == .running,
                     hasComplete := r.hasComplete || st.isFinished } else r) } := by
          intro g
          exact ⟨inv0_mapTrials s1 i1.1 _ (by intro r; split <;> simp),
                 numbers_mapTrials s1 i1.2 _ (by intro r; split <;> simp)⟩
        repeat' split at hm
        all_goals first
          | (simp at hm; done)
          | (simp only [Except.ok.injEq, Prod.mk.injEq] at hm
             obtain ⟨e, _⟩ := hm; subst e; exact i2 _)

/-! ### every call -/

theorem inv_nc (s : State) (h : Inv s) (m : M State) (hq : ∀ s', m = .ok s' → Inv0 s' ∧ SameParents s s')
    (s' : State) (o : Out) (hm : nc m = .ok (s', o)) : Inv s' := by
  unfold nc at hm
  cases m with
  | error f => simp at hm
  | ok s1 =>
    simp only [Except.ok.injEq, Prod.mk.injEq] at hm
    obtain ⟨e, _⟩ := hm; subst e
    obtain ⟨a, b⟩ := hq s1 rfl
    exact ⟨a, numbers_of_same s s1 h.2 b.trials⟩

theorem ro_state (s : State) (m : M Out) (s' : State) (o : Out) (hm : ro s m = .ok (s', o)) : s' = s := by
  unfold ro at hm
  cases m with
  | error f => simp at hm
  | ok x => simp only [Except.ok.injEq, Prod.mk.injEq] at hm; exact hm.1.symm

/-- **The table invariant is preserved by every storage call** (accepted, rejected or crashed). -/
theorem inv_step (s : State) (op : Op) (h : Inv s) : Inv (step s op).1 := by
  unfold step
  rcases commit_state s _ with e | ⟨s', o, hm, e⟩
  · rw [e]; exact h
  · rw [e]
    cases op with
    | createStudy name dirs => exact inv_createStudy s h name dirs s' o hm
    | deleteStudy sid => exact inv_deleteStudy s h sid s' o hm
    | setStudyUserAttr sid k v => exact inv_setStudyAttr false s h sid k v s' o hm
    | setStudySystemAttr sid k v => exact inv_setStudyAttr true s h sid k v s' o hm
    | createTrial sid tmpl ir => exact inv_createTrial s h sid tmpl s' o hm
    | setTrialParam tid name p ir =>
      exact inv_nc s h _ (fun x hx => ⟨inv0_setParamNC s h.1 tid name p x hx, same_setParamNC s h.1 tid name p x hx⟩) s' o hm
    | setTrialStateValues tid st values => exact inv_setTrialStateValues s h tid st values s' o hm
    | setTrialInter tid stp v =>
      exact inv_nc s h _ (fun x hx => ⟨inv0_setInterNC s h.1 tid stp v x hx, same_setInterNC s h.1 tid stp v x hx⟩) s' o hm
    | setTrialUserAttr tid k v =>
      exact inv_nc s h _ (fun x hx => ⟨inv0_setTAttrNC false s h.1 tid k v x hx, same_setTAttrNC false s tid k v x hx⟩) s' o hm
    | setTrialSystemAttr tid k v =>
      exact inv_nc s h _ (fun x hx => ⟨inv0_setTAttrNC true s h.1 tid k v x hx, same_setTAttrNC true s tid k v x hx⟩) s' o hm
    | getAllStudies =>
      simp only [Except.ok.injEq, Prod.mk.injEq] at hm
      rw [← hm.1]; exact h
    | getBestTrial sid =>
      have : s' = s := by
        simp only [getBestTrial] at hm
        repeat' split at hm
        all_goals first
          | (simp at hm; done)
          | (simp only [Except.ok.injEq, Prod.mk.injEq] at hm; exact hm.1.symm)
      rw [this]; exact h
    | _ => rw [ro_state s _ s' o hm]; exact h

theorem inv_run (ops : List Op) : Inv (run ops) := by
  unfold run
  suffices ∀ s, Inv s → Inv (ops.foldl (fun s op => (step s op).1) s) from this _ inv_init
  induction ops with
  | nil => intro s h; exact h
  | cons op rest ih => intro s h; exact ih _ (inv_step s op h)

end OptunaVerif.Rdb
