import OptunaVerif.Lemmas.RdbBest
/-! Refinement, part 3: the writing calls that touch one study or one trial field
(`set_study_*_attr`, `set_trial_user_attr`, `set_trial_system_attr`, `set_trial_intermediate_value`).
Core Lean only. -/
set_option linter.unusedSimpArgs false
set_option linter.unusedSectionVars false
set_option linter.unusedVariables false
namespace OptunaVerif.Rdb
open OptunaVerif OptunaVerif.Storage

/-! ## well-formed calls -/

def distinctKeys {κ ν : Type} (l : List (κ × ν)) : Prop := l.Pairwise (fun a b => a.1 ≠ b.1)

/-- Values are given only together with a finished state, as a non-empty NaN-free list. -/
def WfValues (st : TState) : Option (List XVal) → Prop
  | none => True
  | some l => l ≠ [] ∧ st.isFinished = true ∧ ∀ v ∈ l, v ≠ XVal.nan

/-- What the Python signature of the call already guarantees (dict arguments have distinct keys), plus
the value conventions of `Study.tell` (`_check_values_are_feasible`, `FrozenTrial._validate`): see
`WfValues`; directions are a non-empty list of MINIMIZE / MAXIMIZE. -/
def WfOp : Op → Prop
  | .createStudy _ dirs => dirs ≠ [] ∧ ∀ d ∈ dirs, d = 1 ∨ d = 2
  | .createTrial _ (some t) _ =>
    distinctKeys t.params ∧ distinctKeys t.userAttrs ∧ distinctKeys t.systemAttrs ∧ distinctKeys t.inter ∧
    WfValues t.state t.values
  | .setTrialStateValues _ st vs => WfValues st vs
  | _ => True

/-- the contract call with its `implRaised` hint set (U1) -/
def withRaised : Op → Bool → Op
  | .createTrial sid t _, b => .createTrial sid t b
  | .setTrialParam tid n p _, b => .setTrialParam tid n p b
  | op, _ => op

def raisedValueError (res : Res) : Bool := res == .out (.err .valueError)

/-- One step of the simulation: the claim proved for every call. -/
def StepOk (r : State) (a : Spec) (op : Op) : Prop :=
  let res := step r op
  let sp := Storage.step a (withRaised op (raisedValueError res.2))
  Abs res.1 sp.1 ∧ Allowed res.2 sp.2

/-! ## views under the invariant -/

theorem frozenStudy_eq (s : State) (h : Inv0 s) (row : StudyRow) :
    (frozenStudy s row).2 = StudyS.mk row.name ((Tbl.ofOwner s.dirs row.id).map (fun x => x.val))
      (Tbl.kv id s.sUser row.id) (Tbl.kv id s.sSys row.id) [] := by
  simp only [frozenStudy, Tbl.toDict_ofOwner id s.sUser s.nSUser h.sUser, Tbl.toDict_ofOwner id s.sSys s.nSSys h.sSys]

/-- `{v.step: decode(v)}` from the raw key/value list -/
def sequence {κ β : Type} (l : List (κ × Option β)) : List (κ × β) := l.filterMap (fun p => p.2.map (fun v => (p.1, v)))

theorem interView_eq (s : State) (tid : Nat) : s.interView tid = sequence (Tbl.kv decI s.inters tid) := by
  unfold State.interView sequence Tbl.kv
  rw [List.filterMap_map]
  rfl

theorem sequence_kvSet {κ β : Type} [DecidableEq κ] (l : List (κ × Option β)) (k : κ) (v : β)
    (h : ∀ p ∈ l, p.2.isSome = true) : sequence (kvSet l k (some v)) = kvSet (sequence l) k v := by
  induction l with
  | nil => rfl
  | cons a t ih =>
    obtain ⟨k', o⟩ := a
    obtain ⟨w, hw⟩ := Option.isSome_iff_exists.mp (h (k', o) (by simp))
    simp only at hw
    subst hw
    have iht := ih (fun p hp => h p (List.mem_cons_of_mem _ hp))
    by_cases hk : k' = k
    · simp [kvSet, hk, sequence]
    · simp only [kvSet, hk, if_false, sequence, List.filterMap_cons, Option.map_some] at iht ⊢
      rw [iht]

theorem kv_decI_some (s : State) (h : Inv0 s) (tid : Nat) : ∀ p ∈ Tbl.kv decI s.inters tid, p.2.isSome = true := by
  intro p hp
  obtain ⟨x, hx, e⟩ := List.mem_map.mp hp
  rw [← e]
  exact h.intersDec x ((Tbl.mem_ofOwner _ _ _).mp hx).1

/-- two states whose trial-side tables agree on one trial give that trial's row the same view -/
theorem rowView_congr (s s' : State) (row : TrialRow)
    (h1 : Tbl.ofOwner s'.values row.id = Tbl.ofOwner s.values row.id)
    (h2 : Tbl.ofOwner s'.params row.id = Tbl.ofOwner s.params row.id)
    (h3 : Tbl.ofOwner s'.tUser row.id = Tbl.ofOwner s.tUser row.id)
    (h4 : Tbl.ofOwner s'.tSys row.id = Tbl.ofOwner s.tSys row.id)
    (h5 : Tbl.ofOwner s'.inters row.id = Tbl.ofOwner s.inters row.id) : s'.rowView row = s.rowView row := by
  simp only [State.rowView, State.valuesView, State.interView, Tbl.kv, h1, h2, h3, h4, h5]

/-! ## a generic frame for calls that rewrite one trial -/

theorem abs_updTrial (r r' : State) (a : Spec) (h : Abs r a) (hinv : Inv r') (tid : Nat) (f : TrialS → TrialS)
    (hf : ∀ t, (f t).study = t.study)
    (hstud : r'.studies = r.studies ∧ r'.dirs = r.dirs ∧ r'.sUser = r.sUser ∧ r'.sSys = r.sSys)
    (hn : r'.nStudy = r.nStudy ∧ r'.nTrial = r.nTrial)
    (hpd : ∀ sid name d1, PDist r sid name d1 → PDist r' sid name d1) (hpc : PC r')
    (htv : ∀ i, r'.trialView i = if i = tid then (r.trialView i).map f else r.trialView i)
    (hunf : ∀ t, a.trial? tid = some t → (f t).state.isFinished = false → (f t).values = none)
    (hnan : ∀ t l, a.trial? tid = some t → (f t).values = some l → ∀ v ∈ l, v ≠ XVal.nan) :
    Abs r' (a.updTrial tid f) := by
  obtain ⟨e1, e2, e3, e4⟩ := hstud
  have htr : ∀ i, (a.updTrial tid f).trial? i = if i = tid then (a.trial? i).map f else a.trial? i :=
    fun i => trial?_updTrial a tid i f hf
  refine ⟨hinv, ?_, ?_, ?_, ?_, ?_, ?_, hpc, ?_, ?_, ?_⟩
  · rw [updTrial_studies, hn.1]; exact h.nStudies
  · rw [updTrial_trials, updAt_length, hn.2]; exact h.nTrials
  · intro sid
    rw [updTrial_study?, h.study sid]
    simp only [State.studyView, State.studyRow?, frozenStudy, e1, e2, e3, e4]
  · intro i
    rw [htr i, htv i, h.trial i]
  · intro i t hi
    rw [updTrial_trials, updAt_getElem?] at hi
    rw [updTrial_studies]
    split at hi
    · cases hg : a.trials[i]? with
      | none => simp [hg] at hi
      | some t0 =>
        simp only [hg, Option.map_some, Option.some.injEq] at hi
        rw [← hi, hf]; exact h.bound i t0 hg
    · exact h.bound i t hi
  · intro sid st name d1 hs hp
    rw [updTrial_study?] at hs
    exact hpd sid name d1 (h.pdist sid st name d1 hs hp)
  · intro i t hi hfin
    rw [htr i] at hi
    split at hi
    · rename_i e
      subst e
      cases ht : a.trial? i with
      | none => simp [ht] at hi
      | some t0 =>
        simp only [ht, Option.map_some, Option.some.injEq] at hi
        subst hi
        exact hunf t0 ht hfin
    · exact h.unfin i t hi hfin
  · intro i t l hi hl
    rw [htr i] at hi
    split at hi
    · rename_i e
      subst e
      cases ht : a.trial? i with
      | none => simp [ht] at hi
      | some t0 =>
        simp only [ht, Option.map_some, Option.some.injEq] at hi
        subst hi
        exact hnan t0 l ht hl
    · exact h.nonan i t l hi hl
  · intro sid st hs
    rw [updTrial_study?] at hs
    exact h.dirsOk sid st hs

/-- the view of every trial after one trial-side table changed for owner `tid` only -/
theorem trialView_of_rowView (r r' : State) (tid : Nat) (f : TrialS → TrialS) (ht : r'.trials = r.trials)
    (hrow : ∀ row, r'.rowView row = if row.id = tid then f (r.rowView row) else r.rowView row) (i : Nat) :
    r'.trialView i = if i = tid then (r.trialView i).map f else r.trialView i := by
  unfold State.trialView State.trialRow?
  rw [ht]
  cases hq : r.trials.find? (fun x => x.id == i) with
  | none => simp
  | some row =>
    have hid : row.id = i := by simpa using List.find?_some hq
    simp only [Option.map_some, hrow row, hid]
    split <;> rfl

/-! ## set_trial_user_attr / set_trial_system_attr / set_trial_intermediate_value -/

theorem sim_setTrialAttr (sys : Bool) (r : State) (a : Spec) (h : Abs r a) (tid : Nat) (k v : String) :
    StepOk r a (if sys then .setTrialSystemAttr tid k v else .setTrialUserAttr tid k v) := by
  have hinv' := inv_step r (if sys then .setTrialSystemAttr tid k v else .setTrialUserAttr tid k v) h.inv
  unfold StepOk
  cases sys
  · simp only [Bool.false_eq_true, if_false, withRaised] at hinv' ⊢
    simp only [step, Storage.step, nc, setTAttrNC] at hinv' ⊢
    rcases updatable_abs r a h tid with ⟨row, h1, h2, h3⟩ | ⟨e, h1, h2⟩
    · simp only [h1, h3, commit, Bool.false_eq_true, if_false] at hinv' ⊢
      refine ⟨?_, by simp [Allowed]⟩
      apply abs_updTrial r _ a h hinv' tid (fun t => { t with userAttrs := t.userAttrs.set k v }) (fun _ => rfl) ⟨rfl, rfl, rfl, rfl⟩ ⟨rfl, rfl⟩ (fun _ _ _ hp => hp) h.pc
      · refine trialView_of_rowView r _ tid _ (by rfl) ?_
        intro row'
        have hk := Tbl.kv_upsertConflict id r.tUser r.nTUser h.inv.1.tUser tid k v row'.id
        by_cases e : row'.id = tid
        · simp only [e, if_true, kvSet_string, id_eq] at hk ⊢
          simp only [State.rowView, State.valuesView, State.interView, hk, e]
        · simp only [e, if_false] at hk ⊢
          simp only [State.rowView, State.valuesView, State.interView, hk]
      · intro t ht hfin; exact h.unfin tid t ht hfin
      · intro t l ht hl; exact h.nonan tid t l ht hl
    · simp only [h1, h2, commit]
      exact ⟨h, by simp [Allowed]⟩
  · simp only [if_true, withRaised] at hinv' ⊢
    simp only [step, Storage.step, nc, setTAttrNC] at hinv' ⊢
    rcases updatable_abs r a h tid with ⟨row, h1, h2, h3⟩ | ⟨e, h1, h2⟩
    · simp only [h1, h3, commit, if_true] at hinv' ⊢
      refine ⟨?_, by simp [Allowed]⟩
      apply abs_updTrial r _ a h hinv' tid (fun t => { t with systemAttrs := t.systemAttrs.set k v }) (fun _ => rfl) ⟨rfl, rfl, rfl, rfl⟩ ⟨rfl, rfl⟩ (fun _ _ _ hp => hp) h.pc
      · refine trialView_of_rowView r _ tid _ (by rfl) ?_
        intro row'
        have hk := Tbl.kv_upsertConflict id r.tSys r.nTSys h.inv.1.tSys tid k v row'.id
        by_cases e : row'.id = tid
        · simp only [e, if_true, kvSet_string, id_eq] at hk ⊢
          simp only [State.rowView, State.valuesView, State.interView, hk, e]
        · simp only [e, if_false] at hk ⊢
          simp only [State.rowView, State.valuesView, State.interView, hk]
      · intro t ht hfin; exact h.unfin tid t ht hfin
      · intro t l ht hl; exact h.nonan tid t l ht hl
    · simp only [h1, h2, commit]
      exact ⟨h, by simp [Allowed]⟩

theorem sim_setTrialInter (r : State) (a : Spec) (h : Abs r a) (tid : Nat) (stp : Int) (v : XVal) :
    StepOk r a (.setTrialInter tid stp v) := by
  have hinv' := inv_step r (.setTrialInter tid stp v) h.inv
  unfold StepOk
  simp only [withRaised]
  simp only [step, Storage.step, nc, setInterNC, Tbl.upsert_eq r.inters r.nInter h.inv.1.inters] at hinv' ⊢
  rcases updatable_abs r a h tid with ⟨row, h1, h2, h3⟩ | ⟨e, h1, h2⟩
  · simp only [h1, h3, commit] at hinv' ⊢
    refine ⟨?_, by simp [Allowed]⟩
    apply abs_updTrial r _ a h hinv' tid (fun t => { t with inter := setInter t.inter stp v }) (fun _ => rfl) ⟨rfl, rfl, rfl, rfl⟩ ⟨rfl, rfl⟩ (fun _ _ _ hp => hp) h.pc
    · refine trialView_of_rowView r _ tid _ (by rfl) ?_
      intro row'
      have hk := Tbl.kv_upsertConflict decI r.inters r.nInter h.inv.1.inters tid stp (encI v) row'.id
      by_cases e : row'.id = tid
      · simp only [e, if_true, decI_encI] at hk ⊢
        simp only [State.rowView, State.valuesView, interView_eq, hk, e,
          sequence_kvSet _ _ _ (kv_decI_some r h.inv.1 tid), kvSet_int]
      · simp only [e, if_false] at hk ⊢
        simp only [State.rowView, State.valuesView, interView_eq, hk]
    · intro t ht hfin; exact h.unfin tid t ht hfin
    · intro t l ht hl; exact h.nonan tid t l ht hl
  · simp only [h1, h2, commit]
    exact ⟨h, by simp [Allowed]⟩

end OptunaVerif.Rdb
