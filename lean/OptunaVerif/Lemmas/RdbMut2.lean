import OptunaVerif.Lemmas.RdbMut1
/-! Refinement, part 4: `set_study_user_attr`, `set_study_system_attr`, `create_new_study`,
`delete_study`.  Core Lean only. -/
set_option linter.unusedSimpArgs false
set_option linter.unusedSectionVars false
set_option linter.unusedVariables false
namespace OptunaVerif.Rdb
open OptunaVerif OptunaVerif.Storage

theorem studyView_eq (s : State) (h : Inv0 s) (i : Nat) :
    s.studyView i = (s.studyRow? i).map (fun row => StudyS.mk row.name ((Tbl.ofOwner s.dirs row.id).map (fun x => x.val))
      (Tbl.kv id s.sUser row.id) (Tbl.kv id s.sSys row.id) []) := by
  unfold State.studyView
  cases s.studyRow? i with
  | none => rfl
  | some row => simp only [Option.map_some, frozenStudy_eq s h row]

/-! ## set_study_user_attr / set_study_system_attr -/

theorem abs_updStudy (r r' : State) (a : Spec) (h : Abs r a) (hinv : Inv r') (sid : Nat) (f : StudyS → StudyS)
    (hf : ∀ st, (f st).directions = st.directions ∧ (f st).paramDist = st.paramDist)
    (hcomm : ∀ st, erasePD (f st) = f (erasePD st))
    (htrial : r'.trials = r.trials ∧ r'.params = r.params ∧ r'.values = r.values ∧ r'.inters = r.inters ∧
      r'.tUser = r.tUser ∧ r'.tSys = r.tSys)
    (hn : r'.nStudy = r.nStudy ∧ r'.nTrial = r.nTrial)
    (hsv : ∀ i, r'.studyView i = if i = sid then (r.studyView i).map f else r.studyView i) :
    Abs r' (a.updStudy sid f) := by
  obtain ⟨e1, e2, e3, e4, e5, e6⟩ := htrial
  have hst : ∀ i, (a.updStudy sid f).study? i = if i = sid then (a.study? i).map f else a.study? i :=
    fun i => Journal.study?_updStudy a sid i f
  have htv : ∀ i, r'.trialView i = r.trialView i := by
    intro i
    simp only [State.trialView, State.trialRow?, e1]
    cases r.trials.find? (fun x => x.id == i) with
    | none => rfl
    | some row => simp only [Option.map_some, State.rowView, State.valuesView, State.interView, e2, e3, e4, e5, e6]
  have hpc : PC r' := by
    have := h.pc
    simp only [PC, State.paramRowOf, State.trialStudy?, e1, e2] at this ⊢
    exact this
  refine ⟨hinv, ?_, ?_, ?_, ?_, ?_, ?_, hpc, ?_, ?_, ?_⟩
  · show (updAt a.studies sid _).length = _
    rw [updAt_length, hn.1]; exact h.nStudies
  · rw [updStudy_trials, hn.2]; exact h.nTrials
  · intro i
    rw [hst i, hsv i, ← h.study i]
    split
    · cases a.study? i with
      | none => rfl
      | some st => simp only [Option.map_some, hcomm]
    · rfl
  · intro i; rw [trial?_updStudy, htv i]; exact h.trial i
  · intro i t hi
    rw [updStudy_trials] at hi
    show _ < (updAt a.studies sid _).length
    rw [updAt_length]; exact h.bound i t hi
  · intro i st name d1 hs hp
    have hpd : PDist r' i name d1 ↔ PDist r i name d1 := by
      simp only [PDist, State.paramRowOf, State.trialStudy?, e1, e2]
    rw [hpd]
    rw [hst i] at hs
    split at hs
    · cases hs0 : a.study? i with
      | none => simp [hs0] at hs
      | some st0 =>
        simp only [hs0, Option.map_some, Option.some.injEq] at hs
        subst hs
        rw [(hf st0).2] at hp
        exact h.pdist i st0 name d1 hs0 hp
    · exact h.pdist i st name d1 hs hp
  · intro i t hi hfin; rw [trial?_updStudy] at hi; exact h.unfin i t hi hfin
  · intro i t l hi hl; rw [trial?_updStudy] at hi; exact h.nonan i t l hi hl
  · intro i st hs
    rw [hst i] at hs
    split at hs
    · cases hs0 : a.study? i with
      | none => simp [hs0] at hs
      | some st0 =>
        simp only [hs0, Option.map_some, Option.some.injEq] at hs
        subst hs
        rw [(hf st0).1]
        exact h.dirsOk i st0 hs0
    · exact h.dirsOk i st hs

theorem sim_setStudyAttr (sys : Bool) (r : State) (a : Spec) (h : Abs r a) (sid : Nat) (k v : String) :
    StepOk r a (if sys then .setStudySystemAttr sid k v else .setStudyUserAttr sid k v) := by
  have hinv' := inv_step r (if sys then .setStudySystemAttr sid k v else .setStudyUserAttr sid k v) h.inv
  unfold StepOk
  cases sys
  · simp only [Bool.false_eq_true, if_false, withRaised] at hinv' ⊢
    simp only [step, Storage.step, setStudyAttr, Tbl.upsert_eq r.sUser r.nSUser h.inv.1.sUser] at hinv' ⊢
    rcases findStudy_abs r a h sid with ⟨srow, st, h1, h2, h3, h4⟩ | ⟨h1, h2, _⟩
    · simp only [h1, h3, commit, Bool.false_eq_true, if_false] at hinv' ⊢
      refine ⟨?_, by simp [Allowed]⟩
      apply abs_updStudy r _ a h hinv' sid (fun st => { st with userAttrs := st.userAttrs.set k v })
        (fun _ => ⟨rfl, rfl⟩) (fun _ => rfl) ⟨rfl, rfl, rfl, rfl, rfl, rfl⟩ ⟨rfl, rfl⟩
      intro i
      rw [studyView_eq _ hinv'.1, studyView_eq r h.inv.1]
      show (r.studyRow? i).map _ = _
      cases hq : r.studyRow? i with
      | none => simp
      | some row =>
        have hid := (studyRow?_some r i row hq).2
        simp only [Option.map_some]
        rw [Tbl.kv_upsertConflict id r.sUser r.nSUser h.inv.1.sUser sid k v row.id, kvSet_string, hid]
        split
        · rename_i e; subst e; simp
        · rfl
    · simp only [h1, h2, commit]
      exact ⟨h, by simp [Allowed]⟩
  · simp only [if_true, withRaised] at hinv' ⊢
    simp only [step, Storage.step, setStudyAttr, Tbl.upsert_eq r.sSys r.nSSys h.inv.1.sSys] at hinv' ⊢
    rcases findStudy_abs r a h sid with ⟨srow, st, h1, h2, h3, h4⟩ | ⟨h1, h2, _⟩
    · simp only [h1, h3, commit, if_true] at hinv' ⊢
      refine ⟨?_, by simp [Allowed]⟩
      apply abs_updStudy r _ a h hinv' sid (fun st => { st with systemAttrs := st.systemAttrs.set k v })
        (fun _ => ⟨rfl, rfl⟩) (fun _ => rfl) ⟨rfl, rfl, rfl, rfl, rfl, rfl⟩ ⟨rfl, rfl⟩
      intro i
      rw [studyView_eq _ hinv'.1, studyView_eq r h.inv.1]
      show (r.studyRow? i).map _ = _
      cases hq : r.studyRow? i with
      | none => simp
      | some row =>
        have hid := (studyRow?_some r i row hq).2
        simp only [Option.map_some]
        rw [Tbl.kv_upsertConflict id r.sSys r.nSSys h.inv.1.sSys sid k v row.id, kvSet_string, hid]
        split
        · rename_i e; subst e; simp
        · rfl
    · simp only [h1, h2, commit]
      exact ⟨h, by simp [Allowed]⟩

/-! ## create_new_study -/

/-- a name is taken in the contract state iff a `studies` row carries it -/
theorem nameTaken_abs (r : State) (a : Spec) (h : Abs r a) (name : String) :
    a.nameTaken name = r.studies.any (fun x => x.name == name) := by
  rw [Bool.eq_iff_iff]
  unfold Spec.nameTaken
  simp only [List.any_eq_true, beq_iff_eq]
  constructor
  · rintro ⟨o, ho, hn⟩
    cases o with
    | none => simp at hn
    | some st =>
      simp only [beq_iff_eq] at hn
      obtain ⟨i, hi, hg⟩ := List.mem_iff_getElem.mp ho
      have hs : a.study? i = some st := by
        unfold Spec.study?; rw [List.getElem?_eq_getElem hi, hg]; rfl
      obtain ⟨row, h1, h2⟩ := abs_study_some r a h i st hs
      exact ⟨row, (studyRow?_some r i row h1).1, (frozen_fields r row st h2).1.trans hn⟩
  · rintro ⟨row, hm, hn⟩
    obtain ⟨st, h1, h2⟩ := abs_study_row r a h row.id row (studyRow?_of_mem r h.inv.1 row hm)
    refine ⟨some st, ?_, by simp [← (frozen_fields r row st h2).1, hn]⟩
    unfold Spec.study? at h1
    cases hg : a.studies[row.id]? with
    | none => simp [hg] at h1
    | some o => simp only [hg, Option.join_some] at h1; subst h1; exact List.mem_of_getElem? hg

theorem zipIdx_map_fst {α : Type} (l : List α) (k : Nat) : (l.zipIdx k).map (·.1) = l := by
  induction l generalizing k with
  | nil => rfl
  | cons a t ih => simp [List.zipIdx_cons, ih]

theorem sim_createStudy (r : State) (a : Spec) (h : Abs r a) (name : String) (dirs : List Nat)
    (hwf : WfOp (.createStudy name dirs)) : StepOk r a (.createStudy name dirs) := by
  have hinv' := inv_step r (.createStudy name dirs) h.inv
  unfold StepOk
  simp only [withRaised]
  simp only [step, Storage.step, createStudy, nameTaken_abs r a h name] at hinv' ⊢
  by_cases hany : (r.studies.any fun x => x.name == name) = true
  · simp only [hany, if_true, commit]
    exact ⟨h, by simp [Allowed]⟩
  · have hfree : r.studies.filter (fun x => x.name == name) = [] := by
      rw [List.filter_eq_nil_iff]
      intro x hx hn
      exact hany (List.any_eq_true.mpr ⟨x, hx, hn⟩)
    simp only [hany, Bool.false_eq_true, if_false, studyIdFromName, List.filter_append, hfree, List.nil_append,
      List.filter_cons, beq_self_eq_true, if_true, List.filter_nil, oneOrNone, commit] at hinv' ⊢
    rw [h.nStudies]
    refine ⟨?_, by simp [Allowed]⟩
    have hi0 := h.inv.1
    -- no row of a child table of `studies` is owned by the new id
    have hnew : ∀ {κ ν : Type} [DecidableEq κ] (t : List (KRow κ ν)), Fk r.studyIds t → Tbl.ofOwner t r.nStudy = [] := by
      intro κ ν _ t hfk
      unfold Tbl.ofOwner
      rw [List.filter_eq_nil_iff]
      intro x hx ho
      simp only [beq_iff_eq] at ho
      obtain ⟨srow, hsr, e⟩ := List.mem_map.mp (hfk x hx)
      have := hi0.studiesBelow srow hsr
      omega
    have hrow? : ∀ i, (r.studies ++ [({ id := r.nStudy, name := name } : StudyRow)]).find? (fun x => x.id == i) =
        if i = r.nStudy then some { id := r.nStudy, name := name } else r.studyRow? i := by
      intro i
      rw [List.find?_append]
      by_cases hi : i = r.nStudy
      · subst hi
        have : r.studies.find? (fun x => x.id == r.nStudy) = none := by
          rw [List.find?_eq_none]
          intro x hx
          have := hi0.studiesBelow x hx
          simp; omega
        simp [this]
      · simp only [hi, if_false]
        unfold State.studyRow?
        cases r.studies.find? (fun x => x.id == i) with
        | some x => rfl
        | none => simp [Ne.symm hi]
    refine ⟨hinv', ?_, ?_, ?_, ?_, ?_, ?_, h.pc, ?_, ?_, ?_⟩
    · simp [h.nStudies]
    · exact h.nTrials
    · intro i
      rw [study?_append, studyView_eq _ hinv'.1]
      show _ = ((r.studies ++ [_]).find? _).map _
      rw [hrow? i, h.nStudies]
      by_cases hi : i = r.nStudy
      · subst hi
        simp only [if_true, Option.map_some, erasePD]
        congr 1
        have e1 : Tbl.ofOwner (r.dirs ++ dirs.zipIdx.map (fun p => ({ id := r.nDir + p.2, owner := r.nStudy, key := p.2, val := p.1 } : KRow Nat Nat))) r.nStudy =
            dirs.zipIdx.map (fun p => ({ id := r.nDir + p.2, owner := r.nStudy, key := p.2, val := p.1 } : KRow Nat Nat)) := by
          rw [Tbl.ofOwner_append, hnew r.dirs hi0.dirsFk, List.nil_append]
          unfold Tbl.ofOwner
          rw [List.filter_eq_self]
          intro x hx
          obtain ⟨p, _, e⟩ := List.mem_map.mp hx
          rw [← e]; simp
        simp only [e1, List.map_map, Tbl.kv, hnew r.sUser hi0.sUserFk, hnew r.sSys hi0.sSysFk, List.map_nil]
        have : (List.map ((fun x : KRow Nat Nat => x.val) ∘ fun p : Nat × Nat => ({ id := r.nDir + p.2, owner := r.nStudy, key := p.2, val := p.1 } : KRow Nat Nat)) dirs.zipIdx) = dirs := by
          show List.map (fun p : Nat × Nat => p.1) (dirs.zipIdx 0) = dirs
          exact zipIdx_map_fst dirs 0
        rw [this]
      · simp only [hi, if_false]
        rw [h.study i, studyView_eq r hi0]
        cases hq : r.studyRow? i with
        | none => rfl
        | some row =>
          simp only [Option.map_some]
          have hid := (studyRow?_some r i row hq).2
          have hne : row.id ≠ r.nStudy := by rw [hid]; exact hi
          have e1 : Tbl.ofOwner (r.dirs ++ dirs.zipIdx.map (fun p => ({ id := r.nDir + p.2, owner := r.nStudy, key := p.2, val := p.1 } : KRow Nat Nat))) row.id =
              Tbl.ofOwner r.dirs row.id := by
            rw [Tbl.ofOwner_append]
            have : Tbl.ofOwner (dirs.zipIdx.map (fun p => ({ id := r.nDir + p.2, owner := r.nStudy, key := p.2, val := p.1 } : KRow Nat Nat))) row.id = [] := by
              unfold Tbl.ofOwner
              rw [List.filter_eq_nil_iff]
              intro x hx
              obtain ⟨p, _, e⟩ := List.mem_map.mp hx
              rw [← e]; simp [Ne.symm hne]
            rw [this, List.append_nil]
          rw [e1]
    · intro i
      rw [trial?_appendStudy a _ i h.bound]
      exact h.trial i
    · intro i t hi
      have := h.bound i t hi
      simp only [List.length_append, List.length_singleton]; omega
    · intro i st nm d1 hs hp
      rw [study?_append] at hs
      split at hs
      · simp only [Option.some.injEq] at hs; subst hs; simp [AList.get?] at hp
      · exact h.pdist i st nm d1 hs hp
    · intro i t hi hfin
      rw [trial?_appendStudy a _ i h.bound] at hi; exact h.unfin i t hi hfin
    · intro i t l hi hl
      rw [trial?_appendStudy a _ i h.bound] at hi; exact h.nonan i t l hi hl
    · intro i st hs
      rw [study?_append] at hs
      split at hs
      · simp only [Option.some.injEq] at hs; subst hs; exact hwf
      · exact h.dirsOk i st hs

end OptunaVerif.Rdb
