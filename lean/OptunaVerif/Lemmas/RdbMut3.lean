import OptunaVerif.Lemmas.RdbMut2
/-! Refinement, part 5: `delete_study` (the ORM cascade against "a deleted study and its trials are
gone").  Core Lean only. -/
set_option linter.unusedSimpArgs false
set_option linter.unusedSectionVars false
set_option linter.unusedVariables false
namespace OptunaVerif.Rdb
open OptunaVerif OptunaVerif.Storage

/-- looking a primary key up after a DELETE … WHERE ¬keep -/
theorem find?_filter_id {α : Type} (f : α → Nat) (keep : α → Bool) (l : List α) (h : l.Pairwise (fun a b => f a < f b)) (i : Nat) :
    (l.filter keep).find? (fun x => f x == i) = (l.find? (fun x => f x == i)).filter keep := by
  induction l with
  | nil => rfl
  | cons x t ih =>
    rw [List.pairwise_cons] at h
    by_cases hk : keep x = true
    · simp only [List.filter_cons, hk, if_true, List.find?_cons]
      by_cases hx : f x = i
      · simp [hx, Option.filter, hk]
      · have : (f x == i) = false := by simpa using hx
        simp only [this]; exact ih h.2
    · have hk' : keep x = false := by simpa using hk
      simp only [List.filter_cons, hk', Bool.false_eq_true, if_false, List.find?_cons]
      by_cases hx : f x = i
      · have hnone : t.find? (fun y => f y == i) = none := by
          rw [List.find?_eq_none]
          intro y hy
          have := h.1 y hy
          simp; omega
        rw [ih h.2, hnone]
        simp [hx, Option.filter, hk']
      · have : (f x == i) = false := by simpa using hx
        simp only [this]; exact ih h.2

/-- a query whose hits all survive a DELETE finds the same row afterwards -/
theorem find?_filter_same {α : Type} (keep P P' : α → Bool) (l : List α)
    (h1 : ∀ x ∈ l, P x = true → keep x = true) (h2 : ∀ x ∈ l, keep x = true → P' x = P x) :
    (l.filter keep).find? P' = l.find? P := by
  induction l with
  | nil => rfl
  | cons x t ih =>
    have iht := ih (fun y hy => h1 y (List.mem_cons_of_mem _ hy)) (fun y hy => h2 y (List.mem_cons_of_mem _ hy))
    by_cases hk : keep x = true
    · simp only [List.filter_cons, hk, if_true, List.find?_cons, h2 x (by simp) hk, iht]
    · have hk' : keep x = false := by simpa using hk
      have hp : P x = false := by
        cases hpx : P x with
        | false => rfl
        | true => exact absurd (h1 x (by simp) hpx) hk
      simp only [List.filter_cons, hk', Bool.false_eq_true, if_false, List.find?_cons, hp, iht]

theorem sim_deleteStudy (r : State) (a : Spec) (h : Abs r a) (sid : Nat) : StepOk r a (.deleteStudy sid) := by
  have hinv' := inv_step r (.deleteStudy sid) h.inv
  unfold StepOk
  simp only [withRaised]
  simp only [step, Storage.step, deleteStudy] at hinv' ⊢
  rcases findStudy_abs r a h sid with ⟨srow, st, h1, h2, h3, h4⟩ | ⟨h1, h2, _⟩
  rotate_left
  · simp only [h1, h2, commit]; exact ⟨h, by simp [Allowed]⟩
  simp only [h1, h3, commit] at hinv' ⊢
  refine ⟨?_, by simp [Allowed]⟩
  have hi0 := h.inv.1
  -- the deleted trial ids are exactly the ids of the rows of the study
  have hdead : ∀ row ∈ r.trials, ((r.trials.filter (fun x => x.study == sid)).map (·.id)).contains row.id = (row.study == sid) := by
    intro row hrow
    rw [Bool.eq_iff_iff]
    simp only [List.contains_iff_mem, List.mem_map, List.mem_filter, beq_iff_eq]
    constructor
    · rintro ⟨row', ⟨hm, hs⟩, hid⟩
      have : row' = row := by
        rcases pairwise_mem_cases hi0.trialsSorted hm hrow with e | e | e
        · exact e
        · omega
        · omega
      rw [← this]; exact hs
    · intro hs; exact ⟨row, ⟨hrow, hs⟩, rfl⟩
  -- the rows of the tables after the cascade
  have hrowT : ∀ i, (r.trials.filter (fun x => !(x.study == sid))).find? (fun x => x.id == i) =
      (r.trialRow? i).filter (fun x => !(x.study == sid)) :=
    fun i => find?_filter_id (fun x : TrialRow => x.id) _ r.trials hi0.trialsSorted i
  have hrowS : ∀ i, (r.studies.filter (fun x => !(x.id == sid))).find? (fun x => x.id == i) =
      (r.studyRow? i).filter (fun x => !(x.id == sid)) :=
    fun i => find?_filter_id (fun x : StudyRow => x.id) _ r.studies hi0.studiesSorted i
  -- rows of `trial_params` after the cascade are rows before it, of the same study
  have hback : ∀ i nm x, State.paramRowOf { r with
        studies := r.studies.filter (fun x => !(x.id == sid)),
        dirs := Tbl.dropOwners r.dirs [sid], sUser := Tbl.dropOwners r.sUser [sid],
        sSys := Tbl.dropOwners r.sSys [sid],
        trials := r.trials.filter (fun x => !(x.study == sid)),
        params := Tbl.dropOwners r.params ((r.trials.filter (fun x => x.study == sid)).map (·.id)),
        values := Tbl.dropOwners r.values ((r.trials.filter (fun x => x.study == sid)).map (·.id)),
        inters := Tbl.dropOwners r.inters ((r.trials.filter (fun x => x.study == sid)).map (·.id)),
        tUser := Tbl.dropOwners r.tUser ((r.trials.filter (fun x => x.study == sid)).map (·.id)),
        tSys := Tbl.dropOwners r.tSys ((r.trials.filter (fun x => x.study == sid)).map (·.id)),
        beats := Tbl.dropOwners r.beats ((r.trials.filter (fun x => x.study == sid)).map (·.id)) } i nm x →
      r.paramRowOf i nm x := by
    rintro i nm x ⟨hxm, hxk, hxs⟩
    refine ⟨((Tbl.mem_dropOwners _ _ _).mp hxm).1, hxk, ?_⟩
    have hxs' : (((r.trials.filter (fun x => !(x.study == sid))).find? (fun y => y.id == x.owner)).map (·.study)) = some i := hxs
    rw [hrowT x.owner] at hxs'
    rw [trialStudy?_eq]
    cases hq : r.trialRow? x.owner with
    | none => simp [hq, Option.filter] at hxs'
    | some row =>
      simp only [hq, Option.filter] at hxs'
      split at hxs'
      · simpa using hxs'
      · simp at hxs'
  refine ⟨hinv', ?_, ?_, ?_, ?_, ?_, ?_, fun i nm x y hx hy => h.pc i nm x y (hback i nm x hx) (hback i nm y hy), ?_, ?_, ?_⟩
  · show (updAt a.studies sid _).length = _
    rw [updAt_length]; exact h.nStudies
  · exact h.nTrials
  · intro i
    rw [study?_delete, studyView_eq _ hinv'.1]
    show _ = ((r.studies.filter _).find? _).map _
    rw [hrowS i]
    by_cases hi : i = sid
    · subst hi
      simp only [if_true, Option.map_none]
      cases hq : r.studyRow? i with
      | none => rfl
      | some row =>
        have hid := (studyRow?_some r i row hq).2
        simp [Option.filter, hid]
    · simp only [hi, if_false]
      rw [h.study i, studyView_eq r hi0]
      cases hq : r.studyRow? i with
      | none => rfl
      | some row =>
        have hid := (studyRow?_some r i row hq).2
        subst hid
        have hc : ([sid] : List Nat).contains row.id = false := by simp [hi]
        have hb : (row.id == sid) = false := by simpa using hi
        simp only [Option.filter, hb, Bool.not_false, if_true, Option.map_some, Tbl.kv,
          Tbl.ofOwner_dropOwners, hc, Bool.false_eq_true, if_false]
  · intro i
    rw [trial?_delete, h.trial i]
    show _ = ((r.trials.filter _).find? _).map _
    rw [hrowT i]
    unfold State.trialView
    cases hq : r.trialRow? i with
    | none => rfl
    | some row =>
      obtain ⟨hm, hid⟩ := trialRow?_some r i row hq
      by_cases hs : row.study = sid
      · simp [Option.filter, State.rowView, hs]
      · have hd := hdead row hm
        have hd' : ((r.trials.filter (fun x => x.study == sid)).map (·.id)).contains row.id = false := by
          rw [hd]; simpa using hs
        have hb : (row.study == sid) = false := by simpa using hs
        have hb2 : ((r.rowView row).study == sid) = false := hb
        simp only [Option.map_some, Option.filter, hb, hb2, Bool.not_false, if_true, Option.some.injEq]
        have := rowView_congr r { r with
            studies := r.studies.filter (fun x => !(x.id == sid)),
            dirs := Tbl.dropOwners r.dirs [sid], sUser := Tbl.dropOwners r.sUser [sid],
            sSys := Tbl.dropOwners r.sSys [sid],
            trials := r.trials.filter (fun x => !(x.study == sid)),
            params := Tbl.dropOwners r.params ((r.trials.filter (fun x => x.study == sid)).map (·.id)),
            values := Tbl.dropOwners r.values ((r.trials.filter (fun x => x.study == sid)).map (·.id)),
            inters := Tbl.dropOwners r.inters ((r.trials.filter (fun x => x.study == sid)).map (·.id)),
            tUser := Tbl.dropOwners r.tUser ((r.trials.filter (fun x => x.study == sid)).map (·.id)),
            tSys := Tbl.dropOwners r.tSys ((r.trials.filter (fun x => x.study == sid)).map (·.id)),
            beats := Tbl.dropOwners r.beats ((r.trials.filter (fun x => x.study == sid)).map (·.id)) } row
          (by simp only [Tbl.ofOwner_dropOwners, hd', Bool.false_eq_true, if_false])
          (by simp only [Tbl.ofOwner_dropOwners, hd', Bool.false_eq_true, if_false])
          (by simp only [Tbl.ofOwner_dropOwners, hd', Bool.false_eq_true, if_false])
          (by simp only [Tbl.ofOwner_dropOwners, hd', Bool.false_eq_true, if_false])
          (by simp only [Tbl.ofOwner_dropOwners, hd', Bool.false_eq_true, if_false])
        exact this.symm
  · intro i t hi
    show _ < (updAt a.studies sid _).length
    rw [updAt_length]; exact h.bound i t hi
  · intro i st' nm d1 hs hp
    rw [study?_delete] at hs
    split at hs
    · simp at hs
    · rename_i hne
      obtain ⟨x0, hx0, hcx0⟩ := h.pdist i st' nm d1 hs hp
      -- a row of a surviving study survives the cascade and keeps its study
      have hkeep : ∀ x, r.paramRowOf i nm x →
          State.paramRowOf { r with
            studies := r.studies.filter (fun x => !(x.id == sid)),
            dirs := Tbl.dropOwners r.dirs [sid], sUser := Tbl.dropOwners r.sUser [sid],
            sSys := Tbl.dropOwners r.sSys [sid],
            trials := r.trials.filter (fun x => !(x.study == sid)),
            params := Tbl.dropOwners r.params ((r.trials.filter (fun x => x.study == sid)).map (·.id)),
            values := Tbl.dropOwners r.values ((r.trials.filter (fun x => x.study == sid)).map (·.id)),
            inters := Tbl.dropOwners r.inters ((r.trials.filter (fun x => x.study == sid)).map (·.id)),
            tUser := Tbl.dropOwners r.tUser ((r.trials.filter (fun x => x.study == sid)).map (·.id)),
            tSys := Tbl.dropOwners r.tSys ((r.trials.filter (fun x => x.study == sid)).map (·.id)),
            beats := Tbl.dropOwners r.beats ((r.trials.filter (fun x => x.study == sid)).map (·.id)) } i nm x := by
        rintro x ⟨hxm, hxk, hxs⟩
        rw [trialStudy?_eq] at hxs
        cases hq : r.trialRow? x.owner with
        | none => simp [hq] at hxs
        | some row =>
          simp only [hq, Option.map_some, Option.some.injEq] at hxs
          obtain ⟨hm, hid⟩ := trialRow?_some r x.owner row hq
          have hd := hdead row hm
          rw [hid] at hd
          have hb : (row.study == sid) = false := by rw [hxs]; simpa using hne
          refine ⟨?_, hxk, ?_⟩
          · rw [Tbl.mem_dropOwners]
            refine ⟨hxm, ?_⟩
            intro hc
            have : ((r.trials.filter (fun x => x.study == sid)).map (·.id)).contains x.owner = true := by
              simpa using hc
            rw [hd, hb] at this; simp at this
          · show (((r.trials.filter _).find? _).map _) = _
            rw [hrowT x.owner, hq]
            have hb' : (i == sid) = false := by simpa using hne
            simp only [Option.filter, hxs, hb', Bool.not_false, if_true, Option.map_some]
      exact ⟨x0, hkeep x0 hx0, hcx0⟩
  · intro i t hi hfin
    rw [trial?_delete] at hi
    cases ht : a.trial? i with
    | none => simp [ht] at hi
    | some t0 =>
      simp only [ht, Option.filter] at hi
      split at hi
      · simp only [Option.some.injEq] at hi; subst hi; exact h.unfin i t0 ht hfin
      · simp at hi
  · intro i t l hi hl
    rw [trial?_delete] at hi
    cases ht : a.trial? i with
    | none => simp [ht] at hi
    | some t0 =>
      simp only [ht, Option.filter] at hi
      split at hi
      · simp only [Option.some.injEq] at hi; subst hi; exact h.nonan i t0 l ht hl
      · simp at hi
  · intro i st' hs
    rw [study?_delete] at hs
    split at hs
    · simp at hs
    · exact h.dirsOk i st' hs

end OptunaVerif.Rdb
