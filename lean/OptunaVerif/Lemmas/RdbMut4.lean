import OptunaVerif.Lemmas.RdbMut3
/-! Refinement, part 6: `set_trial_param` — the compatibility check against an arbitrary earlier row
of the study (looseness U1 of the contract).  Core Lean only. -/
set_option linter.unusedSimpArgs false
set_option linter.unusedSectionVars false
set_option linter.unusedVariables false
namespace OptunaVerif.Rdb
open OptunaVerif OptunaVerif.Storage

/-! ## rows of a table after an upsert -/

namespace Tbl
variable {κ ν : Type} [DecidableEq κ]

theorem mem_upsertConflict (t : List (KRow κ ν)) (n o : Nat) (k : κ) (v : ν) (x : KRow κ ν)
    (hx : x ∈ (upsertConflict t n o k v).1) :
    (x.owner = o ∧ x.key = k ∧ x.val = v) ∨ (x ∈ t ∧ ¬(x.owner = o ∧ x.key = k)) := by
  unfold upsertConflict at hx
  split at hx
  · rename_i he
    rcases List.mem_append.mp hx with hx | hx
    · exact .inr ⟨hx, (atKey_isEmpty_iff t o k).mp he x hx⟩
    · simp only [List.mem_singleton] at hx; subst hx; exact .inl ⟨rfl, rfl, rfl⟩
  · obtain ⟨x0, hx0, e⟩ := List.mem_map.mp hx
    by_cases hm : x0.owner = o ∧ x0.key = k
    · left
      have : (x0.owner == o && decide (x0.key = k)) = true := by simp [hm.1, hm.2]
      rw [← e]; simp only [this, if_true]; exact ⟨hm.1, hm.2, trivial⟩
    · right
      have : (x0.owner == o && decide (x0.key = k)) = false := by
        simp only [Bool.and_eq_false_iff, beq_eq_false_iff_ne, decide_eq_false_iff_not]
        by_cases ho : x0.owner = o
        · exact .inr (fun hk => hm ⟨ho, hk⟩)
        · exact .inl ho
      rw [← e]; simp only [this, Bool.false_eq_true, if_false]; exact ⟨hx0, hm⟩

theorem upsertConflict_has (t : List (KRow κ ν)) (n o : Nat) (k : κ) (v : ν) :
    ∃ x ∈ (upsertConflict t n o k v).1, x.owner = o ∧ x.key = k ∧ x.val = v := by
  unfold upsertConflict
  split
  · exact ⟨{ id := n, owner := o, key := k, val := v }, by simp, rfl, rfl, rfl⟩
  · rename_i hne
    have hex : ∃ r ∈ t, r.owner = o ∧ r.key = k := by
      apply Classical.byContradiction
      intro hc
      apply hne
      rw [atKey_isEmpty_iff]
      intro r hr hm
      exact hc ⟨r, hr, hm⟩
    obtain ⟨x0, hx0, ho, hk⟩ := hex
    refine ⟨{ x0 with val := v }, ?_, ho, hk, rfl⟩
    refine List.mem_map.mpr ⟨x0, hx0, ?_⟩
    simp [ho, hk]

theorem upsertConflict_keeps (t : List (KRow κ ν)) (n o : Nat) (k : κ) (v : ν) (x : KRow κ ν) (hx : x ∈ t)
    (hne : ¬(x.owner = o ∧ x.key = k)) : x ∈ (upsertConflict t n o k v).1 := by
  unfold upsertConflict
  split
  · exact List.mem_append.mpr (.inl hx)
  · refine List.mem_map.mpr ⟨x, hx, ?_⟩
    have : (x.owner == o && decide (x.key = k)) = false := by
      simp only [Bool.and_eq_false_iff, beq_eq_false_iff_ne, decide_eq_false_iff_not]
      by_cases ho : x.owner = o
      · exact .inr (fun hk => hne ⟨ho, hk⟩)
      · exact .inl ho
    simp [this]

end Tbl

/-! ## the compatibility query -/

theorem prevDist_some (s : State) (sid : Nat) (name : String) (d0 : Dist) (h : s.prevDist sid name = some d0) :
    ∃ x, s.paramRowOf sid name x ∧ x.val.dist = d0 := by
  unfold State.prevDist at h
  cases hf : s.params.find? (fun p => decide (p.key = name) && s.trialStudy? p.owner == some sid) with
  | none => simp [hf] at h
  | some x =>
    simp only [hf, Option.map_some, Option.some.injEq] at h
    have hp := List.find?_some hf
    simp only [Bool.and_eq_true, decide_eq_true_eq, beq_iff_eq] at hp
    exact ⟨x, ⟨List.mem_of_find?_eq_some hf, hp.1, hp.2⟩, h⟩

theorem prevDist_none (s : State) (sid : Nat) (name : String) (h : s.prevDist sid name = none) :
    ∀ x, ¬ s.paramRowOf sid name x := by
  unfold State.prevDist at h
  simp only [Option.map_eq_none_iff] at h
  intro x ⟨hm, hk, hs⟩
  have := List.find?_eq_none.mp h x hm
  simp [hk, hs] at this

/-- what an accepted compatibility check means: every row of the study for the name is compatible -/
theorem accepted_all (s : State) (hpc : PC s) (sid : Nat) (name : String) (d : Dist)
    (hacc : checkCompat s sid name d = .ok ()) : ∀ x, s.paramRowOf sid name x → x.val.dist.compat d = true := by
  intro x hx
  unfold checkCompat at hacc
  cases hp : s.prevDist sid name with
  | none => exact absurd hx (prevDist_none s sid name hp x)
  | some d0 =>
    simp only [hp] at hacc
    split at hacc
    · rename_i hc
      obtain ⟨x0, hx0, e⟩ := prevDist_some s sid name d0 hp
      have := hpc sid name x x0 hx hx0
      rw [e] at this
      exact Journal.compat_trans' _ _ _ this hc
    · simp at hacc

theorem compat_refl' (d : Dist) : d.compat d = true := by
  unfold Dist.compat; split <;> simp

/-- **one accepted parameter write** keeps pairwise compatibility and everything the contract has fixed,
and fixes the new distribution -/
theorem param_step (s : State) (tid : Nat) (row : TrialRow) (hrow : s.trialRow? tid = some row)
    (name : String) (p : Param) (hpc : PC s) (hacc : checkCompat s row.study name p.dist = .ok ()) :
    let s' : State := { s with params := (Tbl.upsertConflict s.params s.nParam tid name p).1,
                               nParam := (Tbl.upsertConflict s.params s.nParam tid name p).2 }
    PC s' ∧ (∀ sid nm d1, PDist s sid nm d1 → PDist s' sid nm d1) ∧ PDist s' row.study name p.dist := by
  intro s'
  have hall := accepted_all s hpc row.study name p.dist hacc
  have hts : s.trialStudy? tid = some row.study := by rw [trialStudy?_eq, hrow]; rfl
  -- a row of the new table is the written row, or an old row other than the overwritten one
  have hcases : ∀ sid nm x, s'.paramRowOf sid nm x →
      (x.val = p ∧ nm = name ∧ sid = row.study) ∨ s.paramRowOf sid nm x := by
    rintro sid nm x ⟨hm, hk, hs⟩
    rcases Tbl.mem_upsertConflict s.params s.nParam tid name p x hm with ⟨ho, hk2, hv⟩ | ⟨hm0, _⟩
    · left
      have hs' : s.trialStudy? x.owner = some sid := hs
      rw [ho, hts] at hs'
      exact ⟨hv, hk.symm.trans hk2, by simpa using hs'.symm⟩
    · exact .inr ⟨hm0, hk, hs⟩
  refine ⟨?_, ?_, ?_⟩
  · intro sid nm x y hx hy
    rcases hcases sid nm x hx with ⟨ex, en, es⟩ | hx0 <;> rcases hcases sid nm y hy with ⟨ey, en', es'⟩ | hy0
    · rw [ex, ey]; exact compat_refl' _
    · subst en es; rw [ex]; exact Journal.compat_symm' _ _ (hall y hy0)
    · subst en' es'; rw [ey]; exact hall x hx0
    · exact hpc sid nm x y hx0 hy0
  · rintro sid nm d1 ⟨x0, ⟨hm0, hk0, hs0⟩, hc0⟩
    by_cases hov : x0.owner = tid ∧ x0.key = name
    · -- the witness row is the one overwritten: the written row takes its place
      obtain ⟨xn, hxn, ho, hk, hv⟩ := Tbl.upsertConflict_has s.params s.nParam tid name p
      have hsid : sid = row.study := by
        rw [hov.1, hts] at hs0; simpa using hs0.symm
      have hnm : nm = name := hk0.symm.trans hov.2
      refine ⟨xn, ⟨hxn, hk.trans hnm.symm, ?_⟩, ?_⟩
      · show s.trialStudy? xn.owner = some sid
        rw [ho, hts, hsid]
      · rw [hv]
        have h1 := hall x0 ⟨hm0, hnm ▸ hk0, hsid ▸ hs0⟩
        exact Journal.compat_trans' _ _ _ (Journal.compat_symm' _ _ h1) hc0
    · exact ⟨x0, ⟨Tbl.upsertConflict_keeps s.params s.nParam tid name p x0 hm0 hov, hk0, hs0⟩, hc0⟩
  · obtain ⟨xn, hxn, ho, hk, hv⟩ := Tbl.upsertConflict_has s.params s.nParam tid name p
    refine ⟨xn, ⟨hxn, hk, ?_⟩, by rw [hv]; exact compat_refl' _⟩
    show s.trialStudy? xn.owner = some row.study
    rw [ho, hts]

/-- `_set_trial_param_without_commit` when the trial is writable -/
theorem setParamNC_eq (s : State) (h : Inv0 s) (tid : Nat) (name : String) (p : Param) (row : TrialRow)
    (hu : updatableTrial s tid = .ok row) :
    setParamNC s tid name p = match checkCompat s row.study name p.dist with
      | .error f => .error f
      | .ok _ => .ok { s with params := (Tbl.upsertConflict s.params s.nParam tid name p).1,
                              nParam := (Tbl.upsertConflict s.params s.nParam tid name p).2 } := by
  have hup := Tbl.upsert_eq s.params s.nParam h.params tid name p
  unfold Tbl.upsert at hup
  unfold setParamNC
  simp only [hu]
  cases ho : oneOrNone (Tbl.atKey s.params tid name) with
  | error f => simp [ho] at hup
  | ok x =>
    simp only [ho] at hup ⊢
    cases x with
    | none =>
      simp only [Except.ok.injEq] at hup ⊢
      cases checkCompat s row.study name p.dist with
      | error f => rfl
      | ok u => simp only [Except.ok.injEq]; rw [← hup]
    | some x =>
      simp only [Except.ok.injEq] at hup ⊢
      cases checkCompat s row.study name p.dist with
      | error f => rfl
      | ok u => simp only [Except.ok.injEq]; rw [← hup]

/-- a row the compatibility query can return, with an incompatible distribution, is a template conflict
in the eyes of the contract -/
theorem templateConflict_of_row (r : State) (a : Spec) (h : Abs r a) (sid : Nat) (name : String) (d : Dist)
    (hlive : (a.study? sid).isSome = true) (x : KRow String Param) (hx : r.paramRowOf sid name x)
    (hc : x.val.dist.compat d = false) : a.templateConflict sid name d = true := by
  obtain ⟨hm, hk, hs⟩ := hx
  rw [trialStudy?_eq] at hs
  cases hq : r.trialRow? x.owner with
  | none => simp [hq] at hs
  | some row0 =>
    simp only [hq, Option.map_some, Option.some.injEq] at hs
    obtain ⟨hm0, hid0⟩ := trialRow?_some r x.owner row0 hq
    unfold Spec.templateConflict
    rw [abs_trialsOf r a h sid hlive]
    simp only [List.any_eq_true, List.mem_map, List.mem_filter, beq_iff_eq]
    refine ⟨(row0.id, r.rowView row0), ⟨row0, ⟨hm0, hs⟩, rfl⟩, ?_⟩
    have hget : (r.rowView row0).params.get? name = some x.val := by
      simp only [State.rowView, get?_kv, hid0]
      cases hf : r.params.find? (fun y => y.owner == x.owner && decide (y.key = name)) with
      | none =>
        have := List.find?_eq_none.mp hf x hm
        simp [hk] at this
      | some y =>
        have hy := List.find?_some hf
        simp only [Bool.and_eq_true, beq_iff_eq, decide_eq_true_eq] at hy
        have hym := List.mem_of_find?_eq_some hf
        have : y = x := by
          rcases pairwise_mem_cases h.inv.1.params.uniq hym hm with e | e | e
          · exact e
          · exact absurd ⟨hy.1, hy.2.trans hk.symm⟩ e
          · exact absurd ⟨hy.1.symm, hk.trans hy.2.symm⟩ e
        rw [this]; rfl
    simp [hget, hc]

theorem abs_setParamDist (r : State) (a : Spec) (h : Abs r a) (sid : Nat) (name : String) (d : Dist)
    (hp : PDist r sid name d) :
    Abs r (a.updStudy sid (fun st => { st with paramDist := st.paramDist.set name d })) := by
  have hst : ∀ i, (a.updStudy sid (fun st => { st with paramDist := st.paramDist.set name d })).study? i =
      if i = sid then (a.study? i).map (fun st => { st with paramDist := st.paramDist.set name d }) else a.study? i :=
    fun i => Journal.study?_updStudy a sid i _
  refine ⟨h.inv, ?_, ?_, ?_, ?_, ?_, ?_, h.pc, ?_, ?_, ?_⟩
  · show (updAt a.studies sid _).length = _
    rw [updAt_length]; exact h.nStudies
  · exact h.nTrials
  · intro i
    rw [hst i, ← h.study i]
    split
    · cases a.study? i with
      | none => rfl
      | some st => rfl
    · rfl
  · intro i; rw [trial?_updStudy]; exact h.trial i
  · intro i t hi
    show _ < (updAt a.studies sid _).length
    rw [updAt_length]; exact h.bound i t hi
  · intro i st nm d1 hs hpd
    rw [hst i] at hs
    split at hs
    · rename_i e
      cases hs0 : a.study? i with
      | none => simp [hs0] at hs
      | some st0 =>
        simp only [hs0, Option.map_some, Option.some.injEq] at hs
        subst hs
        simp only at hpd
        by_cases hn : nm = name
        · subst hn
          rw [AList.get?_set_same] at hpd
          simp only [Option.some.injEq] at hpd
          subst hpd
          rw [e]; exact hp
        · rw [AList.get?_set_other _ _ _ _ hn] at hpd
          exact h.pdist i st0 nm d1 hs0 hpd
    · exact h.pdist i st nm d1 hs hpd
  · intro i t hi hfin; rw [trial?_updStudy] at hi; exact h.unfin i t hi hfin
  · intro i t l hi hl; rw [trial?_updStudy] at hi; exact h.nonan i t l hi hl
  · intro i st hs
    rw [hst i] at hs
    split at hs
    · cases hs0 : a.study? i with
      | none => simp [hs0] at hs
      | some st0 =>
        simp only [hs0, Option.map_some, Option.some.injEq] at hs
        subst hs
        exact h.dirsOk i st0 hs0
    · exact h.dirsOk i st hs

theorem sim_setTrialParam (r : State) (a : Spec) (h : Abs r a) (tid : Nat) (name : String) (p : Param) (ir : Bool) :
    StepOk r a (.setTrialParam tid name p ir) := by
  have hinv' := inv_step r (.setTrialParam tid name p ir) h.inv
  unfold StepOk
  simp only [withRaised]
  simp only [step, nc] at hinv' ⊢
  rcases updatable_abs r a h tid with ⟨row, h1, h2, h3⟩ | ⟨e, h1, h2⟩
  · rw [setParamNC_eq r h.inv.1 tid name p row h1] at hinv' ⊢
    have hlive := abs_row_study_live r a h row (trialRow?_some r tid row h2).1
    obtain ⟨st, hst⟩ := Option.isSome_iff_exists.mp hlive
    have hstudy : (r.rowView row).study = row.study := rfl
    cases hcc : checkCompat r row.study name p.dist with
    | error f =>
      -- rejected: the contract rejects too (fixed conflict, or template conflict with the hint set)
      have hf : f = .api .valueError ∧ ∃ d0, r.prevDist row.study name = some d0 ∧ d0.compat p.dist = false := by
        unfold checkCompat at hcc
        cases hp : r.prevDist row.study name with
        | none => simp [hp] at hcc
        | some d0 =>
          simp only [hp] at hcc
          split at hcc
          · simp at hcc
          · rename_i hc
            simp only [Except.error.injEq] at hcc
            exact ⟨hcc.symm, d0, rfl, by simpa using hc⟩
      obtain ⟨ef, d0, hd0, hc0⟩ := hf
      subst ef
      obtain ⟨x, hx, ex⟩ := prevDist_some r row.study name d0 hd0
      have htc := templateConflict_of_row r a h row.study name p.dist hlive x hx (by rw [ex]; exact hc0)
      simp only [hcc, commit, raisedValueError, Storage.step, h3, hstudy, hst, htc, Bool.and_true, beq_self_eq_true]
      split
      · exact ⟨h, by simp [Allowed]⟩
      · simp only [if_true]; exact ⟨h, by simp [Allowed]⟩
    | ok u =>
      simp only [hcc, commit, raisedValueError] at hinv' ⊢
      have hnr : (Res.out Out.unit == Res.out (Out.err Err.valueError)) = false := by decide
      simp only [hnr, Storage.step, h3, hstudy, hst, Bool.and_false]
      obtain ⟨hpc', hpd', hnew⟩ := param_step r tid row h2 name p h.pc hcc
      -- nothing fixed by the contract conflicts with an accepted write
      have hfix : st.fixedConflict name p.dist = false := by
        unfold StudyS.fixedConflict
        cases hg : st.paramDist.get? name with
        | none => rfl
        | some d1 =>
          obtain ⟨x0, hx0, hc0⟩ := h.pdist row.study st name d1 hst hg
          have := accepted_all r h.pc row.study name p.dist hcc x0 hx0
          have : d1.compat p.dist = true :=
            Journal.compat_trans' _ _ _ (Journal.compat_symm' _ _ hc0) this
          simp [this]
      simp only [hfix, Bool.false_eq_true, if_false]
      refine ⟨?_, by simp [Allowed]⟩
      apply abs_setParamDist _ _ ?_ row.study name p.dist hnew
      apply abs_updTrial r _ a h hinv' tid (fun t => { t with params := t.params.set name p }) (fun _ => rfl)
        ⟨rfl, rfl, rfl, rfl⟩ ⟨rfl, rfl⟩ hpd' hpc'
      · refine trialView_of_rowView r _ tid _ (by rfl) ?_
        intro row'
        have hk := Tbl.kv_upsertConflict id r.params r.nParam h.inv.1.params tid name p row'.id
        by_cases e : row'.id = tid
        · simp only [e, if_true, kvSet_string, id_eq] at hk ⊢
          simp only [State.rowView, State.valuesView, State.interView, hk, e]
        · simp only [e, if_false] at hk ⊢
          simp only [State.rowView, State.valuesView, State.interView, hk]
      · intro t ht hfin; exact h.unfin tid t ht hfin
      · intro t l ht hl; exact h.nonan tid t l ht hl
  · have : setParamNC r tid name p = .error (.api e) := by
      unfold setParamNC; rw [h1]
    simp only [this, commit, Storage.step, h2]
    exact ⟨h, by simp [Allowed]⟩

end OptunaVerif.Rdb
