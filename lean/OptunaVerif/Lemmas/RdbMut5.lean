import OptunaVerif.Lemmas.RdbMut4
/-! Refinement, part 7: `set_trial_state_values` (values written objective by objective, then the single
conditional UPDATE).  Core Lean only. -/
set_option linter.unusedSimpArgs false
set_option linter.unusedSectionVars false
set_option linter.unusedVariables false
namespace OptunaVerif.Rdb
open OptunaVerif OptunaVerif.Storage

namespace Tbl
variable {κ ν : Type} [DecidableEq κ]

/-- an upsert for owner `o` leaves the rows of every other owner alone -/
theorem ofOwner_upsertConflict_other (t : List (KRow κ ν)) (n o : Nat) (k : κ) (v : ν) (o' : Nat) (hne : o' ≠ o) :
    ofOwner (upsertConflict t n o k v).1 o' = ofOwner t o' := by
  unfold upsertConflict
  split
  · rw [ofOwner_append]
    have : ofOwner [({ id := n, owner := o, key := k, val := v } : KRow κ ν)] o' = [] := by
      simp [ofOwner, Ne.symm hne]
    rw [this, List.append_nil]
  · unfold ofOwner
    rw [List.filter_map]
    have hf : (fun r : KRow κ ν => r.owner == o') ∘ (fun r => if r.owner == o && decide (r.key = k) then { r with val := v } else r) =
        (fun r : KRow κ ν => r.owner == o') := by
      funext r; simp only [Function.comp]; split <;> rfl
    rw [hf]
    refine (List.map_congr_left ?_).trans (List.map_id _)
    intro x hx
    have hxo : x.owner = o' := by simpa using (List.mem_filter.mp hx).2
    have : (x.owner == o) = false := by simp [hxo, hne]
    simp [this]

end Tbl

/-! ## the values of a trial -/

theorem valuesView_kv (s : State) (tid : Nat) :
    s.valuesView tid = match Tbl.kv id s.values tid with
      | [] => none
      | l => some (l.filterMap (fun p => decV p.2)) := by
  unfold State.valuesView Tbl.kv
  cases Tbl.ofOwner s.values tid with
  | nil => rfl
  | cons x rest =>
    show some ((x :: rest).filterMap (fun r => decV r.val)) =
      some (((x :: rest).map (fun r => (r.key, id r.val))).filterMap (fun p => decV p.2))
    rw [List.filterMap_map]
    rfl

theorem decode_written (l : List XVal) (i : Nat) :
    ((l.zipIdx i).map (fun p => (p.2, encV p.1))).filterMap (fun p => decV p.2) = l := by
  induction l generalizing i with
  | nil => rfl
  | cons v t ih => simp [List.zipIdx_cons, decV_encV, ih (i + 1)]

theorem keys_of_kv (s : State) (h : Inv0 s) (tid : Nat) :
    (Tbl.kv id s.values tid).map (·.1) = List.range (Tbl.ofOwner s.values tid).length := by
  rw [← h.objectives tid]; simp [Tbl.kv]

/-- `for objective, v in enumerate(values): _set_trial_value_without_commit(...)` on a writable trial whose
value rows are objectives `0 … i-1` appends the rows for objectives `i, i+1, …` -/
theorem setValuesNC_spec (s : State) (h : Inv0 s) (tid : Nat) (row : TrialRow) (hu : updatableTrial s tid = .ok row)
    (i : Nat) (l : List XVal) (hlen : (Tbl.ofOwner s.values tid).length = i) :
    ∃ V N, setValuesNC s tid i l = .ok { s with values := V, nValue := N } ∧
      Tbl.kv id V tid = Tbl.kv id s.values tid ++ (l.zipIdx i).map (fun p => (p.2, encV p.1)) ∧
      ∀ o, o ≠ tid → Tbl.ofOwner V o = Tbl.ofOwner s.values o := by
  induction l generalizing s i with
  | nil => exact ⟨s.values, s.nValue, rfl, by simp, fun _ _ => rfl⟩
  | cons v rest ih =>
    have h1 : setValueNC s tid i v = .ok { s with
        values := (Tbl.upsertConflict s.values s.nValue tid i (encV v)).1,
        nValue := (Tbl.upsertConflict s.values s.nValue tid i (encV v)).2 } := by
      unfold setValueNC
      simp only [hu, Tbl.upsert_eq s.values s.nValue h.values]
    obtain ⟨hinv1, _⟩ := inv0_setValueNC s h tid i v _ (by omega) h1
    have hkv1 : Tbl.kv id (Tbl.upsertConflict s.values s.nValue tid i (encV v)).1 tid =
        Tbl.kv id s.values tid ++ [(i, encV v)] := by
      rw [Tbl.kv_upsertConflict id s.values s.nValue h.values tid i (encV v) tid]
      simp only [if_true, id_eq]
      apply kvSet_not_mem
      intro p hp hk
      have : p.1 ∈ (Tbl.kv id s.values tid).map (·.1) := List.mem_map.mpr ⟨p, hp, rfl⟩
      rw [keys_of_kv s h tid, hlen, List.mem_range] at this
      omega
    have hlen1 : (Tbl.ofOwner (Tbl.upsertConflict s.values s.nValue tid i (encV v)).1 tid).length = i + 1 := by
      have := congrArg List.length hkv1
      simp only [Tbl.kv, List.length_map, List.length_append, List.length_singleton] at this
      omega
    obtain ⟨V, N, e, hkv, hoth⟩ := ih _ hinv1 (show updatableTrial _ tid = .ok row from hu) (i + 1) hlen1
    refine ⟨V, N, ?_, ?_, ?_⟩
    · simp only [setValuesNC, h1]; exact e
    · rw [hkv, hkv1]; simp [List.zipIdx_cons]
    · intro o ho
      rw [hoth o ho]
      exact Tbl.ofOwner_upsertConflict_other s.values s.nValue tid i (encV v) o ho

/-! ## rewriting the `trials` row -/

theorem trialView_of_map (r r' : State) (tid : Nat) (g : TrialRow → TrialRow) (f : TrialS → TrialS)
    (ht : r'.trials = r.trials.map g) (hgid : ∀ x, (g x).id = x.id)
    (hrow : ∀ row ∈ r.trials, r'.rowView (g row) = if row.id = tid then f (r.rowView row) else r.rowView row) (i : Nat) :
    r'.trialView i = if i = tid then (r.trialView i).map f else r.trialView i := by
  unfold State.trialView State.trialRow?
  rw [ht, List.find?_map]
  have hp : (fun x : TrialRow => x.id == i) ∘ g = (fun x => x.id == i) := by
    funext x; simp [Function.comp, hgid]
  rw [hp]
  cases hq : r.trials.find? (fun x => x.id == i) with
  | none => simp
  | some row =>
    have hid : row.id = i := by simpa using List.find?_some hq
    simp only [Option.map_some, hrow row (List.mem_of_find?_eq_some hq), hid]
    split <;> rfl

theorem trialStudy?_map (s : State) (g : TrialRow → TrialRow) (hg : ∀ x, (g x).id = x.id ∧ (g x).study = x.study) (i : Nat) :
    ({ s with trials := s.trials.map g } : State).trialStudy? i = s.trialStudy? i := by
  unfold State.trialStudy?
  simp only [List.find?_map]
  have hp : (fun x : TrialRow => x.id == i) ∘ g = (fun x => x.id == i) := by
    funext x; simp [Function.comp, (hg x).1]
  rw [hp]
  cases s.trials.find? (fun x => x.id == i) with
  | none => rfl
  | some x => simp [(hg x).2]

theorem paramRowOf_congr (s s' : State) (hp : s'.params = s.params) (ht : ∀ i, s'.trialStudy? i = s.trialStudy? i)
    (sid : Nat) (nm : String) (x : KRow String Param) : s'.paramRowOf sid nm x ↔ s.paramRowOf sid nm x := by
  unfold State.paramRowOf; rw [hp, ht]

theorem pdist_congr (s s' : State) (hp : s'.params = s.params) (ht : ∀ i, s'.trialStudy? i = s.trialStudy? i) :
    (∀ sid nm d1, PDist s sid nm d1 → PDist s' sid nm d1) ∧ (PC s → PC s') := by
  refine ⟨?_, ?_⟩
  · rintro sid nm d1 ⟨x, hx, hc⟩
    exact ⟨x, (paramRowOf_congr s s' hp ht sid nm x).mpr hx, hc⟩
  · intro hpc sid nm x y hx hy
    exact hpc sid nm x y ((paramRowOf_congr s s' hp ht sid nm x).mp hx) ((paramRowOf_congr s s' hp ht sid nm y).mp hy)

/-! ## set_trial_state_values -/

theorem sim_setTrialStateValues (r : State) (a : Spec) (h : Abs r a) (tid : Nat) (st : TState)
    (values : Option (List XVal)) (hwf : WfOp (.setTrialStateValues tid st values)) :
    StepOk r a (.setTrialStateValues tid st values) := by
  have hinv' := inv_step r (.setTrialStateValues tid st values) h.inv
  unfold StepOk
  simp only [withRaised]
  simp only [step, setTrialStateValues, Storage.step] at hinv' ⊢
  rcases updatable_abs r a h tid with ⟨row, h1, h2, h3⟩ | ⟨e, h1, h2⟩
  rotate_left
  · simp only [h1, h2, commit]; exact ⟨h, by simp [Allowed]⟩
  obtain ⟨hrm, hrid⟩ := trialRow?_some r tid row h2
  have hnf : row.state.isFinished = false := (updatableTrial_ok r h.inv.1 tid row h1).2.1
  have hat : a.trial? tid = some (r.rowView row) := abs_trial_row r a h tid row h2
  have hnov : r.valuesView tid = none := by
    have := h.unfin tid _ hat hnf
    simpa [State.rowView, hrid] using this
  have hempty : Tbl.ofOwner r.values tid = [] := by
    unfold State.valuesView at hnov
    cases hq : Tbl.ofOwner r.values tid with
    | nil => rfl
    | cons x t => simp [hq] at hnov
  simp only [h1, h3] at hinv' ⊢
  have hstate : (r.rowView row).state = row.state := rfl
  -- the values part
  obtain ⟨V, N, hV, hkv, hoth⟩ : ∃ V N, writeValuesNC r tid values = Except.ok { r with values := V, nValue := N } ∧
      Tbl.kv id V tid = (match values with | none => [] | some l => (l.zipIdx 0).map (fun p => (p.2, encV p.1))) ∧
      ∀ o, o ≠ tid → Tbl.ofOwner V o = Tbl.ofOwner r.values o := by
    cases values with
    | none => exact ⟨r.values, r.nValue, rfl, by simp [Tbl.kv, hempty], fun _ _ => rfl⟩
    | some l =>
      obtain ⟨V, N, e, hk, ho⟩ := setValuesNC_spec r h.inv.1 tid row h1 0 l (by simp [hempty])
      exact ⟨V, N, e, by rw [hk]; simp [Tbl.kv, hempty], ho⟩
  simp only [hV] at hinv' ⊢
  by_cases hA : (st == .running && row.state != .waiting) = true
  · -- refused claim: under the calling convention no values come with RUNNING
    have hvn : values = none := by
      cases values with
      | none => rfl
      | some l =>
        exfalso
        have hfin : st.isFinished = true := hwf.2.1
        simp only [Bool.and_eq_true, beq_iff_eq] at hA
        rw [hA.1] at hfin; simp [TState.isFinished] at hfin
    subst hvn
    simp only [writeValuesNC, Except.ok.injEq] at hV
    simp only [hA, hstate, if_true, commit, ← hV]
    exact ⟨h, by simp [Allowed]⟩
  · have hA' : (st == .running && row.state != .waiting) = false := by simpa using hA
    simp only [hA', hstate, Bool.false_eq_true, if_false] at hinv' ⊢
    -- the conditional UPDATE hits exactly the row of the trial
    have hhit : ((if st == .running then [TState.waiting] else [TState.running, TState.waiting]).contains row.state) = true := by
      cases hs : row.state <;> cases st <;> simp_all [TState.isFinished]
    have hnz : ((r.trials.filter (fun x => x.id == tid &&
        (if st == .running then [TState.waiting] else [TState.running, TState.waiting]).contains x.state)).length == 0) = false := by
      have : row ∈ r.trials.filter (fun x => x.id == tid &&
          (if st == .running then [TState.waiting] else [TState.running, TState.waiting]).contains x.state) :=
        List.mem_filter.mpr ⟨hrm, by simp only [hrid, beq_self_eq_true, Bool.true_and]; exact hhit⟩
      cases hq : r.trials.filter (fun x => x.id == tid &&
          (if st == .running then [TState.waiting] else [TState.running, TState.waiting]).contains x.state) with
      | nil => rw [hq] at this; simp at this
      | cons _ _ => simp
    simp only [hnz, Bool.false_eq_true, if_false, commit] at hinv' ⊢
    refine ⟨?_, by simp [Allowed]⟩
    have hgid : ∀ x : TrialRow, (if (x.id == tid && (if st == .running then [TState.waiting] else [TState.running, TState.waiting]).contains x.state) = true
        then ({ x with state := st, hasStart := x.hasStart || st == .running, hasComplete := x.hasComplete || st.isFinished } : TrialRow) else x).id = x.id ∧
        (if (x.id == tid && (if st == .running then [TState.waiting] else [TState.running, TState.waiting]).contains x.state) = true
        then ({ x with state := st, hasStart := x.hasStart || st == .running, hasComplete := x.hasComplete || st.isFinished } : TrialRow) else x).study = x.study := by
      intro x
      by_cases hc : (x.id == tid && (if st == .running then [TState.waiting] else [TState.running, TState.waiting]).contains x.state) = true
      · rw [if_pos hc]; exact ⟨rfl, rfl⟩
      · rw [if_neg hc]; exact ⟨rfl, rfl⟩
    have hcg := pdist_congr r _ (rfl : ({ r with values := V, nValue := N, trials := r.trials.map (fun x =>
        if (x.id == tid && (if st == .running then [TState.waiting] else [TState.running, TState.waiting]).contains x.state) = true
        then ({ x with state := st, hasStart := x.hasStart || st == .running, hasComplete := x.hasComplete || st.isFinished } : TrialRow) else x) } : State).params = r.params)
      (fun i => trialStudy?_map { r with values := V, nValue := N } _ hgid i)
    apply abs_updTrial r _ a h hinv' tid (fun t => { t with state := st, values := values.or t.values, hasStart := t.hasStart || st == .running, hasComplete := t.hasComplete || st.isFinished }) (fun _ => rfl)
      ⟨rfl, rfl, rfl, rfl⟩ ⟨rfl, rfl⟩ hcg.1 (hcg.2 h.pc)
    · refine trialView_of_map r _ tid _ _ (by rfl) (fun x => (hgid x).1) ?_
      intro row' hrow'
      by_cases e : row'.id = tid
      · have : row' = row := by
          rcases pairwise_mem_cases h.inv.1.trialsSorted hrow' hrm with e' | e' | e'
          · exact e'
          · omega
          · omega
        subst this
        simp only [e, beq_self_eq_true, Bool.true_and, hhit, if_true]
        simp only [State.rowView, State.interView, valuesView_kv, hkv, e]
        have hold : Tbl.kv id r.values tid = [] := by simp [Tbl.kv, hempty]
        rw [hold]
        cases values with
        | none => simp
        | some l =>
          have hl : l ≠ [] := hwf.1
          cases l with
          | nil => exact absurd rfl hl
          | cons v t =>
            have := decode_written (v :: t) 0
            simp only [List.zipIdx_cons, List.map_cons] at this ⊢
            simp only [this]
            rfl
      · have hb : (row'.id == tid) = false := by simpa using e
        simp only [hb, Bool.false_and, Bool.false_eq_true, if_false, e]
        exact rowView_congr r _ row' (hoth row'.id e) rfl rfl rfl rfl
    · intro t ht hfin
      rw [hat] at ht
      simp only [Option.some.injEq] at ht
      subst ht
      simp only at hfin ⊢
      cases values with
      | none =>
        exact h.unfin tid _ hat hnf
      | some l => exact absurd hwf.2.1 (by rw [hfin]; simp)
    · intro t l ht hl
      rw [hat] at ht
      simp only [Option.some.injEq] at ht
      subst ht
      simp only at hl
      cases values with
      | none =>
        exact h.nonan tid _ l hat hl
      | some l' =>
        have hl' : l' = l := by simpa [Option.or] using hl
        subst hl'
        exact hwf.2.2

end OptunaVerif.Rdb
