import OptunaVerif.Lemmas.RdbBulk
/-! Refinement, part 8: `create_new_trial`, with and without a template trial.  Core Lean only. -/
set_option linter.unusedSimpArgs false
set_option linter.unusedSectionVars false
set_option linter.unusedVariables false
namespace OptunaVerif.Rdb
open OptunaVerif OptunaVerif.Storage

/-! ## a new `trials` row -/

theorem fresh_owner {κ ν : Type} (r : State) (h : Inv0 r) (t : List (KRow κ ν)) (hfk : Fk r.trialIds t) :
    ∀ x ∈ t, x.owner ≠ r.nTrial := by
  intro x hx e
  obtain ⟨row, hrow, hid⟩ := List.mem_map.mp (hfk x hx)
  have := h.trialsBelow row hrow
  omega

theorem ofOwner_fresh {κ ν : Type} (r : State) (h : Inv0 r) (t : List (KRow κ ν)) (hfk : Fk r.trialIds t) :
    Tbl.ofOwner t r.nTrial = [] := by
  unfold Tbl.ofOwner
  rw [List.filter_eq_nil_iff]
  intro x hx ho
  exact fresh_owner r h t hfk x hx (by simpa using ho)

theorem find?_ins (r : State) (h : Inv0 r) (row1 : TrialRow) (hid : row1.id = r.nTrial) (i : Nat) :
    (r.trials ++ [row1]).find? (fun x => x.id == i) = if i = r.nTrial then some row1 else r.trialRow? i := by
  rw [List.find?_append]
  by_cases hi : i = r.nTrial
  · subst hi
    have : r.trials.find? (fun x => x.id == r.nTrial) = none := by
      rw [List.find?_eq_none]
      intro x hx
      have := h.trialsBelow x hx
      simp; omega
    simp [this, hid]
  · simp only [hi, if_false]
    unfold State.trialRow?
    cases r.trials.find? (fun x => x.id == i) with
    | some x => rfl
    | none => simp [hid, Ne.symm hi]

/-- the general frame for a call that appends one trial -/
theorem abs_newTrial (r r' : State) (a : Spec) (h : Abs r a) (hinv : Inv r') (sid : Nat)
    (hlive : (a.study? sid).isSome = true) (newrow : TrialRow) (hnid : newrow.id = r.nTrial) (t : TrialS) (ht : t.study = sid)
    (htrials : r'.trials = r.trials ++ [newrow])
    (hstud : r'.studies = r.studies ∧ r'.dirs = r.dirs ∧ r'.sUser = r.sUser ∧ r'.sSys = r.sSys)
    (hn : r'.nStudy = r.nStudy ∧ r'.nTrial = r.nTrial + 1)
    (hnewview : r'.rowView newrow = t)
    (holdview : ∀ row ∈ r.trials, r'.rowView row = r.rowView row)
    (hpd : ∀ sid nm d1, PDist r sid nm d1 → PDist r' sid nm d1) (hpc : PC r')
    (hunf : t.state.isFinished = false → t.values = none) (hnan : ∀ l, t.values = some l → ∀ v ∈ l, v ≠ XVal.nan) :
    Abs r' { a with trials := a.trials ++ [t] } := by
  obtain ⟨e1, e2, e3, e4⟩ := hstud
  have hlive' : (a.study? t.study).isSome = true := by rw [ht]; exact hlive
  have htr : ∀ i, ({ a with trials := a.trials ++ [t] } : Spec).trial? i =
      if i = a.trials.length then some t else a.trial? i := fun i => trial?_appendTrial a t i hlive'
  refine ⟨hinv, ?_, ?_, ?_, ?_, ?_, ?_, hpc, ?_, ?_, ?_⟩
  · show a.studies.length = _; rw [hn.1]; exact h.nStudies
  · show (a.trials ++ [t]).length = _; simp [hn.2, h.nTrials]
  · intro i
    show (a.study? i).map erasePD = _
    rw [h.study i]
    simp only [State.studyView, State.studyRow?, frozenStudy, e1, e2, e3, e4]
  · intro i
    rw [htr i, h.nTrials]
    unfold State.trialView State.trialRow?
    rw [htrials, find?_ins r h.inv.1 newrow hnid i]
    by_cases hi : i = r.nTrial
    · simp [hi, hnewview]
    · simp only [hi, if_false]
      rw [h.trial i]
      unfold State.trialView
      cases hq : r.trialRow? i with
      | none => rfl
      | some row => simp only [Option.map_some, holdview row (trialRow?_some r i row hq).1]
  · intro i t' hi
    show _ < a.studies.length
    rcases Nat.lt_or_ge i a.trials.length with hlt | hge
    · rw [show ({ a with trials := a.trials ++ [t] } : Spec).trials = a.trials ++ [t] from rfl,
        List.getElem?_append_left hlt] at hi
      exact h.bound i t' hi
    · rw [show ({ a with trials := a.trials ++ [t] } : Spec).trials = a.trials ++ [t] from rfl,
        List.getElem?_append_right hge] at hi
      cases hk : i - a.trials.length with
      | zero =>
        simp only [hk, List.getElem?_cons_zero, Option.some.injEq] at hi
        subst hi
        rw [ht]
        obtain ⟨st, hst⟩ := Option.isSome_iff_exists.mp hlive
        unfold Spec.study? at hst
        cases hg : a.studies[sid]? with
        | none => simp [hg] at hst
        | some o => exact (List.getElem?_eq_some_iff.mp hg).1
      | succ k => simp [hk] at hi
  · intro i st nm d1 hs hp
    exact hpd i nm d1 (h.pdist i st nm d1 hs hp)
  · intro i t' hi hfin
    rw [htr i] at hi
    split at hi
    · simp only [Option.some.injEq] at hi; subst hi; exact hunf hfin
    · exact h.unfin i t' hi hfin
  · intro i t' l hi hl
    rw [htr i] at hi
    split at hi
    · simp only [Option.some.injEq] at hi; subst hi; exact hnan l hl
    · exact h.nonan i t' l hi hl
  · intro i st hs
    exact h.dirsOk i st hs

/-- the number `count_past_trials` gives the new trial is the number the contract gives it -/
theorem count_eq (r : State) (a : Spec) (h : Abs r a) (sid : Nat) (hlive : (a.study? sid).isSome = true) :
    (r.trials.filter (fun x => x.study == sid)).length = (a.trialsOf sid).length := by
  rw [abs_trialsOf r a h sid hlive]; simp

/-- `trial_params` rows and their studies after the INSERT of a `trials` row -/
theorem paramRowOf_ins (r r' : State) (h : Inv0 r) (row1 : TrialRow) (hid : row1.id = r.nTrial)
    (hp : r'.params = r.params) (ht : r'.trials = r.trials ++ [row1]) (sid : Nat) (nm : String)
    (x : KRow String Param) : r'.paramRowOf sid nm x ↔ r.paramRowOf sid nm x := by
  unfold State.paramRowOf State.trialStudy?
  rw [hp, ht]
  constructor
  · rintro ⟨hm, hk, hs⟩
    refine ⟨hm, hk, ?_⟩
    have hne := fresh_owner r h r.params h.paramsFk x hm
    rw [find?_ins r h row1 hid, if_neg hne] at hs
    exact hs
  · rintro ⟨hm, hk, hs⟩
    refine ⟨hm, hk, ?_⟩
    have hne := fresh_owner r h r.params h.paramsFk x hm
    rw [find?_ins r h row1 hid, if_neg hne]
    exact hs

theorem pdist_ins (r r' : State) (h : Inv0 r) (row1 : TrialRow) (hid : row1.id = r.nTrial)
    (hp : r'.params = r.params) (ht : r'.trials = r.trials ++ [row1]) :
    (∀ sid nm d1, PDist r sid nm d1 → PDist r' sid nm d1) ∧ (PC r → PC r') := by
  refine ⟨?_, ?_⟩
  · rintro sid nm d1 ⟨x, hx, hc⟩
    exact ⟨x, (paramRowOf_ins r r' h row1 hid hp ht sid nm x).mpr hx, hc⟩
  · intro hpc sid nm x y hx hy
    exact hpc sid nm x y ((paramRowOf_ins r r' h row1 hid hp ht sid nm x).mp hx)
      ((paramRowOf_ins r r' h row1 hid hp ht sid nm y).mp hy)

/-- … when the call leaves `trial_params` alone -/
theorem abs_newTrial' (r r' : State) (a : Spec) (h : Abs r a) (hinv : Inv r') (sid : Nat)
    (hlive : (a.study? sid).isSome = true) (newrow : TrialRow) (hnid : newrow.id = r.nTrial) (t : TrialS) (ht : t.study = sid)
    (htrials : r'.trials = r.trials ++ [newrow]) (hparams : r'.params = r.params)
    (hstud : r'.studies = r.studies ∧ r'.dirs = r.dirs ∧ r'.sUser = r.sUser ∧ r'.sSys = r.sSys)
    (hn : r'.nStudy = r.nStudy ∧ r'.nTrial = r.nTrial + 1)
    (hnewview : r'.rowView newrow = t)
    (holdview : ∀ row ∈ r.trials, r'.rowView row = r.rowView row)
    (hunf : t.state.isFinished = false → t.values = none) (hnan : ∀ l, t.values = some l → ∀ v ∈ l, v ≠ XVal.nan) :
    Abs r' { a with trials := a.trials ++ [t] } :=
  abs_newTrial r r' a h hinv sid hlive newrow hnid t ht htrials hstud hn hnewview holdview
    (pdist_ins r r' h.inv.1 newrow hnid hparams htrials).1 ((pdist_ins r r' h.inv.1 newrow hnid hparams htrials).2 h.pc) hunf hnan

theorem raised_newId (n : Nat) : raisedValueError (.out (.newId n)) = false := by
  simp [raisedValueError]

theorem sequence_map_some {κ β : Type} (l : List (κ × β)) :
    sequence (l.map (fun p => (p.1, some p.2))) = l := by
  induction l with
  | nil => rfl
  | cons a t ih =>
    simp only [sequence, List.map_cons, List.filterMap_cons, Option.map_some] at ih ⊢
    rw [ih]

/-- the `value`/`values` part of a template: under the calling convention it writes the whole list -/
theorem templateValuesNC_eq (s : State) (tid : Nat) (vs : Option (List XVal)) (hne : ∀ l, vs = some l → l ≠ []) :
    templateValuesNC s tid vs = writeValuesNC s tid vs := by
  cases vs with
  | none => rfl
  | some l =>
    cases l with
    | nil => exact absurd rfl (hne [] rfl)
    | cons v t =>
      cases t with
      | nil =>
        simp only [templateValuesNC, templateValue, writeValuesNC, setValuesNC]
        cases setValueNC s tid 0 v <;> rfl
      | cons w u => rfl


/-! ## create_new_trial without a template -/

theorem sim_createTrial_none (r : State) (a : Spec) (h : Abs r a) (sid : Nat) (ir : Bool) :
    StepOk r a (.createTrial sid none ir) := by
  have hinv' := inv_step r (.createTrial sid none ir) h.inv
  unfold StepOk
  simp only [withRaised]
  simp only [step, createTrial, Storage.step] at hinv' ⊢
  rcases findStudy_abs r a h sid with ⟨srow, st, h1, h2, h3, h4⟩ | ⟨h1, h2, _⟩
  rotate_left
  · simp only [h1, h2, commit]; exact ⟨h, by simp [Allowed]⟩
  have hlive : (a.study? sid).isSome = true := by simp [h3]
  simp only [h1, h3, prepareNewTrial, commit] at hinv' ⊢
  simp only [raised_newId, Bool.false_and, Bool.false_eq_true, if_false, Spec.tmplConflict]
  rw [h.nTrials]
  refine ⟨?_, by simp [Allowed]⟩
  have hcnt := count_eq r a h sid hlive
  have e_tr := finishNewTrial_trials r h.inv.1
    { id := r.nTrial, number := 0, study := sid, state := .running, hasStart := true, hasComplete := false }
    sid r.nTrial rfl rfl rfl (fun x => x.state)
  have hi0 := h.inv.1
  apply abs_newTrial' r _ a h hinv' sid hlive
    { id := r.nTrial, number := (r.trials.filter (fun x => x.study == sid)).length, study := sid, state := .running, hasStart := true, hasComplete := false }
    rfl _ (by rfl) e_tr rfl ⟨rfl, rfl, rfl, rfl⟩ ⟨rfl, rfl⟩
  · simp only [State.rowView, State.valuesView, State.interView, Tbl.kv, mkTrial,
      ofOwner_fresh r hi0 r.values hi0.valuesFk, ofOwner_fresh r hi0 r.params hi0.paramsFk,
      ofOwner_fresh r hi0 r.tUser hi0.tUserFk, ofOwner_fresh r hi0 r.tSys hi0.tSysFk,
      ofOwner_fresh r hi0 r.inters hi0.intersFk, hcnt, List.map_nil, List.filterMap_nil]
  · intro row _; exact rowView_congr r _ row rfl rfl rfl rfl rfl
  · intro _; rfl
  · intro l hl; simp [mkTrial] at hl


/-! ## create_new_trial with a template -/

/-- the rows `_set_trial_value_without_commit` writes for a template's values -/
def writtenValues : Option (List XVal) → List (Nat × SVal)
  | none => []
  | some l => (l.zipIdx 0).map (fun p => (p.2, encV p.1))

/-- the `trials` row inserted first (temporary state RUNNING) -/
def insRow (r : State) (sid : Nat) (t : Template) : TrialRow :=
  { id := r.nTrial, number := 0, study := sid, state := .running, hasStart := t.hasStart, hasComplete := t.hasComplete }

def insState (r : State) (sid : Nat) (t : Template) : State :=
  { r with trials := r.trials ++ [insRow r sid t], nTrial := r.nTrial + 1 }

theorem updatable_ins (r : State) (h : Inv0 r) (sid : Nat) (hsid : sid ∈ r.studyIds) (t : Template) :
    Inv0 (insState r sid t) ∧ (insState r sid t).trialRow? r.nTrial = some (insRow r sid t) ∧
    updatableTrial (insState r sid t) r.nTrial = .ok (insRow r sid t) := by
  have hi : Inv0 (insState r sid t) := inv0_insTrial r h (insRow r sid t) rfl hsid
  have hrow : (insState r sid t).trialRow? r.nTrial = some (insRow r sid t) := by
    show (r.trials ++ [insRow r sid t]).find? _ = _
    rw [find?_ins r h (insRow r sid t) rfl]; simp
  refine ⟨hi, hrow, ?_⟩
  unfold updatableTrial
  rw [findTrial_eq _ hi]
  have : (insState r sid t).trials.find? (fun x => x.id == r.nTrial) = some (insRow r sid t) := hrow
  simp [this, insRow, TState.isFinished]

/-- stage 2 of `_get_prepared_new_trial`: the values of the template -/
theorem prepare_values (r : State) (h : Inv0 r) (sid : Nat) (hsid : sid ∈ r.studyIds) (t : Template)
    (hne : ∀ l, t.values = some l → l ≠ []) :
    ∃ V N, templateValuesNC (insState r sid t) r.nTrial t.values = .ok { insState r sid t with values := V, nValue := N } ∧
      Inv0 { insState r sid t with values := V, nValue := N } ∧
      Tbl.kv id V r.nTrial = writtenValues t.values ∧ ∀ o, o ≠ r.nTrial → Tbl.ofOwner V o = Tbl.ofOwner r.values o := by
  obtain ⟨hi, hrow, hu⟩ := updatable_ins r h sid hsid t
  rw [templateValuesNC_eq _ _ _ hne]
  have hempty : Tbl.ofOwner r.values r.nTrial = [] := ofOwner_fresh r h r.values h.valuesFk
  cases hv : t.values with
  | none => exact ⟨r.values, r.nValue, rfl, hi, by simp [Tbl.kv, hempty, writtenValues], fun _ _ => rfl⟩
  | some l =>
    obtain ⟨V, N, e, hk, ho⟩ := setValuesNC_spec (insState r sid t) hi r.nTrial (insRow r sid t) hu 0 l
      (by show (Tbl.ofOwner r.values r.nTrial).length = 0; simp [hempty])
    refine ⟨V, N, e, ?_, ?_, ho⟩
    · exact (setValuesNC_induct (insState r sid t) hi r.nTrial 0 l _ (Nat.zero_le _) e).1
    · rw [hk]
      show Tbl.kv id r.values r.nTrial ++ _ = _
      simp [Tbl.kv, hempty, writtenValues]


/-- the `trials` row of the new trial once `_get_prepared_new_trial` is through -/
def newRow (r : State) (sid : Nat) (t : Template) : TrialRow :=
  { id := r.nTrial, number := (r.trials.filter (fun x => x.study == sid)).length, study := sid, state := t.state,
    hasStart := t.hasStart, hasComplete := t.hasComplete }

/-- what `_get_prepared_new_trial` does with a template: it either fails with `ValueError` because an
existing row of the study conflicts with one of the template's distributions, or it succeeds and the
tables are the old ones plus, for the new trial only, one row per field of the template. -/
theorem prepare_some (r : State) (hr : Inv r) (sid : Nat) (hsid : sid ∈ r.studyIds) (t : Template)
    (hd : distinctKeys t.params) (hne : ∀ l, t.values = some l → l ≠ []) :
    (prepareNewTrial r sid (some t) = .error (.api .valueError) ∧
      ∃ kp ∈ t.params, ∃ x, r.paramRowOf sid kp.1 x ∧ x.val.dist.compat kp.2.dist = false) ∨
    (∃ s', prepareNewTrial r sid (some t) = .ok (s', r.nTrial) ∧
      s'.trials = r.trials ++ [newRow r sid t] ∧
      (s'.studies = r.studies ∧ s'.dirs = r.dirs ∧ s'.sUser = r.sUser ∧ s'.sSys = r.sSys) ∧
      (s'.nStudy = r.nStudy ∧ s'.nTrial = r.nTrial + 1) ∧
      (Tbl.kv id s'.values r.nTrial = writtenValues t.values ∧ ∀ o, o ≠ r.nTrial → Tbl.ofOwner s'.values o = Tbl.ofOwner r.values o) ∧
      s'.params = (Tbl.bulk r.params r.nParam r.nTrial t.params).1 ∧
      s'.tUser = (Tbl.bulk r.tUser r.nTUser r.nTrial t.userAttrs).1 ∧
      s'.tSys = (Tbl.bulk r.tSys r.nTSys r.nTrial t.systemAttrs).1 ∧
      s'.inters = (Tbl.bulk r.inters r.nInter r.nTrial (t.inter.map (fun p => (p.1, encI p.2)))).1 ∧
      (PC r → ∀ kp ∈ t.params, ∀ x, r.paramRowOf sid kp.1 x → x.val.dist.compat kp.2.dist = true)) := by
  obtain ⟨hi1, hrow1, hu1⟩ := updatable_ins r hr.1 sid hsid t
  obtain ⟨V, N, e2, hi2, hkv, hoth⟩ := prepare_values r hr.1 sid hsid t hne
  -- PDist / PC across the INSERT of the trial row and the value rows
  have hins := pdist_ins r { insState r sid t with values := V, nValue := N } hr.1 (insRow r sid t) rfl rfl rfl
  have hback : ∀ nm x, r.paramRowOf sid nm x →
      State.paramRowOf { insState r sid t with values := V, nValue := N } sid nm x :=
    fun nm x hx => (paramRowOf_ins r { insState r sid t with values := V, nValue := N } hr.1 (insRow r sid t) rfl rfl rfl sid nm x).mpr hx
  have e_tr := finishNewTrial_trials r hr.1 (insRow r sid t) sid r.nTrial rfl rfl rfl (fun _ => t.state)
  unfold insState insRow at e2 hi2 hu1 hrow1 hins e_tr hback
  cases hp : prepareNewTrial r sid (some t) with
  | error f =>
    left
    unfold prepareNewTrial at hp
    dsimp only at hp
    simp only [e2] at hp
    split at hp
    · rename_i f3 h3
      simp only [Except.error.injEq] at hp
      subst hp
      obtain ⟨ef, kp, hkp, x, hx, hc⟩ := param_loop_err r.nTrial _ t.params _ hi2 hu1 hd f3 h3
      refine ⟨by rw [ef], kp, hkp, x, ?_, hc⟩
      obtain ⟨hm, hk, hs⟩ := hx
      refine ⟨hm, hk, ?_⟩
      have hne' := fresh_owner r hr.1 r.params hr.1.paramsFk x hm
      have hs' : ((r.trials ++ [({ id := r.nTrial, number := 0, study := sid, state := .running, hasStart := t.hasStart, hasComplete := t.hasComplete } : TrialRow)]).find? (fun y => y.id == x.owner)).map (·.study) = some sid := hs
      rw [find?_ins r hr.1 _ rfl, if_neg hne'] at hs'
      exact hs'
    · rename_i s3 h3
      have e3 := param_loop_shape r.nTrial _ t.params _ s3 hi2 hu1 h3
      subst e3
      split at hp
      · rename_i f4 h4
        have := h4.symm.trans (attr_loop false r.nTrial _ t.userAttrs _ hu1)
        simp at this
      rename_i s4 h4
      have e4 := h4.symm.trans (attr_loop false r.nTrial _ t.userAttrs _ hu1)
      simp only [Except.ok.injEq, Bool.false_eq_true, if_false] at e4
      subst e4
      split at hp
      · rename_i f5 h5
        have := h5.symm.trans (attr_loop true r.nTrial _ t.systemAttrs _ hu1)
        simp at this
      rename_i s5 h5
      have e5 := h5.symm.trans (attr_loop true r.nTrial _ t.systemAttrs _ hu1)
      simp only [Except.ok.injEq, if_true] at e5
      subst e5
      split at hp
      · rename_i f6 h6
        have := h6.symm.trans (inter_loop r.nTrial _ t.inter _ hu1 hr.1.inters)
        simp at this
      rename_i s6 h6
      have e6 := h6.symm.trans (inter_loop r.nTrial _ t.inter _ hu1 hr.1.inters)
      simp only [Except.ok.injEq] at e6
      subst e6
      simp at hp
  | ok x =>
    right
    obtain ⟨s', tid'⟩ := x
    unfold prepareNewTrial at hp
    dsimp only at hp
    simp only [e2] at hp
    split at hp
    · simp at hp
    · rename_i s3 h3
      have e3 := param_loop_shape r.nTrial _ t.params _ s3 hi2 hu1 h3
      subst e3
      split at hp
      · rename_i f4 h4
        have := h4.symm.trans (attr_loop false r.nTrial _ t.userAttrs _ hu1)
        simp at this
      rename_i s4 h4
      have e4 := h4.symm.trans (attr_loop false r.nTrial _ t.userAttrs _ hu1)
      simp only [Except.ok.injEq, Bool.false_eq_true, if_false] at e4
      subst e4
      split at hp
      · rename_i f5 h5
        have := h5.symm.trans (attr_loop true r.nTrial _ t.systemAttrs _ hu1)
        simp at this
      rename_i s5 h5
      have e5 := h5.symm.trans (attr_loop true r.nTrial _ t.systemAttrs _ hu1)
      simp only [Except.ok.injEq, if_true] at e5
      subst e5
      split at hp
      · rename_i f6 h6
        have := h6.symm.trans (inter_loop r.nTrial _ t.inter _ hu1 hr.1.inters)
        simp at this
      rename_i s6 h6
      have e6 := h6.symm.trans (inter_loop r.nTrial _ t.inter _ hu1 hr.1.inters)
      simp only [Except.ok.injEq] at e6
      subst e6
      simp only [Except.ok.injEq, Prod.mk.injEq] at hp
      obtain ⟨es, et⟩ := hp
      subst es et
      refine ⟨_, rfl, e_tr, ⟨rfl, rfl, rfl, rfl⟩, ⟨rfl, rfl⟩, ⟨hkv, hoth⟩, rfl, rfl, rfl, rfl, ?_⟩
      intro hpc0 kp hkp x hx
      exact (param_loop_ok r.nTrial _ t.params _ _ hi2 hrow1 hu1 hd (hins.2 hpc0) h3).2 kp hkp x (hback kp.1 x hx)


/-- pairwise compatibility and the contract's fixed distributions after the template's parameters were
inserted for the new trial -/
theorem bulk_params_pc (r s' : State) (hr : Inv0 r) (sid : Nat) (newrow : TrialRow) (hid : newrow.id = r.nTrial)
    (hst : newrow.study = sid) (l : List (String × Param)) (hd : l.Pairwise (fun a b => a.1 ≠ b.1))
    (hparams : s'.params = (Tbl.bulk r.params r.nParam r.nTrial l).1) (htrials : s'.trials = r.trials ++ [newrow])
    (hacc : ∀ kp ∈ l, ∀ x, r.paramRowOf sid kp.1 x → x.val.dist.compat kp.2.dist = true) (hpc : PC r) :
    PC s' ∧ ∀ sid' nm d1, PDist r sid' nm d1 → PDist s' sid' nm d1 := by
  have hfresh : ∀ p ∈ l, ∀ x ∈ r.params, ¬(x.owner = r.nTrial ∧ x.key = p.1) :=
    fun p _ x hx hc => fresh_owner r hr r.params hr.paramsFk x hx hc.1
  obtain ⟨_, _, _, hmem, hkeep⟩ := Tbl.bulk_spec id r.params r.nParam hr.params r.nTrial l hd hfresh
  have hts : ∀ i, s'.trialStudy? i = if i = r.nTrial then some sid else r.trialStudy? i := by
    intro i
    unfold State.trialStudy?
    rw [htrials, find?_ins r hr newrow hid i]
    split
    · simp [hst]
    · rfl
  -- a row of the new table: an old row of the same study, or a row of the new trial
  have hcases : ∀ sid' nm x, s'.paramRowOf sid' nm x →
      r.paramRowOf sid' nm x ∨ (sid' = sid ∧ (nm, x.val) ∈ l) := by
    rintro sid' nm x ⟨hm, hk, hs⟩
    rw [hparams] at hm
    rcases hmem x hm with hx0 | ⟨ho, hl⟩
    · left
      have hne := fresh_owner r hr r.params hr.paramsFk x hx0
      rw [hts, if_neg hne] at hs
      exact ⟨hx0, hk, hs⟩
    · right
      rw [hts, if_pos ho] at hs
      exact ⟨by simpa using hs.symm, by rw [← hk]; exact hl⟩
  have hold : ∀ sid' nm x, r.paramRowOf sid' nm x → s'.paramRowOf sid' nm x := by
    rintro sid' nm x ⟨hm, hk, hs⟩
    have hne := fresh_owner r hr r.params hr.paramsFk x hm
    refine ⟨by rw [hparams]; exact hkeep x hm, hk, ?_⟩
    rw [hts, if_neg hne]; exact hs
  refine ⟨?_, ?_⟩
  · intro sid' nm x y hx hy
    rcases hcases sid' nm x hx with hx0 | ⟨ex, hxl⟩ <;> rcases hcases sid' nm y hy with hy0 | ⟨ey, hyl⟩
    · exact hpc sid' nm x y hx0 hy0
    · subst ey; exact hacc (nm, y.val) hyl x hx0
    · subst ex; exact Journal.compat_symm' _ _ (hacc (nm, x.val) hxl y hy0)
    · have : x.val = y.val := by
        rcases pairwise_mem_cases hd hxl hyl with e | e | e
        · simpa using e
        · exact absurd rfl e
        · exact absurd rfl e
      rw [this]; exact compat_refl' _
  · rintro sid' nm d1 ⟨x, hx, hc⟩
    exact ⟨x, hold sid' nm x hx, hc⟩

/-- what the rows of the new trial read back as, and that nobody else's rows changed -/
theorem template_views (r s' : State) (hr : Inv0 r) (sid : Nat) (t : Template)
    (hdp : distinctKeys t.params) (hdu : distinctKeys t.userAttrs) (hds : distinctKeys t.systemAttrs)
    (hdi : distinctKeys t.inter) (hne : ∀ l, t.values = some l → l ≠ [])
    (hvals : Tbl.kv id s'.values r.nTrial = writtenValues t.values ∧ ∀ o, o ≠ r.nTrial → Tbl.ofOwner s'.values o = Tbl.ofOwner r.values o)
    (hparams : s'.params = (Tbl.bulk r.params r.nParam r.nTrial t.params).1)
    (htUser : s'.tUser = (Tbl.bulk r.tUser r.nTUser r.nTrial t.userAttrs).1)
    (htSys : s'.tSys = (Tbl.bulk r.tSys r.nTSys r.nTrial t.systemAttrs).1)
    (hinters : s'.inters = (Tbl.bulk r.inters r.nInter r.nTrial (t.inter.map (fun p => (p.1, encI p.2)))).1) :
    s'.rowView (newRow r sid t) = mkTrial sid (r.trials.filter (fun x => x.study == sid)).length (some t) ∧
    ∀ row ∈ r.trials, s'.rowView row = r.rowView row := by
  have hfr : ∀ {κ ν : Type} [DecidableEq κ] (tb : List (KRow κ ν)), Fk r.trialIds tb → ∀ (l : List (κ × ν)),
      ∀ p ∈ l, ∀ x ∈ tb, ¬(x.owner = r.nTrial ∧ x.key = p.1) :=
    fun tb hfk l p _ x hx hc => fresh_owner r hr tb hfk x hx hc.1
  obtain ⟨_, p2, p3, _, _⟩ := Tbl.bulk_spec id r.params r.nParam hr.params r.nTrial t.params hdp (hfr r.params hr.paramsFk _)
  obtain ⟨_, u2, u3, _, _⟩ := Tbl.bulk_spec id r.tUser r.nTUser hr.tUser r.nTrial t.userAttrs hdu (hfr r.tUser hr.tUserFk _)
  obtain ⟨_, y2, y3, _, _⟩ := Tbl.bulk_spec id r.tSys r.nTSys hr.tSys r.nTrial t.systemAttrs hds (hfr r.tSys hr.tSysFk _)
  have hdi' : (t.inter.map (fun p => (p.1, encI p.2))).Pairwise (fun a b => a.1 ≠ b.1) := by
    rw [List.pairwise_map]; exact hdi
  obtain ⟨_, i2, i3, _, _⟩ := Tbl.bulk_spec decI r.inters r.nInter hr.inters r.nTrial _ hdi' (hfr r.inters hr.intersFk _)
  have kv0 : ∀ {κ ν β : Type} [DecidableEq κ] (f : ν → β) (tb : List (KRow κ ν)), Fk r.trialIds tb → Tbl.kv f tb r.nTrial = [] := by
    intro κ ν β _ f tb hfk; simp [Tbl.kv, ofOwner_fresh r hr tb hfk]
  refine ⟨?_, ?_⟩
  · have hv : s'.valuesView r.nTrial = t.values := by
      rw [valuesView_kv, hvals.1]
      cases hq : t.values with
      | none => rfl
      | some l =>
        have hl := hne l hq
        cases l with
        | nil => exact absurd rfl hl
        | cons v rest =>
          have := decode_written (v :: rest) 0
          simp only [writtenValues, List.zipIdx_cons, List.map_cons] at this ⊢
          rw [this]
    have hi : s'.interView r.nTrial = t.inter := by
      rw [interView_eq, hinters, i2, kv0 decI r.inters hr.intersFk, List.nil_append, List.map_map]
      have : (fun p : Int × SIVal => (p.1, decI p.2)) ∘ (fun p : Int × XVal => (p.1, encI p.2)) = fun p => (p.1, some p.2) := by
        funext p; simp [Function.comp, decI_encI]
      rw [this, sequence_map_some]
    simp only [State.rowView, newRow, mkTrial, hv, hi, hparams, htUser, htSys, p2, u2, y2,
      kv0 id r.params hr.paramsFk, kv0 id r.tUser hr.tUserFk, kv0 id r.tSys hr.tSysFk, List.nil_append, id_eq]
    simp
  · intro row hrow
    have hne' : row.id ≠ r.nTrial := by have := hr.trialsBelow row hrow; omega
    apply rowView_congr r s' row (hvals.2 row.id hne')
    · rw [hparams]; exact p3 row.id hne'
    · rw [htUser]; exact u3 row.id hne'
    · rw [htSys]; exact y3 row.id hne'
    · rw [hinters]; exact i3 row.id hne'


theorem sim_createTrial_some (r : State) (a : Spec) (h : Abs r a) (sid : Nat) (t : Template) (ir : Bool)
    (hwf : WfOp (.createTrial sid (some t) ir)) : StepOk r a (.createTrial sid (some t) ir) := by
  have hinv' := inv_step r (.createTrial sid (some t) ir) h.inv
  obtain ⟨hdp, hdu, hds, hdi, hwv⟩ := hwf
  have hne : ∀ l, t.values = some l → l ≠ [] := by
    intro l hl; rw [hl] at hwv; exact hwv.1
  unfold StepOk
  simp only [withRaised]
  simp only [step, createTrial, Storage.step] at hinv' ⊢
  rcases findStudy_abs r a h sid with ⟨srow, st, h1, h2, h3, h4⟩ | ⟨h1, h2, _⟩
  rotate_left
  · simp only [h1, h2, commit]; exact ⟨h, by simp [Allowed]⟩
  have hlive : (a.study? sid).isSome = true := by simp [h3]
  have hsid : sid ∈ r.studyIds := (findStudy_mem r h.inv.1 sid srow h1).2.2
  simp only [h1, h3] at hinv' ⊢
  rcases prepare_some r h.inv sid hsid t hdp hne with ⟨hp, kp, hkp, x, hx, hc⟩ |
    ⟨s', hp, htr, hstud, hn, hvals, hparams, htu, hts, hint, hacc⟩
  · -- rejected with ValueError: one of the template's distributions conflicts with a row of the study
    have htc : a.tmplConflict sid st (some t) = true := by
      unfold Spec.tmplConflict
      simp only [List.any_eq_true]
      exact ⟨kp, hkp, by simp [templateConflict_of_row r a h sid kp.1 kp.2.dist hlive x hx hc]⟩
    simp only [hp, commit, raisedValueError, beq_self_eq_true, htc, Bool.and_self, if_true]
    exact ⟨h, by simp [Allowed]⟩
  · simp only [hp, commit, raised_newId, Bool.false_and, Bool.false_eq_true, if_false] at hinv' ⊢
    rw [h.nTrials]
    refine ⟨?_, by simp [Allowed]⟩
    obtain ⟨hv1, hv2⟩ := template_views r s' h.inv.1 sid t hdp hdu hds hdi hne hvals hparams htu hts hint
    obtain ⟨hpc', hpd'⟩ := bulk_params_pc r s' h.inv.1 sid (newRow r sid t) rfl rfl t.params hdp hparams htr (hacc h.pc) h.pc
    rw [← count_eq r a h sid hlive]
    apply abs_newTrial r s' a h hinv' sid hlive (newRow r sid t) rfl _ (by rfl) htr hstud hn hv1 hv2 hpd' hpc'
    · intro hfin
      show t.values = none
      cases hq : t.values with
      | none => rfl
      | some l =>
        rw [hq] at hwv
        have : t.state.isFinished = true := hwv.2.1
        have hfin' : t.state.isFinished = false := hfin
        rw [this] at hfin'; simp at hfin'
    · intro l hl
      have hl' : t.values = some l := hl
      rw [hl'] at hwv
      exact hwv.2.2

theorem sim_createTrial (r : State) (a : Spec) (h : Abs r a) (sid : Nat) (tmpl : Option Template) (ir : Bool)
    (hwf : WfOp (.createTrial sid tmpl ir)) : StepOk r a (.createTrial sid tmpl ir) := by
  cases tmpl with
  | none => exact sim_createTrial_none r a h sid ir
  | some t => exact sim_createTrial_some r a h sid t ir hwf

end OptunaVerif.Rdb
