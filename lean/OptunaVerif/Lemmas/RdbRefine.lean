import OptunaVerif.Lemmas.RdbMut6
/-! The relational model of `RDBStorage` refines the storage contract model: the one-step simulation for
every call, and its lift to whole histories.  Core Lean only. -/
set_option linter.unusedSimpArgs false
set_option linter.unusedSectionVars false
set_option linter.unusedVariables false
namespace OptunaVerif.Rdb
open OptunaVerif OptunaVerif.Storage

theorem commit_ro_state (r : State) (m : M Out) : (commit r (ro r m)).1 = r := by
  cases m with
  | ok o => rfl
  | error f => cases f <;> rfl

theorem getBestTrial_state (r : State) (sid : Nat) : (commit r (getBestTrial r sid)).1 = r := by
  rcases commit_state r (getBestTrial r sid) with e | ⟨s', o, hm, e⟩
  · exact e
  · rw [e]
    simp only [getBestTrial] at hm
    repeat' split at hm
    all_goals first
      | (simp at hm; done)
      | (simp only [Except.ok.injEq, Prod.mk.injEq] at hm; exact hm.1.symm)

/-- a call that changes neither state: only the answer has to be allowed -/
theorem stepOk_of_getter (r : State) (a : Spec) (h : Abs r a) (op : Op) (h1 : (step r op).1 = r)
    (h2 : (Storage.step a op).1 = a) (hw : ∀ b, withRaised op b = op)
    (hal : Allowed (step r op).2 (Storage.step a op).2) : StepOk r a op := by
  unfold StepOk
  simp only [hw, h1, h2]
  exact ⟨h, hal⟩

/-- **One step of the refinement.** In any pair of related states, every well-formed call on the
relational model leaves related states (the contract call being taken with the `implRaised` hint the
model's own answer dictates) and answers something the contract allows. -/
theorem step_sim (r : State) (a : Spec) (op : Op) (h : Abs r a) (hwf : WfOp op) : StepOk r a op := by
  cases op with
  | createStudy name dirs => exact sim_createStudy r a h name dirs hwf
  | deleteStudy sid => exact sim_deleteStudy r a h sid
  | setStudyUserAttr sid k v => simpa using sim_setStudyAttr false r a h sid k v
  | setStudySystemAttr sid k v => simpa using sim_setStudyAttr true r a h sid k v
  | createTrial sid tmpl ir => exact sim_createTrial r a h sid tmpl ir hwf
  | setTrialParam tid name p ir => exact sim_setTrialParam r a h tid name p ir
  | setTrialStateValues tid st values => exact sim_setTrialStateValues r a h tid st values hwf
  | setTrialInter tid stp v => exact sim_setTrialInter r a h tid stp v
  | setTrialUserAttr tid k v => simpa using sim_setTrialAttr false r a h tid k v
  | setTrialSystemAttr tid k v => simpa using sim_setTrialAttr true r a h tid k v
  | getStudyIdFromName name =>
    exact stepOk_of_getter r a h _ (commit_ro_state r _) (by simp only [Storage.step]; split <;> rfl) (fun _ => rfl)
      (sim_getStudyIdFromName r a h name)
  | getStudyNameFromId sid =>
    exact stepOk_of_getter r a h _ (commit_ro_state r _) (by simp only [Storage.step]; split <;> rfl) (fun _ => rfl)
      (sim_getStudyNameFromId r a h sid)
  | getStudyDirections sid =>
    exact stepOk_of_getter r a h _ (commit_ro_state r _) (by simp only [Storage.step]; split <;> rfl) (fun _ => rfl)
      (sim_getStudyDirections r a h sid)
  | getStudyUserAttrs sid =>
    exact stepOk_of_getter r a h _ (commit_ro_state r _) (by simp only [Storage.step]; split <;> rfl) (fun _ => rfl)
      (sim_getStudyUserAttrs r a h sid)
  | getStudySystemAttrs sid =>
    exact stepOk_of_getter r a h _ (commit_ro_state r _) (by simp only [Storage.step]; split <;> rfl) (fun _ => rfl)
      (sim_getStudySystemAttrs r a h sid)
  | getAllStudies =>
    exact stepOk_of_getter r a h _ rfl rfl (fun _ => rfl) (sim_getAllStudies r a h)
  | getTrialIdFromNumber sid number =>
    exact stepOk_of_getter r a h _ (commit_ro_state r _)
      (by simp only [Storage.step]; split <;> (try split) <;> rfl) (fun _ => rfl)
      (sim_getTrialIdFromNumber r a h sid number)
  | getTrialNumberFromId tid =>
    exact stepOk_of_getter r a h _ (commit_ro_state r _) (by simp only [Storage.step]; split <;> rfl) (fun _ => rfl)
      (sim_getTrialNumberFromId r a h tid)
  | getTrialParam tid name =>
    exact stepOk_of_getter r a h _ (commit_ro_state r _)
      (by simp only [Storage.step]; split <;> (try split) <;> rfl) (fun _ => rfl)
      (sim_getTrialParam r a h tid name)
  | getTrial tid =>
    exact stepOk_of_getter r a h _ (commit_ro_state r _) (by simp only [Storage.step]; split <;> rfl) (fun _ => rfl)
      (sim_getTrial r a h tid)
  | getAllTrials sid states =>
    exact stepOk_of_getter r a h _ (commit_ro_state r _) (by simp only [Storage.step]; split <;> rfl) (fun _ => rfl)
      (sim_getAllTrials r a h sid states)
  | getNTrials sid states =>
    exact stepOk_of_getter r a h _ (commit_ro_state r _) (by simp only [Storage.step]; split <;> rfl) (fun _ => rfl)
      (sim_getNTrials r a h sid states)
  | getBestTrial sid =>
    exact stepOk_of_getter r a h _ (getBestTrial_state r sid)
      (by
        simp only [Storage.step]
        split
        · rfl
        · split
          · split <;> rfl
          · rfl) (fun _ => rfl)
      (sim_getBestTrial r a h sid)

/-! ## whole histories -/

/-- the contract calls a history of RDB calls stands for: each call with the `implRaised` hint that the
relational model's own answer dictates (U1) -/
def specOps : State → List Op → List Op
  | _, [] => []
  | r, op :: rest => withRaised op (raisedValueError (step r op).2) :: specOps (step r op).1 rest

/-- the answers of both models along a history, pairwise allowed -/
def AllAllowed : List Res → List Out → Prop
  | [], [] => True
  | x :: xs, o :: os => Allowed x o ∧ AllAllowed xs os
  | _, _ => False

theorem run_sim (r : State) (a : Spec) (ops : List Op) (h : Abs r a) (hwf : ∀ op ∈ ops, WfOp op) :
    Abs (ops.foldl (fun s op => (step s op).1) r) ((specOps r ops).foldl (fun s op => (Storage.step s op).1) a) ∧
    AllAllowed (runOut r ops) (Storage.runOut a (specOps r ops)) := by
  induction ops generalizing r a with
  | nil => exact ⟨h, trivial⟩
  | cons op rest ih =>
    obtain ⟨h1, h2⟩ := step_sim r a op h (hwf op (by simp))
    obtain ⟨i1, i2⟩ := ih (step r op).1 _ h1 (fun o ho => hwf o (List.mem_cons_of_mem _ ho))
    exact ⟨i1, h2, i2⟩

/-! ## record_heartbeat (not a `BaseStorage` call) -/

theorem recordHeartbeat_eq (s : State) (h : Inv0 s) (tid : Nat) :
    recordHeartbeat s tid = ({ s with beats := (Tbl.upsertConflict s.beats s.nBeat tid () ()).1,
                                      nBeat := (Tbl.upsertConflict s.beats s.nBeat tid () ()).2 }, .out .unit) := by
  unfold recordHeartbeat
  rw [Tbl.upsert_eq s.beats s.nBeat h.beats]
  rfl

/-- a heartbeat of an existing trial keeps the table invariant and changes nothing a `BaseStorage` call reads -/
theorem abs_recordHeartbeat (r : State) (a : Spec) (h : Abs r a) (tid : Nat) (htid : tid ∈ r.trialIds) :
    Abs (recordHeartbeat r tid).1 a ∧ (recordHeartbeat r tid).2 = .out .unit := by
  rw [recordHeartbeat_eq r h.inv.1]
  refine ⟨?_, rfl⟩
  have hinv : Inv { r with beats := (Tbl.upsertConflict r.beats r.nBeat tid () ()).1, nBeat := (Tbl.upsertConflict r.beats r.nBeat tid () ()).2 } :=
    ⟨{ h.inv.1 with beats := Tbl.tblInv_upsertConflict _ _ h.inv.1.beats _ _ _,
                    beatsFk := fk_upsertConflict _ _ _ _ _ _ h.inv.1.beatsFk htid }, h.inv.2⟩
  exact ⟨hinv, h.nStudies, h.nTrials, h.study, h.trial, h.bound, h.pdist, h.pc, h.unfin, h.nonan, h.dirsOk⟩

end OptunaVerif.Rdb
