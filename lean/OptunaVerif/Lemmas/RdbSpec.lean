import OptunaVerif.Lemmas.Storage
import OptunaVerif.Lemmas.JournalRefine
/-! Contract-model side of the RDB refinement: how each kind of state change of `Storage.step` acts on
what a client can see (`study?`, `trial?`), and the reconstruction of the listing functions
(`trialsOf`, the list of live studies) from those pointwise observations.  Core Lean only. -/
set_option linter.unusedSimpArgs false
set_option linter.unusedSectionVars false
set_option linter.unusedVariables false
namespace OptunaVerif.Storage
open OptunaVerif

/-! ## lists sorted by a key are determined by their members -/

theorem sorted_ext {α : Type} (l1 l2 : List (Nat × α))
    (h1 : l1.Pairwise (fun x y => x.1 < y.1)) (h2 : l2.Pairwise (fun x y => x.1 < y.1))
    (hm : ∀ x, x ∈ l1 ↔ x ∈ l2) : l1 = l2 := by
  induction l1 generalizing l2 with
  | nil =>
    cases l2 with
    | nil => rfl
    | cons y t => exact absurd ((hm y).mpr (by simp)) (by simp)
  | cons x t1 ih =>
    cases l2 with
    | nil => exact absurd ((hm x).mp (by simp)) (by simp)
    | cons y t2 =>
      rw [List.pairwise_cons] at h1 h2
      have hxy : x = y := by
        have hx : x ∈ y :: t2 := (hm x).mp (by simp)
        have hy : y ∈ x :: t1 := (hm y).mpr (by simp)
        rcases List.mem_cons.mp hx with e | hx'
        · exact e
        · rcases List.mem_cons.mp hy with e | hy'
          · exact e.symm
          · have a := h2.1 x hx'
            have b := h1.1 y hy'
            omega
      subst hxy
      congr 1
      apply ih t2 h1.2 h2.2
      intro z
      constructor
      · intro hz
        have : z ∈ x :: t2 := (hm z).mp (List.mem_cons_of_mem _ hz)
        rcases List.mem_cons.mp this with e | hz'
        · subst e; have := h1.1 z hz; omega
        · exact hz'
      · intro hz
        have : z ∈ x :: t1 := (hm z).mpr (List.mem_cons_of_mem _ hz)
        rcases List.mem_cons.mp this with e | hz'
        · subst e; have := h2.1 z hz; omega
        · exact hz'

theorem trialsFrom_sorted (sid : Nat) (l : List TrialS) (i : Nat) :
    (trialsFrom sid l i).Pairwise (fun x y => x.1 < y.1) := by
  induction l generalizing i with
  | nil => simp [trialsFrom]
  | cons a r ih =>
    simp only [trialsFrom]
    split
    · rw [List.pairwise_cons]
      refine ⟨?_, ih (i + 1)⟩
      intro q hq
      have := Journal.trialsFrom_fst_ge sid r (i + 1) q hq
      (try simp only); omega
    · exact ih (i + 1)

/-- **the trials of a live study**, as listed by the contract model, are determined by the pointwise
observations `trial?` -/
theorem trialsOf_eq_of_pointwise (a : Spec) (sid : Nat) (hlive : (a.study? sid).isSome = true)
    (L : List (Nat × TrialS)) (hs : L.Pairwise (fun x y => x.1 < y.1))
    (hm : ∀ i t, (i, t) ∈ L ↔ (a.trial? i = some t ∧ t.study = sid)) : a.trialsOf sid = L := by
  apply sorted_ext _ _ (trialsFrom_sorted sid a.trials 0) hs
  intro x
  obtain ⟨i, t⟩ := x
  rw [hm i t]
  rw [mem_trialsFrom]
  constructor
  · rintro ⟨k, hk, hget, hst⟩
    have : k = i := by omega
    subst this
    refine ⟨?_, hst⟩
    rw [trial?_some_iff]
    exact ⟨hget, by rw [hst]; exact hlive⟩
  · rintro ⟨h1, h2⟩
    rw [trial?_some_iff] at h1
    exact ⟨i, by omega, h1.1, h2⟩

def liveStudies (a : Spec) : List (Nat × StudyS) :=
  a.studies.zipIdx.filterMap (fun p => p.1.map (fun st => (p.2, st)))

theorem mem_liveStudies (a : Spec) (i : Nat) (st : StudyS) :
    (i, st) ∈ liveStudies a ↔ a.study? i = some st := by
  unfold liveStudies Spec.study?
  simp only [List.mem_filterMap, Option.map_eq_some_iff, Prod.mk.injEq]
  constructor
  · rintro ⟨p, hp, st', hst', e1, e2⟩
    obtain ⟨o, j⟩ := p
    rw [List.mem_zipIdx_iff_getElem?] at hp
    simp only at hst' e1
    subst e1 e2
    simp [hp, hst']
  · intro h
    cases hg : a.studies[i]? with
    | none => simp [hg] at h
    | some o =>
      simp only [hg, Option.join_some] at h
      refine ⟨(o, i), ?_, st, h, rfl, rfl⟩
      rw [List.mem_zipIdx_iff_getElem?]
      exact hg

theorem liveStudies_sorted (a : Spec) : (liveStudies a).Pairwise (fun x y => x.1 < y.1) := by
  unfold liveStudies
  have hz : ∀ (l : List (Option StudyS)) (k : Nat),
      ((l.zipIdx k).filterMap (fun p => p.1.map (fun st => (p.2, st)))).Pairwise (fun x y => x.1 < y.1) ∧
      ∀ x ∈ (l.zipIdx k).filterMap (fun p => p.1.map (fun st => (p.2, st))), k ≤ x.1 := by
    intro l
    induction l with
    | nil => intro k; simp
    | cons o t ih =>
      intro k
      obtain ⟨h1, h2⟩ := ih (k + 1)
      cases o with
      | none =>
        simp only [List.zipIdx_cons, List.filterMap_cons, Option.map_none]
        exact ⟨h1, fun x hx => Nat.le_of_succ_le (h2 x hx)⟩
      | some st =>
        simp only [List.zipIdx_cons, List.filterMap_cons, Option.map_some]
        refine ⟨?_, ?_⟩
        · rw [List.pairwise_cons]
          exact ⟨fun x hx => by have := h2 x hx; (try simp only); omega, h1⟩
        · intro x hx
          rcases List.mem_cons.mp hx with e | hx
          · subst e; exact Nat.le_refl _
          · exact Nat.le_of_succ_le (h2 x hx)
  exact (hz a.studies 0).1

/-! ## pointwise effect of the state changes of `Storage.step` -/

theorem trial?_updTrial (a : Spec) (tid i : Nat) (f : TrialS → TrialS) (hf : ∀ t, (f t).study = t.study) :
    (a.updTrial tid f).trial? i = if i = tid then (a.trial? i).map f else a.trial? i := by
  unfold Spec.trial?
  rw [updTrial_trials, updAt_getElem?]
  by_cases hi : i = tid
  · simp only [hi, if_true]
    cases a.trials[tid]? with
    | none => rfl
    | some t =>
      simp only [Option.map_some, hf, updTrial_study?]
      split <;> rfl
  · simp only [hi, if_false]
    cases a.trials[i]? with
    | none => rfl
    | some t => rfl

theorem trial?_updStudy (a : Spec) (sid i : Nat) (f : StudyS → StudyS) :
    (a.updStudy sid f).trial? i = a.trial? i := by
  unfold Spec.trial?
  rw [updStudy_trials]
  cases a.trials[i]? with
  | none => rfl
  | some t =>
    simp only [Journal.study?_updStudy]
    by_cases h : t.study = sid
    · simp only [h, if_true, Option.isSome_map]
    · simp only [h, if_false]

theorem study?_append (a : Spec) (st : StudyS) (i : Nat) :
    ({ a with studies := a.studies ++ [some st] } : Spec).study? i =
      if i = a.studies.length then some st else a.study? i := by
  unfold Spec.study?
  simp only
  rcases Nat.lt_trichotomy i a.studies.length with h | h | h
  · rw [List.getElem?_append_left h]; simp [Nat.ne_of_lt h]
  · subst h; simp
  · rw [List.getElem?_append_right (Nat.le_of_lt h)]
    have : ¬ i = a.studies.length := by omega
    have h2 : a.studies[i]? = none := by rw [List.getElem?_eq_none_iff]; omega
    have h3 : i - a.studies.length ≠ 0 := by omega
    cases hk : i - a.studies.length with
    | zero => exact absurd hk h3
    | succ k => simp [this, h2]

/-- creating a study does not revive or kill any trial, provided no trial points past the list -/
theorem trial?_appendStudy (a : Spec) (st : StudyS) (i : Nat)
    (hb : ∀ (j : Nat) (t : TrialS), a.trials[j]? = some t → t.study < a.studies.length) :
    ({ a with studies := a.studies ++ [some st] } : Spec).trial? i = a.trial? i := by
  unfold Spec.trial?
  simp only
  cases hg : a.trials[i]? with
  | none => rfl
  | some t =>
    have := hb i t hg
    simp only [study?_append, Nat.ne_of_lt this, if_false]

theorem study?_delete (a : Spec) (sid i : Nat) :
    ({ a with studies := updAt a.studies sid (fun _ => none) } : Spec).study? i =
      if i = sid then none else a.study? i := by
  rw [Journal.study?_updAt a.studies a sid i (fun _ => none) rfl]
  split
  · cases a.studies[i]? <;> rfl
  · rfl

theorem trial?_delete (a : Spec) (sid i : Nat) :
    ({ a with studies := updAt a.studies sid (fun _ => none) } : Spec).trial? i =
      (a.trial? i).filter (fun t => !(t.study == sid)) := by
  unfold Spec.trial?
  simp only
  cases hg : a.trials[i]? with
  | none => rfl
  | some t =>
    simp only [study?_delete]
    by_cases h : t.study = sid
    · simp only [h, if_true, Option.isSome_none, Bool.false_eq_true, if_false]
      split <;> simp [Option.filter, h]
    · simp only [h, if_false]
      show (if (a.study? t.study).isSome = true then some t else none) = _
      split <;> simp [Option.filter, h]

theorem trial?_appendTrial (a : Spec) (t : TrialS) (i : Nat) (hlive : (a.study? t.study).isSome = true) :
    ({ a with trials := a.trials ++ [t] } : Spec).trial? i =
      if i = a.trials.length then some t else a.trial? i := by
  unfold Spec.trial?
  simp only
  rcases Nat.lt_trichotomy i a.trials.length with h | h | h
  · rw [List.getElem?_append_left h]; simp [Nat.ne_of_lt h]; rfl
  · subst h
    simp only [List.getElem?_append_right (Nat.le_refl _), Nat.sub_self, List.getElem?_cons_zero, if_true]
    show (if (a.study? t.study).isSome = true then some t else none) = some t
    simp [hlive]
  · rw [List.getElem?_append_right (Nat.le_of_lt h)]
    have : ¬ i = a.trials.length := by omega
    have h2 : a.trials[i]? = none := by rw [List.getElem?_eq_none_iff]; omega
    cases hk : i - a.trials.length with
    | zero => omega
    | succ k => simp [this, h2]

end OptunaVerif.Storage
