import OptunaVerif.Model.RdbLogic
/-! Generic lemmas about the tables of the relational model (`Model/RdbLogic.lean`): the codec round
trips, `one_or_none()` under a uniqueness constraint, upserts, cascades, dict views.  Core Lean only. -/
set_option linter.unusedSimpArgs false
set_option linter.unusedSectionVars false
set_option linter.unusedVariables false
namespace OptunaVerif.Rdb
open OptunaVerif OptunaVerif.Storage
open OptunaVerif.Generated.RdbCodec

/-! ## the codecs (generated definitions) -/

theorem decV_encV (v : XVal) : decV (encV v) = some v := by
  cases v <;> simp [decV, encV, TrialValueModel.value_to_stored_repr, TrialValueModel.stored_repr_to_value,
    pyFloatEq]

theorem decI_encI (v : XVal) : decI (encI v) = some v := by
  cases v <;> simp [decI, encI, TrialIntermediateValueModel.intermediate_value_to_stored_repr,
    TrialIntermediateValueModel.stored_repr_to_intermediate_value, pyFloatEq, pyIsNan]

/-! ## `one_or_none()` -/

theorem pairwise_mem_cases {α : Type} {R : α → α → Prop} {l : List α} (h : l.Pairwise R) {x y : α}
    (hx : x ∈ l) (hy : y ∈ l) : x = y ∨ R x y ∨ R y x := by
  induction l with
  | nil => simp at hx
  | cons a t ih =>
    rw [List.pairwise_cons] at h
    rcases List.mem_cons.mp hx with rfl | hx' <;> rcases List.mem_cons.mp hy with rfl | hy'
    · exact .inl rfl
    · exact .inr (.inl (h.1 y hy'))
    · exact .inr (.inr (h.1 x hx'))
    · exact ih h.2 hx' hy'

/-- when at most one row can satisfy `p`, `filter p … .one_or_none()` is `find?` -/
theorem oneOrNone_filter {α : Type} (p : α → Bool) (l : List α)
    (h : l.Pairwise (fun a b => ¬(p a = true ∧ p b = true))) :
    oneOrNone (l.filter p) = .ok (l.find? p) := by
  induction l with
  | nil => rfl
  | cons a t ih =>
    rw [List.pairwise_cons] at h
    by_cases hp : p a = true
    · have hnone : t.filter p = [] := by
        rw [List.filter_eq_nil_iff]
        intro b hb hpb
        exact h.1 b hb ⟨hp, hpb⟩
      simp [List.filter_cons, hp, hnone, oneOrNone, List.find?_cons]
    · have hp' : p a = false := by simpa using hp
      simp only [List.filter_cons, hp', List.find?_cons]
      exact ih h.2

theorem pairwise_unique_of_lt {α : Type} (f : α → Nat) (l : List α) (h : l.Pairwise (fun a b => f a < f b))
    (i : Nat) : l.Pairwise (fun a b => ¬((f a == i) = true ∧ (f b == i) = true)) := by
  refine h.imp ?_
  intro a b hab ⟨ha, hb⟩
  simp only [beq_iff_eq] at ha hb
  omega

theorem find?_id_eq {α : Type} (f : α → Nat) (l : List α) (h : l.Pairwise (fun a b => f a < f b))
    (r : α) (hr : r ∈ l) : l.find? (fun x => f x == f r) = some r := by
  induction l with
  | nil => simp at hr
  | cons a t ih =>
    rw [List.pairwise_cons] at h
    rcases List.mem_cons.mp hr with rfl | hr'
    · simp
    · have : f a < f r := h.1 r hr'
      have hne : (f a == f r) = false := by simp; omega
      simp only [List.find?_cons, hne]
      exact ih h.2 hr'

/-! ## key/value lists -/

theorem kvSet_string {ν : Type} (l : List (String × ν)) (k : String) (v : ν) :
    kvSet l k v = AList.set l k v := by
  induction l with
  | nil => rfl
  | cons h t ih => obtain ⟨k', v'⟩ := h; simp only [kvSet, AList.set, ih]

theorem kvSet_int (l : List (Int × XVal)) (k : Int) (v : XVal) : kvSet l k v = setInter l k v := by
  induction l with
  | nil => rfl
  | cons h t ih => obtain ⟨k', v'⟩ := h; simp only [kvSet, setInter, ih]

theorem kvSet_not_mem {κ ν : Type} [DecidableEq κ] (l : List (κ × ν)) (k : κ) (v : ν)
    (h : ∀ p ∈ l, p.1 ≠ k) : kvSet l k v = l ++ [(k, v)] := by
  induction l with
  | nil => rfl
  | cons a t ih =>
    obtain ⟨k', v'⟩ := a
    have hk : k' ≠ k := h (k', v') (by simp)
    simp only [kvSet, hk, if_false, List.cons_append]
    rw [ih (fun p hp => h p (List.mem_cons_of_mem _ hp))]

/-- on a list with distinct keys, `d[k] = v` for a present key rewrites exactly the entries with that key -/
theorem kvSet_mem {κ ν : Type} [DecidableEq κ] (l : List (κ × ν)) (k : κ) (v : ν)
    (hd : l.Pairwise (fun a b => a.1 ≠ b.1)) (h : ∃ p ∈ l, p.1 = k) :
    kvSet l k v = l.map (fun p => if p.1 = k then (k, v) else p) := by
  induction l with
  | nil => obtain ⟨p, hp, _⟩ := h; simp at hp
  | cons a t ih =>
    obtain ⟨k', v'⟩ := a
    rw [List.pairwise_cons] at hd
    by_cases hk : k' = k
    · subst hk
      simp only [kvSet, if_true, List.map_cons]
      congr 1
      refine ((List.map_congr_left ?_).trans (List.map_id _)).symm
      intro p hp
      have := hd.1 p hp
      simp only at this
      simp [Ne.symm this]
    · simp only [kvSet, hk, if_false, List.map_cons]
      congr 1
      apply ih hd.2
      obtain ⟨p, hp, e⟩ := h
      rcases List.mem_cons.mp hp with rfl | hp'
      · exact absurd e hk
      · exact ⟨p, hp', e⟩

/-! ## child tables -/

/-- What every child table satisfies: primary keys increase along the list and lie below the counter;
UNIQUE (foreign key, key). -/
structure TblInv {κ ν : Type} (t : List (KRow κ ν)) (next : Nat) : Prop where
  sorted : t.Pairwise (fun a b => a.id < b.id)
  below : ∀ r ∈ t, r.id < next
  uniq : t.Pairwise (fun a b => ¬(a.owner = b.owner ∧ a.key = b.key))

namespace Tbl
variable {κ ν : Type} [DecidableEq κ]

/-- the dict view of the rows of one owner, in table order -/
def kv {β : Type} (f : ν → β) (t : List (KRow κ ν)) (o : Nat) : List (κ × β) :=
  (ofOwner t o).map (fun r => (r.key, f r.val))

theorem tblInv_nil (n : Nat) : TblInv ([] : List (KRow κ ν)) n :=
  ⟨List.Pairwise.nil, by simp, List.Pairwise.nil⟩

theorem atKey_unique (t : List (KRow κ ν)) (n : Nat) (h : TblInv t n) (o : Nat) (k : κ) :
    t.Pairwise (fun a b => ¬((a.owner == o && decide (a.key = k)) = true ∧ (b.owner == o && decide (b.key = k)) = true)) := by
  refine h.uniq.imp ?_
  intro a b hab ⟨ha, hb⟩
  simp only [Bool.and_eq_true, beq_iff_eq, decide_eq_true_eq] at ha hb
  exact hab ⟨ha.1.trans hb.1.symm, ha.2.trans hb.2.symm⟩

theorem oneOrNone_atKey (t : List (KRow κ ν)) (n : Nat) (h : TblInv t n) (o : Nat) (k : κ) :
    oneOrNone (atKey t o k) = .ok (t.find? (fun r => r.owner == o && decide (r.key = k))) :=
  oneOrNone_filter _ t (atKey_unique t n h o k)

/-- under the table invariant the ORM upsert and the SQL upsert are the same update -/
theorem upsert_eq (t : List (KRow κ ν)) (n : Nat) (h : TblInv t n) (o : Nat) (k : κ) (v : ν) :
    upsert t n o k v = .ok (upsertConflict t n o k v) := by
  unfold upsert upsertConflict
  rw [oneOrNone_atKey t n h]
  cases hf : t.find? (fun r => r.owner == o && decide (r.key = k)) with
  | none =>
    have : atKey t o k = [] := by
      unfold atKey
      rw [List.filter_eq_nil_iff]
      intro a ha
      have := List.find?_eq_none.mp hf a ha
      simpa using this
    simp [this]
  | some r =>
    have hr := List.find?_some hf
    have hmem := List.mem_of_find?_eq_some hf
    have hne : (atKey t o k).isEmpty = false := by
      have : r ∈ atKey t o k := by unfold atKey; exact List.mem_filter.mpr ⟨hmem, hr⟩
      cases hh : atKey t o k with
      | nil => rw [hh] at this; simp at this
      | cons _ _ => rfl
    simp only [hne, Bool.false_eq_true, if_false, setVal]
    congr 2
    apply List.map_congr_left
    intro x hx
    simp only [Bool.and_eq_true, beq_iff_eq, decide_eq_true_eq] at hr
    by_cases hid : x.id = r.id
    · have hxr : x = r := by
        rcases pairwise_mem_cases h.sorted hx hmem with e | e | e
        · exact e
        · omega
        · omega
      subst hxr
      simp [hr]
    · have hmatch : ¬(x.owner = o ∧ x.key = k) := by
        intro hm
        apply hid
        rcases pairwise_mem_cases h.uniq hx hmem with e | e | e
        · rw [e]
        · exact absurd ⟨hm.1.trans hr.1.symm, hm.2.trans hr.2.symm⟩ e
        · exact absurd ⟨hr.1.trans hm.1.symm, hr.2.trans hm.2.symm⟩ e
      simp [hid, hmatch]


theorem ofOwner_append (t u : List (KRow κ ν)) (o : Nat) : ofOwner (t ++ u) o = ofOwner t o ++ ofOwner u o := by
  simp [ofOwner]

theorem mem_ofOwner (t : List (KRow κ ν)) (o : Nat) (r : KRow κ ν) : r ∈ ofOwner t o ↔ r ∈ t ∧ r.owner = o := by
  simp [ofOwner]

/-- the keys of one owner's rows are distinct -/
theorem kv_keys_distinct {β : Type} (f : ν → β) (t : List (KRow κ ν)) (n : Nat) (h : TblInv t n) (o : Nat) :
    (kv f t o).Pairwise (fun a b => a.1 ≠ b.1) := by
  unfold kv
  rw [List.pairwise_map]
  have h1 : (ofOwner t o).Pairwise (fun a b => ¬(a.owner = b.owner ∧ a.key = b.key)) :=
    h.uniq.sublist List.filter_sublist
  have h2 : ∀ r ∈ ofOwner t o, r.owner = o := fun r hr => ((mem_ofOwner t o r).mp hr).2
  refine List.Pairwise.imp_of_mem ?_ h1
  intro a b ha hb hab e
  exact hab ⟨(h2 a ha).trans (h2 b hb).symm, e⟩

theorem foldl_kvSet {β : Type} (f : ν → β) (rows : List (KRow κ ν)) (acc : List (κ × β))
    (hd : rows.Pairwise (fun a b => a.key ≠ b.key)) (hacc : ∀ p ∈ acc, ∀ r ∈ rows, p.1 ≠ r.key) :
    rows.foldl (fun d r => kvSet d r.key (f r.val)) acc = acc ++ rows.map (fun r => (r.key, f r.val)) := by
  induction rows generalizing acc with
  | nil => simp
  | cons a t ih =>
    rw [List.pairwise_cons] at hd
    simp only [List.foldl_cons, List.map_cons]
    rw [kvSet_not_mem acc a.key (f a.val) (fun p hp => hacc p hp a (by simp))]
    rw [ih (acc ++ [(a.key, f a.val)]) hd.2 ?_]
    · simp
    · intro p hp r hr
      rcases List.mem_append.mp hp with hp | hp
      · exact hacc p hp r (List.mem_cons_of_mem _ hr)
      · simp only [List.mem_singleton] at hp
        subst hp
        exact hd.1 r hr

/-- the dict comprehension over one owner's rows is their key/value list in table order -/
theorem toDict_ofOwner {β : Type} (f : ν → β) (t : List (KRow κ ν)) (n : Nat) (h : TblInv t n) (o : Nat) :
    toDict f (ofOwner t o) = kv f t o := by
  unfold toDict
  rw [foldl_kvSet f (ofOwner t o) []]
  · simp [kv]
  · have := kv_keys_distinct (fun v => v) t n h o
    unfold kv at this
    rw [List.pairwise_map] at this
    exact this
  · simp

/-! ### upsert -/

theorem upsertConflict_next (t : List (KRow κ ν)) (n o : Nat) (k : κ) (v : ν) :
    n ≤ (upsertConflict t n o k v).2 := by
  unfold upsertConflict; split <;> simp

theorem tblInv_mono (t : List (KRow κ ν)) (n m : Nat) (h : TblInv t n) (hnm : n ≤ m) : TblInv t m :=
  ⟨h.sorted, fun r hr => Nat.lt_of_lt_of_le (h.below r hr) hnm, h.uniq⟩

theorem tblInv_map (t : List (KRow κ ν)) (n : Nat) (h : TblInv t n) (g : KRow κ ν → KRow κ ν)
    (hg : ∀ r, (g r).id = r.id ∧ (g r).owner = r.owner ∧ (g r).key = r.key) : TblInv (t.map g) n := by
  refine ⟨?_, ?_, ?_⟩
  · rw [List.pairwise_map]; exact h.sorted.imp (by intro a b hab; rw [(hg a).1, (hg b).1]; exact hab)
  · intro r hr
    obtain ⟨r0, hr0, e⟩ := List.mem_map.mp hr
    rw [← e, (hg r0).1]; exact h.below r0 hr0
  · rw [List.pairwise_map]
    exact h.uniq.imp (by intro a b hab; rw [(hg a).2.1, (hg b).2.1, (hg a).2.2, (hg b).2.2]; exact hab)

theorem tblInv_filter (t : List (KRow κ ν)) (n : Nat) (h : TblInv t n) (p : KRow κ ν → Bool) :
    TblInv (t.filter p) n :=
  ⟨h.sorted.sublist List.filter_sublist, fun r hr => h.below r (List.mem_filter.mp hr).1,
   h.uniq.sublist List.filter_sublist⟩

theorem tblInv_append (t : List (KRow κ ν)) (n : Nat) (h : TblInv t n) (o : Nat) (k : κ) (v : ν)
    (hfree : ∀ r ∈ t, ¬(r.owner = o ∧ r.key = k)) :
    TblInv (t ++ [{ id := n, owner := o, key := k, val := v }]) (n + 1) := by
  refine ⟨?_, ?_, ?_⟩
  · rw [List.pairwise_append]
    refine ⟨h.sorted, by simp, ?_⟩
    intro a ha b hb
    simp only [List.mem_singleton] at hb
    subst hb
    exact h.below a ha
  · intro r hr
    rcases List.mem_append.mp hr with hr | hr
    · exact Nat.lt_succ_of_lt (h.below r hr)
    · simp only [List.mem_singleton] at hr; subst hr; exact Nat.lt_succ_self _
  · rw [List.pairwise_append]
    refine ⟨h.uniq, by simp, ?_⟩
    intro a ha b hb
    simp only [List.mem_singleton] at hb
    subst hb
    exact hfree a ha

theorem atKey_isEmpty_iff (t : List (KRow κ ν)) (o : Nat) (k : κ) :
    (atKey t o k).isEmpty = true ↔ ∀ r ∈ t, ¬(r.owner = o ∧ r.key = k) := by
  unfold atKey
  rw [List.isEmpty_iff, List.filter_eq_nil_iff]
  constructor
  · intro h r hr hm; exact h r hr (by simp [hm.1, hm.2])
  · intro h r hr hm
    simp only [Bool.and_eq_true, beq_iff_eq, decide_eq_true_eq] at hm
    exact h r hr hm

theorem tblInv_upsertConflict (t : List (KRow κ ν)) (n : Nat) (h : TblInv t n) (o : Nat) (k : κ) (v : ν) :
    TblInv (upsertConflict t n o k v).1 (upsertConflict t n o k v).2 := by
  unfold upsertConflict
  split
  · rename_i he
    exact tblInv_append t n h o k v ((atKey_isEmpty_iff t o k).mp he)
  · exact tblInv_map t n h _ (by intro r; split <;> simp)

/-- foreign keys after an upsert: the owner of every row is `o` or the owner of an old row -/
theorem owner_upsertConflict (t : List (KRow κ ν)) (n o : Nat) (k : κ) (v : ν) :
    ∀ r ∈ (upsertConflict t n o k v).1, r.owner = o ∨ ∃ r0 ∈ t, r0.owner = r.owner := by
  unfold upsertConflict
  split
  · intro r hr
    rcases List.mem_append.mp hr with hr | hr
    · exact .inr ⟨r, hr, rfl⟩
    · simp only [List.mem_singleton] at hr; subst hr; exact .inl rfl
  · intro r hr
    obtain ⟨r0, hr0, e⟩ := List.mem_map.mp hr
    refine .inr ⟨r0, hr0, ?_⟩
    rw [← e]; split <;> rfl

/-- **the dict view after an upsert** is the dict assignment `d[k] = v` on the owner's dict and
nothing else -/
theorem kv_upsertConflict {β : Type} (f : ν → β) (t : List (KRow κ ν)) (n : Nat) (h : TblInv t n)
    (o : Nat) (k : κ) (v : ν) (o' : Nat) :
    kv f (upsertConflict t n o k v).1 o' = if o' = o then kvSet (kv f t o) k (f v) else kv f t o' := by
  unfold upsertConflict
  split
  · rename_i he
    have hfree := (atKey_isEmpty_iff t o k).mp he
    simp only [kv, ofOwner_append, List.map_append]
    by_cases ho : o' = o
    · subst ho
      simp only [if_true]
      rw [kvSet_not_mem]
      · simp [ofOwner]
      · intro p hp
        obtain ⟨r, hr, e⟩ := List.mem_map.mp hp
        rw [← e]
        intro hk
        exact hfree r ((mem_ofOwner t o' r).mp hr).1 ⟨((mem_ofOwner t o' r).mp hr).2, hk⟩
    · have : ofOwner [({ id := n, owner := o, key := k, val := v } : KRow κ ν)] o' = [] := by
        simp [ofOwner, Ne.symm ho]
      simp [ho, this]
  · rename_i hne
    have hex : ∃ r ∈ t, r.owner = o ∧ r.key = k := by
      apply Classical.byContradiction
      intro hc
      apply hne
      rw [atKey_isEmpty_iff]
      intro r hr hm
      exact hc ⟨r, hr, hm⟩
    have hown : ofOwner (t.map (fun r => if r.owner == o && decide (r.key = k) then { r with val := v } else r)) o' =
        (ofOwner t o').map (fun r => if r.owner == o && decide (r.key = k) then { r with val := v } else r) := by
      unfold ofOwner
      rw [List.filter_map]
      congr 1
      apply List.filter_congr
      intro r hr
      simp only [Function.comp]
      split <;> rfl
    simp only [kv, hown, List.map_map]
    by_cases ho : o' = o
    · subst ho
      simp only [if_true]
      have hd := kv_keys_distinct f t n h o'
      obtain ⟨r, hr, hro, hrk⟩ := hex
      rw [← show kv f t o' = List.map (fun r => (r.key, f r.val)) (ofOwner t o') from rfl]
      rw [kvSet_mem (kv f t o') k (f v) hd ⟨(r.key, f r.val), by
        unfold kv; exact List.mem_map.mpr ⟨r, (mem_ofOwner t o' r).mpr ⟨hr, hro⟩, rfl⟩, hrk⟩]
      simp only [kv, List.map_map]
      apply List.map_congr_left
      intro x hx
      have hxo := ((mem_ofOwner t o' x).mp hx).2
      simp only [Function.comp, hxo, beq_self_eq_true, Bool.true_and]
      by_cases hk : x.key = k
      · simp [hk]
      · simp [hk]
    · simp only [ho, if_false]
      apply List.map_congr_left
      intro x hx
      have hxo := ((mem_ofOwner t o' x).mp hx).2
      have : (x.owner == o) = false := by simp [hxo, ho]
      simp [Function.comp, this]

/-- the keys of one owner's rows after an upsert -/
theorem keys_upsertConflict (t : List (KRow κ ν)) (n : Nat) (h : TblInv t n) (o : Nat) (k : κ) (v : ν) (o' : Nat) :
    (ofOwner (upsertConflict t n o k v).1 o').map (·.key) =
      if o' = o then (if k ∈ (ofOwner t o).map (·.key) then (ofOwner t o).map (·.key) else (ofOwner t o).map (·.key) ++ [k])
      else (ofOwner t o').map (·.key) := by
  have e := kv_upsertConflict (fun _ => ()) t n h o k v o'
  have conv : ∀ (u : List (KRow κ ν)) (x : Nat), (ofOwner u x).map (·.key) = (kv (fun _ => ()) u x).map (·.1) := by
    intro u x; simp [kv]
  rw [conv, e]
  by_cases ho : o' = o
  · subst ho
    simp only [if_true]
    rw [conv]
    generalize kv (fun _ => ()) t o' = l
    induction l with
    | nil => simp [kvSet]
    | cons a r ih =>
      obtain ⟨k', u⟩ := a
      by_cases hk : k' = k
      · simp [kvSet, hk]
      · have hk' : ¬ k = k' := fun e => hk e.symm
        simp only [kvSet, hk, if_false, List.map_cons, List.mem_cons, hk', false_or]
        rw [ih]
        split <;> simp
  · simp [ho, conv]

/-! ### cascade -/

theorem ofOwner_dropOwners (t : List (KRow κ ν)) (dead : List Nat) (o : Nat) :
    ofOwner (dropOwners t dead) o = if dead.contains o then [] else ofOwner t o := by
  unfold ofOwner dropOwners
  rw [List.filter_filter]
  split
  · rename_i hc
    rw [List.filter_eq_nil_iff]
    intro r hr
    simp only [Bool.and_eq_true, beq_iff_eq, Bool.not_eq_true', not_and]
    intro ho
    rw [ho]; simpa using hc
  · rename_i hc
    apply List.filter_congr
    intro r hr
    have hc' : o ∉ dead := by simpa using hc
    by_cases ho : r.owner = o
    · simp [ho, hc']
    · simp [ho]

theorem mem_dropOwners (t : List (KRow κ ν)) (dead : List Nat) (r : KRow κ ν) :
    r ∈ dropOwners t dead ↔ r ∈ t ∧ r.owner ∉ dead := by
  simp [dropOwners]

end Tbl
end OptunaVerif.Rdb
