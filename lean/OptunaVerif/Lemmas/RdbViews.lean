import OptunaVerif.Lemmas.RdbInv
/-! What a client can read from the tables of the relational model: the *views* of a study and of a
trial as total functions of the tables, and the proof that the model's reading code
(`buildTrial` = `_build_frozen_trial_from_trial_model`, `findTrial`, …) computes exactly these views in
every state that satisfies the table invariant.  Core Lean only. -/
set_option linter.unusedSimpArgs false
set_option linter.unusedSectionVars false
set_option linter.unusedVariables false
namespace OptunaVerif.Rdb
open OptunaVerif OptunaVerif.Storage

def State.valuesView (s : State) (tid : Nat) : Option (List XVal) :=
  match Tbl.ofOwner s.values tid with
  | [] => none
  | rows => some (rows.filterMap (fun r => decV r.val))

def State.interView (s : State) (tid : Nat) : List (Int × XVal) :=
  (Tbl.ofOwner s.inters tid).filterMap (fun r => (decI r.val).map (fun v => (r.key, v)))

/-- the `FrozenTrial` of a `trials` row -/
def State.rowView (s : State) (r : TrialRow) : TrialS :=
  { study := r.study, number := r.number, state := r.state, values := s.valuesView r.id,
    params := Tbl.kv id s.params r.id, userAttrs := Tbl.kv id s.tUser r.id,
    systemAttrs := Tbl.kv id s.tSys r.id, inter := s.interView r.id,
    hasStart := r.hasStart, hasComplete := r.hasComplete }

def State.trialRow? (s : State) (tid : Nat) : Option TrialRow := s.trials.find? (fun r => r.id == tid)
def State.studyRow? (s : State) (sid : Nat) : Option StudyRow := s.studies.find? (fun r => r.id == sid)

def State.trialView (s : State) (tid : Nat) : Option TrialS := (s.trialRow? tid).map s.rowView
def State.studyView (s : State) (sid : Nat) : Option StudyS := (s.studyRow? sid).map (fun r => (frozenStudy s r).2)

/-! ## `_build_frozen_trial_from_trial_model` computes the view -/

theorem fillValues_spec (done : List XVal) (m : Nat) (d : XVal) (rows : List (KRow Nat SVal))
    (hk : rows.map (·.key) = List.range' done.length m) (hdec : ∀ r ∈ rows, (decV r.val).isSome = true) :
    fillValues (done ++ List.replicate m d) rows = .ok (done ++ rows.filterMap (fun r => decV r.val)) := by
  induction rows generalizing done m with
  | nil =>
    cases m with
    | zero => simp [fillValues]
    | succ m => simp [List.range'] at hk
  | cons r rest ih =>
    cases m with
    | zero => simp [List.range'] at hk
    | succ m =>
      simp only [List.map_cons, List.range'_succ, List.cons.injEq] at hk
      obtain ⟨hk1, hk2⟩ := hk
      have hd := hdec r (by simp)
      obtain ⟨v, hv⟩ := Option.isSome_iff_exists.mp hd
      simp only [fillValues, hv, List.length_append, List.length_replicate, List.filterMap_cons]
      have hlt : r.key < done.length + (m + 1) := by omega
      simp only [hlt, if_true]
      have hset : (done ++ List.replicate (m + 1) d).set r.key v = (done ++ [v]) ++ List.replicate m d := by
        rw [hk1, List.replicate_succ]
        simp [List.set_append]
      rw [hset, ih (done ++ [v]) m (by simpa using hk2) (fun x hx => hdec x (List.mem_cons_of_mem _ hx))]
      simp

theorem buildValues_eq (s : State) (h : Inv0 s) (tid : Nat) :
    buildValues (Tbl.ofOwner s.values tid) = .ok (s.valuesView tid) := by
  unfold buildValues State.valuesView
  cases hrows : Tbl.ofOwner s.values tid with
  | nil => rfl
  | cons r rest =>
    simp only [List.isEmpty_cons, Bool.false_eq_true, if_false]
    have hk := h.objectives tid
    rw [hrows] at hk
    have := fillValues_spec [] (r :: rest).length (XVal.fin 0) (r :: rest)
      (by rw [hk, List.range_eq_range']; rfl)
      (by intro x hx
          have : x ∈ Tbl.ofOwner s.values tid := by rw [hrows]; exact hx
          obtain ⟨v, e⟩ := h.valuesEnc x ((Tbl.mem_ofOwner _ _ _).mp this).1
          rw [e, decV_encV]; rfl)
    simp only [List.nil_append] at this
    rw [this]

theorem buildInter_spec (d : List (Int × XVal)) (rows : List (KRow Int SIVal))
    (hd : rows.Pairwise (fun a b => a.key ≠ b.key)) (hacc : ∀ p ∈ d, ∀ r ∈ rows, p.1 ≠ r.key)
    (hdec : ∀ r ∈ rows, (decI r.val).isSome = true) :
    buildInter d rows = .ok (d ++ rows.filterMap (fun r => (decI r.val).map (fun v => (r.key, v)))) := by
  induction rows generalizing d with
  | nil => simp [buildInter]
  | cons r rest ih =>
    rw [List.pairwise_cons] at hd
    obtain ⟨v, hv⟩ := Option.isSome_iff_exists.mp (hdec r (by simp))
    simp only [buildInter, hv, List.filterMap_cons, Option.map_some]
    rw [kvSet_not_mem d r.key v (fun p hp => hacc p hp r (by simp))]
    rw [ih (d ++ [(r.key, v)]) hd.2 ?_ (fun x hx => hdec x (List.mem_cons_of_mem _ hx))]
    · simp
    · intro p hp x hx
      rcases List.mem_append.mp hp with hp | hp
      · exact hacc p hp x (List.mem_cons_of_mem _ hx)
      · simp only [List.mem_singleton] at hp; subst hp; exact hd.1 x hx

theorem buildInter_eq (s : State) (h : Inv0 s) (tid : Nat) :
    buildInter [] (Tbl.ofOwner s.inters tid) = .ok (s.interView tid) := by
  have hk := Tbl.kv_keys_distinct (fun v => v) s.inters s.nInter h.inters tid
  unfold Tbl.kv at hk
  rw [List.pairwise_map] at hk
  rw [buildInter_spec [] _ hk (by simp)
    (fun r hr => h.intersDec r ((Tbl.mem_ofOwner _ _ _).mp hr).1)]
  simp [State.interView]

theorem buildTrial_eq (s : State) (h : Inv0 s) (r : TrialRow) : buildTrial s r = .ok (s.rowView r) := by
  unfold buildTrial
  rw [buildValues_eq s h, buildInter_eq s h]
  simp only [Tbl.toDict_ofOwner id s.params s.nParam h.params, Tbl.toDict_ofOwner id s.tUser s.nTUser h.tUser,
    Tbl.toDict_ofOwner id s.tSys s.nTSys h.tSys, State.rowView]

theorem buildTrials_eq (s : State) (h : Inv0 s) (rows : List TrialRow) :
    buildTrials s rows = .ok (rows.map (fun r => (r.id, s.rowView r))) := by
  induction rows with
  | nil => rfl
  | cons r rest ih => simp [buildTrials, buildTrial_eq s h, ih]

theorem getTrial_eq (s : State) (h : Inv0 s) (tid : Nat) :
    getTrial s tid = match s.trialRow? tid with
      | none => .error (.api .keyError)
      | some r => .ok (tid, s.rowView r) := by
  unfold getTrial State.trialRow?
  rw [findTrial_eq s h]
  cases hf : s.trials.find? (fun r => r.id == tid) with
  | none => rfl
  | some r =>
    have : r.id = tid := by simpa using List.find?_some hf
    simp [buildTrial_eq s h, this]

/-! ## rows and ids -/

theorem trialRow?_some (s : State) (tid : Nat) (r : TrialRow) (h : s.trialRow? tid = some r) :
    r ∈ s.trials ∧ r.id = tid :=
  ⟨List.mem_of_find?_eq_some h, by simpa using List.find?_some h⟩

theorem trialRow?_of_mem (s : State) (h : Inv0 s) (r : TrialRow) (hr : r ∈ s.trials) : s.trialRow? r.id = some r :=
  find?_id_eq (fun x : TrialRow => x.id) s.trials h.trialsSorted r hr

theorem studyRow?_some (s : State) (sid : Nat) (r : StudyRow) (h : s.studyRow? sid = some r) :
    r ∈ s.studies ∧ r.id = sid :=
  ⟨List.mem_of_find?_eq_some h, by simpa using List.find?_some h⟩

theorem studyRow?_of_mem (s : State) (h : Inv0 s) (r : StudyRow) (hr : r ∈ s.studies) : s.studyRow? r.id = some r :=
  find?_id_eq (fun x : StudyRow => x.id) s.studies h.studiesSorted r hr

theorem trialRow?_none_iff (s : State) (tid : Nat) : s.trialRow? tid = none ↔ tid ∉ s.trialIds := by
  unfold State.trialRow? State.trialIds
  rw [List.find?_eq_none]
  simp only [List.mem_map, not_exists, not_and, beq_iff_eq]

theorem studyRow?_none_iff (s : State) (sid : Nat) : s.studyRow? sid = none ↔ sid ∉ s.studyIds := by
  unfold State.studyRow? State.studyIds
  rw [List.find?_eq_none]
  simp only [List.mem_map, not_exists, not_and, beq_iff_eq]

theorem trialStudy?_eq (s : State) (tid : Nat) : s.trialStudy? tid = (s.trialRow? tid).map (·.study) := rfl

end OptunaVerif.Rdb
