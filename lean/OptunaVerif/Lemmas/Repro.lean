import OptunaVerif.Model.Repro
import OptunaVerif.Lemmas.Storage
/-! Helper lemmas for C09: the generic simulation argument for the optimisation loop, and the list
lemmas that show the storage contract model refines the canonical id-free storage. -/
namespace OptunaVerif.Repro
open OptunaVerif OptunaVerif.Storage

/-! ## simulations between storages -/

/-- An id-renaming simulation between two storages: `R` relates states that show the same
id-erased study, `C` additionally relates a handle of each side that names the same trial.  Every
storage call the loop makes preserves the relation and answers the same. -/
structure Sim (S₁ S₂ : Store) where
  R : S₁.σ → S₂.σ → Prop
  C : S₁.σ → S₁.H → S₂.σ → S₂.H → Prop
  C_R : ∀ {s₁ h₁ s₂ h₂}, C s₁ h₁ s₂ h₂ → R s₁ s₂
  view_eq : ∀ {s₁ s₂}, R s₁ s₂ → S₁.view s₁ = S₂.view s₂
  cur_eq : ∀ {s₁ h₁ s₂ h₂}, C s₁ h₁ s₂ h₂ → S₁.cur s₁ h₁ = S₂.cur s₂ h₂
  ask_sim : ∀ {s₁ s₂}, R s₁ s₂ →
    (∃ h₁ h₂, (S₁.ask s₁).2 = some h₁ ∧ (S₂.ask s₂).2 = some h₂ ∧
        C (S₁.ask s₁).1 h₁ (S₂.ask s₂).1 h₂) ∨
    ((S₁.ask s₁).2 = none ∧ (S₂.ask s₂).2 = none ∧ R (S₁.ask s₁).1 (S₂.ask s₂).1)
  setParam_sim : ∀ {s₁ h₁ s₂ h₂}, C s₁ h₁ s₂ h₂ → ∀ (n : String) (p : Param),
    (S₁.setParam s₁ h₁ n p).2 = (S₂.setParam s₂ h₂ n p).2 ∧
      C (S₁.setParam s₁ h₁ n p).1 h₁ (S₂.setParam s₂ h₂ n p).1 h₂
  setInter_sim : ∀ {s₁ h₁ s₂ h₂}, C s₁ h₁ s₂ h₂ → ∀ (stp : Int) (v : XVal),
    C (S₁.setInter s₁ h₁ stp v) h₁ (S₂.setInter s₂ h₂ stp v) h₂
  setUserAttr_sim : ∀ {s₁ h₁ s₂ h₂}, C s₁ h₁ s₂ h₂ → ∀ (k v : String),
    C (S₁.setUserAttr s₁ h₁ k v) h₁ (S₂.setUserAttr s₂ h₂ k v) h₂
  write_sim : ∀ {s₁ h₁ s₂ h₂}, C s₁ h₁ s₂ h₂ → ∀ (w : Write),
    C (S₁.write s₁ h₁ w) h₁ (S₂.write s₂ h₂ w) h₂
  finish_sim : ∀ {s₁ h₁ s₂ h₂}, C s₁ h₁ s₂ h₂ → ∀ (st : TState) (vals : Option (List XVal)),
    R (S₁.finish s₁ h₁ st vals) (S₂.finish s₂ h₂ st vals)

variable {S₁ S₂ : Store} {ρ : Type}

theorem applyWrites_sim (sim : Sim S₁ S₂) (ws : List Write) {s₁ h₁ s₂ h₂}
    (hc : sim.C s₁ h₁ s₂ h₂) : sim.C (applyWrites S₁ s₁ h₁ ws) h₁ (applyWrites S₂ s₂ h₂ ws) h₂ := by
  induction ws generalizing s₁ s₂ with
  | nil => exact hc
  | cons w ws ih => exact ih (sim.write_sim hc w)

theorem runProg_sim (sim : Sim S₁ S₂) (A : Algo ρ) (h₁ : S₁.H) (h₂ : S₂.H) (prog : Prog) :
    ∀ (s₁ : S₁.σ) (s₂ : S₂.σ) (r : ρ), sim.C s₁ h₁ s₂ h₂ →
      sim.C (runProg S₁ A h₁ prog s₁ r).1 h₁ (runProg S₂ A h₂ prog s₂ r).1 h₂ ∧
      (runProg S₁ A h₁ prog s₁ r).2 = (runProg S₂ A h₂ prog s₂ r).2 := by
  induction prog with
  | suggest name d k ih =>
    intro s₁ s₂ r hc
    have hcur := sim.cur_eq hc
    have hview := sim.view_eq (sim.C_R hc)
    simp only [runProg]
    rw [hcur, hview]
    cases hc2 : S₂.cur s₂ h₂ with
    | none => exact ⟨hc, rfl⟩
    | some cur =>
      cases hv2 : S₂.view s₂ with
      | none => exact ⟨hc, rfl⟩
      | some vw =>
        simp only []
        cases hp : cur.params.get? name with
        | some p =>
          simp only []
          split
          · exact ih _ s₁ s₂ r hc
          · exact ⟨hc, rfl⟩
        | none =>
          simp only []
          have hw := applyWrites_sim sim (A.sample r vw cur name d).2.1 hc
          obtain ⟨hb, hc'⟩ := sim.setParam_sim hw name ⟨(A.sample r vw cur name d).2.2, d⟩
          rw [hb]
          split
          · exact ih _ _ _ _ hc'
          · exact ⟨hc', rfl⟩
  | report stp v k ih =>
    intro s₁ s₂ r hc
    have hcur := sim.cur_eq hc
    simp only [runProg]
    rw [hcur]
    cases hc2 : S₂.cur s₂ h₂ with
    | none => exact ⟨hc, rfl⟩
    | some cur =>
      simp only []
      split
      · exact ih s₁ s₂ r hc
      · exact ih _ _ r (sim.setInter_sim hc stp v)
  | shouldPrune k ih =>
    intro s₁ s₂ r hc
    have hcur := sim.cur_eq hc
    have hview := sim.view_eq (sim.C_R hc)
    simp only [runProg]
    rw [hcur, hview]
    cases hc2 : S₂.cur s₂ h₂ with
    | none => exact ⟨hc, rfl⟩
    | some cur =>
      cases hv2 : S₂.view s₂ with
      | none => exact ⟨hc, rfl⟩
      | some vw =>
        simp only []
        exact ih _ _ _ _ (applyWrites_sim sim _ hc)
  | setUserAttr key val k ih =>
    intro s₁ s₂ r hc
    simp only [runProg]
    exact ih _ _ r (sim.setUserAttr_sim hc key val)
  | ret vs => intro s₁ s₂ r hc; exact ⟨hc, rfl⟩
  | prune => intro s₁ s₂ r hc; exact ⟨hc, rfl⟩
  | fail => intro s₁ s₂ r hc; exact ⟨hc, rfl⟩

theorem runTrial_sim (sim : Sim S₁ S₂) (A : Algo ρ) (obj : Nat → Prog) (s₁ : S₁.σ) (s₂ : S₂.σ)
    (r : ρ) (hr : sim.R s₁ s₂) :
    sim.R (runTrial S₁ A obj s₁ r).1 (runTrial S₂ A obj s₂ r).1 ∧
      (runTrial S₁ A obj s₁ r).2 = (runTrial S₂ A obj s₂ r).2 := by
  unfold runTrial
  rcases sim.ask_sim hr with ⟨h₁, h₂, e₁, e₂, hc⟩ | ⟨e₁, e₂, hr'⟩
  · rcases ha₁ : S₁.ask s₁ with ⟨a₁, o₁⟩
    rcases ha₂ : S₂.ask s₂ with ⟨a₂, o₂⟩
    rw [ha₁] at e₁ hc
    rw [ha₂] at e₂ hc
    simp only at e₁ e₂ hc
    subst e₁; subst e₂
    simp only []
    have hcur := sim.cur_eq hc
    have hview := sim.view_eq (sim.C_R hc)
    rw [hcur, hview]
    cases hc2 : S₂.cur a₂ h₂ with
    | none => exact ⟨sim.C_R hc, rfl⟩
    | some cur =>
      cases hv2 : S₂.view a₂ with
      | none => exact ⟨sim.C_R hc, rfl⟩
      | some vw =>
        simp only []
        have hb := applyWrites_sim sim (A.beforeTrial r vw cur).2 hc
        obtain ⟨hc3, heq3⟩ := runProg_sim sim A h₁ h₂ (obj cur.number) _ _ (A.beforeTrial r vw cur).1 hb
        have hcur3 := sim.cur_eq hc3
        have hview3 := sim.view_eq (sim.C_R hc3)
        rw [hcur3, hview3, heq3]
        cases hc4 : S₂.cur (runProg S₂ A h₂ (obj cur.number)
            (applyWrites S₂ a₂ h₂ (A.beforeTrial r vw cur).2) (A.beforeTrial r vw cur).1).1 h₂ with
        | none => exact ⟨sim.C_R hc3, rfl⟩
        | some cur3 =>
          cases hv4 : S₂.view (runProg S₂ A h₂ (obj cur.number)
              (applyWrites S₂ a₂ h₂ (A.beforeTrial r vw cur).2) (A.beforeTrial r vw cur).1).1 with
          | none => exact ⟨sim.C_R hc3, rfl⟩
          | some vw3 =>
            simp only []
            exact ⟨sim.finish_sim (applyWrites_sim sim _ hc3) _ _, trivial⟩
  · rcases ha₁ : S₁.ask s₁ with ⟨a₁, o₁⟩
    rcases ha₂ : S₂.ask s₂ with ⟨a₂, o₂⟩
    rw [ha₁] at e₁ hr'
    rw [ha₂] at e₂ hr'
    simp only at e₁ e₂ hr'
    subst e₁; subst e₂
    exact ⟨hr', rfl⟩

theorem runTrials_sim (sim : Sim S₁ S₂) (A : Algo ρ) (obj : Nat → Prog) (n : Nat) (s₁ : S₁.σ)
    (s₂ : S₂.σ) (r : ρ) (hr : sim.R s₁ s₂) :
    sim.R (runTrials S₁ A obj n s₁ r).1 (runTrials S₂ A obj n s₂ r).1 ∧
      (runTrials S₁ A obj n s₁ r).2 = (runTrials S₂ A obj n s₂ r).2 := by
  induction n with
  | zero => exact ⟨hr, rfl⟩
  | succ n ih =>
    simp only [runTrials]
    obtain ⟨h1, h2⟩ := ih
    rw [h2]
    exact runTrial_sim sim A obj _ _ _ h1

theorem optimizeSeq_sim (sim : Sim S₁ S₂) (A : Algo ρ) (obj : Nat → Prog) (reseed : Bool) (n : Nat)
    (s₁ : S₁.σ) (s₂ : S₂.σ) (r : ρ) (hr : sim.R s₁ s₂) :
    sim.R (optimizeSeq S₁ A obj reseed n s₁ r).1 (optimizeSeq S₂ A obj reseed n s₂ r).1 ∧
      (optimizeSeq S₁ A obj reseed n s₁ r).2 = (optimizeSeq S₂ A obj reseed n s₂ r).2 := by
  induction n with
  | zero => exact ⟨hr, rfl⟩
  | succ n ih =>
    simp only [optimizeSeq]
    obtain ⟨h1, h2⟩ := ih
    rw [h2]
    exact runTrial_sim sim A obj _ _ _ h1

theorem runCalls_sim (sim : Sim S₁ S₂) (A : Algo ρ) (obj : Nat → Prog) (reseed : Bool)
    (calls : List Nat) (s₁ : S₁.σ) (s₂ : S₂.σ) (r : ρ) (hr : sim.R s₁ s₂) :
    sim.R (runCalls S₁ A obj reseed calls s₁ r).1 (runCalls S₂ A obj reseed calls s₂ r).1 ∧
      (runCalls S₁ A obj reseed calls s₁ r).2 = (runCalls S₂ A obj reseed calls s₂ r).2 := by
  induction calls generalizing s₁ s₂ r with
  | nil => exact ⟨hr, rfl⟩
  | cons n rest ih =>
    simp only [runCalls]
    obtain ⟨h1, h2⟩ := optimizeSeq_sim sim A obj reseed n s₁ s₂ r hr
    rw [h2]
    exact ih _ _ _ h1

end OptunaVerif.Repro

namespace OptunaVerif.Repro
open OptunaVerif OptunaVerif.Storage

/-! ## `trialsFrom`: ids are positions, increasing, and updates commute -/

theorem trialsFrom_ge (sid : Nat) (l : List TrialS) (i n j : Nat) (t : TrialS)
    (h : (trialsFrom sid l i)[n]? = some (j, t)) : i ≤ j := by
  induction l generalizing i n with
  | nil => simp [trialsFrom] at h
  | cons a r ih =>
    simp only [trialsFrom] at h
    split at h
    · cases n with
      | zero => simp at h; omega
      | succ n => simp at h; have := ih _ _ h; omega
    · have := ih _ _ h; omega

theorem trialsFrom_get (sid : Nat) (l : List TrialS) (i n j : Nat) (t : TrialS)
    (h : (trialsFrom sid l i)[n]? = some (j, t)) :
    l[j - i]? = some t ∧ t.study = sid := by
  induction l generalizing i n with
  | nil => simp [trialsFrom] at h
  | cons a r ih =>
    simp only [trialsFrom] at h
    split at h
    · rename_i hs
      cases n with
      | zero =>
        simp only [List.getElem?_cons_zero, Option.some.injEq, Prod.mk.injEq] at h
        obtain ⟨h1, h2⟩ := h
        subst h1; subst h2
        simp only [Nat.sub_self, List.getElem?_cons_zero, true_and]
        simpa using hs
      | succ n =>
        simp only [List.getElem?_cons_succ] at h
        have hge := trialsFrom_ge _ _ _ _ _ _ h
        obtain ⟨h1, h2⟩ := ih _ _ h
        refine ⟨?_, h2⟩
        have : j - i = (j - (i + 1)) + 1 := by omega
        rw [this, List.getElem?_cons_succ]; exact h1
    · have hge := trialsFrom_ge _ _ _ _ _ _ h
      obtain ⟨h1, h2⟩ := ih _ _ h
      refine ⟨?_, h2⟩
      have : j - i = (j - (i + 1)) + 1 := by omega
      rw [this, List.getElem?_cons_succ]; exact h1

/-- Updating the record stored at list position `k` updates exactly the entry of `trialsFrom` that
carries the id `i + k` (the update must keep the `study` field). -/
theorem trialsFrom_updAt (sid : Nat) (f : TrialS → TrialS) (hf : ∀ t, (f t).study = t.study)
    (l : List TrialS) (i k n : Nat) (t : TrialS)
    (h : (trialsFrom sid l i)[n]? = some (i + k, t)) :
    trialsFrom sid (updAt l k f) i = updAt (trialsFrom sid l i) n (fun p => (p.1, f p.2)) := by
  induction l generalizing i k n with
  | nil => simp [trialsFrom] at h
  | cons a r ih =>
    cases k with
    | zero =>
      simp only [updAt, trialsFrom, hf]
      simp only [trialsFrom] at h
      split
      · rename_i hs
        simp only [hs, if_true] at h
        cases n with
        | zero => simp [updAt]
        | succ n =>
          simp only [List.getElem?_cons_succ] at h
          have := trialsFrom_ge _ _ _ _ _ _ h
          omega
      · rename_i hs
        rw [if_neg hs] at h
        have := trialsFrom_ge _ _ _ _ _ _ h
        omega
    | succ k =>
      simp only [updAt, trialsFrom]
      simp only [trialsFrom] at h
      split
      · rename_i hs
        simp only [hs, if_true] at h
        cases n with
        | zero =>
          simp only [List.getElem?_cons_zero, Option.some.injEq, Prod.mk.injEq] at h
          omega
        | succ n =>
          simp only [List.getElem?_cons_succ] at h
          have h' : (trialsFrom sid r (i + 1))[n]? = some (i + 1 + k, t) := by
            rw [h]; congr 2; omega
          simp only [updAt, ih _ _ _ h']
      · rename_i hs
        rw [if_neg hs] at h
        have h' : (trialsFrom sid r (i + 1))[n]? = some (i + 1 + k, t) := by
          rw [h]; congr 2; omega
        exact ih _ _ _ h'

theorem trialsFrom_append (sid : Nat) (l : List TrialS) (i : Nat) (t : TrialS) (ht : t.study = sid) :
    trialsFrom sid (l ++ [t]) i = trialsFrom sid l i ++ [(i + l.length, t)] := by
  induction l generalizing i with
  | nil => simp [trialsFrom, ht]
  | cons a r ih =>
    simp only [List.cons_append, trialsFrom, ih]
    split
    · simp only [List.cons_append, List.length_cons, List.cons.injEq, true_and]
      congr 3; omega
    · simp only [List.length_cons]
      congr 3; omega

theorem map_updAt {α β : Type} (l : List α) (n : Nat) (g : α → α) (f : β → β) (h : α → β)
    (hc : ∀ a, h (g a) = f (h a)) : (updAt l n g).map h = updAt (l.map h) n f := by
  induction l generalizing n with
  | nil => simp [updAt]
  | cons a r ih => cases n <;> simp [updAt, hc, ih]

theorem updAt_map_fst {α β : Type} (l : List (α × β)) (n : Nat) (g : β → β) :
    (updAt l n (fun p => (p.1, g p.2))).map Prod.fst = l.map Prod.fst := by
  induction l generalizing n with
  | nil => simp [updAt]
  | cons a r ih => cases n <;> simp [updAt, ih]

end OptunaVerif.Repro

namespace OptunaVerif.Repro
open OptunaVerif OptunaVerif.Storage

/-! ## the contract model refines the canonical id-free storage -/

/-- The id-erased study `sid` of `s` is `v`, and handle `tid` is its trial at position `n`. -/
def Cur (sid : Nat) (s : Spec) (tid : Nat) (v : View) (n : Nat) : Prop :=
  specView sid s = some v ∧ ((s.trialsOf sid)[n]?).map Prod.fst = some tid

theorem specView_some {sid : Nat} {s : Spec} {v : View} (h : specView sid s = some v) :
    s.study? sid = some v.study ∧ v.trials = (s.trialsOf sid).map (fun p => eraseT p.2) := by
  unfold specView at h
  cases hs : s.study? sid with
  | none => simp [hs] at h
  | some st =>
    simp only [hs, Option.map_some, Option.some.injEq] at h
    subst h
    exact ⟨rfl, rfl⟩

theorem cur_facts {sid : Nat} {s : Spec} {tid : Nat} {v : View} {n : Nat} (h : Cur sid s tid v n) :
    ∃ t, (s.trialsOf sid)[n]? = some (tid, t) ∧ s.trials[tid]? = some t ∧ t.study = sid ∧
      s.study? sid = some v.study ∧ v.trials = (s.trialsOf sid).map (fun p => eraseT p.2) ∧
      s.trial? tid = some t ∧ v.trials[n]? = some (eraseT t) := by
  obtain ⟨hv, hp⟩ := h
  obtain ⟨hst, htr⟩ := specView_some hv
  cases hn : (s.trialsOf sid)[n]? with
  | none => simp [hn] at hp
  | some p =>
    obtain ⟨j, t⟩ := p
    simp only [hn, Option.map_some, Option.some.injEq] at hp
    subst hp
    obtain ⟨hget, hstudy⟩ := trialsFrom_get sid s.trials 0 n j t hn
    simp only [Nat.sub_zero] at hget
    refine ⟨t, rfl, hget, hstudy, hst, htr, ?_, ?_⟩
    · rw [trial?_some_iff]; exact ⟨hget, by rw [hstudy, hst]; rfl⟩
    · rw [htr, List.getElem?_map, hn]; rfl

theorem Cur_updTrial {sid : Nat} {s : Spec} {tid : Nat} {v : View} {n : Nat} (f : TrialS → TrialS)
    (hf : ∀ t, (f t).study = t.study) (hc : ∀ t, eraseT (f t) = f (eraseT t))
    (h : Cur sid s tid v n) : Cur sid (s.updTrial tid f) tid (v.updTrial n f) n := by
  obtain ⟨t, hn, _, _, hst, htr, _, _⟩ := cur_facts h
  have hn' : (trialsFrom sid s.trials 0)[n]? = some (0 + tid, t) := by rw [Nat.zero_add]; exact hn
  have hupd := trialsFrom_updAt sid f hf s.trials 0 tid n t hn'
  have htO : (s.updTrial tid f).trialsOf sid =
      updAt (s.trialsOf sid) n (fun p => (p.1, f p.2)) := hupd
  refine ⟨?_, ?_⟩
  · unfold specView
    rw [updTrial_study?, hst, htO]
    simp only [Option.map_some, Option.some.injEq]
    rw [map_updAt (s.trialsOf sid) n (fun p : Nat × TrialS => (p.1, f p.2)) f
      (fun p : Nat × TrialS => eraseT p.2) (fun a => hc a.2)]
    simp only [View.updTrial, htr]
  · rw [htO, updAt_getElem?]
    simp [hn]

theorem updStudy_study? (s : Spec) (sid : Nat) (g : StudyS → StudyS) (st : StudyS)
    (h : s.study? sid = some st) : (s.updStudy sid g).study? sid = some (g st) := by
  unfold Spec.study? at *
  simp only [Spec.updStudy, updAt_getElem?, if_true]
  cases hh : s.studies[sid]? with
  | none => simp [hh] at h
  | some o =>
    simp only [hh, Option.join_some] at h
    subst h
    rfl

theorem Cur_updStudy {sid : Nat} {s : Spec} {tid : Nat} {v : View} {n : Nat} (g : StudyS → StudyS)
    (h : Cur sid s tid v n) : Cur sid (s.updStudy sid g) tid { v with study := g v.study } n := by
  obtain ⟨hv, hp⟩ := h
  obtain ⟨hst, htr⟩ := specView_some hv
  refine ⟨?_, hp⟩
  unfold specView
  rw [updStudy_study? s sid g _ hst]
  simp only [Option.map_some, Option.some.injEq]
  rw [htr]
  rfl

theorem templateConflict_view {sid : Nat} {s : Spec} {v : View}
    (htr : v.trials = (s.trialsOf sid).map (fun p => eraseT p.2)) (name : String) (d : Dist) :
    s.templateConflict sid name d = v.templateConflict name d := by
  unfold Spec.templateConflict View.templateConflict
  rw [htr, List.any_map]
  rfl

theorem writable_of_facts {s : Spec} {tid : Nat} {t : TrialS} (h : s.trial? tid = some t) :
    s.writable tid = if t.state.isFinished then .error .updateFinished else .ok t := by
  simp [Spec.writable, h]

theorem view_writable {v : View} {n : Nat} {t : TrialS} (h : v.trials[n]? = some (eraseT t)) :
    v.writable n = if t.state.isFinished then none else some (eraseT t) := by
  simp only [View.writable, h]
  rfl

/-! ### each call of the loop, on both sides -/

theorem sim_setInter {sid : Nat} {ir : Bool} {s : Spec} {tid : Nat} {v : View} {n : Nat}
    (h : Cur sid s tid v n) (stp : Int) (x : XVal) :
    Cur sid ((specStore sid ir).setInter s tid stp x) tid ((viewStore ir).setInter v n stp x) n := by
  obtain ⟨t, _, _, _, _, _, htrial, hvn⟩ := cur_facts h
  simp only [specStore, viewStore, step, writable_of_facts htrial, view_writable hvn]
  cases hfin : t.state.isFinished
  · simp only [Bool.false_eq_true, ↓reduceIte]
    exact Cur_updTrial _ (fun _ => rfl) (fun _ => rfl) h
  · simp only [↓reduceIte]; exact h

theorem sim_setUserAttr {sid : Nat} {ir : Bool} {s : Spec} {tid : Nat} {v : View} {n : Nat}
    (h : Cur sid s tid v n) (k x : String) :
    Cur sid ((specStore sid ir).setUserAttr s tid k x) tid ((viewStore ir).setUserAttr v n k x) n := by
  obtain ⟨t, _, _, _, _, _, htrial, hvn⟩ := cur_facts h
  simp only [specStore, viewStore, step, writable_of_facts htrial, view_writable hvn]
  cases hfin : t.state.isFinished
  · simp only [Bool.false_eq_true, ↓reduceIte]
    exact Cur_updTrial _ (fun _ => rfl) (fun _ => rfl) h
  · simp only [↓reduceIte]; exact h

theorem sim_write {sid : Nat} {ir : Bool} {s : Spec} {tid : Nat} {v : View} {n : Nat}
    (h : Cur sid s tid v n) (w : Write) :
    Cur sid ((specStore sid ir).write s tid w) tid ((viewStore ir).write v n w) n := by
  obtain ⟨t, _, _, _, hst, _, htrial, hvn⟩ := cur_facts h
  cases w with
  | trialSys k x =>
    simp only [specStore, viewStore, step, writable_of_facts htrial, view_writable hvn]
    cases hfin : t.state.isFinished
    · simp only [Bool.false_eq_true, ↓reduceIte]
      exact Cur_updTrial _ (fun _ => rfl) (fun _ => rfl) h
    · simp only [↓reduceIte]; exact h
  | studySys k x =>
    simp only [specStore, viewStore, step, hst]
    exact Cur_updStudy (fun st => { st with systemAttrs := st.systemAttrs.set k x }) h

theorem sim_finish {sid : Nat} {ir : Bool} {s : Spec} {tid : Nat} {v : View} {n : Nat}
    (h : Cur sid s tid v n) (st : TState) (vals : Option (List XVal)) :
    Cur sid ((specStore sid ir).finish s tid st vals) tid ((viewStore ir).finish v n st vals) n := by
  obtain ⟨t, _, _, _, _, _, htrial, hvn⟩ := cur_facts h
  simp only [specStore, viewStore, step, writable_of_facts htrial, view_writable hvn]
  cases hfin : t.state.isFinished
  · simp only [Bool.false_eq_true, ↓reduceIte]
    have he : (eraseT t).state = t.state := rfl
    rw [he]
    cases hb : (st == TState.running && t.state != TState.waiting)
    · simp only [Bool.false_eq_true, ↓reduceIte]
      exact Cur_updTrial (finishUpd st vals) (fun _ => rfl) (fun _ => rfl) h
    · simp only [↓reduceIte]; exact h
  · simp only [↓reduceIte]; exact h

theorem sim_setParam {sid : Nat} {ir : Bool} {s : Spec} {tid : Nat} {v : View} {n : Nat}
    (h : Cur sid s tid v n) (name : String) (p : Param) :
    ((specStore sid ir).setParam s tid name p).2 = ((viewStore ir).setParam v n name p).2 ∧
    Cur sid ((specStore sid ir).setParam s tid name p).1 tid
      ((viewStore ir).setParam v n name p).1 n := by
  obtain ⟨t, _, _, hstudy, hst, htr, htrial, hvn⟩ := cur_facts h
  have hst' : s.study? t.study = some v.study := by rw [hstudy]; exact hst
  simp only [specStore, viewStore, step, writable_of_facts htrial, view_writable hvn]
  cases hfin : t.state.isFinished
  · simp only [Bool.false_eq_true, ↓reduceIte, hst']
    cases hfc : v.study.fixedConflict name p.dist
    · simp only [Bool.false_eq_true, ↓reduceIte]
      rw [hstudy, templateConflict_view htr]
      cases htc : (v.templateConflict name p.dist && ir)
      · simp only [Bool.false_eq_true, ↓reduceIte]
        refine ⟨trivial, ?_⟩
        have h1 := Cur_updTrial (fun t => { t with params := t.params.set name p })
          (fun _ => rfl) (fun _ => rfl) h
        exact Cur_updStudy (fun st => { st with paramDist := st.paramDist.set name p.dist }) h1
      · simp only [↓reduceIte]; exact ⟨trivial, h⟩
    · simp only [↓reduceIte]; exact ⟨trivial, h⟩
  · simp only [↓reduceIte]; exact ⟨trivial, h⟩

end OptunaVerif.Repro

namespace OptunaVerif.Repro
open OptunaVerif OptunaVerif.Storage

/-! ### `Study.ask` on both sides -/

theorem firstWaiting_spec (L : List (Nat × TrialS)) (i : Nat) :
    match firstWaiting L with
    | some tid => ∃ n t, firstWaitingIdx (L.map (fun p => eraseT p.2)) i = some (i + n) ∧
        L[n]? = some (tid, t) ∧ t.state = .waiting
    | none => firstWaitingIdx (L.map (fun p => eraseT p.2)) i = none := by
  induction L generalizing i with
  | nil => simp [firstWaiting, firstWaitingIdx]
  | cons a r ih =>
    obtain ⟨j, t⟩ := a
    simp only [firstWaiting, List.map_cons, firstWaitingIdx]
    have he : (eraseT t).state = t.state := rfl
    rw [he]
    cases hw : (t.state == TState.waiting)
    · simp only [Bool.false_eq_true, ↓reduceIte]
      have := ih (i + 1)
      cases hf : firstWaiting r with
      | none => simp only [hf] at this ⊢; exact this
      | some tid =>
        simp only [hf] at this ⊢
        obtain ⟨n, t', h1, h2, h3⟩ := this
        exact ⟨n + 1, t', by rw [h1]; congr 1; omega, by simpa using h2, h3⟩
    · simp only [↓reduceIte]
      exact ⟨0, t, rfl, rfl, by simpa using hw⟩

theorem sim_ask {sid : Nat} {ir : Bool} {s : Spec} {v : View} (h : specView sid s = some v) :
    ∃ tid n, ((specStore sid ir).ask s).2 = some tid ∧ ((viewStore ir).ask v).2 = some n ∧
      Cur sid ((specStore sid ir).ask s).1 tid ((viewStore ir).ask v).1 n := by
  obtain ⟨hst, htr⟩ := specView_some h
  have hfw := firstWaiting_spec (s.trialsOf sid) 0
  simp only [specStore, viewStore]
  rw [htr]
  cases hf : firstWaiting (s.trialsOf sid) with
  | some tid =>
    simp only [hf] at hfw
    obtain ⟨n, t, h1, h2, h3⟩ := hfw
    rw [Nat.zero_add] at h1
    have hcur : Cur sid s tid v n := ⟨h, by rw [h2]; rfl⟩
    obtain ⟨t', hn', _, _, _, _, htrial, _⟩ := cur_facts hcur
    rw [h2] at hn'
    simp only [Option.some.injEq, Prod.mk.injEq, true_and] at hn'
    subst hn'
    have hnf : t.state.isFinished = false := by rw [h3]; rfl
    have hb : (TState.running == TState.running && t.state != TState.waiting) = false := by
      rw [h3]; rfl
    simp only [h1, step, writable_of_facts htrial, hnf, hb, Bool.false_eq_true, ↓reduceIte]
    refine ⟨tid, n, rfl, rfl, ?_⟩
    exact Cur_updTrial (finishUpd .running none) (fun _ => rfl) (fun _ => rfl) hcur
  | none =>
    simp only [hf] at hfw
    simp only [hfw, step, hst, Bool.false_and, Bool.false_eq_true, ↓reduceIte]
    refine ⟨s.trials.length, ((s.trialsOf sid).map (fun p => eraseT p.2)).length, rfl, rfl, ?_⟩
    have happ : trialsFrom sid (s.trials ++ [mkTrial sid (s.trialsOf sid).length none]) 0 =
        s.trialsOf sid ++ [(0 + s.trials.length, mkTrial sid (s.trialsOf sid).length none)] :=
      trialsFrom_append sid s.trials 0 _ rfl
    refine ⟨?_, ?_⟩
    · unfold specView
      show Option.map _ (s.study? sid) = _
      rw [hst]
      simp only [Option.map_some, Option.some.injEq]
      show View.mk v.study (List.map (fun p => eraseT p.2)
        (trialsFrom sid (s.trials ++ [mkTrial sid (s.trialsOf sid).length none]) 0)) = _
      rw [happ]
      simp only [List.map_append, List.map_cons, List.map_nil, List.length_map]
      rfl
    · show (((trialsFrom sid (s.trials ++ [mkTrial sid (s.trialsOf sid).length none]) 0))[_]?).map
        Prod.fst = _
      rw [happ]
      simp

/-- The contract model, in any state and at any study id, is simulated by the canonical id-free
storage: the id-erased view is a function of the id-erased view before the call. -/
def specSim (sid : Nat) (ir : Bool) : Sim (specStore sid ir) (viewStore ir) where
  R := fun s v => specView sid s = some v
  C := fun s tid v n => Cur sid s tid v n
  C_R := fun h => h.1
  view_eq := fun h => h
  cur_eq := @fun (s : Spec) (tid : Nat) (v : View) (n : Nat) h => by
    obtain ⟨t, _, _, _, _, _, htrial, hvn⟩ := cur_facts h
    show (s.trial? tid).map eraseT = v.trials[n]?
    rw [htrial, hvn]; rfl
  ask_sim := fun h => by
    obtain ⟨tid, n, h1, h2, h3⟩ := sim_ask (ir := ir) h
    exact Or.inl ⟨tid, n, h1, h2, h3⟩
  setParam_sim := fun h name p => sim_setParam h name p
  setInter_sim := fun h stp x => sim_setInter h stp x
  setUserAttr_sim := fun h k x => sim_setUserAttr h k x
  write_sim := fun h w => sim_write h w
  finish_sim := fun h st vals => (sim_finish h st vals).1

end OptunaVerif.Repro
