import OptunaVerif.Lemmas.Repro
/-! Helper lemmas for `copy_study` (C09): folds of study-attribute writes and of
`create_new_trial(template)` on the storage contract model. -/
namespace OptunaVerif.Repro
open OptunaVerif OptunaVerif.Storage

/-! ## attribute dictionaries -/

theorem AList.set_of_not_mem {α : Type} (l : AList α) (k : String) (v : α)
    (h : k ∉ l.map Prod.fst) : AList.set l k v = l ++ [(k, v)] := by
  induction l with
  | nil => rfl
  | cons a r ih =>
    obtain ⟨k', v'⟩ := a
    simp only [List.map_cons, List.mem_cons, not_or] at h
    have hne : ¬ k' = k := fun e => h.1 e.symm
    simp only [AList.set, hne, if_false, ih h.2, List.cons_append]

/-- Writing the entries of a dictionary with distinct keys one by one into a dictionary that has
none of these keys appends them in order. -/
theorem foldl_set_nodup {α : Type} (l acc : AList α)
    (hnd : ((acc ++ l).map Prod.fst).Nodup) :
    l.foldl (fun a kv => AList.set a kv.1 kv.2) acc = acc ++ l := by
  induction l generalizing acc with
  | nil => simp
  | cons kv r ih =>
    obtain ⟨k, v⟩ := kv
    have hk : k ∉ acc.map Prod.fst := by
      simp only [List.map_append, List.map_cons] at hnd
      have := (List.nodup_append.1 hnd).2.2
      intro hmem
      exact this k hmem k (List.mem_cons_self ..) rfl
    simp only [List.foldl_cons, AList.set_of_not_mem acc k v hk]
    rw [ih (acc ++ [(k, v)]) (by simpa using hnd)]
    simp

/-! ## study attribute writes -/

theorem setStudySys_spec (l : AList String) (d : Spec) (sid : Nat) (st : StudyS)
    (hst : d.study? sid = some st) :
    (setStudySys d sid l).study? sid =
        some { st with systemAttrs := l.foldl (fun a kv => AList.set a kv.1 kv.2) st.systemAttrs } ∧
      (setStudySys d sid l).trials = d.trials := by
  induction l generalizing d st with
  | nil => exact ⟨hst, rfl⟩
  | cons kv r ih =>
    simp only [setStudySys, List.foldl_cons]
    have h1 : (step d (.setStudySystemAttr sid kv.1 kv.2)).1 =
        d.updStudy sid (fun st => { st with systemAttrs := st.systemAttrs.set kv.1 kv.2 }) := by
      simp only [step, hst]
    rw [h1]
    have := ih (d.updStudy sid (fun st => { st with systemAttrs := st.systemAttrs.set kv.1 kv.2 }))
      _ (updStudy_study? d sid _ st hst)
    exact this

theorem setStudyUser_spec (l : AList String) (d : Spec) (sid : Nat) (st : StudyS)
    (hst : d.study? sid = some st) :
    (setStudyUser d sid l).study? sid =
        some { st with userAttrs := l.foldl (fun a kv => AList.set a kv.1 kv.2) st.userAttrs } ∧
      (setStudyUser d sid l).trials = d.trials := by
  induction l generalizing d st with
  | nil => exact ⟨hst, rfl⟩
  | cons kv r ih =>
    simp only [setStudyUser, List.foldl_cons]
    have h1 : (step d (.setStudyUserAttr sid kv.1 kv.2)).1 =
        d.updStudy sid (fun st => { st with userAttrs := st.userAttrs.set kv.1 kv.2 }) := by
      simp only [step, hst]
    rw [h1]
    have := ih (d.updStudy sid (fun st => { st with userAttrs := st.userAttrs.set kv.1 kv.2 }))
      _ (updStudy_study? d sid _ st hst)
    exact this

/-! ## the fold of `create_new_trial(template)` -/

/-- The records `add_trials` creates: every field of the source trial, numbered from `k`. -/
def copied (sid : Nat) : Nat → List TrialS → List TrialS
  | _, [] => []
  | k, t :: r => mkTrial sid k (some (templateOf t)) :: copied sid (k + 1) r

theorem trialsFrom_nil_of_ne (sid : Nat) (l : List TrialS) (i : Nat)
    (h : ∀ t ∈ l, t.study ≠ sid) : trialsFrom sid l i = [] := by
  induction l generalizing i with
  | nil => rfl
  | cons a r ih =>
    have ha : (a.study == sid) = false := by
      simpa using h a (List.mem_cons_self ..)
    simp only [trialsFrom, ha, Bool.false_eq_true, if_false]
    exact ih _ (fun t ht => h t (List.mem_cons_of_mem _ ht))

/-- No template of `ts` conflicts with anything the destination study holds: all parameter
distributions involved are pairwise compatible (always true when `ir = false`, i.e. on backends
that do not check templates). -/
def Accepts (ir : Bool) (all : List TrialS) : Prop :=
  ir = true → ∀ t ∈ all, ∀ t' ∈ all, ∀ (name : String) (q : Param) (p : Param),
    t.params.get? name = some q → (name, p) ∈ t'.params → q.dist.compat p.dist = true

theorem addTrials_spec (ir : Bool) (all : List TrialS) (hacc : Accepts ir all)
    (ts : List TrialS) (hsub : ∀ t ∈ ts, t ∈ all) (d : Spec) (sid : Nat) (st : StudyS)
    (hst : d.study? sid = some st) (hpd : st.paramDist = [])
    (hprev : ∀ p ∈ d.trialsOf sid, ∃ t ∈ all, p.2.params = t.params) :
    (addTrials d sid ir ts).study? sid = some st ∧
      ((addTrials d sid ir ts).trialsOf sid).map Prod.snd =
        (d.trialsOf sid).map Prod.snd ++ copied sid (d.trialsOf sid).length ts := by
  induction ts generalizing d with
  | nil => simp [addTrials, copied, hst]
  | cons t r ih =>
    have hnoconf : (ir && d.tmplConflict sid st (some (templateOf t))) = false := by
      cases hir : ir with
      | false => rfl
      | true =>
        simp only [Bool.true_and]
        simp only [Spec.tmplConflict, templateOf]
        rw [List.any_eq_false]
        intro np hnp
        obtain ⟨name, p⟩ := np
        simp only [Bool.or_eq_true, not_or, Bool.not_eq_true]
        refine ⟨?_, ?_⟩
        · simp [StudyS.fixedConflict, hpd, AList.get?]
        · simp only [Spec.templateConflict]
          rw [List.any_eq_false]
          intro e he
          obtain ⟨t0, ht0, hpar⟩ := hprev e he
          rw [hpar]
          cases hq : t0.params.get? name with
          | none => simp
          | some q =>
            have := hacc hir t0 ht0 t (hsub t (List.mem_cons_self ..)) name q p hq hnp
            simp [this]
    have hstep : (step d (.createTrial sid (some (templateOf t)) ir)).1 =
        { d with trials := d.trials ++ [mkTrial sid (d.trialsOf sid).length (some (templateOf t))] } := by
      simp only [step, hst, hnoconf, Bool.false_eq_true, if_false]
    simp only [addTrials, List.foldl_cons]
    rw [hstep]
    have htO : Spec.trialsOf { d with trials := d.trials ++ [mkTrial sid (d.trialsOf sid).length (some (templateOf t))] } sid =
        d.trialsOf sid ++ [(0 + d.trials.length, mkTrial sid (d.trialsOf sid).length (some (templateOf t)))] :=
      trialsFrom_append sid d.trials 0 _ rfl
    have := ih (fun x hx => hsub x (List.mem_cons_of_mem _ hx))
      { d with trials := d.trials ++ [mkTrial sid (d.trialsOf sid).length (some (templateOf t))] } hst
      (by
        intro p hp
        rw [htO, List.mem_append] at hp
        rcases hp with hp | hp
        · exact hprev p hp
        · simp only [List.mem_singleton] at hp
          subst hp
          exact ⟨t, hsub t (List.mem_cons_self ..), rfl⟩)
    simp only [addTrials] at this
    refine ⟨this.1, ?_⟩
    rw [this.2, htO]
    simp [copied, List.append_assoc]

/-- With dense numbers in the source (`t.number` = its position) the copied records are the source
records with only the study id changed. -/
theorem copied_eq (sid k : Nat) (ts : List TrialS) (hnum : ∀ n t, ts[n]? = some t → t.number = k + n) :
    (copied sid k ts).map eraseT = ts.map eraseT := by
  induction ts generalizing k with
  | nil => rfl
  | cons t r ih =>
    have h0 := hnum 0 t rfl
    simp only [Nat.add_zero] at h0
    simp only [copied, List.map_cons]
    rw [ih (k + 1) (fun n t' h => by have := hnum (n + 1) t' (by simpa using h); omega)]
    congr 1
    simp only [eraseT, mkTrial, templateOf, h0]

end OptunaVerif.Repro
