import OptunaVerif.Model.SearchSpace
import Mathlib.Data.List.Sort
import Mathlib.Data.String.Basic
/-!
# Helper lemmas for C17 (search spaces)

Dicts are association lists; `NodupKeys` says a list is a dict.  `Rep sp P` says the stored
search space `sp` is exactly the intersection of the parameter dicts of the trials in the set `P`.
-/
namespace OptunaVerif.SearchSpace
open OptunaVerif

/-! ## association lists as dicts -/

def NodupKeys (d : Dists) : Prop := (keys d).Nodup

/-- `p` is an item of the dict `d` as Python sees it: `d.get(p.1) == p.2` -/
def Has (d : Dists) (p : String × Nat) : Prop := AList.get? d p.1 = some p.2

theorem mem_of_get? {d : Dists} {k : String} {v : Nat} (h : AList.get? d k = some v) : (k, v) ∈ d := by
  induction d with
  | nil => simp [AList.get?] at h
  | cons hd t ih =>
    obtain ⟨k', v'⟩ := hd
    by_cases hk : k' = k
    · simp [AList.get?, hk] at h; subst hk; subst h; simp
    · simp [AList.get?, hk] at h; exact List.mem_cons_of_mem _ (ih h)

theorem get?_of_mem {d : Dists} (hd : NodupKeys d) {k : String} {v : Nat} (h : (k, v) ∈ d) :
    AList.get? d k = some v := by
  induction d with
  | nil => simp at h
  | cons hd' t ih =>
    obtain ⟨k', v'⟩ := hd'
    simp only [NodupKeys, keys, List.map_cons, List.nodup_cons] at hd
    rcases List.mem_cons.mp h with h | h
    · simp only [Prod.mk.injEq] at h; obtain ⟨h1, h2⟩ := h; subst h1; subst h2; simp [AList.get?]
    · have hne : k' ≠ k := by
        intro e; subst e
        exact hd.1 (List.mem_map.mpr ⟨(k', v), h, rfl⟩)
      simp only [AList.get?, hne, if_false]
      exact ih hd.2 h

theorem has_iff_mem {d : Dists} (hd : NodupKeys d) (p : String × Nat) : Has d p ↔ p ∈ d :=
  ⟨fun h => mem_of_get? h, fun h => get?_of_mem hd h⟩

theorem get?_none_of_not_mem_keys {d : Dists} {k : String} (h : k ∉ keys d) : AList.get? d k = none := by
  cases hg : AList.get? d k with
  | none => rfl
  | some v => exact absurd (List.mem_map.mpr ⟨(k, v), mem_of_get? hg, rfl⟩) h

theorem keys_set (l : Dists) (k : String) (v : Nat) :
    keys (AList.set l k v) = if k ∈ keys l then keys l else keys l ++ [k] := by
  induction l with
  | nil => simp [AList.set, keys]
  | cons hd t ih =>
    obtain ⟨k', v'⟩ := hd
    by_cases hk : k' = k
    · subst hk; simp [AList.set, keys]
    · have hk' : ¬ k = k' := fun e => hk e.symm
      simp only [AList.set, hk, if_false, keys, List.map_cons, List.mem_cons, hk', false_or] at ih ⊢
      rw [ih]; split <;> simp [*]

theorem nodupKeys_set {l : Dists} (h : NodupKeys l) (k : String) (v : Nat) : NodupKeys (AList.set l k v) := by
  unfold NodupKeys at *
  rw [keys_set]
  split
  · exact h
  · rename_i hk
    exact List.nodup_append.mpr ⟨h, by simp, by
      intro a ha b hb
      simp only [List.mem_singleton] at hb
      subst hb; intro e; subst e; exact hk ha⟩

theorem nodupKeys_nil : NodupKeys [] := by simp [NodupKeys, keys]

theorem nodupKeys_mkDists (params : List (String × Nat)) : NodupKeys (mkDists params) := by
  unfold mkDists
  suffices h : ∀ acc : Dists, NodupKeys acc → NodupKeys (params.foldl (fun acc p => AList.set acc p.1 p.2) acc) from
    h [] nodupKeys_nil
  induction params with
  | nil => intro acc h; exact h
  | cons p ps ih => intro acc h; exact ih _ (nodupKeys_set h _ _)

theorem nodupKeys_filter {l : Dists} (h : NodupKeys l) (f : String × Nat → Bool) : NodupKeys (l.filter f) := by
  unfold NodupKeys keys at *
  exact List.Nodup.sublist (List.Sublist.map _ List.filter_sublist) h

theorem nodup_of_nodupKeys {l : Dists} (h : NodupKeys l) : l.Nodup := List.Nodup.of_map _ h

theorem mem_inter (s d : Dists) (p : String × Nat) : p ∈ inter s d ↔ p ∈ s ∧ Has d p := by
  simp [inter, Has, List.mem_filter]

theorem eq_of_key_eq {l : Dists} (h : NodupKeys l) {p q : String × Nat} (hp : p ∈ l) (hq : q ∈ l)
    (hk : p.1 = q.1) : p = q := by
  have h1 := get?_of_mem h (k := p.1) (v := p.2) hp
  have h2 := get?_of_mem h (k := q.1) (v := q.2) hq
  rw [hk, h2] at h1
  simp only [Option.some.injEq] at h1
  exact Prod.ext hk h1.symm

/-! ## the final `sorted(...)` -/

def leName (p q : String × Nat) : Prop := p.1 ≤ q.1

instance : DecidableRel leName := fun p q => inferInstanceAs (Decidable (p.1 ≤ q.1))
instance : Std.Total leName := ⟨fun p q => le_total p.1 q.1⟩
instance : IsTrans (String × Nat) leName := ⟨fun _ _ _ h1 h2 => le_trans (α := String) h1 h2⟩

theorem insertByName_eq (p : String × Nat) (l : Dists) : insertByName p l = l.orderedInsert leName p := by
  induction l with
  | nil => rfl
  | cons q r ih =>
    simp only [insertByName, List.orderedInsert_cons, leName, ih]
    by_cases h : p.1 ≤ q.1 <;> simp [h]

theorem sortByName_eq (l : Dists) : sortByName l = l.insertionSort leName := by
  induction l with
  | nil => rfl
  | cons p l ih =>
    show insertByName p (sortByName l) = _
    rw [insertByName_eq, ih]; rfl

theorem perm_sortByName (l : Dists) : (sortByName l).Perm l := by
  rw [sortByName_eq]; exact List.perm_insertionSort _ _

theorem mem_sortByName {l : Dists} {p : String × Nat} : p ∈ sortByName l ↔ p ∈ l :=
  (perm_sortByName l).mem_iff

theorem sorted_sortByName (l : Dists) : (sortByName l).Pairwise leName := by
  rw [sortByName_eq]; exact List.pairwise_insertionSort _ _

theorem nodupKeys_sortByName {l : Dists} (h : NodupKeys l) : NodupKeys (sortByName l) := by
  unfold NodupKeys keys at *
  exact ((perm_sortByName l).map _).nodup_iff.mpr h

/-- two dicts with the same items are returned as the same sorted list -/
theorem sortByName_congr {a b : Dists} (ha : NodupKeys a) (hb : NodupKeys b) (h : ∀ p, p ∈ a ↔ p ∈ b) :
    sortByName a = sortByName b := by
  have hab : a.Perm b := (List.perm_ext_iff_of_nodup (nodup_of_nodupKeys ha) (nodup_of_nodupKeys hb)).mpr h
  have hperm : (sortByName a).Perm (sortByName b) :=
    ((perm_sortByName a).trans hab).trans (perm_sortByName b).symm
  refine List.Perm.eq_of_pairwise (le := leName) ?_ (sorted_sortByName a) (sorted_sortByName b) hperm
  intro p q hp hq h1 h2
  have hq' : q ∈ sortByName a := hperm.symm.subset hq
  exact eq_of_key_eq (nodupKeys_sortByName ha) hp hq' (le_antisymm (α := String) h1 h2)

/-! ## `Rep sp P`: the stored space is the intersection over the set `P` of trials -/

def Rep (sp : Option Dists) (P : Trial → Prop) : Prop :=
  match sp with
  | none => ∀ t, ¬ P t
  | some s => (∃ t, P t) ∧ NodupKeys s ∧ ∀ p, p ∈ s ↔ ∀ t, P t → Has t.dists p

theorem Rep.congr {sp : Option Dists} {P Q : Trial → Prop} (h : ∀ t, P t ↔ Q t) (hr : Rep sp P) : Rep sp Q := by
  have : P = Q := funext fun t => propext (h t)
  rw [← this]; exact hr

theorem rep_absorb {sp : Option Dists} {P : Trial → Prop} (hr : Rep sp P) (t : Trial)
    (ht : NodupKeys t.dists) : Rep (absorb sp t.dists) (fun u => P u ∨ u = t) := by
  cases sp with
  | none =>
    refine ⟨⟨t, Or.inr rfl⟩, ht, fun p => ⟨fun hp u hu => ?_, fun hp => ?_⟩⟩
    · rcases hu with hu | hu
      · exact absurd hu (hr u)
      · subst hu; exact (has_iff_mem ht p).mpr hp
    · exact (has_iff_mem ht p).mp (hp t (Or.inr rfl))
  | some s =>
    obtain ⟨⟨u0, hu0⟩, hs, hmem⟩ := hr
    refine ⟨⟨u0, Or.inl hu0⟩, nodupKeys_filter hs _, fun p => ?_⟩
    show p ∈ inter s t.dists ↔ _
    rw [mem_inter, hmem]
    constructor
    · rintro ⟨h1, h2⟩ u hu
      rcases hu with hu | hu
      · exact h1 u hu
      · subst hu; exact h2
    · intro h
      exact ⟨fun u hu => h u (Or.inl hu), h t (Or.inr rfl)⟩

/-- absorbing a list of finished trials, in order -/
def interAll (sp : Option Dists) (ts : List Trial) : Option Dists :=
  ts.foldl (fun sp t => absorb sp t.dists) sp

theorem rep_interAll (ts : List Trial) : ∀ {sp : Option Dists} {P : Trial → Prop}, Rep sp P →
    (∀ t ∈ ts, NodupKeys t.dists) → Rep (interAll sp ts) (fun u => P u ∨ u ∈ ts) := by
  induction ts with
  | nil => intro sp P hr _; exact hr.congr (by simp)
  | cons t ts ih =>
    intro sp P hr hnd
    have h1 := rep_absorb hr t (hnd t (by simp))
    have h2 := ih h1 (fun u hu => hnd u (by simp [hu]))
    refine h2.congr (fun u => ?_)
    simp only [List.mem_cons]
    tauto

/-- the stored space determines the returned dict, and two spaces representing the same set of trials
give the same returned dict -/
theorem output_congr {a b : Option Dists} {P : Trial → Prop} (ha : Rep a P) (hb : Rep b P) :
    output a = output b := by
  cases a with
  | none =>
    cases b with
    | none => rfl
    | some s => exact absurd hb.1.choose_spec (ha _)
  | some s =>
    cases b with
    | none => exact absurd ha.1.choose_spec (hb _)
    | some s' =>
      obtain ⟨_, hs, hm⟩ := ha
      obtain ⟨_, hs', hm'⟩ := hb
      exact sortByName_congr hs hs' (fun p => (hm p).trans (hm' p).symm)

theorem mem_output_some {s : Dists} {p : String × Nat} : p ∈ output (some s) ↔ p ∈ s := mem_sortByName

theorem output_none : output none = [] := rfl

/-! ## facts about the definitions generated from the Python source

These are the only places where the proofs look inside `Generated/SearchSpaceCode.lean`; a change of
the comparison, of an offset or of a state list in `_calculate` makes one of them (or a proof that
uses them) fail. -/

theorem breakTest_iff (c n : Int) : SearchSpaceCode.breakTest c n = true ↔ n < c := by
  simp [SearchSpaceCode.breakTest]

theorem nextUnsetTest_iff (nx : Int) : SearchSpaceCode.nextUnsetTest nx = true ↔ nx = -1 := by
  simp [SearchSpaceCode.nextUnsetTest]

theorem nextFirst_eq (n : Int) : SearchSpaceCode.nextFirst n = n + 1 := rfl
theorem nextUnfinished_eq (n : Int) : SearchSpaceCode.nextUnfinished n = n := rfl
theorem nextInit_eq : SearchSpaceCode.nextInit = -1 := rfl
theorem cursorInit_eq : SearchSpaceCode.cursorInit = -1 := rfl
theorem cachedDefault_eq : SearchSpaceCode.cachedDefault = -1 := rfl

/-- every unfinished state (RUNNING, WAITING) is a state of interest, whatever the flag -/
theorem unfinished_ofInterest (ip : Bool) (st : TState) (h : st.isFinished = false) : ofInterest ip st = true := by
  cases ip <;> cases st <;> first | rfl | (exact absurd h (by decide))

/-- the finished states of interest: COMPLETE, and PRUNED exactly when `include_pruned` -/
theorem finished_ofInterest_iff (ip : Bool) (st : TState) :
    (st.isFinished = true ∧ ofInterest ip st = true) ↔ (st = .complete ∨ (st = .pruned ∧ ip = true)) := by
  cases ip <;> cases st <;> decide

theorem groupOfInterest_iff (ip : Bool) (st : TState) :
    groupOfInterest ip st = true ↔ (st = .complete ∨ (st = .pruned ∧ ip = true)) := by
  cases ip <;> cases st <;> decide

/-! ## the reverse scan -/

/-- finished and of interest: the trials whose dicts are intersected -/
def FOI (ip : Bool) (t : Trial) : Prop := t.state.isFinished = true ∧ ofInterest ip t.state = true

def foiB (ip : Bool) (t : Trial) : Bool := t.state.isFinished && ofInterest ip t.state

theorem foiB_iff (ip : Bool) (t : Trial) : foiB ip t = true ↔ FOI ip t := by simp [foiB, FOI]

/-- strictly decreasing trial numbers (the reversed trial list of a study) -/
def Desc (L : List Trial) : Prop := L.Pairwise (fun a b => b.number < a.number)

/-- The space returned by the scan = the old space with every finished trial of interest whose number
is `≥ cached` absorbed (highest number first). The `break` loses nothing because numbers decrease. -/
theorem scan_space (ip : Bool) (cached : Int) : ∀ (L : List Trial) (sp : Option Dists) (nx : Int), Desc L →
    (scan ip cached L sp nx).1 =
      interAll sp (L.filter (fun t => foiB ip t && decide (cached ≤ (t.number : Int)))) := by
  intro L
  induction L with
  | nil => intro sp nx _; rfl
  | cons t rest ih =>
    intro sp nx hd
    have hd' : Desc rest := (List.pairwise_cons.mp hd).2
    have hlt : ∀ u ∈ rest, u.number < t.number := (List.pairwise_cons.mp hd).1
    unfold scan
    by_cases hi : ofInterest ip t.state = true
    · simp only [hi, Bool.not_true, Bool.false_eq_true, if_false]
      by_cases hb : SearchSpaceCode.breakTest cached t.number = true
      · simp only [hb, if_true]
        have hc := (breakTest_iff _ _).mp hb
        have : (t :: rest).filter (fun t => foiB ip t && decide (cached ≤ (t.number : Int))) = [] := by
          rw [List.filter_eq_nil_iff]
          intro u hu
          simp only [Bool.and_eq_true, decide_eq_true_eq, not_and]
          intro _
          rcases List.mem_cons.mp hu with hu | hu
          · subst hu; omega
          · have := hlt u hu; omega
        rw [this]; rfl
      · simp only [hb, Bool.false_eq_true, if_false]
        have hc : cached ≤ (t.number : Int) := by
          have := (breakTest_iff cached t.number).not.mp hb; omega
        by_cases hf : t.state.isFinished = true
        · simp only [hf, Bool.not_true, Bool.false_eq_true, if_false]
          rw [ih _ _ hd']
          have : (t :: rest).filter (fun t => foiB ip t && decide (cached ≤ (t.number : Int)))
              = t :: rest.filter (fun t => foiB ip t && decide (cached ≤ (t.number : Int))) := by
            rw [List.filter_cons]; simp [foiB, hf, hi, hc]
          rw [this]; rfl
        · simp only [Bool.not_eq_true] at hf
          simp only [hf, Bool.not_false, if_true]
          rw [ih _ _ hd']
          have : (t :: rest).filter (fun t => foiB ip t && decide (cached ≤ (t.number : Int)))
              = rest.filter (fun t => foiB ip t && decide (cached ≤ (t.number : Int))) := by
            rw [List.filter_cons]; simp [foiB, hf]
          rw [this]
    · simp only [Bool.not_eq_true] at hi
      simp only [hi, Bool.not_false, if_true]
      rw [ih _ _ hd']
      have : (t :: rest).filter (fun t => foiB ip t && decide (cached ≤ (t.number : Int)))
          = rest.filter (fun t => foiB ip t && decide (cached ≤ (t.number : Int))) := by
        rw [List.filter_cons]; simp [foiB, hi]
      rw [this]

/-- The cursor returned by the scan: it is below every unfinished trial, it only decreases from a
value that was set, and when it started unset it is either still unset or at most one above a trial. -/
theorem scan_next (ip : Bool) (cached : Int) : ∀ (L : List Trial) (sp : Option Dists) (nx : Int), Desc L →
    (∀ t ∈ L, t.state.isFinished = false → cached ≤ (t.number : Int)) →
    (nx = -1 ∨ ∀ t ∈ L, (t.number : Int) < nx) →
    (∀ t ∈ L, t.state.isFinished = false → (scan ip cached L sp nx).2 ≤ (t.number : Int)) ∧
    (nx ≠ -1 → (scan ip cached L sp nx).2 ≤ nx) ∧
    (nx = -1 → (scan ip cached L sp nx).2 = -1 ∨ ∃ t ∈ L, (scan ip cached L sp nx).2 ≤ (t.number : Int) + 1) ∧
    (-1 ≤ nx → -1 ≤ (scan ip cached L sp nx).2) := by
  intro L
  induction L with
  | nil =>
    intro sp nx _ _ _
    refine ⟨by simp, fun _ => by simp [scan], fun h => Or.inl (by simp [scan, h]), fun h => by simpa [scan] using h⟩
  | cons t rest ih =>
    intro sp nx hd hun hnx
    have hd' : Desc rest := (List.pairwise_cons.mp hd).2
    have hlt : ∀ u ∈ rest, u.number < t.number := (List.pairwise_cons.mp hd).1
    have hun' : ∀ u ∈ rest, u.state.isFinished = false → cached ≤ (u.number : Int) :=
      fun u hu => hun u (List.mem_cons_of_mem _ hu)
    unfold scan
    by_cases hi : ofInterest ip t.state = true
    · simp only [hi, Bool.not_true, Bool.false_eq_true, if_false]
      -- the value of `next` after the "first trial of interest" statement
      generalize hnx1 : (if SearchSpaceCode.nextUnsetTest nx = true then SearchSpaceCode.nextFirst (t.number : Int) else nx) = nx1
      have hnx1' : (nx = -1 ∧ nx1 = (t.number : Int) + 1) ∨ (nx ≠ -1 ∧ nx1 = nx) := by
        by_cases h : nx = -1
        · left; rw [← hnx1, if_pos ((nextUnsetTest_iff nx).mpr h), nextFirst_eq]; exact ⟨h, rfl⟩
        · right; rw [← hnx1, if_neg (fun e => h ((nextUnsetTest_iff nx).mp e))]; exact ⟨h, rfl⟩
      have hnx1_gt : ∀ u ∈ rest, (u.number : Int) < nx1 := by
        intro u hu
        have h1 := hlt u hu
        rcases hnx1' with ⟨_, e⟩ | ⟨hne, e⟩
        · omega
        · rcases hnx with h | h
          · exact absurd h hne
          · have := h u (List.mem_cons_of_mem _ hu); omega
      have hnx1_ne : nx1 ≠ -1 := by
        rcases hnx1' with ⟨_, e⟩ | ⟨hne, e⟩
        · omega
        · omega
      by_cases hb : SearchSpaceCode.breakTest cached t.number = true
      · simp only [hb, if_true]
        have hc := (breakTest_iff _ _).mp hb
        refine ⟨?_, ?_, ?_, ?_⟩
        · intro u hu hfu
          have := hun u hu hfu
          rcases List.mem_cons.mp hu with hu | hu
          · subst hu; omega
          · have := hlt u hu; omega
        · intro hne; rcases hnx1' with ⟨h, _⟩ | ⟨_, e⟩
          · exact absurd h hne
          · omega
        · intro h; right; refine ⟨t, by simp, ?_⟩
          rcases hnx1' with ⟨_, e⟩ | ⟨hne, _⟩
          · omega
          · exact absurd h hne
        · intro h; rcases hnx1' with ⟨_, e⟩ | ⟨_, e⟩ <;> omega
      · simp only [hb, Bool.false_eq_true, if_false]
        by_cases hf : t.state.isFinished = true
        · simp only [hf, Bool.not_true, Bool.false_eq_true, if_false]
          obtain ⟨i1, i2, _, i4⟩ := ih (absorb sp t.dists) nx1 hd' hun' (Or.inr hnx1_gt)
          have i2' := i2 hnx1_ne
          refine ⟨?_, ?_, ?_, ?_⟩
          · intro u hu hfu
            rcases List.mem_cons.mp hu with hu | hu
            · subst hu; rw [hf] at hfu; exact absurd hfu (by decide)
            · exact i1 u hu hfu
          · intro hne; rcases hnx1' with ⟨h, _⟩ | ⟨_, e⟩
            · exact absurd h hne
            · omega
          · intro h; right; refine ⟨t, by simp, ?_⟩
            rcases hnx1' with ⟨_, e⟩ | ⟨hne, _⟩
            · omega
            · exact absurd h hne
          · intro h; apply i4; rcases hnx1' with ⟨_, e⟩ | ⟨_, e⟩ <;> omega
        · simp only [Bool.not_eq_true] at hf
          simp only [hf, Bool.not_false, if_true, nextUnfinished_eq]
          have hgt : ∀ u ∈ rest, (u.number : Int) < (t.number : Int) := by
            intro u hu; have := hlt u hu; omega
          obtain ⟨i1, i2, _, i4⟩ := ih sp (t.number : Int) hd' hun' (Or.inr hgt)
          have i2' := i2 (by omega)
          refine ⟨?_, ?_, ?_, ?_⟩
          · intro u hu hfu
            rcases List.mem_cons.mp hu with hu | hu
            · subst hu; exact i2'
            · exact i1 u hu hfu
          · intro hne
            rcases hnx with h | h
            · exact absurd h hne
            · have := h t (by simp); omega
          · intro _; right; exact ⟨t, by simp, by omega⟩
          · intro _; apply i4; omega
    · simp only [Bool.not_eq_true] at hi
      simp only [hi, Bool.not_false, if_true]
      have hnx' : nx = -1 ∨ ∀ u ∈ rest, (u.number : Int) < nx := by
        rcases hnx with h | h
        · exact Or.inl h
        · exact Or.inr (fun u hu => h u (List.mem_cons_of_mem _ hu))
      obtain ⟨i1, i2, i3, i4⟩ := ih sp nx hd' hun' hnx'
      refine ⟨?_, i2, ?_, i4⟩
      · intro u hu hfu
        rcases List.mem_cons.mp hu with hu | hu
        · subst hu; rw [unfinished_ofInterest ip _ hfu] at hi; exact absurd hi (by decide)
        · exact i1 u hu hfu
      · intro h
        rcases i3 h with h' | ⟨u, hu, h'⟩
        · exact Or.inl h'
        · exact Or.inr ⟨u, List.mem_cons_of_mem _ hu, h'⟩

end OptunaVerif.SearchSpace
