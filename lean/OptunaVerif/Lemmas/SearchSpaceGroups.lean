import OptunaVerif.Lemmas.SearchSpace
/-!
# C17: `_SearchSpaceGroup.add_distributions` keeps the groups a canonical partition
-/
namespace OptunaVerif.SearchSpace
open OptunaVerif

/-! ## a closed form of `add_distributions` when the groups are disjoint -/

/-- `{name: search_space[name] for name in keys & dist_keys}` -/
def pieceIn (g d : Dists) : Dists := g.filter (fun p => (keys d).contains p.1)
/-- `{name: search_space[name] for name in keys - dist_keys}` -/
def pieceOut (g d : Dists) : Dists := g.filter (fun p => !(keys d).contains p.1)

def splitAll (gs : List Dists) (dk : List String) : List Dists :=
  gs.flatMap (fun g => [g.filter (fun p => dk.contains p.1), g.filter (fun p => !dk.contains p.1)])

/-- `dist_keys` after the loop: the names no group has -/
def restKeys (gs : List Dists) (dk : List String) : List String :=
  dk.filter (fun k => gs.all (fun g => !(keys g).contains k))

/-- `{name: distributions[name] for name in dist_keys}` after the loop -/
def pieceRest (gs : List Dists) (d : Dists) : Dists := d.filter (fun p => (restKeys gs (keys d)).contains p.1)

theorem mem_keys_flatten {gs : List Dists} {k : String} : k ∈ keys gs.flatten ↔ ∃ g ∈ gs, k ∈ keys g := by
  simp only [keys, List.mem_map, List.mem_flatten]
  constructor
  · rintro ⟨p, ⟨g, hg, hp⟩, rfl⟩; exact ⟨g, hg, p, hp, rfl⟩
  · rintro ⟨g, hg, p, hp, rfl⟩; exact ⟨p, ⟨g, hg, hp⟩, rfl⟩

theorem mem_keys_filter (l : Dists) (f : String → Bool) (k : String) :
    k ∈ keys (l.filter (fun p => f p.1)) ↔ k ∈ keys l ∧ f k = true := by
  simp only [keys, List.mem_map, List.mem_filter]
  constructor
  · rintro ⟨p, ⟨hp, hf⟩, rfl⟩; exact ⟨⟨p, hp, rfl⟩, hf⟩
  · rintro ⟨⟨p, hp, rfl⟩, hf⟩; exact ⟨p, ⟨hp, hf⟩, rfl⟩

theorem keys_pieceIn (g d : Dists) (k : String) : k ∈ keys (pieceIn g d) ↔ k ∈ keys g ∧ k ∈ keys d := by
  unfold pieceIn; rw [mem_keys_filter g (fun k => (keys d).contains k)]; simp

theorem keys_pieceOut (g d : Dists) (k : String) : k ∈ keys (pieceOut g d) ↔ k ∈ keys g ∧ k ∉ keys d := by
  unfold pieceOut; rw [mem_keys_filter g (fun k => !(keys d).contains k)]; simp

theorem mem_restKeys (gs : List Dists) (dk : List String) (k : String) :
    k ∈ restKeys gs dk ↔ k ∈ dk ∧ ∀ g ∈ gs, k ∉ keys g := by
  simp [restKeys, List.mem_filter, List.all_eq_true]

theorem keys_pieceRest (gs : List Dists) (d : Dists) (k : String) :
    k ∈ keys (pieceRest gs d) ↔ k ∈ keys d ∧ ∀ g ∈ gs, k ∉ keys g := by
  unfold pieceRest
  rw [mem_keys_filter d (fun k => (restKeys gs (keys d)).contains k)]
  simp only [List.contains_iff_mem, mem_restKeys]
  tauto

theorem addAux_spec : ∀ (gs : List Dists) (dk : List String), NodupKeys gs.flatten →
    addAux gs dk = (splitAll gs dk, restKeys gs dk) := by
  intro gs
  induction gs with
  | nil => intro dk _; simp [addAux, splitAll, restKeys]
  | cons g gs ih =>
    intro dk hnd
    have hnd' : NodupKeys gs.flatten := by
      unfold NodupKeys keys at *
      simp only [List.flatten_cons, List.map_append] at hnd
      exact (List.nodup_append.mp hnd).2.1
    have hdisj : ∀ g' ∈ gs, ∀ p ∈ g', p.1 ∉ keys g := by
      intro g' hg' p hp hk
      unfold NodupKeys keys at hnd
      simp only [List.flatten_cons, List.map_append] at hnd
      have := (List.nodup_append.mp hnd).2.2 p.1 hk p.1
        (List.mem_map.mpr ⟨p, List.mem_flatten.mpr ⟨g', hg', hp⟩, rfl⟩)
      exact this rfl
    simp only [addAux]
    rw [ih _ hnd']
    have hsplit : splitAll gs (dk.filter (fun k => !(keys g).contains k)) = splitAll gs dk := by
      unfold splitAll
      apply List.flatMap_congr
      intro g' hg'
      have e : ∀ p ∈ g', (dk.filter (fun k => !(keys g).contains k)).contains p.1 = dk.contains p.1 := by
        intro p hp
        have := hdisj g' hg' p hp
        rw [Bool.eq_iff_iff]
        simp only [List.mem_filter, Bool.not_eq_true', List.contains_eq_mem,
          decide_eq_false_iff_not, decide_eq_true_eq]
        tauto
      congr 1
      · exact List.filter_congr e
      · congr 1
        exact List.filter_congr (fun p hp => by rw [e p hp])
    have hrest : restKeys gs (dk.filter (fun k => !(keys g).contains k)) = restKeys (g :: gs) dk := by
      unfold restKeys
      rw [List.filter_filter]
      apply List.filter_congr
      intro k _
      simp only [List.all_cons]
      rw [Bool.and_comm]
    rw [hsplit, hrest]
    simp [splitAll]

theorem mem_splitAll {gs : List Dists} {d h : Dists} :
    h ∈ splitAll gs (keys d) ↔ ∃ g ∈ gs, h = pieceIn g d ∨ h = pieceOut g d := by
  simp only [splitAll, List.mem_flatMap, List.mem_cons, List.not_mem_nil, or_false, pieceIn, pieceOut]

theorem ne_nil_iff_key {h : Dists} : h ≠ [] ↔ ∃ k, k ∈ keys h := by
  cases h with
  | nil => simp [keys]
  | cons p t => simp [keys]

/-- membership in the new group list -/
theorem mem_add {gs : List Dists} {d : Dists} (hnd : NodupKeys gs.flatten) {h : Dists} :
    h ∈ addDistributions gs d ↔
      h ≠ [] ∧ ((∃ g ∈ gs, h = pieceIn g d ∨ h = pieceOut g d) ∨ h = pieceRest gs d) := by
  unfold addDistributions
  simp only [addAux_spec gs (keys d) hnd, List.mem_filter, List.mem_append, List.mem_singleton,
    Bool.not_eq_true', List.isEmpty_eq_false_iff, mem_splitAll]
  unfold pieceRest
  exact and_comm

theorem flatten_filter_nonempty (L : List Dists) : (L.filter (fun g => !g.isEmpty)).flatten = L.flatten := by
  induction L with
  | nil => rfl
  | cons g L ih =>
    cases g with
    | nil => simp [ih]
    | cons p t => simp [ih]

theorem perm_flatten_splitAll (gs : List Dists) (dk : List String) : (splitAll gs dk).flatten.Perm gs.flatten := by
  induction gs with
  | nil => simp [splitAll]
  | cons g gs ih =>
    have : splitAll (g :: gs) dk = g.filter (fun p => dk.contains p.1) :: g.filter (fun p => !dk.contains p.1) :: splitAll gs dk := by
      simp [splitAll]
    rw [this]
    simp only [List.flatten_cons]
    rw [← List.append_assoc]
    exact List.Perm.append (List.filter_append_perm _ _) ih

theorem nodupKeys_add {gs : List Dists} {d : Dists} (hnd : NodupKeys gs.flatten) (hd : NodupKeys d) :
    NodupKeys (addDistributions gs d).flatten := by
  unfold addDistributions
  rw [flatten_filter_nonempty, addAux_spec gs (keys d) hnd]
  simp only [List.flatten_append, List.flatten_cons, List.flatten_nil, List.append_nil]
  have hp : ((splitAll gs (keys d)).flatten ++ pieceRest gs d).Perm (gs.flatten ++ pieceRest gs d) :=
    List.Perm.append_right _ (perm_flatten_splitAll gs (keys d))
  show NodupKeys ((splitAll gs (keys d)).flatten ++ pieceRest gs d)
  unfold NodupKeys keys at *
  rw [(hp.map _).nodup_iff, List.map_append]
  refine List.nodup_append.mpr ⟨hnd, ?_, ?_⟩
  · exact nodupKeys_filter hd _
  · intro a ha b hb e
    subst e
    have h1 := (keys_pieceRest gs d a).mp hb
    obtain ⟨g, hg, hk⟩ := mem_keys_flatten.mp ha
    exact h1.2 g hg hk

/-! ## the invariant: the groups are the canonical partition of the names seen so far -/

/-- `k` is a parameter name of some added dict -/
def Seen (A : List Dists) (k : String) : Prop := ∃ d ∈ A, k ∈ keys d

/-- `a` and `b` occur in exactly the same added dicts -/
def SameSig (A : List Dists) (a b : String) : Prop := ∀ d ∈ A, (a ∈ keys d ↔ b ∈ keys d)

structure GInv (A : List Dists) (gs : List Dists) : Prop where
  nonempty : ∀ g ∈ gs, g ≠ []
  nodup : NodupKeys gs.flatten
  cover : ∀ k, (∃ g ∈ gs, k ∈ keys g) ↔ Seen A k
  canon : ∀ g ∈ gs, ∀ a ∈ keys g, ∀ b, b ∈ keys g ↔ (Seen A b ∧ SameSig A a b)

theorem ginv_nil : GInv [] [] :=
  ⟨by simp, by simp [NodupKeys, keys], by simp [Seen], by simp⟩

theorem ginv_add {A A' gs : List Dists} {d : Dists} (h : GInv A gs) (hd : NodupKeys d)
    (hA : ∀ x, x ∈ A' ↔ x ∈ A ∨ x = d) : GInv A' (addDistributions gs d) := by
  obtain ⟨_, h2, h3, h4⟩ := h
  have seen' : ∀ k, Seen A' k ↔ Seen A k ∨ k ∈ keys d := by
    intro k; unfold Seen
    constructor
    · rintro ⟨x, hx, hk⟩
      rcases (hA x).mp hx with hx | hx
      · exact Or.inl ⟨x, hx, hk⟩
      · subst hx; exact Or.inr hk
    · rintro (⟨x, hx, hk⟩ | hk)
      · exact ⟨x, (hA x).mpr (Or.inl hx), hk⟩
      · exact ⟨d, (hA d).mpr (Or.inr rfl), hk⟩
  have sig' : ∀ a b, SameSig A' a b ↔ SameSig A a b ∧ (a ∈ keys d ↔ b ∈ keys d) := by
    intro a b; unfold SameSig
    constructor
    · intro hs; exact ⟨fun x hx => hs x ((hA x).mpr (Or.inl hx)), hs d ((hA d).mpr (Or.inr rfl))⟩
    · rintro ⟨hs, hd'⟩ x hx
      rcases (hA x).mp hx with hx | hx
      · exact hs x hx
      · subst hx; exact hd'
  have notseen : ∀ k, (∀ g ∈ gs, k ∉ keys g) ↔ ¬ Seen A k := by
    intro k; rw [← h3 k]; simp
  refine ⟨fun g hg => ((mem_add h2).mp hg).1, nodupKeys_add h2 hd, ?_, ?_⟩
  · -- cover
    intro k
    rw [seen']
    constructor
    · rintro ⟨g', hg', hk⟩
      obtain ⟨_, (⟨g, hg, e | e⟩ | e)⟩ := (mem_add h2).mp hg'
      · subst e; exact Or.inl ((h3 k).mp ⟨g, hg, ((keys_pieceIn g d k).mp hk).1⟩)
      · subst e; exact Or.inl ((h3 k).mp ⟨g, hg, ((keys_pieceOut g d k).mp hk).1⟩)
      · subst e; exact Or.inr ((keys_pieceRest gs d k).mp hk).1
    · intro hk
      by_cases hs : Seen A k
      · obtain ⟨g, hg, hkg⟩ := (h3 k).mpr hs
        by_cases hkd : k ∈ keys d
        · have hk' := (keys_pieceIn g d k).mpr ⟨hkg, hkd⟩
          exact ⟨pieceIn g d, (mem_add h2).mpr ⟨ne_nil_iff_key.mpr ⟨k, hk'⟩, Or.inl ⟨g, hg, Or.inl rfl⟩⟩, hk'⟩
        · have hk' := (keys_pieceOut g d k).mpr ⟨hkg, hkd⟩
          exact ⟨pieceOut g d, (mem_add h2).mpr ⟨ne_nil_iff_key.mpr ⟨k, hk'⟩, Or.inl ⟨g, hg, Or.inr rfl⟩⟩, hk'⟩
      · have hkd : k ∈ keys d := hk.resolve_left hs
        have hk' := (keys_pieceRest gs d k).mpr ⟨hkd, (notseen k).mpr hs⟩
        exact ⟨pieceRest gs d, (mem_add h2).mpr ⟨ne_nil_iff_key.mpr ⟨k, hk'⟩, Or.inr rfl⟩, hk'⟩
  · -- canonical
    intro g' hg' a ha b
    rw [seen', sig']
    obtain ⟨_, (⟨g, hg, e | e⟩ | e)⟩ := (mem_add h2).mp hg'
    · subst e
      obtain ⟨hag, had⟩ := (keys_pieceIn g d a).mp ha
      rw [keys_pieceIn, h4 g hg a hag b]
      have hsa : Seen A a := (h3 a).mp ⟨g, hg, hag⟩
      constructor
      · rintro ⟨⟨hsb, hsig⟩, hbd⟩; exact ⟨Or.inl hsb, hsig, by tauto⟩
      · rintro ⟨_, hsig, hiff⟩
        obtain ⟨x, hx, hax⟩ := hsa
        exact ⟨⟨⟨x, hx, (hsig x hx).mp hax⟩, hsig⟩, hiff.mp had⟩
    · subst e
      obtain ⟨hag, had⟩ := (keys_pieceOut g d a).mp ha
      rw [keys_pieceOut, h4 g hg a hag b]
      have hsa : Seen A a := (h3 a).mp ⟨g, hg, hag⟩
      constructor
      · rintro ⟨⟨hsb, hsig⟩, hbd⟩; exact ⟨Or.inl hsb, hsig, by tauto⟩
      · rintro ⟨_, hsig, hiff⟩
        obtain ⟨x, hx, hax⟩ := hsa
        exact ⟨⟨⟨x, hx, (hsig x hx).mp hax⟩, hsig⟩, fun hbd => had (hiff.mpr hbd)⟩
    · subst e
      obtain ⟨had, hna⟩ := (keys_pieceRest gs d a).mp ha
      have hnsa : ¬ Seen A a := (notseen a).mp hna
      rw [keys_pieceRest, notseen]
      constructor
      · rintro ⟨hbd, hnsb⟩
        refine ⟨Or.inr hbd, ?_, by tauto⟩
        intro x hx
        constructor
        · intro hax; exact absurd ⟨x, hx, hax⟩ hnsa
        · intro hbx; exact absurd ⟨x, hx, hbx⟩ hnsb
      · rintro ⟨_, hsig, hiff⟩
        refine ⟨hiff.mp had, ?_⟩
        rintro ⟨x, hx, hbx⟩
        exact hnsa ⟨x, hx, (hsig x hx).mpr hbx⟩

/-- after any sequence of additions (starting from groups that satisfy the invariant) -/
theorem ginv_foldl (ds : List Dists) : ∀ {A gs : List Dists}, GInv A gs → (∀ d ∈ ds, NodupKeys d) →
    GInv (A ++ ds) (ds.foldl addDistributions gs) := by
  induction ds with
  | nil => intro A gs h _; simpa using h
  | cons d ds ih =>
    intro A gs h hnd
    have h1 : GInv (A ++ [d]) (addDistributions gs d) :=
      ginv_add h (hnd d (by simp)) (by intro x; simp)
    have h2 := ih h1 (fun x hx => hnd x (by simp [hx]))
    simpa [List.append_assoc] using h2

/-- the invariant only depends on *which* dicts were added, not on order or repetition -/
theorem GInv.congr {A A' gs : List Dists} (h : GInv A gs) (hA : ∀ x, x ∈ A ↔ x ∈ A') : GInv A' gs := by
  obtain ⟨h1, h2, h3, h4⟩ := h
  have hs : ∀ k, Seen A k ↔ Seen A' k := fun k =>
    ⟨fun ⟨x, hx, hk⟩ => ⟨x, (hA x).mp hx, hk⟩, fun ⟨x, hx, hk⟩ => ⟨x, (hA x).mpr hx, hk⟩⟩
  have hg : ∀ a b, SameSig A a b ↔ SameSig A' a b := fun a b =>
    ⟨fun h x hx => h x ((hA x).mpr hx), fun h x hx => h x ((hA x).mp hx)⟩
  exact ⟨h1, h2, fun k => (h3 k).trans (hs k), fun g hg' a ha b => by rw [h4 g hg' a ha b, hs, hg]⟩

end OptunaVerif.SearchSpace
