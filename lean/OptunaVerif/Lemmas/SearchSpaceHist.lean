import OptunaVerif.Lemmas.SearchSpace
/-!
# C17: the cursor invariant and its preservation along histories
-/
namespace OptunaVerif.SearchSpace
open OptunaVerif

/-- What the storage contract guarantees of the trial list of one study (`Props/C01.lean`:
`numbers_dense`; parameter dicts are dicts): the trial at position `i` has number `i`. -/
def WF (trials : List Trial) : Prop :=
  ∀ (i : Nat) (t : Trial), trials[i]? = some t → t.number = i ∧ NodupKeys t.dists

theorem WF.get {trials : List Trial} (h : WF trials) {i : Nat} {t : Trial} (hi : trials[i]? = some t) :
    t.number = i ∧ NodupKeys t.dists := by unfold WF at h; exact h i t hi

theorem WF.intro {trials : List Trial} (h : ∀ (i : Nat) (t : Trial), trials[i]? = some t → t.number = i ∧ NodupKeys t.dists) :
    WF trials := by unfold WF; exact h

theorem wf_nil : WF [] := WF.intro (by intro i t h; simp at h)

theorem wf_mem {trials : List Trial} (h : WF trials) {t : Trial} (ht : t ∈ trials) :
    trials[t.number]? = some t ∧ t.number < trials.length ∧ NodupKeys t.dists := by
  obtain ⟨i, hi⟩ := List.mem_iff_getElem?.mp ht
  obtain ⟨h1, h2⟩ := h.get hi
  subst h1
  refine ⟨hi, ?_, h2⟩
  rcases Nat.lt_or_ge t.number trials.length with h' | h'
  · exact h'
  · simp [List.getElem?_eq_none h'] at hi

theorem desc_reverse_of_wf {trials : List Trial} (h : WF trials) : Desc trials.reverse := by
  unfold Desc
  rw [List.pairwise_reverse, List.pairwise_iff_getElem]
  intro i j hi hj hij
  have h1 := (h.get (i := i) (t := trials[i]) (by simp [hi])).1
  have h2 := (h.get (i := j) (t := trials[j]) (by simp [hj])).1
  omega

/-- How the trial list of a study can change between two observations: it only grows, finished
trials stay as they are (`finished_frozen`), and whatever else is in the new list is either new (a
number beyond the old length) or a rewrite of a trial that was not finished. -/
structure Evolves (old new : List Trial) : Prop where
  len : old.length ≤ new.length
  frozen : ∀ t ∈ old, t.state.isFinished = true → t ∈ new
  origin : ∀ t' ∈ new, t' ∈ old ∨ (∃ t ∈ old, t.state.isFinished = false ∧ t.number = t'.number)
    ∨ old.length ≤ t'.number

theorem Evolves.refl (l : List Trial) : Evolves l l :=
  ⟨Nat.le_refl _, fun _ h _ => h, fun _ h => Or.inl h⟩

/-- rewriting one unfinished trial in place, keeping its number -/
theorem evolves_updAt {trials : List Trial} (hwf : WF trials) (i : Nat) (t : Trial) (f : Trial → Trial)
    (hi : trials[i]? = some t) (hun : t.state.isFinished = false)
    (hnum : (f t).number = t.number) (hnd : NodupKeys (f t).dists) :
    Evolves trials (updAt trials i f) ∧ WF (updAt trials i f) := by
  refine ⟨⟨by simp, ?_, ?_⟩, ?_⟩
  · intro u hu hfu
    obtain ⟨j, hj⟩ := List.mem_iff_getElem?.mp hu
    have hji : j ≠ i := by
      intro e; subst e; rw [hi] at hj; simp only [Option.some.injEq] at hj; subst hj
      rw [hun] at hfu; exact absurd hfu (by decide)
    exact List.mem_iff_getElem?.mpr ⟨j, by rw [updAt_getElem?, if_neg hji]; exact hj⟩
  · intro u' hu'
    obtain ⟨j, hj⟩ := List.mem_iff_getElem?.mp hu'
    rw [updAt_getElem?] at hj
    split at hj
    · rename_i e; subst e
      rw [hi] at hj; simp only [Option.map_some, Option.some.injEq] at hj; subst hj
      exact Or.inr (Or.inl ⟨t, List.mem_iff_getElem?.mpr ⟨_, hi⟩, hun, hnum.symm⟩)
    · exact Or.inl (List.mem_iff_getElem?.mpr ⟨j, hj⟩)
  · refine WF.intro (fun j u' hj => ?_)
    rw [updAt_getElem?] at hj
    split at hj
    · rename_i e; subst e
      rw [hi] at hj; simp only [Option.map_some, Option.some.injEq] at hj; subst hj
      exact ⟨hnum.trans (hwf.get hi).1, hnd⟩
    · exact hwf.get hj

theorem evolves_append {trials : List Trial} (hwf : WF trials) (t : Trial) (hn : t.number = trials.length)
    (hnd : NodupKeys t.dists) : Evolves trials (trials ++ [t]) ∧ WF (trials ++ [t]) := by
  refine ⟨⟨by simp, fun u hu _ => List.mem_append_left _ hu, ?_⟩, ?_⟩
  · intro u' hu'
    rcases List.mem_append.mp hu' with h | h
    · exact Or.inl h
    · simp only [List.mem_singleton] at h; subst h; exact Or.inr (Or.inr (by omega))
  · refine WF.intro (fun j u' hj => ?_)
    rcases Nat.lt_or_ge j trials.length with h | h
    · rw [List.getElem?_append_left h] at hj; exact hwf.get hj
    · rw [List.getElem?_append_right h] at hj
      cases hk : j - trials.length with
      | zero =>
        rw [hk] at hj; simp only [List.getElem?_cons_zero, Option.some.injEq] at hj; subst hj
        exact ⟨by omega, hnd⟩
      | succ k => rw [hk] at hj; simp at hj

/-- every step of a history makes the trial list evolve in the allowed way -/
theorem step_evolves (sid : Nat) (s : Sys) (st : Step) (hwf : WF s.trials) :
    Evolves s.trials (step sid s st).1.trials ∧ WF (step sid s st).1.trials := by
  cases st with
  | create st params =>
    exact evolves_append hwf _ rfl (nodupKeys_mkDists params)
  | setParam i name tok =>
    simp only [step]
    cases hi : s.trials[i]? with
    | none => exact ⟨Evolves.refl _, hwf⟩
    | some t =>
      by_cases hf : t.state.isFinished = true
      · simp only [hf, if_true]; exact ⟨Evolves.refl _, hwf⟩
      · simp only [hf, Bool.false_eq_true, if_false]
        exact evolves_updAt hwf i t _ hi (by simpa using hf) rfl (nodupKeys_set (hwf.get hi).2 _ _)
  | setState i st =>
    simp only [step]
    cases hi : s.trials[i]? with
    | none => exact ⟨Evolves.refl _, hwf⟩
    | some t =>
      by_cases hf : t.state.isFinished = true
      · simp only [hf, if_true]; exact ⟨Evolves.refl _, hwf⟩
      · simp only [hf, Bool.false_eq_true, if_false]
        exact evolves_updAt hwf i t _ hi (by simpa using hf) rfl (hwf.get hi).2
  | callI => exact ⟨Evolves.refl _, hwf⟩
  | callForeign sid' trials' =>
    simp only [step]
    split
    · exact ⟨Evolves.refl _, hwf⟩
    · exact ⟨Evolves.refl _, hwf⟩
  | callG => exact ⟨Evolves.refl _, hwf⟩

/-- **cursor_inv**: every unfinished trial has a number `≥ cursor` (and so will every future trial:
`cursor ≤ length`), and the stored space is the intersection over a set `P` of trials with
{finished of interest below the cursor} ⊆ P ⊆ {finished of interest}. -/
structure CursorInv (ip : Bool) (trials : List Trial) (sp : Option Dists) (cur : Int) : Prop where
  unfinished_ge : ∀ t ∈ trials, t.state.isFinished = false → cur ≤ (t.number : Int)
  le_len : cur ≤ (trials.length : Int)
  rep : ∃ P : Trial → Prop, (∀ t ∈ trials, FOI ip t → (t.number : Int) < cur → P t) ∧
    (∀ t, P t → t ∈ trials ∧ FOI ip t) ∧ Rep sp P

theorem cursorInv_init (ip : Bool) (trials : List Trial) : CursorInv ip trials none (-1) :=
  ⟨fun _ _ _ => by omega, by omega,
    ⟨fun _ => False, fun _ _ _ h => by omega, fun _ h => h.elim, fun _ h => h⟩⟩

theorem cursorInv_evolves {ip : Bool} {old new : List Trial} {sp : Option Dists} {cur : Int}
    (h : CursorInv ip old sp cur) (he : Evolves old new) : CursorInv ip new sp cur := by
  obtain ⟨h1, h2, P, hP1, hP2, hP3⟩ := h
  refine ⟨?_, ?_, P, ?_, ?_, hP3⟩
  · intro t' ht' hf'
    rcases he.origin t' ht' with h | ⟨t, ht, hf, hn⟩ | h
    · exact h1 t' h hf'
    · have := h1 t ht hf; omega
    · omega
  · have := he.len; omega
  · intro t' ht' hfoi hlt
    rcases he.origin t' ht' with h | ⟨t, ht, hf, hn⟩ | h
    · exact hP1 t' h hfoi hlt
    · have := h1 t ht hf; omega
    · omega
  · intro t hPt
    obtain ⟨a, b⟩ := hP2 t hPt
    exact ⟨he.frozen t a b.1, b⟩

/-- One call of `_calculate` from a state satisfying the invariant: the invariant holds again, and the
new stored space is the intersection over *all* finished trials of interest. -/
theorem calcRaw_correct {ip : Bool} {trials : List Trial} {sp : Option Dists} {cur : Int}
    (hwf : WF trials) (h : CursorInv ip trials sp cur) :
    CursorInv ip trials (calcRaw trials ip sp cur).1 (calcRaw trials ip sp cur).2 ∧
      Rep (calcRaw trials ip sp cur).1 (fun t => t ∈ trials ∧ FOI ip t) := by
  obtain ⟨h1, h2, P, hP1, hP2, hP3⟩ := h
  have hdesc := desc_reverse_of_wf hwf
  have hrep : Rep (calcRaw trials ip sp cur).1 (fun t => t ∈ trials ∧ FOI ip t) := by
    unfold calcRaw
    rw [scan_space ip cur _ sp _ hdesc]
    have := rep_interAll (trials.reverse.filter (fun t => foiB ip t && decide (cur ≤ (t.number : Int)))) hP3
      (fun t ht => (wf_mem hwf (List.mem_reverse.mp (List.mem_filter.mp ht).1)).2.2)
    refine this.congr (fun u => ?_)
    simp only [List.mem_filter, List.mem_reverse, Bool.and_eq_true, decide_eq_true_eq, foiB_iff]
    constructor
    · rintro (hu | ⟨hu, hfoi, _⟩)
      · exact hP2 u hu
      · exact ⟨hu, hfoi⟩
    · rintro ⟨hu, hfoi⟩
      by_cases hc : cur ≤ (u.number : Int)
      · exact Or.inr ⟨hu, hfoi, hc⟩
      · exact Or.inl (hP1 u hu hfoi (by omega))
  refine ⟨?_, hrep⟩
  have hn := scan_next ip cur trials.reverse sp SearchSpaceCode.nextInit hdesc
    (fun t ht hf => h1 t (List.mem_reverse.mp ht) hf) (Or.inl nextInit_eq)
  obtain ⟨n1, _, n3, _⟩ := hn
  refine ⟨fun t ht hf => n1 t (List.mem_reverse.mpr ht) hf, ?_,
    ⟨fun t => t ∈ trials ∧ FOI ip t, fun t ht hfoi _ => ⟨ht, hfoi⟩, fun t ht => ht, hrep⟩⟩
  show (scan ip cur trials.reverse sp SearchSpaceCode.nextInit).2 ≤ _
  rcases n3 nextInit_eq with e | ⟨t, ht, e⟩
  · omega
  · have := (wf_mem hwf (List.mem_reverse.mp ht)).2.1; omega

/-- the from-scratch computation is the intersection over all finished trials of interest -/
theorem scratch_rep {ip : Bool} {trials : List Trial} (hwf : WF trials) :
    Rep (calcRaw trials ip none SearchSpaceCode.cachedDefault).1 (fun t => t ∈ trials ∧ FOI ip t) := by
  rw [cachedDefault_eq]
  exact (calcRaw_correct hwf (cursorInv_init ip trials)).2

end OptunaVerif.SearchSpace
