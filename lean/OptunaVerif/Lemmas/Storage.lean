import OptunaVerif.Model.Storage
/-! Helper lemmas about the storage contract model (used by Props/C01 and the properties built on it). -/
namespace OptunaVerif.Storage
open OptunaVerif

/-- How one call may change the list of trials. -/
inductive TrialsChange (s s' : Spec) : Prop where
  | same (h : s'.trials = s.trials)
  | append (t : TrialS) (h : s'.trials = s.trials ++ [t])
      (hnum : t.number = (s.trialsOf t.study).length) (hlive : (s.study? t.study).isSome)
  | upd (tid : Nat) (f : TrialS → TrialS) (t0 : TrialS) (h : s'.trials = updAt s.trials tid f)
      (hw : s.writable tid = .ok t0) (hf : ∀ t, (f t).study = t.study ∧ (f t).number = t.number)

theorem updTrial_trials (s : Spec) (tid : Nat) (f : TrialS → TrialS) :
    (s.updTrial tid f).trials = updAt s.trials tid f := rfl

theorem updStudy_trials (s : Spec) (sid : Nat) (f : StudyS → StudyS) :
    (s.updStudy sid f).trials = s.trials := rfl

theorem step_trials (s : Spec) (op : Op) : TrialsChange s (step s op).1 := by
  cases op with
  | createTrial sid tmpl ir =>
    simp only [step]
    split
    · exact .same rfl
    · split
      · exact .same rfl
      · rename_i st hst _
        refine .append (mkTrial sid (s.trialsOf sid).length tmpl) rfl ?_ ?_
        · cases tmpl <;> simp [mkTrial]
        · cases tmpl <;> simp [mkTrial, hst]
  | _ =>
    simp only [step]
    repeat' split
    all_goals first
      | exact .same rfl
      | (refine .upd _ _ _ rfl (by assumption) ?_; intro t; simp)


/-- How one call may change the list of studies. -/
inductive StudiesChange (s s' : Spec) : Prop where
  | same (h : s'.studies = s.studies)
  | append (st : StudyS) (h : s'.studies = s.studies ++ [some st]) (hfree : s.nameTaken st.name = false)
  | delete (sid : Nat) (h : s'.studies = updAt s.studies sid (fun _ => none))
      (hlive : (s.study? sid).isSome)
  | upd (sid : Nat) (f : StudyS → StudyS) (h : s'.studies = updAt s.studies sid (fun o => o.map f))
      (hf : ∀ st, (f st).name = st.name ∧ (f st).directions = st.directions)

theorem step_studies (s : Spec) (op : Op) : StudiesChange s (step s op).1 := by
  cases op with
  | createStudy name dirs =>
    simp only [step]
    split
    · exact .same rfl
    · rename_i h
      exact .append (StudyS.mk name dirs [] [] []) rfl (by simpa using h)
  | deleteStudy sid =>
    simp only [step]
    split
    · exact .same rfl
    · rename_i st h
      exact .delete sid rfl (by simp [h])
  | _ =>
    simp only [step]
    repeat' split
    all_goals first
      | exact .same rfl
      | (refine .upd _ _ rfl ?_; intro t; simp)

/-! ### consequences for single entries -/

theorem study?_eq (s : Spec) (sid : Nat) : s.study? sid = (s.studies[sid]?).join := rfl

/-- A deleted (or not yet created) slot: what `study?` says in terms of the raw list. -/
theorem study?_none_iff (s : Spec) (sid : Nat) :
    s.study? sid = none ↔ (s.studies[sid]? = none ∨ s.studies[sid]? = some none) := by
  unfold Spec.study?
  cases h : s.studies[sid]? with
  | none => simp
  | some o => cases o <;> simp


theorem trial?_some_iff (s : Spec) (tid : Nat) (t : TrialS) :
    s.trial? tid = some t ↔ s.trials[tid]? = some t ∧ (s.study? t.study).isSome = true := by
  unfold Spec.trial?
  cases h : s.trials[tid]? with
  | none => simp
  | some t' =>
    by_cases hl : (s.study? t'.study).isSome = true
    · simp only [hl, if_true, Option.some.injEq]
      constructor
      · intro e; subst e; exact ⟨rfl, hl⟩
      · intro e; exact e.1
    · simp only [hl]
      constructor
      · intro e; simp at e
      · intro e
        obtain ⟨e1, e2⟩ := e
        simp only [Option.some.injEq] at e1
        subst e1
        exact absurd e2 hl

theorem writable_ok_iff (s : Spec) (tid : Nat) (t : TrialS) :
    s.writable tid = .ok t ↔ s.trial? tid = some t ∧ t.state.isFinished = false := by
  unfold Spec.writable
  cases h : s.trial? tid with
  | none => simp
  | some t' =>
    by_cases hf : t'.state.isFinished = true
    · simp only [hf, if_true]
      constructor
      · intro e; simp at e
      · intro e
        obtain ⟨e1, e2⟩ := e
        simp only [Option.some.injEq] at e1
        subst e1
        simp [hf] at e2
    · simp only [hf]
      constructor
      · intro e
        simp only [Bool.false_eq_true, if_false, Except.ok.injEq] at e
        subst e
        exact ⟨rfl, by simpa using hf⟩
      · intro e
        obtain ⟨e1, _⟩ := e
        simp only [Option.some.injEq] at e1
        subst e1
        simp


theorem updTrial_get_same (s : Spec) (tid : Nat) (f : TrialS → TrialS) (t0 : TrialS)
    (h : s.trials[tid]? = some t0) : (s.updTrial tid f).trials[tid]? = some (f t0) := by
  simp only [Spec.updTrial, updAt_getElem?, h, if_true, Option.map_some]

theorem updTrial_get_other (s : Spec) (tid tid' : Nat) (f : TrialS → TrialS) (hne : tid' ≠ tid) :
    (s.updTrial tid f).trials[tid']? = s.trials[tid']? := by
  simp only [Spec.updTrial, updAt_getElem?, hne, if_false]

theorem updTrial_studies (s : Spec) (tid : Nat) (f : TrialS → TrialS) :
    (s.updTrial tid f).studies = s.studies := rfl

theorem updTrial_study? (s : Spec) (tid : Nat) (f : TrialS → TrialS) (sid : Nat) :
    (s.updTrial tid f).study? sid = s.study? sid := rfl

theorem mem_trialsFrom (sid : Nat) (l : List TrialS) (i tid : Nat) (t : TrialS) :
    (tid, t) ∈ trialsFrom sid l i ↔ ∃ k, tid = i + k ∧ l[k]? = some t ∧ t.study = sid := by
  induction l generalizing i with
  | nil => simp [trialsFrom]
  | cons a r ih =>
    simp only [trialsFrom]
    split
    · rename_i ha
      simp only [List.mem_cons, Prod.mk.injEq, ih]
      constructor
      · rintro (⟨h1, h2⟩ | ⟨k, hk, hget, hs⟩)
        · exact ⟨0, by omega, by simp [h2], by subst h2; simpa using ha⟩
        · exact ⟨k + 1, by omega, by simpa using hget, hs⟩
      · rintro ⟨k, hk, hget, hs⟩
        cases k with
        | zero => left; simp at hget; exact ⟨by omega, hget.symm⟩
        | succ k => right; exact ⟨k, by omega, by simpa using hget, hs⟩
    · rename_i ha
      rw [ih]
      constructor
      · rintro ⟨k, hk, hget, hs⟩
        exact ⟨k + 1, by omega, by simpa using hget, hs⟩
      · rintro ⟨k, hk, hget, hs⟩
        cases k with
        | zero =>
          simp at hget
          subst hget
          exact absurd (by simpa using hs) ha
        | succ k => exact ⟨k, by omega, by simpa using hget, hs⟩


end OptunaVerif.Storage
