import OptunaVerif.Model.SuggestApi
/-! Facts about the hand models of the suggest path that `Props/C10SuggestGen.lean` needs (none of them mentions the
generated code): `SuggestApi.suggestFull` projects to `Suggest.suggestS`; a failed call leaves the state alone; a reuse
takes nothing from the sampler and writes nothing. -/
set_option linter.unusedSimpArgs false
namespace OptunaVerif.SuggestApi
open OptunaVerif OptunaVerif.Dist OptunaVerif.Suggest OptunaVerif.SuggestIR

/-- the `R`-typed answers of `Model/Suggest.lean` inside the interpreter's exception type -/
def liftR {α : Type} : R α → Except Exn α
  | .ok a => .ok a
  | .error e => .error (.err e)

theorem pickFull_res (E : SEnv) (name : String) (d : Dist) (hne : d = .cat [] → E.single d = false) :
    (pickFull E name d).2.2 = liftR (pickS (E.single d) E.cx name d (E.indep name d)) := by
  unfold pickFull pickS
  cases hf : E.cx.fixed.get? name with
  | some fv =>
    cases hq : d.toInternal fv <;> simp [liftR, hq]
  | none =>
    cases hs : E.single d with
    | true =>
      cases d with
      | flt c low high log step => simp [liftR, hs]
      | int c low high log step => simp [liftR, hs]
      | cat cs =>
        cases cs with
        | nil => rw [hne rfl] at hs; cases hs
        | cons a t => simp [liftR, hs]
    | false =>
      cases hr : E.cx.relParams.get? name with
      | none => simp [liftR, hs, hr]
      | some rv =>
        cases hsp : E.cx.relSpace.get? name with
        | none => simp [liftR, hs, hr, hsp]
        | some rd =>
          cases hc : compat rd d with
          | false => simp [liftR, hs, hr, hsp, hc]
          | true =>
            cases hq : d.toInternal rv with
            | error e => simp [liftR, hs, hr, hsp, hc, hq]
            | ok q => cases hin : d.contains q <;> simp [liftR, hs, hr, hsp, hc, hq, hin]

/-- **suggestFull_toR** — with a storage that accepts the write, everything-a-call-does projects to the decision logic
of `Model/Suggest.lean` (`suggestS`, the function the theorems of `Props/C10.lean` are about). -/
theorem suggestFull_toR (E : SEnv) (st : St) (name : String) (d : Dist) (hw : E.writeFails = false)
    (hne : d = .cat [] → E.single d = false) :
    toR (suggestFull E st name d) = liftR (suggestS (E.single d) E.cx st name d (E.indep name d)) := by
  have hp := pickFull_res E name d hne
  unfold suggestFull suggestS
  cases hd : st.dists.get? name with
  | some dOld =>
    cases hc : compat dOld d with
    | false => simp [toR, liftR, hc]
    | true => cases hv : st.params.get? name <;> simp [toR, liftR, hc, hv]
  | none =>
    simp only []
    generalize pickFull E name d = pf at hp
    obtain ⟨w, n, r⟩ := pf
    simp only at hp
    subst hp
    cases hpk : pickS (E.single d) E.cx name d (E.indep name d) with
    | error e => simp [toR, liftR, hpk]
    | ok vb =>
      obtain ⟨v, br⟩ := vb
      cases hq : d.toInternal v with
      | error e => simp [toR, liftR, hq]
      | ok q => simp [toR, liftR, hq, hw]

/-- an exception — whichever: incompatible distribution, an invalid fixed / relative / sampled value, a storage
that refuses the write — leaves the trial-local cache and the storage rows exactly as they were -/
theorem suggestFull_error_keeps_state (E : SEnv) (st : St) (name : String) (d : Dist) (e : Exn)
    (h : (suggestFull E st name d).res = .error e) : (suggestFull E st name d).st = st := by
  unfold suggestFull at h ⊢
  cases hd : st.dists.get? name with
  | some dOld =>
    simp only [hd] at h ⊢
    cases hc : compat dOld d with
    | false => simp [hc]
    | true => cases hv : st.params.get? name <;> simp [hc, hv]
  | none =>
    simp only [hd] at h ⊢
    generalize pickFull E name d = pf at h ⊢
    obtain ⟨w, n, r⟩ := pf
    cases r with
    | error e' => simp
    | ok vb =>
      obtain ⟨v, br⟩ := vb
      simp only at h ⊢
      cases hq : d.toInternal v with
      | error e' => simp
      | ok q =>
        cases hw : E.writeFails with
        | true => simp
        | false => simp [hq, hw] at h

/-- a name that is already in the trial: the cached value, no warning, no sampler call, no write — whatever the
storage would do with a write (`writeFails` is not even consulted) -/
theorem suggestFull_reused (E : SEnv) (st : St) (name : String) (d dOld : Dist) (v : Tok)
    (hd : st.dists.get? name = some dOld) (hc : compat dOld d = true) (hv : st.params.get? name = some v) :
    suggestFull E st name d = ⟨st, [], 0, .ok (v, .reused)⟩ := by
  simp [suggestFull, hd, hc, hv]

/-- a refused write: nothing is recorded, the exception is the storage's -/
theorem suggestFull_write_refused (E : SEnv) (st : St) (name : String) (d : Dist) (hw : E.writeFails = true)
    (hd : st.dists.get? name = none) :
    (suggestFull E st name d).st = st ∧ ∃ e, (suggestFull E st name d).res = .error e := by
  unfold suggestFull
  simp only [hd]
  generalize pickFull E name d = pf
  obtain ⟨w, n, r⟩ := pf
  cases r with
  | error e' => exact ⟨rfl, e', rfl⟩
  | ok vb =>
    obtain ⟨v, br⟩ := vb
    simp only
    cases hq : d.toInternal v with
    | error e' => exact ⟨rfl, .err e', rfl⟩
    | ok q => simp [hw]

end OptunaVerif.SuggestApi
