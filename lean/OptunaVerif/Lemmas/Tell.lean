import OptunaVerif.Model.Tell
/-! Helper lemmas about the `_tell.py` / `_run_trial` model (used by Props/C02). -/
namespace OptunaVerif.Tell
open OptunaVerif

/-! ## the feasibility check -/

/-- An element the check accepts: `float(e)` succeeds and is not NaN. -/
def Elem.Good (e : Elem) : Prop := ∃ x, e = .ok x ∧ x ≠ .nan

theorem scan_feasible_iff (l : List Elem) : scan l = .feasible ↔ ∀ e ∈ l, e.Good := by
  induction l with
  | nil => simp [scan]
  | cons a t ih =>
    cases a with
    | ok x =>
      by_cases hx : x = .nan
      · subst hx
        simp [scan, Elem.Good]
      · simp only [scan, hx, if_false, List.mem_cons, forall_eq_or_imp, ih]
        constructor
        · intro h; exact ⟨⟨x, rfl, hx⟩, h⟩
        · intro h; exact h.2
    | bad e =>
      have : ¬ (Elem.bad e).Good := by rintro ⟨x, hx, _⟩; cases hx
      simp only [scan, List.mem_cons, forall_eq_or_imp]
      constructor
      · intro h; split at h <;> cases h
      · intro h; exact absurd h.1 this

/-- If the scan raises, the raising element is in the list and its class is not one the code names. -/
theorem scan_raises (l : List Elem) (c : CastExc) (h : scan l = .raises c) :
    Elem.bad c ∈ l ∧ castCaught c = false := by
  induction l with
  | nil => simp [scan] at h
  | cons a t ih =>
    cases a with
    | ok x =>
      simp only [scan] at h
      split at h
      · cases h
      · exact ⟨List.mem_cons_of_mem _ (ih h).1, (ih h).2⟩
    | bad e =>
      simp only [scan] at h
      split at h
      · cases h
      · rename_i hc
        cases h
        exact ⟨List.mem_cons_self, by simpa using hc⟩

/-- The feasibility check catches every exception class of `float(v)`. -/
theorem castCaught_all (c : CastExc) : castCaught c = true := by
  cases c <;> rfl

/-- Hence the scan never lets a cast error propagate. -/
theorem scan_not_raises (l : List Elem) (c : CastExc) : scan l ≠ .raises c := by
  intro hs
  have := (scan_raises l c hs).2
  rw [castCaught_all] at this
  cases this

theorem check_feasible_iff (nObj : Nat) (l : List Elem) :
    checkValuesFeasible nObj l = .feasible ↔ (∀ e ∈ l, e.Good) ∧ l.length = nObj := by
  unfold checkValuesFeasible
  constructor
  · intro h
    split at h
    · rename_i hs
      split at h
      · rename_i hl; exact ⟨(scan_feasible_iff l).1 hs, hl⟩
      · cases h
    · rename_i r hr
      exact absurd h (hr · )
  · rintro ⟨hg, hl⟩
    rw [(scan_feasible_iff l).2 hg]
    simp [hl]

theorem check_raises (nObj : Nat) (l : List Elem) (c : CastExc)
    (h : checkValuesFeasible nObj l = .raises c) : scan l = .raises c := by
  unfold checkValuesFeasible at h
  split at h
  · split at h <;> cases h
  · exact h

theorem check_not_raises (nObj : Nat) (l : List Elem) (c : CastExc) :
    checkValuesFeasible nObj l ≠ .raises c :=
  fun hc => scan_not_raises l c (check_raises nObj l c hc)

/-- After a successful check, the stored floats are exactly the casts of the elements, in order. -/
theorem floats_spec (l : List Elem) (h : ∀ e ∈ l, e.Good) : l = (floats l).map Elem.ok := by
  induction l with
  | nil => rfl
  | cons a t ih =>
    obtain ⟨x, hx, _⟩ := h a List.mem_cons_self
    subst hx
    simp only [floats, List.map_cons, List.cons.injEq, true_and]
    exact ih (fun e he => h e (List.mem_cons_of_mem _ he))

theorem floats_length (l : List Elem) (h : ∀ e ∈ l, e.Good) : (floats l).length = l.length := by
  conv => rhs; rw [floats_spec l h]
  simp

theorem floats_no_nan (l : List Elem) (h : ∀ e ∈ l, e.Good) : ∀ x ∈ floats l, x ≠ .nan := by
  induction l with
  | nil => simp [floats]
  | cons a t ih =>
    obtain ⟨x, hx, hn⟩ := h a List.mem_cons_self
    subst hx
    intro y hy
    simp only [floats, List.mem_cons] at hy
    rcases hy with rfl | hy
    · exact hn
    · exact ih (fun e he => h e (List.mem_cons_of_mem _ he)) y hy

theorem check_single (nObj : Nat) (x : XVal) :
    checkValuesFeasible nObj [.ok x] = .feasible ↔ x ≠ .nan ∧ nObj = 1 := by
  rw [check_feasible_iff]
  constructor
  · rintro ⟨hg, hl⟩
    obtain ⟨y, hy, hn⟩ := hg _ List.mem_cons_self
    cases hy
    exact ⟨hn, by simpa using hl.symm⟩
  · rintro ⟨hn, hl⟩
    refine ⟨?_, by simp [hl]⟩
    intro e he
    simp only [List.mem_singleton] at he
    subst he
    exact ⟨x, rfl, hn⟩

/-! ## intermediate values: first report of a step wins; the pruned value is read at the max step -/

theorem interGet?_append (l : List (Nat × XVal)) (p : Nat × XVal) (k : Nat) :
    interGet? (l ++ [p]) k = match interGet? l k with
      | some x => some x
      | none => if p.1 = k then some p.2 else none := by
  induction l with
  | nil => simp [interGet?]
  | cons a t ih =>
    obtain ⟨s, x⟩ := a
    by_cases h : s = k
    · simp [interGet?, h]
    · simp [interGet?, h, ih]

theorem interGet?_report (l : List (Nat × XVal)) (p : Nat × XVal) (k : Nat) :
    interGet? (report l p) k = match interGet? l k with
      | some x => some x
      | none => if p.1 = k then some p.2 else none := by
  unfold report
  split
  · rename_i y hy
    by_cases hk : p.1 = k
    · subst hk; simp [hy]
    · cases interGet? l k <;> simp [hk]
  · exact interGet?_append l p k

/-- The value the dict holds for step `k` after a sequence of reports: that of the first report of
step `k`. -/
def firstAt : List (Nat × XVal) → Nat → Option XVal
  | [], _ => none
  | (s, x) :: t, k => if s = k then some x else firstAt t k

theorem interGet?_foldl (rs acc : List (Nat × XVal)) (k : Nat) :
    interGet? (rs.foldl report acc) k = match interGet? acc k with
      | some x => some x
      | none => firstAt rs k := by
  induction rs generalizing acc with
  | nil => simp [firstAt]; cases interGet? acc k <;> rfl
  | cons p t ih =>
    simp only [List.foldl_cons]
    rw [ih, interGet?_report]
    obtain ⟨s, x⟩ := p
    cases h : interGet? acc k with
    | some y => rfl
    | none =>
      by_cases hs : s = k <;> simp [firstAt, hs]

/-- `k` is the greatest step in `l` -/
def IsMaxStep (l : List (Nat × XVal)) (k : Nat) : Prop :=
  (∃ x, (k, x) ∈ l) ∧ ∀ p ∈ l, p.1 ≤ k

theorem lastStep_none (l : List (Nat × XVal)) : lastStep l = none ↔ l = [] := by
  cases l with
  | nil => simp [lastStep]
  | cons a t =>
    obtain ⟨s, x⟩ := a
    simp only [lastStep]
    split <;> simp

theorem lastStep_isMax (l : List (Nat × XVal)) (k : Nat) (h : lastStep l = some k) : IsMaxStep l k := by
  induction l generalizing k with
  | nil => simp [lastStep] at h
  | cons a t ih =>
    obtain ⟨s, x⟩ := a
    simp only [lastStep] at h
    split at h
    · rename_i ht
      cases h
      rw [lastStep_none] at ht
      subst ht
      exact ⟨⟨x, List.mem_cons_self⟩, by simp⟩
    · rename_i m hm
      obtain ⟨⟨y, hy⟩, hle⟩ := ih m hm
      cases h
      split
      · rename_i hms
        refine ⟨⟨x, List.mem_cons_self⟩, ?_⟩
        intro p hp
        rcases List.mem_cons.1 hp with rfl | hp
        · exact Nat.le_refl _
        · exact Nat.le_trans (hle p hp) hms
      · rename_i hms
        refine ⟨⟨y, List.mem_cons_of_mem _ hy⟩, ?_⟩
        intro p hp
        rcases List.mem_cons.1 hp with rfl | hp
        · exact Nat.le_of_lt (Nat.lt_of_not_le hms)
        · exact hle p hp

theorem report_mem_steps (l : List (Nat × XVal)) (p : Nat × XVal) (k : Nat) :
    (∃ x, (k, x) ∈ report l p) ↔ (∃ x, (k, x) ∈ l) ∨ p.1 = k := by
  have key : ∀ (l : List (Nat × XVal)) (k : Nat), (∃ x, (k, x) ∈ l) ↔ (interGet? l k).isSome := by
    intro l k
    induction l with
    | nil => simp [interGet?]
    | cons a t ih =>
      obtain ⟨s, y⟩ := a
      by_cases hs : s = k
      · subst hs; simp [interGet?]
      · simp only [List.mem_cons, Prod.mk.injEq, interGet?, hs, if_false]
        rw [← ih]
        constructor
        · rintro ⟨x, h | h⟩
          · exact absurd h.1.symm hs
          · exact ⟨x, h⟩
        · rintro ⟨x, h⟩; exact ⟨x, Or.inr h⟩
  rw [key, key, interGet?_report]
  cases interGet? l k with
  | some y => simp
  | none =>
    by_cases hk : p.1 = k <;> simp [hk]

theorem foldl_report_steps (rs acc : List (Nat × XVal)) (k : Nat) :
    (∃ x, (k, x) ∈ rs.foldl report acc) ↔ (∃ x, (k, x) ∈ acc) ∨ (∃ x, (k, x) ∈ rs) := by
  induction rs generalizing acc with
  | nil => simp
  | cons p t ih =>
    simp only [List.foldl_cons]
    rw [ih, report_mem_steps]
    obtain ⟨s, y⟩ := p
    constructor
    · rintro ((h | h) | h)
      · exact Or.inl h
      · exact Or.inr ⟨y, by simp at h; subst h; exact List.mem_cons_self⟩
      · obtain ⟨x, hx⟩ := h; exact Or.inr ⟨x, List.mem_cons_of_mem _ hx⟩
    · rintro (h | ⟨x, hx⟩)
      · exact Or.inl (Or.inl h)
      · rcases List.mem_cons.1 hx with h | h
        · cases h; exact Or.inl (Or.inr rfl)
        · exact Or.inr ⟨x, h⟩

/-- The pruned-trial value is read at the greatest reported step, and is the value of the *first*
report made for that step. -/
theorem lastReport_foldl (rs : List (Nat × XVal)) :
    (rs = [] ∧ lastReport (rs.foldl report []) = none) ∨
    (∃ k, (∃ x, (k, x) ∈ rs) ∧ (∀ p ∈ rs, p.1 ≤ k) ∧ lastReport (rs.foldl report []) = firstAt rs k) := by
  unfold lastReport
  cases h : lastStep (rs.foldl report []) with
  | none =>
    left
    rw [lastStep_none] at h
    refine ⟨?_, rfl⟩
    cases rs with
    | nil => rfl
    | cons p t =>
      exfalso
      have := (foldl_report_steps (p :: t) [] p.1).2 (Or.inr ⟨p.2, List.mem_cons_self⟩)
      rw [h] at this
      simp at this
  | some k =>
    right
    obtain ⟨⟨x, hx⟩, hle⟩ := lastStep_isMax _ k h
    refine ⟨k, ?_, ?_, ?_⟩
    · have := (foldl_report_steps rs [] k).1 ⟨x, hx⟩
      simpa using this
    · intro p hp
      have := (foldl_report_steps rs [] p.1).2 (Or.inr ⟨p.2, hp⟩)
      obtain ⟨y, hy⟩ := this
      exact hle (p.1, y) hy
    · simp only []
      rw [interGet?_foldl]
      simp [interGet?]

end OptunaVerif.Tell
