import OptunaVerif.Model.TellIR
import OptunaVerif.Lemmas.Tell
/-! Unfolding equations of the generic interpreter of `Model/TellIR.lean` (used by Props/C02Gen, C04Gen to
step through a generated body without unfolding what sits under a loop). -/
namespace OptunaVerif.TellIR
variable {σ ε ι : Type}

theorem tstate_beq (a b : TState) : (a == b) = decide (a = b) := by
  cases a <;> cases b <;> rfl

theorem tstate_bne (a b : TState) : (a != b) = !decide (a = b) := by
  cases a <;> cases b <;> rfl

theorem exec_seq (M : Machine σ ε ι) (a b : Stmt) (cur : Option ε) (s : σ) :
    exec M (.seq a b) cur s = match exec M a cur s with
      | (s', .next) => exec M b cur s'
      | r => r := by
  simp only [exec]; rfl

theorem exec_forIn (M : Machine σ ε ι) (it : Iter) (body : Stmt) (cur : Option ε) (s : σ) :
    exec M (.forIn it body) cur s = match M.items it s with
      | (s', .error e) => (s', .raised e)
      | (s', .ok xs) => forLoop (exec M body cur) (M.bind it) xs s' := by
  simp only [exec]; rfl

theorem exec_ite (M : Machine σ ε ι) (c : Cond) (t e : Stmt) (cur : Option ε) (s : σ) :
    exec M (.ite c t e) cur s = match evalCond M c cur s with
      | (s', .error x) => (s', .raised x)
      | (s', .ok true) => exec M t cur s'
      | (s', .ok false) => exec M e cur s' := by
  simp only [exec]; rfl

theorem exec_tryFinally (M : Machine σ ε ι) (body fin : Stmt) (cur : Option ε) (s : σ) :
    exec M (.tryFinally body fin) cur s = match exec M body cur s with
      | (s1, fl) => match exec M fin cur s1 with
        | (s2, .next) => (s2, fl)
        | r => r := by
  simp only [exec]; rfl

theorem forLoop_nil (f : σ → σ × Flow ε) (bind : ι → σ → σ) (s : σ) : forLoop f bind [] s = (s, .next) := rfl

theorem forLoop_cons (f : σ → σ × Flow ε) (bind : ι → σ → σ) (x : ι) (xs : List ι) (s : σ) :
    forLoop f bind (x :: xs) s = match f (bind x s) with
      | (s', .next) => forLoop f bind xs s'
      | (s', .cont) => forLoop f bind xs s'
      | (s', .brk) => (s', .next)
      | r => r := by
  simp only [forLoop]; rfl

/-! which `except` clause catches what -/
open OptunaVerif.Tell

theorem catches_exception_exc (e : Exc) : catches Exn.mro [.exception] (.exc e) = !e.isBase := by
  cases e with
  | cast c => cases c <;> rfl
  | _ => rfl

theorem catches_pruned_exc (e : Exc) : catches Exn.mro [.trialPruned] (.exc e) = false := by
  cases e with
  | cast c => cases c <;> rfl
  | _ => rfl

theorem catches_exception_kbd_exc (e : Exc) : catches Exn.mro [.exception, .keyboardInterrupt] (.exc e) = true := by
  cases e with
  | cast c => cases c <;> rfl
  | _ => rfl

theorem catches_pruned_pruned : catches Exn.mro [.trialPruned] .pruned = true := rfl

theorem catches_exception_cast (c : CastExc) : catches Exn.mro [.exception] (.exc (.cast c)) = true := by
  cases c <;> rfl

/-! facts about the hand model the equalities need -/

theorem firstBad_of_feasible (nObj : Nat) (vs : List Elem) (h : checkValuesFeasible nObj vs = .feasible) :
    firstBad vs = none := by
  have hg := ((check_feasible_iff nObj vs).1 h).1
  clear h
  induction vs with
  | nil => rfl
  | cons e t ih =>
    obtain ⟨x, hx, _⟩ := hg e List.mem_cons_self
    subst hx
    exact ih (fun e he => hg e (List.mem_cons_of_mem _ he))

theorem interGet?_of_lastStep (l : List (Nat × XVal)) (k : Nat) (h : lastStep l = some k) :
    ∃ x, interGet? l k = some x := by
  obtain ⟨⟨x, hx⟩, _⟩ := lastStep_isMax l k h
  clear h
  rename_i hle
  clear hle
  induction l with
  | nil => cases hx
  | cons a t ih =>
    obtain ⟨s, y⟩ := a
    by_cases hs : s = k
    · exact ⟨y, by simp [interGet?, hs]⟩
    · rcases List.mem_cons.1 hx with h | h
      · cases h; exact absurd rfl hs
      · obtain ⟨z, hz⟩ := ih h
        exact ⟨z, by simp [interGet?, hs, hz]⟩

/-! the callback loop -/

/-- one callback invocation (the trial of this iteration is bound) -/
def cbStep (x : Nat × CbAct) (s : SeqSt) : SeqSt × Flow Exn :=
  ({ s with cb := some x, cbLog := s.cbLog ++ [(s.idx, x.1)], stop := s.stop || x.2.stop },
   match x.2.raises with
   | some c => .raised (.exc (.user c))
   | none => .next)

def cbAll : Nat → List CbAct → SeqSt → SeqSt × Flow Exn
  | _, [], s => (s, .next)
  | j, a :: t, s =>
    match cbStep (j, a) s with
    | (s', .next) => cbAll (j + 1) t s'
    | r => r

theorem forLoop_callbacks (f : SeqSt → SeqSt × Flow Exn) (bind : Nat × CbAct → SeqSt → SeqSt)
    (hf : ∀ x s, s.frozen = true → f (bind x s) = cbStep x s) (j : Nat) (cbs : List CbAct) (s : SeqSt)
    (hs : s.frozen = true) : forLoop f bind (enumFrom j cbs) s = cbAll j cbs s := by
  induction cbs generalizing j s with
  | nil => rfl
  | cons a t ih =>
    simp only [enumFrom, forLoop_cons, cbAll, hf _ _ hs]
    cases hr : a.raises with
    | some c => simp [cbStep, hr]
    | none =>
      simp only [cbStep, hr]
      exact ih _ _ hs

theorem cbAll_spec (j : Nat) (cbs : List CbAct) (s : SeqSt) :
    (cbAll j cbs s).2 = (match (runCallbacks s.idx j cbs).2.2 with
      | some c => .raised (.exc (.user c))
      | none => .next) ∧
    (cbAll j cbs s).1.cbLog = s.cbLog ++ (runCallbacks s.idx j cbs).1 ∧
    (cbAll j cbs s).1.stop = (s.stop || (runCallbacks s.idx j cbs).2.1) ∧
    (cbAll j cbs s).1.started = s.started ∧ (cbAll j cbs s).1.iTrial = s.iTrial ∧
    (cbAll j cbs s).1.clock = s.clock := by
  induction cbs generalizing j s with
  | nil => simp [cbAll, runCallbacks]
  | cons a t ih =>
    cases hr : a.raises with
    | some c => simp [cbAll, cbStep, runCallbacks, hr]
    | none =>
      simp only [cbAll, cbStep, runCallbacks, hr]
      obtain ⟨h1, h2, h3, h4, h5, h6⟩ := ih (j + 1) { s with cb := some (j, a), cbLog := s.cbLog ++ [(s.idx, j)], stop := s.stop || a.stop }
      refine ⟨h1, ?_, ?_, h4, h5, h6⟩
      · rw [h2]; simp
      · rw [h3]; simp [Bool.or_assoc]

end OptunaVerif.TellIR
