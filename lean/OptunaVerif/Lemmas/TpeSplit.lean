import OptunaVerif.Model.TpeSplit
import OptunaVerif.Lemmas.Direction
import Mathlib.Algebra.Order.Field.Rat
import Mathlib.Tactic.FieldSimp
import Mathlib.Tactic.Linarith
import Mathlib.Data.Nat.Sqrt
import Mathlib.Data.List.Basic
/-! Helper lemmas for the TPE split (C13 / C09): permutation bookkeeping of the classification and of the
sub-splits, negation against the orders used as sort keys. -/
set_option linter.unusedSimpArgs false
set_option linter.unusedVariables false
namespace OptunaVerif.TpeSplit
open OptunaVerif
open OptunaVerif.Direction (Dir sortBy insertBy sortBy_perm sortBy_length sortBy_map sortBy_pairwise)

/-! ### take / drop of a sorted permutation -/

theorem take_drop_sort_perm {α : Type} (le : α → α → Bool) (l : List α) (n : Nat) :
    ((sortBy le l).take n ++ (sortBy le l).drop n).Perm l := by
  rw [List.take_append_drop]; exact sortBy_perm le l

theorem splitCompleteSingle_perm (d : Dir) (ts : List Trial) (n : Nat) :
    ((splitCompleteSingle d ts n).1 ++ (splitCompleteSingle d ts n).2).Perm ts := by
  unfold splitCompleteSingle
  cases d <;> exact take_drop_sort_perm _ _ _

theorem splitPruned_perm (d : Dir) (ts : List Trial) (n : Nat) :
    ((splitPruned d ts n).1 ++ (splitPruned d ts n).2).Perm ts := by
  unfold splitPruned; exact take_drop_sort_perm _ _ _

theorem splitInfeasible_perm (ts : List Trial) (n : Nat) :
    ((splitInfeasible ts n).1 ++ (splitInfeasible ts n).2).Perm ts := by
  unfold splitInfeasible; exact take_drop_sort_perm _ _ _

theorem byMembership_perm (ts : List Trial) (sel : List Nat) :
    ((byMembership ts sel).1 ++ (byMembership ts sel).2).Perm ts := by
  unfold byMembership
  simp only
  rw [← List.map_append]
  have h := (List.filter_append_perm (fun (e : Trial × Nat) => sel.contains e.2) ts.zipIdx).map Prod.fst
  rw [List.zipIdx_map_fst] at h
  exact h

theorem splitCompleteMulti_perm (K : Kernels) (dirs : List Dir) (ts : List Trial) (n : Nat) :
    ((splitCompleteMulti K dirs ts n).1 ++ (splitCompleteMulti K dirs ts n).2).Perm ts := by
  unfold splitCompleteMulti
  split
  · simp
  split
  · simp
  exact byMembership_perm _ _

theorem splitComplete_perm (K : Kernels) (dirs : List Dir) (ts : List Trial) (n : Nat) :
    ((splitComplete K dirs ts n).1 ++ (splitComplete K dirs ts n).2).Perm ts := by
  unfold splitComplete
  simp only
  split
  · exact splitCompleteSingle_perm _ _ _
  · exact splitCompleteMulti_perm _ _ _ _

/-! ### sizes of the below halves -/

theorem splitCompleteSingle_length (d : Dir) (ts : List Trial) (n : Nat) :
    (splitCompleteSingle d ts n).1.length = min n ts.length := by
  unfold splitCompleteSingle
  cases d <;> simp [List.length_take]

theorem splitPruned_length (d : Dir) (ts : List Trial) (n : Nat) :
    (splitPruned d ts n).1.length = min n ts.length := by
  unfold splitPruned; simp [List.length_take]

theorem splitInfeasible_length (ts : List Trial) (n : Nat) :
    (splitInfeasible ts n).1.length = min n ts.length := by
  unfold splitInfeasible; simp [List.length_take]

/-! ### the classification is a partition -/

theorem classes_perm (ce : Bool) (ts : List Trial) (h : ∀ t ∈ ts, classify ce t ≠ .bad) :
    (ofClass ce .complete ts ++ ofClass ce .pruned ts ++ ofClass ce .infeasible ts ++ ofClass ce .running ts).Perm ts := by
  induction ts with
  | nil => simp [ofClass]
  | cons t rest ih =>
    have ih' := ih (fun x hx => h x (List.mem_cons_of_mem _ hx))
    have ht := h t (List.mem_cons_self)
    unfold ofClass at ih' ⊢
    simp only [List.filter_cons]
    cases hc : classify ce t with
    | bad => exact absurd hc ht
    | complete =>
      simp only [decide_true, decide_false, if_true, Bool.false_eq_true, if_false, reduceCtorEq, List.cons_append]
      exact List.Perm.cons t ih'
    | pruned =>
      simp only [decide_true, decide_false, if_true, Bool.false_eq_true, if_false, reduceCtorEq, List.append_assoc]
      refine (List.perm_middle).trans (List.Perm.cons t ?_)
      simpa [List.append_assoc] using ih'
    | infeasible =>
      simp only [decide_true, decide_false, if_true, Bool.false_eq_true, if_false, reduceCtorEq, List.append_assoc]
      rw [← List.append_assoc]
      refine (List.perm_middle).trans (List.Perm.cons t ?_)
      simpa [List.append_assoc] using ih'
    | running =>
      simp only [decide_true, decide_false, if_true, Bool.false_eq_true, if_false, reduceCtorEq]
      refine (List.perm_middle).trans (List.Perm.cons t ?_)
      simpa [List.append_assoc] using ih'

theorem classify_running_iff (ce : Bool) (t : Trial) : classify ce t = .running ↔ t.state = .running := by
  unfold classify
  by_cases h : t.state = .running
  · simp [h]
  · simp only [h, if_false, iff_false]
    split
    · simp
    split
    · simp
    split <;> simp

theorem ofClass_running_eq (ce : Bool) (ts : List Trial) :
    ofClass ce .running ts = ts.filter (fun t => t.state = .running) := by
  unfold ofClass
  apply List.filter_congr
  intro t _
  simp only [decide_eq_decide]
  exact classify_running_iff ce t

theorem nFinished_add_running (ce : Bool) (ts : List Trial) :
    nFinished ts + (ofClass ce .running ts).length = ts.length := by
  rw [ofClass_running_eq]
  unfold nFinished
  have := List.length_eq_length_filter_add (l := ts) (fun t => decide (t.state = .running))
  have h2 : (ts.filter (fun t => decide (t.state ≠ .running))) = ts.filter (fun t => !decide (t.state = .running)) := by
    apply List.filter_congr; intro t _; simp
  rw [h2]; omega

theorem classes_length (ce : Bool) (ts : List Trial) (h : ∀ t ∈ ts, classify ce t ≠ .bad) :
    (ofClass ce .complete ts).length + (ofClass ce .pruned ts).length + (ofClass ce .infeasible ts).length = nFinished ts := by
  have h1 := (classes_perm ce ts h).length_eq
  have h2 := nFinished_add_running ce ts
  simp only [List.length_append] at h1
  omega

/-! ### negation (the mirrored run) -/

/-- the trial of the mirrored single-objective run: objective value and reports negated -/
def negT (t : Trial) : Trial :=
  { t with values := t.values.map xneg, iv := t.iv.map (fun p => (p.1, xneg p.2)) }

@[simp] theorem xneg_xneg (v : XVal) : xneg (xneg v) = v := by cases v <;> simp [xneg]

theorem xle_neg (a b : XVal) : xle (xneg a) (xneg b) = xle b a := by
  cases a <;> cases b <;> simp [xle, xneg, XVal.le]

theorem value0_negT (t : Trial) : value0 (negT t) = xneg (value0 t) := by
  unfold value0 negT
  cases t.values <;> simp [xneg]

theorem classify_negT (ce : Bool) (t : Trial) : classify ce (negT t) = classify ce t := rfl

theorem ofClass_map (ce : Bool) (c : Cls) (f : Trial → Trial) (hf : ∀ t, classify ce (f t) = classify ce t) (ts : List Trial) :
    ofClass ce c (ts.map f) = (ofClass ce c ts).map f := by
  unfold ofClass
  rw [List.filter_map]
  congr 1
  apply List.filter_congr
  intro t _
  simp [hf]

theorem lastEntry_map (f : XVal → XVal) (iv : List (Int × XVal)) :
    lastEntry (iv.map (fun p => (p.1, f p.2))) = (lastEntry iv).map (fun p => (p.1, f p.2)) := by
  induction iv with
  | nil => rfl
  | cons p t ih =>
    simp only [List.map_cons, lastEntry, ih]
    cases lastEntry t with
    | none => rfl
    | some m => simp only [Option.map_some]; split <;> rfl

theorem prunedScore_negT (t : Trial) : prunedScore .minimize (negT t) = prunedScore .maximize t := by
  unfold prunedScore negT
  simp only [lastEntry_map]
  cases lastEntry t.iv with
  | none => rfl
  | some p =>
    obtain ⟨s, v⟩ := p
    cases v <;> simp [xneg]

theorem infeasibleScore_negT (t : Trial) : infeasibleScore (negT t) = infeasibleScore t := rfl

theorem take_drop_map {α β : Type} (f : α → β) (l : List α) (n : Nat) :
    ((l.map f).take n, (l.map f).drop n) = ((l.take n).map f, (l.drop n).map f) := by
  rw [List.map_take, List.map_drop]

theorem splitCompleteSingle_negT (ts : List Trial) (n : Nat) :
    splitCompleteSingle .minimize (ts.map negT) n =
      ((splitCompleteSingle .maximize ts n).1.map negT, (splitCompleteSingle .maximize ts n).2.map negT) := by
  unfold splitCompleteSingle
  simp only
  rw [sortBy_map]
  have : (fun (a b : Trial) => xle (value0 (negT a)) (value0 (negT b))) = (fun a b => xle (value0 b) (value0 a)) := by
    funext a b; rw [value0_negT, value0_negT, xle_neg]
  rw [this, List.map_take, List.map_drop]

theorem splitPruned_negT (ts : List Trial) (n : Nat) :
    splitPruned .minimize (ts.map negT) n =
      ((splitPruned .maximize ts n).1.map negT, (splitPruned .maximize ts n).2.map negT) := by
  unfold splitPruned
  simp only [List.length_map]
  rw [sortBy_map]
  have : (fun (a b : Trial) => scoreLe (prunedScore .minimize (negT a)) (prunedScore .minimize (negT b))) =
      (fun a b => scoreLe (prunedScore .maximize a) (prunedScore .maximize b)) := by
    funext a b; rw [prunedScore_negT, prunedScore_negT]
  rw [this, List.map_take, List.map_drop]

theorem splitInfeasible_map (f : Trial → Trial) (hf : ∀ t, infeasibleScore (f t) = infeasibleScore t) (ts : List Trial) (n : Nat) :
    splitInfeasible (ts.map f) n = ((splitInfeasible ts n).1.map f, (splitInfeasible ts n).2.map f) := by
  unfold splitInfeasible
  simp only [List.length_map]
  rw [sortBy_map]
  have : (fun (a b : Trial) => xle (infeasibleScore (f a)) (infeasibleScore (f b))) =
      (fun a b => xle (infeasibleScore a) (infeasibleScore b)) := by
    funext a b; rw [hf, hf]
  rw [this, List.map_take, List.map_drop]

theorem sortByNumber_map (f : Trial → Trial) (hf : ∀ t, (f t).number = t.number) (ts : List Trial) :
    sortByNumber (ts.map f) = (sortByNumber ts).map f := by
  unfold sortByNumber
  rw [sortBy_map]
  have : (fun (a b : Trial) => decide ((f a).number ≤ (f b).number)) = (fun a b => decide (a.number ≤ b.number)) := by
    funext a b; rw [hf, hf]
  rw [this]

/-! ### flipping a subset of objectives -/

def flipX : List Bool → List XVal → List XVal
  | m :: ms, v :: vs => (if m then xneg v else v) :: flipX ms vs
  | _, vs => vs

/-- the trial of the run in which the objectives marked in `mask` are negated -/
def flipT (mask : List Bool) (t : Trial) : Trial := { t with values := flipX mask t.values }

theorem flipDirs_length (mask : List Bool) (dirs : List Dir) (h : mask.length = dirs.length) :
    (Direction.flipDirs mask dirs).length = dirs.length := by
  induction mask generalizing dirs with
  | nil => cases dirs <;> simp_all [Direction.flipDirs]
  | cons m ms ih =>
    cases dirs with
    | nil => simp at h
    | cons d ds => simp only [Direction.flipDirs, List.length_cons]; rw [ih ds (by simpa using h)]

theorem lossRow_flip (mask : List Bool) (dirs : List Dir) (vs : List XVal) (h : mask.length = dirs.length) :
    lossRow (Direction.flipDirs mask dirs) (flipX mask vs) = lossRow dirs vs := by
  induction mask generalizing dirs vs with
  | nil => cases dirs <;> simp_all [Direction.flipDirs, flipX, lossRow]
  | cons m ms ih =>
    cases dirs with
    | nil => simp at h
    | cons d ds =>
      cases vs with
      | nil => simp [Direction.flipDirs, flipX, lossRow]
      | cons v vs =>
        simp only [Direction.flipDirs, flipX, lossRow]
        rw [ih ds vs (by simpa using h)]
        cases m <;> cases d <;> simp [Direction.Dir.flip]

theorem lossMatrix_flip (mask : List Bool) (dirs : List Dir) (ts : List Trial) (h : mask.length = dirs.length) :
    lossMatrix (Direction.flipDirs mask dirs) (ts.map (flipT mask)) = lossMatrix dirs ts := by
  unfold lossMatrix
  rw [List.map_map]
  apply List.map_congr_left
  intro t _
  simp only [Function.comp, flipT]
  exact lossRow_flip mask dirs t.values h

theorem moSelect_flip (K : Kernels) (mask : List Bool) (dirs : List Dir) (ts : List Trial) (n : Nat) (h : mask.length = dirs.length) :
    moSelect K (Direction.flipDirs mask dirs) (ts.map (flipT mask)) n = moSelect K dirs ts n := by
  unfold moSelect
  rw [lossMatrix_flip mask dirs ts h]

theorem filter_zipIdx_map (f : Trial → Trial) (p : Nat → Bool) (ts : List Trial) (k : Nat) :
    (((ts.map f).zipIdx k).filter (fun e => p e.2)).map (·.1) = (((ts.zipIdx k).filter (fun e => p e.2)).map (·.1)).map f := by
  induction ts generalizing k with
  | nil => rfl
  | cons t rest ih =>
    simp only [List.map_cons, List.zipIdx_cons, List.filter_cons]
    split <;> simp [ih]

theorem byMembership_map (f : Trial → Trial) (ts : List Trial) (sel : List Nat) :
    byMembership (ts.map f) sel = ((byMembership ts sel).1.map f, (byMembership ts sel).2.map f) := by
  unfold byMembership
  rw [filter_zipIdx_map f (fun i => sel.contains i), filter_zipIdx_map f (fun i => !sel.contains i)]

theorem insertBy_congr {α : Type} (le le' : α → α → Bool) (x : α) (l : List α) (h : ∀ b ∈ l, le x b = le' x b) :
    insertBy le x l = insertBy le' x l := by
  induction l with
  | nil => rfl
  | cons y t ih =>
    unfold insertBy
    rw [h y (List.mem_cons_self), ih (fun b hb => h b (List.mem_cons_of_mem _ hb))]

theorem sortBy_congr {α : Type} (le le' : α → α → Bool) (l : List α) (h : ∀ a ∈ l, ∀ b ∈ l, le a b = le' a b) :
    sortBy le l = sortBy le' l := by
  induction l with
  | nil => rfl
  | cons x t ih =>
    unfold sortBy
    rw [ih (fun a ha b hb => h a (List.mem_cons_of_mem _ ha) b (List.mem_cons_of_mem _ hb))]
    apply insertBy_congr
    intro b hb
    exact h x (List.mem_cons_self) b (List.mem_cons_of_mem _ ((sortBy_perm le' t).subset hb))

theorem prunedScore_indep (d d' : Dir) (t : Trial) (h : needsDirection t = false) : prunedScore d t = prunedScore d' t := by
  unfold prunedScore
  unfold needsDirection at h
  cases hl : lastEntry t.iv with
  | none => rfl
  | some p =>
    obtain ⟨s, v⟩ := p
    rw [hl] at h
    cases v <;> simp at h
    rfl

theorem splitPruned_indep (d d' : Dir) (ts : List Trial) (n : Nat) (h : ∀ t ∈ ts, needsDirection t = false) :
    splitPruned d ts n = splitPruned d' ts n := by
  unfold splitPruned
  rw [sortBy_congr _ (fun a b => scoreLe (prunedScore d' a) (prunedScore d' b)) ts
    (fun a ha b hb => by rw [prunedScore_indep d d' a (h a ha), prunedScore_indep d d' b (h b hb)])]

theorem splitPruned_map (d : Dir) (f : Trial → Trial) (hf : ∀ t, prunedScore d (f t) = prunedScore d t) (ts : List Trial) (n : Nat) :
    splitPruned d (ts.map f) n = ((splitPruned d ts n).1.map f, (splitPruned d ts n).2.map f) := by
  unfold splitPruned
  simp only [List.length_map]
  rw [sortBy_map]
  have : (fun (a b : Trial) => scoreLe (prunedScore d (f a)) (prunedScore d (f b))) =
      (fun a b => scoreLe (prunedScore d a) (prunedScore d b)) := by
    funext a b; rw [hf, hf]
  rw [this, List.map_take, List.map_drop]

/-! ### the index computation of the multi-objective split -/

theorem mem_indicesWhere (p : Nat → Bool) (ranks : List Nat) (i : Nat) :
    i ∈ indicesWhere p ranks ↔ ∃ r, ranks[i]? = some r ∧ p r = true := by
  unfold indicesWhere
  simp only [List.mem_map, List.mem_filter, Prod.exists]
  constructor
  · rintro ⟨r, j, ⟨hm, hp⟩, rfl⟩
    exact ⟨r, List.mk_mem_zipIdx_iff_getElem?.mp hm, hp⟩
  · rintro ⟨r, hr, hp⟩
    exact ⟨r, i, ⟨List.mk_mem_zipIdx_iff_getElem?.mpr hr, hp⟩, rfl⟩

theorem indicesWhere_nodup (p : Nat → Bool) (ranks : List Nat) : (indicesWhere p ranks).Nodup := by
  unfold indicesWhere
  have hs : ((ranks.zipIdx.filter (fun e => p e.1)).map (·.2)).Sublist (ranks.zipIdx.map (·.2)) :=
    (List.filter_sublist).map _
  have : ranks.zipIdx.map (·.2) = List.range' 0 ranks.length := List.zipIdx_map_snd 0 ranks
  rw [this] at hs
  exact hs.nodup (List.nodup_range' (step := 1) (by omega))

theorem indicesWhere_length (p : Nat → Bool) (ranks : List Nat) :
    (indicesWhere p ranks).length = (ranks.filter p).length := by
  unfold indicesWhere
  rw [List.length_map]
  have h : (ranks.zipIdx.filter (fun e => p e.1)).map (·.1) = ranks.filter p := by
    have := List.filter_map (f := (Prod.fst : Nat × Nat → Nat)) (p := p) (l := ranks.zipIdx)
    rw [List.zipIdx_map_fst] at this
    rw [this]; rfl
  rw [← h, List.length_map]

theorem indicesWhere_lt (p : Nat → Bool) (ranks : List Nat) (i : Nat) (h : i ∈ indicesWhere p ranks) : i < ranks.length := by
  obtain ⟨r, hr, _⟩ := (mem_indicesWhere p ranks i).mp h
  by_contra hge
  rw [List.getElem?_eq_none (by omega)] at hr
  exact absurd hr (by simp)

theorem foldl_max_ge_init (l : List Nat) (m : Int) : m ≤ l.foldl (fun (m : Int) (r : Nat) => max m (r : Int)) m := by
  induction l generalizing m with
  | nil => exact Int.le_refl _
  | cons x t ih => exact Int.le_trans (Int.le_max_left _ _) (ih _)

theorem foldl_max_ge_mem (l : List Nat) (m : Int) (r : Nat) (h : r ∈ l) :
    (r : Int) ≤ l.foldl (fun (m : Int) (r : Nat) => max m (r : Int)) m := by
  induction l generalizing m with
  | nil => simp at h
  | cons x t ih =>
    rcases List.mem_cons.mp h with rfl | h'
    · exact Int.le_trans (Int.le_max_right _ _) (foldl_max_ge_init t _)
    · exact ih _ h'

theorem foldl_max_mem_or_init (l : List Nat) (m : Int) :
    l.foldl (fun (m : Int) (r : Nat) => max m (r : Int)) m = m ∨
      ∃ r ∈ l, l.foldl (fun (m : Int) (r : Nat) => max m (r : Int)) m = (r : Int) := by
  induction l generalizing m with
  | nil => left; rfl
  | cons x t ih =>
    simp only [List.foldl_cons]
    rcases ih (max m (x : Int)) with h | ⟨r, hr, h⟩
    · rcases Int.le_total m (x : Int) with hmx | hmx
      · right; exact ⟨x, List.mem_cons_self, by rw [h]; exact Int.max_eq_right hmx⟩
      · left; rw [h]; exact Int.max_eq_left hmx
    · right; exact ⟨r, List.mem_cons_of_mem _ hr, h⟩

theorem filter_length_split (l : List Nat) (p q s : Nat → Bool)
    (h : ∀ x, p x = (q x || s x)) (hd : ∀ x, ¬ (q x = true ∧ s x = true)) :
    (l.filter p).length = (l.filter q).length + (l.filter s).length := by
  induction l with
  | nil => rfl
  | cons x t ih =>
    simp only [List.filter_cons, h x]
    have := hd x
    cases hq : q x <;> cases hs : s x <;> simp_all <;> omega

/-- `len(indices_below) ≤ n_below`, by the definition of `last_rank_before_tiebreak` -/
theorem idxBelow_length_le (ranks : List Nat) (n : Nat) :
    (ranks.filter (fun (r : Nat) => decide ((r : Int) ≤ lastRank ranks n))).length ≤ n := by
  unfold lastRank
  rcases foldl_max_mem_or_init (ranks.filter (fun r => decide (countLe ranks r ≤ n))) (-1) with h | ⟨r, hr, h⟩
  · rw [h]
    have : ranks.filter (fun (r : Nat) => decide ((r : Int) ≤ -1)) = [] := by
      rw [List.filter_eq_nil_iff]; intro a _; simp; omega
    rw [this]; exact Nat.zero_le _
  · rw [h]
    have hc : countLe ranks r ≤ n := by simpa using (List.mem_filter.mp hr).2
    unfold countLe at hc
    have : ranks.filter (fun (x : Nat) => decide ((x : Int) ≤ (r : Int))) = ranks.filter (fun x => decide (x ≤ r)) := by
      apply List.filter_congr; intro x _; simp only [decide_eq_decide]; omega
    rw [this]; exact hc

theorem lastRank_ge_neg_one (ranks : List Nat) (n : Nat) : -1 ≤ lastRank ranks n := by
  unfold lastRank; exact foldl_max_ge_init _ _

/-- the tie set is large enough for the HSSP call: `subset_size < #{rank = last + 1}` -/
theorem tie_large_enough (ranks : List Nat) (n : Nat)
    (hcont : ∀ r ∈ ranks, ∀ r' < r, r' ∈ ranks)
    (hlt : (ranks.filter (fun (r : Nat) => decide ((r : Int) ≤ lastRank ranks n))).length < n) (hn : n < ranks.length) :
    n - (ranks.filter (fun (r : Nat) => decide ((r : Int) ≤ lastRank ranks n))).length <
      (ranks.filter (fun (r : Nat) => decide ((r : Int) = lastRank ranks n + 1))).length := by
  have hL := lastRank_ge_neg_one ranks n
  obtain ⟨m, hm⟩ : ∃ m : Nat, (m : Int) = lastRank ranks n + 1 := ⟨(lastRank ranks n + 1).toNat, by omega⟩
  -- some rank exceeds `last`
  have hex : ∃ r0 ∈ ranks, lastRank ranks n < (r0 : Int) := by
    by_contra hno
    have hall : ranks.filter (fun (r : Nat) => decide ((r : Int) ≤ lastRank ranks n)) = ranks := by
      rw [List.filter_eq_self]; intro a ha; simp only [decide_eq_true_eq]
      by_contra h; exact hno ⟨a, ha, by omega⟩
    rw [hall] at hlt; omega
  obtain ⟨r0, hr0, hr0L⟩ := hex
  have hmem : m ∈ ranks := by
    rcases Nat.lt_or_ge m r0 with h | h
    · exact hcont r0 hr0 m h
    · have : m = r0 := by omega
      rw [this]; exact hr0
  -- `m` is not among the ranks whose cumulative count fits
  have hbig : n < countLe ranks m := by
    by_contra hle
    have : m ∈ ranks.filter (fun r => decide (countLe ranks r ≤ n)) :=
      List.mem_filter.mpr ⟨hmem, by simp; omega⟩
    have := foldl_max_ge_mem _ (-1) m this
    unfold lastRank at hm
    omega
  unfold countLe at hbig
  have hsplit := filter_length_split ranks (fun x => decide (x ≤ m)) (fun (r : Nat) => decide ((r : Int) ≤ lastRank ranks n))
    (fun (r : Nat) => decide ((r : Int) = lastRank ranks n + 1))
    (by intro x
        by_cases h1 : x ≤ m <;> by_cases h2 : (x : Int) ≤ lastRank ranks n <;> by_cases h3 : (x : Int) = lastRank ranks n + 1 <;>
          simp [h1, h2, h3] <;> omega)
    (by intro x; simp only [decide_eq_true_eq]; omega)
  omega

theorem byMembership_length (ts : List Trial) (sel : List Nat) (hnd : sel.Nodup) (hlt : ∀ i ∈ sel, i < ts.length) :
    (byMembership ts sel).1.length = sel.length := by
  unfold byMembership
  simp only [List.length_map]
  have h1 : ((ts.zipIdx.filter (fun e => sel.contains e.2)).map Prod.snd) =
      (List.range' 0 ts.length).filter (fun i => sel.contains i) := by
    rw [← List.zipIdx_map_snd 0 ts, List.filter_map]
    rfl
  have h2 := congrArg List.length h1
  rw [List.length_map] at h2
  rw [h2]
  apply List.Perm.length_eq
  rw [List.perm_ext_iff_of_nodup ((List.nodup_range' (step := 1) (by omega)).filter _) hnd]
  intro a
  simp only [List.mem_filter, List.mem_range'_1, List.contains_iff_mem]
  constructor
  · intro h; exact h.2
  · intro h; exact ⟨⟨by omega, by have := hlt a h; omega⟩, h⟩

theorem sortByNumber_pairwise (l : List Trial) : (sortByNumber l).Pairwise (fun a b => a.number ≤ b.number) := by
  have := sortBy_pairwise (fun (a b : Trial) => decide (a.number ≤ b.number))
    (by intro a b c h1 h2; simp at *; omega) (by intro a b; simp; omega) l
  unfold sortByNumber
  exact this.imp (by intro a b h; simpa using h)

theorem mem_ofClass {ce : Bool} {c : Cls} {ts : List Trial} {t : Trial} (h : t ∈ ofClass ce c ts) : classify ce t = c := by
  unfold ofClass at h
  simpa using (List.mem_filter.mp h).2

theorem not_running_of_class {ce : Bool} {c : Cls} {t : Trial} (h : classify ce t = c) (hc : c ≠ .running) :
    t.state ≠ .running := by
  intro hs
  exact hc (h ▸ (classify_running_iff ce t).mpr hs)

theorem ofClass_filter_notRunning (ce : Bool) (c : Cls) (hc : c ≠ .running) (ts : List Trial) :
    ofClass ce c (ts.filter (fun t => t.state ≠ .running)) = ofClass ce c ts := by
  unfold ofClass
  rw [List.filter_filter]
  apply List.filter_congr
  intro t _
  by_cases h : classify ce t = c
  · have := not_running_of_class h hc
    simp [h, this]
  · simp [h]

theorem splitComplete_single_negT (K : Kernels) (ts : List Trial) (n : Nat) :
    splitComplete K [.minimize] (ts.map negT) n =
      ((splitComplete K [.maximize] ts n).1.map negT, (splitComplete K [.maximize] ts n).2.map negT) := by
  unfold splitComplete
  simp only [List.length_map, List.length_singleton, Nat.le_refl, if_true, dir0, List.headD_cons]
  exact splitCompleteSingle_negT ts _

theorem splitCompleteMulti_flip (K : Kernels) (mask : List Bool) (dirs : List Dir) (ts : List Trial) (n : Nat)
    (h : mask.length = dirs.length) :
    splitCompleteMulti K (Direction.flipDirs mask dirs) (ts.map (flipT mask)) n =
      ((splitCompleteMulti K dirs ts n).1.map (flipT mask), (splitCompleteMulti K dirs ts n).2.map (flipT mask)) := by
  unfold splitCompleteMulti
  simp only [List.length_map]
  split
  · rfl
  split
  · rfl
  rw [moSelect_flip K mask dirs ts n h, byMembership_map]

theorem ceilSqrt_le_self (x : Nat) : ceilSqrt x ≤ x := by
  unfold ceilSqrt
  simp only
  have h1 := Nat.sqrt_le x
  have h2 := Nat.le_mul_self (Nat.sqrt x)
  split
  · omega
  · rename_i hne
    have : Nat.sqrt x * Nat.sqrt x < x := Nat.lt_of_le_of_ne h1 hne
    omega

/-- `ceilSqrt x = ⌈√x⌉`: it is below `m` exactly when `x ≤ m²` -/
theorem ceilSqrt_le_iff (x m : Nat) : ceilSqrt x ≤ m ↔ x ≤ m * m := by
  unfold ceilSqrt
  simp only
  have h1 := Nat.sqrt_le x
  have h2 := Nat.lt_succ_sqrt x
  split
  · rename_i he
    constructor
    · intro h; rw [← he]; exact Nat.mul_self_le_mul_self h
    · intro h; rw [← he] at h; exact Nat.mul_self_le_mul_self_iff.mp h
  · rename_i hne
    have hlt : Nat.sqrt x * Nat.sqrt x < x := Nat.lt_of_le_of_ne h1 hne
    constructor
    · intro h
      have := Nat.mul_self_le_mul_self h
      simp only [Nat.succ_eq_add_one] at h2
      omega
    · intro h
      have : Nat.sqrt x * Nat.sqrt x < m * m := by omega
      have := Nat.mul_self_lt_mul_self_iff.mp this
      omega

theorem linspaceAt_bounds (a : Rat) (num i : Nat) (ha0 : 0 < a) (ha1 : a ≤ 1) (hi : i < num) :
    a ≤ linspaceAt a 1 num i ∧ linspaceAt a 1 num i ≤ 1 := by
  unfold linspaceAt
  split
  · exact ⟨le_refl _, ha1⟩
  · rename_i hn
    have hn' : (1 : Rat) < (num : Rat) := by exact_mod_cast (by omega : 1 < num)
    have hpos : (0 : Rat) < (num : Rat) - 1 := by linarith
    have ht : 0 ≤ (1 - a) / ((num : Rat) - 1) := div_nonneg (by linarith) (le_of_lt hpos)
    have hi' : (i : Rat) ≤ (num : Rat) - 1 := by
      have : (i : Rat) + 1 ≤ (num : Rat) := by exact_mod_cast (by omega : i + 1 ≤ num)
      linarith
    have h0 : (0 : Rat) ≤ (i : Rat) := by exact_mod_cast Nat.zero_le i
    constructor
    · have := mul_nonneg h0 ht
      linarith
    · have h1 : (i : Rat) * ((1 - a) / ((num : Rat) - 1)) ≤ ((num : Rat) - 1) * ((1 - a) / ((num : Rat) - 1)) :=
        mul_le_mul_of_nonneg_right hi' ht
      have h2 : ((num : Rat) - 1) * ((1 - a) / ((num : Rat) - 1)) = 1 - a := by
        field_simp
      linarith

theorem linspaceAt_mono (a : Rat) (num i j : Nat) (ha1 : a ≤ 1) (hij : i ≤ j) :
    linspaceAt a 1 num i ≤ linspaceAt a 1 num j := by
  unfold linspaceAt
  split
  · exact le_refl _
  · rename_i hn
    have hn' : (1 : Rat) < (num : Rat) := by exact_mod_cast (by omega : 1 < num)
    have ht : 0 ≤ (1 - a) / ((num : Rat) - 1) := div_nonneg (by linarith) (by linarith)
    have : (i : Rat) ≤ (j : Rat) := by exact_mod_cast hij
    have := mul_le_mul_of_nonneg_right this ht
    linarith

theorem eps_pos : (0 : Rat) < eps := by unfold eps; norm_num
theorem eps_le_one : eps ≤ 1 := by unfold eps; norm_num

theorem fill_length (m : List Bool) (vs : List Rat) : (fill m vs).length = m.length := by
  induction m generalizing vs with
  | nil => rfl
  | cons b ms ih =>
    cases b <;> cases vs <;> simp [fill, ih]

theorem fill_bounds (m : List Bool) (vs : List Rat) (h : ∀ v ∈ vs, eps ≤ v ∧ v ≤ 1) :
    ∀ w ∈ fill m vs, eps ≤ w ∧ w ≤ 1 := by
  induction m generalizing vs with
  | nil => intro w hw; simp [fill] at hw
  | cons b ms ih =>
    intro w hw
    cases b with
    | false =>
      simp only [fill, List.mem_cons] at hw
      rcases hw with rfl | hw
      · exact ⟨le_refl _, eps_le_one⟩
      · exact ih vs h w hw
    | true =>
      cases vs with
      | nil =>
        simp only [fill, List.mem_cons] at hw
        rcases hw with rfl | hw
        · exact ⟨eps_le_one, le_refl _⟩
        · exact ih [] (by simp) w hw
      | cons v vs =>
        simp only [fill, List.mem_cons] at hw
        rcases hw with rfl | hw
        · exact h _ (List.mem_cons_self)
        · exact ih vs (fun x hx => h x (List.mem_cons_of_mem _ hx)) w hw

theorem fill_infeasible (m : List Bool) (vs : List Rat) :
    ∀ p ∈ List.zip m (fill m vs), p.1 = false → p.2 = eps := by
  induction m generalizing vs with
  | nil => intro p hp; simp [fill] at hp
  | cons b ms ih =>
    intro p hp hf
    cases b with
    | false =>
      simp only [fill, List.zip_cons_cons, List.mem_cons] at hp
      rcases hp with rfl | hp
      · rfl
      · exact ih vs p hp hf
    | true =>
      cases vs with
      | nil =>
        simp only [fill, List.zip_cons_cons, List.mem_cons] at hp
        rcases hp with rfl | hp
        · simp at hf
        · exact ih [] p hp hf
      | cons v vs =>
        simp only [fill, List.zip_cons_cons, List.mem_cons] at hp
        rcases hp with rfl | hp
        · simp at hf
        · exact ih vs p hp hf

theorem le_maxR (cs : List Rat) (c : Rat) (h : c ∈ cs) : c ≤ maxR cs := by
  induction cs with
  | nil => simp at h
  | cons x t ih =>
    cases t with
    | nil => simp at h; rw [h]; exact le_refl _
    | cons y t' =>
      simp only [maxR, Direction.rmax]
      rcases List.mem_cons.mp h with rfl | h'
      · split <;> linarith
      · have := ih h'
        split <;> linarith

theorem rmax_eps_bounds (a : Rat) (h : a ≤ 1) : eps ≤ Direction.rmax a eps ∧ Direction.rmax a eps ≤ 1 := by
  unfold Direction.rmax
  split
  · exact ⟨le_refl _, eps_le_one⟩
  · rename_i hlt
    exact ⟨le_of_lt (not_le.mp hlt), h⟩

end OptunaVerif.TpeSplit
