import OptunaVerif.Model.TransformIR
import OptunaVerif.Lemmas.Dist
/-!
Helper lemmas for `Props/C11Gen.lean` that do not mention the generated program: the closed forms of the column
bookkeeping (`colsOf`, `backOf`, `totalWidth`), the hand model's `transform` / `untransform` rewritten as "raw columns,
then ONE column-wise scaling pass over all raw bounds" (which is how the code is written, whereas `Model/Dist.lean`
scales parameter by parameter), and list plumbing of the interpreters (`gather`, `window`).
-/
set_option linter.unusedSimpArgs false
namespace OptunaVerif.TransformIR
open OptunaVerif OptunaVerif.Dist

theorem half_mul (s : Rat) : (2 : Rat)⁻¹ * s = s / 2 := by ring

/-- `column_to_encoded_columns`: consecutive index ranges, one per parameter -/
def colsOf : Nat → List Dist → List (List Nat)
  | _, [] => []
  | off, d :: ds => List.range' off d.width :: colsOf (off + d.width) ds

/-- `encoded_column_to_column`: the parameter index of every column -/
def backOf : Nat → List Dist → List Nat
  | _, [] => []
  | i, d :: ds => List.replicate d.width i ++ backOf (i + 1) ds

def totalWidth : List Dist → Nat
  | [] => 0
  | d :: ds => d.width + totalWidth ds

theorem flatMap_boundsOf_length (E : Env) (c : TCfg) (space : List Dist) :
    (space.flatMap (boundsOf E c)).length = totalWidth space := by
  induction space with
  | nil => rfl
  | cons d ds ih => simp [List.flatMap_cons, boundsOf_length, totalWidth, ih]

theorem backOf_length (i : Nat) (space : List Dist) : (backOf i space).length = totalWidth space := by
  induction space generalizing i with
  | nil => rfl
  | cons d ds ih => simp [backOf, totalWidth, ih]

theorem colsOf_length (off : Nat) (space : List Dist) : (colsOf off space).length = space.length := by
  induction space generalizing off with
  | nil => rfl
  | cons d ds ih => simp [colsOf, ih]

/-- the un-scaled columns of a whole configuration (the loop of `transform` before the 0-1 block) -/
def encodeAll (E : Env) (c : TCfg) : List Dist → List Tok → R (List Rat)
  | [], [] => .ok []
  | d :: ds, v :: vs =>
    match encode E c d v with
    | .ok a =>
      match encodeAll E c ds vs with
      | .ok b => .ok (a ++ b)
      | .error e => .error e
    | .error e => .error e
  | [], _ :: _ => .error .keyError
  | _ :: _, [] => .error .keyError

theorem encode_length (E : Env) (c : TCfg) (d : Dist) (v : Tok) (raw : List Rat) (h : encode E c d v = .ok raw) :
    raw.length = d.width := by
  cases d with
  | cat cs =>
    simp only [encode] at h
    cases hi : catIndex cs v with
    | error e => simp [hi, Except.map] at h
    | ok i => simp [hi, Except.map] at h; subst h; simp [oneHot_length, Dist.width]
  | flt cl low high log step =>
    simp only [encode] at h
    cases hn : v.num? with
    | none => simp [hn] at h
    | some q => simp [hn] at h; subst h; simp [Dist.width]
  | int cl low high log step =>
    simp only [encode] at h
    cases hn : v.num? with
    | none => simp [hn] at h
    | some q => simp [hn] at h; subst h; simp [Dist.width]

/-- the hand model's `transform` = raw columns, then (under 0-1 scaling) one column-wise pass over all raw bounds -/
theorem transform_eq_encodeAll (E : Env) (c : TCfg) (space : List Dist) (params : List Tok) :
    Dist.transform E c space params =
      (encodeAll E c space params).map
        (fun raw => if c.t01 then List.zipWith scale01 (space.flatMap (boundsOf E c)) raw else raw) := by
  induction space generalizing params with
  | nil => cases params <;> simp [Dist.transform, encodeAll, Except.map]
  | cons d ds ih =>
    cases params with
    | nil => simp [Dist.transform, encodeAll, Except.map]
    | cons v vs =>
      simp only [Dist.transform, encodeAll, tcols, ih]
      cases he : encode E c d v with
      | error e => simp [Except.map, bind, Except.bind]
      | ok a =>
        have hl := encode_length E c d v a he
        cases hr : encodeAll E c ds vs with
        | error e => simp [Except.map, bind, Except.bind]
        | ok b =>
          cases ht : c.t01
          · simp [Except.map, bind, Except.bind, pure, Except.pure]
          · simp only [Except.map, bind, Except.bind, pure, Except.pure, if_true, List.flatMap_cons]
            rw [List.zipWith_append (by rw [boundsOf_length, hl])]


theorem catIndex_lt (cs : List Tok) (v : Tok) (i : Nat) (h : catIndex cs v = .ok i) : i < cs.length := by
  unfold catIndex at h
  cases hf : firstIdx (fun c => v.catEq c) cs with
  | none => simp [hf] at h
  | some j =>
    simp [hf] at h
    subst h
    obtain ⟨a, ha, _⟩ := firstIdx_some _ cs j hf
    exact (List.getElem?_eq_some_iff.mp ha).1

theorem window_hot (n i : Nat) (q : Rat) :
    (List.range n).map (window 0 [(i, q)]) = (List.range n).map (fun j => if j = i then q else 0) := by
  apply List.map_congr_left
  intro j _
  by_cases h : j = i
  · simp [window, h]
  · have h' : ¬ i = j := fun e => h e.symm
    simp [window, h, h']

/-- `untransform` on already un-scaled columns -/
def decodeAll (E : Env) (c : TCfg) : List Dist → List Rat → Option (List Tok)
  | [], [] => some []
  | [], _ :: _ => none
  | d :: ds, ys =>
    if ys.length < d.width then none
    else (decode E c d (ys.take d.width)).bind (fun v =>
      (decodeAll E c ds (ys.drop d.width)).bind (fun rest => some (v :: rest)))

theorem untransform_wrong_length (E : Env) (c : TCfg) (space : List Dist) (xs : List Rat)
    (h : xs.length ≠ totalWidth space) : untransform E c space xs = none := by
  induction space generalizing xs with
  | nil =>
    cases xs with
    | nil => simp [totalWidth] at h
    | cons x t => simp [untransform]
  | cons d ds ih =>
    rw [untransform_cons]
    split
    · rfl
    · rename_i hlt
      have : (xs.drop d.width).length ≠ totalWidth ds := by
        simp only [List.length_drop]; simp only [totalWidth] at h; omega
      rw [ih _ this]
      cases ucols E c d (xs.take d.width) <;> rfl

/-- the hand model's `untransform` = one column-wise un-scaling pass over all raw bounds, then decoding -/
theorem untransform_eq_decodeAll (E : Env) (c : TCfg) (space : List Dist) (xs : List Rat)
    (h : xs.length = totalWidth space) :
    untransform E c space xs =
      decodeAll E c space (if c.t01 then List.zipWith unscale01 (space.flatMap (boundsOf E c)) xs else xs) := by
  induction space generalizing xs with
  | nil =>
    cases xs with
    | nil => cases c.t01 <;> simp [untransform, decodeAll]
    | cons x t => simp [totalWidth] at h
  | cons d ds ih =>
    simp only [totalWidth] at h
    have hlen : (xs.drop d.width).length = totalWidth ds := by simp only [List.length_drop]; omega
    have hnlt : ¬ xs.length < d.width := by omega
    have hbl := boundsOf_length E c d
    have hfl := flatMap_boundsOf_length E c ds
    rw [untransform_cons, if_neg hnlt, ih _ hlen]
    cases ht : c.t01
    · simp only [decodeAll, if_neg hnlt, ucols, ht, Bool.false_eq_true, if_false]
    · simp only [if_true, List.flatMap_cons, decodeAll, ucols, ht]
      have h1 : (List.zipWith unscale01 (boundsOf E c d ++ ds.flatMap (boundsOf E c)) xs).length = xs.length := by
        simp [List.length_zipWith, hbl, hfl]; omega
      rw [if_neg (by rw [h1]; exact hnlt), List.take_zipWith, List.drop_zipWith,
        List.take_left' hbl, List.drop_left' hbl]

theorem gather_range (ys : List Rat) (off w : Nat) (h : off + w ≤ ys.length) :
    gather ys (List.range' off w) = some ((ys.drop off).take w) := by
  induction w generalizing off with
  | zero => simp [gather]
  | succ w ih =>
    have hlt : off < ys.length := by omega
    have := ih (off + 1) (by omega)
    rw [List.range'_succ, gather, List.getElem?_eq_getElem hlt, this, List.drop_eq_getElem_cons hlt, List.take_succ_cons]

/-- the column ranges tile `0 .. n_bounds - 1` in order, without gap or overlap -/
theorem colsOf_flatten (off : Nat) (space : List Dist) :
    (colsOf off space).flatten = List.range' off (totalWidth space) := by
  induction space generalizing off with
  | nil => simp [colsOf, totalWidth]
  | cons d ds ih => simp [colsOf, totalWidth, ih, List.range'_append]
example : (colsOf 0 [.cat [.none, .nan], .int .int 1 9 false 4, .cat [.none]]).flatten = [0, 1, 2, 3] := by decide

theorem backOf_colsOf_aux (space : List Dist) (off k i : Nat) (cols : List Nat)
    (h : (colsOf off space)[i]? = some cols) (j : Nat) (hj : j ∈ cols) :
    off ≤ j ∧ (backOf k space)[j - off]? = some (k + i) := by
  induction space generalizing off k i with
  | nil => simp [colsOf] at h
  | cons d ds ih =>
    cases i with
    | zero =>
      simp only [colsOf, List.getElem?_cons_zero, Option.some.injEq] at h
      subst h
      obtain ⟨h1, h2⟩ := List.mem_range'_1.mp hj
      refine ⟨h1, ?_⟩
      have hlt : j - off < (List.replicate d.width k).length := by simp; omega
      simp only [backOf, List.getElem?_append_left hlt, Nat.add_zero]
      rw [List.getElem?_eq_getElem hlt]; simp
    | succ i =>
      simp only [colsOf, List.getElem?_cons_succ] at h
      obtain ⟨h1, h2⟩ := ih (off + d.width) (k + 1) i h
      refine ⟨by omega, ?_⟩
      have hge : (List.replicate d.width k).length ≤ j - off := by simp; omega
      simp only [backOf, List.getElem?_append_right hge, List.length_replicate]
      have : j - off - d.width = j - (off + d.width) := by omega
      rw [this, h2]; congr 1; omega

/-- the back map inverts the column ranges: every column of the `i`-th parameter maps back to `i` -/
theorem backOf_colsOf (space : List Dist) (i : Nat) (cols : List Nat) (h : (colsOf 0 space)[i]? = some cols)
    (j : Nat) (hj : j ∈ cols) : (backOf 0 space)[j]? = some i := by
  have := (backOf_colsOf_aux space 0 0 i cols h j hj).2
  simpa using this
example : (colsOf 0 [.cat [.none, .nan], .int .int 1 9 false 4, .cat [.none]])[1]? = some [2] ∧
    (backOf 0 [.cat [.none, .nan], .int .int 1 9 false 4, .cat [.none]])[2]? = some 1 := by decide

end OptunaVerif.TransformIR
