import OptunaVerif.Model.TruncNormIR
import Mathlib.Analysis.SpecialFunctions.Log.Basic
import Mathlib.Analysis.SpecialFunctions.Exp
import Mathlib.Analysis.SpecialFunctions.Trigonometric.Basic
import Mathlib.Analysis.Calculus.Deriv.Basic
import Mathlib.Tactic.Linarith
import Mathlib.Tactic.Ring
import Mathlib.Tactic.FieldSimp
import Mathlib.Algebra.BigOperators.Field
/-!
# C18 — real-analysis layer of the TPE numerical kernels

`Float` is opaque to Lean's kernel, so the formulas of `optuna/samplers/_tpe/_truncnorm.py` and of
`_MixtureOfProductDistribution.log_pdf` are restated over `ℝ` here.  The standard normal cdf `Φ` and its
density `φ` are *parameters* constrained by the hypothesis bundle `StdNormalLike` (no axiom is added); the
bundle is shown to be satisfiable in `Props/C18.lean`.

Python name                      | here
---------------------------------|------------------------------------------
`np.log1p`                       | `log1p`
`np.logaddexp` / `_log_sum`      | `logaddexp`
`_log_diff`                      | `logDiff`
`_log_ndtr` (its specification)  | `fun a => Real.log (Φ a)`
`_ndtr`                          | `Φ`
`mass_case_left/right/central`   | `massLeft`, `massRight`, `massCentral`
`_log_gauss_mass`                | `logGaussMass`
`ppf_left`/`ppf_right` targets   | `ppfLeftTarget`, `ppfRightTarget`
`_norm_logpdf`                   | `normLogpdf`
-/
namespace OptunaVerif.TruncNorm
open Real

/-- The facts about the standard normal cdf `Φ` / density `φ` that the formulas rely on. -/
structure StdNormalLike (Φ φ : ℝ → ℝ) : Prop where
  strictMono : StrictMono Φ
  pos : ∀ x, 0 < Φ x
  lt_one : ∀ x, Φ x < 1
  symm : ∀ x, Φ (-x) = 1 - Φ x
  hasDeriv : ∀ x, HasDerivAt Φ (φ x) x

noncomputable section

/-- `np.log1p`. -/
def log1p (x : ℝ) : ℝ := Real.log (1 + x)

/-- `np.logaddexp` (`_log_sum`). -/
def logaddexp (x y : ℝ) : ℝ := Real.log (Real.exp x + Real.exp y)

/-- `_log_diff(log_p, log_q) = log_p + log1p(-exp(log_q - log_p))`. -/
def logDiff (lp lq : ℝ) : ℝ := lp + log1p (-Real.exp (lq - lp))

/-- `mass_case_left(a, b) = _log_diff(_log_ndtr(b), _log_ndtr(a))`. -/
def massLeft (Φ : ℝ → ℝ) (a b : ℝ) : ℝ := logDiff (Real.log (Φ b)) (Real.log (Φ a))

/-- `mass_case_right(a, b) = mass_case_left(-b, -a)`. -/
def massRight (Φ : ℝ → ℝ) (a b : ℝ) : ℝ := massLeft Φ (-b) (-a)

/-- `mass_case_central(a, b) = log1p(-_ndtr(a) - _ndtr(-b))`. -/
def massCentral (Φ : ℝ → ℝ) (a b : ℝ) : ℝ := log1p (-Φ a - Φ (-b))

/-- `_log_gauss_mass`: `case_left = b <= 0`, `case_right = a > 0`, central otherwise; the right case is
assigned after the left one, so it wins where both masks hold (only possible for `b < a`). -/
def logGaussMass (Φ : ℝ → ℝ) (a b : ℝ) : ℝ :=
  if 0 < a then massRight Φ a b else if b ≤ 0 then massLeft Φ a b else massCentral Φ a b

/-- `ppf_left`: the value handed to `_ndtri_exp`, i.e. the claimed `log Φ(x)`. -/
def ppfLeftTarget (Φ : ℝ → ℝ) (q a b : ℝ) : ℝ :=
  logaddexp (Real.log (Φ a)) (Real.log q + logGaussMass Φ a b)

/-- `ppf_right`: the value handed to `_ndtri_exp`, i.e. the claimed `log Φ(-x)`. -/
def ppfRightTarget (Φ : ℝ → ℝ) (q a b : ℝ) : ℝ :=
  logaddexp (Real.log (Φ (-b))) (log1p (-q) + logGaussMass Φ a b)

/-- `_norm_logpdf(x) = -(x**2) / 2.0 - log(sqrt(2 pi))`. -/
def normLogpdf (x : ℝ) : ℝ := -(x ^ 2) / 2 - Real.log (Real.sqrt (2 * Real.pi))

/-- The finite branch of `logpdf`: `_norm_logpdf(z) - _log_gauss_mass(a, b) - log(scale)`, `z = (x-loc)/scale`. -/
def logpdfIn (Φ : ℝ → ℝ) (x a b loc scale : ℝ) : ℝ :=
  normLogpdf ((x - loc) / scale) - logGaussMass Φ a b - Real.log scale

end

/-! ## `log1p`, `logaddexp`, `_log_diff` -/

theorem logDiff_arg_pos {lp lq : ℝ} (h : lq < lp) : 0 < 1 + -Real.exp (lq - lp) := by
  have h1 : Real.exp (lq - lp) < 1 := by
    rw [Real.exp_lt_one_iff]; linarith
  linarith

/-- `_log_diff(log p, log q) = log (p - q)` whenever `q < p`. -/
theorem logDiff_eq {lp lq : ℝ} (h : lq < lp) :
    logDiff lp lq = Real.log (Real.exp lp - Real.exp lq) := by
  unfold logDiff log1p
  have h2 := logDiff_arg_pos h
  have e : Real.exp lp - Real.exp lq = Real.exp lp * (1 + -Real.exp (lq - lp)) := by
    have : Real.exp lp * Real.exp (lq - lp) = Real.exp lq := by
      rw [← Real.exp_add]; congr 1; ring
    rw [mul_add, mul_neg, this]; ring
  rw [e, Real.log_mul (Real.exp_pos lp).ne' h2.ne', Real.log_exp]

theorem logDiff_log {p q : ℝ} (hq : 0 < q) (h : q < p) :
    logDiff (Real.log p) (Real.log q) = Real.log (p - q) := by
  have hp : 0 < p := lt_trans hq h
  rw [logDiff_eq (Real.log_lt_log hq h), Real.exp_log hp, Real.exp_log hq]

theorem logaddexp_log {p q : ℝ} (hp : 0 < p) (hq : 0 < q) :
    logaddexp (Real.log p) (Real.log q) = Real.log (p + q) := by
  unfold logaddexp
  rw [Real.exp_log hp, Real.exp_log hq]

theorem logaddexp_arg_pos (x y : ℝ) : 0 < Real.exp x + Real.exp y :=
  add_pos (Real.exp_pos x) (Real.exp_pos y)

/-- `log(1 - x)` is within `2 x²` of `-x` for `x ≤ 1/2` (the `a > 6` branch of `_log_ndtr_single`
returns `-_ndtr_single(-a)` instead of `log(1 - _ndtr_single(-a))`). -/
theorem log_one_sub_approx {x : ℝ} (h1 : x ≤ 1 / 2) :
    -x - 2 * x ^ 2 ≤ Real.log (1 - x) ∧ Real.log (1 - x) ≤ -x := by
  have hpos : 0 < 1 - x := by linarith
  constructor
  · have h2 := Real.one_sub_inv_le_log_of_pos hpos
    have h3 : (1 - x)⁻¹ ≤ 1 + x + 2 * x ^ 2 := by
      rw [inv_le_iff_one_le_mul₀ hpos]
      nlinarith [mul_nonneg (sq_nonneg x) (show (0:ℝ) ≤ 1 - 2 * x by linarith)]
    linarith
  · have := Real.log_le_sub_one_of_pos hpos
    linarith

/-! ## `_log_gauss_mass` -/

section mass
variable {Φ φ : ℝ → ℝ}

theorem massLeft_eq (h : StdNormalLike Φ φ) {a b : ℝ} (hab : a < b) :
    massLeft Φ a b = Real.log (Φ b - Φ a) := by
  unfold massLeft
  exact logDiff_log (h.pos a) (h.strictMono hab)

theorem massRight_eq (h : StdNormalLike Φ φ) {a b : ℝ} (hab : a < b) :
    massRight Φ a b = Real.log (Φ b - Φ a) := by
  unfold massRight
  rw [massLeft_eq h (neg_lt_neg hab), h.symm a, h.symm b]
  congr 1; ring

theorem massCentral_eq (h : StdNormalLike Φ φ) (a b : ℝ) :
    massCentral Φ a b = Real.log (Φ b - Φ a) := by
  unfold massCentral log1p
  rw [h.symm b]
  congr 1; ring

theorem mass_pos (h : StdNormalLike Φ φ) {a b : ℝ} (hab : a < b) : 0 < Φ b - Φ a :=
  sub_pos.mpr (h.strictMono hab)

theorem logGaussMass_eq (h : StdNormalLike Φ φ) {a b : ℝ} (hab : a < b) :
    logGaussMass Φ a b = Real.log (Φ b - Φ a) := by
  unfold logGaussMass
  split_ifs
  · exact massRight_eq h hab
  · exact massLeft_eq h hab
  · exact massCentral_eq h a b

end mass

/-! ## `ppf` -/

section ppf
variable {Φ φ : ℝ → ℝ}

theorem ppfLeftTarget_eq (h : StdNormalLike Φ φ) {q a b : ℝ} (hab : a < b) (hq : 0 < q) :
    ppfLeftTarget Φ q a b = Real.log (Φ a + q * (Φ b - Φ a)) := by
  unfold ppfLeftTarget
  have hM := mass_pos h hab
  rw [logGaussMass_eq h hab, ← Real.log_mul hq.ne' hM.ne',
    logaddexp_log (h.pos a) (mul_pos hq hM)]

theorem ppfRightTarget_eq (h : StdNormalLike Φ φ) {q a b : ℝ} (hab : a < b) (hq : q < 1) :
    ppfRightTarget Φ q a b = Real.log (Φ (-b) + (1 - q) * (Φ b - Φ a)) := by
  unfold ppfRightTarget log1p
  have hM := mass_pos h hab
  have hq' : 0 < 1 + -q := by linarith
  rw [logGaussMass_eq h hab, ← Real.log_mul hq'.ne' hM.ne',
    logaddexp_log (h.pos (-b)) (mul_pos hq' hM)]
  congr 2

theorem target_pos (h : StdNormalLike Φ φ) {q a b : ℝ} (hab : a < b) (hq : 0 ≤ q) :
    0 < Φ a + q * (Φ b - Φ a) :=
  add_pos_of_pos_of_nonneg (h.pos a) (mul_nonneg hq (mass_pos h hab).le)

/-- A point whose cdf value is the `q`-interpolation of the end values lies in the interval. -/
theorem quantile_mem (h : StdNormalLike Φ φ) {q a b x : ℝ} (hab : a < b) (hq0 : 0 ≤ q) (hq1 : q ≤ 1)
    (hx : Φ x = Φ a + q * (Φ b - Φ a)) : a ≤ x ∧ x ≤ b := by
  have hM := mass_pos h hab
  constructor
  · rw [← h.strictMono.le_iff_le, hx]
    nlinarith
  · rw [← h.strictMono.le_iff_le, hx]
    nlinarith

theorem quantile_mem_strict (h : StdNormalLike Φ φ) {q a b x : ℝ} (hab : a < b) (hq0 : 0 < q) (hq1 : q < 1)
    (hx : Φ x = Φ a + q * (Φ b - Φ a)) : a < x ∧ x < b := by
  have hM := mass_pos h hab
  constructor
  · rw [← h.strictMono.lt_iff_lt, hx]
    nlinarith
  · rw [← h.strictMono.lt_iff_lt, hx]
    nlinarith

theorem continuous_cdf (h : StdNormalLike Φ φ) : Continuous Φ :=
  continuous_iff_continuousAt.mpr fun x => (h.hasDeriv x).continuousAt

/-- The quantile exists (intermediate value theorem) and is unique (strict monotonicity). -/
theorem quantile_existsUnique (h : StdNormalLike Φ φ) {q a b : ℝ} (hab : a < b) (hq0 : 0 ≤ q) (hq1 : q ≤ 1) :
    ∃! x, Φ x = Φ a + q * (Φ b - Φ a) := by
  have hM := mass_pos h hab
  have hmem : Φ a + q * (Φ b - Φ a) ∈ Set.Icc (Φ a) (Φ b) := by
    constructor <;> nlinarith
  obtain ⟨x, _, hx⟩ := intermediate_value_Icc hab.le (continuous_cdf h).continuousOn hmem
  exact ⟨x, hx, fun y hy => h.strictMono.injective (hy.trans hx.symm)⟩

end ppf

/-! ## `logpdf` -/

section logpdf
variable {Φ φ : ℝ → ℝ}

/-- Inside the support the density is `exp(_norm_logpdf z) / (scale · (Φ b − Φ a))`. -/
theorem exp_logpdfIn (h : StdNormalLike Φ φ) {a b : ℝ} (hab : a < b) {scale : ℝ} (hs : 0 < scale) (x loc : ℝ) :
    Real.exp (logpdfIn Φ x a b loc scale) =
      Real.exp (normLogpdf ((x - loc) / scale)) / (scale * (Φ b - Φ a)) := by
  unfold logpdfIn
  have hM := mass_pos h hab
  rw [logGaussMass_eq h hab, Real.exp_sub, Real.exp_sub, Real.exp_log hM, Real.exp_log hs]
  field_simp

end logpdf

/-! ## log-sum-exp -/

/-- Shifting by any constant `c` (the code uses the row maximum) does not change `log Σ exp`. -/
theorem logsumexp_shift {ι : Type*} (s : Finset ι) (hs : s.Nonempty) (x : ι → ℝ) (c : ℝ) :
    Real.log (∑ i ∈ s, Real.exp (x i - c)) + c = Real.log (∑ i ∈ s, Real.exp (x i)) := by
  have hpos : 0 < ∑ i ∈ s, Real.exp (x i) := Finset.sum_pos (fun i _ => Real.exp_pos _) hs
  have e : ∑ i ∈ s, Real.exp (x i - c) = (∑ i ∈ s, Real.exp (x i)) * Real.exp (-c) := by
    rw [Finset.sum_mul]
    refine Finset.sum_congr rfl fun i _ => ?_
    rw [← Real.exp_add]; congr 1
  rw [e, Real.log_mul hpos.ne' (Real.exp_pos _).ne', Real.log_exp]
  ring

/-! ## discrete truncated normal: the cell masses -/

section discrete
variable {Φ φ : ℝ → ℝ}

/-- Any increasing chain of cut points: the normalised cell masses, computed as the code does
(`exp(log_gauss_mass(cell) - log_gauss_mass(whole))`), sum to one (telescoping). -/
theorem cell_masses_sum_to_one (h : StdNormalLike Φ φ) (u : ℕ → ℝ) (hu : StrictMono u) (n : ℕ) :
    ∑ k ∈ Finset.range (n + 1),
      Real.exp (logGaussMass Φ (u k) (u (k + 1)) - logGaussMass Φ (u 0) (u (n + 1))) = 1 := by
  have h0 : u 0 < u (n + 1) := hu (Nat.succ_pos n)
  have hM := mass_pos h h0
  have e : ∀ k, Real.exp (logGaussMass Φ (u k) (u (k + 1)) - logGaussMass Φ (u 0) (u (n + 1)))
      = (Φ (u (k + 1)) - Φ (u k)) / (Φ (u (n + 1)) - Φ (u 0)) := by
    intro k
    have hk : u k < u (k + 1) := hu (Nat.lt_succ_self k)
    rw [logGaussMass_eq h hk, logGaussMass_eq h h0, Real.exp_sub, Real.exp_log (mass_pos h hk), Real.exp_log hM]
  simp only [e]
  rw [← Finset.sum_div, Finset.sum_range_sub (fun k => Φ (u k)) (n + 1)]
  exact div_self hM.ne'

end discrete

/-! ## real-number meaning of the translated expressions -/

section ir
open OptunaVerif.TruncNormIR

/-- What the callees stand for when a translated formula is evaluated: `Φ` for `_ndtr`/`_ndtr_single`,
`log ∘ Φ` for `_log_ndtr`, the abstract `erf`/`erfc`, and `inv` for `_ndtri_exp`. -/
structure Interp where
  Φ : ℝ → ℝ
  erf : ℝ → ℝ
  erfc : ℝ → ℝ
  inv : ℝ → ℝ

noncomputable def fn1 (I : Interp) : Fn1 → ℝ → ℝ
  | .log => Real.log
  | .log1p => log1p
  | .exp => Real.exp
  | .sqrt => Real.sqrt
  | .erf => I.erf
  | .erfc => I.erfc
  | .ndtr => I.Φ
  | .ndtrSingle => I.Φ
  | .logNdtr => fun a => Real.log (I.Φ a)
  | .ndtriExp => I.inv
  | .normLogpdf => normLogpdf

noncomputable def fn2 (I : Interp) : Fn2 → ℝ → ℝ → ℝ
  | .logaddexp => logaddexp
  | .logSum => logaddexp
  | .logDiff => logDiff
  | .massLeft => massLeft I.Φ
  | .logGaussMass => logGaussMass I.Φ

noncomputable def eval (I : Interp) (env : String → ℝ) : E → ℝ
  | .var n => env n
  | .num q => (q : ℝ)
  | .pi => Real.pi
  | .neg e => -eval I env e
  | .add x y => eval I env x + eval I env y
  | .sub x y => eval I env x - eval I env y
  | .mul x y => eval I env x * eval I env y
  | .div x y => eval I env x / eval I env y
  | .sq e => eval I env e ^ 2
  | .call1 f x => fn1 I f (eval I env x)
  | .call2 f x y => fn2 I f (eval I env x) (eval I env y)

/-- The relations between `Φ`, `erf` and `erfc` that `_ndtr` and `_ndtr_single` rely on. -/
structure ErfLike (I : Interp) : Prop where
  erfc_eq : ∀ x, I.erfc x = 1 - I.erf x
  erf_neg : ∀ x, I.erf (-x) = -I.erf x
  ndtr_eq : ∀ a, I.Φ a = 1 / 2 + 1 / 2 * I.erf (a / Real.sqrt 2)

end ir

end OptunaVerif.TruncNorm
