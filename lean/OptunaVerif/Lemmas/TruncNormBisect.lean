import OptunaVerif.Model.TruncNormQ
import Mathlib.Data.Real.Basic
import Mathlib.Order.Monotone.Basic
import Mathlib.Tactic.Linarith
import Mathlib.Tactic.Ring
import Mathlib.Tactic.FieldSimp
import Mathlib.Tactic.Positivity
import Mathlib.Tactic.NormNum
/-!
# C18 — `_bisect`: bracket invariants of the executable model `TruncNormQ.bisectLoop` / `bracket`

The loop runs on rationals (every float is one); the function being inverted is real valued and enters only
through the oracle `below m ↔ f m < c`, exactly as in the code (`if f(m) < c`).
-/
namespace OptunaVerif.TruncNormQ

theorem bracket_same (below : Rat → Bool) (n : Nat) (a : Rat) : bracket below n a a = (a, a) := by
  induction n with
  | zero => rfl
  | succ n ih =>
    have h : (a + a) / 2 = a := by ring
    simp only [bracket, h, ih, ite_self]

/-- The value returned by the loop is the midpoint of the final bracket (the early exit `a == m or b == m`
fires over `ℚ` only when the bracket is a single point, where it returns that point). -/
theorem bisectLoop_eq_mid (below : Rat → Bool) (n : Nat) (a b : Rat) :
    bisectLoop below n a b = ((bracket below n a b).1 + (bracket below n a b).2) / 2 := by
  induction n generalizing a b with
  | zero => rfl
  | succ n ih =>
    simp only [bisectLoop, bracket]
    by_cases hexit : (a == (a + b) / 2 || b == (a + b) / 2) = true
    · have hab : a = b := by
        simp only [Bool.or_eq_true, beq_iff_eq] at hexit
        rcases hexit with h | h <;> linarith
      subst hab
      have h : (a + a) / 2 = a := by ring
      simp only [h, bracket_same, ite_self, beq_self_eq_true, Bool.or_self, if_true]
    · simp only [hexit, Bool.false_eq_true, if_false]
      split <;> exact ih _ _

/-- Width of the bracket after `n` rounds. -/
theorem bracket_width (below : Rat → Bool) (n : Nat) (a b : Rat) :
    (bracket below n a b).2 - (bracket below n a b).1 = (b - a) / 2 ^ n := by
  induction n generalizing a b with
  | zero => simp [bracket]
  | succ n ih =>
    simp only [bracket]
    split
    · rw [ih]; field_simp; ring
    · rw [ih]; field_simp; ring

/-- For *any* function: the loop keeps `f lo ≤ c ≤ f hi` (no monotonicity needed). -/
theorem bracket_sandwich (f : ℚ → ℝ) (c : ℝ) (below : Rat → Bool) (hb : ∀ m, below m = true ↔ f m < c)
    (n : Nat) (a b : Rat) (ha : f a ≤ c) (hbc : c ≤ f b) :
    f (bracket below n a b).1 ≤ c ∧ c ≤ f (bracket below n a b).2 := by
  induction n generalizing a b with
  | zero => exact ⟨ha, hbc⟩
  | succ n ih =>
    simp only [bracket]
    split
    · rename_i h
      exact ih _ _ (le_of_lt ((hb _).mp h)) hbc
    · rename_i h
      have : ¬ f ((a + b) / 2) < c := fun hlt => h ((hb _).mpr hlt)
      exact ih _ _ ha (not_lt.mp this)

/-- Increasing case (no swap): the root stays inside the bracket. -/
theorem bracket_contains_root_mono (f : ℝ → ℝ) (hf : StrictMono f) (c xs : ℝ) (hx : f xs = c)
    (below : Rat → Bool) (hb : ∀ m : ℚ, below m = true ↔ f m < c)
    (n : Nat) (a b : Rat) (ha : (a : ℝ) ≤ xs) (hbx : xs ≤ (b : ℝ)) :
    ((bracket below n a b).1 : ℝ) ≤ xs ∧ xs ≤ ((bracket below n a b).2 : ℝ) := by
  have h := bracket_sandwich (fun q => f q) c below hb n a b
    (by rw [← hx]; exact hf.monotone ha) (by rw [← hx]; exact hf.monotone hbx)
  rw [← hx] at h
  exact ⟨hf.le_iff_le.mp h.1, hf.le_iff_le.mp h.2⟩

/-- Decreasing case (the code has swapped the ends because `f(a) > c`): the root stays inside the
(reversed) bracket. -/
theorem bracket_contains_root_anti (f : ℝ → ℝ) (hf : StrictAnti f) (c xs : ℝ) (hx : f xs = c)
    (below : Rat → Bool) (hb : ∀ m : ℚ, below m = true ↔ f m < c)
    (n : Nat) (a b : Rat) (ha : xs ≤ (a : ℝ)) (hbx : (b : ℝ) ≤ xs) :
    ((bracket below n a b).2 : ℝ) ≤ xs ∧ xs ≤ ((bracket below n a b).1 : ℝ) := by
  have h := bracket_sandwich (fun q => f q) c below hb n a b
    (by rw [← hx]; exact hf.antitone ha) (by rw [← hx]; exact hf.antitone hbx)
  rw [← hx] at h
  exact ⟨hf.le_iff_ge.mp h.2, hf.le_iff_ge.mp h.1⟩

/-- Error of the returned midpoint in the increasing case. -/
theorem bisectLoop_error_mono (f : ℝ → ℝ) (hf : StrictMono f) (c xs : ℝ) (hx : f xs = c)
    (below : Rat → Bool) (hb : ∀ m : ℚ, below m = true ↔ f m < c)
    (n : Nat) (a b : Rat) (ha : (a : ℝ) ≤ xs) (hbx : xs ≤ (b : ℝ)) :
    |((bisectLoop below n a b : ℚ) : ℝ) - xs| ≤ ((b : ℝ) - a) / 2 ^ (n + 1) := by
  have hr := bracket_contains_root_mono f hf c xs hx below hb n a b ha hbx
  have hw : (((bracket below n a b).2 : ℚ) : ℝ) - ((bracket below n a b).1 : ℝ) = ((b : ℝ) - a) / 2 ^ n := by
    have := congrArg (fun q : ℚ => (q : ℝ)) (bracket_width below n a b)
    simpa using this
  rw [bisectLoop_eq_mid]
  push_cast
  have e : ((b : ℝ) - a) / 2 ^ (n + 1) = (((b : ℝ) - a) / 2 ^ n) / 2 := by
    rw [pow_succ]; field_simp
  rw [e, ← hw, abs_le]
  constructor <;> linarith [hr.1, hr.2]

/-- If the target lies *below* the bracket of an increasing function (`c < f a`, `a ≤ b`), the orientation
test `f(a) > c` swaps the ends and every later test `f(m) < c` fails: the loop walks to the *far* end `b`.
This is what makes `ppf` return `∓100` when the true quantile lies beyond `±100` (reported finding). -/
theorem bracket_target_below (f : ℝ → ℝ) (hf : Monotone f) (c : ℝ)
    (below : Rat → Bool) (hb : ∀ m : ℚ, below m = true ↔ f m < c)
    (n : Nat) (a b : Rat) (hab : a ≤ b) (hc : c < f a) :
    ∀ lo : Rat, a ≤ lo → lo ≤ b → bracket below n b lo = (b, b - (b - lo) / 2 ^ n) := by
  induction n with
  | zero => intro lo _ _; simp [bracket]
  | succ n ih =>
    intro lo h1 h2
    have hm1 : a ≤ (b + lo) / 2 := by linarith
    have hm2 : (b + lo) / 2 ≤ b := by linarith
    have hnb : below ((b + lo) / 2) = false := by
      cases hbm : below ((b + lo) / 2) with
      | false => rfl
      | true =>
        have := (hb _).mp hbm
        have h3 : f a ≤ f (((b + lo) / 2 : ℚ) : ℝ) := hf (by exact_mod_cast hm1)
        linarith
    simp only [bracket, hnb, Bool.false_eq_true, if_false]
    rw [ih _ hm1 hm2]
    congr 1
    field_simp
    ring

end OptunaVerif.TruncNormQ
