import OptunaVerif.Lemmas.TruncNormGaussian
/-!
# C18 — the error function and the identity `_ndtr(a) = 0.5 + 0.5 * erf(a / 2**0.5)` for the genuine standard normal

Mathlib (4.33) has no `erf`; it is defined here by its integral, `erf x = 2/√π ∫₀ˣ exp(-t²) dt`, `erfc = 1 - erf`.
`gaussCdf_eq_erf` is the change of variables `t = √2 s` in `gaussCdf a = 1/2 + ∫₀ᵃ exp(-t²/2)/√(2π) dt`.  Together with
oddness this is what the hypothesis bundle `ErfLike` of `Lemmas/TruncNorm.lean` asks for (`Props/C18Inst.lean`).
-/
namespace OptunaVerif.TruncNorm
open Real MeasureTheory

/-- `math.erf` / `_erf.erf` in the real-number model -/
noncomputable def erfR (x : ℝ) : ℝ := 2 / Real.sqrt Real.pi * ∫ t in (0 : ℝ)..x, Real.exp (-(t ^ 2))

/-- `math.erfc` -/
noncomputable def erfcR (x : ℝ) : ℝ := 1 - erfR x

theorem erfR_zero : erfR 0 = 0 := by simp [erfR]

theorem erfR_neg (x : ℝ) : erfR (-x) = -erfR x := by
  unfold erfR
  have h : ∫ t in (0 : ℝ)..(-x), Real.exp (-(t ^ 2)) = -∫ t in (0 : ℝ)..x, Real.exp (-(t ^ 2)) := by
    have h := intervalIntegral.integral_comp_neg (a := x) (b := 0) (fun t : ℝ => Real.exp (-(t ^ 2)))
    simp only [neg_zero, neg_sq] at h
    rw [← h, intervalIntegral.integral_symm]
  rw [h]; ring

theorem sqrt_two_pi_eq : Real.sqrt (2 * Real.pi) = Real.sqrt 2 * Real.sqrt Real.pi :=
  Real.sqrt_mul (by norm_num) Real.pi

/-- **`Φ(a) = 1/2 + 1/2 · erf(a/√2)`** for the standard normal cdf -/
theorem gaussCdf_eq_erf (a : ℝ) : gaussCdf a = 1 / 2 + 1 / 2 * erfR (a / Real.sqrt 2) := by
  have h2 : Real.sqrt 2 ≠ 0 := (Real.sqrt_pos.mpr (by norm_num)).ne'
  have hpi : Real.sqrt Real.pi ≠ 0 := (Real.sqrt_pos.mpr Real.pi_pos).ne'
  have e : ∀ t : ℝ, gaussPdf t = (Real.sqrt (2 * Real.pi))⁻¹ * (fun s : ℝ => Real.exp (-(s ^ 2))) (t / Real.sqrt 2) := by
    intro t
    rw [gaussPdf_eq]
    have : (t / Real.sqrt 2) ^ 2 = 1 / 2 * t ^ 2 := by
      rw [div_pow, Real.sq_sqrt (by norm_num : (0 : ℝ) ≤ 2)]; ring
    simp only [this]
    rw [div_eq_inv_mul]
    congr 2; ring
  unfold gaussCdf erfR
  simp_rw [e]
  have hcv := intervalIntegral.integral_comp_div (a := 0) (b := a) (fun s : ℝ => Real.exp (-(s ^ 2))) h2
  simp only [zero_div, smul_eq_mul] at hcv
  rw [intervalIntegral.integral_const_mul, hcv, sqrt_two_pi_eq]
  field_simp

theorem erfR_eq_gaussCdf (x : ℝ) : erfR x = 2 * gaussCdf (x * Real.sqrt 2) - 1 := by
  have h2 : Real.sqrt 2 ≠ 0 := (Real.sqrt_pos.mpr (by norm_num)).ne'
  rw [gaussCdf_eq_erf, mul_div_cancel_right₀ _ h2]; ring

/-- `-1 < erf < 1`, `0 < erfc < 2` -/
theorem erfR_range (x : ℝ) : -1 < erfR x ∧ erfR x < 1 ∧ 0 < erfcR x ∧ erfcR x < 2 := by
  have h1 := gaussCdf_pos (x * Real.sqrt 2)
  have h2 := gaussCdf_lt_one (x * Real.sqrt 2)
  unfold erfcR
  rw [erfR_eq_gaussCdf]
  refine ⟨by linarith, by linarith, by linarith, by linarith⟩

theorem erfR_strictMono : StrictMono erfR := by
  intro x y hxy
  rw [erfR_eq_gaussCdf, erfR_eq_gaussCdf]
  have h2 : 0 < Real.sqrt 2 := Real.sqrt_pos.mpr (by norm_num)
  have := gaussCdf_strictMono (mul_lt_mul_of_pos_right hxy h2)
  linarith

/-- the density is at most `1`: `gaussCdf` is 1-Lipschitz -/
theorem gaussPdf_le_one (x : ℝ) : gaussPdf x ≤ 1 := by
  unfold gaussPdf
  rw [Real.exp_le_one_iff]
  unfold normLogpdf
  have h1 : (1 : ℝ) ≤ Real.sqrt (2 * Real.pi) := by
    rw [Real.one_le_sqrt]; nlinarith [Real.two_le_pi]
  have h2 : 0 ≤ Real.log (Real.sqrt (2 * Real.pi)) := Real.log_nonneg h1
  nlinarith [sq_nonneg x]

theorem gaussCdf_lipschitz (x y : ℝ) : |gaussCdf x - gaussCdf y| ≤ |x - y| := by
  have := Convex.norm_image_sub_le_of_norm_deriv_le (f := gaussCdf) (s := Set.univ) (C := 1)
    (fun z _ => (gaussCdf_hasDerivAt z).differentiableAt)
    (fun z _ => by
      rw [(gaussCdf_hasDerivAt z).deriv, Real.norm_eq_abs, abs_of_pos (gaussPdf_pos z)]; exact gaussPdf_le_one z)
    convex_univ (Set.mem_univ y) (Set.mem_univ x)
  simpa [Real.norm_eq_abs] using this

end OptunaVerif.TruncNorm
