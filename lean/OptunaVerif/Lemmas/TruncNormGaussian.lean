import OptunaVerif.Lemmas.TruncNormIntegral
import Mathlib.Analysis.SpecialFunctions.Gaussian.GaussianIntegral
import Mathlib.Analysis.Calculus.Deriv.MeanValue
/-!
# C18 — the genuine standard normal satisfies the hypothesis bundle

`gaussPdf x = exp(_norm_logpdf x) = exp(-x²/2)/√(2π)` and `gaussCdf x = 1/2 + ∫₀ˣ gaussPdf` satisfy
`StdNormalLike` (uses the Gaussian integral `∫₀^∞ exp(-x²/2) = √(2π)/2` from Mathlib).  Hence every theorem of
`Props/C18.lean` that assumes the bundle — including the ones that also assume `φ = exp ∘ _norm_logpdf` —
applies to the distribution the code is about.
-/
namespace OptunaVerif.TruncNorm
open Real MeasureTheory

noncomputable def gaussPdf (x : ℝ) : ℝ := Real.exp (normLogpdf x)

noncomputable def gaussCdf (x : ℝ) : ℝ := 1 / 2 + ∫ t in (0 : ℝ)..x, gaussPdf t

theorem sqrt_two_pi_pos : 0 < Real.sqrt (2 * Real.pi) := Real.sqrt_pos.mpr (by positivity)

theorem gaussPdf_eq (x : ℝ) : gaussPdf x = Real.exp (-(1 / 2) * x ^ 2) / Real.sqrt (2 * Real.pi) := by
  unfold gaussPdf normLogpdf
  rw [Real.exp_sub, Real.exp_log sqrt_two_pi_pos]
  congr 2; ring

theorem gaussPdf_pos (x : ℝ) : 0 < gaussPdf x := Real.exp_pos _

theorem gaussPdf_neg (x : ℝ) : gaussPdf (-x) = gaussPdf x := by
  simp [gaussPdf, normLogpdf]

theorem continuous_gaussPdf : Continuous gaussPdf := by
  unfold gaussPdf
  exact Real.continuous_exp.comp continuous_normLogpdf

theorem gaussCdf_hasDerivAt (x : ℝ) : HasDerivAt gaussCdf (gaussPdf x) x := by
  have hc := continuous_gaussPdf
  exact (intervalIntegral.integral_hasDerivAt_right (hc.intervalIntegrable _ _)
    (hc.stronglyMeasurableAtFilter _ _) hc.continuousAt).const_add (1 / 2)

theorem gaussCdf_neg (x : ℝ) : gaussCdf (-x) = 1 - gaussCdf x := by
  unfold gaussCdf
  have h : ∫ t in (0 : ℝ)..(-x), gaussPdf t = -∫ t in (0 : ℝ)..x, gaussPdf t := by
    have h := intervalIntegral.integral_comp_neg (a := x) (b := 0) gaussPdf
    simp only [neg_zero, gaussPdf_neg] at h
    rw [← h, intervalIntegral.integral_symm]
  rw [h]; ring

theorem gaussCdf_strictMono : StrictMono gaussCdf :=
  strictMono_of_deriv_pos fun x => by
    rw [(gaussCdf_hasDerivAt x).deriv]; exact gaussPdf_pos x

theorem integrable_gaussPdf : Integrable gaussPdf := by
  have h := (integrable_exp_neg_mul_sq (b := 1 / 2) (by norm_num)).div_const (Real.sqrt (2 * Real.pi))
  refine h.congr (Filter.Eventually.of_forall fun x => ?_)
  simp only [gaussPdf_eq]

theorem integral_Ioi_gaussPdf : ∫ t in Set.Ioi (0 : ℝ), gaussPdf t = 1 / 2 := by
  have e : (fun t => gaussPdf t) = fun t => Real.exp (-(1 / 2) * t ^ 2) / Real.sqrt (2 * Real.pi) :=
    funext gaussPdf_eq
  rw [e, integral_div, integral_gaussian_Ioi]
  have : Real.pi / (1 / 2) = 2 * Real.pi := by ring
  rw [this]
  field_simp

theorem half_integral_le (y : ℝ) (hy : 0 ≤ y) : ∫ t in (0 : ℝ)..y, gaussPdf t ≤ 1 / 2 := by
  rw [intervalIntegral.integral_of_le hy, ← integral_Ioi_gaussPdf]
  refine setIntegral_mono_set integrable_gaussPdf.integrableOn ?_ ?_
  · exact Filter.Eventually.of_forall fun x => (gaussPdf_pos x).le
  · exact Filter.Eventually.of_forall fun x hx => Set.mem_Ioi.mpr hx.1

theorem gaussCdf_lt_one (x : ℝ) : gaussCdf x < 1 := by
  have h1 : gaussCdf x < gaussCdf (|x| + 1) := gaussCdf_strictMono (by linarith [le_abs_self x])
  have h2 : gaussCdf (|x| + 1) ≤ 1 := by
    unfold gaussCdf
    have := half_integral_le (|x| + 1) (by positivity)
    linarith
  linarith

theorem gaussCdf_pos (x : ℝ) : 0 < gaussCdf x := by
  have := gaussCdf_lt_one (-x)
  rw [gaussCdf_neg] at this
  linarith

/-- The standard normal cdf/density pair satisfies every hypothesis the C18 theorems use. -/
theorem gauss_stdNormalLike : StdNormalLike gaussCdf gaussPdf where
  strictMono := gaussCdf_strictMono
  pos := gaussCdf_pos
  lt_one := gaussCdf_lt_one
  symm := gaussCdf_neg
  hasDeriv := gaussCdf_hasDerivAt

end OptunaVerif.TruncNorm
