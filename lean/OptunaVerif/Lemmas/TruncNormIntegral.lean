import OptunaVerif.Lemmas.TruncNorm
import Mathlib.MeasureTheory.Integral.IntervalIntegral.FundThmCalculus
import Mathlib.Analysis.SpecialFunctions.Sigmoid
/-!
# C18 — the truncated density integrates to one (fundamental theorem of calculus), and a first witness that
the hypothesis bundle `StdNormalLike` is satisfiable (the logistic cdf).
-/
namespace OptunaVerif.TruncNorm
open Real

section ftc
variable {Φ φ : ℝ → ℝ}

/-- The truncated cdf `x ↦ (Φ(z) − Φ(a)) / (Φ(b) − Φ(a))`, `z = (x − loc)/scale`, has the density
`φ(z) / scale / (Φ(b) − Φ(a))` as its derivative. -/
theorem truncCdf_hasDerivAt (h : StdNormalLike Φ φ) (a b loc scale x : ℝ) :
    HasDerivAt (fun x => (Φ ((x - loc) / scale) - Φ a) / (Φ b - Φ a))
      (φ ((x - loc) / scale) / scale / (Φ b - Φ a)) x := by
  have hz : HasDerivAt (fun x : ℝ => (x - loc) / scale) (1 / scale) x :=
    ((hasDerivAt_id x).sub_const loc).div_const scale
  have hc := (h.hasDeriv ((x - loc) / scale)).comp x hz
  have := (hc.sub_const (Φ a)).div_const (Φ b - Φ a)
  exact this.congr_deriv (by ring)

theorem continuous_normLogpdf : Continuous normLogpdf := by
  unfold normLogpdf
  fun_prop

/-- `∫ exp(logpdf)` over the truncation interval `[loc + a·scale, loc + b·scale]` is `1`. The density `φ` is
tied to the code's `_norm_logpdf` by `hφ`. -/
theorem integral_exp_logpdfIn (h : StdNormalLike Φ φ) (hφ : ∀ z, φ z = Real.exp (normLogpdf z))
    {a b : ℝ} (hab : a < b) (loc : ℝ) {scale : ℝ} (hs : 0 < scale) :
    ∫ x in (loc + a * scale)..(loc + b * scale), Real.exp (logpdfIn Φ x a b loc scale) = 1 := by
  have hM := mass_pos h hab
  have hd : ∀ x ∈ Set.uIcc (loc + a * scale) (loc + b * scale),
      HasDerivAt (fun x => (Φ ((x - loc) / scale) - Φ a) / (Φ b - Φ a))
        (Real.exp (logpdfIn Φ x a b loc scale)) x := by
    intro x _
    have := truncCdf_hasDerivAt h a b loc scale x
    convert this using 1
    rw [exp_logpdfIn h hab hs, hφ]
    field_simp
  have hcont : Continuous fun x => Real.exp (logpdfIn Φ x a b loc scale) := by
    unfold logpdfIn
    have := continuous_normLogpdf
    fun_prop
  rw [intervalIntegral.integral_eq_sub_of_hasDerivAt hd (hcont.intervalIntegrable _ _)]
  have e1 : (loc + b * scale - loc) / scale = b := by field_simp; ring
  have e2 : (loc + a * scale - loc) / scale = a := by field_simp; ring
  rw [e1, e2, sub_self, zero_div, sub_zero, div_self hM.ne']

end ftc

/-- The hypothesis bundle is satisfiable: the logistic cdf has every property listed in `StdNormalLike`
(so the theorems that use only the bundle hold for any symmetric, strictly increasing, differentiable cdf). -/
theorem logistic_stdNormalLike :
    StdNormalLike Real.sigmoid (fun x => Real.sigmoid x * (1 - Real.sigmoid x)) where
  strictMono := Real.sigmoid_strictMono
  pos := Real.sigmoid_pos
  lt_one := Real.sigmoid_lt_one
  symm := Real.sigmoid_neg
  hasDeriv := Real.hasDerivAt_sigmoid

end OptunaVerif.TruncNorm
