import OptunaVerif.Lemmas.TruncNorm
/-!
# C18 — `_MixtureOfProductDistribution.log_pdf`: the log-sum-exp tail with its `-inf` guard

The only place of the kernels where a NaN can be *manufactured* from non-NaN inputs is
`weighted_log_pdf - max_` when a whole row is `-inf`.  To be able to state that, the values here are a small
IEEE-like type (`-inf`, finite real, `+inf`, `nan`) with the float rules for `-`, `+`, `exp`, `log`, `max`.
-/
namespace OptunaVerif.TruncNorm

inductive FVal where
  | ninf | fin (r : ℝ) | pinf | nan

namespace FVal

def sub : FVal → FVal → FVal
  | nan, _ => nan
  | _, nan => nan
  | ninf, ninf => nan
  | pinf, pinf => nan
  | ninf, _ => ninf
  | pinf, _ => pinf
  | fin _, ninf => pinf
  | fin _, pinf => ninf
  | fin a, fin b => fin (a - b)

def add : FVal → FVal → FVal
  | nan, _ => nan
  | _, nan => nan
  | ninf, pinf => nan
  | pinf, ninf => nan
  | ninf, _ => ninf
  | pinf, _ => pinf
  | fin _, ninf => ninf
  | fin _, pinf => pinf
  | fin a, fin b => fin (a + b)

noncomputable def exp : FVal → FVal
  | nan => nan
  | ninf => fin 0
  | pinf => pinf
  | fin r => fin (Real.exp r)

open Classical in
/-- `np.log` with `divide="ignore"`: `log 0 = -inf`, `log` of a negative number is NaN. -/
noncomputable def log : FVal → FVal
  | nan => nan
  | ninf => nan
  | pinf => pinf
  | fin r => if r = 0 then ninf else if r < 0 then nan else fin (Real.log r)

open Classical in
/-- `max` as `ndarray.max` computes it (NaN propagates). -/
noncomputable def max : FVal → FVal → FVal
  | nan, _ => nan
  | _, nan => nan
  | pinf, _ => pinf
  | _, pinf => pinf
  | ninf, y => y
  | x, ninf => x
  | fin a, fin b => fin (if a ≤ b then b else a)

def isNinf : FVal → Bool
  | ninf => true
  | _ => false

def isNan : FVal → Bool
  | nan => true
  | _ => false

end FVal

/-- `-inf` or a finite value: what `weighted_log_pdf` contains for valid arguments. -/
def ofOpt : Option ℝ → FVal
  | none => .ninf
  | some r => .fin r

noncomputable def sumL (l : List FVal) : FVal := l.foldr FVal.add (.fin 0)
noncomputable def maxL (l : List FVal) : FVal := l.foldr FVal.max .ninf

/-- The tail of `log_pdf` for one row `w = weighted_log_pdf[i, :]`:
`max_ = w.max(); [max_ = 0 if max_ == -inf]; log(sum(exp(w - max_))) + max_`. -/
noncomputable def mixLogPdf (guard : Bool) (w : List FVal) : FVal :=
  let m := maxL w
  let m' := if guard && m.isNinf then FVal.fin 0 else m
  FVal.add (FVal.log (sumL (w.map fun x => FVal.exp (FVal.sub x m')))) m'

/-- `exp` with `exp(-inf) = 0`. -/
noncomputable def expO : Option ℝ → ℝ
  | none => 0
  | some r => Real.exp r

theorem expO_nonneg (o : Option ℝ) : 0 ≤ expO o := by
  cases o with
  | none => exact le_refl _
  | some r => exact (Real.exp_pos r).le

theorem maxL_ofOpt (w : List (Option ℝ)) :
    ∃ o : Option ℝ, maxL (w.map ofOpt) = ofOpt o ∧ (o = none ↔ ∀ x ∈ w, x = none) := by
  induction w with
  | nil => exact ⟨none, rfl, by simp⟩
  | cons x t ih =>
    obtain ⟨o, ho, hiff⟩ := ih
    cases x with
    | none =>
      refine ⟨o, ?_, ?_⟩
      · simp only [List.map_cons, maxL, List.foldr_cons, ofOpt] at *
        rw [ho]; cases o <;> rfl
      · simp [hiff]
    | some r =>
      cases o with
      | none =>
        refine ⟨some r, ?_, by simp⟩
        simp only [List.map_cons, maxL, List.foldr_cons, ofOpt] at *
        rw [ho]; rfl
      | some r' =>
        refine ⟨some (if r ≤ r' then r' else r), ?_, by simp⟩
        simp only [List.map_cons, maxL, List.foldr_cons, ofOpt] at *
        rw [ho]; rfl

theorem sumL_shift (w : List (Option ℝ)) (s : ℝ) :
    sumL ((w.map ofOpt).map fun x => FVal.exp (FVal.sub x (.fin s)))
      = .fin ((w.map expO).sum * Real.exp (-s)) := by
  induction w with
  | nil => simp [sumL]
  | cons x t ih =>
    simp only [List.map_cons, sumL, List.foldr_cons, List.sum_cons] at *
    rw [ih]
    cases x with
    | none => simp [ofOpt, FVal.sub, FVal.exp, FVal.add, expO]
    | some r =>
      simp only [ofOpt, FVal.sub, FVal.exp, FVal.add, expO]
      congr 1
      rw [add_mul, sub_eq_add_neg, Real.exp_add]

theorem sum_expO_zero_of_all_none (w : List (Option ℝ)) (h : ∀ x ∈ w, x = none) : (w.map expO).sum = 0 := by
  induction w with
  | nil => rfl
  | cons x t ih =>
    have hx : x = none := h x (List.mem_cons_self)
    subst hx
    simp only [List.map_cons, List.sum_cons, expO, zero_add]
    exact ih fun y hy => h y (List.mem_cons_of_mem _ hy)

theorem sum_expO_pos (w : List (Option ℝ)) (h : ¬ ∀ x ∈ w, x = none) : 0 < (w.map expO).sum := by
  induction w with
  | nil => exact absurd (by simp) h
  | cons x t ih =>
    simp only [List.map_cons, List.sum_cons]
    have ht : 0 ≤ (t.map expO).sum := List.sum_nonneg (by
      intro y hy
      obtain ⟨o, _, rfl⟩ := List.mem_map.mp hy
      exact expO_nonneg o)
    cases x with
    | some r => exact add_pos_of_pos_of_nonneg (Real.exp_pos r) ht
    | none =>
      have : ¬ ∀ y ∈ t, y = none := by
        intro hall
        apply h
        intro y hy
        rcases List.mem_cons.mp hy with rfl | hy
        · rfl
        · exact hall y hy
      simpa [expO] using ih this

/-- With the guard, the row result is `-inf` when every component is `-inf`, and otherwise the exact
`log Σ exp` of the finite components — in particular never NaN. -/
theorem mixLogPdf_guarded (w : List (Option ℝ)) :
    mixLogPdf true (w.map ofOpt) =
      if (∀ x ∈ w, x = none) then FVal.ninf else FVal.fin (Real.log (w.map expO).sum) := by
  obtain ⟨o, ho, hiff⟩ := maxL_ofOpt w
  unfold mixLogPdf
  simp only [ho, Bool.true_and]
  cases o with
  | none =>
    have hall := hiff.mp rfl
    rw [if_pos hall]
    simp only [ofOpt, FVal.isNinf, if_true]
    rw [sumL_shift, sum_expO_zero_of_all_none w hall]
    simp [FVal.log, FVal.add]
  | some M =>
    have hnot : ¬ ∀ x ∈ w, x = none := fun hall => by simpa using hiff.mpr hall
    rw [if_neg hnot]
    simp only [ofOpt, FVal.isNinf, Bool.false_eq_true, if_false]
    rw [sumL_shift]
    have hpos := sum_expO_pos w hnot
    have hprod : 0 < (w.map expO).sum * Real.exp (-M) := mul_pos hpos (Real.exp_pos _)
    simp only [FVal.log, hprod.ne', not_lt.mpr hprod.le, if_false, FVal.add]
    congr 1
    rw [Real.log_mul hpos.ne' (Real.exp_pos _).ne', Real.log_exp]
    ring

/-- Without the guard a row of `-inf` produces NaN (`(-inf) - (-inf)`). -/
theorem mixLogPdf_unguarded_nan : mixLogPdf false [FVal.ninf] = FVal.nan := by
  simp [mixLogPdf, maxL, FVal.max, FVal.isNinf, FVal.sub, FVal.exp, sumL, FVal.add, FVal.log]

end OptunaVerif.TruncNorm
