import OptunaVerif.Lemmas.TruncNormErf
import Mathlib.MeasureTheory.Integral.IntegralEqImproper
/-!
# C18 — a tail bound for the standard normal cdf: `Φ(-x) ≤ exp(-x²/2)` for `x ≥ 1`

Used to show that for the standard normal the quantity `Φ(-100)` of `C18Inst.ppf_in_interval_bisect_tpe_partial` is below
`2⁻⁵⁰⁰⁰`, hence below every positive double and every `1 − q` of a double `q < 1`.
Proof: `Φ(-x) = ∫_{t > x} φ(t) dt ≤ ∫_{t > x} t·exp(-t²/2) dt = exp(-x²/2)` (`φ ≤ exp(-t²/2)` and `t ≥ 1`).
-/
namespace OptunaVerif.TruncNorm
open Real MeasureTheory Set Filter

theorem gaussPdf_le_kernel (t : ℝ) : gaussPdf t ≤ Real.exp (-(1 / 2) * t ^ 2) := by
  rw [gaussPdf_eq]
  have h1 : (1 : ℝ) ≤ Real.sqrt (2 * Real.pi) := by
    rw [Real.one_le_sqrt]; nlinarith [Real.two_le_pi]
  exact div_le_self (Real.exp_pos _).le h1

theorem hasDerivAt_neg_kernel (t : ℝ) :
    HasDerivAt (fun s : ℝ => -Real.exp (-(1 / 2) * s ^ 2)) (t * Real.exp (-(1 / 2) * t ^ 2)) t := by
  have h1 : HasDerivAt (fun s : ℝ => -(1 / 2) * s ^ 2) (-(1 / 2) * (2 * t)) t := by
    have := (hasDerivAt_pow 2 t).const_mul (-(1 / 2) : ℝ)
    simpa using this
  exact h1.exp.neg.congr_deriv (by ring)

theorem tendsto_neg_kernel : Tendsto (fun s : ℝ => -Real.exp (-(1 / 2) * s ^ 2)) atTop (nhds 0) := by
  have h1 : Tendsto (fun s : ℝ => -(1 / 2) * s ^ 2) atTop atBot :=
    (tendsto_pow_atTop (two_ne_zero)).const_mul_atTop_of_neg (by norm_num)
  have h2 := (Real.tendsto_exp_atBot.comp h1).neg
  simpa using h2

/-- `∫_{t > x} t·exp(-t²/2) dt = exp(-x²/2)` -/
theorem integral_Ioi_mul_kernel (x : ℝ) :
    ∫ t in Ioi x, t * Real.exp (-(1 / 2) * t ^ 2) = Real.exp (-(1 / 2) * x ^ 2) := by
  have := integral_Ioi_of_hasDerivAt_of_tendsto' (a := x) (fun t _ => hasDerivAt_neg_kernel t)
    (integrable_mul_exp_neg_mul_sq (b := 1 / 2) (by norm_num)).integrableOn tendsto_neg_kernel
  rw [this]; ring

/-- the upper tail as an improper integral: `Φ(-x) = ∫_{t > x} φ` for `x ≥ 0` -/
theorem gaussCdf_neg_eq_integral_Ioi (x : ℝ) (hx : 0 ≤ x) : gaussCdf (-x) = ∫ t in Ioi x, gaussPdf t := by
  have hsplit : ∫ t in Ioi (0 : ℝ), gaussPdf t = (∫ t in Ioc 0 x, gaussPdf t) + ∫ t in Ioi x, gaussPdf t := by
    rw [← Ioc_union_Ioi_eq_Ioi hx]
    exact setIntegral_union (Set.disjoint_left.mpr fun t h1 h2 => not_lt.mpr h1.2 h2) measurableSet_Ioi
      integrable_gaussPdf.integrableOn integrable_gaussPdf.integrableOn
  rw [gaussCdf_neg]
  unfold gaussCdf
  rw [intervalIntegral.integral_of_le hx]
  have := integral_Ioi_gaussPdf
  linarith

/-- **tail bound**: `Φ(-x) ≤ exp(-x²/2)` for `x ≥ 1` -/
theorem gaussCdf_neg_le (x : ℝ) (hx : 1 ≤ x) : gaussCdf (-x) ≤ Real.exp (-(1 / 2) * x ^ 2) := by
  rw [gaussCdf_neg_eq_integral_Ioi x (by linarith), ← integral_Ioi_mul_kernel x]
  refine setIntegral_mono_on integrable_gaussPdf.integrableOn
    (integrable_mul_exp_neg_mul_sq (b := 1 / 2) (by norm_num)).integrableOn measurableSet_Ioi ?_
  intro t ht
  have ht1 : (1 : ℝ) ≤ t := le_trans hx (le_of_lt ht)
  have hk := Real.exp_pos (-(1 / 2) * t ^ 2)
  calc gaussPdf t ≤ Real.exp (-(1 / 2) * t ^ 2) := gaussPdf_le_kernel t
    _ ≤ t * Real.exp (-(1 / 2) * t ^ 2) := by nlinarith

/-- `Φ(-100) ≤ 2⁻⁵⁰⁰⁰` -/
theorem gaussCdf_neg_100_le : gaussCdf (-100) ≤ 1 / 2 ^ 5000 := by
  have h := gaussCdf_neg_le 100 (by norm_num)
  have e : Real.exp (-(1 / 2) * (100 : ℝ) ^ 2) = Real.exp (-1) ^ 5000 := by
    rw [← Real.exp_nat_mul]; congr 1; norm_num
  have h1 : Real.exp (-1) ≤ 1 / 2 := by
    rw [Real.exp_neg, inv_eq_one_div]
    apply one_div_le_one_div_of_le (by norm_num)
    have := Real.add_one_le_exp (1 : ℝ)
    linarith
  have h2 : Real.exp (-1) ^ 5000 ≤ (1 / 2 : ℝ) ^ 5000 := pow_le_pow_left₀ (Real.exp_pos _).le h1 5000
  rw [e] at h
  have e2 : (1 / 2 : ℝ) ^ 5000 = 1 / 2 ^ 5000 := by rw [one_div_pow]
  exact le_trans h (le_trans h2 (le_of_eq e2))

end OptunaVerif.TruncNorm
