import OptunaVerif.Model.Txn
/-!
Lemmas about `Model/Txn.lean`: where the durable state can be after every prefix of a call.
-/
namespace OptunaVerif.Txn

variable {σ ω : Type}

/-! ### prefixes -/

theorem run_append (ap : σ → ω → σ) (db : Db σ) (a b : List (Step ω)) :
    run ap db (a ++ b) = run ap (run ap db a) b := by
  simp [run, List.foldl_append]

theorem mem_durs_self (ap : σ → ω → σ) (db : Db σ) (steps : List (Step ω)) :
    db.durable ∈ durs ap db steps := by
  cases steps <;> simp [durs]

theorem mem_durs_append (ap : σ → ω → σ) (db : Db σ) (a b : List (Step ω)) (x : σ) :
    x ∈ durs ap db (a ++ b) ↔ x ∈ durs ap db a ∨ x ∈ durs ap (run ap db a) b := by
  induction a generalizing db with
  | nil =>
    simp only [List.nil_append, durs, run, List.foldl_nil, List.mem_singleton]
    constructor
    · intro h; exact Or.inr h
    · intro h
      rcases h with h | h
      · rw [h]; exact mem_durs_self ap db b
      · exact h
  | cons s r ih =>
    simp only [List.cons_append, durs, List.mem_cons, run, List.foldl_cons]
    rw [ih]
    simp only [run, or_assoc]

/-- the state a crash after `k` requests leaves is one of the `durs` -/
theorem crash_mem_durs (ap : σ → ω → σ) (db : Db σ) (steps : List (Step ω)) (k : Nat) :
    (run ap db (steps.take k)).durable ∈ durs ap db steps := by
  induction steps generalizing db k with
  | nil => simp [run, durs]
  | cons s r ih =>
    cases k with
    | zero => simp [run, durs]
    | succ k =>
      simp only [List.take_succ_cons, run, List.foldl_cons, durs]
      exact List.mem_cons_of_mem _ (ih _ k)

/-- … and every one of the `durs` is the state some crash point leaves -/
theorem durs_is_crash (ap : σ → ω → σ) (db : Db σ) (steps : List (Step ω)) (x : σ)
    (h : x ∈ durs ap db steps) : ∃ k, k ≤ steps.length ∧ x = (run ap db (steps.take k)).durable := by
  induction steps generalizing db with
  | nil =>
    simp only [durs, List.mem_singleton] at h
    exact ⟨0, Nat.le_refl _, by simp [run, h]⟩
  | cons s r ih =>
    simp only [durs, List.mem_cons] at h
    rcases h with h | h
    · exact ⟨0, Nat.zero_le _, by simp [run, h]⟩
    · obtain ⟨k, hk, hx⟩ := ih _ h
      exact ⟨k + 1, by simp only [List.length_cons]; omega, by simpa [run] using hx⟩

/-! ### one block execution -/

theorem writesOf_nil_of_nowrite (body : List (Step ω)) (h : body.any Step.isWrite = false) :
    writesOf body = [] := by
  induction body with
  | nil => rfl
  | cons s r ih =>
    simp only [List.any_cons, Bool.or_eq_false_iff] at h
    cases s with
    | write w => simp [Step.isWrite] at h
    | begin => simpa [writesOf] using ih h.2
    | flush => simpa [writesOf] using ih h.2
    | commit => simpa [writesOf] using ih h.2
    | rollback => simpa [writesOf] using ih h.2

/-- a body of writes and flushes inside an open transaction: nothing becomes durable -/
theorem plain_body (ap : σ → ω → σ) (d x : σ) (body : List (Step ω)) (h : body.all Step.isPlain = true) :
    run ap { durable := d, work := some x } body = { durable := d, work := some ((writesOf body).foldl ap x) } ∧
      ∀ y ∈ durs ap { durable := d, work := some x } body, y = d := by
  induction body generalizing x with
  | nil => simp [run, durs, writesOf]
  | cons s r ih =>
    simp only [List.all_cons, Bool.and_eq_true] at h
    cases s with
    | write w =>
      obtain ⟨h1, h2⟩ := ih (ap x w) h.2
      refine ⟨?_, ?_⟩
      · simpa [run, exec1, writesOf] using h1
      · intro y hy
        simp only [durs, List.mem_cons, exec1] at hy
        rcases hy with hy | hy
        · exact hy
        · exact h2 y hy
    | flush =>
      obtain ⟨h1, h2⟩ := ih x h.2
      refine ⟨?_, ?_⟩
      · simpa [run, exec1, writesOf] using h1
      · intro y hy
        simp only [durs, List.mem_cons, exec1] at hy
        rcases hy with hy | hy
        · exact hy
        · exact h2 y hy
    | begin => simp [Step.isPlain] at h
    | commit => simp [Step.isPlain] at h
    | rollback => simp [Step.isPlain] at h

/-- requests without any write never change the durable state, whatever they begin, commit or roll back -/
theorem nowrite_body (ap : σ → ω → σ) (db : Db σ) (body : List (Step ω)) (h : body.any Step.isWrite = false)
    (hw : db.work = none ∨ db.work = some db.durable) :
    (run ap db body).durable = db.durable ∧
      ((run ap db body).work = none ∨ (run ap db body).work = some db.durable) ∧
      ∀ y ∈ durs ap db body, y = db.durable := by
  induction body generalizing db with
  | nil => simp [run, durs, hw]
  | cons s r ih =>
    simp only [List.any_cons, Bool.or_eq_false_iff] at h
    have key : (exec1 ap db s).durable = db.durable ∧
        ((exec1 ap db s).work = none ∨ (exec1 ap db s).work = some db.durable) := by
      cases s with
      | write w => simp [Step.isWrite] at h
      | begin =>
        rcases hw with hw | hw <;> simp [exec1, hw]
      | flush => exact ⟨rfl, hw⟩
      | commit =>
        rcases hw with hw | hw <;> simp [exec1, hw]
      | rollback => simp [exec1]
    obtain ⟨k1, k2⟩ := key
    obtain ⟨a1, a2, a3⟩ := ih (exec1 ap db s) h.2 (by rw [k1]; exact k2)
    refine ⟨?_, ?_, ?_⟩
    · simpa [run, k1] using a1
    · simpa [run, k1] using a2
    · intro y hy
      simp only [durs, List.mem_cons] at hy
      rcases hy with hy | hy
      · exact hy
      · rw [← k1]; exact a3 y hy

theorem after_of_not_effective (ap : σ → ω → σ) (i : Inst ω) (d : σ) (h : i.effective = false) :
    i.after ap d = d := by
  unfold Inst.after
  split
  · rename_i hc
    simp only [Inst.effective, hc, Bool.true_and] at h
    rw [writesOf_nil_of_nowrite i.body h]
    rfl
  · rfl

/-- **one block execution**: during it the durable state is the one before; after it, the one before
or — when it was left normally — the one with all its writes applied; no transaction stays open. -/
theorem inst_run (ap : σ → ω → σ) (d : σ) (i : Inst ω) (h : i.safe = true) :
    run ap { durable := d, work := none } i.steps = { durable := i.after ap d, work := none } ∧
      ∀ y ∈ durs ap { durable := d, work := none } i.steps, y = d ∨ y = i.after ap d := by
  have hsteps : i.steps = [Step.begin] ++ (i.body ++ [if i.committed then .commit else .rollback]) := rfl
  have hbegin : run ap { durable := d, work := none } [Step.begin] = ({ durable := d, work := some d } : Db σ) := by
    simp [run, exec1]
  have hdb : ∀ y ∈ durs ap ({ durable := d, work := none } : Db σ) [Step.begin], y = d := by
    intro y hy
    simp only [durs, exec1, List.mem_cons, or_self, List.not_mem_nil, or_false] at hy
    exact hy
  cases hw : i.hasWrite with
  | false =>
    -- no write at all: arbitrary body
    have hnw : i.body.any Step.isWrite = false := hw
    obtain ⟨a1, a2, a3⟩ := nowrite_body ap { durable := d, work := some d } i.body hnw (Or.inr rfl)
    have hafter : i.after ap d = d := after_of_not_effective ap i d (by simp [Inst.effective, hw])
    rw [hafter, hsteps]
    refine ⟨?_, ?_⟩
    · rw [run_append, hbegin, run_append]
      cases hc : i.committed with
      | true =>
        simp only [if_true, run, List.foldl_cons, List.foldl_nil, exec1]
        simp only [run] at a1 a2
        rcases a2 with a2 | a2 <;> simp [a1, a2]
      | false =>
        simp only [Bool.false_eq_true, if_false, run, List.foldl_cons, List.foldl_nil, exec1]
        simp only [run] at a1
        simp [a1]
    · intro y hy
      rw [mem_durs_append, hbegin, mem_durs_append] at hy
      rcases hy with hy | hy | hy
      · exact Or.inl (hdb y hy)
      · exact Or.inl (a3 y hy)
      · left
        cases hc : i.committed with
        | true =>
          simp only [hc, if_true, durs, exec1, List.mem_cons, List.not_mem_nil, or_false] at hy
          rcases hy with hy | hy
          · rw [hy]; exact a1
          · rw [hy]
            rcases a2 with a2 | a2 <;> simp [a1, a2]
        | false =>
          simp only [hc, Bool.false_eq_true, if_false, durs, exec1, List.mem_cons, List.not_mem_nil, or_false] at hy
          rcases hy with hy | hy <;> rw [hy] <;> exact a1
  | true =>
    have hp : i.body.all Step.isPlain = true := by
      have := h
      simp only [Inst.safe, hw, Bool.not_true, Bool.or_false] at this
      exact this
    obtain ⟨b1, b2⟩ := plain_body ap d d i.body hp
    rw [hsteps]
    refine ⟨?_, ?_⟩
    · rw [run_append, hbegin, run_append, b1]
      cases hc : i.committed with
      | true => simp [run, exec1, Inst.after, hc]
      | false => simp [run, exec1, Inst.after, hc]
    · intro y hy
      rw [mem_durs_append, hbegin, mem_durs_append, b1] at hy
      rcases hy with hy | hy | hy
      · exact Or.inl (hdb y hy)
      · exact Or.inl (b2 y hy)
      · cases hc : i.committed with
        | true =>
          simp only [hc, if_true, durs, exec1, List.mem_cons, List.not_mem_nil, or_false, Option.getD_some] at hy
          rcases hy with hy | hy
          · exact Or.inl hy
          · right; rw [hy]; simp [Inst.after, hc]
        | false =>
          simp only [hc, Bool.false_eq_true, if_false, durs, exec1, List.mem_cons, List.not_mem_nil, or_false] at hy
          rcases hy with hy | hy <;> exact Or.inl hy

/-! ### a whole call -/

theorem mem_boundaries_self (ap : σ → ω → σ) (d : σ) (is : List (Inst ω)) : d ∈ boundaries ap d is := by
  cases is <;> simp [boundaries]

/-- **crash states are transaction boundaries** -/
theorem trace_run (ap : σ → ω → σ) (d : σ) (is : List (Inst ω)) (h : ∀ i ∈ is, i.safe = true) :
    run ap { durable := d, work := none } (trace is) = { durable := finalState ap d is, work := none } ∧
      ∀ y ∈ durs ap { durable := d, work := none } (trace is), y ∈ boundaries ap d is := by
  induction is generalizing d with
  | nil => simp [trace, run, durs, finalState, boundaries]
  | cons i r ih =>
    have hi := h i (by simp)
    obtain ⟨a1, a2⟩ := inst_run ap d i hi
    obtain ⟨b1, b2⟩ := ih (i.after ap d) (fun j hj => h j (by simp [hj]))
    have htr : trace (i :: r) = i.steps ++ trace r := by simp [trace]
    rw [htr]
    refine ⟨?_, ?_⟩
    · rw [run_append, a1, b1]; rfl
    · intro y hy
      rw [mem_durs_append, a1] at hy
      simp only [boundaries, List.mem_cons]
      rcases hy with hy | hy
      · rcases a2 y hy with e | e
        · exact Or.inl e
        · right; rw [e]; exact mem_boundaries_self ap _ r
      · exact Or.inr (b2 y hy)

theorem boundaries_noeff (ap : σ → ω → σ) (d : σ) (is : List (Inst ω)) (h : ∀ i ∈ is, i.effective = false) :
    finalState ap d is = d ∧ ∀ y ∈ boundaries ap d is, y = d := by
  induction is generalizing d with
  | nil => simp [finalState, boundaries]
  | cons i r ih =>
    have hi := after_of_not_effective ap i d (h i (by simp))
    obtain ⟨a1, a2⟩ := ih d (fun j hj => h j (by simp [hj]))
    refine ⟨?_, ?_⟩
    · simp only [finalState, List.foldl_cons, hi]; exact a1
    · intro y hy
      simp only [boundaries, List.mem_cons, hi] at hy
      rcases hy with hy | hy
      · exact hy
      · exact a2 y hy

/-- with at most one transaction that changes anything, the boundaries are the pre- and the post-state -/
theorem boundaries_one (ap : σ → ω → σ) (d : σ) (is : List (Inst ω))
    (h : (is.filter Inst.effective).length ≤ 1) :
    ∀ y ∈ boundaries ap d is, y = d ∨ y = finalState ap d is := by
  induction is generalizing d with
  | nil => intro y hy; simp only [boundaries, List.mem_singleton] at hy; exact Or.inl hy
  | cons i r ih =>
    intro y hy
    simp only [boundaries, List.mem_cons] at hy
    cases he : i.effective with
    | true =>
      have hr : ∀ j ∈ r, j.effective = false := by
        simp only [List.filter_cons, he, if_true, List.length_cons] at h
        have h0 : (r.filter Inst.effective).length = 0 := by omega
        have hnil : r.filter Inst.effective = [] := List.length_eq_zero_iff.1 h0
        intro j hj
        have := (List.filter_eq_nil_iff.1 hnil) j hj
        simpa using this
      obtain ⟨a1, a2⟩ := boundaries_noeff ap (i.after ap d) r hr
      have hfin : finalState ap d (i :: r) = i.after ap d := by
        simp only [finalState, List.foldl_cons]; exact a1
      rcases hy with hy | hy
      · exact Or.inl hy
      · right; rw [hfin]; exact a2 y hy
    | false =>
      have hi := after_of_not_effective ap i d he
      have hfin : finalState ap d (i :: r) = finalState ap d r := by
        simp only [finalState, List.foldl_cons, hi]
      have h' : (r.filter Inst.effective).length ≤ 1 := by
        simpa [List.filter_cons, he] using h
      rcases hy with hy | hy
      · exact Or.inl hy
      · rw [hi] at hy
        rw [hfin]
        exact ih d h' y hy

/-! ### from the static shape to the dynamic condition -/

theorem mem_writeIdx (bs : List Block) (j : Nat) :
    j ∈ writeIdx bs ↔ ∃ b, bs[j]? = some b ∧ b.hasWrites = true := by
  simp only [writeIdx, List.mem_filter, List.mem_range]
  constructor
  · rintro ⟨hj, hb⟩
    cases hg : bs[j]? with
    | none => simp [hg] at hb
    | some b => exact ⟨b, rfl, by simpa [hg] using hb⟩
  · rintro ⟨b, hb, hw⟩
    obtain ⟨hlt, _⟩ := List.getElem?_eq_some_iff.1 hb
    exact ⟨hlt, by simp [hb, hw]⟩

theorem eq_of_length_le_one {α : Type} (l : List α) (h : l.length ≤ 1) (a b : α) (ha : a ∈ l) (hb : b ∈ l) : a = b := by
  match l, h with
  | [], _ => simp at ha
  | [x], _ =>
    simp only [List.mem_singleton] at ha hb
    rw [ha, hb]
  | _ :: _ :: _, h => simp at h

/-- **shape ⇒ at most one effective transaction**: an execution that code of a one-transaction shape
can produce consists of safe block executions, at most one of which changes the durable state. -/
theorem conforms_oneTxn (bs : List Block) (is : List (Inst ω)) (hs : oneTxnShape bs = true)
    (hc : conforms bs is = true) :
    (∀ i ∈ is, i.safe = true) ∧ (is.filter Inst.effective).length ≤ 1 := by
  simp only [oneTxnShape, Bool.and_eq_true, List.all_eq_true, decide_eq_true_eq] at hs
  obtain ⟨hall, hone⟩ := hs
  simp only [conforms, Bool.and_eq_true, List.all_eq_true] at hc
  obtain ⟨hinst, hmult⟩ := hc
  -- what an instance with a write tells about its block
  have hblk : ∀ i ∈ is, i.hasWrite = true → ∃ b, bs[i.blk]? = some b ∧ b.hasWrites = true ∧ b.plain = true ∧
      b.rep ≠ .perItem ∧ i.safe = true := by
    intro i hi hw
    have hok := hinst i hi
    unfold instOk at hok
    cases hg : bs[i.blk]? with
    | none => simp [hg] at hok
    | some b =>
      simp only [hg, hw, Bool.not_true, Bool.or_false, Bool.and_eq_true, Bool.or_eq_true, Bool.not_eq_true'] at hok
      obtain ⟨k1, k2⟩ := hok
      have hb := hall b (List.mem_of_getElem? hg)
      simp only [k1, Bool.not_true, Bool.false_or, Bool.and_eq_true, bne_iff_ne, ne_eq] at hb
      obtain ⟨p1, p2⟩ := hb
      refine ⟨b, rfl, k1, p1, p2, ?_⟩
      rcases k2 with k2 | k2
      · rw [p1] at k2; simp at k2
      · exact k2
  refine ⟨?_, ?_⟩
  · intro i hi
    cases hw : i.hasWrite with
    | false => simp [Inst.safe, hw]
    | true =>
      obtain ⟨_, _, _, _, _, hp⟩ := hblk i hi hw
      exact hp
  · -- all effective instances sit on the one write block
    cases hwi : writeIdx bs with
    | nil =>
      have : is.filter Inst.effective = [] := by
        rw [List.filter_eq_nil_iff]
        intro i hi he
        simp only [Inst.effective, Bool.and_eq_true] at he
        obtain ⟨b, hb, hbw, _⟩ := hblk i hi he.2
        have : i.blk ∈ writeIdx bs := (mem_writeIdx bs i.blk).2 ⟨b, hb, hbw⟩
        rw [hwi] at this
        simp at this
      rw [this]; simp
    | cons j rest =>
      have hjmem : j ∈ writeIdx bs := by rw [hwi]; simp
      obtain ⟨bj, hbj, hbjw⟩ := (mem_writeIdx bs j).1 hjmem
      have hjlt : j < bs.length := (List.getElem?_eq_some_iff.1 hbj).1
      have hrep : bj.rep ≠ .perItem := by
        have hb := hall bj (List.mem_of_getElem? hbj)
        simp only [hbjw, Bool.not_true, Bool.false_or, Bool.and_eq_true, bne_iff_ne, ne_eq] at hb
        exact hb.2
      have hm := hmult j (List.mem_range.2 hjlt)
      simp only [hbj, Bool.or_eq_true, beq_iff_eq, decide_eq_true_eq] at hm
      have hcount : committedOf is j ≤ 1 := by
        rcases hm with hm | hm
        · exact absurd hm hrep
        · exact hm
      have hsub : (is.filter Inst.effective).length ≤ committedOf is j := by
        unfold committedOf
        rw [← List.countP_eq_length_filter, ← List.countP_eq_length_filter]
        apply List.countP_mono_left
        intro i hi he
        simp only [Inst.effective, Bool.and_eq_true] at he
        obtain ⟨b, hb, hbw, _⟩ := hblk i hi he.2
        have hmem : i.blk ∈ writeIdx bs := (mem_writeIdx bs i.blk).2 ⟨b, hb, hbw⟩
        have : i.blk = j := eq_of_length_le_one (writeIdx bs) hone _ _ hmem hjmem
        simp [this, he.1]
      omega

end OptunaVerif.Txn
