import OptunaVerif.Model.Wilcoxon
import OptunaVerif.Lemmas.Direction
/-! Helper lemmas for `WilcoxonPruner.prune` (C16 / C13): lengths of the finite part and of the difference list,
negation against `common` / `diffValues` / `avgIsBest`. -/
set_option linter.unusedSimpArgs false
set_option linter.unusedVariables false
namespace OptunaVerif.Wilcoxon
open OptunaVerif OptunaVerif.Direction

theorem finPart_length_le (iv : IV) : (finPart iv).length ≤ iv.length := by
  induction iv with
  | nil => simp [finPart]
  | cons p t ih =>
    obtain ⟨s, v⟩ := p
    cases v <;> simp [finPart] <;> omega

theorem finPart_length_of_allFinite (iv : IV) (h : allFinite iv = true) : (finPart iv).length = iv.length := by
  induction iv with
  | nil => simp [finPart]
  | cons p t ih =>
    obtain ⟨s, v⟩ := p
    simp only [allFinite, List.all_cons, Bool.and_eq_true] at h
    have ht : allFinite t = true := h.2
    cases v <;> simp [isFin] at h
    simp [finPart, ih ht]

/-- the number of steps the two trials have in common -/
def nCommon (cur best : List (Int × Rat)) : Nat :=
  (cur.filter (fun p => (lookupStep p.1 best).isSome)).length

theorem filterMap_length_eq_filter {α β : Type} (f : α → Option β) (l : List α) :
    (l.filterMap f).length = (l.filter (fun a => (f a).isSome)).length := by
  induction l with
  | nil => rfl
  | cons a t ih =>
    simp only [List.filterMap_cons, List.filter_cons]
    cases h : f a <;> simp [ih]

/-- `len(diff_values)` is the number of steps of the current trial that the best trial also has
(`np.intersect1d` on the two key sets), whatever the report order. -/
theorem diffValues_length (cur best : List (Int × Rat)) : (diffValues cur best).length = nCommon cur best := by
  unfold diffValues common nCommon
  rw [List.length_map, filterMap_length_eq_filter]
  have hp := sortBy_perm (fun (a b : Int × Rat) => decide (a.1 ≤ b.1)) cur
  have := (hp.filter (fun p => ((lookupStep p.1 best).map (fun b => (p.1, p.2 - b))).isSome)).length_eq
  rw [this]
  congr 1
  apply List.filter_congr
  intro p _
  cases lookupStep p.1 best <;> rfl

theorem nCommon_le (cur best : List (Int × Rat)) : nCommon cur best ≤ cur.length := by
  unfold nCommon; exact List.length_filter_le _ _

theorem diffValues_length_le (cur best : IV) :
    (diffValues (finPart cur) (finPart best)).length ≤ cur.length := by
  rw [diffValues_length]
  exact Nat.le_trans (nCommon_le _ _) (finPart_length_le cur)

theorem avgIsBest_self (d : Dir) (l : List Rat) : avgIsBest d l l = true := by
  cases d <;> simp [avgIsBest]

theorem allFinite_negIV (iv : IV) : allFinite (Wilcoxon.negIV iv) = allFinite iv := by
  unfold allFinite Wilcoxon.negIV
  rw [List.all_map]
  congr 1
  funext p
  obtain ⟨s, v⟩ := p
  cases v <;> rfl

def negQ (l : List (Int × Rat)) : List (Int × Rat) := l.map (fun p => (p.1, -p.2))

theorem finPart_negIV (iv : IV) : finPart (Wilcoxon.negIV iv) = negQ (finPart iv) := by
  induction iv with
  | nil => rfl
  | cons p t ih =>
    obtain ⟨s, v⟩ := p
    simp only [Wilcoxon.negIV, List.map_cons] at ih ⊢
    cases v <;> simp [finPart, xneg, negQ, ih] <;> exact ih

theorem lookupStep_negQ (s : Int) (best : List (Int × Rat)) :
    lookupStep s (negQ best) = (lookupStep s best).map (fun x => -x) := by
  induction best with
  | nil => rfl
  | cons p t ih =>
    obtain ⟨s', v⟩ := p
    simp only [negQ, List.map_cons, lookupStep] at ih ⊢
    split <;> simp [ih]

theorem common_negQ (cur best : List (Int × Rat)) : common (negQ cur) (negQ best) = negQ (common cur best) := by
  unfold common
  have hs : sortBy (fun (a b : Int × Rat) => decide (a.1 ≤ b.1)) (negQ cur) =
      negQ (sortBy (fun (a b : Int × Rat) => decide (a.1 ≤ b.1)) cur) := by
    unfold negQ
    rw [sortBy_map]
  rw [hs]
  unfold negQ
  rw [List.filterMap_map, List.map_filterMap]
  congr 1
  funext p
  have := lookupStep_negQ p.1 best
  unfold negQ at this
  simp only [Function.comp, this]
  cases lookupStep p.1 best with
  | none => rfl
  | some b => simp only [Option.map_some]; congr 2; ring

theorem diffValues_negQ (cur best : List (Int × Rat)) :
    diffValues (negQ cur) (negQ best) = negL (diffValues cur best) := by
  unfold diffValues
  rw [common_negQ]
  simp [negQ, negL, List.map_map, Function.comp_def]

theorem map_snd_negQ (l : List (Int × Rat)) : (negQ l).map (·.2) = negL (l.map (·.2)) := by
  simp [negQ, negL, List.map_map, Function.comp_def]

theorem avgIsBest_mirror (a b : List Rat) : avgIsBest .maximize a b = avgIsBest .minimize (negL a) (negL b) := by
  unfold avgIsBest
  simp only [mean_negL, decide_eq_decide]
  constructor <;> intro h <;> linarith

end OptunaVerif.Wilcoxon
