/-
  Shared vocabulary of the executable models (core Lean only: no Mathlib import here, so that the
  compiled `driver` links).
-/
namespace OptunaVerif

/-- `optuna.trial.TrialState` (integer codes 0..4 as in the source; tied by the T-enum translator). -/
inductive TState where
  | running | complete | pruned | fail | waiting
deriving DecidableEq, Repr, Inhabited

def TState.code : TState → Nat
  | .running => 0 | .complete => 1 | .pruned => 2 | .fail => 3 | .waiting => 4

def TState.ofCode? : Nat → Option TState
  | 0 => some .running | 1 => some .complete | 2 => some .pruned | 3 => some .fail
  | 4 => some .waiting | _ => none

def TState.isFinished : TState → Bool
  | .complete | .pruned | .fail => true
  | _ => false

/-- An objective / intermediate value as the storage sees it: a finite rational, ±∞ or NaN. -/
inductive XVal where
  | ninf | fin (q : Rat) | pinf | nan
deriving DecidableEq, Repr, Inhabited

/-- `a ≤ b` on the extended reals; NaN is incomparable. -/
def XVal.le : XVal → XVal → Bool
  | .nan, _ => false
  | _, .nan => false
  | .ninf, _ => true
  | _, .pinf => true
  | .fin a, .fin b => a ≤ b
  | .fin _, .ninf => false
  | .pinf, .fin _ => false
  | .pinf, .ninf => false

/-- Association lists keyed by strings (attribute dictionaries, parameter maps). `set` overwrites by
key and keeps at most one entry per key. -/
abbrev AList (α : Type) := List (String × α)

namespace AList
variable {α : Type}

def get? (l : AList α) (k : String) : Option α :=
  match l with
  | [] => none
  | (k', v) :: t => if k' = k then some v else get? t k

def set (l : AList α) (k : String) (v : α) : AList α :=
  match l with
  | [] => [(k, v)]
  | (k', v') :: t => if k' = k then (k, v) :: t else (k', v') :: set t k v

theorem get?_set_same (l : AList α) (k : String) (v : α) : get? (set l k v) k = some v := by
  induction l with
  | nil => simp [set, get?]
  | cons h t ih =>
    obtain ⟨k', v'⟩ := h
    by_cases hk : k' = k
    · simp [set, get?, hk]
    · simp [set, get?, hk, ih]

theorem get?_set_other (l : AList α) (k k2 : String) (v : α) (h : k2 ≠ k) :
    get? (set l k v) k2 = get? l k2 := by
  induction l with
  | nil => simp [set, get?, Ne.symm h]
  | cons hd t ih =>
    obtain ⟨k', v'⟩ := hd
    by_cases hk : k' = k
    · subst hk; simp [set, get?, Ne.symm h]
    · by_cases hk2 : k' = k2
      · subst hk2; simp [set, get?, hk]
      · simp [set, get?, hk, hk2, ih]

end AList

/-- Update the element at index `i` (no-op when out of range). -/
def updAt {α : Type} : List α → Nat → (α → α) → List α
  | [], _, _ => []
  | a :: t, 0, f => f a :: t
  | a :: t, i + 1, f => a :: updAt t i f

@[simp] theorem updAt_length {α : Type} (l : List α) (i : Nat) (f : α → α) :
    (updAt l i f).length = l.length := by
  induction l generalizing i with
  | nil => simp [updAt]
  | cons a t ih => cases i <;> simp [updAt, ih]

theorem updAt_getElem? {α : Type} (l : List α) (i j : Nat) (f : α → α) :
    (updAt l i f)[j]? = if j = i then (l[j]?).map f else l[j]? := by
  induction l generalizing i j with
  | nil => simp [updAt]
  | cons a t ih =>
    cases i with
    | zero => cases j <;> simp [updAt]
    | succ i =>
      cases j with
      | zero => simp [updAt]
      | succ j => simp [updAt, ih]

end OptunaVerif
