import OptunaVerif.Model.Basic
import OptunaVerif.Generated.Best
/-!
# C12 — models of the "best trial" code (core Lean only)

What is modelled (each definition names the Python it mirrors):

* the three single-objective algorithms behind `storage.get_best_trial`
  - `scanBest`   : `BaseStorage.get_best_trial` (`optuna/storages/_base.py`): Python `min`/`max` over the COMPLETE trials
  - `Mem`        : `InMemoryStorage._update_cache` (`optuna/storages/_in_memory.py`): the incrementally maintained `best_trial_id`
  - `rdbBest`    : `TrialModel.find_{min,max}_value_trial_id` (`optuna/storages/_rdb/models.py`): `ORDER BY (type rank, value) LIMIT 1`
                   over the stored `(value, value_type)` encoding
* `studyBestTrial` : `Study.best_trial` incl. the constraint fallback (`optuna/study/study.py`)
* `isParetoFront`  : `_is_pareto_front` (`np.unique(axis=0)` + 1-D / 2-D cummin / N-D peel, `optuna/study/_multi_objective.py`)
* `bestTrials`     : `Study.best_trials` = `_get_pareto_front_trials_by_trials` with the feasibility filter

Comparison operators, ASC/DESC flags, the SQL rank table and the branch structure come from
`Generated/Best.lean`, which the translator `verif/translators/best.py` re-emits from `/repo` on every run.

Values: `EVal` = −∞ | finite ℚ | +∞, i.e. `XVal` without NaN — `Study.tell` / `Study.add_trial` reject NaN for
COMPLETE trials, and values of other trials are never looked at by this code.
-/
namespace OptunaVerif.Best
open OptunaVerif
open OptunaVerif.Generated.Best (Cmp)
namespace G
export OptunaVerif.Generated.Best (minRankInfNeg minRankFinite minRankInfPos minRankAsc minValueAsc minFilterComplete
  maxRankInfNeg maxRankFinite maxRankInfPos maxRankAsc maxValueAsc maxFilterComplete
  rdbFirstBranchIsMaximize rdbFirstCallsMax rdbElseCallsMax rdbObjectiveIndex
  memSkipsNonComplete memFirstBranchIsMaximize memFirstCmp memElseCmp
  baseStates baseFirstBranchIsMaximize baseFirstUsesMax baseElseUsesMax
  studyViolationCmp studyViolationIsAny studyFallbackStates studyFallbackFiltersFeasible
  studyFirstBranchIsMaximize studyFirstUsesMax studyElseUsesMax feasibleCmp feasibleIsAll)
end G

/-! ## values -/

/-- A NaN-free objective value. -/
inductive EVal where
  | ninf | fin (q : Rat) | pinf
deriving DecidableEq, Repr, Inhabited

def EVal.toX : EVal → XVal
  | .ninf => .ninf | .fin q => .fin q | .pinf => .pinf

def EVal.ofX? : XVal → Option EVal
  | .ninf => some .ninf | .fin q => some (.fin q) | .pinf => some .pinf | .nan => none

/-- `a <= b` (the order of `XVal` restricted to NaN-free values). -/
def EVal.le (a b : EVal) : Bool := XVal.le a.toX b.toX
/-- `a < b` -/
def EVal.lt (a b : EVal) : Bool := !(EVal.le b a)

instance : LE EVal := ⟨fun a b => EVal.le a b = true⟩
instance : LT EVal := ⟨fun a b => EVal.le b a = false⟩
instance (a b : EVal) : Decidable (a ≤ b) := inferInstanceAs (Decidable (EVal.le a b = true))
instance (a b : EVal) : Decidable (a < b) := inferInstanceAs (Decidable (EVal.le b a = false))

/-- float negation `-v` (exact on floats, exact here). -/
def EVal.neg : EVal → EVal
  | .ninf => .pinf | .fin q => .fin (-q) | .pinf => .ninf

/-- Python comparison on floats that may be NaN (every comparison with NaN is False, `!=` is True). -/
def xlt (a b : XVal) : Bool := a.le b && !(b.le a)
def cmpX : Cmp → XVal → XVal → Bool
  | .lt, a, b => xlt a b
  | .le, a, b => a.le b
  | .gt, a, b => xlt b a
  | .ge, a, b => b.le a
  | .eq, a, b => a.le b && b.le a
  | .ne, a, b => !(a.le b && b.le a)
def cmpE (c : Cmp) (a b : EVal) : Bool := cmpX c a.toX b.toX

/-- `optuna.study.StudyDirection` (codes 1 / 2 in the source). -/
inductive Dir where
  | minimize | maximize
deriving DecidableEq, Repr, Inhabited

def Dir.isMax : Dir → Bool
  | .maximize => true | .minimize => false

/-- `a` is at least as good as `b`. -/
def betterEq (d : Dir) (a b : EVal) : Bool :=
  match d with
  | .minimize => a.le b
  | .maximize => b.le a
/-- `a` is strictly better than `b`. -/
def better (d : Dir) (a b : EVal) : Bool := !(betterEq d b a)

/-! ## trials -/

/-- The entry `"constraints"` of `trial.system_attrs`: absent, present with `None`
(`_process_constraints_after_trial` stores `None` when the constraint function raised), or a list. -/
inductive Cons where
  | absent | null | vals (l : List XVal)
deriving DecidableEq, Repr, Inhabited

/-- `system_attrs.get("constraints")` -/
def Cons.get : Cons → Option (List XVal)
  | .vals l => some l
  | _ => none
/-- `"constraints" in system_attrs` -/
def Cons.hasKey : Cons → Bool
  | .absent => false
  | _ => true

structure BTrial where
  state : TState
  values : Option (List EVal)
  cons : Cons
deriving DecidableEq, Repr, Inhabited

/-- `FrozenTrial.value` of a single-objective trial. -/
def BTrial.value? (t : BTrial) : Option EVal :=
  match t.values with
  | some [v] => some v
  | _ => none

def zero : XVal := .fin 0

/-- `any([x > 0.0 for x in constraints])` (study.py), operator and quantifier as in the source. -/
def violatedList (cs : List XVal) : Bool :=
  if G.studyViolationIsAny then cs.any (fun x => cmpX G.studyViolationCmp x zero)
  else cs.all (fun x => cmpX G.studyViolationCmp x zero)
/-- `constraints is not None and any(x > 0.0 …)` -/
def violated (t : BTrial) : Bool :=
  match t.cons.get with
  | some cs => violatedList cs
  | none => false

/-- `all(x <= 0.0 for x in constraints)` (`_get_feasible_trials`). -/
def feasibleList (cs : List XVal) : Bool :=
  if G.feasibleIsAll then cs.all (fun x => cmpX G.feasibleCmp x zero)
  else cs.any (fun x => cmpX G.feasibleCmp x zero)
/-- `constraints is not None and all(x <= 0.0 …)`: a trial without recorded constraints is infeasible. -/
def feasible (t : BTrial) : Bool :=
  match t.cons.get with
  | some cs => feasibleList cs
  | none => false

/-! ## Python `min` / `max` -/

/-- The first element that no later element strictly beats (`beats new cur`): this is what Python's
`min(xs, key=…)` (`beats y c := key y < key c`) and `max` (`key y > key c`) return. -/
def firstBest {α : Type} (beats : α → α → Bool) : List α → Option α
  | [] => none
  | x :: xs => some (xs.foldl (fun cur y => if beats y cur then y else cur) x)

/-- `max(xs, key)` when `useMax`, else `min(xs, key)`. -/
def pyPick {α : Type} (useMax : Bool) (key : α → EVal) (xs : List α) : Option α :=
  firstBest (fun y cur => if useMax then (key cur).lt (key y) else (key y).lt (key cur)) xs

/-- Indices (= trial numbers) and values of the trials in one of the `states` that satisfy `p`,
in number order: `get_all_trials(states=…)` followed by a filter. -/
def valuedIn (states : List Nat) (p : BTrial → Bool) (ts : List BTrial) : List (Nat × EVal) :=
  ts.zipIdx.filterMap (fun x =>
    if states.contains x.1.state.code && p x.1 then x.1.value?.map (fun v => (x.2, v)) else none)

/-- Executable form of the specification: the numbers of all eligible COMPLETE trials that no eligible COMPLETE
trial beats (the driver validates the implementation's answer against this set: ties are unspecified). -/
def optSet (d : Dir) (p : BTrial → Bool) (ts : List BTrial) : List Nat :=
  let c := valuedIn [1] p ts
  (c.filter (fun x => c.all (fun y => betterEq d x.2 y.2))).map (fun x => x.1)

/-! ## 1. `BaseStorage.get_best_trial` -/

def baseUseMax (d : Dir) : Bool :=
  if d.isMax == G.baseFirstBranchIsMaximize then G.baseFirstUsesMax else G.baseElseUsesMax

/-- `None` = `ValueError("No trials are completed yet.")`. -/
def scanBest (d : Dir) (ts : List BTrial) : Option Nat :=
  (pyPick (baseUseMax d) (fun x => x.2) (valuedIn G.baseStates (fun _ => true) ts)).map (fun x => x.1)

/-! ## 2. `InMemoryStorage`: incremental `best_trial_id` -/

structure Mem where
  trials : List BTrial
  best : Option Nat
deriving DecidableEq, Repr, Inhabited

def Mem.init : Mem := { trials := [], best := none }

/-- `if best_value < new_value` / `if best_value > new_value` with the branch structure of the source. -/
def memReplace (d : Dir) (best new : EVal) : Bool :=
  if d.isMax == G.memFirstBranchIsMaximize then cmpE G.memFirstCmp best new else cmpE G.memElseCmp best new

/-- `_update_cache(trial_id, study_id)` -/
def Mem.updateCache (dirs : List Dir) (m : Mem) (i : Nat) : Mem :=
  match m.trials[i]? with
  | none => m
  | some t =>
    if G.memSkipsNonComplete && t.state != .complete then m else
    match m.best with
    | none => { m with best := some i }
    | some b =>
      match dirs with
      | [d] =>
        match (m.trials[b]?).bind BTrial.value?, t.value? with
        | none, _ => { m with best := some i }          -- `best_trial.value is None`
        | some _, none => m                             -- `assert trial.value is not None` (never: see `valuesOK`)
        | some bv, some nv => if memReplace d bv nv then { m with best := some i } else m
      | _ => m                                          -- `len(_directions) > 1: return`

/-- Events of a study's history that this code can see. -/
inductive Ev where
  /-- `create_new_trial` (`study.ask()` → RUNNING without values; `add_trial` / `enqueue_trial` → a template) -/
  | create (state : TState) (values : Option (List EVal)) (cons : Cons)
  /-- `set_trial_state_values` (`tell`, the WAITING→RUNNING claim of `ask`) -/
  | setState (i : Nat) (state : TState) (values : Option (List EVal))
  /-- `set_trial_system_attr(trial_id, "constraints", …)` -/
  | setCons (i : Nat) (c : Cons)
deriving Repr, Inhabited

/-- What `Study.tell` / `Study.add_trial` guarantee (`_check_values_are_feasible`, `FrozenTrial._validate`,
the length check of `add_trial`): a trial that becomes COMPLETE has one NaN-free value per objective. -/
def valuesOK (n : Nat) (st : TState) (vals : Option (List EVal)) : Bool :=
  st != .complete ||
    (match vals with
     | some l => l.length == n
     | none => false)

def Mem.step (dirs : List Dir) (m : Mem) : Ev → Mem
  | .create st vals c =>
    if !valuesOK dirs.length st vals then m else
    Mem.updateCache dirs { m with trials := m.trials ++ [{ state := st, values := vals, cons := c }] } m.trials.length
  | .setState i st vals =>
    match m.trials[i]? with
    | none => m                                                   -- KeyError
    | some t =>
      if t.state.isFinished then m                                -- UpdateFinishedTrialError
      else if st == .running && t.state != .waiting then m        -- returns False
      else
        let newVals := vals.or t.values                            -- `if values is not None: trial.values = values`
        if !valuesOK dirs.length st newVals then m else
        let m' : Mem := { m with trials := updAt m.trials i (fun t => { t with state := st, values := newVals }) }
        if st.isFinished then Mem.updateCache dirs m' i else m'
  | .setCons i c =>
    match m.trials[i]? with
    | none => m
    | some t =>
      if t.state.isFinished then m                                -- UpdateFinishedTrialError
      else { m with trials := updAt m.trials i (fun t => { t with cons := c }) }

def Mem.run (dirs : List Dir) (evs : List Ev) : Mem := evs.foldl (Mem.step dirs) Mem.init

/-! ## 3. RDB: `ORDER BY (type rank, value) LIMIT 1` over the stored encoding -/

/-- `TrialValueModel.TrialValueType` -/
inductive VType where
  | finite | infPos | infNeg
deriving DecidableEq, Repr, Inhabited

/-- `value_to_stored_repr` -/
def encode : EVal → Option Rat × VType
  | .pinf => (none, .infPos)
  | .ninf => (none, .infNeg)
  | .fin q => (some q, .finite)

/-- `stored_repr_to_value` (`none` = an assertion of the source fails) -/
def decode : Option Rat × VType → Option EVal
  | (none, .infPos) => some .pinf
  | (none, .infNeg) => some .ninf
  | (some q, .finite) => some (.fin q)
  | _ => none

/-- the `case({...}, value=TrialValueModel.value_type)` expression of the two queries -/
def rankOf (useMax : Bool) : VType → Int
  | .infNeg => if useMax then G.maxRankInfNeg else G.minRankInfNeg
  | .finite => if useMax then G.maxRankFinite else G.minRankFinite
  | .infPos => if useMax then G.maxRankInfPos else G.minRankInfPos

/-- SQL ordering of a nullable column, ascending; NULL sorts first (SQLite, MySQL; PostgreSQL sorts it last —
irrelevant here, because rows of equal rank are either all NULL or all non-NULL). -/
def nullLt : Option Rat → Option Rat → Bool
  | none, some _ => true
  | some a, some b => a < b
  | _, none => false

/-- `a` sorts strictly before `b` under `ORDER BY asc|desc(rank), asc|desc(value)`. -/
def sqlBefore (useMax : Bool) (a b : Option Rat × VType) : Bool :=
  let rankAsc := if useMax then G.maxRankAsc else G.minRankAsc
  let valAsc := if useMax then G.maxValueAsc else G.minValueAsc
  let ra := rankOf useMax a.2
  let rb := rankOf useMax b.2
  if ra != rb then (if rankAsc then ra < rb else rb < ra)
  else (if valAsc then nullLt a.1 b.1 else nullLt b.1 a.1)

/-- A `trials` row joined with its `trial_values` rows (objective ↦ stored value). -/
structure Row where
  state : TState
  vals : List (Option Rat × VType)
deriving DecidableEq, Repr, Inhabited

def toRow (t : BTrial) : Row :=
  { state := t.state, vals := (t.values.getD []).map encode }

def rdbUseMax (d : Dir) : Bool :=
  if d.isMax == G.rdbFirstBranchIsMaximize then G.rdbFirstCallsMax else G.rdbElseCallsMax

/-- The result set of the query before `ORDER BY`: `(trial index, stored value of the objective)`. -/
def rdbCandidates (useMax : Bool) (rows : List Row) : List (Nat × (Option Rat × VType)) :=
  rows.zipIdx.filterMap (fun x =>
    if !(if useMax then G.maxFilterComplete else G.minFilterComplete) || x.1.state == .complete then
      (x.1.vals[G.rdbObjectiveIndex]?).map (fun v => (x.2, v))
    else none)

/-- `LIMIT 1` after the `ORDER BY`: a row that no row sorts strictly before (the first such). -/
def rdbBestRows (d : Dir) (rows : List Row) : Option Nat :=
  let useMax := rdbUseMax d
  (firstBest (fun y cur => sqlBefore useMax y.2 cur.2) (rdbCandidates useMax rows)).map (fun x => x.1)

def rdbBest (d : Dir) (ts : List BTrial) : Option Nat := rdbBestRows d (ts.map toRow)

/-! ## 4. `Study.best_trial` -/

inductive Err where
  | valueError | runtimeError
deriving DecidableEq, Repr, Inhabited

def studyUseMax (d : Dir) : Bool :=
  if d.isMax == G.studyFirstBranchIsMaximize then G.studyFirstUsesMax else G.studyElseUsesMax

/-- The part of `Study.best_trial` after `best_trial = self._storage.get_best_trial(...)`; `b` is the storage's answer. -/
def fallback (d : Dir) (ts : List BTrial) (b : Nat) : Except Err Nat :=
  match ts[b]? with
  | none => .error .valueError
  | some t =>
    if violated t then
      let elig := valuedIn G.studyFallbackStates (fun t => !G.studyFallbackFiltersFeasible || feasible t) ts
      match pyPick (studyUseMax d) (fun x => x.2) elig with
      | none => .error .valueError                 -- "No feasible trials are completed yet."
      | some x => .ok x.1
    else .ok b

/-- `Study.best_trial` on top of a storage algorithm `alg`. -/
def studyBestTrial (alg : Dir → List BTrial → Option Nat) (dirs : List Dir) (ts : List BTrial) : Except Err Nat :=
  match dirs with
  | [d] =>
    match alg d ts with
    | none => .error .valueError                   -- "No trials are completed yet."
    | some b => fallback d ts b
  | _ => .error .runtimeError                      -- multi-objective

/-! ## 5. Pareto front -/

abbrev Point := List EVal

/-- `all(v0 <= v1 for v0, v1 in zip(a, b))` -/
def allLe : Point → Point → Bool
  | a :: as, b :: bs => a.le b && allLe as bs
  | _, _ => true
/-- `any(v0 < v1 for v0, v1 in zip(a, b))` -/
def anyLt : Point → Point → Bool
  | a :: as, b :: bs => a.lt b || anyLt as bs
  | _, _ => false
/-- The docstring of `Study.best_trials`: `a` dominates `b` (loss values: smaller is better). -/
def dominates (a b : Point) : Bool := allLe a b && anyLt a b

/-- Lexicographic order of rows (first column most significant) — the order of `np.unique(axis=0)`. -/
def lexLt : Point → Point → Bool
  | a :: as, b :: bs => a.lt b || (a == b && lexLt as bs)
  | [], _ :: _ => true
  | _, [] => false

def insertU (r : Point) : List Point → List Point
  | [] => [r]
  | h :: t => if lexLt r h then r :: h :: t else if r == h then h :: t else h :: insertU r t

/-- `np.unique(loss_values, axis=0)`: the distinct rows in lexicographic order. -/
def uniqueLexsort (rows : List Point) : List Point := rows.foldr insertU []

/-- `n_objectives == 1`: only the first element is Pareto optimal. -/
def front1d : List Point → List Bool
  | [] => []
  | _ :: rest => true :: rest.map (fun _ => false)

def emin (a b : EVal) : EVal := if a.le b then a else b

/-- second column of a 2-column row -/
def col1 : Point → Option EVal
  | [_, y] => some y
  | _ => none

/-- `cummin[i] < cummin[i-1]` with `m = cummin[i-1]` carried along. -/
def front2dAux (m : EVal) : List Point → List Bool
  | [] => []
  | r :: rest =>
    match col1 r with
    | some y => (emin m y).lt m :: front2dAux (emin m y) rest
    | none => false :: front2dAux m rest

/-- `_is_pareto_front_2d` -/
def front2d : List Point → List Bool
  | [] => []
  | r :: rest =>
    match col1 r with
    | some y => true :: front2dAux y rest
    | none => true :: rest.map (fun _ => false)

/-- The `while len(loss_values)` loop of `_is_pareto_front_nd` on `(index, row[1:])` pairs: mark the top row,
keep the rows that have some coordinate strictly below the top row's (the mask is False for the top row itself,
because `<` is irreflexive). Returns the marked indices. -/
def peel : List (Nat × Point) → List Nat
  | [] => []
  | p :: rest => p.1 :: peel (rest.filter (fun q => anyLt q.2 p.2))
termination_by l => l.length
decreasing_by
  simp only [List.length_cons, List.length_unattach]
  exact Nat.lt_succ_of_le (Nat.le_trans (List.length_filter_le _ _) (Nat.le_of_eq List.length_attach))

/-- `_is_pareto_front_nd` -/
def frontNd (u : List Point) : List Bool :=
  let marked := peel (u.zipIdx.map (fun x => (x.2, x.1.tail)))
  (List.range u.length).map (fun i => marked.contains i)

/-- `_is_pareto_front_for_unique_sorted` -/
def frontSorted (u : List Point) : List Bool :=
  match u with
  | [] => []
  | r :: _ =>
    if r.length == 1 then front1d u
    else if r.length == 2 then front2d u
    else frontNd u

/-- `_is_pareto_front(loss_values, assume_unique_lexsorted=False)`: `on_front[order_inv]`. -/
def isParetoFront (rows : List Point) : List Bool :=
  let u := uniqueLexsort rows
  let f := frontSorted u
  rows.map (fun r => f.getD (u.idxOf r) false)

/-- `_normalize_value` -/
def normalize (d : Dir) (v : EVal) : EVal :=
  match d with
  | .maximize => v.neg
  | .minimize => v

def normRow : List Dir → List EVal → Point
  | d :: ds, v :: vs => normalize d v :: normRow ds vs
  | _, _ => []

/-- `Study.best_trials`: `None` on `ValueError("The number of the values and the number of the objectives must be identical.")`,
else the numbers of the returned trials, in order. -/
def bestTrials (dirs : List Dir) (ts : List BTrial) : Option (List Nat) :=
  let constrained := ts.any (fun t => t.cons.hasKey)
  let c := ts.zipIdx.filter (fun x => x.1.state == .complete && (!constrained || feasible x.1))
  if c.any (fun x => (x.1.values.getD []).length != dirs.length) then none
  else
    let loss := c.map (fun x => normRow dirs (x.1.values.getD []))
    let on := isParetoFront loss
    some (((c.zip on).filter (fun y => y.2)).map (fun y => y.1.2))

end OptunaVerif.Best
